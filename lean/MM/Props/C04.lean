/-
  C04 — Transit agents see only ciphertext of tunnelled application data.

  "When a tunnel crosses transit agents, every application byte in a frame relayed between ingress
   and exit is sealed under that tunnel's end-to-end key.  Transit agents never hold that key.  This
   applies to TCP streams, port forwards, UDP datagrams, and ICMP echo payloads exchanged between
   honest endpoints."

  Model: MM/Model/C04.lean (symbolic).  The property is proved for a RELAYING transit (it forwards
  the open/ack frames it is given — the situation the statement describes), for every zero-key
  table, i.e. for the pinned tree and the repaired one alike.

  The stronger variant against a transit that REWRITES the ephemeral key fields is
  `C04_statement_active`.  It is refuted for every table by key substitution
  (`C04_active_refuted_mitm`: ephemeral keys are unauthenticated — a protocol limit).  Against a
  transit that can only forward or ZERO the key fields:
    * on the pinned tree it is refuted too (`C04_pinned_zero_key_downgrade`): zeroing the key in a
      UDP/ICMP open switches both honest ends to plaintext — no key needed;
    * once the ingress refuses a key-less ack (fixes/C04-ingress-requires-ephemeral-key.patch) it
      holds for every kind (`C04_active_partial`).

  Tie: engine `c04` (harness/main/eng_c04.go): unit-level ops, probes regenerated into MM/Gen/C04.lean,
  and a 3-agent in-process mesh of real agents with a tap on the transit — passive for every tunnel
  kind, and ACTIVE for UDP (the tap zeroes the key fields of UDP_OPEN / UDP_OPEN_ACK).
-/
import MM.Model.C04

namespace MM.C04

/-- The session key behind a relaying transit. -/
def sessionKey (req : Nat) : Term := .kdf (.shared .ingress .exit) req (.pub .ingress) (.pub .exit)

/-- Both honest ends pick the same key behind a relaying transit, whatever the zero-key tables
    (C03 in symbolic form). -/
theorem C04_same_key (T : Tables) (kd : Kind) (req : Nat) :
    exitMode T kd req passive = .sealWith (sessionKey req) ∧
    ingressMode T kd req passive = .sealWith (sessionKey req) := ⟨rfl, rfl⟩

theorem dataFrames_sealed (k : Term) (pfx : Nat) (cs : List Nat) (ctr : Nat) :
    ∀ f ∈ dataFrames (.sealWith k) pfx ctr cs, ∃ c n, f = ⟨.data, [.sealed k pfx n (.atom c)]⟩ := by
  induction cs generalizing ctr with
  | nil => intro f hf; cases hf
  | cons c cs ih =>
    intro f hf
    simp only [dataFrames] at hf
    rcases List.mem_cons.mp hf with h | h
    · exact ⟨c, ctr, h⟩
    · exact ih (ctr + 1) f h

theorem dataFrames_plain (pfx : Nat) (cs : List Nat) (ctr : Nat) :
    ∀ f ∈ dataFrames .plaintext pfx ctr cs, ∃ c, f = ⟨.data, [.atom c]⟩ := by
  induction cs generalizing ctr with
  | nil => intro f hf; cases hf
  | cons c cs ih =>
    intro f hf
    simp only [dataFrames] at hf
    rcases List.mem_cons.mp hf with h | h
    · exact ⟨c, h⟩
    · exact ih (ctr + 1) f h

theorem dataFrames_refuse (pfx : Nat) (cs : List Nat) (ctr : Nat) : dataFrames .refuse pfx ctr cs = [] := by
  cases cs <;> rfl

theorem wire_passive (T : Tables) (kd : Kind) (req dest bound : Nat) (up down : List Nat) :
    wireWith T kd passive req dest bound up down =
      ⟨.openF, [.const req, .const dest, .pub .ingress]⟩ ::
      (dataFrames (.sealWith (sessionKey req)) 0 0 up ++
       ⟨.ack, [.const req, .const bound, .pub .exit]⟩ ::
       dataFrames (.sealWith (sessionKey req)) 0x80000000 0 down) := rfl

/-- C04 (i): behind a relaying transit, for EVERY tunnel kind, zero-key table, request id,
    destination and payload in either direction, every data frame's application field is
    `sealed sessionKey (dir, ctr) chunk`. -/
theorem C04_payload_sealed (T : Tables) (kd : Kind) (req dest bound : Nat) (up down : List Nat) :
    ∀ f ∈ wireWith T kd passive req dest bound up down, f.typ = .data →
      ∃ c pfx n, f = ⟨.data, [.sealed (sessionKey req) pfx n (.atom c)]⟩ := by
  intro f hf hd
  rw [wire_passive] at hf
  rcases List.mem_cons.mp hf with h | h
  · rw [h] at hd; cases hd
  · rcases List.mem_append.mp h with h | h
    · obtain ⟨c, n, hc⟩ := dataFrames_sealed _ _ _ _ f h
      exact ⟨c, 0, n, hc⟩
    · rcases List.mem_cons.mp h with h | h
      · rw [h] at hd; cases hd
      · obtain ⟨c, n, hc⟩ := dataFrames_sealed _ _ _ _ f h
        exact ⟨c, 0x80000000, n, hc⟩

theorem dataFrames_no_secret (m : Mode) (pfx : Nat) (cs : List Nat) (ctr : Nat) :
    ∀ f ∈ dataFrames m pfx ctr cs, ∀ x ∈ f.fields, isSecretMaterial x = false := by
  intro f hf x hx
  cases m with
  | sealWith k =>
    obtain ⟨c, n, hc⟩ := dataFrames_sealed k pfx cs ctr f hf
    subst hc; simp only [List.mem_singleton] at hx; subst hx; rfl
  | plaintext =>
    obtain ⟨c, hc⟩ := dataFrames_plain pfx cs ctr f hf
    subst hc; simp only [List.mem_singleton] at hx; subst hx; rfl
  | refuse => rw [dataFrames_refuse] at hf; cases hf

/-- C04 (ii): no frame field is a private key, a shared secret or a derived key — for ANY table and
    ANY transit behaviour (frames carry only public keys, public constants and sealed/plain chunks). -/
theorem C04_key_not_on_wire (T : Tables) (kd : Kind) (t : Tamper) (req dest bound : Nat) (up down : List Nat) :
    ∀ f ∈ wireWith T kd t req dest bound up down, ∀ x ∈ f.fields, isSecretMaterial x = false := by
  intro f hf x hx
  unfold wireWith at hf
  have hfield3 : ∀ (a b c : Term), isSecretMaterial a = false → isSecretMaterial b = false →
      isSecretMaterial c = false → ∀ y ∈ [a, b, c], isSecretMaterial y = false := by
    intro a b c ha hb hc y hy
    simp only [List.mem_cons, List.mem_nil_iff, or_false] at hy
    rcases hy with rfl | rfl | rfl <;> assumption
  rcases List.mem_cons.mp hf with h | h
  · subst h; exact hfield3 _ _ _ rfl rfl rfl x hx
  · rcases List.mem_append.mp h with h | h
    · exact dataFrames_no_secret _ _ _ _ f h x hx
    · split at h
      · cases h
      · rcases List.mem_cons.mp h with h | h
        · subst h; exact hfield3 _ _ _ rfl rfl rfl x hx
        · split at h
          · exact dataFrames_no_secret _ _ _ _ f h x hx
          · cases h
      · rcases List.mem_cons.mp h with h | h
        · subst h; exact hfield3 _ _ _ rfl rfl rfl x hx
        · exact dataFrames_no_secret _ _ _ _ f h x hx

theorem sealed_invisible {k : Term} (hk : knowsKey [.transit] k = false) (pfx : Nat) (cs : List Nat) (ctr : Nat) :
    ∀ f ∈ dataFrames (.sealWith k) pfx ctr cs, visibleFrame [.transit] f = [] := by
  intro f hf
  obtain ⟨c, n, hc⟩ := dataFrames_sealed k pfx cs ctr f hf
  subst hc
  simp [visibleFrame, visible, hk]

/-- C04 (iii): a relaying transit — knowing its own private key and everything on the wire — reads no
    application atom in any frame, for every tunnel kind, table and payload. -/
theorem C04_transit_reads_nothing (T : Tables) (kd : Kind) (req dest bound : Nat) (up down : List Nat) :
    ∀ f ∈ wireWith T kd passive req dest bound up down, visibleFrame [.transit] f = [] := by
  intro f hf
  rw [wire_passive] at hf
  rcases List.mem_cons.mp hf with h | h
  · subst h; rfl
  · rcases List.mem_append.mp h with h | h
    · exact sealed_invisible rfl _ _ _ f h
    · rcases List.mem_cons.mp h with h | h
      · subst h; rfl
      · exact sealed_invisible rfl _ _ _ f h


/-! ### explicit coverage: tunnel kind × direction × fault/close phase -/

inductive Direction where
  | up      -- ingress -> exit
  | down    -- exit -> ingress
  deriving Repr, DecidableEq

/-- What happens to a sender's chunk sequence on the way to the link. -/
inductive PhaseTag where
  | steady            -- every chunk is handed to the link once
  | closeMidWrite     -- the tunnel is torn down in the middle of a multi-chunk write: a prefix goes out
  | writeFaultRetry   -- handing chunk k to the link fails once and is repeated (re-sealed, next counter)
  deriving Repr, DecidableEq

/-- The chunks an endpoint actually seals and hands to the link (`k` = where the close / fault hits). -/
def emitted : PhaseTag → Nat → List Nat → List Nat
  | .steady, _, cs => cs
  | .closeMidWrite, k, cs => cs.take k
  | .writeFaultRetry, k, cs => cs.take (k + 1) ++ cs.drop k

/-- The cases the symbolic model covers (the engine's mesh / handler ops exercise the same grid:
    `mesh <kind>`, `mesh tcpclose`, `hs new <kind> <failk>`). -/
def coverage : List (Kind × Direction × PhaseTag) :=
  Kind.all.flatMap fun kd => [Direction.up, .down].flatMap fun d =>
    [PhaseTag.steady, .closeMidWrite, .writeFaultRetry].map fun p => (kd, d, p)

/-- The list is the full grid: 6 kinds × 2 directions × 3 phases, nothing left out. -/
theorem C04_coverage_complete :
    coverage.length = 36 ∧ ∀ (kd : Kind) (d : Direction) (p : PhaseTag), (kd, d, p) ∈ coverage := by
  refine ⟨by decide, ?_⟩
  intro kd d p
  cases kd <;> cases d <;> cases p <;> decide

/-- One general lemma: whatever sub-sequence with repetitions of its chunks an honest end seals (any
    phase, any cut point `k`), every data frame it emits is sealed under the session key with its
    direction prefix. -/
theorem sealed_any_phase (req pfx : Nat) (p : PhaseTag) (k : Nat) (cs : List Nat) :
    ∀ f ∈ dataFrames (.sealWith (sessionKey req)) pfx 0 (emitted p k cs),
      ∃ c n, f = ⟨.data, [.sealed (sessionKey req) pfx n (.atom c)]⟩ ∧ c ∈ cs := by
  have hsub : ∀ c ∈ emitted p k cs, c ∈ cs := by
    intro c hc
    cases p with
    | steady => exact hc
    | closeMidWrite => exact List.mem_of_mem_take hc
    | writeFaultRetry =>
      rcases List.mem_append.mp hc with h | h
      · exact List.mem_of_mem_take h
      · exact List.mem_of_mem_drop h
  have gen : ∀ (l : List Nat) (ctr : Nat), (∀ c ∈ l, c ∈ cs) →
      ∀ f ∈ dataFrames (.sealWith (sessionKey req)) pfx ctr l,
        ∃ c n, f = ⟨.data, [.sealed (sessionKey req) pfx n (.atom c)]⟩ ∧ c ∈ cs := by
    intro l
    induction l with
    | nil => intro ctr _ f hf; cases hf
    | cons c l ih =>
      intro ctr hl f hf
      simp only [dataFrames] at hf
      rcases List.mem_cons.mp hf with h | h
      · exact ⟨c, ctr, h, hl c List.mem_cons_self⟩
      · exact ih (ctr + 1) (fun x hx => hl x (List.mem_cons_of_mem _ hx)) f h
  exact gen _ 0 hsub

/-- `C04_payload_sealed` for EACH covered case: for every (kind, direction, phase) of `coverage`, every
    zero-key table, cut point and payload, every data frame crossing a relaying transit carries a chunk
    of the application payload sealed under the tunnel's session key. -/
theorem C04_payload_sealed_each :
    ∀ c ∈ coverage, ∀ (T : Tables) (k req dest bound : Nat) (up down : List Nat),
      let (kd, d, p) := c
      let up' := if d = .up then emitted p k up else up
      let down' := if d = .down then emitted p k down else down
      ∀ f ∈ wireWith T kd passive req dest bound up' down', f.typ = .data →
        ∃ ch pfx n, f = ⟨.data, [.sealed (sessionKey req) pfx n (.atom ch)]⟩ := by
  intro c _ T k req dest bound up down
  obtain ⟨kd, d, p⟩ := c
  intro f hf hd
  exact C04_payload_sealed T kd req dest bound _ _ f hf hd

/-- …and nothing the sender did not hand in appears: a sealed chunk is one of the sender's chunks. -/
example : ∀ f ∈ dataFrames (.sealWith (sessionKey 1)) 0 0 (emitted .writeFaultRetry 1 [7, 8, 9]),
    ∃ c n, f = ⟨.data, [.sealed (sessionKey 1) 0 n (.atom c)]⟩ ∧ c ∈ [7, 8, 9] :=
  sealed_any_phase 1 0 .writeFaultRetry 1 [7, 8, 9]

/-- The phases are not vacuous: a retry really repeats a chunk, a close really cuts. -/
example : emitted .writeFaultRetry 1 [7, 8, 9] = [7, 8, 8, 9] ∧ emitted .closeMidWrite 2 [7, 8, 9] = [7, 8] ∧
    (wireWith pinnedT .forward passive 1 2 3 (emitted .closeMidWrite 1 [7, 8]) []).length = 3 := by decide

/-! ### the active variant -/

/-- Statement against a transit that may REWRITE the key fields (forward, zero, or substitute its
    own key): still no application atom readable. -/
def C04_statement_active (T : Tables) : Prop :=
  ∀ (kd : Kind) (t : Tamper) (req dest bound : Nat) (up down : List Nat),
    ∀ f ∈ wireWith T kd t req dest bound up down, visibleFrame [.transit] f = []

/-- Refuted for EVERY table by key substitution (the ephemeral keys are not authenticated): the
    transit hands each end its own public key and reads the TCP stream.  A property of the protocol,
    not of an implementation slip; it is why the proved statement is about a relaying transit. -/
theorem C04_active_refuted_mitm (T : Tables) : ¬ C04_statement_active T := by
  intro h
  have := h .tcp ⟨.own, .own⟩ 1 2 3 [7] [8]
    ⟨.data, [.sealed (.kdf (.shared .ingress .transit) 1 (.pub .ingress) (.pub .transit)) 0 0 (.atom 7)]⟩
    (by simp [wireWith, ingressMode, exitMode, ackKey, decideWith, KeyEdit.apply, dhT, dataFrames])
  revert this
  decide

/-- What the pinned tree did: the transit zeroes the key field of a UDP open — no key of its own
    needed.  The exit answers with a key-less ack, both honest ends run in plaintext mode, and the
    datagrams of both directions cross the transit readable. -/
theorem C04_pinned_zero_key_downgrade :
    ⟨.data, [.atom 7]⟩ ∈ wireWith pinnedT .udp ⟨.zero, .keep⟩ 1 2 3 [7] [8] ∧
    ⟨.data, [.atom 8]⟩ ∈ wireWith pinnedT .udp ⟨.zero, .keep⟩ 1 2 3 [7] [8] ∧
    visibleFrame [.transit] ⟨.data, [.atom 7]⟩ = [7] ∧
    ⟨.data, [.atom 7]⟩ ∈ wireWith pinnedT .icmp ⟨.zero, .zero⟩ 1 2 3 [7] [8] := by decide

/-- The same tampering once the ingress refuses a key-less ack: the open and the exit's key-less ack,
    and not a single data frame. -/
theorem C04_ingress_fixed_zero_key (req dest bound : Nat) (up down : List Nat) :
    wireWith ingressFixedT .udp ⟨.zero, .keep⟩ req dest bound up down =
      [⟨.openF, [.const req, .const dest, .pub .ingress]⟩, ⟨.ack, [.const req, .const bound, .zeroKey]⟩] := by
  simp [wireWith, ingressMode, exitMode, ackKey, decideWith, KeyEdit.apply, ingressFixedT, fallbackV0,
    noFallback, dataFrames_refuse, Mode.established]

/-- Strongest true restriction of the active statement: if the ingress never falls back (whatever
    the exit side does) and the transit can only forward or ZERO the key fields (no key of its own),
    NO tunnel kind leaks anything — a zeroed key stops the tunnel instead of downgrading it. -/
theorem C04_active_partial (T : Tables) (hT : ∀ kd, T.ingress kd = false) (kd : Kind) (t : Tamper)
    (ho : t.onOpen ≠ .own) (ha : t.onAck ≠ .own) (req dest bound : Nat) (up down : List Nat) :
    ∀ f ∈ wireWith T kd t req dest bound up down, visibleFrame [.transit] f = [] := by
  obtain ⟨eo, ea⟩ := t
  simp only at ho ha
  have hI := hT kd
  intro f hf
  unfold wireWith at hf
  rcases List.mem_cons.mp hf with h | h
  · subst h; rfl
  · cases eo with
    | own => exact absurd rfl ho
    | keep =>
      -- the exit did a key exchange; the ingress seals with the same key or refuses
      cases ea with
      | own => exact absurd rfl ha
      | keep =>
        simp only [ingressMode, exitMode, ackKey, decideWith, KeyEdit.apply, dhT] at h
        rcases List.mem_append.mp h with h | h
        · exact sealed_invisible rfl _ _ _ f h
        · rcases List.mem_cons.mp h with h | h
          · subst h; rfl
          · exact sealed_invisible rfl _ _ _ f h
      | zero =>
        simp only [ingressMode, exitMode, ackKey, decideWith, KeyEdit.apply, dhT, hI,
          Bool.false_eq_true, if_false, dataFrames_refuse, List.nil_append] at h
        rcases List.mem_cons.mp h with h | h
        · subst h; rfl
        · exact sealed_invisible rfl _ _ _ f h
    | zero =>
      -- the exit saw no key: it refuses, or runs in plaintext mode and acks without a key, which
      -- the ingress refuses whatever the transit does to the ack
      cases hE : T.exit kd <;>
        cases ea <;>
        simp only [ingressMode, exitMode, ackKey, decideWith, KeyEdit.apply, hI, hE,
          Bool.false_eq_true, if_false, if_true, dataFrames_refuse, List.nil_append,
          Mode.established, List.mem_cons, or_false, List.not_mem_nil] at h
      all_goals first
        | (subst h; rfl)
        | exact absurd rfl ha
        | exact h.elim

/-- `C04_active_partial` applies to the repaired ingress; and the kinds that had the plaintext
    fallback on the pinned tree were exactly UDP and ICMP. -/
theorem C04_pinned_fallback_kinds :
    Kind.all.filter fallbackV0 = [.udp, .icmp] ∧ (∀ kd ∈ Kind.all, ingressFixedT.ingress kd = false) := by
  decide

/-! ### non-vacuity -/

example : wireWith pinnedT .tcp passive 1 2 3 [7] [8] =
    [⟨.openF, [.const 1, .const 2, .pub .ingress]⟩,
     ⟨.data, [.sealed (sessionKey 1) 0 0 (.atom 7)]⟩,
     ⟨.ack, [.const 1, .const 3, .pub .exit]⟩,
     ⟨.data, [.sealed (sessionKey 1) 0x80000000 0 (.atom 8)]⟩] := by decide

/-- The endpoints themselves DO read the payload (the seal is not opaque to everyone). -/
example : visibleFrame [.exit] ⟨.data, [.sealed (sessionKey 1) 0 0 (.atom 7)]⟩ = [7] := by decide

end MM.C04
