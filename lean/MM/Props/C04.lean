/-
  C04 — Transit agents see only ciphertext of tunnelled application data.

  "When a tunnel crosses transit agents, every application byte in a frame relayed between ingress
   and exit is sealed under that tunnel's end-to-end key.  Transit agents never hold that key.  This
   applies to TCP streams, port forwards, UDP datagrams, and ICMP echo payloads exchanged between
   honest endpoints."

  Model: MM/Model/C04.lean (symbolic).  The property is proved for a RELAYING transit (it forwards
  the open/ack frames it is given — the situation the statement describes: honest endpoints, frames
  relayed).  The stronger variant against a transit that REWRITES the ephemeral keys in open/ack is
  stated as `C04_statement_active` and REFUTED (`C04_active_refuted_mitm`): no tunnel kind
  authenticates the ephemeral keys, a transit can substitute its own.  `C04_active_partial` is the
  strongest true restriction: a transit that can only forward or ZERO the key fields learns nothing,
  for every kind — on the pinned tree that failed for UDP/ICMP (`C04_pinned_zero_key_downgrade`:
  zeroing the key field switched both honest ends to plaintext), repaired by
  fixes/C04-refuse-zero-ephemeral-key.patch.

  Tie: engine `c04` (harness/main/eng_c04.go): (1) unit level — real udp.Association / icmp.Session
  with and without a session key, agent.deriveICMPSessionKey / agent.deriveResponderSessionKey on a
  zero remote key, compared with `decide`; (2) a 3-agent in-process mesh of real agents with a tap on
  the transit's inbound frames.
-/
import MM.Model.C04

namespace MM.C04

/-- Both honest ends pick the same key behind a relaying transit (C03 in symbolic form). -/
theorem C04_same_key (kd : Kind) (req : Nat) :
    decide kd .ingress true req (.pub .exit) = decide kd .exit false req (.pub .ingress) := rfl

theorem wire_eq (kd : Kind) (t : Tamper) (req dest bound : Nat) (up down : List Nat) :
    wire kd t req dest bound up down =
      ingressFrames noFallback kd req dest t.rkSeenByIngress up ++
      exitFrames noFallback kd req bound t.ikSeenByExit down := rfl

theorem dataFrames_sealed (k : Term) (pfx : Nat) (cs : List Nat) (ctr : Nat) :
    ∀ f ∈ dataFrames (.sealWith k) pfx ctr cs, ∃ c n, f = ⟨.data, [.sealed k pfx n (.atom c)]⟩ := by
  induction cs generalizing ctr with
  | nil => intro f hf; cases hf
  | cons c cs ih =>
    intro f hf
    simp only [dataFrames] at hf
    rcases List.mem_cons.mp hf with h | h
    · exact ⟨c, ctr, h⟩
    · exact ih (ctr + 1) f h

/-- The session key behind a relaying transit. -/
def sessionKey (req : Nat) : Term := .kdf (.shared .ingress .exit) req (.pub .ingress) (.pub .exit)

/-- C04 (i): behind a relaying transit, for EVERY tunnel kind, request id, destination and payload
    in either direction, every data frame's application field is `sealed sessionKey (dir, ctr) chunk`. -/
theorem C04_payload_sealed (kd : Kind) (req dest bound : Nat) (up down : List Nat) :
    ∀ f ∈ wire kd passive req dest bound up down, f.typ = .data →
      ∃ c pfx n, f = ⟨.data, [.sealed (sessionKey req) pfx n (.atom c)]⟩ := by
  intro f hf hd
  rw [wire_eq] at hf
  unfold ingressFrames exitFrames passive at hf
  simp only [decideWith, dhT] at hf
  rcases List.mem_append.mp hf with h | h
  · rcases List.mem_cons.mp h with h | h
    · rw [h] at hd; cases hd
    · obtain ⟨c, n, hc⟩ := dataFrames_sealed _ _ _ _ f h
      exact ⟨c, 0, n, hc⟩
  · rcases List.mem_cons.mp h with h | h
    · rw [h] at hd; cases hd
    · obtain ⟨c, n, hc⟩ := dataFrames_sealed _ _ _ _ f h
      exact ⟨c, 0x80000000, n, hc⟩

/-- C04 (ii): no frame field is a private key, a shared secret or a derived key — for ANY transit
    behaviour (frames carry only public keys, public constants and sealed/plain chunks). -/
theorem C04_key_not_on_wire (kd : Kind) (t : Tamper) (req dest bound : Nat) (up down : List Nat) :
    ∀ f ∈ wire kd t req dest bound up down, ∀ x ∈ f.fields, isSecretMaterial x = false := by
  have hdata : ∀ (m : Mode) (pfx : Nat) (cs : List Nat) (ctr : Nat), ∀ f ∈ dataFrames m pfx ctr cs,
      ∀ x ∈ f.fields, isSecretMaterial x = false := by
    intro m pfx cs
    induction cs with
    | nil => intro ctr f hf; cases hf
    | cons c cs ih =>
      intro ctr f hf x hx
      cases m with
      | sealWith k =>
        simp only [dataFrames] at hf
        rcases List.mem_cons.mp hf with h | h
        · subst h; simp only [List.mem_singleton] at hx; subst hx; rfl
        · exact ih (ctr + 1) f h x hx
      | plaintext =>
        simp only [dataFrames] at hf
        rcases List.mem_cons.mp hf with h | h
        · subst h; simp only [List.mem_singleton] at hx; subst hx; rfl
        · exact ih (ctr + 1) f h x hx
      | refuse => simp only [dataFrames] at hf; cases hf
  intro f hf x hx
  rw [wire_eq] at hf
  unfold ingressFrames exitFrames at hf
  rcases List.mem_append.mp hf with h | h
  · rcases List.mem_cons.mp h with h | h
    · subst h
      simp only [List.mem_cons, List.mem_nil_iff, or_false] at hx
      rcases hx with rfl | rfl | rfl <;> rfl
    · exact hdata _ _ _ _ f h x hx
  · split at h
    · cases h
    · rcases List.mem_cons.mp h with h | h
      · subst h
        simp only [List.mem_cons, List.mem_nil_iff, or_false] at hx
        rcases hx with rfl | rfl | rfl <;> rfl
      · exact hdata _ _ _ _ f h x hx
    · rcases List.mem_cons.mp h with h | h
      · subst h
        simp only [List.mem_cons, List.mem_nil_iff, or_false] at hx
        rcases hx with rfl | rfl | rfl <;> rfl
      · exact hdata _ _ _ _ f h x hx

/-- C04 (iii): a relaying transit — knowing its own private key and everything on the wire — reads no
    application atom in any frame, for every tunnel kind and every payload. -/
theorem C04_transit_reads_nothing (kd : Kind) (req dest bound : Nat) (up down : List Nat) :
    ∀ f ∈ wire kd passive req dest bound up down, visibleFrame [.transit] f = [] := by
  intro f hf
  cases hty : f.typ with
  | data =>
    obtain ⟨c, pfx, n, hc⟩ := C04_payload_sealed kd req dest bound up down f hf hty
    subst hc
    rfl
  | openF =>
    rw [wire_eq] at hf
    unfold ingressFrames exitFrames passive at hf
    simp only [decideWith, dhT] at hf
    rcases List.mem_append.mp hf with h | h
    · rcases List.mem_cons.mp h with h | h
      · subst h; rfl
      · obtain ⟨c, n, hc⟩ := dataFrames_sealed _ _ _ _ f h; subst hc; cases hty
    · rcases List.mem_cons.mp h with h | h
      · subst h; rfl
      · obtain ⟨c, n, hc⟩ := dataFrames_sealed _ _ _ _ f h; subst hc; cases hty
  | ack =>
    rw [wire_eq] at hf
    unfold ingressFrames exitFrames passive at hf
    simp only [decideWith, dhT] at hf
    rcases List.mem_append.mp hf with h | h
    · rcases List.mem_cons.mp h with h | h
      · subst h; rfl
      · obtain ⟨c, n, hc⟩ := dataFrames_sealed _ _ _ _ f h; subst hc; cases hty
    · rcases List.mem_cons.mp h with h | h
      · subst h; rfl
      · obtain ⟨c, n, hc⟩ := dataFrames_sealed _ _ _ _ f h; subst hc; cases hty

/-! ### the active variant -/

/-- Key fields an active transit can put into a relayed open/ack: the genuine key, all-zero, or its
    own ephemeral key. -/
def activeChoices (honest : Term) : List Term := [honest, .zeroKey, .pub .transit]

/-- Statement against a transit that may REWRITE the key fields: still no application atom readable. -/
def C04_statement_active : Prop :=
  ∀ (kd : Kind) (t : Tamper), t.ikSeenByExit ∈ activeChoices (.pub .ingress) →
    t.rkSeenByIngress ∈ activeChoices (.pub .exit) →
    ∀ (req dest bound : Nat) (up down : List Nat),
      ∀ f ∈ wire kd t req dest bound up down, visibleFrame [.transit] f = []

/-- Refuted by key substitution (the ephemeral keys are not authenticated): the transit hands each
    end its own public key and reads the TCP stream.  This is a property of the protocol, not of an
    implementation slip; it is why the proved statement is about a relaying transit. -/
theorem C04_active_refuted_mitm : ¬ C04_statement_active := by
  intro h
  have := h .tcp ⟨.pub .transit, .pub .transit⟩ (by decide) (by decide) 1 2 3 [7] [8]
    ⟨.data, [.sealed (.kdf (.shared .ingress .transit) 1 (.pub .ingress) (.pub .transit)) 0 0 (.atom 7)]⟩
    (by decide)
  revert this
  decide

/-- What the pinned tree did: with both key fields of a UDP tunnel zeroed — no key of its own
    needed — the datagrams of both honest ends crossed the transit in plaintext. -/
theorem C04_pinned_zero_key_downgrade :
    ⟨.data, [.atom 7]⟩ ∈ wireWith fallbackV0 .udp ⟨.zeroKey, .zeroKey⟩ 1 2 3 [7] [8] ∧
    ⟨.data, [.atom 8]⟩ ∈ wireWith fallbackV0 .udp ⟨.zeroKey, .zeroKey⟩ 1 2 3 [7] [8] ∧
    visibleFrame [.transit] ⟨.data, [.atom 7]⟩ = [7] := by decide

/-- The same tampering on the fixed code: no data frame at all (both ends refuse). -/
theorem C04_fixed_zero_key_refused (kd : Kind) (req dest bound : Nat) (up down : List Nat) :
    wire kd ⟨.zeroKey, .zeroKey⟩ req dest bound up down = [⟨.openF, [.const req, .const dest, .pub .ingress]⟩] := by
  rw [wire_eq]
  cases up <;> simp [ingressFrames, exitFrames, decideWith, noFallback, dataFrames]

/-- Strongest true restriction: if the transit can only forward or ZERO the key fields (no key of its
    own), NO tunnel kind leaks anything — a zeroed key stops the tunnel instead of downgrading it. -/
theorem C04_active_partial (kd : Kind) (t : Tamper)
    (hi : t.ikSeenByExit = .pub .ingress ∨ t.ikSeenByExit = .zeroKey)
    (hr : t.rkSeenByIngress = .pub .exit ∨ t.rkSeenByIngress = .zeroKey)
    (req dest bound : Nat) (up down : List Nat) :
    ∀ f ∈ wire kd t req dest bound up down, visibleFrame [.transit] f = [] := by
  have hseal : ∀ (k : Term) (pfx : Nat) (cs : List Nat) (ctr : Nat), knowsKey [.transit] k = false →
      ∀ f ∈ dataFrames (.sealWith k) pfx ctr cs, visibleFrame [.transit] f = [] := by
    intro k pfx cs ctr hkk f hf
    obtain ⟨c, n, hc⟩ := dataFrames_sealed k pfx cs ctr f hf
    subst hc
    simp [visibleFrame, visible, hkk]
  intro f hf
  obtain ⟨ik, rk⟩ := t
  simp only at hi hr
  rw [wire_eq] at hf
  unfold ingressFrames exitFrames at hf
  have hk : noFallback kd = false := rfl
  rcases List.mem_append.mp hf with h | h
  · rcases List.mem_cons.mp h with h | h
    · subst h; rfl
    · rcases hr with hr | hr <;> subst hr <;> simp only [decideWith, hk, dhT] at h
      · exact hseal _ _ _ _ rfl f h
      · cases up <;> simp [dataFrames] at h
  · rcases hi with hi | hi <;> subst hi <;> simp only [decideWith, hk, dhT] at h
    · rcases List.mem_cons.mp h with h | h
      · subst h; rfl
      · exact hseal _ _ _ _ rfl f h
    · simp at h

/-- The kinds that had the plaintext fallback on the pinned tree were exactly UDP and ICMP. -/
theorem C04_pinned_fallback_kinds : Kind.all.filter fallbackV0 = [.udp, .icmp] := by decide

/-! ### non-vacuity -/

example : wire .tcp passive 1 2 3 [7] [8] =
    [⟨.openF, [.const 1, .const 2, .pub .ingress]⟩,
     ⟨.data, [.sealed (sessionKey 1) 0 0 (.atom 7)]⟩,
     ⟨.ack, [.const 1, .const 3, .pub .exit]⟩,
     ⟨.data, [.sealed (sessionKey 1) 0x80000000 0 (.atom 8)]⟩] := by decide

/-- The endpoints themselves DO read the payload (the seal is not opaque to everyone). -/
example : visibleFrame [.exit] ⟨.data, [.sealed (sessionKey 1) 0 0 (.atom 7)]⟩ = [7] := by decide

end MM.C04
