/-
  C08 — CIDR route lookup is longest-prefix match with lowest-metric tie-break.

  "For any destination address, the route lookup returns a route whose network contains
   the address and has the longest prefix among all stored routes that contain it.  Among
   those it has the lowest metric.  It returns nothing exactly when no stored route contains
   the address."   Quantified over every history of additions, updates, removals, peer
   disconnects and stale-route cleanups, and every address.

  Model: MM/Model/C08.lean (`routing.Table` after fixes/C08-canonical-network.patch: routes are
  stored and keyed by their canonical network).  `contains` / `plen` are `net.IPNet.Contains`
  and the prefix length within the network's own address family.  Helpers: MM/Lemmas/C08.lean.

  On the tree before the repair the statement is false (10.1.2.3/8 metric 9 beside 10.0.0.0/8
  metric 1; ::ffff:10.0.0.0/104 beside 10.1.0.0/16): `C08_unrepaired_refuted` below proves that
  for the model of the old keying, which is why `canon` is part of the model and of the code.
-/
import MM.Lemmas.C08

namespace MM.C08
open MM

/-- The property for one table, one address and one lookup answer. -/
def LPM (t : CTable) (ip : IPAddr) : Option (Entry IPNet) → Prop
  | some r => r ∈ routes t ∧ contains r.pay ip = true ∧
      ∀ r' ∈ routes t, contains r'.pay ip = true →
        plen r'.pay ≤ plen r.pay ∧ (plen r'.pay = plen r.pay → r.metric ≤ r'.metric)
  | none => ∀ r' ∈ routes t, contains r'.pay ip = false

/-- C08 at full strength: after any history, for any address. -/
def C08_statement : Prop :=
  ∀ (self : Nat) (ops : List (Op CKey IPNet)) (ip : IPAddr),
    LPM (run cidrCfg self ops).tab ip (lookup (run cidrCfg self ops).tab ip)

/-! ### the invariant, for every history -/

/-- Every table operation preserves the invariant (distinct keys; per key a non-empty,
    metric-sorted slice of canonical networks of that key, one per origin, no local agent in a path). -/
theorem C08_inv_step {self : Nat} {s : State CKey IPNet} (h : WF cidrCfg self s.tab)
    (op : Op CKey IPNet) : WF cidrCfg self (step cidrCfg self s op).tab := WF_step h op

/-- … hence it holds after every history. -/
theorem C08_inv_run (self : Nat) (ops : List (Op CKey IPNet)) :
    WF cidrCfg self (run cidrCfg self ops).tab := WF_run cidrCfg self ops

/-- The repair keeps the set of addresses a route covers, and its prefix length. -/
theorem C08_canon_same_network (n : IPNet) (ip : IPAddr) :
    contains (canon n) ip = contains n ip ∧ plen (canon n) = plen n :=
  ⟨contains_canon n ip, plen_canon n⟩

/-! ### the scan of `lookupUnlocked` -/

private theorem lookupStep_spec (ip : IPAddr) (acc : Option (Entry IPNet))
    (kg : CKey × Group IPNet) :
    (lookupStep ip acc kg = acc ∨
      ∃ r, kg.2.head? = some r ∧ lookupStep ip acc kg = some r ∧ contains r.pay ip = true) ∧
    (∀ a, acc = some a → ∃ r, lookupStep ip acc kg = some r ∧ rawOnes a.pay ≤ rawOnes r.pay) ∧
    (∀ h, kg.2.head? = some h → contains h.pay ip = true →
      ∃ r, lookupStep ip acc kg = some r ∧ rawOnes h.pay ≤ rawOnes r.pay) := by
  obtain ⟨k, g⟩ := kg
  cases g with
  | nil =>
    have hs : lookupStep ip acc (k, []) = acc := rfl
    rw [hs]
    exact ⟨Or.inl rfl, fun a ha => ⟨a, ha, Nat.le_refl _⟩, fun h hh => by cases hh⟩
  | cons first rest =>
    have hhead : ∀ h, (k, first :: rest).2.head? = some h → h = first := by
      intro h hh; simp only [List.head?_cons, Option.some.injEq] at hh; exact hh.symm
    by_cases hc : contains first.pay ip = true
    · cases acc with
      | none =>
        have hs : lookupStep ip none (k, first :: rest) = some first := by
          simp [lookupStep, hc]
        rw [hs]
        refine ⟨Or.inr ⟨first, rfl, rfl, hc⟩, (fun a ha => by cases ha), ?_⟩
        intro h hh _
        rw [hhead h hh]
        exact ⟨_, rfl, Nat.le_refl _⟩
      | some b =>
        by_cases hgt : rawOnes first.pay > rawOnes b.pay
        · have hs : lookupStep ip (some b) (k, first :: rest) = some first := by
            simp [lookupStep, hc, hgt]
          rw [hs]
          refine ⟨Or.inr ⟨first, rfl, rfl, hc⟩, ?_, ?_⟩
          · intro a ha; simp only [Option.some.injEq] at ha; subst ha
            exact ⟨first, rfl, Nat.le_of_lt hgt⟩
          · intro h hh _
            rw [hhead h hh]
            exact ⟨_, rfl, Nat.le_refl _⟩
        · have hs : lookupStep ip (some b) (k, first :: rest) = some b := by
            simp [lookupStep, hc, hgt]
          rw [hs]
          refine ⟨Or.inl rfl, fun a ha => ⟨a, ha, Nat.le_refl _⟩, ?_⟩
          intro h hh _
          rw [hhead h hh]
          exact ⟨b, rfl, by omega⟩
    · have hc' : contains first.pay ip = false := by simpa using hc
      have hs : lookupStep ip acc (k, first :: rest) = acc := by
        simp [lookupStep, hc']
      rw [hs]
      refine ⟨Or.inl rfl, fun a ha => ⟨a, ha, Nat.le_refl _⟩, ?_⟩
      intro h hh hch
      rw [hhead h hh, hc'] at hch; cases hch

private theorem lookup_foldl (ip : IPAddr) (t : CTable) (acc : Option (Entry IPNet)) :
    (t.foldl (lookupStep ip) acc = acc ∨
      ∃ kg ∈ t, ∃ r, kg.2.head? = some r ∧ t.foldl (lookupStep ip) acc = some r ∧
        contains r.pay ip = true) ∧
    (∀ a, acc = some a →
      ∃ r, t.foldl (lookupStep ip) acc = some r ∧ rawOnes a.pay ≤ rawOnes r.pay) ∧
    (∀ kg ∈ t, ∀ h, kg.2.head? = some h → contains h.pay ip = true →
      ∃ r, t.foldl (lookupStep ip) acc = some r ∧ rawOnes h.pay ≤ rawOnes r.pay) := by
  induction t generalizing acc with
  | nil =>
    exact ⟨Or.inl rfl, fun a ha => ⟨a, ha, Nat.le_refl _⟩, fun kg hkg => by cases hkg⟩
  | cons kg rest ih =>
    simp only [List.foldl_cons]
    obtain ⟨s1, s2, s3⟩ := lookupStep_spec ip acc kg
    obtain ⟨i1, i2, i3⟩ := ih (lookupStep ip acc kg)
    refine ⟨?_, ?_, ?_⟩
    · rcases i1 with i1 | ⟨kg', hm, r, hh, hr, hc⟩
      · rw [i1]
        rcases s1 with s1 | ⟨r, hh, hr, hc⟩
        · exact Or.inl s1
        · exact Or.inr ⟨kg, List.mem_cons_self, r, hh, hr, hc⟩
      · exact Or.inr ⟨kg', List.mem_cons_of_mem _ hm, r, hh, hr, hc⟩
    · intro a ha
      obtain ⟨r, hr, hle⟩ := s2 a ha
      obtain ⟨r2, hr2, hle2⟩ := i2 r hr
      exact ⟨r2, hr2, Nat.le_trans hle hle2⟩
    · intro kg' hm h hh hc
      rcases List.mem_cons.mp hm with hm | hm
      · subst hm
        obtain ⟨r, hr, hle⟩ := s3 h hh hc
        obtain ⟨r2, hr2, hle2⟩ := i2 r hr
        exact ⟨r2, hr2, Nat.le_trans hle hle2⟩
      · exact i3 kg' hm h hh hc

/-- all entries under one key denote one network -/
private theorem same_key {self : Nat} {k : CKey} {g : Group IPNet}
    (hok : GroupOK cidrCfg self k g) {a b : Entry IPNet} (ha : a ∈ g) (hb : b ∈ g) :
    eff a.pay = eff b.pay := by
  have h1 := hok.key a ha
  have h2 := hok.key b hb
  simp only [cidrCfg] at h1 h2
  rw [h1, h2]

private theorem contains_of_eff {n m : IPNet} (h : eff n = eff m) (ip : IPAddr) :
    contains n ip = contains m ip := by unfold contains; rw [h]

private theorem plen_of_eff {n m : IPNet} (h : eff n = eff m) : plen n = plen m := by
  unfold plen; rw [h]

/-- **Longest-prefix match, lowest metric** for every well-formed table — in whatever order the
    Go map happens to be iterated (`WF` does not depend on the order of `t`). -/
theorem C08_lookup_correct {self : Nat} {t : CTable} (hwf : WF cidrCfg self t) (ip : IPAddr) :
    LPM t ip (lookup t ip) := by
  obtain ⟨f1, -, f3⟩ := lookup_foldl ip t none
  -- facts about stored entries
  have hst : ∀ z, effIP ip = some z → ∀ kg ∈ t, ∀ e ∈ kg.2, contains e.pay ip = true →
      rawOnes e.pay = plen e.pay := by
    intro z hz kg hkg e he hc
    obtain ⟨p, hp⟩ := (hwf.2 kg hkg).stored e he
    simp only [cidrCfg] at hp
    rw [hp] at hc ⊢
    exact rawOnes_canon hz hc
  cases hres : lookup t ip with
  | none =>
    intro r' hr'
    obtain ⟨kg, hkg, he⟩ := mem_routes.mp hr'
    have hok := hwf.2 kg hkg
    cases hg : kg.2 with
    | nil => rw [hg] at he; cases he
    | cons h rest =>
      have hh : kg.2.head? = some h := by rw [hg]; rfl
      have hhm : h ∈ kg.2 := by rw [hg]; exact List.mem_cons_self
      cases hc : contains r'.pay ip with
      | false => rfl
      | true =>
        have : contains h.pay ip = true := by
          rw [contains_of_eff (same_key hok hhm he)]; exact hc
        obtain ⟨r, hr, -⟩ := f3 kg hkg h hh this
        unfold lookup at hres; rw [hres] at hr; cases hr
  | some r =>
    unfold lookup at hres
    rcases f1 with f1 | ⟨kg, hkg, r0, hh, hr0, hc⟩
    · rw [hres] at f1; cases f1
    rw [hres] at hr0
    simp only [Option.some.injEq] at hr0; subst hr0
    have hok := hwf.2 kg hkg
    have hrm : r ∈ kg.2 := by
      cases hg : kg.2 with
      | nil => rw [hg] at hh; cases hh
      | cons x xs => rw [hg] at hh; simp only [List.head?_cons, Option.some.injEq] at hh; subst hh; exact List.mem_cons_self
    refine ⟨mem_routes.mpr ⟨kg, hkg, hrm⟩, hc, ?_⟩
    intro r' hr' hc'
    obtain ⟨kg', hkg', he'⟩ := mem_routes.mp hr'
    have hok' := hwf.2 kg' hkg'
    cases hg' : kg'.2 with
    | nil => rw [hg'] at he'; cases he'
    | cons h' rest' =>
      have hh' : kg'.2.head? = some h' := by rw [hg']; rfl
      have hhm' : h' ∈ kg'.2 := by rw [hg']; exact List.mem_cons_self
      have heq' := same_key hok' hhm' he'
      have hch' : contains h'.pay ip = true := by rw [contains_of_eff heq']; exact hc'
      obtain ⟨r2, hr2, hle⟩ := f3 kg' hkg' h' hh' hch'
      rw [hres] at hr2
      simp only [Option.some.injEq] at hr2; subst hr2
      have hle' : plen r'.pay ≤ plen r.pay := by
        cases hi : effIP ip with
        | none =>
          -- an unusable address is contained in unusable networks only; their prefix length is 0
          have : plen r'.pay = 0 := by unfold plen; rw [contains_invalid hi hc']
          omega
        | some z =>
          rw [hst z hi kg' hkg' h' hhm' hch', hst z hi kg hkg r hrm hc, plen_of_eff heq'] at hle
          exact hle
      refine ⟨hle', ?_⟩
      intro hpl
      -- equal prefix length and a common address: same network, hence same key, same slice
      obtain ⟨p, hp⟩ := hok.stored r hrm
      obtain ⟨q, hq⟩ := hok'.stored r' he'
      simp only [cidrCfg] at hp hq
      have hkeys : kg'.1 = kg.1 := by
        have k1 := hok.key r hrm
        have k2 := hok'.key r' he'
        simp only [cidrCfg] at k1 k2
        rw [← k1, ← k2, hp, hq]
        rw [hp] at hc hpl
        rw [hq] at hc' hpl
        exact canon_key_inj hc' hc hpl
      have hsame : kg'.2 = kg.2 := by
        have g1 := get_of_mem hwf.1 (show (kg.1, kg.2) ∈ t from hkg)
        have g2 := get_of_mem hwf.1 (show (kg'.1, kg'.2) ∈ t from hkg')
        rw [← g1, ← g2, hkeys]
      rw [hsame] at he'
      exact head_min hok.sorted hh he'

/-- The invariant, and the set of stored routes, do not depend on the order in which the Go map
    is enumerated. -/
theorem WF_perm {self : Nat} {t t' : CTable} (hp : t'.Perm t) (hwf : WF cidrCfg self t) :
    WF cidrCfg self t' :=
  ⟨by
    have := hwf.1
    unfold keys at this ⊢
    exact (List.Perm.nodup_iff (hp.map _)).mpr this,
   fun kg hkg => hwf.2 kg (hp.mem_iff.mp hkg)⟩

/-- **Every iteration order**: whatever order `range t.routes` yields (any permutation `t'` of
    the map's entries), the answer computed in that order satisfies the property for the table. -/
theorem C08_any_map_order {self : Nat} {t t' : CTable} (hp : t'.Perm t)
    (hwf : WF cidrCfg self t) (ip : IPAddr) : LPM t ip (lookup t' ip) := by
  have h := C08_lookup_correct (WF_perm hp hwf) ip
  have hr : ∀ x, x ∈ routes t' ↔ x ∈ routes t := by
    intro x
    simp only [mem_routes]
    constructor
    · rintro ⟨kg, hkg, hx⟩; exact ⟨kg, hp.mem_iff.mp hkg, hx⟩
    · rintro ⟨kg, hkg, hx⟩; exact ⟨kg, hp.mem_iff.mpr hkg, hx⟩
  cases hl : lookup t' ip with
  | none =>
    rw [hl] at h
    exact fun r' hr' => h r' ((hr r').mpr hr')
  | some r =>
    rw [hl] at h
    exact ⟨(hr r).mp h.1, h.2.1, fun r' hr' => h.2.2 r' ((hr r').mpr hr')⟩

/-- **C08 holds** for the repaired code: every history, every address. -/
theorem C08_holds : C08_statement := fun self ops ip =>
  C08_lookup_correct (C08_inv_run self ops) ip

/-- Completeness read on its own: nothing is returned exactly when no stored route contains the
    address. -/
theorem C08_lookup_none_iff {self : Nat} {t : CTable} (hwf : WF cidrCfg self t) (ip : IPAddr) :
    lookup t ip = none ↔ ∀ r ∈ routes t, contains r.pay ip = false := by
  have h := C08_lookup_correct hwf ip
  constructor
  · intro hn; rw [hn] at h; exact h
  · intro hall
    cases hres : lookup t ip with
    | none => rfl
    | some r =>
      rw [hres] at h
      have := hall r h.1
      rw [h.2.1] at this; cases this

/-! ### non-vacuity and the forced hypothesis -/


/-- 10.1.2.3/8 -/ private def netA : IPNet := ⟨4, 0x0a010203, 8, 32⟩
/-- 10.0.0.0/8 -/ private def netB : IPNet := ⟨4, 0x0a000000, 8, 32⟩
/-- ::ffff:10.0.0.0/104 -/ private def netM : IPNet := ⟨16, 0xffff0a000000, 104, 128⟩
/-- 10.1.0.0/16 -/ private def netC : IPNet := ⟨4, 0x0a010000, 16, 32⟩
private def ent (p : IPNet) (o m : Nat) : Entry IPNet := ⟨p, o, o, m, 1, [o], 0⟩

/-- A concrete history (non-canonical and IPv4-mapped spellings included) whose lookups return the
    metric-1 /8 for 10.9.9.9 and the /16 for 10.1.9.9. -/
example :
    let t := (run cidrCfg 1 [.add (ent netA 2 9), .add (ent netB 3 1), .add (ent netM 4 5),
                              .add (ent netC 5 7)]).tab
    (lookup t ⟨4, 0x0a090909⟩).map (·.metric) = some 1 ∧
    (lookup t ⟨4, 0x0a010909⟩).map (·.metric) = some 7 ∧
    lookup t ⟨4, 0x0b000000⟩ = none := by decide

/-- the table of the example above: four routes under three keys -/
private def t0 : CTable :=
  (run cidrCfg 1 [.add (ent netA 2 9), .add (ent netB 3 1), .add (ent netM 4 5), .add (ent netC 5 7)]).tab

/-- The hypotheses of `C08_lookup_correct` / `C08_lookup_none_iff` / `C08_inv_step` (`WF`) and of
    `WF_perm` / `C08_any_map_order` (a permutation of a well-formed table) are met by a table that
    is not trivial: 4 routes, 2 keys, one slice of 3 entries. -/
example : WF cidrCfg 1 t0 ∧ (routes t0).length = 4 ∧ t0.length = 2 ∧
    t0.reverse.Perm t0 ∧ t0.reverse ≠ t0 :=
  ⟨C08_inv_run 1 _, by decide, by decide, List.reverse_perm _, by decide⟩

/-- … and the other iteration order gives the same answers on it. -/
example : (lookup t0.reverse ⟨4, 0x0a090909⟩).map (·.metric) = some 1 ∧
    (lookup t0.reverse ⟨4, 0x0a010909⟩).map (·.metric) = some 7 := by decide

/-- The table as it was keyed before the repair: by the network as given. -/
def rawCfg : Cfg CKey IPNet := { cidrCfg with store := id }

/-- Without canonical keys the statement is false: 10.1.2.3/8 (metric 9) stored before
    10.0.0.0/8 (metric 1) answers metric 9 for 10.9.9.9. -/
theorem C08_unrepaired_refuted :
    ¬ ∀ (self : Nat) (ops : List (Op CKey IPNet)) (ip : IPAddr),
        LPM (run rawCfg self ops).tab ip (lookup (run rawCfg self ops).tab ip) := by
  intro h
  have := h 1 [.add (ent netA 2 9), .add (ent netB 3 1)] ⟨4, 0x0a090909⟩
  have hl : lookup (run rawCfg 1 [.add (ent netA 2 9), .add (ent netB 3 1)]).tab ⟨4, 0x0a090909⟩
      = some (ent netA 2 9) := by decide
  rw [hl] at this
  have h2 := this.2.2 (ent netB 3 1) (by decide) (by decide)
  have := h2.2 (by decide)
  revert this; decide

end MM.C08
