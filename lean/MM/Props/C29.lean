/-
  C29 — A validly signed command takes effect at most once per agent.

  "An agent acts on a given signed sleep or wake command at most once.  Replaying the same command
   later, even within its validity window and after arbitrary other traffic or cache maintenance,
   changes nothing."

  Model: MM/Model/C29.lean — histories (deliveries of genuine, replayed and forged commands from any
  peer, clock advance, cache cleanups with any legal choice of size-eviction victims, peer
  connections) over the flooder model of MM/Model/C28.lean, after
    fixes/C29-verify-before-mark.patch  (a command enters the seen cache only after it verified),
    fixes/C29-sleep-cache-ttl.patch     (sleep/wake commands are remembered for max(TTL, 2·window)).
  "Acts on" = `HandleSleepCommand` / `HandleWakeCommand` returns true (the agent then calls
  Sleep()/Wake() and forwards).

  * `C29_partial`: if no cleanup along the history has to size-evict, every signed command is
    accepted at most once — for every configuration (any TTL, any window), every signature predicate,
    every interleaving of genuine, replayed and forged traffic, cleanups and clock advance.
  * `C29_statement` (at most once over EVERY history) remains REFUTED (`C29_refuted`): the cache is
    size-limited and evicts arbitrary entries, so a history with more than MaxSeenCacheSize VALIDLY
    SIGNED commands inside two windows can evict a genuine entry whose replay is then accepted.
    After the fix this needs the key holder's own traffic (forged commands no longer enter the
    cache); it is kept as an open finding.
  * `C29_pinned_ttl_refuted`, `C29_pinned_forged_evict_refuted`: the two defects of the code before
    the fixes (regression witnesses; the fixed model refuses both replays).
-/
import MM.Lemmas.C29

namespace MM.C29
open MM.C28

/-- The full property: over every history, every signed command is accepted at most once. -/
def C29_statement : Prop :=
  ∀ (V : Verifier) (cfg : FCfg) (target : Cmd) (now0 : Int) (evs : List Ev),
    cfg.signing = true → cfg.window < 2^63 - 1 → accepts V cfg target (HState.init now0) evs ≤ 1

/-- `DefaultFloodConfig()`: TTL = window = 5 min, 10 000 entries. -/
def dCfg : FCfg := { signing := true, window := 300000000000, ttl := 300000000000, maxSize := 10000, localID := 0, peers := [1, 2, 3] }
def t0 : Int := 1800000000500000000
/-- A genuine command stamped 299 s ahead of the receiver's clock (inside the window). -/
def genuineAhead : Cmd := { origin := 4, id := 7, ts := 1800000000 + 299, sig := .signed 0 4 7 (1800000000 + 299), seenBy := [] }

def ttlHistory : List Ev :=
  [.deliver .sleep 1 genuineAhead, .advance 301000000000, .cleanup [], .deliver .sleep 2 genuineAhead]

/-- Before the fix (cache TTL = SeenCacheTTL = window): the entry expires after 301 s while the
    command, stamped 299 s ahead, is still inside its window — accepted twice.  Fixed code: once. -/
theorem C29_pinned_ttl_refuted :
    acceptsPinned idealV dCfg genuineAhead (HState.init t0) ttlHistory = 2 ∧
    accepts idealV dCfg genuineAhead (HState.init t0) ttlHistory = 1 := by
  decide

/-- Small cache (2 entries). -/
def sCfg : FCfg := { dCfg with maxSize := 2 }
def genuine : Cmd := { origin := 4, id := 7, ts := 1800000000, sig := .signed 0 4 7 1800000000, seenBy := [] }
def forged (i : Nat) : Cmd := { origin := 4, id := 100 + i, ts := 1800000000, sig := .garbage, seenBy := [] }
def other (i : Nat) : Cmd := { origin := 4, id := 100 + i, ts := 1800000000, sig := .signed 0 4 (100 + i) 1800000000, seenBy := [] }

def forgedEvictHistory : List Ev :=
  [.deliver .sleep 1 genuine, .deliver .sleep 1 (forged 1), .deliver .sleep 1 (forged 2), .deliver .sleep 1 (forged 3),
   .cleanup [(4, 7), (4, 101)], .deliver .sleep 1 genuine]

/-- Before the fix forged ids were marked seen before verification: a peer WITHOUT the key fills
    the cache, size eviction drops the genuine entry, the replay is accepted.  Fixed code: forged
    commands never enter the cache, nothing is evicted, the replay is refused. -/
theorem C29_pinned_forged_evict_refuted :
    acceptsPinned idealV sCfg genuine (HState.init t0) forgedEvictHistory = 2 ∧
    accepts idealV sCfg genuine (HState.init t0) forgedEvictHistory = 1 := by
  decide

/-- What is left after the fixes: eviction by more than MaxSeenCacheSize VALIDLY signed commands. -/
def evictHistory : List Ev :=
  [.deliver .sleep 1 genuine, .deliver .sleep 1 (other 1), .deliver .sleep 1 (other 2), .deliver .sleep 1 (other 3),
   .cleanup [(4, 7), (4, 101)], .deliver .sleep 1 genuine]

theorem C29_evict_witness : accepts idealV sCfg genuine (HState.init t0) evictHistory = 2 := by
  decide

theorem C29_refuted : ¬ C29_statement := by
  intro h
  have := h idealV sCfg genuine t0 evictHistory (by decide) (by decide)
  rw [C29_evict_witness] at this
  exact absurd this (by decide)

/-- **At most once** when nothing is size-evicted: for every verification predicate, every
    configuration (any TTL and window), every starting state and every history in which no cleanup
    has to size-evict (`noEvict`, a decidable condition on the history), every signed command is
    accepted at most once. -/
theorem C29_partial (V : Verifier) (cfg : FCfg) (target : Cmd)
    (hk : cfg.signing = true) (hw : cfg.window < 2^63 - 1) :
    ∀ (evs : List Ev) (s : HState), noEvict V cfg s evs = true → accepts V cfg target s evs ≤ 1 := by
  intro evs
  induction evs with
  | nil => intro s _; exact Nat.zero_le _
  | cons e es ih =>
    intro s hne
    obtain ⟨_, hne2⟩ := noEvict_cons hne
    have ih' := ih _ hne2
    unfold accepts
    cases e with
    | deliver k from_ c =>
      have hstep : stepEv V cfg s (.deliver k from_ c) =
          ({ s with f := (handle V cfg s.f s.now k from_ c).1 },
           if (handle V cfg s.f s.now k from_ c).2.1 then some c else none,
           (handle V cfg s.f s.now k from_ c).2.2.map fun (p, c) => (p, k, c)) := by
        simp only [stepEv]
      rw [hstep] at ih' hne2 ⊢
      dsimp only at ih' hne2 ⊢
      cases hacc : (handle V cfg s.f s.now k from_ c).2.1 with
      | false => simpa using ih'
      | true =>
        simp only [if_true]
        cases hsame : sameCmd c target with
        | false => simpa using ih'
        | true =>
          have hp := accept_protects V cfg target s k from_ c hk hw hacc hsame
          have := accepts_protected V cfg target hk hw es _ hne2 hp
          simp [this]
    | advance d => simpa [stepEv] using ih'
    | cleanup vs => simpa [stepEv] using ih'
    | peer p =>
      generalize hst : stepEv V cfg s (.peer p) = r at *
      obtain ⟨s', acc, sends⟩ := r
      have : acc = none := by
        simp only [stepEv] at hst
        generalize onPeerConnected V cfg s.f s.now p = q at hst
        obtain ⟨f', sd⟩ := q
        simp only [Prod.mk.injEq] at hst
        exact hst.2.1.symm
      subst this
      simpa using ih'

/-- Hypotheses of `C29_partial` are satisfiable and the positive case exists (default configuration,
    the TTL replay history: no eviction, accepted exactly once). -/
example : dCfg.signing = true ∧ dCfg.window < 2^63 - 1 := by decide
example : noEvict idealV dCfg (HState.init t0) ttlHistory = true := by decide
set_option maxRecDepth 8000 in
example : noEvict idealV sCfg (HState.init t0) forgedEvictHistory = true := by decide
set_option maxRecDepth 8000 in
example : noEvict idealV sCfg (HState.init t0) evictHistory = false := by decide

end MM.C29
