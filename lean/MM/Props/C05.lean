/-
  C05 — Wire codecs are lossless and total.

  "Encoding any protocol message whose fields are within their wire limits, then decoding it,
   gives back the same message.  Decoding arbitrary bytes either fails cleanly or yields a message
   that re-encodes to an equivalent message.  It never crashes or allocates memory out of
   proportion to the input."

  Model: MM/Model/C05.lean + MM/Model/C05Comb.lean (tied to /repo/internal/protocol/frame.go by
  T-diff on every kind, constants by T-gen).  `c.wf m` is the executable "fields within their
  wire limits" predicate of a codec (`< 256^k` for k-byte integers and length/count prefixes,
  exact size for ids/keys/signatures, address/prefix length matching its type byte).
  Totality: every decoder is a total function returning `Option`; absence of Go panics is a
  T-diff obligation (spec tag `crashed-*`).
  Only property theorems live here; helpers are in MM/Lemmas/C05*.lean.
-/
import MM.Lemmas.C05
import MM.Lemmas.C05Big
import MM.Gen.C05

namespace MM.C05
open MM

/-- constants of the model are the ones in the source (T-gen tie). -/
theorem constants_tie :
    Gen.C05.headerSize = headerSize ∧ Gen.C05.maxPayloadSize = maxPayload ∧
    Gen.C05.maxFrameSize = headerSize + maxPayload ∧
    Gen.C05.ephemeralKeySize = 32 ∧ Gen.C05.signatureSize = 64 ∧ Gen.C05.idSize = 16 ∧
    Gen.C05.maxPeersInNodeInfo = maxPeers ∧ Gen.C05.maxForwardListenersInNodeInfo = maxFls ∧
    Gen.C05.maxShellsInNodeInfo = maxShells ∧
    Gen.C05.addrTypeIPv4 = 1 ∧ Gen.C05.addrTypeIPv6 = 4 ∧ Gen.C05.addrTypeDomain = 3 ∧
    Gen.C05.addrFamilyIPv4 = 1 ∧ Gen.C05.addrFamilyIPv6 = 2 ∧ Gen.C05.addrFamilyDomain = 3 ∧
    Gen.C05.addrFamilyForward = 4 ∧ Gen.C05.addrFamilyAgent = 5 := by decide

/-! ### generic shape of the two statements -/

/-- Round trip for a kind whose decoder is `decodeTop k c`: sound codec + the encoding of a
    well-formed value passes the minimum-length pre-check. -/
theorem roundtrip_of {c : Codec α} {k : Nat} (hs : c.Sound) (hm : c.MinLen k) (m : α)
    (h : c.wf m = true) : decodeTop k c (c.enc m) = some m :=
  decodeTop_roundtrip hs k m h (hm m h)

/-- Re-encode: whatever decodes (trailing bytes ignored) encodes to bytes that decode to the
    same message. -/
theorem reencode_of {c : Codec α} {k : Nat} (hs : c.Sound) (hw : c.DecWF) (hm : c.MinLen k)
    (bs : Bytes) (m : α) (h : decodeTop k c bs = some m) : decodeTop k c (c.enc m) = some m :=
  roundtrip_of hs hm m (decodeTop_wf hw k bs m h)

/-! ### frame header -/

theorem header_length (h : Nat × Nat × Nat × Nat) : (headerC.enc h).length = headerSize := by
  simp [headerC, seq, be, headerSize]

/-- `Decode(Encode(f)) = f` for every frame whose fields fit (type/flags one byte, stream id
    64 bits, payload ≤ 16384), also with trailing bytes after the frame. -/
theorem Frame_roundtrip (t fl sid : Nat) (p extra : Bytes) (ht : t < 256) (hfl : fl < 256)
    (hsid : sid < 2 ^ 64) (hp : p.length ≤ maxPayload) :
    ∃ b, encodeFrame (t, fl, sid, p) = .ok b ∧ decodeFrame (b ++ extra) = .ok (t, fl, sid, p) := by
  have hmp : maxPayload = 16384 := rfl
  refine ⟨headerC.enc (t, fl, p.length, sid) ++ p, ?_, ?_⟩
  · simp only [encodeFrame]
    rw [if_neg (by omega)]
  · have hwf : headerC.wf (t, fl, p.length, sid) = true := by
      simp [headerC, seq, be]; omega
    have hs : headerC.Sound := by unfold headerC; codec_sound
    have hd := hs _ (p ++ extra) hwf
    have hl := header_length (t, fl, p.length, sid)
    have hhs : headerSize = 14 := rfl
    unfold decodeFrame decodeHeader
    rw [List.append_assoc, if_neg (by simp; omega), hd]
    dsimp only
    rw [if_neg (by omega)]
    dsimp only
    rw [if_neg (by simp; omega), drop_append_len _ _ _ hl, take_append_len _ _ _ rfl]

/-- `Frame.Encode` refuses payloads over MaxPayloadSize. -/
theorem Frame_encode_tooLarge (t fl sid : Nat) (p : Bytes) (hp : p.length > maxPayload) :
    encodeFrame (t, fl, sid, p) = .error .tooLarge := by
  simp only [encodeFrame]; rw [if_pos hp]

/-- Whatever `Decode` accepts has a payload of at most MaxPayloadSize bytes, taken from inside
    the buffer. -/
theorem Frame_decode_le (buf : Bytes) (f : Frame) (h : decodeFrame buf = .ok f) :
    f.2.2.2.length ≤ maxPayload ∧ headerSize + f.2.2.2.length ≤ buf.length := by
  unfold decodeFrame at h
  split at h
  · cases h
  · next t fl len sid hh =>
    split at h
    · cases h
    · next hlen =>
      injection h with h
      subst h
      have hle : len ≤ maxPayload := by
        unfold decodeHeader at hh
        split at hh
        · cases hh
        · split at hh
          · cases hh
          · next hd r _ =>
            split at hh
            · cases hh
            · next hgt =>
              injection hh with hh
              subst hh
              exact Nat.le_of_not_gt hgt
      simp only [List.length_take, List.length_drop]
      omega

/-- A header announcing more than MaxPayloadSize bytes is rejected with ErrFrameTooLarge before
    anything is allocated. -/
theorem Frame_header_tooLarge (t fl len sid : Nat) (rest : Bytes) (ht : t < 256) (hfl : fl < 256)
    (hlen : len < 2 ^ 32) (hsid : sid < 2 ^ 64) (hbig : len > maxPayload) :
    decodeHeader (headerC.enc (t, fl, len, sid) ++ rest) = .error .tooLarge := by
  have hwf : headerC.wf (t, fl, len, sid) = true := by simp [headerC, seq, be]; omega
  have hs : headerC.Sound := by unfold headerC; codec_sound
  have hl := header_length (t, fl, len, sid)
  unfold decodeHeader
  rw [if_neg (by simp; omega), hs _ rest hwf]
  dsimp only
  rw [if_pos hbig]

example : ∃ b, encodeFrame (4, 1, 77, [1, 2, 3]) = .ok b ∧ decodeFrame (b ++ [9]) = .ok (4, 1, 77, [1, 2, 3]) :=
  Frame_roundtrip 4 1 77 [1, 2, 3] [9] (by decide) (by decide) (by decide) (by decide)

/-! ### payload kinds built by composition: `K_roundtrip` and `K_reencode` -/

theorem PeerHello_roundtrip (m) (h : peerHelloC.wf m = true) :
    decodePeerHello (peerHelloC.enc m) = some m :=
  roundtrip_of peerHello_sound (by unfold peerHelloC; codec_minlen) m h
theorem PeerHello_reencode (bs m) (h : decodePeerHello bs = some m) :
    decodePeerHello (peerHelloC.enc m) = some m :=
  reencode_of peerHello_sound peerHello_decwf (by unfold peerHelloC; codec_minlen) bs m h

/-- StreamOpen and UDPOpen (same layout). -/
theorem StreamOpen_roundtrip (m) (h : streamOpenC.wf m = true) :
    decodeStreamOpen (streamOpenC.enc m) = some m :=
  roundtrip_of streamOpen_sound (by unfold streamOpenC; codec_minlen) m h
theorem StreamOpen_reencode (bs m) (h : decodeStreamOpen bs = some m) :
    decodeStreamOpen (streamOpenC.enc m) = some m :=
  reencode_of streamOpen_sound streamOpen_decwf (by unfold streamOpenC; codec_minlen) bs m h

/-- StreamOpenAck and UDPOpenAck (same layout). -/
theorem StreamOpenAck_roundtrip (m) (h : streamOpenAckC.wf m = true) :
    decodeStreamOpenAck (streamOpenAckC.enc m) = some m :=
  roundtrip_of streamOpenAck_sound (by unfold streamOpenAckC; codec_minlen) m h
theorem StreamOpenAck_reencode (bs m) (h : decodeStreamOpenAck bs = some m) :
    decodeStreamOpenAck (streamOpenAckC.enc m) = some m :=
  reencode_of streamOpenAck_sound streamOpenAck_decwf (by unfold streamOpenAckC; codec_minlen) bs m h

/-- StreamOpenErr, UDPOpenErr, ICMPOpenErr (same layout; message ≤ 255 bytes is part of `wf`). -/
theorem StreamOpenErr_roundtrip (m) (h : streamOpenErrC.wf m = true) :
    decodeStreamOpenErr (streamOpenErrC.enc m) = some m :=
  roundtrip_of streamOpenErr_sound (by unfold streamOpenErrC; codec_minlen) m h
theorem StreamOpenErr_reencode (bs m) (h : decodeStreamOpenErr bs = some m) :
    decodeStreamOpenErr (streamOpenErrC.enc m) = some m :=
  reencode_of streamOpenErr_sound streamOpenErr_decwf (by unfold streamOpenErrC; codec_minlen) bs m h

theorem StreamReset_roundtrip (m) (h : streamResetC.wf m = true) :
    decodeStreamReset (streamResetC.enc m) = some m :=
  roundtrip_of streamReset_sound (be_minLen 2) m h
theorem StreamReset_reencode (bs m) (h : decodeStreamReset bs = some m) :
    decodeStreamReset (streamResetC.enc m) = some m :=
  reencode_of streamReset_sound streamReset_decwf (be_minLen 2) bs m h

theorem Keepalive_roundtrip (m) (h : keepaliveC.wf m = true) :
    decodeKeepalive (keepaliveC.enc m) = some m :=
  roundtrip_of keepalive_sound (be_minLen 8) m h
theorem Keepalive_reencode (bs m) (h : decodeKeepalive bs = some m) :
    decodeKeepalive (keepaliveC.enc m) = some m :=
  reencode_of keepalive_sound keepalive_decwf (be_minLen 8) bs m h

/-- UDPClose, ICMPClose. -/
theorem Close_roundtrip (m) (h : closeC.wf m = true) : decodeClose (closeC.enc m) = some m :=
  roundtrip_of close_sound (be_minLen 1) m h
theorem Close_reencode (bs m) (h : decodeClose bs = some m) : decodeClose (closeC.enc m) = some m :=
  reencode_of close_sound close_decwf (be_minLen 1) bs m h

theorem RouteAdvertise_roundtrip (m) (h : routeAdvertiseC.wf m = true) :
    decodeRouteAdvertise (routeAdvertiseC.enc m) = some m :=
  roundtrip_of routeAdvertise_sound (by unfold routeAdvertiseC encPathC; codec_minlen) m h
theorem RouteAdvertise_reencode (bs m) (h : decodeRouteAdvertise bs = some m) :
    decodeRouteAdvertise (routeAdvertiseC.enc m) = some m :=
  reencode_of routeAdvertise_sound routeAdvertise_decwf
    (by unfold routeAdvertiseC encPathC; codec_minlen) bs m h

theorem RouteWithdraw_roundtrip (m) (h : routeWithdrawC.wf m = true) :
    decodeRouteWithdraw (routeWithdrawC.enc m) = some m :=
  roundtrip_of routeWithdraw_sound (by unfold routeWithdrawC; codec_minlen) m h
theorem RouteWithdraw_reencode (bs m) (h : decodeRouteWithdraw bs = some m) :
    decodeRouteWithdraw (routeWithdrawC.enc m) = some m :=
  reencode_of routeWithdraw_sound routeWithdraw_decwf (by unfold routeWithdrawC; codec_minlen) bs m h

theorem EncryptedData_roundtrip (m) (h : (seq bool (lp 2)).wf m = true) :
    decodeEncryptedData ((seq bool (lp 2)).enc m) = some m :=
  roundtrip_of encData_sound (by codec_minlen) m h
theorem EncryptedData_reencode (bs m) (h : decodeEncryptedData bs = some m) :
    decodeEncryptedData ((seq bool (lp 2)).enc m) = some m :=
  reencode_of encData_sound (by codec_decwf) (by codec_minlen) bs m h

theorem Path_roundtrip (m) (h : ids.wf m = true) : decodePath (ids.enc m) = some m :=
  roundtrip_of ids_sound (listN_minLen 1 _) m h
theorem Path_reencode (bs m) (h : decodePath bs = some m) : decodePath (ids.enc m) = some m :=
  reencode_of ids_sound (by codec_decwf) (listN_minLen 1 _) bs m h

theorem ControlRequest_roundtrip (m) (h : controlRequestC.wf m = true) :
    decodeControlRequest (controlRequestC.enc m) = some m :=
  roundtrip_of controlRequest_sound (by unfold controlRequestC; codec_minlen) m h
theorem ControlRequest_reencode (bs m) (h : decodeControlRequest bs = some m) :
    decodeControlRequest (controlRequestC.enc m) = some m :=
  reencode_of controlRequest_sound controlRequest_decwf (by unfold controlRequestC; codec_minlen) bs m h

/-- ControlResponse: data ≤ MaxPayloadSize − 12 is part of `wf` (the encoder clips longer data). -/
theorem ControlResponse_roundtrip (m) (h : controlResponseC.wf m = true) :
    decodeControlResponse (controlResponseC.enc m) = some m :=
  roundtrip_of controlResponse_sound (by unfold controlResponseC; codec_minlen) m h
/-- The decoder takes a 16-bit data length while the encoder clips at MaxPayloadSize − 12, so the
    re-encode statement holds for every input up to the frame payload size (the quantifier of
    C05), not for longer buffers. -/
theorem ControlResponse_reencode (bs m) (hlen : bs.length ≤ maxPayload)
    (h : decodeControlResponse bs = some m) :
    decodeControlResponse (controlResponseC.enc m) = some m := by
  apply ControlResponse_roundtrip
  unfold decodeControlResponse decodeTop at h
  split at h
  · cases h
  · cases hd : controlResponseC.dec bs with
    | none => simp [hd] at h
    | some p =>
      obtain ⟨x, r⟩ := p
      simp [hd] at h
      subst h
      exact controlResponse_decwf_bounded bs x r hlen hd

/-- minimum length 6 = type(1) + domain length byte(1) + port(2) + dataLen(2): every accepted
    address type has a non-empty address. -/
theorem UDPDatagram_roundtrip (m) (h : udpDatagramC.wf m = true) :
    decodeUDPDatagram (udpDatagramC.enc m) = some m :=
  roundtrip_of udpDatagram_sound
    (MinLen.mono (seq_minLen (dep_minLen (be_minLen 1) addrStrict_minLen)
      (seq_minLen (be_minLen 2) (lp_minLen 2))) (by decide)) m h
theorem UDPDatagram_reencode (bs m) (h : decodeUDPDatagram bs = some m) :
    decodeUDPDatagram (udpDatagramC.enc m) = some m :=
  UDPDatagram_roundtrip m (decodeTop_wf udpDatagram_decwf 6 bs m h)

theorem ICMPOpen_roundtrip (m) (h : icmpOpenC.wf m = true) :
    decodeICMPOpen (icmpOpenC.enc m) = some m :=
  roundtrip_of icmpOpen_sound (by unfold icmpOpenC; codec_minlen) m h
theorem ICMPOpen_reencode (bs m) (h : decodeICMPOpen bs = some m) :
    decodeICMPOpen (icmpOpenC.enc m) = some m :=
  reencode_of icmpOpen_sound icmpOpen_decwf (by unfold icmpOpenC; codec_minlen) bs m h

theorem ICMPOpenAck_roundtrip (m) (h : icmpOpenAckC.wf m = true) :
    decodeICMPOpenAck (icmpOpenAckC.enc m) = some m :=
  roundtrip_of icmpOpenAck_sound (by unfold icmpOpenAckC; codec_minlen) m h
theorem ICMPOpenAck_reencode (bs m) (h : decodeICMPOpenAck bs = some m) :
    decodeICMPOpenAck (icmpOpenAckC.enc m) = some m :=
  reencode_of icmpOpenAck_sound icmpOpenAck_decwf (by unfold icmpOpenAckC; codec_minlen) bs m h

theorem ICMPEcho_roundtrip (m) (h : icmpEchoC.wf m = true) :
    decodeICMPEcho (icmpEchoC.enc m) = some m :=
  roundtrip_of icmpEcho_sound (by unfold icmpEchoC; codec_minlen) m h
theorem ICMPEcho_reencode (bs m) (h : decodeICMPEcho bs = some m) :
    decodeICMPEcho (icmpEchoC.enc m) = some m :=
  reencode_of icmpEcho_sound icmpEcho_decwf (by unfold icmpEchoC; codec_minlen) bs m h

/-- SleepCommand and WakeCommand (same layout). -/
theorem SleepWake_roundtrip (m) (h : sleepC.wf m = true) : decodeCmd (sleepC.enc m) = some m :=
  roundtrip_of sleep_sound (by unfold sleepC; codec_minlen) m h
theorem SleepWake_reencode (bs m) (h : decodeCmd bs = some m) : decodeCmd (sleepC.enc m) = some m :=
  reencode_of sleep_sound sleep_decwf (by unfold sleepC; codec_minlen) bs m h

theorem NodeInfoAdvertise_roundtrip (m) (h : nodeInfoAdvertiseC.wf m = true) :
    decodeNodeInfoAdvertise (nodeInfoAdvertiseC.enc m) = some m :=
  roundtrip_of nodeInfoAdvertise_sound (by unfold nodeInfoAdvertiseC encInfoC; codec_minlen) m h
theorem NodeInfoAdvertise_reencode (bs m) (h : decodeNodeInfoAdvertise bs = some m) :
    decodeNodeInfoAdvertise (nodeInfoAdvertiseC.enc m) = some m :=
  reencode_of nodeInfoAdvertise_sound nodeInfoAdvertise_decwf
    (by unfold nodeInfoAdvertiseC encInfoC; codec_minlen) bs m h

/-! vacuity: concrete non-trivial messages satisfy `wf` -/

example : peerHelloC.wf (1, List.replicate 16 7, 1700000000, [97, 98], [[113, 117, 105, 99], []]) = true := by
  decide
example : streamOpenC.wf ((5, 3, [3, 97, 98, 99]), 443, 16, [List.replicate 16 1], List.replicate 32 9) = true := by
  decide
example : streamOpenAckC.wf ((5, 0, []), 0, List.replicate 32 9) = true := by decide
example : routeAdvertiseC.wf (List.replicate 16 1, [110], 3,
    [(((1, 8), [10, 0, 0, 0]), 1), (((3, 0), [1, 120]), 2), (((4, 0), [1, 107, 1, 116]), 0)],
    (false, [0]), [List.replicate 16 1]) = true := by decide
example : sleepC.wf (List.replicate 16 1, 7, 1000, List.replicate 64 0, [List.replicate 16 2]) = true := by
  decide

end MM.C05
