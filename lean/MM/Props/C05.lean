/-
  C05 — Wire codecs are lossless and total.

  "Encoding any protocol message whose fields are within their wire limits, then decoding it,
   gives back the same message.  Decoding arbitrary bytes either fails cleanly or yields a message
   that re-encodes to an equivalent message.  It never crashes or allocates memory out of
   proportion to the input."

  Model: MM/Model/C05.lean + MM/Model/C05Comb.lean (tied to /repo/internal/protocol/frame.go by
  T-diff on every kind, constants by T-gen).  `c.wf m` is the executable "fields within their
  wire limits" predicate of a codec (`< 256^k` for k-byte integers and length/count prefixes,
  exact size for ids/keys/signatures, address/prefix length matching its type byte).
  Totality: every decoder is a total function returning `Option`; absence of Go panics is a
  T-diff obligation (spec tag `crashed-*`).
  Only property theorems live here; helpers are in MM/Lemmas/C05*.lean.
-/
import MM.Lemmas.C05
import MM.Lemmas.C05Big
import MM.Gen.C05

namespace MM.C05
open MM

/-- constants of the model are the ones in the source (T-gen tie). -/
theorem constants_tie :
    Gen.C05.headerSize = headerSize ∧ Gen.C05.maxPayloadSize = maxPayload ∧
    Gen.C05.maxFrameSize = headerSize + maxPayload ∧
    Gen.C05.ephemeralKeySize = 32 ∧ Gen.C05.signatureSize = 64 ∧ Gen.C05.idSize = 16 ∧
    Gen.C05.maxPeersInNodeInfo = maxPeers ∧ Gen.C05.maxForwardListenersInNodeInfo = maxFls ∧
    Gen.C05.maxShellsInNodeInfo = maxShells ∧
    Gen.C05.addrTypeIPv4 = 1 ∧ Gen.C05.addrTypeIPv6 = 4 ∧ Gen.C05.addrTypeDomain = 3 ∧
    Gen.C05.addrFamilyIPv4 = 1 ∧ Gen.C05.addrFamilyIPv6 = 2 ∧ Gen.C05.addrFamilyDomain = 3 ∧
    Gen.C05.addrFamilyForward = 4 ∧ Gen.C05.addrFamilyAgent = 5 := by decide

/-- Go `unsafe.Sizeof` of the element types whose `make` length comes from the wire equals what
    the allocation traces of the model use (T-gen tie). -/
theorem sizes_tie :
    Gen.C05.sizeofRoute = sizeofRoute ∧ Gen.C05.sizeofPeerInfo = sizeofPeerInfo ∧
    Gen.C05.sizeofListenerInfo = sizeofListenerInfo ∧ Gen.C05.sizeofString = sizeofString ∧
    Gen.C05.sizeofRouteAdvertise = sizeofRouteAdvertise ∧
    Gen.C05.sizeofRouteWithdraw = sizeofRouteWithdraw ∧
    Gen.C05.sizeofNodeInfoAdvertise = sizeofNodeInfoAdvertise ∧ Gen.C05.sizeofAgentID = 16 := by
  decide

/-! ### generic shape of the two statements -/

/-- Round trip for a kind whose decoder is `decodeTop k c`: sound codec + the encoding of a
    well-formed value passes the minimum-length pre-check. -/
theorem roundtrip_of {c : Codec α} {k : Nat} (hs : c.Sound) (hm : c.MinLen k) (m : α)
    (h : c.wf m = true) : decodeTop k c (c.enc m) = some m :=
  decodeTop_roundtrip hs k m h (hm m h)

/-- Re-encode: whatever decodes (trailing bytes ignored) encodes to bytes that decode to the
    same message. -/
theorem reencode_of {c : Codec α} {k : Nat} (hs : c.Sound) (hw : c.DecWF) (hm : c.MinLen k)
    (bs : Bytes) (m : α) (h : decodeTop k c bs = some m) : decodeTop k c (c.enc m) = some m :=
  roundtrip_of hs hm m (decodeTop_wf hw k bs m h)

/-! ### frame header -/

theorem header_length (h : Nat × Nat × Nat × Nat) : (headerC.enc h).length = headerSize := by
  simp [headerC, seq, be, headerSize]

/-- `Decode(Encode(f)) = f` for every frame whose fields fit (type/flags one byte, stream id
    64 bits, payload ≤ 16384), also with trailing bytes after the frame. -/
theorem Frame_roundtrip (t fl sid : Nat) (p extra : Bytes) (ht : t < 256) (hfl : fl < 256)
    (hsid : sid < 2 ^ 64) (hp : p.length ≤ maxPayload) :
    ∃ b, encodeFrame (t, fl, sid, p) = .ok b ∧ decodeFrame (b ++ extra) = .ok (t, fl, sid, p) := by
  have hmp : maxPayload = 16384 := rfl
  refine ⟨headerC.enc (t, fl, p.length, sid) ++ p, ?_, ?_⟩
  · simp only [encodeFrame]
    rw [if_neg (by omega)]
  · have hwf : headerC.wf (t, fl, p.length, sid) = true := by
      simp [headerC, seq, be]; omega
    have hs : headerC.Sound := by unfold headerC; codec_sound
    have hd := hs _ (p ++ extra) hwf
    have hl := header_length (t, fl, p.length, sid)
    have hhs : headerSize = 14 := rfl
    unfold decodeFrame decodeHeader
    rw [List.append_assoc, if_neg (by simp; omega), hd]
    dsimp only
    rw [if_neg (by omega)]
    dsimp only
    rw [if_neg (by simp; omega), drop_append_len _ _ _ hl, take_append_len _ _ _ rfl]

/-- `Frame.Encode` refuses payloads over MaxPayloadSize. -/
theorem Frame_encode_tooLarge (t fl sid : Nat) (p : Bytes) (hp : p.length > maxPayload) :
    encodeFrame (t, fl, sid, p) = .error .tooLarge := by
  simp only [encodeFrame]; rw [if_pos hp]

/-- Whatever `Decode` accepts has a payload of at most MaxPayloadSize bytes, taken from inside
    the buffer. -/
theorem Frame_decode_le (buf : Bytes) (f : Frame) (h : decodeFrame buf = .ok f) :
    f.2.2.2.length ≤ maxPayload ∧ headerSize + f.2.2.2.length ≤ buf.length := by
  unfold decodeFrame at h
  split at h
  · cases h
  · next t fl len sid hh =>
    split at h
    · cases h
    · next hlen =>
      injection h with h
      subst h
      have hle : len ≤ maxPayload := by
        unfold decodeHeader at hh
        split at hh
        · cases hh
        · split at hh
          · cases hh
          · next hd r _ =>
            split at hh
            · cases hh
            · next hgt =>
              injection hh with hh
              subst hh
              exact Nat.le_of_not_gt hgt
      simp only [List.length_take, List.length_drop]
      omega

/-- A header announcing more than MaxPayloadSize bytes is rejected with ErrFrameTooLarge before
    anything is allocated. -/
theorem Frame_header_tooLarge (t fl len sid : Nat) (rest : Bytes) (ht : t < 256) (hfl : fl < 256)
    (hlen : len < 2 ^ 32) (hsid : sid < 2 ^ 64) (hbig : len > maxPayload) :
    decodeHeader (headerC.enc (t, fl, len, sid) ++ rest) = .error .tooLarge := by
  have hwf : headerC.wf (t, fl, len, sid) = true := by simp [headerC, seq, be]; omega
  have hs : headerC.Sound := by unfold headerC; codec_sound
  have hl := header_length (t, fl, len, sid)
  unfold decodeHeader
  rw [if_neg (by simp; omega), hs _ rest hwf]
  dsimp only
  rw [if_pos hbig]

example : ∃ b, encodeFrame (4, 1, 77, [1, 2, 3]) = .ok b ∧ decodeFrame (b ++ [9]) = .ok (4, 1, 77, [1, 2, 3]) :=
  Frame_roundtrip 4 1 77 [1, 2, 3] [9] (by decide) (by decide) (by decide) (by decide)

/-! ### payload kinds built by composition: `K_roundtrip` and `K_reencode` -/

theorem PeerHello_roundtrip (m) (h : peerHelloC.wf m = true) :
    decodePeerHello (peerHelloC.enc m) = some m :=
  roundtrip_of peerHello_sound (by unfold peerHelloC; codec_minlen) m h
theorem PeerHello_reencode (bs m) (h : decodePeerHello bs = some m) :
    decodePeerHello (peerHelloC.enc m) = some m :=
  reencode_of peerHello_sound peerHello_decwf (by unfold peerHelloC; codec_minlen) bs m h

/-- StreamOpen and UDPOpen (same layout). -/
theorem StreamOpen_roundtrip (m) (h : streamOpenC.wf m = true) :
    decodeStreamOpen (streamOpenC.enc m) = some m :=
  roundtrip_of streamOpen_sound (by unfold streamOpenC; codec_minlen) m h
theorem StreamOpen_reencode (bs m) (h : decodeStreamOpen bs = some m) :
    decodeStreamOpen (streamOpenC.enc m) = some m :=
  reencode_of streamOpen_sound streamOpen_decwf (by unfold streamOpenC; codec_minlen) bs m h

/-- StreamOpenAck and UDPOpenAck (same layout). -/
theorem StreamOpenAck_roundtrip (m) (h : streamOpenAckC.wf m = true) :
    decodeStreamOpenAck (streamOpenAckC.enc m) = some m :=
  roundtrip_of streamOpenAck_sound (by unfold streamOpenAckC; codec_minlen) m h
theorem StreamOpenAck_reencode (bs m) (h : decodeStreamOpenAck bs = some m) :
    decodeStreamOpenAck (streamOpenAckC.enc m) = some m :=
  reencode_of streamOpenAck_sound streamOpenAck_decwf (by unfold streamOpenAckC; codec_minlen) bs m h

/-- StreamOpenErr, UDPOpenErr, ICMPOpenErr (same layout; message ≤ 255 bytes is part of `wf`). -/
theorem StreamOpenErr_roundtrip (m) (h : streamOpenErrC.wf m = true) :
    decodeStreamOpenErr (streamOpenErrC.enc m) = some m :=
  roundtrip_of streamOpenErr_sound (by unfold streamOpenErrC; codec_minlen) m h
theorem StreamOpenErr_reencode (bs m) (h : decodeStreamOpenErr bs = some m) :
    decodeStreamOpenErr (streamOpenErrC.enc m) = some m :=
  reencode_of streamOpenErr_sound streamOpenErr_decwf (by unfold streamOpenErrC; codec_minlen) bs m h

theorem StreamReset_roundtrip (m) (h : streamResetC.wf m = true) :
    decodeStreamReset (streamResetC.enc m) = some m :=
  roundtrip_of streamReset_sound (be_minLen 2) m h
theorem StreamReset_reencode (bs m) (h : decodeStreamReset bs = some m) :
    decodeStreamReset (streamResetC.enc m) = some m :=
  reencode_of streamReset_sound streamReset_decwf (be_minLen 2) bs m h

theorem Keepalive_roundtrip (m) (h : keepaliveC.wf m = true) :
    decodeKeepalive (keepaliveC.enc m) = some m :=
  roundtrip_of keepalive_sound (be_minLen 8) m h
theorem Keepalive_reencode (bs m) (h : decodeKeepalive bs = some m) :
    decodeKeepalive (keepaliveC.enc m) = some m :=
  reencode_of keepalive_sound keepalive_decwf (be_minLen 8) bs m h

/-- UDPClose, ICMPClose. -/
theorem Close_roundtrip (m) (h : closeC.wf m = true) : decodeClose (closeC.enc m) = some m :=
  roundtrip_of close_sound (be_minLen 1) m h
theorem Close_reencode (bs m) (h : decodeClose bs = some m) : decodeClose (closeC.enc m) = some m :=
  reencode_of close_sound close_decwf (be_minLen 1) bs m h

theorem RouteAdvertise_roundtrip (m) (h : routeAdvertiseC.wf m = true) :
    decodeRouteAdvertise (routeAdvertiseC.enc m) = some m :=
  roundtrip_of routeAdvertise_sound (by unfold routeAdvertiseC encPathC; codec_minlen) m h
theorem RouteAdvertise_reencode (bs m) (h : decodeRouteAdvertise bs = some m) :
    decodeRouteAdvertise (routeAdvertiseC.enc m) = some m :=
  reencode_of routeAdvertise_sound routeAdvertise_decwf
    (by unfold routeAdvertiseC encPathC; codec_minlen) bs m h

theorem RouteWithdraw_roundtrip (m) (h : routeWithdrawC.wf m = true) :
    decodeRouteWithdraw (routeWithdrawC.enc m) = some m :=
  roundtrip_of routeWithdraw_sound (by unfold routeWithdrawC; codec_minlen) m h
theorem RouteWithdraw_reencode (bs m) (h : decodeRouteWithdraw bs = some m) :
    decodeRouteWithdraw (routeWithdrawC.enc m) = some m :=
  reencode_of routeWithdraw_sound routeWithdraw_decwf (by unfold routeWithdrawC; codec_minlen) bs m h

theorem EncryptedData_roundtrip (m) (h : (seq bool (lp 2)).wf m = true) :
    decodeEncryptedData ((seq bool (lp 2)).enc m) = some m :=
  roundtrip_of encData_sound (by codec_minlen) m h
theorem EncryptedData_reencode (bs m) (h : decodeEncryptedData bs = some m) :
    decodeEncryptedData ((seq bool (lp 2)).enc m) = some m :=
  reencode_of encData_sound (by codec_decwf) (by codec_minlen) bs m h

theorem Path_roundtrip (m) (h : ids.wf m = true) : decodePath (ids.enc m) = some m :=
  roundtrip_of ids_sound (listN_minLen 1 _) m h
theorem Path_reencode (bs m) (h : decodePath bs = some m) : decodePath (ids.enc m) = some m :=
  reencode_of ids_sound (by codec_decwf) (listN_minLen 1 _) bs m h

theorem ControlRequest_roundtrip (m) (h : controlRequestC.wf m = true) :
    decodeControlRequest (controlRequestC.enc m) = some m :=
  roundtrip_of controlRequest_sound (by unfold controlRequestC; codec_minlen) m h
theorem ControlRequest_reencode (bs m) (h : decodeControlRequest bs = some m) :
    decodeControlRequest (controlRequestC.enc m) = some m :=
  reencode_of controlRequest_sound controlRequest_decwf (by unfold controlRequestC; codec_minlen) bs m h

/-- ControlResponse: data ≤ MaxPayloadSize − 12 is part of `wf` (the encoder clips longer data). -/
theorem ControlResponse_roundtrip (m) (h : controlResponseC.wf m = true) :
    decodeControlResponse (controlResponseC.enc m) = some m :=
  roundtrip_of controlResponse_sound (by unfold controlResponseC; codec_minlen) m h
/-- The decoder takes a 16-bit data length while the encoder clips at MaxPayloadSize − 12, so the
    re-encode statement holds for every input up to the frame payload size (the quantifier of
    C05), not for longer buffers. -/
theorem ControlResponse_reencode (bs m) (hlen : bs.length ≤ maxPayload)
    (h : decodeControlResponse bs = some m) :
    decodeControlResponse (controlResponseC.enc m) = some m := by
  apply ControlResponse_roundtrip
  unfold decodeControlResponse decodeTop at h
  split at h
  · cases h
  · cases hd : controlResponseC.dec bs with
    | none => simp [hd] at h
    | some p =>
      obtain ⟨x, r⟩ := p
      simp [hd] at h
      subst h
      exact controlResponse_decwf_bounded bs x r hlen hd

/-- minimum length 6 = type(1) + domain length byte(1) + port(2) + dataLen(2): every accepted
    address type has a non-empty address. -/
theorem UDPDatagram_roundtrip (m) (h : udpDatagramC.wf m = true) :
    decodeUDPDatagram (udpDatagramC.enc m) = some m :=
  roundtrip_of udpDatagram_sound
    (MinLen.mono (seq_minLen (dep_minLen (be_minLen 1) addrStrict_minLen)
      (seq_minLen (be_minLen 2) (lp_minLen 2))) (by decide)) m h
theorem UDPDatagram_reencode (bs m) (h : decodeUDPDatagram bs = some m) :
    decodeUDPDatagram (udpDatagramC.enc m) = some m :=
  UDPDatagram_roundtrip m (decodeTop_wf udpDatagram_decwf 6 bs m h)

theorem ICMPOpen_roundtrip (m) (h : icmpOpenC.wf m = true) :
    decodeICMPOpen (icmpOpenC.enc m) = some m :=
  roundtrip_of icmpOpen_sound (by unfold icmpOpenC; codec_minlen) m h
theorem ICMPOpen_reencode (bs m) (h : decodeICMPOpen bs = some m) :
    decodeICMPOpen (icmpOpenC.enc m) = some m :=
  reencode_of icmpOpen_sound icmpOpen_decwf (by unfold icmpOpenC; codec_minlen) bs m h

theorem ICMPOpenAck_roundtrip (m) (h : icmpOpenAckC.wf m = true) :
    decodeICMPOpenAck (icmpOpenAckC.enc m) = some m :=
  roundtrip_of icmpOpenAck_sound (by unfold icmpOpenAckC; codec_minlen) m h
theorem ICMPOpenAck_reencode (bs m) (h : decodeICMPOpenAck bs = some m) :
    decodeICMPOpenAck (icmpOpenAckC.enc m) = some m :=
  reencode_of icmpOpenAck_sound icmpOpenAck_decwf (by unfold icmpOpenAckC; codec_minlen) bs m h

theorem ICMPEcho_roundtrip (m) (h : icmpEchoC.wf m = true) :
    decodeICMPEcho (icmpEchoC.enc m) = some m :=
  roundtrip_of icmpEcho_sound (by unfold icmpEchoC; codec_minlen) m h
theorem ICMPEcho_reencode (bs m) (h : decodeICMPEcho bs = some m) :
    decodeICMPEcho (icmpEchoC.enc m) = some m :=
  reencode_of icmpEcho_sound icmpEcho_decwf (by unfold icmpEchoC; codec_minlen) bs m h

/-- SleepCommand and WakeCommand (same layout). -/
theorem SleepWake_roundtrip (m) (h : sleepC.wf m = true) : decodeCmd (sleepC.enc m) = some m :=
  roundtrip_of sleep_sound (by unfold sleepC; codec_minlen) m h
theorem SleepWake_reencode (bs m) (h : decodeCmd bs = some m) : decodeCmd (sleepC.enc m) = some m :=
  reencode_of sleep_sound sleep_decwf (by unfold sleepC; codec_minlen) bs m h

theorem NodeInfoAdvertise_roundtrip (m) (h : nodeInfoAdvertiseC.wf m = true) :
    decodeNodeInfoAdvertise (nodeInfoAdvertiseC.enc m) = some m :=
  roundtrip_of nodeInfoAdvertise_sound (by unfold nodeInfoAdvertiseC encInfoC; codec_minlen) m h
theorem NodeInfoAdvertise_reencode (bs m) (h : decodeNodeInfoAdvertise bs = some m) :
    decodeNodeInfoAdvertise (nodeInfoAdvertiseC.enc m) = some m :=
  reencode_of nodeInfoAdvertise_sound nodeInfoAdvertise_decwf
    (by unfold nodeInfoAdvertiseC encInfoC; codec_minlen) bs m h

/-! vacuity: concrete non-trivial messages satisfy `wf` -/

example : peerHelloC.wf (1, List.replicate 16 7, 1700000000, [97, 98], [[113, 117, 105, 99], []]) = true := by
  decide
example : streamOpenC.wf ((5, 3, [3, 97, 98, 99]), 443, 16, [List.replicate 16 1], List.replicate 32 9) = true := by
  decide
example : streamOpenAckC.wf ((5, 0, []), 0, List.replicate 32 9) = true := by decide
example : routeAdvertiseC.wf (List.replicate 16 1, [110], 3,
    [(((1, 8), [10, 0, 0, 0]), 1), (((3, 0), [1, 120]), 2), (((4, 0), [1, 107, 1, 116]), 0)],
    (false, [0]), [List.replicate 16 1]) = true := by decide
example : sleepC.wf (List.replicate 16 1, 7, 1000, List.replicate 64 0, [List.replicate 16 2]) = true := by
  decide

/-! ### QueuedState (fixed decoder: offset 97 + 16·|SeenBy|, capped pre-allocation) -/

/-- **QueuedState round trip**, including BOTH optional commands, signed or not: the defect of
    the pinned decoder (offset 33 + 16n) lost the wake command whenever a sleep command was
    present. -/
theorem QueuedState_roundtrip (q : QueuedState) (h : queuedStateWF q = true) :
    decodeQueuedState (encodeQueuedState q) = some q := by
  obtain ⟨routes, withdraws, nodeInfos, sleep, wake⟩ := q
  simp only [queuedStateWF, Bool.and_eq_true, decide_eq_true_eq] at h
  obtain ⟨⟨⟨⟨⟨⟨⟨hrl, hr⟩, hwl⟩, hw⟩, hnl⟩, hn⟩, hs⟩, hk⟩ := h
  -- every queued item decodes back from its own blob
  have hR : ∀ a ∈ routes, decodeRouteAdvertise (routeAdvertiseC.enc a) = some a ∧
      (routeAdvertiseC.enc a).length < 65536 := by
    intro a ha
    have := List.all_eq_true.mp hr a ha
    simp only [Bool.and_eq_true, decide_eq_true_eq] at this
    exact ⟨RouteAdvertise_roundtrip a this.1, this.2⟩
  have hW : ∀ a ∈ withdraws, decodeRouteWithdraw (routeWithdrawC.enc a) = some a ∧
      (routeWithdrawC.enc a).length < 65536 := by
    intro a ha
    have := List.all_eq_true.mp hw a ha
    simp only [Bool.and_eq_true, decide_eq_true_eq] at this
    exact ⟨RouteWithdraw_roundtrip a this.1, this.2⟩
  have hN : ∀ a ∈ nodeInfos, decodeNodeInfoAdvertise (nodeInfoAdvertiseC.enc a) = some a ∧
      (nodeInfoAdvertiseC.enc a).length < 65536 := by
    intro a ha
    have := List.all_eq_true.mp hn a ha
    simp only [Bool.and_eq_true, decide_eq_true_eq] at this
    exact ⟨NodeInfoAdvertise_roundtrip a this.1, this.2⟩
  -- the tail: present flags and commands
  have htail : ∀ (r5 : Bytes), r5 = encOptCmd sleep ++ encOptCmd wake →
      (match r5 with
       | [] => (none : Option QueuedState)
       | sf :: r6 =>
         let (sl, r7) : Option Cmd × Bytes :=
           if sf != 0 then
             match decodeCmd r6 with
             | some c => (some c, r6.drop (97 + 16 * c.2.2.2.2.length))
             | none => (none, r6)
           else (none, r6)
         match r7 with
         | [] => none
         | wf :: r8 =>
           let wk := if wf != 0 then decodeCmd r8 else none
           some { routes := routes, withdraws := withdraws, nodeInfos := nodeInfos, sleep := sl, wake := wk })
        = some { routes := routes, withdraws := withdraws, nodeInfos := nodeInfos, sleep := sleep, wake := wake } := by
    intro r5 hr5
    subst hr5
    have hwake : ∀ (w : Option Cmd), (match w with | some c => sleepC.wf c | none => true) = true →
        (match encOptCmd w with
         | [] => (none : Option QueuedState)
         | wf :: r8 =>
           let wk := if wf != 0 then decodeCmd r8 else none
           some { routes := routes, withdraws := withdraws, nodeInfos := nodeInfos, sleep := sleep, wake := wk })
          = some { routes := routes, withdraws := withdraws, nodeInfos := nodeInfos, sleep := sleep, wake := w } := by
      intro w hwf
      cases w with
      | none => simp [encOptCmd]
      | some c =>
        have : decodeCmd (sleepC.enc c) = some c := SleepWake_roundtrip c hwf
        simp [encOptCmd, this]
    cases sleep with
    | none =>
      have hWk := hwake wake hk
      generalize encOptCmd wake = W at hWk ⊢
      simp only [encOptCmd, List.cons_append, List.nil_append]
      simpa using hWk
    | some c =>
      have hc : sleepC.wf c = true := hs
      have hdec : decodeCmd (sleepC.enc c ++ encOptCmd wake) = some c :=
        decodeTop_append sleep_sound cmdMinLen c _ hc (cmd_minLen c hc)
      have hdrop : (sleepC.enc c ++ encOptCmd wake).drop (97 + 16 * c.2.2.2.2.length) = encOptCmd wake :=
        drop_append_len _ _ _ (cmd_enc_length c hc)
      have hWk := hwake wake hk
      generalize encOptCmd wake = W at hWk hdec hdrop ⊢
      simp only [encOptCmd, List.cons_append]
      have h1 : ((1 : UInt8) != 0) = true := by decide
      simp only [h1, if_true, hdec, hdrop]
      simpa using hWk
  -- assemble
  obtain ⟨r0, hu1, hb1⟩ := encBlobs_dec decodeRouteAdvertise routeAdvertiseC.enc routes
    (encBlobs routeWithdrawC.enc withdraws ++ (encBlobs nodeInfoAdvertiseC.enc nodeInfos ++
      (encOptCmd sleep ++ encOptCmd wake))) hrl hR
  obtain ⟨r2, hu2, hb2⟩ := encBlobs_dec decodeRouteWithdraw routeWithdrawC.enc withdraws
    (encBlobs nodeInfoAdvertiseC.enc nodeInfos ++ (encOptCmd sleep ++ encOptCmd wake)) hwl hW
  obtain ⟨r4, hu3, hb3⟩ := encBlobs_dec decodeNodeInfoAdvertise nodeInfoAdvertiseC.enc nodeInfos
    (encOptCmd sleep ++ encOptCmd wake) hnl hN
  have hlen : ¬ (encodeQueuedState
      { routes := routes, withdraws := withdraws, nodeInfos := nodeInfos, sleep := sleep, wake := wake }).length < 8 := by
    have e1 : ∀ (o : Option Cmd), 1 ≤ (encOptCmd o).length := by
      intro o; cases o <;> simp [encOptCmd]
    have := e1 sleep
    have := e1 wake
    simp [encodeQueuedState, encBlobs]
    omega
  unfold decodeQueuedState decodeQueuedStateWith
  rw [if_neg hlen]
  simp only [encodeQueuedState, List.append_assoc]
  rw [hu1]
  dsimp only
  rw [hb1]
  dsimp only
  rw [hu2]
  dsimp only
  rw [hb2]
  dsimp only
  rw [hu3]
  dsimp only
  rw [hb3]
  dsimp only
  exact htail _ rfl

/-- The pinned decoder (skip 33 + 16·|SeenBy| past the sleep command) on the encoding of a state
    with an unsigned sleep command and a wake command: the wake command is lost.  With 97 it is
    kept (`QueuedState_roundtrip`). -/
def offsetWitness : QueuedState :=
  let c : Cmd := (List.replicate 16 1, 7, 1000, List.replicate 64 0, [])
  { routes := [], withdraws := [], nodeInfos := [], sleep := some c, wake := some c }

set_option maxRecDepth 20000 in
theorem QueuedState_offset33_refuted :
    queuedStateWF offsetWitness = true ∧
    ((decodeQueuedStateWith 33 (encodeQueuedState offsetWitness)).map fun q => q.wake.isSome) = some false ∧
    ((decodeQueuedStateWith 97 (encodeQueuedState offsetWitness)).map fun q => q.wake.isSome) = some true := by
  decide

/-- **Bounded allocation of the count-driven reservations**: for ANY input the three
    `make(_, 0, n)` calls of `DecodeQueuedState` together reserve at most 3·(len/2) elements
    (the pinned code reserved up to 65535 elements from an 8-byte input). -/
theorem QueuedState_prealloc_le (bs : Bytes) : queuedPrealloc bs ≤ 3 * (bs.length / 2) := by
  have three : ∀ (A B C L : Nat), A ≤ L → B ≤ L → C ≤ L → A + (B + C) ≤ 3 * L := by
    intro A B C L a b c; omega
  unfold queuedPrealloc
  dsimp only
  split
  · omega
  · next rc r0 h0 =>
    have s0 := be_shrinks 2 _ _ _ h0
    have c1 : min rc (r0.length / 2) ≤ bs.length / 2 :=
      Nat.le_trans (Nat.min_le_right _ _) (Nat.div_le_div_right s0)
    split
    · exact three _ 0 0 _ c1 (Nat.zero_le _) (Nat.zero_le _)
    · next _ r1 h1 =>
      have s1 := blobList_shrinks _ _ _ _ _ h1
      split
      · exact three _ 0 0 _ c1 (Nat.zero_le _) (Nat.zero_le _)
      · next wc r2 h2 =>
        have s2 := be_shrinks 2 _ _ _ h2
        have c2 : min wc (r2.length / 2) ≤ bs.length / 2 :=
          Nat.le_trans (Nat.min_le_right _ _) (Nat.div_le_div_right (by omega))
        split
        · exact three _ _ 0 _ c1 c2 (Nat.zero_le _)
        · next _ r3 h3 =>
          have s3 := blobList_shrinks _ _ _ _ _ h3
          split
          · exact three _ _ 0 _ c1 c2 (Nat.zero_le _)
          · next nc r4 h4 =>
            have s4 := be_shrinks 2 _ _ _ h4
            have c3 : min nc (r4.length / 2) ≤ bs.length / 2 :=
              Nat.le_trans (Nat.min_le_right _ _) (Nat.div_le_div_right (by omega))
            exact three _ _ _ _ c1 c2 c3

example : queuedPrealloc [0xff, 0xff, 0, 0, 0, 0, 0, 0] = 3 := by decide

/-! ### NodeInfo (strict head, peer list and key; optional tail) -/

/-- **NodeInfo round trip** for every NodeInfo within the wire limits (strings ≤ 255 bytes,
    ≤ 255 addresses, ≤ 50 peers, ≤ 20 listeners, ≤ 10 shells, 32-byte key). -/
theorem NodeInfo_roundtrip (n : NodeInfo) (h : nodeInfoWF n = true) :
    decodeNodeInfo (encodeNodeInfo n) = some n := by
  obtain ⟨name, host, os, arch, ver, start, ips, peers, pub, udp, fls, shells, ft, sh, icmp⟩ := n
  simp only [nodeInfoWF, Bool.and_eq_true, decide_eq_true_eq] at h
  obtain ⟨⟨⟨⟨⟨⟨⟨hhead, hpl⟩, hpw⟩, hkey⟩, hfl⟩, hfw⟩, hsl⟩, hsw⟩ := h
  have hmp : maxPeers = 50 := rfl
  have hmf : maxFls = 20 := rfl
  have hms : maxShells = 10 := rfl
  have tp : peers.take maxPeers = peers := List.take_of_length_le hpl
  have tf : fls.take maxFls = fls := List.take_of_length_le hfl
  have ts : shells.take maxShells = shells := List.take_of_length_le hsl
  -- the encoding, right-nested
  have henc : encodeNodeInfo (⟨name, host, os, arch, ver, start, ips, peers, pub, udp, fls, shells, ft, sh, icmp⟩ : NodeInfo) =
      niHeadC.enc (name, host, os, arch, ver, start, ips) ++ (beN 1 peers.length ++ (encAll peerC peers ++
        (key32.enc pub ++ (bool.enc udp ++ (beN 1 fls.length ++ (encAll flC fls ++
          (beN 1 shells.length ++ (encAll str shells ++ (bool.enc ft ++ (bool.enc sh ++ (bool.enc icmp ++ []))))))))))) := by
    simp only [encodeNodeInfo, tp, tf, ts, List.append_assoc, List.append_nil]
  have hlen : ¬ (encodeNodeInfo (⟨name, host, os, arch, ver, start, ips, peers, pub, udp, fls, shells, ft, sh, icmp⟩ : NodeInfo)).length < 5 + 32 := by
    have hk : pub.length = 32 := by simpa [bytesN] using hkey
    rw [henc]
    simp [niHeadC, seq, lp, be, listN, bytesN, bool, hk]
    omega
  have hpc := be_sound 1 peers.length (encAll peerC peers ++
        (key32.enc pub ++ (bool.enc udp ++ (beN 1 fls.length ++ (encAll flC fls ++
          (beN 1 shells.length ++ (encAll str shells ++ (bool.enc ft ++ (bool.enc sh ++ (bool.enc icmp ++ []))))))))))
    (by simp [be]; omega)
  have hmin : min peers.length maxPeers = peers.length := Nat.min_eq_left hpl
  unfold decodeNodeInfo
  rw [if_neg hlen, henc, niHead_sound _ _ hhead]
  dsimp only
  rw [show u8.dec = (be 1).dec from rfl, show (be 1).enc peers.length = beN 1 peers.length from rfl] at *
  rw [hpc]
  dsimp only
  rw [hmin, repDec_sound peer_sound peers _ hpw]
  dsimp only
  rw [bytesN_sound 32 pub _ hkey]
  dsimp only
  rw [optBool_enc]
  dsimp only
  rw [beN1 fls.length]
  simp only [List.cons_append, List.nil_append]
  rw [u8_toNat fls.length (by omega), Nat.min_eq_left hfl,
    flLoop_sound fls _ (by simp [beN1]) hfw]
  dsimp only
  simp only [Bool.false_eq_true, if_false]
  rw [beN1 shells.length]
  simp only [List.cons_append, List.nil_append]
  rw [u8_toNat shells.length (by omega), Nat.min_eq_left hsl,
    shLoop_sound shells _ (by cases ft <;> simp [bool]) hsw]
  dsimp only
  simp only [Bool.false_eq_true, if_false]
  rw [optBool_enc, optBool_enc, optBool_enc]

example : nodeInfoWF ⟨[97], [], [108], [], [49], 5, [[49, 46, 50]], [(List.replicate 16 3, [113], 12, true)],
    List.replicate 32 9, true, [([107], [58, 56])], [[115, 104]], false, true, false⟩ = true := by
  decide

/-- Whatever `DecodeNodeInfo` accepts is within the wire limits (so it re-encodes and decodes to
    the same NodeInfo, `NodeInfo_reencode`). -/
theorem NodeInfo_decode_wf (bs : Bytes) (n : NodeInfo) (h : decodeNodeInfo bs = some n) :
    nodeInfoWF n = true := by
  unfold decodeNodeInfo at h
  split at h
  · cases h
  · split at h
    · cases h
    · next name host os arch ver start ips r0 hh =>
      have hhead : niHeadC.wf (name, host, os, arch, ver, start, ips) = true :=
        (by unfold niHeadC; codec_decwf : niHeadC.DecWF) _ _ _ hh
      split at h
      · cases h
      · next pc r1 hpc =>
        split at h
        · cases h
        · next peers r2 hp =>
          have hpw := repDec_decwf (by unfold peerC; codec_decwf : peerC.DecWF) _ _ _ _ hp
          have hpl : peers.length ≤ maxPeers := by rw [hpw.2]; exact Nat.min_le_right _ _
          split at h
          · cases h
          · next pub r3 hk =>
            have hkw : key32.wf pub = true := bytesN_decwf 32 _ _ _ hk
            have base : ∀ (udp : Bool) (fls : List (Bytes × Bytes)) (shells : List Bytes) (a b c : Bool),
                fls.all flC.wf = true → fls.length ≤ maxFls → shells.all str.wf = true →
                shells.length ≤ maxShells →
                nodeInfoWF ⟨name, host, os, arch, ver, start, ips, peers, pub, udp, fls, shells, a, b, c⟩ = true := by
              intro udp fls shells a b c h1 h2 h3 h4
              simp [nodeInfoWF, hhead, hpl, hpw.1, hkw, h1, h2, h3, h4]
            dsimp only at h
            split at h
            · injection h with h; subst h
              exact base _ [] [] _ _ _ (by simp) (by simp) (by simp) (by simp)
            · next lc r5 _ =>
              have hfl := flLoop_wf (min lc.toNat maxFls) r5
              have hfl2 : (flLoop (min lc.toNat maxFls) r5).1.length ≤ maxFls :=
                Nat.le_trans hfl.2 (Nat.min_le_right _ _)
              split at h
              · injection h with h; subst h
                exact base _ _ [] _ _ _ hfl.1 hfl2 (by simp) (by simp)
              · split at h
                · injection h with h; subst h
                  exact base _ _ [] _ _ _ hfl.1 hfl2 (by simp) (by simp)
                · next sc r7 _ =>
                  have hsl := shLoop_wf (min sc.toNat maxShells) r7
                  have hsl2 : (shLoop (min sc.toNat maxShells) r7).1.length ≤ maxShells :=
                    Nat.le_trans hsl.2 (Nat.min_le_right _ _)
                  split at h
                  · injection h with h; subst h
                    exact base _ _ _ _ _ _ hfl.1 hfl2 hsl.1 hsl2
                  · injection h with h; subst h
                    exact base _ _ _ _ _ _ hfl.1 hfl2 hsl.1 hsl2

theorem NodeInfo_reencode (bs : Bytes) (n : NodeInfo) (h : decodeNodeInfo bs = some n) :
    decodeNodeInfo (encodeNodeInfo n) = some n :=
  NodeInfo_roundtrip n (NodeInfo_decode_wf bs n h)

/-- Whatever `DecodeQueuedState` accepts from at most 65535 + … bytes is within the wire limits:
    every kept item is well-formed and re-encodes into a blob that fits its 2-byte length. -/
theorem QueuedState_decode_wf (bs : Bytes) (q : QueuedState) (h : decodeQueuedState bs = some q) :
    queuedStateWF q = true := by
  have hRA : ∀ blob a, blob.length < 65536 → decodeRouteAdvertise blob = some a →
      (routeAdvertiseC.wf a && decide ((routeAdvertiseC.enc a).length < 65536)) = true := by
    intro blob a hb hd
    have := decodeTop_enc_le routeAdvertise_lenExact 28 blob a hd
    simp [decodeTop_wf routeAdvertise_decwf 28 blob a hd]; omega
  have hRW : ∀ blob a, blob.length < 65536 → decodeRouteWithdraw blob = some a →
      (routeWithdrawC.wf a && decide ((routeWithdrawC.enc a).length < 65536)) = true := by
    intro blob a hb hd
    have := decodeTop_enc_le routeWithdraw_lenExact 26 blob a hd
    simp [decodeTop_wf routeWithdraw_decwf 26 blob a hd]; omega
  have hNA : ∀ blob a, blob.length < 65536 → decodeNodeInfoAdvertise blob = some a →
      (nodeInfoAdvertiseC.wf a && decide ((nodeInfoAdvertiseC.enc a).length < 65536)) = true := by
    intro blob a hb hd
    have := decodeTop_enc_le nodeInfoAdvertise_lenExact 28 blob a hd
    simp [decodeTop_wf nodeInfoAdvertise_decwf 28 blob a hd]; omega
  have hcmd : ∀ (b : Bytes) (c : Cmd), decodeCmd b = some c → sleepC.wf c = true :=
    fun b c hd => decodeTop_wf sleep_decwf cmdMinLen b c hd
  have hu16 : ∀ (b : Bytes) (n : Nat) (r : Bytes), u16.dec b = some (n, r) → n < 65536 := by
    intro b n r hd
    have := be_decwf 2 _ _ _ hd
    simpa [be] using this
  unfold decodeQueuedState decodeQueuedStateWith at h
  split at h
  · cases h
  · split at h
    · cases h
    · next rc r0 h0 =>
      split at h
      · cases h
      · next routes r1 h1 =>
        have a1 := blobList_all _ _ hRA _ _ _ _ h1
        split at h
        · cases h
        · next wc r2 h2 =>
          split at h
          · cases h
          · next withdraws r3 h3 =>
            have a2 := blobList_all _ _ hRW _ _ _ _ h3
            split at h
            · cases h
            · next nc r4 h4 =>
              split at h
              · cases h
              · next nodeInfos r5 h5 =>
                have a3 := blobList_all _ _ hNA _ _ _ _ h5
                have l1 := hu16 _ _ _ h0
                have l2 := hu16 _ _ _ h2
                have l3 := hu16 _ _ _ h4
                have hlists : ∀ (s w : Option Cmd),
                    (match s with | some c => sleepC.wf c | none => true) = true →
                    (match w with | some c => sleepC.wf c | none => true) = true →
                    queuedStateWF ⟨routes, withdraws, nodeInfos, s, w⟩ = true := by
                  intro s w hs hw
                  simp only [queuedStateWF, Bool.and_eq_true, decide_eq_true_eq]
                  refine ⟨⟨⟨⟨⟨⟨⟨by omega, ?_⟩, by omega⟩, ?_⟩, by omega⟩, ?_⟩, hs⟩, hw⟩
                  · exact List.all_eq_true.mpr a1.1
                  · exact List.all_eq_true.mpr a2.1
                  · exact List.all_eq_true.mpr a3.1
                split at h
                · cases h
                · next sf r6 =>
                  dsimp only at h
                  have hsl : ∀ (p : Option Cmd × Bytes),
                      p = (if (sf != 0) = true then
                            match decodeCmd r6 with
                            | some c => (some c, List.drop (97 + 16 * c.2.2.2.2.length) r6)
                            | none => (none, r6)
                          else (none, r6)) →
                      (match p.1 with | some c => sleepC.wf c | none => true) = true := by
                    intro p hp
                    subst hp
                    by_cases hsf : (sf != 0) = true
                    · rw [if_pos hsf]
                      cases hd : decodeCmd r6 with
                      | none => rfl
                      | some c => exact hcmd _ _ hd
                    · rw [if_neg hsf]
                  split at h
                  · cases h
                  · next wf r8 _ =>
                    injection h with h
                    subst h
                    refine hlists _ _ (hsl _ rfl) ?_
                    by_cases hwf : (wf != 0) = true
                    · rw [if_pos hwf]
                      cases hd : decodeCmd r8 with
                      | none => rfl
                      | some c => exact hcmd _ _ hd
                    · rw [if_neg hwf]

theorem QueuedState_reencode (bs : Bytes) (q : QueuedState) (h : decodeQueuedState bs = some q) :
    decodeQueuedState (encodeQueuedState q) = some q :=
  QueuedState_roundtrip q (QueuedState_decode_wf bs q h)

/-! ### `K_alloc_le`: allocation in proportion to the input, for ANY input

  `c.alloc bs` is the trace of every `make` / `readBytes` / string conversion whose size the Go
  decoder takes from the wire (count or length fields), successful or not.  For each kind it is at
  most `A·len + K`, `K` being the 1-byte-count reservations (≤ 255 elements each).  The measured
  heap growth of the real decoders (op `alloc`, bound 1024·len + 65536) is the tie. -/

theorem PeerHello_alloc_le (bs : Bytes) : decodeTopAlloc 28 peerHelloC bs ≤ 1 * bs.length + 4080 :=
  decodeTopAlloc_le peerHello_alloc 28 bs
theorem StreamOpen_alloc_le (bs : Bytes) : decodeTopAlloc 45 streamOpenC bs ≤ 1 * bs.length + 4080 :=
  decodeTopAlloc_le streamOpen_alloc 45 bs
theorem StreamOpenAck_alloc_le (bs : Bytes) : decodeTopAlloc 43 streamOpenAckC bs ≤ 1 * bs.length + 0 :=
  decodeTopAlloc_le streamOpenAck_alloc 43 bs
theorem StreamOpenErr_alloc_le (bs : Bytes) : decodeTopAlloc 11 streamOpenErrC bs ≤ 1 * bs.length + 0 :=
  decodeTopAlloc_le streamOpenErr_alloc 11 bs
theorem RouteAdvertise_alloc_le (bs : Bytes) : routeAdvertiseAlloc bs ≤ 2 * bs.length + 18360 :=
  decodeTopAlloc_le routeAdvertise_alloc 28 bs
theorem RouteWithdraw_alloc_le (bs : Bytes) : routeWithdrawAlloc bs ≤ 1 * bs.length + 14280 :=
  decodeTopAlloc_le routeWithdraw_alloc 26 bs
theorem EncryptedData_alloc_le (bs : Bytes) : decodeTopAlloc 3 (seq bool (lp 2)) bs ≤ 1 * bs.length + 0 :=
  decodeTopAlloc_le encData_alloc 3 bs
theorem Path_alloc_le (bs : Bytes) : decodeTopAlloc 1 ids bs ≤ 1 * bs.length + 16 * 255 :=
  decodeTopAlloc_le (ids_alloc 1 (by decide)) 1 bs
theorem NodeInfo_alloc_le (bs : Bytes) : nodeInfoAlloc bs ≤ 3 * bs.length + 7280 :=
  nodeInfoAlloc_le bs
theorem NodeInfoAdvertise_alloc_le (bs : Bytes) : nodeInfoAdvertiseAlloc bs ≤ 4 * bs.length + 11360 :=
  decodeTopAlloc_le nodeInfoAdvertise_alloc 28 bs
theorem ControlRequest_alloc_le (bs : Bytes) : decodeTopAlloc 30 controlRequestC bs ≤ 1 * bs.length + 4080 :=
  decodeTopAlloc_le controlRequest_alloc 30 bs
theorem ControlResponse_alloc_le (bs : Bytes) : decodeTopAlloc 12 controlResponseC bs ≤ 1 * bs.length + 0 :=
  decodeTopAlloc_le controlResponse_alloc 12 bs
theorem UDPDatagram_alloc_le (bs : Bytes) : decodeTopAlloc 6 udpDatagramC bs ≤ 1 * bs.length + 0 :=
  decodeTopAlloc_le udpDatagram_alloc 6 bs
theorem ICMPOpen_alloc_le (bs : Bytes) : decodeTopAlloc 43 icmpOpenC bs ≤ 1 * bs.length + 4080 :=
  decodeTopAlloc_le icmpOpen_alloc 43 bs
theorem ICMPOpenAck_alloc_le (bs : Bytes) : decodeTopAlloc 40 icmpOpenAckC bs ≤ 1 * bs.length + 0 :=
  decodeTopAlloc_le icmpOpenAck_alloc 40 bs
theorem ICMPEcho_alloc_le (bs : Bytes) : decodeTopAlloc 8 icmpEchoC bs ≤ 1 * bs.length + 0 :=
  decodeTopAlloc_le icmpEcho_alloc 8 bs
theorem SleepWake_alloc_le (bs : Bytes) : cmdAlloc bs ≤ 1 * bs.length + 4080 :=
  decodeTopAlloc_le sleep_alloc cmdMinLen bs
/-- QueuedState, fixed decoder: the three capped reservations, every nested advertisement /
    withdrawal / node-info decode and both commands together. -/
theorem QueuedState_alloc_le (bs : Bytes) : queuedAlloc bs ≤ 941 * bs.length + 8160 :=
  queuedAlloc_le bs

/-- a 28-byte input announcing 255 routes makes the decoder reserve 255 `Route`s: the constant `K` is real -/
example : routeAdvertiseAlloc (List.replicate 16 0 ++ [0] ++ List.replicate 8 0 ++ [255, 1, 32]) = 16 + 40 * 255 := by
  decide

end MM.C05
