/-
  C35 — Redacted configuration output never reveals a secret.

  "For any configuration, the redacted rendering contains none of the configured secret values.
   These are TLS private keys, proxy passwords, SOCKS5 passwords and password hashes, the agent
   private key, shell and file-transfer password hashes, and the management and signing private
   keys.  Producing the redacted rendering never changes the original configuration."

  Formalised as non-interference: the rendering is a function of the non-secret leaves and of the
  emptiness pattern of the secret leaves only — for ALL configurations (all byte strings in every
  leaf and every list entry), for ANY behaviour of the YAML round trip (faithful, lossy, failing)
  and ANY marshaller.  Model: MM/Model/C35.lean; schema and redacted paths regenerated from the
  compiled package (MM/Gen/C35.lean); tied to the code by T-diff on Config.String().
  "never changes the original": C35_original_unchanged over a memory model with aliasing (the
  functional model above has no mutation to state it about), plus `orig=same` on every
  differential case.
-/
import MM.Lemmas.C35

namespace MM.C35
open MM

/-- Every leaf of the CURRENT schema that falls into one of the secret classes the property
    names is reached by a `redact(&…)` call (finite check over the regenerated tables). -/
theorem C35_covers : ∀ p ∈ secretPaths, p ∈ redactedPaths := by decide

/-- Name-based screen over the WHOLE regenerated schema: every string leaf with a secret-looking
    name is redacted or on the reviewed allow-list.  A new secret-looking field added without a
    `redact(&…)` call breaks this (finite check over the regenerated tables). -/
theorem C35_name_screen :
    ∀ l ∈ Gen.C35.leaves, l.looksSecret = true → l.yaml ∈ redactedPaths ∨ l.yaml ∈ notSecretAllowList := by decide

/-- The allow-list does not hide anything the property names: no allow-listed path is in a secret
    class, and every secret-class leaf is caught by the name screen too. -/
theorem C35_allowlist_sound :
    (∀ p ∈ notSecretAllowList, p ∉ secretPaths) ∧
    (∀ l ∈ Gen.C35.leaves, isSecretLeaf l = true → l.looksSecret = true) := by decide

/-- No path is blanked in some list entries and kept in others. -/
theorem C35_uniform : Gen.C35.partialPaths = [] := by decide

/-- The regenerated schema is not degenerate: it has leaves and the classification finds secret
    ones (otherwise `C35_covers` would be vacuous). -/
theorem C35_schema_nonvacuous : Gen.C35.leaves ≠ [] ∧ secretPaths ≠ [] := by decide

/-- Every secret slot of the redacted copy holds nothing or the placeholder. -/
theorem C35_secret_slots (c : Cfg) (l : Loc) (hs : l.path ∈ secretPaths) :
    redactAll redactedPaths c l = [] ∨ redactAll redactedPaths c l = placeholder := by
  unfold redactAll
  rw [if_pos (C35_covers _ hs)]
  exact redact_cases _

/-- … and so does what `Redacted()` returns, when the deep copy either fails or is faithful. -/
theorem C35_redacted_secret_slots (rt : Cfg → Option Cfg) (hrt : ∀ r d, rt r = some d → d = r)
    (c : Cfg) (l : Loc) (hs : l.path ∈ secretPaths) :
    redacted redactedPaths rt c l = [] ∨ redacted redactedPaths rt c l = placeholder := by
  have h : redacted redactedPaths rt c = redactAll redactedPaths c := by
    unfold redacted
    dsimp only
    cases hr : rt (redactAll redactedPaths c) with
    | none => rfl
    | some d => exact hrt _ _ hr
  rw [h]; exact C35_secret_slots c l hs

/-- Fail closed: when the YAML round trip fails, the result is still the redacted copy. -/
theorem C35_fail_closed (rt : Cfg → Option Cfg) (c : Cfg) (h : rt (redactAll redactedPaths c) = none) :
    redacted redactedPaths rt c = redactAll redactedPaths c := by
  unfold redacted; simp [h]

/-- Non-interference (the property at full strength, no hypothesis on the round trip): two
    configurations that agree on every non-secret leaf and have the same secret leaves SET
    produce the same rendering — the rendering carries no information about a secret's value. -/
theorem C35_noninterference {Text : Type} (marshal : Cfg → Text) (rt : Cfg → Option Cfg) (c₁ c₂ : Cfg)
    (hpub : ∀ l, l.path ∉ secretPaths → c₁ l = c₂ l)
    (hset : ∀ l, l.path ∈ secretPaths → (c₁ l = [] ↔ c₂ l = [])) :
    render marshal redactedPaths rt c₁ = render marshal redactedPaths rt c₂ := by
  unfold render
  congr 1
  apply redacted_eq_of_redactAll_eq
  funext l
  unfold redactAll
  by_cases hs : l.path ∈ secretPaths
  · rw [if_pos (C35_covers _ hs), if_pos (C35_covers _ hs)]
    exact redact_congr (hset l hs)
  · rw [hpub l hs]

/-- Redaction is not achieved by dropping everything: leaves outside the redacted paths are
    copied unchanged, and an unset secret stays unset. -/
theorem C35_nonsecret_preserved (c : Cfg) (l : Loc) (h : l.path ∉ redactedPaths) :
    redactAll redactedPaths c l = c l := by
  unfold redactAll; rw [if_neg h]

theorem C35_empty_stays_empty (c : Cfg) (l : Loc) (h : c l = []) : redactAll redactedPaths c l = [] := by
  unfold redactAll
  split
  · rw [h]; exact redact_nil
  · exact h

/-! ### "Producing the redacted rendering never changes the original configuration"

  Memory model with aliasing (MM/Model/C35.lean, `Store`/`CfgVal`/`redactedMem`): the copy made by
  `cp := *c` shares the backing arrays of the original's lists; Redacted() writes into elements of
  the lists named in `Gen.C35.writtenLists`.  Whether each of them is detached (cloned) before it
  is written is a regenerated behavioural fact (`Gen.C35.detached`). -/

/-- Every list whose elements Redacted() writes is detached from the original first. -/
theorem C35_lists_detached :
    Gen.C35.detached.length = Gen.C35.writtenLists.length ∧ Gen.C35.detached.all id = true := by decide

/-- With every written list cloned first, no allocated array of the original store changes —
    whatever the configuration points to, whatever the lists contain. -/
theorem C35_arrays_unchanged (red : List Path) (detach : Nat → Bool) (n : Nat)
    (hd : ∀ i, i < n → detach i = true) (m : Store) (c : CfgVal) (x : Nat) (hx : x < m.next) :
    (redactedMem red detach n m c).1.arrays x = m.arrays x := by
  unfold redactedMem
  exact foldl_old red detach _ (fun i hi => hd i (List.mem_range.mp hi)) _ x hx

/-- The model does express the aliasing bug: without the clone, a set secret in a list element of
    the ORIGINAL is overwritten. -/
theorem C35_aliasing_expressible :
    let m : Store := { arrays := fun a => if a = 0 then [fun p => if p = ["tls", "key"] then [0x41] else []] else [], next := 1 }
    let c : CfgVal := { top := fun _ => [], lists := fun _ => 0 }
    (redactedMem [["tls", "key"]] (fun _ => false) 1 m c).1.arrays 0 ≠ m.arrays 0 := by
  intro m c h
  have := congrArg (fun l => l.map (fun e => e ["tls", "key"])) h
  simp [redactedMem, stepList, Store.redactArray, m, c, redact, placeholder] at this
  revert this; decide


/-- The original configuration is unchanged: its own fields are held by value (the original `c`
    is only read by `redactedMem`) and every backing array that existed before the call — in
    particular those the original's lists point to — has the same contents afterwards. -/
theorem C35_original_unchanged (m : Store) (c : CfgVal) (x : Nat) (hx : x < m.next) :
    (redactedMem redactedPaths (fun i => Gen.C35.detached.getD i false) Gen.C35.writtenLists.length m c).1.arrays x
      = m.arrays x := by
  refine C35_arrays_unchanged _ _ _ ?_ m c x hx
  intro i hi
  have h := C35_lists_detached
  have hall : ∀ b ∈ Gen.C35.detached, b = true := by simpa [List.all_eq_true] using h.2
  have hi' : i < Gen.C35.detached.length := by rw [h.1]; exact hi
  have hg : Gen.C35.detached.getD i false = Gen.C35.detached[i] := by
    simp [List.getD, List.getElem?_eq_getElem hi']
  rw [hg]
  exact hall _ (List.getElem_mem hi')

/-! Non-vacuity: two configurations that differ in a secret value (inside a list entry) satisfy
    the hypotheses of `C35_noninterference`. -/
example : ["peers", "[]", "tls", "key_pem"] ∈ secretPaths := by decide
example : ["socks5", "auth", "users", "[]", "password_hash"] ∈ secretPaths := by decide
example : ["management", "public_key"] ∉ secretPaths := by decide

example :
    let k : Loc := ⟨["peers", "[]", "tls", "key_pem"], [3]⟩
    let c₁ : Cfg := fun l => if l = k then [0x09, 0x0a, 0x20, 0x53] else []
    let c₂ : Cfg := fun l => if l = k then [0x41] else []
    (∀ l, l.path ∉ secretPaths → c₁ l = c₂ l) ∧ (∀ l, l.path ∈ secretPaths → (c₁ l = [] ↔ c₂ l = [])) := by
  intro k c₁ c₂
  have hk : k.path ∈ secretPaths := by decide
  constructor
  · intro l hl
    have : l ≠ k := fun h => hl (h ▸ hk)
    simp [c₁, c₂, this]
  · intro l _
    by_cases h : l = k <;> simp [c₁, c₂, h]

end MM.C35
