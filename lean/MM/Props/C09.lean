/-
  C09 — Domain, forward-key and agent lookups select the documented best route.

  "A domain lookup prefers an exact pattern, case-insensitively, over a single-level wildcard,
   and never matches a wildcard more than one label deep.  Within the chosen pattern it returns
   the lowest metric.  Forward-key and agent-presence lookups return the lowest-metric route for
   that key or agent, and nothing when none is stored."   For every history of additions,
   removals, disconnects and cleanups.

  Everything is proved for every `S : Str`, i.e. whatever `strings.ToLower` / `strings.TrimSpace`
  do: "case-insensitively" is "equal after `S.fold`".  No ASCII hypothesis is needed.

  Model: MM/Model/C09.lean (instances of the generic table of MM/Model/C08.lean).
-/
import MM.Lemmas.C09

namespace MM.C09
open MM MM.C08

/-- When a stored domain route applies to a name (both compared lower-cased):
    an exact route when its pattern is the name; a wildcard route `*.base` when the name is
    exactly one non-empty, dot-free label in front of `.base`. -/
def Matches (S : Str) (p : DomPay) (d : Bytes) : Prop :=
  if p.isWild then
    ∃ l, S.fold d = l ++ dot :: S.fold p.base ∧ dot ∉ l ∧ l ≠ [] ∧ S.fold p.base ≠ []
  else S.fold p.pattern = S.fold d

/-- `matchesB` (used by the checker's `spec` mode) decides `Matches`. -/
theorem matchesB_iff (S : Str) (p : DomPay) (d : Bytes) : matchesB S p d = true ↔ Matches S p d := by
  unfold matchesB Matches
  cases hw : p.isWild with
  | false => simp
  | true =>
    simp only [if_true]
    constructor
    · intro h
      cases hs : splitDot (S.fold d) with
      | none => rw [hs] at h; cases h
      | some lb =>
        obtain ⟨l, b⟩ := lb
        rw [hs] at h
        simp only [Bool.and_eq_true, Bool.not_eq_true', List.isEmpty_eq_false_iff, beq_iff_eq] at h
        obtain ⟨⟨hl, hb⟩, he⟩ := h
        obtain ⟨h1, h2⟩ := splitDot_some hs
        exact ⟨l, by rw [← he]; exact h1, h2, hl, by rw [← he]; exact hb⟩
    · rintro ⟨l, he, hd, hl, hb⟩
      rw [he, splitDot_of_eq hd]
      simp [hl, hb]

/-- The property for one domain table, one name and one answer. -/
def DomBest (S : Str) (t : DTable) (d : Bytes) : Option (Entry DomPay) → Prop
  | some r => r ∈ routes t ∧ Matches S r.pay d ∧
      -- exact before wildcard
      (r.pay.isWild = true → ∀ r' ∈ routes t, r'.pay.isWild = false → ¬ Matches S r'.pay d) ∧
      -- lowest metric among the applicable routes of the chosen kind (= of the chosen pattern)
      (∀ r' ∈ routes t, Matches S r'.pay d → r'.pay.isWild = r.pay.isWild → r.metric ≤ r'.metric)
  | none => ∀ r' ∈ routes t, ¬ Matches S r'.pay d

def C09_statement : Prop :=
  (∀ (S : Str) (self : Nat) (ops : List (Op DKey DomPay)) (d : Bytes),
      DomBest S (run (domCfg S) self ops).tab d (domLookup S (run (domCfg S) self ops).tab d)) ∧
  (∀ (self : Nat) (ops : List (Op Bytes FwdPay)) (k : Bytes),
      KeyBest fwdCfg (run fwdCfg self ops).tab k (fwdLookup (run fwdCfg self ops).tab k)) ∧
  (∀ (self : Nat) (ops : List (Op Nat Nat)) (a : Nat),
      KeyBest agCfg (run agCfg self ops).tab a (agLookup (run agCfg self ops).tab a))

/-! ### invariants for every history -/

theorem C09_inv_domain (S : Str) (self : Nat) (ops : List (Op DKey DomPay)) :
    WF (domCfg S) self (run (domCfg S) self ops).tab := WF_run _ _ _
theorem C09_inv_forward (self : Nat) (ops : List (Op Bytes FwdPay)) :
    WF fwdCfg self (run fwdCfg self ops).tab := WF_run _ _ _
theorem C09_inv_agent (self : Nat) (ops : List (Op Nat Nat)) :
    WF agCfg self (run agCfg self ops).tab := WF_run _ _ _

/-! ### domain lookup -/

private theorem key_exact {S : Str} {p : DomPay} {d : Bytes} (h : domKey S p = (false, d)) :
    p.isWild = false ∧ S.fold p.pattern = d := by
  unfold domKey at h
  cases hw : p.isWild with
  | true => rw [hw] at h; simp at h
  | false => rw [hw] at h; simp at h; exact ⟨rfl, h⟩

private theorem key_wild {S : Str} {p : DomPay} {b : Bytes} (h : domKey S p = (true, b)) :
    p.isWild = true ∧ S.fold p.base = b := by
  unfold domKey at h
  cases hw : p.isWild with
  | true => rw [hw] at h; simp at h; exact ⟨rfl, h⟩
  | false => rw [hw] at h; simp at h

/-- a matching wildcard route pins down the split of the name at its first dot -/
private theorem wild_split {S : Str} {p : DomPay} {d : Bytes} (hw : p.isWild = true) (hm : Matches S p d) :
    ∃ l, splitDot (S.fold d) = some (l, S.fold p.base) ∧ l ≠ [] ∧ S.fold p.base ≠ [] := by
  unfold Matches at hm
  rw [if_pos hw] at hm
  obtain ⟨l, he, hd, hl, hb⟩ := hm
  exact ⟨l, by rw [he]; exact splitDot_of_eq hd, hl, hb⟩

/-- **Domain lookup**: exact (case-insensitive) before wildcard; a wildcard only for exactly one
    extra label; lowest metric within the chosen pattern; nothing iff nothing applies. -/
theorem C09_domain_correct {S : Str} {self : Nat} {t : DTable} (hwf : WF (domCfg S) self t) (d : Bytes) :
    DomBest S t d (domLookup S t d) := by
  unfold domLookup
  dsimp only
  cases hex : (get t (false, S.fold d)).head? with
  | some r =>
    -- exact hit
    dsimp only
    have hrm : r ∈ get t (false, S.fold d) := List.mem_of_mem_head? hex
    obtain ⟨hk, hr⟩ := hwf.of_get hrm
    obtain ⟨hw, hp⟩ := key_exact hk
    have hne : get t (false, S.fold d) ≠ [] := by intro hn; rw [hn] at hrm; cases hrm
    refine ⟨hr, ?_, ?_, ?_⟩
    · unfold Matches; rw [hw]; simpa using hp
    · intro h; rw [hw] at h; cases h
    · intro r' hr' hm' hw'
      rw [hw] at hw'
      have hk' : domKey S r'.pay = (false, S.fold d) := by
        unfold Matches at hm'; rw [hw'] at hm'
        unfold domKey; rw [hw']; simpa using hm'
      have := hwf.mem_get hr'
      simp only [domCfg] at this
      rw [hk'] at this
      exact head_min (hwf.get_ok hne).sorted hex this
  | none =>
    dsimp only
    have hnil : get t (false, S.fold d) = [] := List.head?_eq_none_iff.mp hex
    -- no exact route applies
    have hnoexact : ∀ r' ∈ routes t, r'.pay.isWild = false → ¬ Matches S r'.pay d := by
      intro r' hr' hw' hm'
      have hk' : domKey S r'.pay = (false, S.fold d) := by
        unfold Matches at hm'; rw [hw'] at hm'
        unfold domKey; rw [hw']; simpa using hm'
      have := hwf.mem_get hr'
      simp only [domCfg] at this
      rw [hk', hnil] at this; cases this
    -- what a matching wildcard route forces
    have hwild : ∀ r' ∈ routes t, r'.pay.isWild = true → Matches S r'.pay d →
        ∃ l, splitDot (S.fold d) = some (l, S.fold r'.pay.base) ∧ l ≠ [] ∧ S.fold r'.pay.base ≠ [] ∧
          r' ∈ get t (true, S.fold r'.pay.base) := by
      intro r' hr' hw' hm'
      obtain ⟨l, hs, hl, hb⟩ := wild_split hw' hm'
      refine ⟨l, hs, hl, hb, ?_⟩
      have := hwf.mem_get hr'
      simp only [domCfg, domKey, hw', if_true] at this
      exact this
    have hnone : ∀ (res : Option (Entry DomPay)), res = none →
        (∀ r' ∈ routes t, r'.pay.isWild = true → Matches S r'.pay d → False) →
        DomBest S t d none := by
      intro _ _ hno r' hr' hm'
      cases hw' : r'.pay.isWild with
      | false => exact hnoexact r' hr' hw' hm'
      | true => exact hno r' hr' hw' hm'
    cases hsp : splitDot (S.fold d) with
    | none =>
      dsimp only
      refine hnone none rfl ?_
      intro r' hr' hw' hm'
      obtain ⟨l, hs, -⟩ := hwild r' hr' hw' hm'
      rw [hsp] at hs; cases hs
    | some lb =>
      obtain ⟨l, b⟩ := lb
      dsimp only
      by_cases hc : l ≠ [] ∧ b ≠ []
      · rw [if_pos hc]
        cases hwl : (get t (true, b)).head? with
        | none =>
          refine hnone none rfl ?_
          intro r' hr' hw' hm'
          obtain ⟨l', hs, -, -, hg⟩ := hwild r' hr' hw' hm'
          rw [hsp] at hs
          simp only [Option.some.injEq, Prod.mk.injEq] at hs
          rw [← hs.2, List.head?_eq_none_iff.mp hwl] at hg; cases hg
        | some r =>
          have hrm : r ∈ get t (true, b) := List.mem_of_mem_head? hwl
          obtain ⟨hk, hr⟩ := hwf.of_get hrm
          obtain ⟨hw, hb⟩ := key_wild hk
          have hne : get t (true, b) ≠ [] := by intro hn; rw [hn] at hrm; cases hrm
          obtain ⟨hd1, hd2⟩ := splitDot_some hsp
          refine ⟨hr, ?_, fun _ => hnoexact, ?_⟩
          · unfold Matches
            rw [if_pos hw, hb]
            exact ⟨l, hd1, hd2, hc.1, hc.2⟩
          · intro r' hr' hm' hw'
            rw [hw] at hw'
            obtain ⟨l', hs, -, -, hg⟩ := hwild r' hr' hw' hm'
            rw [hsp] at hs
            simp only [Option.some.injEq, Prod.mk.injEq] at hs
            rw [← hs.2] at hg
            exact head_min (hwf.get_ok hne).sorted hwl hg
      · rw [if_neg hc]
        refine hnone none rfl ?_
        intro r' hr' hw' hm'
        obtain ⟨l', hs, hl', hb', -⟩ := hwild r' hr' hw' hm'
        rw [hsp] at hs
        simp only [Option.some.injEq, Prod.mk.injEq] at hs
        exact hc ⟨hs.1 ▸ hl', hs.2 ▸ hb'⟩

/-- An exact pattern wins over any wildcard: if some stored exact route applies, the answer is
    an exact route for that name. -/
theorem C09_exact_first {S : Str} {self : Nat} {t : DTable} (hwf : WF (domCfg S) self t) (d : Bytes)
    {e : Entry DomPay} (he : e ∈ routes t) (hw : e.pay.isWild = false) (hm : Matches S e.pay d) :
    ∃ r, domLookup S t d = some r ∧ r.pay.isWild = false ∧ S.fold r.pay.pattern = S.fold d := by
  have h := C09_domain_correct hwf d
  cases hl : domLookup S t d with
  | none => rw [hl] at h; exact absurd hm (h e he)
  | some r =>
    rw [hl] at h
    obtain ⟨-, hmr, hex, -⟩ := h
    cases hwr : r.pay.isWild with
    | true => exact absurd hm (hex hwr e he hw)
    | false =>
      refine ⟨r, rfl, hwr, ?_⟩
      unfold Matches at hmr; rw [hwr] at hmr; simpa using hmr

/-- A wildcard answer is exactly one label deep. -/
theorem C09_wildcard_one_label {S : Str} {self : Nat} {t : DTable} (hwf : WF (domCfg S) self t) (d : Bytes)
    {r : Entry DomPay} (hl : domLookup S t d = some r) (hw : r.pay.isWild = true) :
    ∃ l, S.fold d = l ++ dot :: S.fold r.pay.base ∧ dot ∉ l ∧ l ≠ [] := by
  have h := C09_domain_correct hwf d
  rw [hl] at h
  have hm := h.2.1
  unfold Matches at hm
  rw [if_pos hw] at hm
  obtain ⟨l, h1, h2, h3, -⟩ := hm
  exact ⟨l, h1, h2, h3⟩

/-- Nothing is returned exactly when no stored route applies. -/
theorem C09_domain_none_iff {S : Str} {self : Nat} {t : DTable} (hwf : WF (domCfg S) self t) (d : Bytes) :
    domLookup S t d = none ↔ ∀ r ∈ routes t, ¬ Matches S r.pay d := by
  have h := C09_domain_correct hwf d
  constructor
  · intro hn; rw [hn] at h; exact h
  · intro hall
    cases hl : domLookup S t d with
    | none => rfl
    | some r => rw [hl] at h; exact absurd h.2.1 (hall r h.1)

/-! ### forward-key and agent lookups -/

/-- Lowest metric for the key; nothing iff no route of that key is stored. -/
theorem C09_forward_correct {self : Nat} {t : FTable} (hwf : WF fwdCfg self t) (k : Bytes) :
    KeyBest fwdCfg t k (fwdLookup t k) := best_correct hwf k

theorem C09_agent_correct {self : Nat} {t : ATable} (hwf : WF agCfg self t) (a : Nat) :
    KeyBest agCfg t a (agLookup t a) := best_correct hwf a

/-- **C09 holds**: every history, every name / key / agent. -/
theorem C09_holds : C09_statement :=
  ⟨fun S self ops d => C09_domain_correct (C09_inv_domain S self ops) d,
   fun self ops k => C09_forward_correct (C09_inv_forward self ops) k,
   fun self ops a => C09_agent_correct (C09_inv_agent self ops) a⟩

/-! ### non-vacuity -/

private def dent (pat : Bytes) (o m : Nat) : Entry DomPay :=
  ⟨payOfPattern asciiStr pat, o, o, m, 1, [o], 0⟩

/-- exact beats wildcard whatever the metrics; case is ignored; two labels deep does not match.
    Table: `*.Ex.com` (metric 1), `API.ex.COM` (9), `*.ex.com` (0). -/
example :
    let t := (run (domCfg asciiStr) 1 [.add (dent [42, 46, 69, 120, 46, 99, 111, 109] 2 1), .add (dent [65, 80, 73, 46, 101, 120, 46, 67, 79, 77] 3 9),
                            .add (dent [42, 46, 101, 120, 46, 99, 111, 109] 4 0)]).tab
    -- api.EX.com → the exact route
    (domLookup asciiStr t [97, 112, 105, 46, 69, 88, 46, 99, 111, 109]).map (·.metric) = some 9 ∧
    -- www.ex.com → the cheapest wildcard
    (domLookup asciiStr t [119, 119, 119, 46, 101, 120, 46, 99, 111, 109]).map (·.metric) = some 0 ∧
    -- a.b.ex.com, ex.com, .ex.com → nothing
    domLookup asciiStr t [97, 46, 98, 46, 101, 120, 46, 99, 111, 109] = none ∧
    domLookup asciiStr t [101, 120, 46, 99, 111, 109] = none ∧
    domLookup asciiStr t [46, 101, 120, 46, 99, 111, 109] = none := by decide

/-- `*.Ex.com` (1), `API.ex.COM` (9), `*.ex.com` (0) -/
private def tD : DTable :=
  (run (domCfg asciiStr) 1 [.add (dent [42, 46, 69, 120, 46, 99, 111, 109] 2 1),
    .add (dent [65, 80, 73, 46, 101, 120, 46, 67, 79, 77] 3 9),
    .add (dent [42, 46, 101, 120, 46, 99, 111, 109] 4 0)]).tab

/-- hypotheses of `C09_domain_correct` / `C09_domain_none_iff`: a well-formed table with an exact
    and a wildcard slice -/
example : WF (domCfg asciiStr) 1 tD ∧ (routes tD).length = 3 ∧ tD.length = 2 :=
  ⟨C09_inv_domain asciiStr 1 _, by decide, by decide⟩

/-- hypotheses of `C09_exact_first`: a stored exact route that applies to `api.EX.com` -/
example : ∃ e ∈ routes tD, e.pay.isWild = false ∧
    Matches asciiStr e.pay [97, 112, 105, 46, 69, 88, 46, 99, 111, 109] :=
  ⟨dent [65, 80, 73, 46, 101, 120, 46, 67, 79, 77] 3 9, by decide, by decide,
    (matchesB_iff _ _ _).mp (by decide)⟩

/-- hypotheses of `C09_wildcard_one_label`: `www.ex.com` is answered by a wildcard route -/
example : ∃ r, domLookup asciiStr tD [119, 119, 119, 46, 101, 120, 46, 99, 111, 109] = some r ∧
    r.pay.isWild = true :=
  ⟨dent [42, 46, 101, 120, 46, 99, 111, 109] 4 0, by decide, by decide⟩

/-- hypotheses of `C09_forward_correct` / `C09_agent_correct`: well-formed tables with two routes
    under one key, the cheaper one answered -/
example :
    let tF := (run fwdCfg 1 [.add ⟨⟨[119], [104]⟩, 2, 2, 5, 1, [2], 0⟩, .add ⟨⟨[119], [104]⟩, 3, 3, 4, 1, [3], 0⟩]).tab
    let tA := (run agCfg 1 [.add ⟨7, 2, 7, 3, 1, [2, 7], 0⟩, .add ⟨7, 3, 7, 2, 1, [3, 7], 0⟩]).tab
    WF fwdCfg 1 tF ∧ WF agCfg 1 tA ∧ (fwdLookup tF [119]).map (·.metric) = some 4 ∧
    (agLookup tA 7).map (·.nextHop) = some 3 :=
  ⟨C09_inv_forward 1 _, C09_inv_agent 1 _, by decide, by decide⟩

end MM.C09
