/-
  C24 — HTTP API enforces bearer-token auth and endpoint gating.

  "When an API token is configured, every request to a non-exempt endpoint without the valid
   token (in the header or the query) gets 401 and triggers no action.  The exempt endpoints are
   exactly the health and readiness probes, the splash page and the logo.  Endpoint groups
   disabled in configuration answer 404 and perform no action."

  Model: MM/Model/C24.lean.  The exempt set and the registration table are regenerated from
  internal/health/server.go (go/ast) on every run; net/http's ServeMux is modelled for the pattern
  forms registered there and validated by the correspondence run only (it is not verified).
  Quantification: all escaped path spellings (`Raw`), CONNECT / non-CONNECT, all Authorization
  header values and query tokens, all 2^3 flag combinations, any token predicate `valid`.
-/
import MM.Lemmas.C24
import MM.Gen.C24Tok
import MM.Gen.LockC24

namespace MM.C24

/-- The documented exempt endpoints: health and readiness probes, the splash page, the logo. -/
def documentedExempt : List (List Char) :=
  [['/', 'h', 'e', 'a', 'l', 't', 'h'], ['/', 'h', 'e', 'a', 'l', 't', 'h', 'z'], ['/', 'r', 'e', 'a', 'd', 'y'], ['/'],
   ['/', 'l', 'o', 'g', 'o', '.', 'p', 'n', 'g']]

/-! The request type `Req` IS the set of things the 401 decision may look at: the escaped path, whether
the method is CONNECT (routing only), the value of the Authorization header and the `token` query
parameter.  The method itself and every other request header (Origin, Access-Control-Request-*,
Upgrade / Connection, X-Forwarded-*, X-Original-URL, X-HTTP-Method-Override, Proxy-Authorization,
Cookie, …) are not arguments of `serve`: by construction they cannot influence the answer.  The
`reqh` ops tie that to the code — the same request with each header set of a fixed pool, for every
protected path and every method, must get the model's answer (401 before the mux without a token). -/

/-- Token configured, path not exempt, no valid token (header or query) ⇒ 401 and no handler at
    all (the mux is never consulted), for every method, path spelling and flag combination. -/
theorem C24_401 (valid : List Char → Bool) (f : Flags) (r : Req)
    (hex : decoded r.path ∉ exempt)
    (htok : extractToken r = [] ∨ valid (extractToken r) = false) :
    serve valid true f r = ⟨.s401, none, false⟩ := by
  unfold serve
  simp only [Bool.not_true, Bool.false_eq_true, if_false, if_neg hex]
  rw [if_pos htok]

/-- The exempt set in the source is exactly the documented one. -/
theorem C24_exempt_set : ∀ p, p ∈ exempt ↔ p ∈ documentedExempt := by
  intro p
  simp only [exempt, Gen.C24.exempt, documentedExempt, List.mem_cons, List.mem_nil_iff, or_false]
  constructor <;> (intro h; rcases h with h | h | h | h | h <;> simp [h])

/-! ### the token predicate is a function of the token (atomic-step / ordering ties)

`C24_401` takes `valid` as a FUNCTION of the presented token.  For the real `validateToken` this
needs: (a) the cache (`cachedTokenSHA`, `tokenCacheValid`) is written only after
`bcrypt.CompareHashAndPassword` returned nil for that very token — then "the cache holds t" implies
"bcrypt accepts t" at every instant of every interleaving, so the fast path never accepts a token
bcrypt would refuse (SHA-256 collisions aside); (b) the cache fields are written under the write
lock and read under a lock, so a reader never sees a half-written entry.  Both are facts about the
source, regenerated on every run (tools/c24_tokencache.go, tools/lockshape.go). -/

/-- (a) one bcrypt call, used as the guard `if bcrypt…(…) != nil { return false }`, and every
    assignment to a cache field is a statement after that guard. -/
theorem C24_cache_after_bcrypt :
    Gen.C24Tok.bcryptCalls = 1 ∧ Gen.C24Tok.guards = 1 ∧ Gen.C24Tok.cacheWritesBeforeGuard = 0 ∧
    Gen.C24Tok.cacheWrites = Gen.C24Tok.cacheWritesAfterGuard := by decide

/-- (b) every write of a cache field happens under the write lock, every read under a lock. -/
theorem C24_cache_locked :
    Gen.LockC24.accesses.all (fun a => if a.2.2.1 then a.2.2.2 == "W" else (a.2.2.2 == "R" || a.2.2.2 == "W")) = true ∧
    Gen.LockC24.accesses ≠ [] := by decide

/-! ### which strings authenticate -/

/-- With the length / NUL guard, the only string bcrypt's key construction identifies with a
    NUL-free token of at most 72 bytes is the token itself. -/
theorem C24_token_exact (t p : List Char) (ht : t.length ≤ 72) (htn : NUL ∉ t)
    (h : validateToken t p = true) : p = t := by
  unfold validateToken bcryptAccepts at h
  simp only [Bool.and_eq_true, decide_eq_true_eq, Bool.not_eq_true', beq_iff_eq] at h
  obtain ⟨⟨hp, hpn⟩, hk⟩ := h
  have hpn' : NUL ∉ p := by
    intro hm; have := List.contains_iff_mem.mpr hm; rw [hpn] at this; cases this
  have hkey : ∀ i, i < 72 → (p ++ [NUL]).getD (i % (p.length + 1)) NUL = (t ++ [NUL]).getD (i % (t.length + 1)) NUL := by
    intro i hi
    have h1 := key_at (p := p) hi
    have h2 := key_at (p := t) hi
    rw [hk, h2] at h1
    exact (Option.some.inj h1).symm
  -- where the key of `t` has its NUL
  have tz : ∀ j, j < t.length + 1 → (t ++ [NUL]).getD j NUL = NUL → j = t.length := by
    intro j hj hz
    by_cases hlt : j < t.length
    · rw [getD_concat_lt hlt] at hz
      exact absurd (hz ▸ List.getElem_mem hlt) htn
    · omega
  have pz : ∀ j, j < p.length → (p ++ [NUL]).getD j NUL ≠ NUL := by
    intro j hj hz
    rw [getD_concat_lt hj] at hz
    exact hpn' (hz ▸ List.getElem_mem hj)
  have hlen : p.length = t.length := by
    by_cases hp72 : p.length = 72
    · -- no NUL among the 72 key bytes of p, so none among those of t
      by_cases htl : t.length < 72
      · have := hkey t.length htl
        rw [Nat.mod_eq_of_lt (by omega), Nat.mod_eq_of_lt (by omega), getD_concat_eq] at this
        exact absurd this (pz t.length (by omega))
      · omega
    · have hp71 : p.length < 72 := by omega
      have hz := hkey p.length hp71
      rw [Nat.mod_eq_of_lt (by omega), getD_concat_eq] at hz
      have hmod := tz (p.length % (t.length + 1)) (Nat.mod_lt _ (by omega)) hz.symm
      by_cases hge : p.length < t.length + 1
      · rw [Nat.mod_eq_of_lt hge] at hmod; exact hmod
      · -- then position t.length < p.length of p's key would be NUL
        have hi : t.length < 72 := by omega
        have := hkey t.length hi
        rw [Nat.mod_eq_of_lt (by omega), Nat.mod_eq_of_lt (by omega), getD_concat_eq] at this
        exact absurd this (pz t.length (by omega))
  apply List.ext_getElem hlen
  intro i h1 h2
  have hi : i < 72 := by omega
  have := hkey i hi
  rw [Nat.mod_eq_of_lt (by omega), Nat.mod_eq_of_lt (by omega), getD_concat_lt h1, getD_concat_lt h2] at this
  exact this


/-- Hence: token configured (NUL-free, at most 72 bytes — all that can be hashed), path not exempt,
    and the presented string (header or query) is not EXACTLY the token ⇒ 401, mux never reached. -/
theorem C24_401_exact (t : List Char) (f : Flags) (r : Req) (ht : t.length ≤ 72) (htn : NUL ∉ t)
    (hex : decoded r.path ∉ exempt) (hne : extractToken r ≠ t) :
    serve (validateToken t) true f r = ⟨.s401, none, false⟩ := by
  apply C24_401 _ f r hex
  by_cases h : validateToken t (extractToken r) = true
  · exact absurd (C24_token_exact t _ ht htn h) hne
  · right; simpa using h

/-- Without the length / NUL guard bcrypt alone identifies other strings with the token (this is
    what the code did before fixes/C24-token-length.patch): a 72-byte token and any extension. -/
example : bcryptAccepts (List.replicate 72 'a') (List.replicate 72 'a' ++ ['x']) = true := by decide
example : bcryptAccepts ['a', 'b'] ['a', 'b', NUL, 'a', 'b'] = true := by decide
example : validateToken ['a', 'b'] ['a', 'b'] = true ∧ validateToken ['a', 'b'] ['a', 'b', NUL, 'a', 'b'] = false := by decide

/-! ### exempt paths reach only exempt registrations -/

/-- Shape every exempt path has: "/" or "/seg" with one ordinary segment. -/
def exemptShapeOK (d : List Char) : Bool :=
  d.head? == some '/' && !(d.drop 1).contains '/' && d.drop 1 != ['.'] && d.drop 1 != ['.', '.']

def okRes : MuxRes → Bool
  | .route rt => exempt.contains rt.pat
  | _ => true

theorem exempt_shape : exempt.all exemptShapeOK = true := by decide

/-- Table fact: for every flag combination, a path that the tree sees as an exempt path is served
    by the registration of that exempt path (or redirected). -/
theorem exempt_table (a b c conn ch : Bool) :
    exempt.all (fun d => okRes (decideSegs (active ⟨a, b, c⟩) conn ch (segsOfDecoded d).1 (segsOfDecoded d).2)) = true := by
  cases a <;> cases b <;> cases c <;> cases conn <;> cases ch <;> decide

theorem muxRoute_exempt (f : Flags) (conn : Bool) (p : Raw) (h : decoded p ∈ exempt) :
    okRes (muxRoute (active f) conn p) = true := by
  have hshape := List.all_eq_true.mp exempt_shape _ h
  have htab : ∀ ch, okRes (decideSegs (active f) conn ch (segsOfDecoded (decoded p)).1 (segsOfDecoded (decoded p)).2) = true := by
    intro ch
    obtain ⟨a, b, c⟩ := f
    exact List.all_eq_true.mp (exempt_table a b c conn ch) _ h
  unfold exemptShapeOK at hshape
  simp only [Bool.and_eq_true, Bool.not_eq_true', bne_iff_ne, ne_eq, beq_iff_eq] at hshape
  obtain ⟨⟨⟨hhead, hns⟩, hnd⟩, hndd⟩ := hshape
  cases p with
  | nil => simp [decoded] at hhead
  | cons x rest =>
    have hxv : x.val = '/' := by simpa [decoded] using hhead
    have hrest : ∀ c ∈ rest, c ≠ slash := by
      intro c hc hcs
      have : '/' ∈ (decoded (x :: rest)).drop 1 := by
        simp only [decoded, List.map_cons, List.drop_succ_cons, List.drop_zero]
        exact List.mem_map.mpr ⟨c, hc, by rw [hcs]; rfl⟩
      have hcont : ((decoded (x :: rest)).drop 1).contains '/' = true := List.contains_iff_mem.mpr this
      rw [hns] at hcont
      cases hcont
    have hseg := segsOf_noSlash x rest hrest
    unfold muxRoute mpath
    cases conn with
    | true =>
      simp only [if_true]
      rw [hseg]
      exact htab _
    | false =>
      simp only [Bool.false_eq_true, if_false]
      by_cases hx : x = slash
      · subst hx
        have hclean : cleanPath (slash :: rest) = slash :: rest := by
          cases hr : rest with
          | nil => exact cleanPath_root
          | cons y ys =>
            rw [← hr]
            refine cleanPath_single rest hrest (by rw [hr]; simp) ?_ ?_
            · intro hd
              apply hnd
              simp [decoded, hd, dot, PC.val]
            · intro hd
              apply hndd
              simp [decoded, hd, dotdot, PC.val]
        rw [hclean, hseg]
        exact htab _
      · have hne : cleanPath (x :: rest) ≠ x :: rest :=
          cleanPath_ne_of_head (by simpa using hx)
        have hdec : decide (cleanPath (x :: rest) ≠ x :: rest) = true := by simpa using hne
        rw [hdec, decideSegs_changed]
        rfl

/-- A request whose decoded path is exempt is served by the registration of an exempt path, or by
    no handler at all (redirect) — for every escaped spelling of the path, with or without a token.
    Together with `C24_401`: without the valid token only the exempt registrations ever run. -/
theorem C24_exempt_exact (valid : List Char → Bool) (tc : Bool) (f : Flags) (r : Req)
    (h : decoded r.path ∈ exempt) :
    (serve valid tc f r).route = none ∨
      ∃ rt, (serve valid tc f r).route = some rt ∧ rt.pat ∈ exempt := by
  rcases serve_cases valid tc f r with hs | hs
  · rw [hs]
    have hok := muxRoute_exempt f r.connect r.path h
    unfold serveMux
    cases hm : muxRoute (active f) r.connect r.path with
    | redirect => exact Or.inl rfl
    | notFound => exact Or.inl rfl
    | route rt =>
      rw [hm] at hok
      have hmem : rt.pat ∈ exempt := List.contains_iff_mem.mp hok
      right
      refine ⟨rt, ?_, hmem⟩
      dsimp only
      split
      · rfl
      · split <;> rfl
  · rw [hs]; exact Or.inl rfl

/-! ### disabled endpoint groups -/

theorem fact_disabled : routes.all (fun r => r.grp == 0 || r.whenOn || r.disabled) = true := by decide

theorem fact_grp : routes.all (fun r => decide (r.grp ≤ 3)) = true := by decide

/-- No registration of another group (or an unconditional one) sits below a group's pattern. -/
theorem fact_nested :
    routes.all (fun q => q.grp == 0 || routes.all (fun r => !(q.segs.isPrefixOf r.segs) || r.grp == q.grp)) = true := by
  decide

/-- Every pattern of a group's enabled branch is covered by a pattern of its disabled branch. -/
theorem fact_cover :
    routes.all (fun p => p.grp == 0 || !p.whenOn ||
      routes.any (fun q => q.grp == p.grp && !q.whenOn && covers q p)) = true := by
  decide

theorem active_off {f : Flags} {rt : Route} (hm : rt ∈ active f) (hoff : f.on rt.grp = false)
    (hg : rt.grp ≠ 0) : rt.disabled = true := by
  have hmem := List.mem_filter.mp hm
  have hw : rt.whenOn = false := by
    have := hmem.2
    rw [hoff] at this
    cases hwo : rt.whenOn with
    | false => rfl
    | true => rw [hwo] at this; cases this
  have := List.all_eq_true.mp fact_disabled rt hmem.1
  simp only [Bool.or_eq_true, beq_iff_eq] at this
  rcases this with (h0 | h1) | h2
  · exact absurd h0 hg
  · rw [hw] at h1; cases h1
  · exact h2

/-- A disabled group's handlers never run, whatever the path: any registration of that group that
    serves a request is a `disabledHandler`, the answer is 404 and no provider is called. -/
theorem C24_disabled_no_action (valid : List Char → Bool) (tc : Bool) (f : Flags) (r : Req)
    (rt : Route) (h : (serve valid tc f r).route = some rt) (hg : rt.grp ≠ 0)
    (hoff : f.on rt.grp = false) :
    rt.disabled = true ∧ (serve valid tc f r).status = .s404 ∧ (serve valid tc f r).mayCall = false := by
  rcases serve_cases valid tc f r with hs | hs
  · rw [hs] at h ⊢
    unfold serveMux at h ⊢
    cases hm : muxRoute (active f) r.connect r.path with
    | redirect => rw [hm] at h; cases h
    | notFound => rw [hm] at h; cases h
    | route rt' =>
      rw [hm] at h
      have hmem := muxRoute_mem hm
      have hrt : rt' = rt := by
        dsimp only at h
        split at h
        · cases h; rfl
        · split at h <;> (cases h; rfl)
      subst hrt
      have hd := active_off hmem hoff hg
      simp [hd]
  · rw [hs] at h; cases h

/-- The request lies in the area of endpoint group `g`: the path the mux matches on is matched by
    a pattern that NewServer registers when the group is enabled. -/
def inGroup (g : Nat) (r : Req) : Prop :=
  ∃ P ∈ routes, P.grp = g ∧ P.whenOn = true ∧
    patMatches P (segsOf (mpath r.connect r.path)).1 (segsOf (mpath r.connect r.path)).2 = true

/-- Group disabled ⇒ every request in the group's area that gets past authentication and is not
    redirected is answered 404 by a `disabledHandler`, and no provider is called. -/
theorem C24_disabled_404 (valid : List Char → Bool) (tc : Bool) (f : Flags) (r : Req) (g : Nat)
    (hg : g ≠ 0) (hoff : f.on g = false) (hin : inGroup g r)
    (h401 : (serve valid tc f r).status ≠ .s401) (h301 : (serve valid tc f r).status ≠ .s301) :
    (serve valid tc f r).status = .s404 ∧ (serve valid tc f r).mayCall = false ∧
      ∃ rt, (serve valid tc f r).route = some rt ∧ rt.disabled = true := by
  obtain ⟨P, hP, hPg, hPon, hPm⟩ := hin
  -- a disabled-branch pattern of the same group covers P
  have hc := List.all_eq_true.mp fact_cover P hP
  simp only [Bool.or_eq_true, beq_iff_eq, Bool.not_eq_true'] at hc
  have hPg0 : P.grp ≠ 0 := by rw [hPg]; exact hg
  rcases hc with (h0 | h1) | h2
  · exact absurd h0 hPg0
  · rw [hPon] at h1; cases h1
  · obtain ⟨Q, hQ, hQc⟩ := List.any_eq_true.mp h2
    simp only [Bool.and_eq_true, beq_iff_eq, Bool.not_eq_true'] at hQc
    obtain ⟨⟨hQg, hQoff⟩, hcov⟩ := hQc
    have hQm := covers_matches hcov hPm
    have hQact : Q ∈ active f := by
      refine List.mem_filter.mpr ⟨hQ, ?_⟩
      rw [hQg, hPg, hoff, hQoff]; rfl
    obtain ⟨M, hM, hMact, hpre⟩ := matchSegs_of_match hQact hQm
    have hMroutes := (List.mem_filter.mp hMact).1
    have hn := List.all_eq_true.mp fact_nested Q hQ
    simp only [Bool.or_eq_true, beq_iff_eq] at hn
    have hMg : M.grp = g := by
      rcases hn with h0 | hall
      · rw [hQg] at h0; exact absurd h0 hPg0
      · have := List.all_eq_true.mp hall M hMroutes
        simp only [Bool.or_eq_true, Bool.not_eq_true', beq_iff_eq] at this
        rcases this with hnp | hg'
        · have : Q.segs.isPrefixOf M.segs = true := List.isPrefixOf_iff_prefix.mpr hpre
          rw [this] at hnp; cases hnp
        · rw [hg', hQg, hPg]
    have hMd : M.disabled = true := active_off hMact (by rw [hMg]; exact hoff) (by rw [hMg]; exact hg)
    rcases serve_cases valid tc f r with hs | hs
    · rw [hs] at h301 ⊢
      unfold serveMux at h301 ⊢
      unfold muxRoute at h301 ⊢
      dsimp only at h301 ⊢
      rcases decideSegs_some (c := r.connect)
        (ch := decide (mpath r.connect r.path ≠ r.path)) hM with hd | hd
      · rw [hd] at h301; exact absurd rfl h301
      · rw [hd]
        simp [hMd]
    · rw [hs] at h401; exact absurd rfl h401

/-! ### gating as CONFIGURED

agent.go builds `health.ServerConfig` from `cfg.HTTP.PprofEnabled()` / `DashboardEnabled()` /
`RemoteAPIEnabled()`; the `gate` ops serve requests through the handler of an agent built by
`agent.New` from parsed YAML, for every combination of `minimal` × {unset, true, false}³, and compare
with `serve … (flagsOfConfig h)`. -/

/-- Minimal mode disables every endpoint group whatever the per-group flags say; otherwise a group is
    disabled exactly when its flag is set to false. -/
theorem C24_minimal_overrides (h : HTTPCfg) (hm : h.minimal = true) :
    flagsOfConfig h = ⟨false, false, false⟩ := by
  simp [flagsOfConfig, groupEnabled, hm]

/-- … so in minimal mode any request in the area of any group, past authentication and not
    redirected, answers 404 from a `disabledHandler` without provider calls. -/
theorem C24_minimal_404 (valid : List Char → Bool) (tc : Bool) (h : HTTPCfg) (r : Req) (g : Nat)
    (hm : h.minimal = true) (hg : g = 1 ∨ g = 2 ∨ g = 3) (hin : inGroup g r)
    (h401 : (serve valid tc (flagsOfConfig h) r).status ≠ .s401)
    (h301 : (serve valid tc (flagsOfConfig h) r).status ≠ .s301) :
    (serve valid tc (flagsOfConfig h) r).status = .s404 ∧ (serve valid tc (flagsOfConfig h) r).mayCall = false := by
  have hoff : (flagsOfConfig h).on g = false := by
    rw [C24_minimal_overrides h hm]
    rcases hg with rfl | rfl | rfl <;> rfl
  have hg0 : g ≠ 0 := by rcases hg with rfl | rfl | rfl <;> decide
  have := C24_disabled_404 valid tc (flagsOfConfig h) r g hg0 hoff hin h401 h301
  exact ⟨this.1, this.2.1⟩

example : flagsOfConfig ⟨false, none, some false, some true⟩ = ⟨true, false, true⟩ := rfl

/-! ### non-vacuity -/

private def rq (conn : Bool) (p : Raw) (auth q : List Char) : Req := ⟨conn, p, auth, q⟩
private def lits (s : List Char) : Raw := s.map PC.lit
private def allOn : Flags := ⟨true, true, true⟩

-- "/agents" without a token: 401, nothing runs.
example : serve (fun _ => false) true allOn (rq false (lits ['/', 'a', 'g', 'e', 'n', 't', 's']) [] []) =
    ⟨.s401, none, false⟩ := by decide
-- "/health" without a token: served by the "/health" registration.
example : ((serve (fun _ => false) true allOn (rq false (lits ['/', 'h', 'e', 'a', 'l', 't', 'h']) [] [])).route.map (·.pat)) =
    some ['/', 'h', 'e', 'a', 'l', 't', 'h'] := by decide
-- "/%68ealth" decodes to the exempt "/health" and reaches the same registration.
example : ((serve (fun _ => false) true allOn
    (rq false (PC.lit '/' :: PC.enc 'h' :: lits ['e', 'a', 'l', 't', 'h']) [] [])).route.map (·.pat)) =
    some ['/', 'h', 'e', 'a', 'l', 't', 'h'] := by decide
-- dashboard disabled: "/api/topology" is in the dashboard area and answers 404 from "/api/".
example : inGroup 2 (rq false (lits ['/', 'a', 'p', 'i', '/', 't', 'o', 'p', 'o', 'l', 'o', 'g', 'y']) [] []) :=
  ⟨⟨['/', 'a', 'p', 'i', '/', 't', 'o', 'p', 'o', 'l', 'o', 'g', 'y'], 2, true, false, "s.handleTopology"⟩,
    by decide, rfl, rfl, by decide⟩
example : (serve (fun _ => false) false ⟨true, false, true⟩
    (rq false (lits ['/', 'a', 'p', 'i', '/', 't', 'o', 'p', 'o', 'l', 'o', 'g', 'y']) [] [])).status = .s404 := by decide

end MM.C24
