/-
  C36 — Embedded configuration round-trips and malformed binaries are handled safely.

  "Embedding any non-empty configuration into a binary and reading it back yields the
   same configuration, and stripping it yields the original binary.  For any file
   contents, the embedded-configuration readers return a result or an error without
   crashing and without reading outside the file."

  Model: MM/Model/C36.lean (tied to /repo/internal/embed/embed.go by T-diff, constants by T-gen).
  Only property theorems live here; helpers are in MM/Lemmas/C36.lean.
-/
import MM.Lemmas.C36

namespace MM.C36
open MM

/-- XOR obfuscation is an involution (so decoding undoes encoding). -/
theorem C36_xor_involutive (bs : Bytes) : xor (xor bs) = bs := xorFrom_xorFrom 0 bs

/-- Shape of a successful embed. -/
theorem appendConfig_ok {src cfg out : Bytes} (h : appendConfig src cfg = .ok out) :
    out = src ++ xor cfg ++ (leN 8 cfg.length ++ magic) := by
  unfold appendConfig at h
  split at h
  · cases h
  · injection h with h; simp [← h]

/-- `FooterSize` in the source is the 16 the model uses (T-gen tie). -/
theorem footerSize_tie : Gen.C36.footerSize = footerSize := by decide

/-- Round trip: whenever `AppendConfig` succeeds on a non-empty configuration, reading the
    produced file returns exactly that configuration.  (`AppendConfig` refuses only sources that
    already end in the magic; `hsz` says the file fits the address space, which `make` needs.) -/
theorem C36_roundtrip (src cfg out : Bytes) (hne : cfg ≠ [])
    (h : appendConfig src cfg = .ok out) (hsz : (out.length : Int) ≤ maxAlloc) :
    readEmbedded out = .ok cfg := by
  have hout := appendConfig_ok h
  have hlen : out.length = src.length + cfg.length + 16 := by
    rw [hout]; simp [magic_length]; omega
  have hcpos : 0 < cfg.length := List.length_pos_iff.mpr hne
  have hmax : maxAlloc = 2^48 := rfl
  have hc63 : cfg.length < 2^63 := by omega
  have hfooter : out.drop (out.length - 16) = leN 8 cfg.length ++ magic := by
    rw [hout]; exact drop_footer src (xor cfg) cfg.length
  have hra := readAt_footer (file := out) (by omega)
  have hal : allocOK (cfg.length : Int) = true := by
    unfold allocOK; simp; omega
  have hstart : (out.length : Int) - 16 - (cfg.length : Int) = (src.length : Nat) := by omega
  have hbody : (out.drop src.length).take cfg.length = xor cfg := by
    rw [hout, List.append_assoc, List.drop_left]
    exact List.take_left' (xor_length cfg)
  unfold readEmbedded
  dsimp only
  rw [if_neg (by omega), hra, hfooter]
  simp only [footerMagic_embedded, footerLen_embedded (show cfg.length < 2^64 by omega),
    ne_eq, not_true_eq_false, if_false]
  rw [if_neg (by omega), if_neg (by omega), toInt64_of_lt hc63]
  simp only [hal, Bool.not_true, Bool.false_eq_true, if_false]
  rw [hstart, readAt_eq (by omega), hbody]
  simp only [C36_xor_involutive]

/-- `GetOriginalBinarySize` of a freshly embedded file is the source length. -/
theorem originalSize_embedded (src cfg out : Bytes)
    (h : appendConfig src cfg = .ok out) (hsz : (out.length : Int) ≤ maxAlloc) :
    originalSize out = .ok (src.length : Int) := by
  have hout := appendConfig_ok h
  have hlen : out.length = src.length + cfg.length + 16 := by
    rw [hout]; simp [magic_length]; omega
  have hmax : maxAlloc = 2^48 := rfl
  have hc63 : cfg.length < 2^63 := by omega
  have hfooter : out.drop (out.length - 16) = leN 8 cfg.length ++ magic := by
    rw [hout]; exact drop_footer src (xor cfg) cfg.length
  have hra := readAt_footer (file := out) (by omega)
  unfold originalSize
  dsimp only
  rw [if_neg (by omega), hra, hfooter]
  simp only [footerMagic_embedded, footerLen_embedded (show cfg.length < 2^64 by omega),
    ne_eq, not_true_eq_false, if_false]
  rw [if_neg (by omega), toInt64_of_lt hc63]
  congr 1; omega

/-- Stripping a freshly embedded file yields the original binary (also for an empty config). -/
theorem C36_strip (src cfg out : Bytes)
    (h : appendConfig src cfg = .ok out) (hsz : (out.length : Int) ≤ maxAlloc) :
    strip out = .ok src := by
  have hout := appendConfig_ok h
  have hlen : out.length = src.length + cfg.length + 16 := by
    rw [hout]; simp [magic_length]; omega
  have hmax : maxAlloc = 2^48 := rfl
  unfold strip
  rw [originalSize_embedded src cfg out h hsz]
  have hal : allocOK (src.length : Int) = true := by
    unfold allocOK; simp; omega
  simp only [hal, Bool.not_true, Bool.false_eq_true, if_false, Int.toNat_natCast]
  rw [readAt_zero (by omega), hout, List.append_assoc, List.take_left]

/-! Totality/safety for arbitrary file contents (`hsz`: the file fits the address space). -/

/-- `ReadEmbeddedConfig` never panics, never issues a read whose range is not inside the file,
    and the only allocation it requests is non-negative and no larger than the file. -/
theorem readEmbedded_safe (file : Bytes) (hsz : (file.length : Int) ≤ maxAlloc) :
    readEmbedded file ≠ .panic ∧ readEmbedded file ≠ .ioErr ∧
    (∀ n, readAllocRequest file = some n → 0 ≤ n ∧ n ≤ file.length) := by
  have hmax : maxAlloc = 2^48 := rfl
  unfold readEmbedded readAllocRequest; dsimp only
  by_cases h16 : (file.length : Int) < 16
  · simp [h16]
  · rw [if_neg h16, if_neg h16, readAt_footer (by omega)]
    dsimp only
    generalize file.drop (file.length - 16) = footer
    by_cases hm : footerMagic footer ≠ magic
    · simp [hm]
    · rw [if_neg hm, if_neg hm]
      by_cases h0 : footerLen footer = 0
      · simp [h0]
      · rw [if_neg h0, if_neg h0]
        by_cases hgt : footerLen footer > ((file.length:Int) - 16).toNat
        · simp [hgt]
        · rw [if_neg hgt, if_neg hgt]
          have h63 : footerLen footer < 2^63 := by omega
          rw [toInt64_of_lt h63]
          have hal : allocOK (footerLen footer : Int) = true := by unfold allocOK; simp; omega
          have e : (file.length:Int) - 16 - footerLen footer
              = ((file.length - 16 - footerLen footer : Nat) : Int) := by omega
          rw [e, readAt_eq (by omega)]
          simp [hal]; omega

/-- `GetOriginalBinarySize` answers with a valid prefix length of the file, or with
    `ErrConfigTooLarge`; nothing else. -/
theorem originalSize_safe (file : Bytes) (hsz : (file.length : Int) ≤ maxAlloc) :
    ∃ n, (originalSize file = .ok n ∧ 0 ≤ n ∧ n ≤ file.length) ∨ originalSize file = .tooLarge := by
  have hmax : maxAlloc = 2^48 := rfl
  unfold originalSize; dsimp only
  by_cases h16 : (file.length : Int) < 16
  · exact ⟨file.length, by simp [h16]⟩
  · rw [if_neg h16, readAt_footer (by omega)]
    dsimp only
    generalize file.drop (file.length - 16) = footer
    by_cases hm : footerMagic footer ≠ magic
    · exact ⟨file.length, by simp [hm]⟩
    · rw [if_neg hm]
      by_cases hgt : footerLen footer > ((file.length:Int) - 16).toNat
      · exact ⟨0, by simp [hgt]⟩
      · rw [if_neg hgt]
        have h63 : footerLen footer < 2^63 := by omega
        rw [toInt64_of_lt h63]
        exact ⟨_, Or.inl ⟨rfl, by omega, by omega⟩⟩

/-- `CopyBinaryWithoutConfig` never panics and never reads outside the file. -/
theorem strip_safe (file : Bytes) (hsz : (file.length : Int) ≤ maxAlloc) :
    strip file ≠ .panic ∧ strip file ≠ .ioErr := by
  have hmax : maxAlloc = 2^48 := rfl
  obtain ⟨n, h | h⟩ := originalSize_safe file hsz
  · obtain ⟨h, h0, h1⟩ := h
    have hal : allocOK n = true := by unfold allocOK; simp; omega
    unfold strip; rw [h]; dsimp only
    simp [hal, readAt_zero (file := file) (n := n.toNat) (by omega)]
  · unfold strip; rw [h]; simp
/-- C36, second sentence, assembled. -/
theorem C36_total (file : Bytes) (hsz : (file.length : Int) ≤ maxAlloc) :
    readEmbedded file ≠ .panic ∧ readEmbedded file ≠ .ioErr ∧
    strip file ≠ .panic ∧ strip file ≠ .ioErr ∧
    (∀ n, originalSize file = .ok n → 0 ≤ n ∧ n ≤ file.length) ∧
    (∀ n, readAllocRequest file = some n → 0 ≤ n ∧ n ≤ file.length) := by
  obtain ⟨r1, r2, r3⟩ := readEmbedded_safe file hsz
  obtain ⟨s1, s2⟩ := strip_safe file hsz
  refine ⟨r1, r2, s1, s2, ?_, r3⟩
  intro n hn
  obtain ⟨m, h | h⟩ := originalSize_safe file hsz
  · rw [h.1] at hn; injection hn with hn; subst hn; exact h.2
  · rw [h] at hn; cases hn

/-! Non-vacuity: a concrete embed satisfies the hypotheses and the conclusions compute. -/
example : appendConfig [1, 2, 3] [0x41, 0x42] ≠ .already ∧
    (∃ out, appendConfig [1, 2, 3] [0x41, 0x42] = .ok out ∧ readEmbedded out = .ok [0x41, 0x42]
      ∧ strip out = .ok [1, 2, 3]) := by
  refine ⟨by decide, _, rfl, by decide, by decide⟩

/-- The historical failing input stays refuted-as-safe: a trailer length of 2^63 on a 24-byte file
    is rejected as too large (before the fix the model and the code both crashed here). -/
example : readEmbedded ([0,0,0,0,0,0,0,0] ++ leN 8 (2^63) ++ magic) = .tooLarge := by decide

end MM.C36
