import MM.Lemmas.C11

/-
  C15 — route announcements do not travel beyond the configured hop limit.

  Model = MM/Model/C11.lean with `maxHops` = `FloodConfig.MaxHops` (the tree with
  fixes/C15-max-hops.patch; the wiring `cfg.Routing.MaxHops → FloodConfig.MaxHops` is tied by
  engine c15w through the real `agent.New`).  `config.Validate` admits 1..255, i.e. `maxHops > 0`.

  * `C15_beyond`    an agent that is more than `maxHops` hops from the origin (the advertisement it
                    receives has travelled `hopsOf a > maxHops` hops) neither stores nor forwards it.
  * `C15_at_limit`  at exactly `maxHops` hops it is stored but not forwarded.
  * `C15_statement` in every history (any topology — chains, rings, meshes longer than the limit —
                    any schedule, replays included): no stored route has a path longer than the
                    limit and no frame in flight carries one (SendFullTable does not replay a route
                    stored exactly at the limit — fixes/C15-wire-count-replay.patch).
  * `C15_no_wrap`   whatever the limit, no advertisement in flight lists more than 255 agents, so the
                    one-byte wire counts never wrap (before the repair a 256-agent replay at
                    max_hops = 255 was decoded as an EMPTY path and the hop count restarted).
-/
namespace MM.C15
open MM.C11

theorem C15_beyond (mh : Nat) (peers : List Node) (self frm clock : Nat) (a : Adv) (st : NodeSt)
    (hwd : a.wd = false) (hmh : mh > 0) (hfar : hopsOf a > mh) :
    (handle mh peers self frm clock a st).1.entries = st.entries ∧
    (handle mh peers self frm clock a st).2.1 = [] := by
  unfold handle
  split
  · exact ⟨rfl, rfl⟩
  · dsimp only
    split
    · exact ⟨rfl, rfl⟩
    · rw [if_neg (by simp [hwd]), if_pos ⟨hmh, hfar⟩]
      exact ⟨rfl, rfl⟩

theorem C15_at_limit (mh : Nat) (peers : List Node) (self frm clock : Nat) (a : Adv) (st : NodeSt)
    (hwd : a.wd = false) (hmh : mh > 0) (hat : hopsOf a = mh) :
    (handle mh peers self frm clock a st).2.1 = [] := by
  unfold handle
  split
  · rfl
  · dsimp only
    split
    · rfl
    · rw [if_neg (by simp [hwd])]
      split
      · rfl
      · rw [if_pos ⟨hmh, by omega⟩]

/-- Every agent enforces ITS OWN limit (agents of one mesh may be configured differently): what an
    agent with limit `h > 0` stores has a path of at most `h` agents, and so has everything it sends. -/
structure Inv (s : Net) : Prop where
  entries : ∀ x e, e ∈ (s.nodes x).entries → s.maxHops x > 0 → e.path.length ≤ s.maxHops x
  flight : ∀ f, f ∈ s.flight → (f.adv.wd = true → f.adv.path = []) ∧
    (s.maxHops f.src > 0 → f.adv.path.length ≤ s.maxHops f.src)

theorem inv_initH (n : Nat) (mh : Node → Nat) (L : Node → List RAd) : Inv (initH n mh L) where
  entries := by
    intro x e he _
    rw [(initNode_entries x (L x) e he).1]
    exact Nat.zero_le _
  flight := by intro f hf; simp [initH] at hf

theorem hopCap_le {mh : Nat} (h : mh > 0) : hopCap mh ≤ mh := by
  unfold hopCap maxWireAgents
  split <;> omega

theorem inv_step {s : Net} {op : Op} (hI : Inv s) : Inv (step s op) where
  entries := by
    intro x e he hmh
    rw [step_maxHops] at hmh ⊢
    rcases entries_step he with h | ⟨a, m, hm, _, _, _, _, hacc, _, r, _, rfl⟩
    · exact hI.entries x e h hmh
    · have hlim := hacc.2.2
      simp only [tick_maxHops, hopsOf, gt_iff_lt, not_and, Nat.not_lt] at hlim
      have := hlim hmh
      simp only [mkEntry]
      split at this
      · omega
      · exact this
  flight := by
    intro f hf
    rw [step_maxHops]
    cases flight_step hf with
    | old h => exact hI.flight f h
    | ann hint hop ha hd hadv =>
      have h := mem_announceAdvs hadv
      exact ⟨(fun hw => by rw [h.wd] at hw; cases hw), fun hmh => by rw [h.path]; simp; omega⟩
    | wdr hint hop ha hcidr hd hadv =>
      have h := mem_withdrawAdvs hadv
      exact ⟨(fun _ => h.path), fun _ => by rw [h.path]; simp⟩
    | fwd a m hm hl ha hb hd hne hns hself hseen hsb hlim hwire hadv =>
      rw [hadv]
      obtain ⟨hwp, _⟩ := hI.flight _ hm
      cases hwd : m.wd with
      | true =>
        refine ⟨(fun _ => by rw [fwdAdv_path_wd hwd]; exact hwp hwd), fun _ => ?_⟩
        rw [fwdAdv_path_wd hwd, hwp hwd]; simp
      | false =>
        refine ⟨(fun h => by rw [fwdAdv_wd, hwd] at h; cases h), fun hmh => ?_⟩
        have hlim' := hlim hwd
        simp only [tick_maxHops, hopsOf, ge_iff_le, not_and, Nat.not_le] at hlim'
        have := hlim' hmh
        rw [fwdAdv_path hwd]
        simp only [List.length_cons]
        split at this <;> omega
    | rep ord hop ha hb hl hadv =>
      have h := mem_replayAdvs hadv
      refine ⟨(fun hw => by rw [h.wd] at hw; cases hw), fun hmh => ?_⟩
      have := h.plen
      have := hopCap_le hmh
      simp only [tick_maxHops] at *
      omega

/-- C15 for a mesh in which every agent has its own `routing.max_hops` (0 = none): in every
    reachable state an agent with limit `h ≥ 1` holds no route — CIDR, domain, forward or agent
    presence — whose path is longer than `h`, and no frame it sent (forwarded copy, announcement,
    table replay) carries one. In particular an agent that is handed an advertisement from beyond
    ITS limit by a neighbour with a larger limit stores nothing of it (`C15_beyond`). -/
theorem C15_holds_mixed (n : Nat) (mh : Node → Nat) (L : Node → List RAd) (ops : List Op) :
    (∀ x e, e ∈ ((run (initH n mh L) ops).nodes x).entries → mh x > 0 → e.path.length ≤ mh x) ∧
    (∀ f, f ∈ (run (initH n mh L) ops).flight → mh f.src > 0 → f.adv.path.length ≤ mh f.src) := by
  have hI : Inv (run (initH n mh L) ops) :=
    run_induction (P := Inv) _ ops (inv_initH n mh L) (fun _ _ h => inv_step h)
  have hm : (run (initH n mh L) ops).maxHops = mh := run_maxHops _ _
  constructor
  · intro x e he hx
    have := hI.entries x e he (by rw [hm]; exact hx)
    rw [hm] at this; exact this
  · intro f hf hx
    have := (hI.flight f hf).2 (by rw [hm]; exact hx)
    rw [hm] at this; exact this

/-- C15: with one configured limit `maxHops ≥ 1` for the whole mesh, in every reachable state no
    agent holds a route whose path is longer than the limit, and no frame in flight — forwarded
    copy, fresh announcement or table replay — carries a path of more than `maxHops` agents. -/
def C15_statement : Prop :=
  ∀ (n mh : Nat) (L : Node → List RAd) (ops : List Op), mh > 0 →
    (∀ x e, e ∈ ((run (init n mh L) ops).nodes x).entries → e.path.length ≤ mh) ∧
    (∀ f, f ∈ (run (init n mh L) ops).flight → f.adv.path.length ≤ mh)

theorem C15_holds : C15_statement := by
  intro n mh L ops hmh
  obtain ⟨h1, h2⟩ := C15_holds_mixed n (fun _ => mh) L ops
  exact ⟨fun x e he => h1 x e he hmh, fun f hf => h2 f hf hmh⟩

/-- The one-byte counts of the wire format never wrap: whatever the limit (even disabled), no
    advertisement in flight lists more than 255 agents in its path or its seen-by list.
    (`floodAdvertisementEncrypted` stops forwarding at 255 entries, `SendFullTable` does not
    replay a path of more than min(max_hops, 255) agents — fixes/C15-wire-count-replay.patch.) -/
theorem C15_no_wrap (n mh : Nat) (L : Node → List RAd) (ops : List Op) :
    ∀ f, f ∈ (run (init n mh L) ops).flight → f.adv.wd = false →
      f.adv.path.length ≤ 255 ∧ f.adv.seenBy.length ≤ 255 := by
  apply run_induction (P := fun s => ∀ f, f ∈ s.flight → f.adv.wd = false →
      f.adv.path.length ≤ 255 ∧ f.adv.seenBy.length ≤ 255) _ ops
  · intro f hf; simp [init, initH] at hf
  · intro s op hI f hf hw
    cases flight_step hf with
    | old h => exact hI f h hw
    | ann hint hop ha hd hadv =>
      have h := mem_announceAdvs hadv
      rw [h.path, h.seenBy]; simp
    | wdr hint hop ha hcidr hd hadv => rw [(mem_withdrawAdvs hadv).wd] at hw; cases hw
    | fwd a m hm hl ha hb hd hne hns hself hseen hsb hlim hwire hadv =>
      have hw' : m.wd = false := by rw [hadv, fwdAdv_wd] at hw; exact hw
      obtain ⟨h1, h2⟩ := hwire hw'
      rw [hadv, fwdAdv_path hw', fwdAdv_seenBy]
      simp only [List.length_cons, List.length_append, List.length_nil, maxWireAgents] at *
      omega
    | rep ord hop ha hb hl hadv =>
      have h := mem_replayAdvs hadv
      have h1 := h.plen
      have : hopCap ((tick s).maxHops f.src) ≤ 255 := by unfold hopCap maxWireAgents; split <;> omega
      rw [h.seenBy]
      simp only [List.length_cons, List.length_nil]
      omega

/-- The statement is about something: on the chain 0-1-2-3-4 with limit 2 the announcement of agent
    0 is stored by agents 1 and 2, agent 2 does not forward it, agents 3 and 4 never see it. -/
def chainOps : List Op := [
  .connect 0 1, .connect 1 2, .connect 2 3, .connect 3 4,
  .announce 0 [], .deliver 0 1 0, .deliver 1 2 0, .deliver 2 3 0, .deliver 3 4 0]

def exitAt0 : Node → List RAd := fun x => if x = 0 then [⟨0, 1, 0⟩] else []

example : (((run (init 5 2 exitAt0) chainOps).nodes 2).entries.map (·.path)) = [[1, 0], [1, 0]] := by decide
example : ((run (init 5 2 exitAt0) chainOps).nodes 3).entries = [] := by decide
example : (run (init 5 2 exitAt0) chainOps).flight = [] := by decide

end MM.C15
