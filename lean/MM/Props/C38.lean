/-
  C38 — Stream identifiers are unique per connection and parity-separated by role.

  "Every stream identifier a connection allocates is nonzero and unique for that connection,
   under any amount of concurrency.  Identifiers are odd on the dialing side and even on the
   accepting side, so the two ends of a connection never allocate the same one."

  Quantified over ALL schedules (any number of goroutines, any interleaving of their atomic
  `Add` steps) of fewer than 2^63 allocations per end.  Model: MM/Model/C38.lean; start values
  and increment regenerated from the compiled package (MM/Gen/C38.lean); atomicity of `Next`
  tied by the AST check and the concurrent stress run in props/C38.py.
-/
import MM.Lemmas.C38
import MM.Gen.C38Sites

namespace MM.C38

/-- Constants of the source are the ones the statement is about. -/
theorem C38_tie : Gen.C38.startDialer = 1 ∧ Gen.C38.startListener = 2 ∧ Gen.C38.delta = 2 := by decide

/-- WHO allocates: every place in the code base that builds an outgoing stream-opening frame
    (STREAM_OPEN, UDP_OPEN, ICMP_OPEN — regenerated list, go/ast over internal/ and cmd/) takes
    the frame's stream id from `<connection>.NextStreamID()` in the same function, i.e. from the
    one allocator of the connection the theorems below are about.  A second source of ids for a
    connection (a separate counter, arithmetic) breaks this. -/
theorem C38_open_sites_allocated :
    Gen.C38Sites.openSites ≠ [] ∧ ∀ s ∈ Gen.C38Sites.openSites, s.source = "NextStreamID" := by decide

/-- For any interleaving of fewer than 2^63 `Next` calls on one allocator: the ids are pairwise
    distinct, non-zero, representable, and odd for the dialer / even for the listener. -/
theorem C38_unique_nonzero_parity (isDialer : Bool) (sched : List Nat) (h : sched.length < 2^63) :
    (ids isDialer sched).Nodup ∧
    ∀ x ∈ ids isDialer sched, x ≠ 0 ∧ x < 2^64 ∧ x % 2 = (if isDialer then 1 else 0) := by
  rw [ids_closed isDialer sched h]
  constructor
  · rw [List.nodup_iff_pairwise_ne, List.pairwise_map]
    exact List.Pairwise.imp (fun {a b} (hab : a < b) => by omega) List.pairwise_lt_range
  · intro x hx
    obtain ⟨k, hk, rfl⟩ := List.mem_map.mp hx
    have hk' := List.mem_range.mp hk
    cases isDialer
    · have : start false = 2 := by decide
      rw [this]; simp; omega
    · have : start true = 1 := by decide
      rw [this]; simp; omega

/-- Which goroutine obtains which id depends on the schedule; the SET of ids does not:
    `n` allocations always yield exactly `start, start+2, …, start+2(n-1)`. -/
theorem C38_ids_exact (isDialer : Bool) (sched : List Nat) (h : sched.length < 2^63) :
    ids isDialer sched = (List.range sched.length).map (fun k => start isDialer + 2 * k) :=
  ids_closed isDialer sched h

/-- The two ends of a connection never allocate the same identifier. -/
theorem C38_ends_disjoint (schedD schedL : List Nat) (hD : schedD.length < 2^63) (hL : schedL.length < 2^63) :
    ∀ x ∈ ids true schedD, x ∉ ids false schedL := by
  intro x hx hx'
  have h1 := (C38_unique_nonzero_parity true schedD hD).2 x hx
  have h2 := (C38_unique_nonzero_parity false schedL hL).2 x hx'
  simp at h1 h2
  omega

/-- Ids are handed out in strictly increasing order along the linearisation: whatever the
    schedule, a later atomic `Next` step returns a larger id than every earlier one (so each
    goroutine's own successive ids increase, and no id is ever handed out again later). -/
theorem C38_ids_increasing (isDialer : Bool) (sched : List Nat) (h : sched.length < 2^63) :
    (ids isDialer sched).Pairwise (· < ·) := by
  rw [ids_closed isDialer sched h, List.pairwise_map]
  exact List.Pairwise.imp (fun {a b} (hab : a < b) => by omega) List.pairwise_lt_range

/-- All identifiers in use on one connection — those of the dialing end together with those of
    the accepting end — are pairwise distinct. -/
theorem C38_connection_nodup (schedD schedL : List Nat) (hD : schedD.length < 2^63)
    (hL : schedL.length < 2^63) : (ids true schedD ++ ids false schedL).Nodup := by
  rw [List.nodup_append]
  refine ⟨(C38_unique_nonzero_parity true schedD hD).1, (C38_unique_nonzero_parity false schedL hL).1, ?_⟩
  intro a ha b hb hab
  subst hab
  exact C38_ends_disjoint schedD schedL hD hL a ha hb

/-- The bound is sharp (and astronomically out of reach): the 2^63-th allocation of the accepting
    side would wrap to 0. -/
theorem C38_bound_sharp (sched : List Nat) (h : sched.length = 2^63) : (0 : Nat) ∈ ids false sched := by
  unfold ids
  rw [run_ids _ (start_lt false), h]
  apply List.mem_map.mpr
  refine ⟨2^63 - 1, List.mem_range.mpr (by decide), ?_⟩
  have : start false = 2 := by decide
  rw [this]; decide

/-! Non-vacuity: a 3-goroutine schedule of 6 steps. -/
example : ids true [0, 1, 2, 2, 0, 1] = [1, 3, 5, 7, 9, 11] := by decide
example : run (start false) [7, 8, 7] = [(7, 2), (8, 4), (7, 6)] := by decide

end MM.C38
