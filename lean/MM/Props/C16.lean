/-
  C16 — Concurrent tunnels stay isolated and byte-exact across shared hops.

  "… each endpoint receives exactly the bytes its own counterpart sent, in order. No frame of one
   tunnel ever reaches, closes or resets another tunnel. This holds for TCP streams, port forwards,
   UDP associations and ICMP sessions."

  Model: MM/Model/C16.lean — the relay table and the relay dispatch of one transit agent, keyed
  exactly as in Go (bare stream ids).  A transit agent never looks into payloads (it forwards the
  frame's payload bytes unchanged), so isolation at a transit is: every frame of a tunnel is
  forwarded on that tunnel's other leg, and no operation addressed to one tunnel changes another.

  The pinned code does NOT have this property (`C16_refuted`): all the protocol guarantees is that
  the legs of different tunnels differ as (peer, stream id) PAIRS, but the indices are keyed by the
  bare stream id.  `C16_partial` is the strongest restriction that holds: tunnels whose bare stream
  ids are pairwise distinct per index (`Distinct`).  The defect is design-level (known finding).
-/
import MM.Lemmas.C16
import MM.Model.C16x
import MM.Gen.LockC16

namespace MM.C16
open Table


/-! ### atomic-step tie (tools/lockshape.go over internal/agent/relay_table.go): every `relayTable`
    method is ONE locked region and touches the indices only under the lock — the model treats each
    method as one atomic function. -/
theorem C16_lock_table_methods_atomic :
    Gen.LockC16.acquisitions = [("relayTable.Delete", 1), ("relayTable.DeleteByPeer", 1), ("relayTable.Insert", 1),
      ("relayTable.LookupBoth", 1), ("relayTable.LookupDownstream", 1), ("relayTable.PopDownstreamFromPeer", 1),
      ("relayTable.PopMatchingPeer", 1)] ∧
    (Gen.LockC16.accesses.all (fun a => if a.2.2.1 then a.2.2.2 == "W" else (a.2.2.2 == "W" || a.2.2.2 == "R"))) = true := by
  decide

/-- Every binding is stored under its own key and is present in BOTH indices (the invariant
    relay_table.go documents), and each index has one binding per key. -/
structure Consistent (t : Table) : Prop where
  nodupUp : t.byUp.keys.Nodup
  nodupDown : t.byDown.keys.Nodup
  up : ∀ k e, t.byUp.get k = some e → e.upId = k ∧ t.byDown.get e.downId = some e
  down : ∀ k e, t.byDown.get k = some e → e.downId = k ∧ t.byUp.get e.upId = some e

/-- `e` is a live record of `t`. -/
def Live (t : Table) (e : Entry) : Prop := t.byUp.get e.upId = some e

/-- The new record shares no stream id with a live record of the same index. -/
def Fresh (t : Table) (e : Entry) : Prop := t.byUp.get e.upId = none ∧ t.byDown.get e.downId = none

theorem consistent_empty : Consistent {} :=
  ⟨List.nodup_nil, List.nodup_nil, fun _ _ h => by simp [Map.get] at h, fun _ _ h => by simp [Map.get] at h⟩

/-- **Index consistency under `Distinct`** — Insert. -/
theorem C16_relay_index_consistent {t : Table} {e : Entry} (hc : Consistent t) (hf : Fresh t e) :
    Consistent (t.insert e) := by
  obtain ⟨n1, n2, hu, hd⟩ := hc
  refine ⟨Map.nodup_set _ _ _ n1, Map.nodup_set _ _ _ n2, ?_, ?_⟩
  · intro k x hx
    simp only [Table.insert] at hx ⊢
    by_cases hk : k = e.upId
    · subst hk
      rw [Map.get_set_same] at hx
      injection hx with hx; subst hx
      exact ⟨rfl, Map.get_set_same _ _ _⟩
    · rw [Map.get_set_ne _ _ _ _ hk] at hx
      obtain ⟨h1, h2⟩ := hu k x hx
      refine ⟨h1, ?_⟩
      have : x.downId ≠ e.downId := by
        intro heq
        rw [heq, hf.2] at h2
        cases h2
      rw [Map.get_set_ne _ _ _ _ this]
      exact h2
  · intro k x hx
    simp only [Table.insert] at hx ⊢
    by_cases hk : k = e.downId
    · subst hk
      rw [Map.get_set_same] at hx
      injection hx with hx; subst hx
      exact ⟨rfl, Map.get_set_same _ _ _⟩
    · rw [Map.get_set_ne _ _ _ _ hk] at hx
      obtain ⟨h1, h2⟩ := hd k x hx
      refine ⟨h1, ?_⟩
      have : x.upId ≠ e.upId := by
        intro heq
        rw [heq, hf.1] at h2
        cases h2
      rw [Map.get_set_ne _ _ _ _ this]
      exact h2

/-- Deleting a live record keeps the indices consistent and removes exactly that record. -/
theorem consistent_delete {t : Table} {e : Entry} (hc : Consistent t) (hl : Live t e) :
    Consistent (t.delete e) ∧ ¬ Live (t.delete e) e ∧
      ∀ x, Live t x → x ≠ e → Live (t.delete e) x ∧ (t.delete e).byDown.get x.downId = some x := by
  obtain ⟨n1, n2, hu, hd⟩ := hc
  have hle := hu _ _ hl
  refine ⟨⟨Map.nodup_del _ _ n1, Map.nodup_del _ _ n2, ?_, ?_⟩, ?_, ?_⟩
  · intro k x hx
    simp only [Table.delete] at hx ⊢
    by_cases hk : k = e.upId
    · subst hk; rw [Map.get_del_same] at hx; cases hx
    · rw [Map.get_del_ne _ _ _ hk] at hx
      obtain ⟨h1, h2⟩ := hu k x hx
      refine ⟨h1, ?_⟩
      have : x.downId ≠ e.downId := by
        intro heq
        rw [heq, hle.2] at h2
        injection h2 with h2
        exact hk (by rw [← h1, h2])
      rw [Map.get_del_ne _ _ _ this]; exact h2
  · intro k x hx
    simp only [Table.delete] at hx ⊢
    by_cases hk : k = e.downId
    · subst hk; rw [Map.get_del_same] at hx; cases hx
    · rw [Map.get_del_ne _ _ _ hk] at hx
      obtain ⟨h1, h2⟩ := hd k x hx
      refine ⟨h1, ?_⟩
      have : x.upId ≠ e.upId := by
        intro heq
        rw [heq, hl] at h2
        injection h2 with h2
        exact hk (by rw [← h1, h2])
      rw [Map.get_del_ne _ _ _ this]; exact h2
  · simp [Live, Table.delete, Map.get_del_same]
  · intro x hx hne
    have hx2 := hu _ _ hx
    have h1 : x.upId ≠ e.upId := by
      intro heq
      have : t.byUp.get e.upId = some x := heq ▸ hx
      rw [hl] at this
      injection this with this
      exact hne this.symm
    have h2 : x.downId ≠ e.downId := by
      intro heq
      have := hx2.2
      rw [heq, hle.2] at this
      injection this with this
      exact hne this.symm
    exact ⟨by simp only [Live, Table.delete]; rw [Map.get_del_ne _ _ _ h1]; exact hx,
      by simp only [Table.delete]; rw [Map.get_del_ne _ _ _ h2]; exact hx2.2⟩

/-- **Close/reset isolation under `Distinct`.**  On a consistent table `PopMatchingPeer` removes at
    most the one record it returns; every other live record stays live in both indices and the
    table stays consistent. -/
theorem C16_partial_close_isolated {t : Table} (hc : Consistent t) (id peer : Nat) :
    Consistent (t.popMatchingPeer id peer).1 ∧
      ∀ x, Live t x → (∀ e d, (t.popMatchingPeer id peer).2 = some (e, d) → x ≠ e) →
        Live (t.popMatchingPeer id peer).1 x := by
  have key : ∀ e : Entry, Live t e → ∀ d : Bool,
      Consistent (t.delete e) ∧ ∀ x, Live t x → (∀ e' d', some (e, d) = some (e', d') → x ≠ e') →
        Live (t.delete e) x := by
    intro e he d
    obtain ⟨h1, _, h3⟩ := consistent_delete hc he
    exact ⟨h1, fun x hx hne => (h3 x hx (hne e d rfl)).1⟩
  have same : Consistent t ∧ ∀ x, Live t x → (∀ e' d', (none : Option (Entry × Bool)) = some (e', d') → x ≠ e') →
      Live t x := ⟨hc, fun x hx _ => hx⟩
  unfold popMatchingPeer
  split
  · next up hup =>
    have hlu : Live t up := by
      have := (hc.up _ _ hup).1
      show t.byUp.get up.upId = some up
      rw [this]; exact hup
    split
    · exact key up hlu true
    · split
      · next down hdown =>
        have hld : Live t down := (hc.down _ _ hdown).2
        split
        · exact key down hld false
        · exact same
      · exact same
  · split
    · next down hdown =>
      have hld : Live t down := (hc.down _ _ hdown).2
      split
      · exact key down hld false
      · exact same
    · exact same

/-- **Routing isolation under `Distinct`.**  On a consistent table the frames of a live tunnel `e`
    coming from its upstream leg go to its own downstream leg; frames from its downstream leg go to
    its own upstream leg provided no other tunnel's upstream leg is the same (peer, id) pair (stream
    ids opened by the two ends of one connection have different parity, C38). -/
theorem C16_partial {t : Table} {e : Entry} (hc : Consistent t) (hl : Live t e) :
    t.route e.upPeer e.upId = some (e.downPeer, e.downId) ∧
    ((∀ u, t.byUp.get e.downId = some u → u.upPeer ≠ e.downPeer) →
      t.route e.downPeer e.downId = some (e.upPeer, e.upId)) := by
  have hd := (hc.up _ _ hl).2
  constructor
  · unfold route
    simp only [Live] at hl
    simp [hl]
  · intro hno
    unfold route
    simp only [hd, if_true]
    split
    · next u hu => simp [hno u hu]
    · rfl



/-- **An agent that is exit endpoint and transit at once.**  Whatever records its exit handler holds
    (keyed by bare stream id — possibly the same number), the frames of a live relayed tunnel are
    forwarded on the tunnel's own leg and never reach the exit handler: the relay table, which is
    disambiguated by source peer, is consulted first. -/
theorem C16_relay_frames_never_reach_exit (n : Node) {e : Entry} (hc : Consistent n.a.tcp) (hl : Live n.a.tcp e)
    (serial : Nat) (payload : String) :
    n.data e.upPeer e.upId serial payload = (n, [⟨e.downPeer, "data", e.downId, payload⟩], []) := by
  have := (C16_partial hc hl).1
  simp [Node.data, this]

/-- **Byte-exact relaying.**  Whatever a transit forwards for a data / ack / err frame carries exactly
    the payload (and flags) it received — nothing is truncated, duplicated or rewritten, and exactly one
    frame goes out. -/
theorem C16_relay_payload_unchanged (a : Agent) (k : Kind) (peer id : Nat) (payload : String) :
    (∀ r, a.relayData k peer id payload = some r → ∃ q j, r.2 = [⟨q, "data", j, payload⟩]) ∧
    (∀ r, a.relayAck k peer id payload = some r → ∃ q j, r.2 = [⟨q, "ack", j, payload⟩]) ∧
    (∀ r, a.relayErr k peer id payload = some r → ∃ q j, r.2 = [⟨q, "err", j, payload⟩]) := by
  refine ⟨?_, ?_, ?_⟩
  · intro r h
    unfold Agent.relayData at h
    split at h
    · next q j _ => injection h with h; subst h; exact ⟨q, j, rfl⟩
    · cases h
  · intro r h
    unfold Agent.relayAck at h
    split at h
    · split at h
      · next e _ _ => injection h with h; subst h; exact ⟨e.upPeer, e.upId, rfl⟩
      · cases h
    · cases h
  · intro r h
    unfold Agent.relayErr at h
    split at h
    · next t e _ => injection h with h; subst h; exact ⟨e.upPeer, e.upId, rfl⟩
    · cases h

/-- … and a frame no relay entry claims is handled by the exit handler alone (the relay tables are
    untouched). -/
theorem C16_unclaimed_frame_leaves_relay_untouched (n : Node) (peer id serial : Nat)
    (h : n.a.tcp.route peer id = none) (payload : String) (fin : Bool) :
    (n.data peer id serial payload fin).1.a = n.a := by
  simp only [Node.data, h]

/-- **Ingress UDP clients are independent**: an OPEN_ERR for the client whose local stream id is `id`
    removes that client's reverse-index entry and nobody else's. -/
theorem C16_ingress_err_targets_one (a : Agent) (peer id j : Nat) (hj : j ≠ id) :
    (a.udpIngressErr peer id).1.uidx.contains j = a.uidx.contains j := by
  unfold Agent.udpIngressErr Agent.relayErr
  split
  · next a' l h =>
    split at h
    · injection h with h; injection h with h1 _; subst h1
      cases k : Kind.udp <;> simp [Agent.setTable]
    · cases h
  · simp [hj]

/-- `Distinct`: no two records of one agent share a bare stream id in the same index. -/
def Distinct (es : List Entry) : Prop := es.Pairwise (fun a b => a.upId ≠ b.upId ∧ a.downId ≠ b.downId)

theorem insert_live {t : Table} {e : Entry} : Live (t.insert e) e := by
  simp [Live, Table.insert, Map.get_set_same]

theorem insert_keeps_live {t : Table} {e x : Entry} (hx : Live t x) (hne : x.upId ≠ e.upId) :
    Live (t.insert e) x := by
  simp only [Live, Table.insert]
  rw [Map.get_set_ne _ _ _ _ hne]; exact hx

theorem fold_insert_distinct (es : List Entry) :
    ∀ t : Table, Consistent t → (∀ e ∈ es, Fresh t e) → Distinct es →
      Consistent (es.foldl Table.insert t) ∧ (∀ x, Live t x → Live (es.foldl Table.insert t) x) ∧
        ∀ e ∈ es, Live (es.foldl Table.insert t) e := by
  induction es with
  | nil => intro t hc _ _; exact ⟨hc, fun _ h => h, fun _ h => by cases h⟩
  | cons a rest ih =>
    intro t hc hf hd
    have hfa := hf a List.mem_cons_self
    have hca := C16_relay_index_consistent hc hfa
    rw [Distinct, List.pairwise_cons] at hd
    have hfr : ∀ e ∈ rest, Fresh (t.insert a) e := by
      intro e he
      have := hf e (List.mem_cons_of_mem _ he)
      have hne := hd.1 e he
      constructor
      · simp only [Table.insert]; rw [Map.get_set_ne _ _ _ _ (Ne.symm hne.1)]; exact this.1
      · simp only [Table.insert]; rw [Map.get_set_ne _ _ _ _ (Ne.symm hne.2)]; exact this.2
    obtain ⟨h1, h2, h3⟩ := ih (t.insert a) hca hfr hd.2
    refine ⟨h1, ?_, ?_⟩
    · intro x hx
      apply h2
      apply insert_keeps_live hx
      intro heq
      have : t.byUp.get a.upId = some x := heq ▸ hx
      rw [hfa.1] at this; cases this
    · intro e he
      rcases List.mem_cons.mp he with rfl | her
      · exact h2 _ insert_live
      · exact h3 e her

/-- **C16_partial, in the shape of the statement**: when the tunnels relayed by an agent are
    `Distinct`, every tunnel's upstream frames are forwarded on its own downstream leg (and the
    indices are consistent, so `C16_partial` / `C16_partial_close_isolated` apply to every record). -/
theorem C16_partial_statement (es : List Entry) (hd : Distinct es) :
    Consistent (es.foldl Table.insert {}) ∧
      ∀ e ∈ es, (es.foldl Table.insert {}).route e.upPeer e.upId = some (e.downPeer, e.downId) := by
  obtain ⟨h1, _, h3⟩ := fold_insert_distinct es {} consistent_empty
    (fun e _ => ⟨by simp [Map.get], by simp [Map.get]⟩) hd
  exact ⟨h1, fun e he => (C16_partial h1 (h3 e he)).1⟩

example : Distinct [⟨1, 1, 4, 1⟩, ⟨2, 3, 4, 3⟩] := by unfold Distinct; decide

/-- The full statement, for the relay table: whenever the legs of the tunnels opened through an
    agent are pairwise different as (peer, stream id) pairs — which is all the per-connection stream
    id allocation guarantees — every tunnel's frames are forwarded on its own legs. -/
def C16_statement : Prop :=
  ∀ es : List Entry,
    es.Pairwise (fun a b => (a.upPeer, a.upId) ≠ (b.upPeer, b.upId) ∧ (a.downPeer, a.downId) ≠ (b.downPeer, b.downId)
      ∧ (a.upPeer, a.upId) ≠ (b.downPeer, b.downId) ∧ (a.downPeer, a.downId) ≠ (b.upPeer, b.upId)) →
    ∀ e ∈ es, (es.foldl Table.insert {}).route e.upPeer e.upId = some (e.downPeer, e.downId)

/-- Two upstream peers (1 and 2) each open their first stream (id 1) through the same transit
    toward peer 4: the second `Insert` overwrites `byUpstream[1]`; the first tunnel's data is no
    longer forwarded. -/
theorem C16_refuted : ¬ C16_statement := by
  intro h
  have := h [⟨1, 1, 4, 1⟩, ⟨2, 1, 4, 3⟩] (by decide) ⟨1, 1, 4, 1⟩ (by decide)
  revert this
  decide

/-- … and the first tunnel's close arriving from downstream tears the SECOND tunnel down:
    afterwards the second tunnel's frames are dropped too, and an orphan of it stays in `byDownstream`. -/
theorem C16_refuted_close_hits_other :
    let t := ([⟨1, 1, 4, 1⟩, ⟨2, 1, 4, 3⟩] : List Entry).foldl Table.insert {}
    let t' := (t.popMatchingPeer 1 4).1
    t.route 2 1 = some (4, 3) ∧ t'.route 2 1 = none ∧ t'.byDown.get 3 = some ⟨2, 1, 4, 3⟩ := by
  decide

/-- Non-vacuity of `C16_partial`: a consistent table with two live tunnels. -/
example : Consistent ((({} : Table).insert ⟨1, 1, 4, 1⟩).insert ⟨2, 3, 4, 3⟩) :=
  C16_relay_index_consistent (C16_relay_index_consistent consistent_empty ⟨rfl, rfl⟩) ⟨rfl, rfl⟩

end MM.C16
