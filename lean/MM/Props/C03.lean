/-
  C03 — Tunnel ends derive the same key; distinct tunnels get distinct keys.

  "For every tunnel kind (TCP stream, port forward, UDP association, ICMP session, remote shell, file
   transfer), the ingress and the exit end up with the same session key.  Tunnels that differ in
   request identifier or in either ephemeral key end up with different keys.  An all-zero or
   low-order remote key is refused instead of producing a usable key."

  Model: MM/Model/C03.lean.  Tie: MM/Gen/C03.lean is regenerated on every run by a go/ast pass over
  all DeriveSessionKey call sites (argument roles resolved against the ComputeECDH call of the same
  function); the engine `c03` compares the real DeriveSessionKey / ComputeECDH with executable
  HKDF-SHA256 / X25519 references byte for byte (MM/Model/C03Crypto.lean), runs both roles on real
  X25519 key pairs, and feeds the all-zero key and every small-order point.
-/
import MM.Model.C03
import MM.Gen.C03

namespace MM.C03
open MM

/-! ### agreement -/

/-- Two canonical sites with opposite roles compute the same key from each other's public keys. -/
theorem agree_of_canonical {Priv Pub Secret Key : Type} (D : DH Priv Pub Secret) (enc : Pub → Bytes)
    (kdf : Secret → Bytes → Key) (si sr : Site) (hi : si.canonical = true) (hr : sr.canonical = true)
    (hI : si.isInit = some true) (hR : sr.isInit = some false)
    (a b : Priv) (req : Nat) (o1 o2 : Pub) :
    siteKey D enc kdf si a (D.pub b) req o1 = siteKey D enc kdf sr b (D.pub a) req o2 := by
  unfold Site.canonical at hi hr
  rw [hI] at hi
  rw [hR] at hr
  simp only [Bool.and_eq_true, beq_iff_eq] at hi hr
  unfold siteKey
  rw [hi.2.1, hi.2.2, hr.2.1, hr.2.2, D.comm a b]
  rfl

/-- Every call site in the tree is canonical (regenerated table; a swapped argument, a non-literal
    role flag or an unchecked ECDH error at any site makes this fail). -/
theorem C03_sites_canonical : ∀ s ∈ Gen.C03.sites, s.canonical = true := by decide

/-- Where a private key is parked in a struct between open and ack (UDP, ICMP), the public key stored
    next to it comes from the same `GenerateEphemeralKeypair()` call (so "local" above really is the
    matching public key). -/
theorem C03_struct_pairs : Gen.C03.structPairsOK = true := by decide

/-- Every tunnel kind of the statement has at least one initiator site and one responder site, and
    no site is of an unlisted kind. -/
theorem C03_kinds_covered :
    (∀ k ∈ kinds, (Gen.C03.sites.any fun s => s.kind == k && s.isInit == some true) = true ∧
                  (Gen.C03.sites.any fun s => s.kind == k && s.isInit == some false) = true) ∧
    (∀ s ∈ Gen.C03.sites, kinds.contains s.kind = true) := by decide

/-- C03 (agreement): for EVERY initiator site and EVERY responder site in the source (in particular
    the two of each tunnel kind), all ephemeral key pairs and all request identifiers: both ends
    compute the same key (or both refuse).  `comm` (X25519 commutativity) is a field of `D`. -/
theorem C03_agree {Priv Pub Secret Key : Type} (D : DH Priv Pub Secret) (enc : Pub → Bytes)
    (kdf : Secret → Bytes → Key) (si sr : Site) (hsi : si ∈ Gen.C03.sites) (hsr : sr ∈ Gen.C03.sites)
    (hI : si.isInit = some true) (hR : sr.isInit = some false)
    (a b : Priv) (req : Nat) (o1 o2 : Pub) :
    siteKey D enc kdf si a (D.pub b) req o1 = siteKey D enc kdf sr b (D.pub a) req o2 :=
  agree_of_canonical D enc kdf si sr (C03_sites_canonical si hsi) (C03_sites_canonical sr hsr) hI hR a b req o1 o2

/-! ### distinct tunnels feed distinct KDF inputs -/

/-- The salt is injective in (request id, initiator key, responder key) for 32-byte initiator keys
    and 64-bit request ids. -/
theorem C03_salt_injective (req req' : Nat) (i i' r r' : Bytes)
    (hreq : req < 2^64) (hreq' : req' < 2^64) (hi : i.length = 32) (hi' : i'.length = 32)
    (h : salt req i r = salt req' i' r') : req = req' ∧ i = i' ∧ r = r' := by
  unfold salt at h
  rw [List.append_assoc, List.append_assoc] at h
  have h1 := List.append_inj h (by simp)
  have h2 := List.append_inj h1.2 (by rw [hi, hi'])
  refine ⟨?_, h2.1, h2.2⟩
  have := congrArg unbe h1.1
  rwa [unbe_beN_of_lt (by simpa using hreq), unbe_beN_of_lt (by simpa using hreq')] at this

/-- Hence, for an injective KDF (collision resistance of HKDF-SHA256 — explicit hypothesis `kdfInj`,
    not proved), tunnels that differ in the request id or in either ephemeral key get different keys
    even from the same shared secret. -/
theorem C03_distinct_keys {Secret Key : Type} (kdf : Secret → Bytes → Key)
    (kdfInj : ∀ s s' x x', kdf s x = kdf s' x' → s = s' ∧ x = x')
    (sec sec' : Secret) (req req' : Nat) (i i' r r' : Bytes)
    (hreq : req < 2^64) (hreq' : req' < 2^64) (hi : i.length = 32) (hi' : i'.length = 32)
    (hne : req ≠ req' ∨ i ≠ i' ∨ r ≠ r') :
    kdf sec (salt req i r) ≠ kdf sec' (salt req' i' r') := by
  intro h
  obtain ⟨h1, h2, h3⟩ := C03_salt_injective req req' i i' r r' hreq hreq' hi hi' (kdfInj _ _ _ _ h).2
  rcases hne with hne | hne | hne
  · exact hne h1
  · exact hne h2
  · exact hne h3

/-! ### degenerate remote keys are refused -/

/-- `ComputeECDH` never returns a secret for the all-zero remote key, and never returns the all-zero
    secret (the X25519 output for every low-order remote point — validated against the real
    primitive by the engine's `dh` ops on all small-order points). -/
theorem C03_zero_refused (mult : Bytes → Bytes → Bytes) (priv remote s : Bytes)
    (h : computeECDH mult priv remote = some s) :
    remote ≠ zero32 ∧ s ≠ zero32 ∧ s = mult priv remote := by
  unfold computeECDH at h
  by_cases hz : remote = zero32
  · rw [if_pos hz] at h; cases h
  · rw [if_neg hz] at h
    dsimp only at h
    by_cases hs : mult priv remote = zero32
    · rw [if_pos hs] at h; cases h
    · rw [if_neg hs] at h
      injection h with h
      exact ⟨hz, h ▸ hs, h.symm⟩

/-- A low-order remote point (one on which the scalar multiplication yields zero) is refused. -/
theorem C03_low_order_refused (mult : Bytes → Bytes → Bytes) (priv remote : Bytes)
    (hlow : mult priv remote = zero32) : computeECDH mult priv remote = none := by
  unfold computeECDH
  by_cases hz : remote = zero32
  · rw [if_pos hz]
  · rw [if_neg hz]; dsimp only; rw [if_pos hlow]

/-- Every site derives only from a secret that a checked `ComputeECDH` returned. -/
theorem C03_sites_guarded : ∀ s ∈ Gen.C03.sites, s.secretFromECDH = true ∧ s.errChecked = true := by
  decide

/-! ### non-vacuity -/

/-- A toy commutative DH (multiplication of naturals) instantiates the structure, so the
    hypotheses of `C03_agree` are satisfiable; and the table is not empty. -/
def toyDH : DH Nat Nat Nat := { pub := fun a => a, dh := fun a b => some (a * b), comm := fun a b => by simp [Nat.mul_comm] }

example : Gen.C03.sites.length ≥ 12 := by decide

example : salt 5 (List.replicate 32 1) (List.replicate 32 2) ≠ salt 5 (List.replicate 32 2) (List.replicate 32 1) := by
  decide

end MM.C03
