/-
  C18 — Half-close and close behave per protocol for every frame sequence.

  "Data that arrives before or together with the remote end-of-write signal is delivered to the
   reader before end-of-stream. After the local side half-closes, further writes are refused while
   reads continue. A close or reset tears down only the addressed stream, and the stream states move
   only along the documented transitions."

  Model: MM/Model/C18.lean — an LTS over the atomic steps of internal/stream/manager.go
  (`ff = false`: the repaired statement order of HandleStreamData).  The theorems quantify over
  every reachable state, i.e. over every frame sequence and every interleaving of the frame handler,
  a reader and the local side.  Only property theorems live here; helpers are in MM/Lemmas/C18.lean.
-/
import MM.Lemmas.C18
import MM.Gen.C18
import MM.Gen.LockC18
import MM.Gen.LockC18m

namespace MM.C18
variable {α : Type}

/-- `cap(readBuffer)` in the source is the capacity the model uses (T-gen tie). -/
theorem cap_tie : Gen.C18.readBufferCap = cap := by decide


/-! ### atomic-step tie (facts regenerated from internal/stream/manager.go by tools/lockshape.go)

  The LTS takes as atomic steps: `CloseWrite` as ONE critical section; in `HandleRemoteFinWrite` the
  flag update (`finMark`) and the state read-and-update (`finState`) each inside a critical section of
  `mu`; `Close`'s state change under `mu`.  These theorems say exactly that about the source. -/

def lockOf (l : List (String × String × String)) (m callee : String) : List String :=
  (l.filter (fun c => c.1 == m && c.2.1 == callee)).map (·.2.2)

/-- Every `State()` / `SetState()` call inside `CloseWrite`, `HandleRemoteFinWrite` and `Close` is
    made while `mu` is write-locked — and each of the calls the model relies on is really there. -/
theorem C18_lock_state_transitions :
    (Gen.LockC18.calls.all (fun c => !(c.2.1 == "State" || c.2.1 == "SetState") || c.2.2 == "W")) = true ∧
    lockOf Gen.LockC18.calls "Stream.CloseWrite" "State" = ["W"] ∧
    lockOf Gen.LockC18.calls "Stream.CloseWrite" "SetState" = ["W"] ∧
    lockOf Gen.LockC18.calls "Stream.HandleRemoteFinWrite" "State" = ["W"] ∧
    lockOf Gen.LockC18.calls "Stream.HandleRemoteFinWrite" "SetState" = ["W"] ∧
    lockOf Gen.LockC18.calls "Stream.Close" "SetState" = ["W"] := by decide

/-- Every access to `localFinWrite` / `remoteFinWrite` happens under the write lock. -/
theorem C18_lock_fin_flags :
    (Gen.LockC18.accesses.all (fun a =>
      !(a.2.1 == "localFinWrite" || a.2.1 == "remoteFinWrite") || a.2.2.2 == "W")) = true ∧
    (Gen.LockC18.accesses.any (fun a => a.1 == "Stream.CloseWrite" && a.2.1 == "localFinWrite" && a.2.2.1)) = true ∧
    (Gen.LockC18.accesses.any (fun a => a.1 == "Stream.HandleRemoteFinWrite" && a.2.1 == "remoteFinWrite" && a.2.2.1)) = true := by
  decide


def regionsOf (m item : String) : List Nat :=
  (Gen.LockC18.regions.filter (fun r => r.1 == m && r.2.1 == item)).map (·.2.2)

/-- The state a transition is computed from is read in the SAME critical section in which the new
    state is written (`finState` and `CloseWrite` are read-modify-write steps of the model): in
    `HandleRemoteFinWrite` and in `CloseWrite` the `State()` call and the `SetState()` call lie in one
    and the same lock region.  (A variant that reads the state in an earlier region and writes it in a
    later one — both under the lock — passes `C18_lock_state_transitions` but not this.) -/
def sameOneRegion (m a b : String) : Bool :=
  regionsOf m a == regionsOf m b && (regionsOf m a).length == 1 && (regionsOf m a).all (· != 0)

theorem C18_lock_state_rmw_one_region :
    sameOneRegion "Stream.HandleRemoteFinWrite" "call:State" "call:SetState" = true ∧
    sameOneRegion "Stream.CloseWrite" "call:State" "call:SetState" = true ∧
    sameOneRegion "Stream.CloseWrite" "localFinWrite:w" "call:SetState" = true := by decide

/-- `CloseWrite` is a single critical section (one lock acquisition). -/
theorem C18_lock_closewrite_once : Gen.LockC18.acquisitions.lookup "Stream.CloseWrite" = some 1 := by decide


def mgrLock (m callee : String) : List String :=
  (Gen.LockC18m.othercalls.filter (fun c => c.1 == m && c.2.1 == callee)).map (·.2.2)

/-- The manager never calls into a stream while it holds the table lock `m.mu`: `PushData` can block
    (full read buffer) and `Close` / callbacks can take time; holding the table lock there would stall
    every other stream.  The model's frame handler holds no manager-wide lock while a push is pending
    (the per-stream LTS steps of different streams are independent, `C18_close_targets_one`). -/
theorem C18_lock_manager_calls_streams_unlocked :
    mgrLock "Manager.HandleStreamData" "PushData" = ["none"] ∧
    mgrLock "Manager.HandleStreamData" "HandleRemoteFinWrite" = ["none"] ∧
    mgrLock "Manager.RemoveStream" "Close" = ["none"] ∧
    mgrLock "Manager.HandleStreamReset" "Close" = ["none"] ∧
    (Gen.LockC18m.accesses.all (fun a => !(a.2.1 == "onStreamData" || a.2.1 == "onStreamClose") || a.2.2.2 == "none")) = true := by
  decide

/-- **A blocked push is released by a close.**  With the read buffer full the handler's push step is not
    enabled (`PushData` blocks); once the stream's `closed` channel is closed the push aborts with
    `io.EOF` (`hAbort`) — the frame loop cannot stay stuck on a stream that is being torn down. -/
theorem C18_blocked_push_released_by_close {ff : Bool} (x : Sys α) (p : α) (t : List (Micro α))
    (ht : x.todo = .pushEnq p :: t) (hfull : cap ≤ x.s.buf.length) :
    step ff x .hStep = none ∧
      (x.s.closed = true → ∃ y, step ff x .hAbort = some y ∧ y.todo = [] ∧ y.dropped = true) := by
  constructor
  · simp [step, stepMicro, ht, Nat.not_lt.mpr hfull]
  · intro hc
    refine ⟨{ x with todo := [], dropped := true }, ?_, rfl, rfl⟩
    simp [step, stepAbort, ht, hc]

/-- **Data before EOF.**  In every reachable state of the repaired code: if `Read` has returned
    end-of-stream while the stream had not been closed/reset (`closed = false` at that moment), then
    a FIN frame had reached the stream and every non-empty payload that reached the stream before or
    together with that first FIN (`a`) had already been returned by `Read`, in order (`a` is a prefix
    of the chunks delivered before the EOF). -/
theorem C18_data_before_eof {x : Sys α} (h : Reachable false x) (d : List α)
    (he : x.eof = some (d, false)) :
    ∃ a, x.arrivedAtFin = some a ∧ a <+: d :=
  (inv2_reachable h).eofOk d he

/-- The frame list of a reachable state may be extended at its end at any time: the state with the
    longer list is reachable as well.  (The T-diff engine delivers frames one op at a time by
    appending them to `frames`; this theorem keeps every engine state inside `Reachable`.) -/
theorem C18_frames_may_arrive_later {ff : Bool} {x : Sys α} (h : Reachable ff x) (fs : List (Frame α)) :
    Reachable ff { x with frames := x.frames ++ fs } :=
  reachable_ext h fs

/-- Nothing is ever skipped or reordered by the reader: the chunks accepted by `PushData` are the
    chunks delivered so far followed by the buffer content (either statement order). -/
theorem C18_fifo {ff : Bool} {x : Sys α} (h : Reachable ff x) :
    x.pushed = x.delivered ++ x.s.buf :=
  (inv1_reachable h).queue

/-- The pinned statement order (FIN signalled before the payload is queued) loses the chunk that
    arrives together with FIN: a parked reader returns EOF with nothing delivered. -/
theorem C18_finfirst_loses_data :
    ∃ x : Sys Nat, Reachable true x ∧ x.arrivedAtFin = some [7] ∧ x.eof = some ([], false) := by
  refine ⟨_, run_reachable (x := init true [Frame.data true (some 7)])
    [.rStart, .hNext, .hStep, .hStep, .rSelFin, .rDrain] (Reachable.init _ _) rfl, ?_, ?_⟩ <;> rfl

/-- The same schedule on the repaired order cannot produce an EOF: the reader is still parked. -/
example : (run false (init true [Frame.data true (some 7)])
    [.rStart, .hNext, .hStep, .hStep, .rSelFin, .rDrain] : Option (Sys Nat)).isNone = true := by decide

/-- Hypotheses of `C18_data_before_eof` are satisfiable (non-vacuity): data+FIN to a parked reader,
    reader gets the chunk and then EOF. -/
example : ∃ x : Sys Nat, Reachable false x ∧ x.eof = some ([7], false) ∧ x.arrivedAtFin = some [7] := by
  refine ⟨_, run_reachable (x := init true [Frame.data true (some 7)])
    [.rStart, .hNext, .hStep, .hStep, .rSelData, .hStep, .hStep, .hStep, .rStart, .rSelFin, .rDrain]
    (Reachable.init _ _) rfl, ?_, ?_⟩ <;> rfl

/-- **Write refused after local FIN** (either order, every interleaving): once `CloseWrite` has run,
    `CanWrite()` is false — which is what `meshConn.Write` checks before sending. -/
theorem C18_write_refused_after_local_fin {ff : Bool} {x : Sys α} (h : Reachable ff x)
    (hl : x.s.localFin = true) : x.s.canWrite = false := by
  rcases (inv1_reachable h).lfin hl with hs | hs <;> simp [Stream.canWrite, hs]

/-- … while reads continue: a local half-close does not disable `Read` (buffered data is returned). -/
theorem C18_read_after_local_fin {ff : Bool} (x : Sys α) (c : α) (b : List α)
    (hr : x.rpc = .idle) (hb : x.s.buf = c :: b) :
    step ff x .rStart = some (deliver x c b) := by
  simp [step, hr, hb]

example : ∃ x : Sys Nat, Reachable false x ∧ x.s.localFin = true ∧ x.s.state = .hcl :=
  ⟨_, run_reachable (x := init true []) [.lCloseWrite] (Reachable.init _ _) rfl, rfl, rfl⟩


/-- **Race outcomes** (what the `race` stress op of the engine checks on the real code): a FIN frame
    handled concurrently with a local `CloseWrite` (resp. `Close`), under EVERY placement of the local
    call among the handler's sub-steps, ends in CLOSED with writes refused. -/
theorem C18_race_serializable :
    (∀ k, k ≤ 4 →
      ((run false (init true [Frame.data true (none : Option Nat)])
          ((([.hNext, .hStep, .hStep, .hStep] : List Label).take k) ++ [.lCloseWrite] ++
            (([.hNext, .hStep, .hStep, .hStep] : List Label).drop k))).map
        (fun x => (x.s.state, x.s.canWrite, x.s.localFin, x.s.remoteFin))) = some (St.closed, false, true, true)) ∧
    (∀ k, k ≤ 4 →
      ((run false (init true [Frame.data true (none : Option Nat)])
          ((([.hNext, .hStep, .hStep, .hStep] : List Label).take k) ++ [.lClose, .closeEnd] ++
            (([.hNext, .hStep, .hStep, .hStep] : List Label).drop k))).map
        (fun x => (x.s.state, x.s.canWrite, x.s.closed, x.s.remoteFin))) = some (St.closed, false, true, true)) := by
  constructor <;> (intro k hk; (have : k = 0 ∨ k = 1 ∨ k = 2 ∨ k = 3 ∨ k = 4 := by omega); rcases this with rfl | rfl | rfl | rfl | rfl <;> rfl)

/-- **Only documented state edges.**  Every atomic step of every thread moves `state` along an edge
    of Architecture.md section 7.1 (or leaves it unchanged). -/
theorem C18_transitions {ff : Bool} {x y : Sys α} (l : Label) (h : step ff x l = some y) :
    edge x.s.state y.s.state = true := by
  have hrefl : ∀ a : St, edge a a = true := by intro a; cases a <;> rfl
  have hclosed : ∀ a : St, edge a .closed = true := by intro a; cases a <;> rfl
  cases l with
  | hNext =>
    simp only [step, stepNext] at h
    split at h
    · split at h
      · split at h <;> (injection h with h; subst h; exact hrefl _)
      · injection h with h; subst h; exact hrefl _
    · cases h
  | hStep =>
    simp only [step, stepMicro] at h
    split at h
    · cases h
    · split at h <;> (injection h with h; subst h; exact hrefl _)
    · split at h
      · injection h with h; subst h; exact hrefl _
      · cases h
    · split at h <;> (injection h with h; subst h; exact hrefl _)
    · injection h with h; subst h; exact hrefl _
    · injection h with h; subst h
      rcases finState_state x.s with e | ⟨e1, e2⟩ | ⟨e1, e2⟩
      · show edge _ x.s.finState.state = true
        rw [e]; exact hrefl _
      · show edge _ x.s.finState.state = true
        rw [e1, e2]; rfl
      · show edge _ x.s.finState.state = true
        rw [e1, e2]; rfl
    · injection h with h; subst h; exact hrefl _
    · injection h with h; subst h
      show edge _ x.s.closeBegin.state = true
      unfold Stream.closeBegin
      split
      · exact hrefl _
      · exact hclosed _
  | hAbort =>
    simp only [step, stepAbort] at h
    split at h
    · split at h
      · injection h with h; subst h; exact hrefl _
      · cases h
    · cases h
  | rStart =>
    simp only [step] at h
    split at h
    · split at h <;> (injection h with h; subst h; exact hrefl _)
    · cases h
  | rSelData =>
    simp only [step] at h
    split at h
    · split at h
      · injection h with h; subst h; exact hrefl _
      · cases h
    · cases h
  | rSelFin =>
    simp only [step] at h
    split at h
    · injection h with h; subst h; exact hrefl _
    · cases h
  | rSelClosed =>
    simp only [step] at h
    split at h
    · injection h with h; subst h; exact hrefl _
    · cases h
  | rDrain =>
    simp only [step] at h
    split at h
    · split at h <;> (injection h with h; subst h; exact hrefl _)
    · cases h
  | ack =>
    simp only [step] at h
    split at h
    · next ho => injection h with h; subst h; show edge x.s.state .open_ = true; rw [ho]; rfl
    · cases h
  | lCloseWrite =>
    simp only [step] at h
    split at h
    · cases h
    · injection h with h; subst h
      show edge _ x.s.closeWrite.state = true
      rcases closeWrite_state x.s with e | ⟨e1, e2⟩ | ⟨e1, e2⟩
      · rw [e]; exact hrefl _
      · rw [e1, e2]; rfl
      · rw [e1, e2]; rfl
  | lClose =>
    simp only [step] at h
    split at h
    · cases h
    · injection h with h; subst h
      show edge _ x.s.closeBegin.state = true
      unfold Stream.closeBegin
      split
      · exact hrefl _
      · exact hclosed _
  | closeEnd =>
    simp only [step] at h
    split at h
    · injection h with h; subst h; exact hrefl _
    · cases h

/-- `edge` really excludes something: a closed stream never re-opens, a half-closed one never
    returns to open. -/
example : edge .closed .open_ = false ∧ edge .hcl .open_ = false ∧ edge .hcr .hcl = false :=
  ⟨rfl, rfl, rfl⟩

/-- **A close or reset tears down only the addressed stream.**  Any operation dispatched through the
    manager to stream `id` (frames, close, reset, local calls — `Mgr.upd`) leaves the record of every
    other stream id untouched. -/
theorem C18_close_targets_one (m : Mgr α) (id id' : Nat) (f : Sys α → Sys α) (hne : id' ≠ id) :
    (m.upd id f).get id' = m.get id' := by
  unfold Mgr.upd
  split
  · unfold Mgr.set Mgr.get
    have hb : (id' == id) = false := by simp [hne]
    rw [List.lookup_cons, hb]
    exact lookup_filter_ne m id id' hne
  · rfl

example : ((Mgr.upd ([(1, ({} : Sys Nat)), (3, {})] : Mgr Nat) 1
    (fun x => { x with s := x.s.closeBegin })).get 3).map (·.s.state) = some St.open_ := rfl

end MM.C18
