/-
  C22 — SOCKS5 UDP associations relay only for their own client.

  "Datagrams arriving at a UDP association's relay socket are forwarded into the mesh only if they
   come from the client that owns the association.  Replies are sent only to that client."

  Model: MM/Model/C22.lean, of the code AS FIXED by fixes/C22-udp-owner-control-ip.patch (source
  checked against the peer IP of the TCP control connection, and the reply destination recorded
  only AFTER the checks).  Owner = the host at the other end of the control connection; when the
  connection does not expose a peer address, the host the client declared in its request.

  The full statement is still false for one class of associations, and stays listed as an open
  finding: a control connection without a TCP peer address (SOCKS5 over WebSocket: `wsConn.
  RemoteAddr()` is nil) whose request declares no client address has NO owner the relay could
  check, and the first sender — whoever it is — is relayed and receives the replies.
-/
import MM.Lemmas.C22

namespace MM.C22
open MM

/-- Shape of what `handleUDPAssociate` can be given: a declared IP is 4 or 16 bytes. -/
def wfRequest (destIP : Option Bytes) : Prop := ∀ ip, destIP = some ip → ip.length = 4 ∨ ip.length = 16

/-- The property, for an association created with control peer `ctrl` and declared address
    `(destIP, port)`, after ANY sequence of datagrams `dgs` from any senders: a datagram from
    `src` is relayed only if the association has an owner and `src` is the owner; and replies go
    to the owner. -/
def holdsFor (ctrl destIP : Option Bytes) (port : Nat) : Prop :=
  ∀ (dgs : List (Addr × Bool)) (src : Addr) (valid : Bool),
    let st := run (initSt ctrl destIP port) dgs
    ((recv st src valid).2 = true → ∃ o, owner st = some o ∧ ipEqual src.ip o = true) ∧
    (∀ a, replyDest (recv st src valid).1 = some a → ∃ o, owner st = some o ∧ ipEqual a.ip o = true)

/-- C22 at full strength: for every control connection and every request. -/
def C22_statement : Prop :=
  ∀ (ctrl destIP : Option Bytes) (port : Nat), wfRequest destIP → holdsFor ctrl destIP port

/-- Refutation (open finding C22-ownerless-control-connection): no peer address on the control
    connection, no declared address; a datagram from 127.0.0.9 is relayed although the association
    has no owner to compare it with. -/
theorem C22_refuted : ¬ C22_statement := by
  intro h
  have := (h none none 0 (by intro ip hip; cases hip)) [] ⟨[127, 0, 0, 9], 4000⟩ true
  obtain ⟨h1, _⟩ := this
  obtain ⟨o, ho, _⟩ := h1 (by decide)
  have hnone : owner (run (initSt none none 0) []) = none := by decide
  rw [hnone] at ho
  cases ho

/-- The association has an owner the relay can check: the control connection exposes its peer
    IP, or the request declares a (specified) client address. Decidable. -/
def hasOwner (ctrl destIP : Option Bytes) (port : Nat) : Bool := (owner (initSt ctrl destIP port)).isSome

/-- **C22 for every association that has an owner** — in particular for every association whose
    control connection is a plain TCP connection (the SOCKS5 listener), with or without a declared
    client address, for any senders and any arrival order. -/
theorem C22_partial (ctrl destIP : Option Bytes) (port : Nat) (hreq : wfRequest destIP)
    (hown : hasOwner ctrl destIP port = true) : holdsFor ctrl destIP port := by
  intro dgs src valid
  dsimp only
  have hwf0 := wfExpected_init ctrl destIP port hreq
  have hinv0 : ReplyInv (initSt ctrl destIP port) := by
    intro o _ a ha
    cases ha
  obtain ⟨hwf, hinv, hown'⟩ := run_props hwf0 hinv0 dgs
  obtain ⟨o, ho⟩ := Option.isSome_iff_exists.mp hown
  have hoo : owner (run (initSt ctrl destIP port) dgs) = some o := by rw [hown', ho]
  constructor
  · intro hrel
    refine ⟨o, hoo, ?_⟩
    unfold recv at hrel
    by_cases hacc : accepts (run (initSt ctrl destIP port) dgs) src = true
    · exact accepts_owner hwf hoo hacc
    · rw [if_neg hacc] at hrel; cases hrel
  · intro a ha
    refine ⟨o, hoo, ?_⟩
    have := replyInv_recv hwf hinv src valid
    exact this o (by rw [owner_recv]; exact hoo) a ha

/-- Plain TCP control connection from `o` (nil/IPv4/IPv6 declared address alike): the property
    holds with owner `o`. -/
theorem C22_tcp (o : Bytes) (ho : o.length ≠ 0) (destIP : Option Bytes) (port : Nat)
    (hreq : wfRequest destIP) : holdsFor (some o) destIP port := by
  apply C22_partial (some o) destIP port hreq
  unfold hasOwner owner initSt
  have : (o.length == 0) = false := by simpa using ho
  simp [this]

/-! ### port-level ownership (open finding C22-same-host-other-port)

  `C22_partial` identifies "its own client" with a HOST (the IP check RFC 1928 asks for).  Read as
  a (host, port) endpoint — the one the first accepted datagram (or the request) fixed — the
  statement fails: another socket on the owner's host (another local user; another machine behind
  the same NAT address) is relayed too. -/

/-- Once the first accepted datagram has fixed the client's endpoint, only that port is relayed. -/
def C22_port_statement : Prop :=
  ∀ (ctrl destIP : Option Bytes) (port : Nat), wfRequest destIP →
    ∀ (dgs : List (Addr × Bool)) (src : Addr) (valid : Bool),
      let st := run (initSt ctrl destIP port) dgs
      (recv st src valid).2 = true → ∀ a, st.actual = some a → src.port = a.port

/-- Witness: TCP control connection from 127.0.0.1; the client's socket (port 4001) sends first, then
    a second socket on 127.0.0.1 (port 4004) sends and is relayed. -/
theorem C22_port_refuted : ¬ C22_port_statement := by
  intro h
  have := h (some [127, 0, 0, 1]) none 0 (by intro ip hip; cases hip)
    [(⟨[127, 0, 0, 1], 4001⟩, true)] ⟨[127, 0, 0, 1], 4004⟩ true (by decide)
    ⟨[127, 0, 0, 1], 4001⟩ (by decide)
  exact absurd this (by decide)

/-! ### non-vacuity and the two facets of the repaired defect -/

def c1 : Addr := ⟨[127, 0, 0, 1], 4001⟩     -- the client
def x2 : Addr := ⟨[127, 0, 0, 2], 4002⟩     -- a stranger

/-- TCP control connection from 127.0.0.1, nothing declared: a stranger who sends first is neither
    relayed nor becomes the reply destination; the client is relayed and gets the replies. -/
example :
    let st := run (initSt (some [127, 0, 0, 1]) none 0) [(x2, true)]
    (recv (initSt (some [127, 0, 0, 1]) none 0) x2 true).2 = false ∧ replyDest st = none ∧
    (recv st c1 true).2 = true ∧ replyDest (recv st c1 true).1 = some c1 := by decide

/-- Declared address and a stranger who sends first: the stranger no longer becomes the reply
    destination (before the fix the first sender was recorded BEFORE the filter). -/
example :
    let st := run (initSt none (some [127, 0, 0, 1]) 4001) [(x2, true), (c1, true)]
    replyDest st = some c1 := by decide

example : hasOwner (some [127, 0, 0, 1]) none 0 = true := by decide
example : hasOwner none (some [0, 0, 0, 0]) 0 = false := by decide

end MM.C22
