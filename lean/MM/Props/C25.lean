/-
  C25 — Remote shell runs only authorised commands.

  "A remote shell request starts a process only if the shell is enabled and the password, when
   configured, matches.  Unless the whitelist is the wildcard, the command must be exactly a
   whitelisted base name and no argument may contain shell metacharacters or be an absolute
   path.  Concurrent sessions never exceed the configured maximum."

  Model: MM/Model/C25.lean (executor.go, statement by statement; tied by T-diff through an
  accessor on `validateAndAcquire`, the real `NewSession`/`NewPTYSession`, and the regenerated
  character class).  A process is started only after `validateAndAcquire` returned nil
  (executor.go NewSession, pty_unix.go NewPTYSession: first statement, early return on error).
-/
import MM.Lemmas.C25
import MM.Gen.LockC25

namespace MM.C25
open MM

/-- Admission implies every clause of the statement, for every configuration, request, counter
    value and every password predicate. -/
theorem C25_start_implies (pwOK : Bytes → Bytes → Bool) (c : Cfg) (m : Meta) (n : Int)
    (h : (validateAndAcquire pwOK c m n).1 = .ok) :
    c.enabled = true ∧
    (c.hash = [] ∨ (m.password ≠ [] ∧ pwOK c.hash m.password = true)) ∧
    (hasWildcard c = true ∨
      (m.command ∈ c.whitelist ∧ (0x2f : UInt8) ∉ m.command ∧ (0x5c : UInt8) ∉ m.command ∧
        ∀ a ∈ m.args, dangerous a = false ∧ isAbs a = false)) ∧
    (c.maxSessions > 0 → n < c.maxSessions) ∧
    (validateAndAcquire pwOK c m n).2 = n + 1 := by
  obtain ⟨hen, hau, hcmd, hargs, heq⟩ := admit_ok_inv h
  rw [heq] at h ⊢
  have hacq := acquire_ok h
  refine ⟨hen, validateAuth_none hau, ?_, hacq.1, hacq.2⟩
  cases hw : hasWildcard c with
  | true => exact Or.inl rfl
  | false =>
    right
    have ⟨h1, h2, h3⟩ := isCommandAllowed_noWild hw hcmd
    exact ⟨h1, h2, h3, validateArgs_none hw hargs⟩

/-- What RUNS is what was validated: the process gets exactly the request's command and arguments
    (tied to `exec.Cmd.Args` of the real sessions by the `argv` / `argvp` ops), so unless the
    whitelist is the wildcard every argument the process receives is free of metacharacters and
    not an absolute path, and argv[0] is the whitelisted base name. -/
theorem C25_runs_validated (pwOK : Bytes → Bytes → Bool) (c : Cfg) (m : Meta) (n : Int)
    (h : (validateAndAcquire pwOK c m n).1 = .ok) (hw : hasWildcard c = false) :
    (processArgv m).head? = some m.command ∧ m.command ∈ c.whitelist ∧
    ∀ a ∈ (processArgv m).tail, dangerous a = false ∧ isAbs a = false := by
  have := (C25_start_implies pwOK c m n h).2.2.1
  rcases this with hw' | ⟨hm, _, _, ha⟩
  · rw [hw] at hw'; cases hw'
  · exact ⟨rfl, hm, ha⟩

/-- Everything request-controlled that reaches `exec.Cmd` (tied by the `exec` / `execp` ops to
    `Cmd.Args`, `Cmd.Env`, `Cmd.Dir` of the real sessions): the validated argument vector — and,
    NOT validated by anything, the request's working directory and its environment pairs, appended
    after the agent's own environment (so they win).  The statement of C25 constrains command and
    arguments only; that `LD_PRELOAD=…`, `BASH_ENV=…` or an arbitrary absolute `work_dir` reach a
    whitelisted program is recorded here, not judged. -/
theorem C25_exec_surface (pty : Bool) (term : Bytes) (m : Meta) :
    (execSurface pty term m).argv = m.command :: m.args ∧
    (execSurface pty term m).dir = m.workDir ∧
    (∀ e ∈ m.env, e ∈ (execSurface pty term m).envExtra) ∧
    (∀ e ∈ (execSurface pty term m).envExtra, e ∈ m.env ∨ (pty = true ∧ e = "TERM=".toUTF8.toList ++ term)) := by
  refine ⟨rfl, rfl, ?_, ?_⟩
  · intro e he
    unfold execSurface
    exact List.mem_append_right _ he
  · intro e he
    unfold execSurface at he
    simp only at he
    rcases List.mem_append.mp he with h | h
    · cases pty with
      | true => right; simp at h; exact ⟨rfl, h⟩
      | false => simp at h
    · exact Or.inl h

/-- A configured password hash that no password satisfies (in particular a string that is not a
    well-formed bcrypt hash: bcrypt.CompareHashAndPassword returns an error for every password)
    admits nothing.  The `reseth` scripts pin that the real ValidateAuth refuses for each class of
    malformed hash (too short, plain text, unknown version, cost out of range, bad salt characters,
    truncated, trailing garbage) and for a well-formed hash of another password. -/
theorem C25_bad_hash_admits_nothing (pwOK : Bytes → Bytes → Bool) (c : Cfg) (m : Meta) (n : Int)
    (hh : c.hash ≠ []) (hbad : ∀ p, pwOK c.hash p = false) :
    (validateAndAcquire pwOK c m n).1 ≠ .ok := by
  intro h
  rcases (C25_start_implies pwOK c m n h).2.1 with h0 | ⟨_, h1⟩
  · exact hh h0
  · rw [hbad] at h1; cases h1

/-- A refused request leaves the counter alone. -/
theorem C25_reject_keeps_counter (pwOK : Bytes → Bytes → Bool) (c : Cfg) (m : Meta) (n : Int)
    (h : (validateAndAcquire pwOK c m n).1 ≠ .ok) : (validateAndAcquire pwOK c m n).2 = n := by
  cases hen : c.enabled with
  | false => simp [validateAndAcquire, hen]
  | true =>
    cases hau : validateAuth pwOK c m.password with
    | some v => simp [validateAndAcquire, hen, hau]
    | none =>
      cases hcmd : isCommandAllowed c m.command with
      | false => simp [validateAndAcquire, hen, hau, hcmd]
      | true =>
        cases hargs : validateArgs c m.args with
        | some v => simp [validateAndAcquire, hen, hau, hcmd, hargs]
        | none =>
          have heq : validateAndAcquire pwOK c m n = acquire c n := by
            simp [validateAndAcquire, hen, hau, hcmd, hargs]
          rw [heq] at h ⊢
          unfold acquire at h ⊢
          split
          · rfl
          · rename_i hh; rw [if_neg hh] at h; exact absurd rfl h

/-- An empty whitelist admits nothing. -/
theorem C25_empty_whitelist (pwOK : Bytes → Bytes → Bool) (c : Cfg) (m : Meta) (n : Int)
    (hw : c.whitelist = []) : (validateAndAcquire pwOK c m n).1 ≠ .ok := by
  intro h
  have := (C25_start_implies pwOK c m n h).2.2.1
  rcases this with hw' | ⟨hm, _⟩
  · simp [hasWildcard, hw] at hw'
  · simp [hw] at hm

/-- The documented shell metacharacters ``; & | $ ` ( ) { } [ ] < > \ ! * ? ~`` as byte values. -/
def metachars : List Nat := [59, 38, 124, 36, 96, 40, 41, 123, 125, 91, 93, 60, 62, 92, 33, 42, 63, 126]

set_option maxRecDepth 100000 in
/-- The regenerated character class is exactly that set — checked over all 256 byte values. -/
theorem C25_class_exact :
    ∀ n, n < 256 → inClass Gen.C25.dangerousClass (UInt8.ofNat n) = metachars.contains n := by
  decide

/-- Every interleaving of acquire / release critical sections: the counter equals the number of
    live sessions, and that number never exceeds a positive `MaxSessions`. -/
theorem C25_sessions_le_max (c : Cfg) (s : St) (h : Reachable c s) :
    s.counter = s.held ∧ (c.maxSessions > 0 → (s.held : Int) ≤ c.maxSessions) := by
  induction h with
  | init => exact ⟨rfl, fun h => by show ((0 : Nat) : Int) ≤ _; omega⟩
  | @step s t _ st ih =>
    obtain ⟨ih1, ih2⟩ := ih
    cases st with
    | acquireOk hno =>
      refine ⟨by show s.counter + 1 = ((s.held + 1 : Nat) : Int); omega, fun hpos => ?_⟩
      have := ih2 hpos
      have hlt : ¬ (s.counter ≥ c.maxSessions) := fun hge => hno ⟨hpos, hge⟩
      show ((s.held + 1 : Nat) : Int) ≤ _
      omega
    | acquireFail _ => exact ⟨ih1, ih2⟩
    | release hpos =>
      refine ⟨?_, fun hp => ?_⟩
      · show release s.counter = ((s.held - 1 : Nat) : Int)
        unfold release; split <;> omega
      · have := ih2 hp
        show ((s.held - 1 : Nat) : Int) ≤ _
        omega

/-! ### atomic-step tie (tools/lockshape.go)

`C25_sessions_le_max` quantifies over interleavings of two atomic steps: "check the limit and
increment" and "decrement".  That granularity is a fact about executor.go: the counter is touched
only inside `AcquireSession` / `ReleaseSession`, each of which takes `e.mu` once and holds it for
every access; `validateAndAcquire` reaches the counter only through `AcquireSession`. -/

theorem C25_counter_atomic :
    -- every access to `sessions` is made with the write lock held
    Gen.LockC25.accesses.all (fun a => a.2.2.2 == "W") = true ∧
    -- … and only from AcquireSession / ReleaseSession (never directly from validateAndAcquire)
    Gen.LockC25.accesses.all (fun a => a.1 == "Executor.AcquireSession" || a.1 == "Executor.ReleaseSession") = true ∧
    -- check-and-increment / decrement are ONE critical section each
    Gen.LockC25.acquisitions.all (fun a =>
      if a.1 == "Executor.AcquireSession" || a.1 == "Executor.ReleaseSession" then a.2 == 1 else a.2 == 0) = true ∧
    -- admission takes its slot by calling AcquireSession, and calls nothing else that could touch the counter
    Gen.LockC25.calls.any (fun c => c.1 == "Executor.validateAndAcquire" && c.2.1 == "AcquireSession") = true ∧
    Gen.LockC25.calls.all (fun c => c.1 != "Executor.validateAndAcquire" ||
      ["AcquireSession", "IsCommandAllowed", "ValidateArgs", "ValidateAuth", "hasWildcard"].contains c.2.1) = true := by
  decide

/-! Non-vacuity. -/

private def exCfg : Cfg := { enabled := true, whitelist := [[0x6c, 0x73]], hash := [], maxSessions := 2 }

example : (validateAndAcquire (fun _ _ => false) exCfg
    { command := [0x6c, 0x73], args := [[0x2d, 0x6c, 0x61]], password := [] } 1).1 = .ok := by decide

example : (validateAndAcquire (fun _ _ => false) exCfg
    { command := [0x6c, 0x73], args := [[0x61, 0x3b, 0x62]], password := [] } 1).1 = .dangerous 0 := by decide

example : (validateAndAcquire (fun _ _ => false) exCfg
    { command := [0x6c, 0x73], args := [], password := [] } 2).1 = .maxSessions := by decide

example : Reachable exCfg ⟨2, 2⟩ :=
  .step (.step .init (.acquireOk _ (by decide))) (.acquireOk _ (by decide))

end MM.C25
