/-
  C30 — Sleep mode follows its state machine for every interleaving.

  "The sleep state moves only along awake to sleeping, sleeping to polling, polling to sleeping, and
   sleeping or polling to awake.  Sleeping while asleep and waking while awake are refused.  Once a
   wake has completed, no poll activity started earlier reconnects, disconnects or puts the agent
   back to sleep, and the persisted state matches the state after every completed transition."

  Model: MM/Model/C30.lean — LTS of sleep.Manager whose atomic steps are the stateMu critical
  sections, any number of concurrent Poll() invocations, every interleaving.

  Proved for every reachable state / every step:
    C30_edges, C30_refusals, C30_persist_quiescent, C30_poll_never_sleeps_awake_agent.
  "No poll activity started before a completed wake reconnects or disconnects" (`C30_statement`) is
  REFUTED on the code (`C30_refuted`, two schedules): Poll releases the lock before invoking OnPoll,
  so a Wake completing in that gap is followed by a poll reconnect; and the second critical section
  re-checks only for AWAKE, so after wake → sleep a poll from the previous sleep episode runs
  OnPollEnd, rewrites SLEEPING and re-arms the timer inside the new episode.  Open findings.
  `C30_partial`: no stale activity in any step taken while no Wake has completed during an in-flight
  poll.
-/
import MM.Lemmas.C30

namespace MM.C30

/-- **Edges.**  Every step either leaves the state alone or moves it along one of
    awake→sleeping (only `Sleep`), sleeping→polling, polling→sleeping, sleeping/polling→awake (only `Wake`). -/
theorem C30_edges (s : S) (l : Label) :
    (step s l).1.st = s.st ∨
    (s.st = .awake ∧ (step s l).1.st = .sleeping ∧ l = .sleep) ∨
    (s.st = .sleeping ∧ (step s l).1.st = .polling) ∨
    (s.st = .polling ∧ (step s l).1.st = .sleeping) ∨
    (s.st ≠ .awake ∧ (step s l).1.st = .awake ∧ l = .wake) := by
  cases l with
  | sleep =>
    simp only [step]
    by_cases ha : s.st = .awake
    · rw [if_pos ha]; exact Or.inr (Or.inl ⟨ha, rfl, trivial⟩)
    · rw [if_neg ha]; exact Or.inl rfl
  | wake =>
    simp only [step]
    by_cases ha : s.st = .awake
    · rw [if_pos ha]; exact Or.inl rfl
    · rw [if_neg ha]; exact Or.inr (Or.inr (Or.inr (Or.inr ⟨ha, rfl, trivial⟩)))
  | pollBegin i =>
    simp only [step]
    cases s.threads[i]? with
    | none => exact Or.inl rfl
    | some t =>
      dsimp only
      by_cases hpc : t.pc ≠ .idle
      · rw [if_pos hpc]; exact Or.inl rfl
      · rw [if_neg hpc]
        by_cases hs : s.st ≠ .sleeping
        · rw [if_pos hs]; exact Or.inl rfl
        · rw [if_neg hs]
          exact Or.inr (Or.inr (Or.inl ⟨Classical.byContradiction hs, rfl⟩))
  | pollInvoke i =>
    simp only [step]
    cases s.threads[i]? with
    | none => exact Or.inl rfl
    | some t => dsimp only; split <;> exact Or.inl rfl
  | pollReturn i =>
    simp only [step]
    cases s.threads[i]? with
    | none => exact Or.inl rfl
    | some t => dsimp only; split <;> exact Or.inl rfl
  | pollEnd i =>
    simp only [step]
    cases s.threads[i]? with
    | none => exact Or.inl rfl
    | some t =>
      dsimp only
      by_cases hpc : t.pc ≠ .waiting
      · rw [if_pos hpc]; exact Or.inl rfl
      · rw [if_neg hpc]
        by_cases ha : s.st = .awake
        · rw [if_pos ha]; exact Or.inl rfl
        · rw [if_neg ha]
          cases hst : s.st with
          | awake => exact absurd hst ha
          | sleeping => exact Or.inl rfl
          | polling => exact Or.inr (Or.inr (Or.inr (Or.inl ⟨rfl, rfl⟩)))

/-- **Refusals.**  `Sleep()` while sleeping or polling and `Wake()` while awake are refused: the
    error is returned, nothing changes, no callback runs. -/
theorem C30_refusals (s : S) :
    (s.st ≠ .awake → step s .sleep = (s, .errAlreadySleeping, [])) ∧
    (s.st = .awake → step s .wake = (s, .errNotSleeping, [])) := by
  constructor
  · intro h; simp only [step]; rw [if_neg h]
  · intro h; simp only [step]; rw [if_pos h]

/-- **Persisted state.**  In every reachable state in which no Poll() is in flight (Sleep and Wake
    are single atomic steps), the persisted state equals the in-memory state — or nothing has
    been written yet and the agent is still awake. -/
theorem C30_persist_quiescent (n : Nat) (s : S) (hr : Reachable n s) (hq : allIdle s = true) :
    s.file = some s.st ∨ (s.file = none ∧ s.st = .awake) := by
  obtain ⟨h1, h2⟩ := inv_reachable hr
  rcases h1 with h1 | h1 | h1
  · exact Or.inl h1
  · exact Or.inr h1
  · have := h2 h1.1; rw [hq] at this; cases this

/-- **A poll never puts an awake agent to sleep.**  From AWAKE the only step that leaves AWAKE is
    `Sleep()`: whatever a poll that began earlier still does, it does not undo a completed wake. -/
theorem C30_poll_never_sleeps_awake_agent (s : S) (l : Label) (ha : s.st = .awake) (hl : l ≠ .sleep) :
    (step s l).1.st = .awake := by
  rcases C30_edges s l with h | h | h | h | h
  · rw [h, ha]
  · exact absurd h.2.2 hl
  · rw [ha] at h; cases h.1
  · rw [ha] at h; cases h.1
  · exact h.2.1

/-- The full "no stale poll activity" clause: along every schedule, no OnPoll / OnPollEnd is run
    by a poll that began before a Wake() that has since completed. -/
def C30_statement : Prop :=
  ∀ (n : Nat) (sched : List Label), ∀ e ∈ (run (S.init n) sched).2, isStale e = false

/-- Wake completes between Poll's first unlock and the OnPoll call: the poll reconnects anyway. -/
theorem C30_witness_reconnect :
    (run (S.init 1) [.sleep, .pollBegin 0, .wake, .pollInvoke 0]).2 = [.onSleep, .onWake, .onPoll 0 true] := by
  decide

/-- wake → sleep while a poll is inside OnPoll: its second section sees SLEEPING (of the NEW
    episode), runs OnPollEnd, writes SLEEPING and re-arms the timer. -/
theorem C30_witness_pollend :
    (run (S.init 1) [.sleep, .pollBegin 0, .pollInvoke 0, .wake, .sleep, .pollReturn 0, .pollEnd 0]).2 =
      [.onSleep, .onPoll 0 false, .onWake, .onSleep, .onPollEnd 0 true] := by
  decide

theorem C30_refuted : ¬ C30_statement := by
  intro h
  have := h 1 [.sleep, .pollBegin 0, .wake, .pollInvoke 0] (.onPoll 0 true) (by rw [C30_witness_reconnect]; simp)
  cases this

/-- **No stale activity while no wake overtakes a poll.**  In a state where every in-flight poll
    began after the last completed Wake (`epoch = wakes`), no step runs a stale callback. -/
theorem C30_partial (s : S) (l : Label)
    (h : ∀ (i : Nat) (t : Thread), s.threads[i]? = some t → t.pc ≠ .idle → t.epoch = s.wakes) :
    ∀ e ∈ (step s l).2.2, isStale e = false := by
  intro e he
  cases l with
  | sleep => simp only [step] at he; split at he <;> simp at he <;> subst he <;> rfl
  | wake => simp only [step] at he; split at he <;> simp at he <;> subst he <;> rfl
  | pollBegin i =>
    simp only [step] at he
    cases ht : s.threads[i]? with
    | none => simp [ht] at he
    | some t => simp only [ht] at he; split at he <;> (try split at he) <;> simp at he
  | pollReturn i =>
    simp only [step] at he
    cases ht : s.threads[i]? with
    | none => simp [ht] at he
    | some t => simp only [ht] at he; split at he <;> simp at he
  | pollInvoke i =>
    simp only [step] at he
    cases ht : s.threads[i]? with
    | none => simp [ht] at he
    | some t =>
      simp only [ht] at he
      by_cases hpc : t.pc ≠ .afterP1
      · rw [if_pos hpc] at he; simp at he
      · rw [if_neg hpc] at he
        simp only [List.mem_singleton] at he
        subst he
        have := h i t ht (by intro hc; rw [hc] at hpc; simp at hpc)
        simp [isStale, this]
  | pollEnd i =>
    simp only [step] at he
    cases ht : s.threads[i]? with
    | none => simp [ht] at he
    | some t =>
      simp only [ht] at he
      by_cases hpc : t.pc ≠ .waiting
      · rw [if_pos hpc] at he; simp at he
      · rw [if_neg hpc] at he
        by_cases ha : s.st = .awake
        · rw [if_pos ha] at he; simp at he
        · rw [if_neg ha] at he
          simp only [List.mem_singleton] at he
          subst he
          have := h i t ht (by intro hc; rw [hc] at hpc; simp at hpc)
          simp [isStale, this]

/-! ### Agent.doPoll: "once a wake has completed, no poll activity started earlier … disconnects" -/

/-- doPoll never disconnects an awake agent. -/
def C30_dopoll_statement : Prop :=
  ∀ (sched : List DLabel), DEvent.disconnect true ∉ (drun DS.init sched).2

/-- REFUTED: the state check and `DisconnectAll()` are not atomic — a Wake() completing in between
    is followed by the disconnect. -/
theorem C30_dopoll_refuted : ¬ C30_dopoll_statement := by
  intro h
  exact h [.sleep, .dpStart, .wake, .dpRelease] (by decide)

/-- … and it holds whenever no Wake() completes between doPoll's check and its disconnect: a
    parked doPoll found the agent not awake, and only `wake` makes it awake. -/
theorem C30_dopoll_partial (s : DS) (l : DLabel) (hinv : s.parked = true → s.st ≠ .awake) :
    DEvent.disconnect true ∉ (dstep s l).2.2 ∧
    (l ≠ .wake → ((dstep s l).1.parked = true → (dstep s l).1.st ≠ .awake)) := by
  cases l with
  | sleep =>
    simp only [dstep]
    by_cases ha : s.st = .awake
    · rw [if_pos ha]; exact ⟨by simp, fun _ _ => by simp⟩
    · rw [if_neg ha]; exact ⟨by simp, fun _ => hinv⟩
  | wake =>
    simp only [dstep]
    by_cases ha : s.st = .awake
    · rw [if_pos ha]; exact ⟨by simp, fun h => absurd rfl h⟩
    · rw [if_neg ha]; exact ⟨by simp, fun h => absurd rfl h⟩
  | dpStart =>
    simp only [dstep]
    by_cases hp : s.parked = true
    · rw [if_pos hp]; exact ⟨by simp, fun _ => hinv⟩
    · rw [if_neg hp]
      by_cases ha : s.st = .awake
      · rw [if_pos ha]; exact ⟨by simp, fun _ => hinv⟩
      · rw [if_neg ha]; exact ⟨by simp, fun _ _ => ha⟩
  | dpRelease =>
    simp only [dstep]
    by_cases hp : s.parked = true
    · have hna := hinv hp
      simp [hp, hna]
    · simp at hp; simp [hp]

/-! Vacuity: the hypotheses are met by real runs. -/
example : Reachable 2 (run (S.init 2) [.sleep, .pollBegin 0, .pollInvoke 0, .pollReturn 0, .pollEnd 0]).1 := by
  exact .step (.pollEnd 0) (.step (.pollReturn 0) (.step (.pollInvoke 0) (.step (.pollBegin 0) (.step .sleep .init))))
example : allIdle (run (S.init 2) [.sleep, .pollBegin 0, .pollInvoke 0, .pollReturn 0, .pollEnd 0]).1 = true := by decide
example : (run (S.init 2) [.sleep, .pollBegin 0, .pollInvoke 0, .pollReturn 0, .pollEnd 0]).1.file = some .sleeping := by decide

end MM.C30
