/-
  C10 — Route table maintenance follows the update, loop and cleanup rules.

  "A stored route from an origin is replaced only by one with a newer sequence, or the same
   sequence and a strictly lower metric.  A route whose path contains the local agent is never
   stored.  A peer disconnect removes exactly the routes learned through that peer, and
   stale-route cleanup never removes locally originated routes."   For every interleaving of
   additions, withdrawals, peer disconnects and cleanups across all four route tables.

  The theorems are proved once for the generic keyed table (any `Cfg`), hence for the CIDR,
  domain, forward-key and agent tables (`cidrCfg`, `domCfg`, `fwdCfg`, `agCfg`); the four tables
  of a `Manager` share no state, so an interleaving across them is a history of each.
-/
import MM.Lemmas.C10
import MM.Props.C08
import MM.Model.C10

namespace MM.C08
open MM

section generic
variable {K P : Type} [DecidableEq K]

/-- **Update rule.**  For a well-formed table, `AddRoute(e)`:
    * refused ⇒ the table is unchanged;
    * every route stored afterwards is the new one or was stored before;
    * every route stored before is still stored, unless it is the entry in the new route's slot
      (same key, same origin — and next hop for the agent table) **and the new route is newer**
      (greater sequence, or equal sequence and strictly lower metric);
    * accepted ⇒ the new route is stored, its path does not contain the local agent. -/
theorem C10_add_outcome {c : Cfg K P} {self : Nat} {t : KTable K P} (hwf : WF c self t)
    (e : Entry P) :
    let t' := (addRoute c self t e).1
    let ok := (addRoute c self t e).2
    (ok = false → t' = t) ∧
    (∀ x ∈ routes t', x = stored c e ∨ x ∈ routes t) ∧
    (∀ x ∈ routes t, x ∈ routes t' ∨
        (ok = true ∧ c.keyOf x.pay = c.keyOf (stored c e).pay ∧
          sameSlot c.byHop x (stored c e) = true ∧ newer (stored c e) x = true)) ∧
    (ok = true → stored c e ∈ routes t' ∧ self ∉ e.path) := by
  have hwf' := WF_addRoute hwf e
  revert hwf'
  unfold addRoute
  by_cases hv : (!c.valid e.pay) = true
  · rw [if_pos hv]; intro _
    exact ⟨fun _ => rfl, fun x hx => Or.inr hx, fun x hx => Or.inl hx, fun h => by cases h⟩
  rw [if_neg hv]
  by_cases hp : e.path.contains self = true
  · rw [if_pos hp]; intro _
    exact ⟨fun _ => rfl, fun x hx => Or.inr hx, fun x hx => Or.inl hx, fun h => by cases h⟩
  rw [if_neg hp]
  have hself : self ∉ e.path := by simpa using hp
  dsimp only
  generalize stored c e = e'
  generalize hk : c.keyOf e'.pay = k
  cases hr : replG c.byHop e' (get t k) with
  | none =>
    dsimp only
    intro hwf'
    refine ⟨(fun h => by cases h), ?_, ?_, fun _ => ⟨?_, hself⟩⟩
    · intro x hx
      rcases (mem_routes_set hwf.1).mp hx with hx | ⟨k2, -, hx⟩
      · rcases List.mem_append.mp (mem_sortG.mp hx) with hx | hx
        · exact Or.inr ((mem_routes_get hwf.1).mpr ⟨k, hx⟩)
        · simp only [List.mem_singleton] at hx; exact Or.inl hx
      · exact Or.inr ((mem_routes_get hwf.1).mpr ⟨k2, hx⟩)
    · intro x hx
      refine Or.inl ((mem_routes_set hwf.1).mpr ?_)
      have hm := hwf.mem_get hx
      by_cases e2 : c.keyOf x.pay = k
      · rw [e2] at hm
        exact Or.inl (mem_sortG.mpr (List.mem_append_left _ hm))
      · exact Or.inr ⟨_, e2, hm⟩
    · exact (mem_routes_set hwf.1).mpr (Or.inl (mem_sortG.mpr (by simp)))
  | some o =>
    cases o with
    | none =>
      dsimp only
      intro _
      exact ⟨fun _ => rfl, fun x hx => Or.inr hx, fun x hx => Or.inl hx, fun h => by cases h⟩
    | some g' =>
      dsimp only
      intro hwf'
      obtain ⟨pre, old, post, hg, hg', -, hso, hnew⟩ := replG_replaced hr
      refine ⟨(fun h => by cases h), ?_, ?_, fun _ => ⟨?_, hself⟩⟩
      · intro x hx
        rcases (mem_routes_set hwf.1).mp hx with hx | ⟨k2, -, hx⟩
        · have hx' := mem_sortG.mp hx
          rw [hg'] at hx'
          rcases List.mem_append.mp hx' with hx' | hx'
          · exact Or.inr ((mem_routes_get hwf.1).mpr ⟨k, by rw [hg]; exact List.mem_append_left _ hx'⟩)
          · rcases List.mem_cons.mp hx' with hx' | hx'
            · exact Or.inl hx'
            · exact Or.inr ((mem_routes_get hwf.1).mpr
                ⟨k, by rw [hg]; exact List.mem_append_right _ (List.mem_cons_of_mem _ hx')⟩)
        · exact Or.inr ((mem_routes_get hwf.1).mpr ⟨k2, hx⟩)
      · intro x hx
        have hm := hwf.mem_get hx
        by_cases e2 : c.keyOf x.pay = k
        · rw [e2, hg] at hm
          rcases List.mem_append.mp hm with hm | hm
          · refine Or.inl ((mem_routes_set hwf.1).mpr (Or.inl (mem_sortG.mpr ?_)))
            rw [hg']; exact List.mem_append_left _ hm
          · rcases List.mem_cons.mp hm with hm | hm
            · subst hm
              exact Or.inr ⟨rfl, e2, hso, hnew⟩
            · refine Or.inl ((mem_routes_set hwf.1).mpr (Or.inl (mem_sortG.mpr ?_)))
              rw [hg']; exact List.mem_append_right _ (List.mem_cons_of_mem _ hm)
        · exact Or.inl ((mem_routes_set hwf.1).mpr (Or.inr ⟨_, e2, hm⟩))
      · refine (mem_routes_set hwf.1).mpr (Or.inl (mem_sortG.mpr ?_))
        rw [hg']; simp

/-- The entry a newer route displaces is the only stored route in that slot — so "the stored
    route from this origin" is well defined, and an `AddRoute` in an occupied slot is accepted
    exactly when it is newer than that entry. -/
theorem C10_replace_rule {c : Cfg K P} {self : Nat} {t : KTable K P} (hwf : WF c self t)
    (e old : Entry P) (hv : c.valid e.pay = true) (hp : self ∉ e.path)
    (hold : old ∈ routes t) (hk : c.keyOf old.pay = c.keyOf (stored c e).pay)
    (hs : sameSlot c.byHop old (stored c e) = true) :
    (addRoute c self t e).2 = newer (stored c e) old := by
  unfold addRoute
  rw [if_neg (by simp [hv]), if_neg (by simpa using hp)]
  dsimp only
  generalize stored c e = e' at *
  have hm := hwf.mem_get hold
  rw [hk] at hm
  have huniq : ∀ y ∈ get t (c.keyOf e'.pay), sameSlot c.byHop y e' = true → y = old := by
    intro y hy hys
    obtain ⟨hky, hyr⟩ := hwf.of_get hy
    refine hwf.slot_unique hyr hold (by rw [hky, hk]) ?_
    rw [sameSlot_iff] at hys hs ⊢
    rw [hys, hs]
  cases hr : replG c.byHop e' (get t (c.keyOf e'.pay)) with
  | none =>
    have := replG_none hr old hm
    rw [hs] at this; cases this
  | some o =>
    cases o with
    | none =>
      obtain ⟨pre, y, post, hg, -, hys, hyn⟩ := replG_refused hr
      have : y = old := huniq y (by rw [hg]; simp) hys
      subst this
      dsimp only; rw [hyn]
    | some g' =>
      obtain ⟨pre, y, post, hg, -, -, hys, hyn⟩ := replG_replaced hr
      have : y = old := huniq y (by rw [hg]; simp) hys
      subst this
      dsimp only; rw [hyn]

/-- **No self path**: after any history no stored route's path contains the local agent. -/
theorem C10_no_self_path (c : Cfg K P) (self : Nat) (ops : List (Op K P)) :
    ∀ r ∈ routes (run c self ops).tab, self ∉ r.path := by
  intro r hr
  have hwf := WF_run c self ops
  obtain ⟨kg, hkg, hm⟩ := mem_routes.mp hr
  exact (hwf.2 kg hkg).noself r hm

/-- **Disconnect is exact**: the routes after `RemoveRoutesFromPeer(p)` are exactly the routes
    whose next hop is not `p`, in their old order (any table, no hypothesis). -/
theorem C10_disconnect_exact (t : KTable K P) (p : Nat) :
    routes (removeFromPeer t p) = (routes t).filter (fun r => r.nextHop != p) := by
  unfold removeFromPeer
  rw [routes_filterT]
  rfl

/-- `fresh` spelled out -/
theorem fresh_iff (self now maxAge : Nat) (r : Entry P) :
    fresh self now maxAge r = true ↔ (r.origin = self ∨ now - r.born ≤ maxAge) := by
  simp [fresh]

/-- **Cleanup is exact**: the routes after `CleanupStaleRoutes` are the local ones and the fresh
    ones (`fresh_iff`), in their old order. -/
theorem C10_cleanup_exact (self now maxAge : Nat) (t : KTable K P) :
    routes (cleanupStale self now maxAge t) = (routes t).filter (fresh self now maxAge) := by
  unfold cleanupStale
  rw [routes_filterT]

/-- **Cleanup keeps local routes**, whatever their age. -/
theorem C10_cleanup_keeps_local (self now maxAge : Nat) (t : KTable K P) {r : Entry P}
    (hr : r ∈ routes t) (hl : r.origin = self) : r ∈ routes (cleanupStale self now maxAge t) := by
  rw [C10_cleanup_exact]
  exact List.mem_filter.mpr ⟨hr, (fresh_iff _ _ _ _).mpr (Or.inl hl)⟩

/-- **Withdrawal**: `RemoveRoute(key, origin)` removes one stored route of that key and origin
    (the first; the only one except in the agent table) and nothing else; it answers `false`
    and changes nothing when there is none. -/
theorem C10_remove_outcome {c : Cfg K P} {self : Nat} {t : KTable K P} (hwf : WF c self t)
    (k : K) (o : Nat) :
    let t' := (removeRoute t k o).1
    let ok := (removeRoute t k o).2
    (ok = false → t' = t ∧ ∀ x ∈ routes t, c.keyOf x.pay = k → x.origin ≠ o) ∧
    (ok = true → ∃ x ∈ routes t, c.keyOf x.pay = k ∧ x.origin = o ∧
        ∀ y, y ∈ routes t' ↔ (y ∈ routes t ∧ y ≠ x)) := by
  unfold removeRoute
  cases hr : removeG o (get t k) with
  | none =>
    dsimp only
    refine ⟨fun _ => ⟨rfl, ?_⟩, fun h => by cases h⟩
    intro x hx hkx
    have hm := hwf.mem_get hx
    rw [hkx] at hm
    exact removeG_none hr x hm
  | some g' =>
    obtain ⟨pre, x, post, hg, hg', -, hxo⟩ := removeG_some hr
    have hxm : x ∈ get t k := by rw [hg]; simp
    obtain ⟨hxk, hxr⟩ := hwf.of_get hxm
    have hne : get t k ≠ [] := by intro hn; rw [hn] at hxm; cases hxm
    have hnd : (get t k).Nodup := by
      have := (hwf.get_ok hne).slots
      exact List.Nodup.sublist (List.Sublist.refl _) (by
        rw [List.nodup_iff_pairwise_ne] at this ⊢
        exact (List.pairwise_map.mp this).imp (fun hne e => hne (by rw [e])))
    have hmem : ∀ y, y ∈ g' ↔ (y ∈ get t k ∧ y ≠ x) := by
      intro y
      rw [hg] at hnd ⊢
      rw [hg']
      have hx1 : x ∉ pre := by
        intro hm
        have := (List.nodup_append.mp hnd).2.2 x hm x (by simp)
        exact this rfl
      have hx2 : x ∉ post := (List.nodup_cons.mp (List.nodup_append.mp hnd).2.1).1
      constructor
      · intro hy
        rcases List.mem_append.mp hy with hy | hy
        · exact ⟨List.mem_append_left _ hy, fun e => hx1 (e ▸ hy)⟩
        · exact ⟨List.mem_append_right _ (List.mem_cons_of_mem _ hy), fun e => hx2 (e ▸ hy)⟩
      · rintro ⟨hy, hne⟩
        rcases List.mem_append.mp hy with hy | hy
        · exact List.mem_append_left _ hy
        · rcases List.mem_cons.mp hy with hy | hy
          · exact absurd hy hne
          · exact List.mem_append_right _ hy
    have hfin : ∀ (t'' : KTable K P), (∀ y, y ∈ routes t'' ↔ (y ∈ g' ∨ ∃ k2, k2 ≠ k ∧ y ∈ get t k2)) →
        ∀ y, y ∈ routes t'' ↔ (y ∈ routes t ∧ y ≠ x) := by
      intro t'' h y
      rw [h, hmem]
      constructor
      · rintro (⟨hy, hne⟩ | ⟨k2, e2, hy⟩)
        · exact ⟨(mem_routes_get hwf.1).mpr ⟨k, hy⟩, hne⟩
        · refine ⟨(mem_routes_get hwf.1).mpr ⟨k2, hy⟩, ?_⟩
          intro e; subst e
          exact e2 ((hwf.of_get hy).1.symm.trans hxk)
      · rintro ⟨hy, hne⟩
        have hm := hwf.mem_get hy
        by_cases e2 : c.keyOf y.pay = k
        · rw [e2] at hm; exact Or.inl ⟨hm, hne⟩
        · exact Or.inr ⟨_, e2, hm⟩
    cases g' with
    | nil =>
      dsimp only
      refine ⟨(fun h => by cases h), fun _ => ⟨x, hxr, hxk, hxo, hfin _ ?_⟩⟩
      intro y
      rw [mem_routes_del hwf.1]
      simp
    | cons z zs =>
      dsimp only
      refine ⟨(fun h => by cases h), fun _ => ⟨x, hxr, hxk, hxo, hfin _ ?_⟩⟩
      intro y
      exact mem_routes_set hwf.1

end generic

/-! ### the statement, for the four tables -/

/-- C10 for one table kind: after any history the table is well formed (so the theorems above
    apply to the next operation) and no stored path contains the local agent. -/
def C10_for {K P : Type} [DecidableEq K] (c : Cfg K P) : Prop :=
  ∀ (self : Nat) (ops : List (Op K P)),
    WF c self (run c self ops).tab ∧ ∀ r ∈ routes (run c self ops).tab, self ∉ r.path

def C10_statement : Prop :=
  C10_for cidrCfg ∧ (∀ S, C10_for (MM.C09.domCfg S)) ∧ C10_for MM.C09.fwdCfg ∧ C10_for MM.C09.agCfg

private theorem C10_for_any {K P : Type} [DecidableEq K] (c : Cfg K P) : C10_for c :=
  fun self ops => ⟨WF_run c self ops, C10_no_self_path c self ops⟩

/-- **C10 holds** on all four tables: every reachable table is well formed — hence
    `C10_add_outcome`, `C10_replace_rule`, `C10_remove_outcome` apply at every step, and
    `C10_disconnect_exact`, `C10_cleanup_exact` hold unconditionally. -/
theorem C10_holds : C10_statement :=
  ⟨C10_for_any cidrCfg, fun S => C10_for_any (MM.C09.domCfg S), C10_for_any MM.C09.fwdCfg, C10_for_any MM.C09.agCfg⟩

/-! ### refinement: the tables are total maps `key → metric-sorted slice`

  `view t k` is the slice stored under `k` (empty when absent); the first element of `view t k`
  is the "best route" of the key.  Every table operation acts on the view as the corresponding
  operation on functions (`aAdd`, `aRemove`, `aFilter`), and every lookup is a function of the view:
  `best`, `domLookup`, `fwdLookup`, `agLookup` are defined through `get`, and the CIDR lookup is
  characterised on the view by `C08_lookup_on_view`.  C08–C10 are statements about this map. -/

section refinement
variable {K P : Type} [DecidableEq K]

/-- the table as a total function -/
def view (t : KTable K P) : K → Group P := get t

/-- point update of a function -/
def upd (F : K → Group P) (k : K) (g : Group P) : K → Group P := fun k2 => if k2 = k then g else F k2

/-- `AddRoute` on the abstract map -/
def aAdd (c : Cfg K P) (self : Nat) (F : K → Group P) (e : Entry P) : K → Group P :=
  if !c.valid e.pay then F
  else if e.path.contains self then F
  else
    let k := c.keyOf (stored c e).pay
    match replG c.byHop (stored c e) (F k) with
    | some none => F
    | some (some g') => upd F k (sortG g')
    | none => upd F k (sortG (F k ++ [stored c e]))

/-- `RemoveRoute` on the abstract map -/
def aRemove (F : K → Group P) (k : K) (o : Nat) : K → Group P :=
  match removeG o (F k) with
  | none => F
  | some g' => upd F k g'

/-- `RemoveRoutesFromPeer` / `CleanupStaleRoutes` on the abstract map -/
def aFilter (keep : Entry P → Bool) (F : K → Group P) : K → Group P := fun k => (F k).filter keep

theorem view_addRoute (c : Cfg K P) (self : Nat) (t : KTable K P) (e : Entry P) :
    view (addRoute c self t e).1 = aAdd c self (view t) e := by
  unfold addRoute aAdd view
  by_cases hv : (!c.valid e.pay) = true
  · rw [if_pos hv, if_pos hv]
  rw [if_neg hv, if_neg hv]
  by_cases hp : e.path.contains self = true
  · rw [if_pos hp, if_pos hp]
  rw [if_neg hp, if_neg hp]
  dsimp only
  cases replG c.byHop (stored c e) (get t (c.keyOf (stored c e).pay)) with
  | none => funext k2; simp only [get_set, upd]
  | some o =>
    cases o with
    | none => rfl
    | some g' => funext k2; simp only [get_set, upd]

theorem view_removeRoute (t : KTable K P) (k : K) (o : Nat) :
    view (removeRoute t k o).1 = aRemove (view t) k o := by
  unfold removeRoute aRemove view
  cases removeG o (get t k) with
  | none => rfl
  | some g' =>
    cases g' with
    | nil => funext k2; simp only [get_del, upd]
    | cons x xs => funext k2; simp only [get_set, upd]

theorem view_filterT {t : KTable K P} (hn : (keys t).Nodup) (keep : Entry P → Bool) :
    view (filterT keep t) = aFilter keep (view t) := by
  funext k; exact get_filterT hn k

/-- abstract state: clock and map -/
structure AState (K P : Type) where
  now : Nat
  map : K → Group P

/-- one operation on the abstract map -/
def astep (c : Cfg K P) (self : Nat) (s : AState K P) : Op K P → AState K P
  | .add e => { s with map := aAdd c self s.map { e with born := s.now } }
  | .remove k o => { s with map := aRemove s.map k o }
  | .disconnect p => { s with map := aFilter (fun r => !(r.nextHop == p)) s.map }
  | .tick n => { s with now := s.now + n }
  | .cleanup a => { s with map := aFilter (fresh self s.now a) s.map }

def arun (c : Cfg K P) (self : Nat) (ops : List (Op K P)) : AState K P :=
  ops.foldl (astep c self) ⟨0, fun _ => []⟩

/-- **Refinement**: after any history the association-list table of the model (= the Go map) *is*
    the abstract map the same history produces, and the clocks agree. -/
theorem C10_refinement (c : Cfg K P) (self : Nat) (ops : List (Op K P)) :
    view (run c self ops).tab = (arun c self ops).map ∧ (run c self ops).now = (arun c self ops).now := by
  unfold run arun
  suffices h : ∀ (s : State K P) (a : AState K P), WF c self s.tab → view s.tab = a.map → s.now = a.now →
      view (ops.foldl (step c self) s).tab = (ops.foldl (astep c self) a).map ∧
      (ops.foldl (step c self) s).now = (ops.foldl (astep c self) a).now by
    exact h State.init ⟨0, fun _ => []⟩ (WF_nil c self) rfl rfl
  induction ops with
  | nil => intro s a _ hv hn; exact ⟨hv, hn⟩
  | cons op rest ih =>
    intro s a hwf hv hn
    simp only [List.foldl_cons]
    refine ih _ _ (WF_step hwf op) ?_ ?_
    · cases op with
      | add e => simp only [step, astep]; rw [view_addRoute, hv, hn]
      | remove k o => simp only [step, astep]; rw [view_removeRoute, hv]
      | disconnect p => simp only [step, astep, removeFromPeer]; rw [view_filterT hwf.1, hv]
      | tick n => simpa [step, astep] using hv
      | cleanup m => simp only [step, astep, cleanupStale]; rw [view_filterT hwf.1, hv, hn]
    · cases op <;> simp [step, astep, hn]

/-- every slice of the view is what `WF` says: metric-sorted, one entry per slot, of that key -/
theorem view_wf {c : Cfg K P} {self : Nat} {t : KTable K P} (h : WF c self t) (k : K)
    (hne : view t k ≠ []) : GroupOK c self k (view t k) := h.get_ok hne

/-- the "best route" of a key is the first entry of its slice -/
theorem best_eq_view (t : KTable K P) (k : K) : best t k = (view t k).head? := rfl

end refinement

/-- The CIDR lookup read on the abstract map: the answer sits in the slice of its own key, contains
    the address, and no slice holds a containing route with a longer prefix, or with the same prefix
    and a lower metric; nothing is answered iff no slice holds a containing route. -/
theorem C08_lookup_on_view {self : Nat} {t : CTable} (hwf : WF cidrCfg self t) (ip : IPAddr) :
    match lookup t ip with
    | some r => r ∈ view t (eff r.pay) ∧ contains r.pay ip = true ∧
        ∀ k, ∀ r' ∈ view t k, contains r'.pay ip = true →
          plen r'.pay ≤ plen r.pay ∧ (plen r'.pay = plen r.pay → r.metric ≤ r'.metric)
    | none => ∀ k, ∀ r' ∈ view t k, contains r'.pay ip = false := by
  have h := C08_lookup_correct hwf ip
  cases hl : lookup t ip with
  | none =>
    rw [hl] at h
    intro k r' hr'
    exact h r' ((mem_routes_get hwf.1).mpr ⟨k, hr'⟩)
  | some r =>
    rw [hl] at h
    refine ⟨hwf.mem_get h.1, h.2.1, ?_⟩
    intro k r' hr'
    exact h.2.2 r' ((mem_routes_get hwf.1).mpr ⟨k, hr'⟩)

/-! ### the Manager wrappers (CIDR part) -/

open MM.C10 in
/-- Every `Manager` entry point (`AddLocalRoute`, `RemoveLocalRoute`, `ProcessRouteAdvertise`,
    `ProcessRouteWithdraw`, `HandlePeerDisconnect`, `CleanupStaleRoutes`) keeps the CIDR table
    well formed: each is one table operation, so all the rules above apply to it. -/
theorem C10_manager_inv {self : Nat} {m : Mgr} (h : WF cidrCfg self m.st.tab) :
    (∀ n metric, WF cidrCfg self (m.addLocal self n metric).1.st.tab) ∧
    (∀ n, WF cidrCfg self (m.removeLocal self n).1.st.tab) ∧
    (∀ f o s p n metric, WF cidrCfg self (m.advertise self f o s p n metric).1.st.tab) ∧
    (∀ o n, WF cidrCfg self (m.withdraw o n).1.st.tab) ∧
    (∀ p, WF cidrCfg self (m.disconnect p).st.tab) ∧
    (∀ a, WF cidrCfg self (m.cleanup self a).st.tab) := by
  refine ⟨?_, ?_, ?_, ?_, ?_, ?_⟩
  · intro n metric; exact WF_addRoute h _
  · intro n
    unfold Mgr.removeLocal
    dsimp only
    split
    · exact h
    · exact WF_removeRoute h _ _
  · intro f o s p n metric; exact WF_addRoute h _
  · intro o n; exact WF_removeRoute h _ _
  · intro p; exact WF_filterT h _
  · intro a; exact WF_filterT h _

/-! ### non-vacuity -/

private def e1 (o m s : Nat) (path : List Nat) : Entry Nat := ⟨7, o, o, m, s, path, 0⟩

/-- forward-style table (`agCfg` keys by the payload): same sequence + higher metric refused,
    same sequence + lower metric accepted, older sequence refused, self in path refused,
    disconnect and cleanup behave as stated. -/
example :
    let t0 := (run MM.C09.agCfg 1 [.add (e1 2 5 3 [2])]).tab
    (addRoute MM.C09.agCfg 1 t0 (e1 2 6 3 [2])).2 = false ∧
    (addRoute MM.C09.agCfg 1 t0 (e1 2 4 3 [2])).2 = true ∧
    (addRoute MM.C09.agCfg 1 t0 (e1 2 0 2 [2])).2 = false ∧
    (addRoute MM.C09.agCfg 1 t0 (e1 2 9 4 [2])).2 = true ∧
    (addRoute MM.C09.agCfg 1 t0 (e1 3 1 9 [3, 1])).2 = false ∧
    routes (removeFromPeer t0 2) = [] ∧
    routes (cleanupStale 1 10 2 (run MM.C09.agCfg 1 [.add (e1 2 5 3 [2]), .add (e1 1 5 3 [])]).tab)
      = [e1 1 5 3 []] := by decide

/-- hypotheses of `C10_add_outcome` / `C10_remove_outcome` (`WF`) and of `C10_replace_rule` (a valid
    argument without the local agent in its path, and a stored route in its slot) are met by a
    concrete table: agent 7 reached through next hops 2 and 3, an update arriving through 2. -/
example :
    let t := (run MM.C09.agCfg 1 [.add ⟨7, 2, 7, 3, 1, [2, 7], 0⟩, .add ⟨7, 3, 7, 2, 1, [3, 7], 0⟩]).tab
    let e : Entry Nat := ⟨7, 2, 7, 1, 1, [2, 7], 0⟩
    let old : Entry Nat := ⟨7, 2, 7, 3, 1, [2, 7], 0⟩
    WF MM.C09.agCfg 1 t ∧ MM.C09.agCfg.valid e.pay = true ∧ 1 ∉ e.path ∧ old ∈ routes t ∧
    MM.C09.agCfg.keyOf old.pay = MM.C09.agCfg.keyOf (stored MM.C09.agCfg e).pay ∧
    sameSlot MM.C09.agCfg.byHop old (stored MM.C09.agCfg e) = true ∧
    (addRoute MM.C09.agCfg 1 t e).2 = true ∧ (routes t).length = 2 :=
  ⟨WF_run _ _ _, by decide, by decide, by decide, by decide, by decide, by decide, by decide⟩

/-- hypothesis of `C10_manager_inv`: a manager whose table is not empty -/
example :
    let m := ((({} : MM.C10.Mgr).addLocal 1 ⟨4, 0x0a010203, 8, 32⟩ 5).1.advertise 1 2 3 1 [2, 3] ⟨4, 0x0a000000, 8, 32⟩ 65535).1
    WF cidrCfg 1 m.st.tab ∧ (routes m.st.tab).map (·.metric) = [0, 5] := by
  refine ⟨?_, by decide⟩
  have h1 := (C10_manager_inv (self := 1) (m := {}) (WF_nil _ _)).1 ⟨4, 0x0a010203, 8, 32⟩ 5
  exact (C10_manager_inv h1).2.2.1 2 3 1 [2, 3] ⟨4, 0x0a000000, 8, 32⟩ 65535

/-- the refinement on a concrete history: same map, pointwise -/
example :
    let ops : List (Op Nat Nat) := [.add ⟨7, 2, 7, 3, 1, [2, 7], 0⟩, .tick 3, .add ⟨7, 3, 7, 2, 1, [3, 7], 0⟩,
      .cleanup 2, .remove 7 7]
    (arun MM.C09.agCfg 1 ops).map 7 = [] ∧ view (run MM.C09.agCfg 1 ops).tab 7 = [] ∧
    (arun MM.C09.agCfg 1 (ops.take 3)).map 7 = view (run MM.C09.agCfg 1 (ops.take 3)).tab 7 := by decide

end MM.C08
