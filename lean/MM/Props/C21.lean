/-
  C21 — SOCKS5 never serves an unauthenticated client when authentication is enabled.

  "If SOCKS5 authentication is enabled, no CONNECT, UDP ASSOCIATE or ICMP command is executed for
   a client that has not presented credentials matching a configured user.  This holds for any
   client byte sequence, over TCP or WebSocket, and for any user list, including an empty one or
   users without a usable password."

  Model: MM/Model/C21.lean (configuration → authenticator list → handler of MM/Model/C23.lean),
  of the code AS FIXED by fixes/C21-auth-enabled-no-users.patch.  Before the fix
  `CreateAuthenticators` returned an empty list for "enabled, no usable user" and `NewHandler`
  replaced it by no-authentication (witness kept in corpus/C21 and known/C21.json).

  `bc` (bcrypt.CompareHashAndPassword == nil) is an arbitrary predicate: no hypothesis on it is
  needed.  "Command executed" = the handler's action is not `none` (dial / UDP association /
  ICMP session), for every environment `env`.
-/
import MM.Lemmas.C21

namespace MM.C21
open MM MM.C23

/-- With authentication enabled the running handler has exactly one authenticator: username /
    password over the configured store — for EVERY user list. -/
theorem enabled_auths (bc : Bytes → Bytes → Bool) (cfg : Cfg) (h : cfg.enabled = true) :
    newHandlerAuths (serverAuths (buildAuth bc cfg)) = [.userPass (credStore bc cfg)] := by
  unfold buildAuth createAuthenticators credStore serverAuths
  simp only [h, Bool.not_true, Bool.false_eq_true, if_false, if_true]
  by_cases hh : (hashedUsers cfg.users).isEmpty = true
  · simp [hh, newHandlerAuths]
  · simp [hh, newHandlerAuths]

/-- A pair accepted by the configured store belongs to a configured user whose password it matches. -/
theorem credStore_valid (bc : Bytes → Bytes → Bool) (cfg : Cfg) (u p : Bytes)
    (h : credStore bc cfg u p = true) :
    ∃ usr ∈ cfg.users, usr.name = u ∧ userValid bc usr p := by
  unfold credStore at h
  by_cases hh : (hashedUsers cfg.users).isEmpty = true
  · simp only [hh, Bool.not_true, Bool.false_eq_true, if_false] at h
    unfold staticValid at h
    cases hl : lookup (plainUsers cfg.users) u with
    | none => simp [hl] at h
    | some s =>
      simp only [hl, beq_iff_eq] at h
      have hm := lookup_some hl
      unfold plainUsers at hm
      simp only [List.mem_map, List.mem_filter, decide_eq_true_eq] at hm
      obtain ⟨usr, ⟨hmem, hhash, hpw⟩, heq⟩ := hm
      injection heq with hn hs
      refine ⟨usr, hmem, hn, ?_⟩
      unfold userValid
      rw [if_neg (by simp [hhash])]
      exact ⟨hpw, by rw [hs, h]⟩
  · simp only [hh, Bool.not_false, if_true] at h
    unfold hashedValid at h
    cases hl : lookup (hashedUsers cfg.users) u with
    | none => simp [hl] at h
    | some hsh =>
      simp only [hl] at h
      have hm := lookup_some hl
      unfold hashedUsers at hm
      simp only [List.mem_map, List.mem_filter, decide_eq_true_eq] at hm
      obtain ⟨usr, ⟨hmem, hhash⟩, heq⟩ := hm
      injection heq with hn hs
      refine ⟨usr, hmem, hn, ?_⟩
      unfold userValid
      rw [if_pos hhash, hs]
      exact h

/-- The statement of C21 for the TCP listener. -/
def C21_statement : Prop :=
  ∀ (bc : Bytes → Bytes → Bool) (cfg : Cfg) (env : Env) (inp : Bytes),
    cfg.enabled = true →
    (serveTCP bc cfg env inp).action ≠ .none →
    ∃ name pw, presented inp name pw ∧ ∃ u ∈ cfg.users, u.name = name ∧ userValid bc u pw

/-- Core: with auth enabled, an executed command means the stream presented credentials that the
    configured store accepted. -/
theorem handle_enabled (bc : Bytes → Bytes → Bool) (cfg : Cfg) (env : Env) (inp : Bytes)
    (hen : cfg.enabled = true)
    (hact : (handle (agentEnv bc cfg env) inp).action ≠ .none) :
    ∃ name pw, presented inp name pw ∧ credStore bc cfg name pw = true ∧
      (handle (agentEnv bc cfg env) inp).creds = some (name, pw) := by
  unfold handle at hact ⊢
  have hauths : newHandlerAuths (agentEnv bc cfg env).auths = [.userPass (credStore bc cfg)] :=
    enabled_auths bc cfg hen
  rw [hauths] at hact ⊢
  dsimp only at hact ⊢
  cases hr : (authenticate [.userPass (credStore bc cfg)] inp).rest with
  | none => rw [hr] at hact; exact absurd rfl hact
  | some rest =>
    obtain ⟨methods, q, hinp, hml, hup, hcreds⟩ := authenticate_userPass_rest hr
    obtain ⟨u, p, hval, hc, hq, hu0, hu1, hp1⟩ := userPassAuth_rest hup
    refine ⟨u, p, ⟨methods, rest, ?_, hml, hu0, hu1, hp1⟩, hval, ?_⟩
    · rw [hinp, hq]
    · dsimp only
      rw [hcreds, hc]

theorem C21_holds : C21_statement := by
  intro bc cfg env inp hen hact
  obtain ⟨name, pw, hpres, hval, _⟩ := handle_enabled bc cfg env inp hen hact
  exact ⟨name, pw, hpres, credStore_valid bc cfg name pw hval⟩

/-- The same over WebSocket, whatever HTTP credentials accompany the upgrade request. -/
theorem C21_ws (bc : Bytes → Bytes → Bool) (cfg : Cfg) (env : Env)
    (basic : Option (Bytes × Bytes)) (inp : Bytes) (hen : cfg.enabled = true)
    (hact : (serveWS bc cfg env basic inp).action ≠ .none) :
    ∃ name pw, presented inp name pw ∧ ∃ u ∈ cfg.users, u.name = name ∧ userValid bc u pw := by
  unfold serveWS at hact
  by_cases hg : wsGate bc cfg basic = true
  · rw [if_pos hg] at hact
    exact C21_holds bc cfg env inp hen hact
  · rw [if_neg hg] at hact
    exact absurd rfl hact

/-- … and the WebSocket upgrade itself was made with HTTP Basic credentials of a configured user. -/
theorem C21_ws_gate (bc : Bytes → Bytes → Bool) (cfg : Cfg) (env : Env)
    (basic : Option (Bytes × Bytes)) (inp : Bytes) (hen : cfg.enabled = true)
    (hact : (serveWS bc cfg env basic inp).action ≠ .none) :
    ∃ name pw, basic = some (name, pw) ∧ ∃ u ∈ cfg.users, u.name = name ∧ userValid bc u pw := by
  unfold serveWS at hact
  by_cases hg : wsGate bc cfg basic = true
  · unfold wsGate at hg
    rw [if_pos hen] at hg
    cases basic with
    | none => simp at hg
    | some np =>
      obtain ⟨n, p⟩ := np
      exact ⟨n, p, rfl, credStore_valid bc cfg n p hg⟩
  · rw [if_neg hg] at hact
    exact absurd rfl hact

/-- Whatever the WebSocket listener's HTTP-level gate is — no credential store at all, the same
    users, other users — and whatever the upgrade request's Authorization header says: with
    authentication enabled on the handler, an executed command means valid RFC 1929 credentials were
    presented ON THE SOCKS5 STREAM. (Nothing the HTTP layer saw may stand in for them.) -/
theorem C21_ws_any_gate (bc : Bytes → Bytes → Bool) (cfg : Cfg) (env : Env)
    (store : Option (Bytes → Bytes → Bool)) (basic : Option (Bytes × Bytes)) (inp : Bytes)
    (hen : cfg.enabled = true) (r : Result)
    (hr : serveWSWith bc cfg env store basic inp = some r) (hact : r.action ≠ .none) :
    ∃ name pw, presented inp name pw ∧ ∃ u ∈ cfg.users, u.name = name ∧ userValid bc u pw := by
  unfold serveWSWith at hr
  by_cases hg : httpGate store basic = true
  · rw [if_pos hg] at hr
    injection hr with hr
    subst hr
    exact C21_holds bc cfg env inp hen hact
  · rw [if_neg hg] at hr
    cases hr

/-- The configurations the unit tests never try: no user that could log in (empty list, or only
    entries with neither password nor hash) ⇒ nothing is ever executed, for any client bytes. -/
theorem C21_no_usable_user (bc : Bytes → Bytes → Bool) (cfg : Cfg) (env : Env) (inp : Bytes)
    (hen : cfg.enabled = true)
    (hnone : ∀ u ∈ cfg.users, u.hash = [] ∧ u.password = []) :
    (serveTCP bc cfg env inp).action = .none := by
  apply Classical.byContradiction
  intro hact
  obtain ⟨_, pw, _, u, hu, _, hv⟩ := C21_holds bc cfg env inp hen hact
  obtain ⟨h1, h2⟩ := hnone u hu
  unfold userValid at hv
  rw [if_neg (by simp [h1])] at hv
  exact hv.1 h2

/-! ### non-vacuity: a configured user who presents the right password IS served -/

def exCfg : Cfg := ⟨true, [⟨[0x61], [0x70, 0x77], []⟩]⟩           -- user "a", password "pw"
def exEnv : Env := ⟨[], .ok [10, 0, 0, 7] 40000, false, .absent, .absent, [127, 0, 0, 1]⟩
def exStream : Bytes :=
  [5, 1, 2] ++ [1, 1, 0x61, 2, 0x70, 0x77] ++ [5, 1, 0, 1, 127, 0, 0, 1, 0, 80]

example : (serveTCP (fun _ _ => false) exCfg exEnv exStream).action =
    .dial [0x31, 0x32, 0x37, 0x2e, 0x30, 0x2e, 0x30, 0x2e, 0x31, 0x3a, 0x38, 0x30] := by decide

/-! ### the equality-level reading and bcrypt's 72-byte key (open finding C21-bcrypt-equivalent-password)

  `C21_holds` reads "credentials matching a configured user" as: the configured hash VERIFIES the
  presented password.  Read as "the presented password IS the one the hash was made from", the
  statement fails for bcrypt itself: it only looks at the first 72 bytes of `password ++ [0]`
  repeated, so for a user whose password has 72 bytes any longer password with that prefix is
  accepted, and `pw ++ [0] ++ pw` is accepted for `pw`. -/

/-- Equality-level statement for hashed users, with the concrete bcrypt model. -/
def C21_strict_statement : Prop :=
  ∀ (name pw : Bytes) (env : Env) (inp : Bytes),
    (serveTCP bcModel ⟨true, [⟨name, [], hashOf pw⟩]⟩ env inp).action ≠ .none →
    ∃ n p, (serveTCP bcModel ⟨true, [⟨name, [], hashOf pw⟩]⟩ env inp).creds = some (n, p) ∧ p = pw

def pw72 : Bytes := List.replicate 72 0x70

/-- Witness: user "a" with a 72-byte password; the client presents that password plus one more
    byte and is served. -/
theorem C21_strict_refuted : ¬ C21_strict_statement := by
  intro h
  have := h [0x61] pw72 exEnv
    ([5, 1, 2] ++ ([1, 1, 0x61, 73] ++ pw72 ++ [0x78]) ++ [5, 1, 0, 1, 127, 0, 0, 1, 0, 80]) (by decide)
  obtain ⟨n, p, hc, hp⟩ := this
  revert hc hp
  generalize hcr : (serveTCP bcModel ⟨true, [⟨[0x61], [], hashOf pw72⟩]⟩ exEnv
    ([5, 1, 2] ++ ([1, 1, 0x61, 73] ++ pw72 ++ [0x78]) ++ [5, 1, 0, 1, 127, 0, 0, 1, 0, 80])).creds = cr
  have : cr = some ([0x61], pw72 ++ [0x78]) := by rw [← hcr]; decide
  intro hc hp
  rw [this] at hc
  injection hc with hc
  injection hc with _ h2
  rw [← h2] at hp
  exact absurd hp (by decide)

/-- The NUL form: "ab" is configured, "ab\0ab" is accepted. -/
example : bcModel (hashOf [0x61, 0x62]) [0x61, 0x62, 0, 0x61, 0x62] = true := by decide
/-- One byte short of the limit there is no such slack: a 71-byte password plus a byte is refused. -/
example : bcModel (hashOf (List.replicate 71 0x70)) (List.replicate 71 0x70 ++ [0x78]) = false := by decide

/-- Wrong password, or the no-auth method: refused. -/
example : (serveTCP (fun _ _ => false) exCfg exEnv
    ([5, 1, 2] ++ [1, 1, 0x61, 2, 0x70, 0x78] ++ [5, 1, 0, 1, 127, 0, 0, 1, 0, 80])).action = .none := by decide
example : (serveTCP (fun _ _ => false) exCfg exEnv
    ([5, 1, 0] ++ [5, 1, 0, 1, 127, 0, 0, 1, 0, 80])).replies = [[5, 0xFF]] := by decide

/-- The formerly failing configuration: enabled, no users, client offers "no authentication". -/
example :
    let r := serveTCP (fun _ _ => false) ⟨true, []⟩ exEnv ([5, 1, 0] ++ [5, 1, 0, 1, 127, 0, 0, 1, 0, 80])
    r.replies = [[5, 0xFF]] ∧ r.action = .none := by decide

end MM.C21
