import MM.Props.C14
import MM.Props.C11

/-
  C12 (convergence) — in a stable topology with reliable links every agent connected to the origin
  handles a fresh announcement and holds the announced routes.

  Setting: at state `s0` origin `o` announces; its sequence number `sq = counter + 1` is fresh (no
  seen cache holds the key, no frame in flight carries it — both are theorems for histories without
  third-party replays, see `C12_converges_run`); no hop limit.  Then follows ANY schedule of
  deliveries, duplicate deliveries and further announcements (`stable` ops: no connect, no replay,
  no loss, no expiry, no stale cleanup).  Fairness / reliability hypothesis: the schedule is long
  enough that no frame of this announcement is left in flight.

  `C12_converges`: then every agent reachable from `o` over the links has the key in its seen cache
  (it handled the announcement) and holds, for every CIDR / domain / forward route `o` advertises, a
  copy with origin `o` and a sequence number ≥ `sq`.

  The proof is the invariant `Conv`: the set `Marked` = {o} ∪ {agents that cached the key} is closed
  under links up to frames still in flight (`closed`).
-/
namespace MM.C12
open MM.C11

def keyOf (f : Flight) : Node × Nat := (f.adv.origin, f.adv.seq)

/-- Ops of a stable, reliable period. -/
def stable : Op → Bool
  | .deliver _ _ _ => true
  | .dup _ _ _ => true
  | .announce _ _ => true
  | .dump => true
  | _ => false

def Marked (t : Net) (o : Node) (k : Node × Nat) (x : Node) : Prop := x = o ∨ k ∈ (t.nodes x).seen

/-- `e` is a copy of route `r` of origin `o` at least as recent as announcement `sq`. -/
def CopyOf (o sq : Nat) (r : RAd) (e : Entry) : Prop :=
  e.kind = r.kind ∧ e.key = r.key ∧ e.origin = o ∧ sq ≤ e.seq

/-- `e` is a presence route for agent `key` of origin `o` at least as recent as announcement `sq`. -/
def CopyA (o sq key : Nat) (e : Entry) : Prop := e.key = key ∧ e.origin = o ∧ sq ≤ e.seq

structure FrameInv (t : Net) (o sq : Nat) (L : List RAd) (f : Flight) : Prop where
  src : Marked t o (o, sq) f.src
  seenBy : ∀ y, y ∈ f.adv.seenBy → Marked t o (o, sq) y
  dst : f.dst ∉ f.adv.seenBy
  path : ∀ y, y ∈ f.adv.path → y ∈ f.adv.seenBy
  routes : ∀ r, r ∈ L → ∃ r', r' ∈ f.adv.routes ∧ r'.kind = r.kind ∧ r'.key = r.key
  sbNodup : f.adv.seenBy.Nodup
  sbRange : ∀ y, y ∈ f.adv.seenBy → y < t.n
  pathLen : f.adv.path.length ≤ f.adv.seenBy.length

/-- Pigeonhole: a duplicate-free list of agents below `n` has at most `n` entries. -/
theorem nodup_length_le (n : Nat) : ∀ (l : List Nat), l.Nodup → (∀ x, x ∈ l → x < n) → l.length ≤ n := by
  induction n with
  | zero =>
    intro l _ h
    cases l with
    | nil => simp
    | cons x t => exact absurd (h x List.mem_cons_self) (Nat.not_lt_zero _)
  | succ n ih =>
    intro l hnd h
    have h1 : (l.filter (fun x => x != n)).length ≤ n := by
      apply ih _ (hnd.filter _)
      intro x hx
      rcases List.mem_filter.1 hx with ⟨hx1, hx2⟩
      have := h x hx1
      have : x ≠ n := by simpa using hx2
      omega
    by_cases hn : n ∈ l
    · have := filter_drop_one l (fun _ => true) n hnd hn rfl
      have hft : l.filter (fun _ => true) = l := List.filter_eq_self.2 (fun _ _ => rfl)
      simp only [Bool.true_and] at this
      rw [hft] at this
      omega
    · have : l.filter (fun x => x != n) = l := by
        apply List.filter_eq_self.2
        intro x hx
        have : x ≠ n := fun h' => hn (h' ▸ hx)
        simpa using this
      rw [this] at h1; omega

structure Conv (lk : Node → Node → Bool) (n o sq : Nat) (L : List RAd) (t : Net) : Prop where
  n_eq : t.n = n
  mh : ∀ x, t.maxHops x = 0
  links : ∀ a b, linked t a b = lk a b
  ctr : sq ≤ (t.nodes o).seq
  nowd : ∀ f, f ∈ t.flight → f.adv.wd = false
  frames : ∀ f, f ∈ t.flight → keyOf f = (o, sq) → FrameInv t o sq L f
  closed : ∀ x, Marked t o (o, sq) x → ∀ p, lk x p = true →
    Marked t o (o, sq) p ∨ ∃ f, f ∈ t.flight ∧ keyOf f = (o, sq) ∧ f.src = x ∧ f.dst = p
  stored : ∀ x, (o, sq) ∈ (t.nodes x).seen → ∀ r, r ∈ L → r.kind ≠ 3 →
    ∃ e, e ∈ (t.nodes x).tab ∧ CopyOf o sq r e
  storedA : ∀ x, (o, sq) ∈ (t.nodes x).seen → ∀ r, r ∈ L → r.kind = 3 →
    ∃ e, e ∈ (t.nodes x).agents ∧ CopyA o sq r.key e

/-! ### table copies survive later updates -/

theorem storeRoute_keeps_copy {self frm clock : Nat} {a : Adv} {st : NodeSt} {r0 : RAd} {o sq : Nat} {r : RAd}
    (h : ∃ e, e ∈ st.tab ∧ CopyOf o sq r e) :
    ∃ e, e ∈ (storeRoute self frm a clock st r0).tab ∧ CopyOf o sq r e := by
  obtain ⟨e, he, hc⟩ := h
  unfold storeRoute
  split
  · exact ⟨e, he, hc⟩
  · split
    · exact ⟨e, he, hc⟩
    · -- replaced only by a same-key entry that is newer
      have aux : ∀ (l : List Entry), e ∈ l →
          ∃ e', e' ∈ addTab (mkEntry r0 a frm clock) l ∧ CopyOf o sq r e' := by
        intro l
        induction l with
        | nil => intro h; cases h
        | cons x t ih =>
          intro hx
          unfold addTab
          by_cases hk : sameKey (mkEntry r0 a frm clock) x = true
          · rw [if_pos hk]
            by_cases hn : newer (mkEntry r0 a frm clock) x = true
            · rw [if_pos hn]
              rcases List.mem_cons.1 hx with hx | hx
              · subst hx
                refine ⟨_, List.mem_cons_self, ?_⟩
                simp only [sameKey, Bool.and_eq_true, decide_eq_true_eq] at hk
                simp only [newer, Bool.or_eq_true, decide_eq_true_eq, Bool.and_eq_true] at hn
                obtain ⟨h1, h2, h3, h4⟩ := hc
                refine ⟨hk.1.1.symm.trans h1, hk.1.2.symm.trans h2, hk.2.symm.trans h3, ?_⟩
                rcases hn with hn | hn <;> omega
              · exact ⟨e, List.mem_cons_of_mem _ hx, hc⟩
            · rw [if_neg hn]; exact ⟨e, hx, hc⟩
          · rw [if_neg hk]
            rcases List.mem_cons.1 hx with hx | hx
            · exact ⟨e, hx ▸ List.mem_cons_self, hc⟩
            · obtain ⟨e', he', hc'⟩ := ih hx
              exact ⟨e', List.mem_cons_of_mem _ he', hc'⟩
      exact aux st.tab he

theorem foldl_storeRoute_keeps_copy {self frm clock : Nat} {a : Adv} (rs : List RAd) (st : NodeSt)
    {o sq : Nat} {r : RAd} (h : ∃ e, e ∈ st.tab ∧ CopyOf o sq r e) :
    ∃ e, e ∈ (rs.foldl (storeRoute self frm a clock) st).tab ∧ CopyOf o sq r e := by
  induction rs generalizing st with
  | nil => exact h
  | cons r0 t ih => simp only [List.foldl_cons]; exact ih _ (storeRoute_keeps_copy h)

/-- Whatever `handle` does, an existing copy stays or is replaced by a more recent one. -/
theorem handle_keeps_copy {mh : Nat} {peers : List Node} {self frm clock : Nat} {a : Adv} {st : NodeSt}
    {o sq : Nat} {r : RAd} (hwd : a.wd = false) (h : ∃ e, e ∈ st.tab ∧ CopyOf o sq r e) :
    ∃ e, e ∈ (handle mh peers self frm clock a st).1.tab ∧ CopyOf o sq r e := by
  unfold handle
  split
  · exact h
  · dsimp only
    split
    · exact h
    · rw [if_neg (by simp [hwd])]
      split
      · exact h
      · have := foldl_storeRoute_keeps_copy (self := self) (frm := frm) (clock := clock) (a := a) a.routes
          { st with seen := (a.origin, a.seq) :: st.seen } h
        split
        · exact this
        · split <;> exact this

/-- Storing an advertised (non-presence) route leaves a copy at least as recent as the advertisement. -/
theorem foldl_storeRoute_stores {self frm clock : Nat} {a : Adv} (hp : self ∉ a.path)
    (rs : List RAd) (st : NodeSt) :
    ∀ r, r ∈ rs → r.kind ≠ 3 →
      ∃ e, e ∈ (rs.foldl (storeRoute self frm a clock) st).tab ∧ CopyOf a.origin a.seq r e := by
  induction rs generalizing st with
  | nil => intro r hr; cases hr
  | cons r0 t ih =>
    intro r hr hk
    simp only [List.foldl_cons]
    rcases List.mem_cons.1 hr with hr | hr
    · subst hr
      apply foldl_storeRoute_keeps_copy
      unfold storeRoute
      rw [if_neg hp, if_neg hk]
      obtain ⟨y, hy, hsk, hyn⟩ := MM.C14.addTab_has (mkEntry r a frm clock) st.tab
      refine ⟨y, hy, ?_⟩
      simp only [sameKey, Bool.and_eq_true, decide_eq_true_eq] at hsk
      rcases hyn with rfl | hn
      · exact ⟨rfl, rfl, rfl, Nat.le_refl _⟩
      · refine ⟨hsk.1.1, hsk.1.2, hsk.2, ?_⟩
        simp only [newer, mkEntry, Bool.or_eq_false_iff, decide_eq_false_iff_not, Bool.and_eq_false_iff] at hn
        have : ¬ a.seq > y.seq := by simpa using hn.1
        omega
    · exact ih _ r hr hk

/-! ### the same for the agent-presence table -/

theorem mem_insRev_of {x y : Entry} {l : List Entry} (h : y = x ∨ y ∈ l) : y ∈ insRev x l := by
  induction l with
  | nil =>
    rcases h with h | h
    · simp [insRev, h]
    · cases h
  | cons z t ih =>
    unfold insRev
    split
    · rcases h with h | h
      · exact List.mem_cons_of_mem _ (ih (Or.inl h))
      · rcases List.mem_cons.1 h with h | h
        · exact h ▸ List.mem_cons_self
        · exact List.mem_cons_of_mem _ (ih (Or.inr h))
    · rcases h with h | h
      · exact h ▸ List.mem_cons_self
      · exact List.mem_cons_of_mem _ h

theorem mem_foldl_insRev_of {y : Entry} (l acc : List Entry) (h : y ∈ acc ∨ y ∈ l) :
    y ∈ l.foldl (fun revPre x => insRev x revPre) acc := by
  induction l generalizing acc with
  | nil =>
    rcases h with h | h
    · exact h
    · cases h
  | cons x t ih =>
    simp only [List.foldl_cons]
    apply ih
    rcases h with h | h
    · exact Or.inl (mem_insRev_of (Or.inr h))
    · rcases List.mem_cons.1 h with h | h
      · exact Or.inl (mem_insRev_of (Or.inl h))
      · exact Or.inr h

theorem mem_sortIns_of {y : Entry} {l : List Entry} (h : y ∈ l) : y ∈ sortIns l := by
  unfold sortIns
  exact List.mem_reverse.2 (mem_foldl_insRev_of l [] (Or.inr h))

theorem addAgentKey_keeps {e x : Entry} {l : List Entry} (hx : x ∈ l) :
    x ∈ addAgentKey e l ∨ (sameAgentKey e x = true ∧ newer e x = true ∧ e ∈ addAgentKey e l) := by
  induction l with
  | nil => cases hx
  | cons o t ih =>
    unfold addAgentKey
    by_cases hk : sameAgentKey e o = true
    · rw [if_pos hk]
      by_cases hn : newer e o = true
      · rw [if_pos hn]
        rcases List.mem_cons.1 hx with hx | hx
        · subst hx; exact Or.inr ⟨hk, hn, List.mem_cons_self⟩
        · exact Or.inl (List.mem_cons_of_mem _ hx)
      · rw [if_neg hn]; exact Or.inl hx
    · rw [if_neg hk]
      rcases List.mem_cons.1 hx with hx | hx
      · subst hx; exact Or.inl List.mem_cons_self
      · rcases ih hx with h | ⟨h1, h2, h3⟩
        · exact Or.inl (List.mem_cons_of_mem _ h)
        · exact Or.inr ⟨h1, h2, List.mem_cons_of_mem _ h3⟩

theorem addAgentKey_has (e : Entry) (l : List Entry) :
    ∃ y, y ∈ addAgentKey e l ∧ sameAgentKey e y = true ∧ (y = e ∨ newer e y = false) := by
  induction l with
  | nil => exact ⟨e, by simp [addAgentKey], by simp [sameAgentKey], Or.inl rfl⟩
  | cons o t ih =>
    unfold addAgentKey
    by_cases hk : sameAgentKey e o = true
    · rw [if_pos hk]
      by_cases hn : newer e o = true
      · rw [if_pos hn]; exact ⟨e, List.mem_cons_self, by simp [sameAgentKey], Or.inl rfl⟩
      · rw [if_neg hn]; exact ⟨o, List.mem_cons_self, hk, Or.inr (by simpa using hn)⟩
    · rw [if_neg hk]
      obtain ⟨y, hy, h1, h2⟩ := ih
      exact ⟨y, List.mem_cons_of_mem _ hy, h1, h2⟩

theorem newer_seq_le {e x : Entry} (h : newer e x = true) : x.seq ≤ e.seq := by
  simp only [newer, Bool.or_eq_true, decide_eq_true_eq, Bool.and_eq_true] at h
  rcases h with h | h <;> omega

theorem not_newer_seq_le {e y : Entry} (h : newer e y = false) : e.seq ≤ y.seq := by
  simp only [newer, Bool.or_eq_false_iff, decide_eq_false_iff_not, Bool.and_eq_false_iff] at h
  have : ¬ e.seq > y.seq := by simpa using h.1
  omega

theorem addAgent_keeps_copy {e : Entry} {ag : List Entry} {o sq key : Nat}
    (h : ∃ x, x ∈ ag ∧ CopyA o sq key x) : ∃ x, x ∈ addAgent e ag ∧ CopyA o sq key x := by
  obtain ⟨x, hx, hc⟩ := h
  unfold addAgent
  by_cases hk : x.key = e.key
  · have hsub : x ∈ ag.filter (fun o => o.key == e.key) := List.mem_filter.2 ⟨hx, by simpa using hk⟩
    rcases addAgentKey_keeps (e := e) hsub with h | ⟨h1, h2, h3⟩
    · exact ⟨x, List.mem_append_right _ (mem_sortIns_of h), hc⟩
    · refine ⟨e, List.mem_append_right _ (mem_sortIns_of h3), ?_⟩
      simp only [sameAgentKey, Bool.and_eq_true, decide_eq_true_eq] at h1
      obtain ⟨c1, c2, c3⟩ := hc
      exact ⟨hk.symm.trans c1, h1.1.symm.trans c2, Nat.le_trans c3 (newer_seq_le h2)⟩
  · exact ⟨x, List.mem_append_left _ (List.mem_filter.2 ⟨hx, by simpa using hk⟩), hc⟩

theorem addAgent_has (e : Entry) (ag : List Entry) :
    ∃ y, y ∈ addAgent e ag ∧ CopyA e.origin e.seq e.key y := by
  obtain ⟨y, hy, hsk, hyn⟩ := addAgentKey_has e (ag.filter (fun o => o.key == e.key))
  refine ⟨y, by unfold addAgent; exact List.mem_append_right _ (mem_sortIns_of hy), ?_⟩
  simp only [sameAgentKey, Bool.and_eq_true, decide_eq_true_eq] at hsk
  rcases hyn with rfl | hn
  · exact ⟨rfl, rfl, Nat.le_refl _⟩
  · have hmem : y = e ∨ y ∈ ag.filter (fun o => o.key == e.key) := mem_addAgentKey hy
    rcases hmem with rfl | hmem
    · exact ⟨rfl, rfl, Nat.le_refl _⟩
    · have hkey : y.key = e.key := by simpa using (List.mem_filter.1 hmem).2
      exact ⟨hkey, hsk.1, not_newer_seq_le hn⟩

theorem storeRoute_keeps_copyA {self frm clock : Nat} {a : Adv} {st : NodeSt} {r0 : RAd} {o sq key : Nat}
    (h : ∃ e, e ∈ st.agents ∧ CopyA o sq key e) :
    ∃ e, e ∈ (storeRoute self frm a clock st r0).agents ∧ CopyA o sq key e := by
  unfold storeRoute
  split
  · exact h
  · split
    · exact addAgent_keeps_copy h
    · exact h

theorem foldl_storeRoute_keeps_copyA {self frm clock : Nat} {a : Adv} (rs : List RAd) (st : NodeSt)
    {o sq key : Nat} (h : ∃ e, e ∈ st.agents ∧ CopyA o sq key e) :
    ∃ e, e ∈ (rs.foldl (storeRoute self frm a clock) st).agents ∧ CopyA o sq key e := by
  induction rs generalizing st with
  | nil => exact h
  | cons r0 t ih => simp only [List.foldl_cons]; exact ih _ (storeRoute_keeps_copyA h)

theorem handle_keeps_copyA {mh : Nat} {peers : List Node} {self frm clock : Nat} {a : Adv} {st : NodeSt}
    {o sq key : Nat} (h : ∃ e, e ∈ st.agents ∧ CopyA o sq key e) :
    ∃ e, e ∈ (handle mh peers self frm clock a st).1.agents ∧ CopyA o sq key e := by
  unfold handle
  split
  · exact h
  · dsimp only
    split
    · exact h
    · split
      · exact h
      · split
        · exact h
        · have := foldl_storeRoute_keeps_copyA (self := self) (frm := frm) (clock := clock) (a := a) a.routes
            { st with seen := (a.origin, a.seq) :: st.seen } h
          split
          · exact this
          · split <;> exact this

theorem foldl_storeRoute_storesA {self frm clock : Nat} {a : Adv} (hp : self ∉ a.path)
    (rs : List RAd) (st : NodeSt) :
    ∀ r, r ∈ rs → r.kind = 3 →
      ∃ e, e ∈ (rs.foldl (storeRoute self frm a clock) st).agents ∧ CopyA a.origin a.seq r.key e := by
  induction rs generalizing st with
  | nil => intro r hr; cases hr
  | cons r0 t ih =>
    intro r hr hk
    simp only [List.foldl_cons]
    rcases List.mem_cons.1 hr with hr | hr
    · subst hr
      apply foldl_storeRoute_keeps_copyA
      unfold storeRoute
      rw [if_neg hp, if_pos hk]
      exact addAgent_has (mkEntry r a frm clock) st.agents
    · exact ih _ r hr hk

/-- `handle` when the advertisement is accepted and there is no hop limit. -/
theorem handle_new_eq {peers : List Node} {self frm clock : Nat} {a : Adv} {st : NodeSt}
    (hwd : a.wd = false) (hseen : (a.origin, a.seq) ∉ st.seen) (hsb : self ∉ a.seenBy)
    (hwire : a.seenBy.length + 1 ≤ maxWireAgents ∧ a.path.length + 1 ≤ maxWireAgents) :
    handle 0 peers self frm clock a st =
      (a.routes.foldl (storeRoute self frm a clock) { st with seen := (a.origin, a.seq) :: st.seen },
       (fwdTargets peers frm (fwdAdv self a).seenBy).map (fun p => (p, fwdAdv self a)), .new) := by
  unfold handle
  rw [if_neg hseen]
  dsimp only
  rw [if_neg hsb, if_neg (by simp [hwd]), if_neg (by omega), if_neg (by omega), if_neg (by omega)]

theorem mem_eraseIdx_of_ne {α : Type} {l : List α} {pos : Nat} {g f : α} (hg : g ∈ l)
    (hf : l[pos]? = some f) (hne : g ≠ f) : g ∈ l.eraseIdx pos := by
  rw [List.mem_eraseIdx_iff_getElem?]
  obtain ⟨i, hi⟩ := List.mem_iff_getElem?.1 hg
  refine ⟨i, ?_, hi⟩
  intro h; subst h; rw [hf] at hi; cases hi; exact hne rfl

/-! ### the invariant is kept by processing a frame -/

theorem marked_mono_process {t : Net} {fl : List Flight} {a b : Node} {m : Adv} {o : Node} {k : Node × Nat}
    {x : Node} (h : Marked t o k x) : Marked (process { t with flight := fl } a b m).1 o k x := by
  rcases h with h | h
  · exact Or.inl h
  · refine Or.inr ?_
    rw [process_nodes]
    split
    · rename_i hx; subst hx; exact handle_seen_mono h
    · exact h

theorem conv_process {lk : Node → Node → Bool} {n o sq : Nat} {L : List RAd} {t : Net}
    (hn255 : n ≤ 255)
    (hirr : ∀ x, lk x x = false) (hrange : ∀ x p, lk x p = true → p < n)
    (hC : Conv lk n o sq L t) {fl : List Flight} {a b : Node} {f : Flight} (hbn : b < n)
    (hf : f ∈ t.flight) (hsrc : f.src = a) (hdst : f.dst = b)
    (hsub : ∀ g, g ∈ fl → g ∈ t.flight)
    (hlost : ∀ g, g ∈ t.flight → g ∈ fl ∨ (g.src = a ∧ g.dst = b ∧ keyOf g = keyOf f)) :
    Conv lk n o sq L (process { t with flight := fl } a b f.adv).1 := by
  -- abbreviations
  have hmh : ({ t with flight := fl } : Net).maxHops b = 0 := hC.mh b
  have hnodes : ∀ x, ({ t with flight := fl } : Net).nodes x = t.nodes x := fun _ => rfl
  have hpeers : peersOf ({ t with flight := fl } : Net) b = peersOf t b := rfl
  have hmarks : (f.adv.origin, f.adv.seq) ∈ ((process { t with flight := fl } a b f.adv).1.nodes b).seen := by
    rw [process_nodes, if_pos rfl]; exact handle_marks _ _ _ _ _ _ _
  have hseen_inv : ∀ x k, k ∈ ((process { t with flight := fl } a b f.adv).1.nodes x).seen →
      k ∈ (t.nodes x).seen ∨ (x = b ∧ k = (f.adv.origin, f.adv.seq)) := by
    intro x k hk
    rw [process_nodes] at hk
    split at hk
    · rename_i hx; subst hx
      rcases handle_seen hk with h | h
      · exact Or.inl h
      · exact Or.inr ⟨rfl, h⟩
    · exact Or.inl hk
  have hctr : sq ≤ ((process { t with flight := fl } a b f.adv).1.nodes o).seq := by
    rw [process_nodes]
    split
    · rename_i hx; rw [(handle_seq _ _ _ _ _ _ _).1, hnodes, ← hx]; exact hC.ctr
    · exact hC.ctr
  have hfwd : f.adv.wd = false := hC.nowd f hf
  have hnowd' : ∀ g, g ∈ (process { t with flight := fl } a b f.adv).1.flight → g.adv.wd = false := by
    intro g hg
    rw [process_flight] at hg
    rcases List.mem_append.1 hg with hg | hg
    · exact hC.nowd g (hsub g hg)
    · rcases List.mem_map.1 hg with ⟨⟨p, m⟩, hpm, rfl⟩
      have := (handle_out hpm).1
      simp only at this ⊢
      rw [this, fwdAdv_wd]; exact hfwd
  have hstored_old : ∀ x, (o, sq) ∈ (t.nodes x).seen → ∀ r, r ∈ L → r.kind ≠ 3 →
      ∃ e, e ∈ ((process { t with flight := fl } a b f.adv).1.nodes x).tab ∧ CopyOf o sq r e := by
    intro x hx r hr hk
    have h0 := hC.stored x hx r hr hk
    rw [process_nodes]
    split
    · rename_i hxb; subst hxb; exact handle_keeps_copy hfwd h0
    · exact h0
  have hstored_oldA : ∀ x, (o, sq) ∈ (t.nodes x).seen → ∀ r, r ∈ L → r.kind = 3 →
      ∃ e, e ∈ ((process { t with flight := fl } a b f.adv).1.nodes x).agents ∧ CopyA o sq r.key e := by
    intro x hx r hr hk
    have h0 := hC.storedA x hx r hr hk
    rw [process_nodes]
    split
    · rename_i hxb; subst hxb; exact handle_keeps_copyA h0
    · exact h0
  by_cases hkey : keyOf f = (o, sq)
  · -- a frame of our announcement
    have hFI := hC.frames f hf hkey
    have hk' : (f.adv.origin, f.adv.seq) = (o, sq) := hkey
    by_cases hcached : (o, sq) ∈ (t.nodes b).seen
    · -- already handled: nothing changes but the queue
      have hh : handle (({ t with flight := fl } : Net).maxHops b) (peersOf ({ t with flight := fl } : Net) b) b a
          ({ t with flight := fl } : Net).clock f.adv (({ t with flight := fl } : Net).nodes b) =
          (t.nodes b, [], .seen) := handle_cached (by rw [hk']; exact hcached)
      have hnodes' : ∀ x, (process { t with flight := fl } a b f.adv).1.nodes x = t.nodes x := by
        intro x; rw [process_nodes, hh]; split
        · rename_i hx; rw [hx]
        · rfl
      have hflight' : (process { t with flight := fl } a b f.adv).1.flight = fl := by
        rw [process_flight, hh]; simp
      have hmk : ∀ x, Marked (process { t with flight := fl } a b f.adv).1 o (o, sq) x ↔ Marked t o (o, sq) x := by
        intro x; unfold Marked; rw [hnodes']
      refine ⟨hC.n_eq, hC.mh, hC.links, by rw [hnodes']; exact hC.ctr, hnowd', ?_, ?_, ?_, ?_⟩
      · intro g hg hgk
        rw [hflight'] at hg
        have := hC.frames g (hsub g hg) hgk
        exact ⟨(hmk _).2 this.src, fun y hy => (hmk _).2 (this.seenBy y hy), this.dst, this.path, this.routes, this.sbNodup, this.sbRange, this.pathLen⟩
      · intro x hx p hp
        rcases hC.closed x ((hmk x).1 hx) p hp with h | ⟨g, hg, hgk, hgs, hgd⟩
        · exact Or.inl ((hmk p).2 h)
        · rcases hlost g hg with h | ⟨h1, h2, _⟩
          · exact Or.inr ⟨g, by rw [hflight']; exact h, hgk, hgs, hgd⟩
          · refine Or.inl ((hmk p).2 (Or.inr ?_))
            rw [← hgd, h2]; exact hcached
      · intro x hx r hr hk
        rw [hnodes'] at hx ⊢
        exact hC.stored x hx r hr hk
      · intro x hx r hr hk
        rw [hnodes'] at hx ⊢
        exact hC.storedA x hx r hr hk
    · -- first handling at b: b stores and forwards
      have hsb : b ∉ f.adv.seenBy := hdst ▸ hFI.dst
      have hseen0 : (f.adv.origin, f.adv.seq) ∉ (t.nodes b).seen := by rw [hk']; exact hcached
      have hlen : f.adv.seenBy.length + 1 ≤ n := by
        have := nodup_length_le n (b :: f.adv.seenBy) (List.nodup_cons.2 ⟨hsb, hFI.sbNodup⟩)
          (by
            intro y hy
            rcases List.mem_cons.1 hy with hy | hy
            · rw [hy]; exact hbn
            · rw [← hC.n_eq]; exact hFI.sbRange y hy)
        simpa using this
      have hwire : f.adv.seenBy.length + 1 ≤ maxWireAgents ∧ f.adv.path.length + 1 ≤ maxWireAgents := by
        have := hFI.pathLen
        unfold maxWireAgents
        omega
      have hh := handle_new_eq (peers := peersOf t b) (self := b) (frm := a) (clock := t.clock)
        (a := f.adv) (st := t.nodes b) hfwd hseen0 hsb hwire
      have hproc_flight : (process { t with flight := fl } a b f.adv).1.flight = fl ++
          ((fwdTargets (peersOf t b) a (fwdAdv b f.adv).seenBy).map (fun p => (p, fwdAdv b f.adv))).map
            (fun (pf : Node × Adv) => ({ src := b, dst := pf.1, adv := pf.2 } : Flight)) := by
        rw [process_flight]
        show fl ++ (handle (t.maxHops b) (peersOf t b) b a t.clock f.adv (t.nodes b)).2.1.map _ = _
        rw [hC.mh b, hh]
      have hproc_nodes_b : (process { t with flight := fl } a b f.adv).1.nodes b =
          f.adv.routes.foldl (storeRoute b a f.adv t.clock)
            { t.nodes b with seen := (f.adv.origin, f.adv.seq) :: (t.nodes b).seen } := by
        rw [process_nodes, if_pos rfl]
        show (handle (t.maxHops b) (peersOf t b) b a t.clock f.adv (t.nodes b)).1 = _
        rw [hC.mh b, hh]
      have hb_marked : Marked (process { t with flight := fl } a b f.adv).1 o (o, sq) b :=
        Or.inr (hk' ▸ hmarks)
      have hnew_frame : ∀ g, g ∈ ((fwdTargets (peersOf t b) a (fwdAdv b f.adv).seenBy).map
            (fun p => (p, fwdAdv b f.adv))).map
            (fun (pf : Node × Adv) => ({ src := b, dst := pf.1, adv := pf.2 } : Flight)) →
          g.src = b ∧ g.adv = fwdAdv b f.adv ∧ g.dst ∈ peersOf t b ∧ g.dst ≠ a ∧ g.dst ∉ f.adv.seenBy ∧ g.dst ≠ b := by
        intro g hg
        simp only [List.map_map, List.mem_map, Function.comp] at hg
        obtain ⟨p, hp, rfl⟩ := hg
        obtain ⟨hp1, hp2, hp3, hp4⟩ := mem_fwdTargets hp
        exact ⟨rfl, rfl, hp1, hp2, hp3, hp4⟩
      refine ⟨hC.n_eq, hC.mh, hC.links, hctr, hnowd', ?_, ?_, ?_, ?_⟩
      · intro g hg hgk
        rw [hproc_flight] at hg
        rcases List.mem_append.1 hg with hg | hg
        · have := hC.frames g (hsub g hg) hgk
          exact ⟨marked_mono_process this.src, fun y hy => marked_mono_process (this.seenBy y hy),
            this.dst, this.path, this.routes, this.sbNodup, this.sbRange, this.pathLen⟩
        · obtain ⟨h1, h2, h3, h4, h5, h6⟩ := hnew_frame g hg
          refine ⟨h1 ▸ hb_marked, ?_, ?_, ?_, ?_, ?_, ?_, ?_⟩
          · intro y hy
            rw [h2, fwdAdv_seenBy] at hy
            simp only [List.mem_append, List.mem_singleton] at hy
            rcases hy with hy | hy
            · exact marked_mono_process (hFI.seenBy y hy)
            · exact hy ▸ hb_marked
          · rw [h2, fwdAdv_seenBy]; simp only [List.mem_append, List.mem_singleton, not_or]; exact ⟨h5, h6⟩
          · intro y hy
            rw [h2, fwdAdv_path hfwd] at hy
            rw [h2, fwdAdv_seenBy]
            rcases List.mem_cons.1 hy with hy | hy
            · exact List.mem_append_right _ (by simp [hy])
            · exact List.mem_append_left _ (hFI.path y hy)
          · intro r hr
            obtain ⟨r', hr', hk1, hk2⟩ := hFI.routes r hr
            rw [h2, fwdAdv_routes hfwd]
            refine ⟨{ r' with metric := inc16 r'.metric }, ?_, hk1, hk2⟩
            simp only [List.mem_map]
            exact ⟨r', hr', rfl⟩
          · rw [h2, fwdAdv_seenBy]
            refine List.nodup_append.2 ⟨hFI.sbNodup, by simp, ?_⟩
            intro x hx y hy
            simp only [List.mem_singleton] at hy
            subst hy
            intro hxy; subst hxy
            exact hsb hx
          · intro y hy
            rw [h2, fwdAdv_seenBy] at hy
            rcases List.mem_append.1 hy with hy | hy
            · exact hFI.sbRange y hy
            · simp only [List.mem_singleton] at hy
              rw [hy]; show b < t.n; rw [hC.n_eq]; exact hbn
          · rw [h2, fwdAdv_path hfwd, fwdAdv_seenBy]
            have := hFI.pathLen
            simp only [List.length_cons, List.length_append, List.length_nil]
            omega
      · intro x hx p hp
        -- was x marked before, or is it b (newly marked)?
        have hx' : Marked t o (o, sq) x ∨ x = b := by
          rcases hx with hx | hx
          · exact Or.inl (Or.inl hx)
          · rcases hseen_inv x _ hx with h | ⟨h, _⟩
            · exact Or.inl (Or.inr h)
            · exact Or.inr h
        rcases hx' with hx' | hx'
        · rcases hC.closed x hx' p hp with h | ⟨g, hg, hgk, hgs, hgd⟩
          · exact Or.inl (marked_mono_process h)
          · rcases hlost g hg with h | ⟨h1, h2, _⟩
            · exact Or.inr ⟨g, by rw [hproc_flight]; exact List.mem_append_left _ h, hgk, hgs, hgd⟩
            · exact Or.inl (by rw [← hgd, h2]; exact hb_marked)
        · subst hx'
          by_cases hpa : p = a
          · exact Or.inl (marked_mono_process (hpa ▸ hsrc ▸ hFI.src))
          · by_cases hps : p ∈ f.adv.seenBy
            · exact Or.inl (marked_mono_process (hFI.seenBy p hps))
            · have hpx : p ≠ x := by intro h; rw [h, hirr] at hp; cases hp
              have hpn : p < t.n := by rw [hC.n_eq]; exact hrange x p hp
              have hpeer : p ∈ peersOf t x := by
                unfold peersOf
                exact List.mem_filter.2 ⟨List.mem_range.2 hpn, by rw [hC.links]; exact hp⟩
              have hpt : p ∈ fwdTargets (peersOf t x) a (fwdAdv x f.adv).seenBy := by
                unfold fwdTargets
                refine List.mem_filter.2 ⟨hpeer, ?_⟩
                simp only [fwdAdv_seenBy, Bool.and_eq_true, bne_iff_ne, ne_eq, Bool.not_eq_true', List.contains_eq_mem,
                  List.mem_append, List.mem_singleton, decide_eq_false_iff_not, not_or]
                exact ⟨hpa, hps, hpx⟩
              refine Or.inr ⟨⟨x, p, fwdAdv x f.adv⟩, ?_, ?_, rfl, rfl⟩
              · rw [hproc_flight]
                apply List.mem_append_right
                simp only [List.map_map, List.mem_map, Function.comp]
                exact ⟨p, hpt, rfl⟩
              · show (( fwdAdv x f.adv).origin, (fwdAdv x f.adv).seq) = (o, sq)
                rw [fwdAdv_origin, fwdAdv_seq]; exact hkey
      · intro x hx r hr hk
        rcases hseen_inv x _ hx with h | ⟨hxb, _⟩
        · exact hstored_old x h r hr hk
        · subst hxb
          obtain ⟨r', hr', hk1, hk2⟩ := hFI.routes r hr
          have hbp : x ∉ f.adv.path := fun h => hsb (hFI.path x h)
          have hk3 : r'.kind ≠ 3 := by rw [hk1]; exact hk
          obtain ⟨e, he, hc⟩ := foldl_storeRoute_stores (frm := a) (clock := t.clock) hbp f.adv.routes
            { t.nodes x with seen := (f.adv.origin, f.adv.seq) :: (t.nodes x).seen } r' hr' hk3
          refine ⟨e, by rw [hproc_nodes_b]; exact he, ?_⟩
          simp only [Prod.mk.injEq] at hk'
          obtain ⟨h1, h2, h3, h4⟩ := hc
          exact ⟨h1.trans hk1, h2.trans hk2, h3.trans hk'.1, by rw [← hk'.2]; exact h4⟩
      · intro x hx r hr hk
        rcases hseen_inv x _ hx with h | ⟨hxb, _⟩
        · exact hstored_oldA x h r hr hk
        · subst hxb
          obtain ⟨r', hr', hk1, hk2⟩ := hFI.routes r hr
          have hbp : x ∉ f.adv.path := fun h => hsb (hFI.path x h)
          have hk3 : r'.kind = 3 := by rw [hk1]; exact hk
          obtain ⟨e, he, hc⟩ := foldl_storeRoute_storesA (frm := a) (clock := t.clock) hbp f.adv.routes
            { t.nodes x with seen := (f.adv.origin, f.adv.seq) :: (t.nodes x).seen } r' hr' hk3
          refine ⟨e, by rw [hproc_nodes_b]; exact he, ?_⟩
          simp only [Prod.mk.injEq] at hk'
          obtain ⟨h1, h2, h3⟩ := hc
          exact ⟨h1.trans hk2, h2.trans hk'.1, by rw [← hk'.2]; exact h3⟩
  · -- a frame of another announcement: our frames, our marks are untouched
    have hmk : ∀ x, Marked (process { t with flight := fl } a b f.adv).1 o (o, sq) x ↔ Marked t o (o, sq) x := by
      intro x
      constructor
      · intro h
        rcases h with h | h
        · exact Or.inl h
        · rcases hseen_inv x _ h with h | ⟨_, h⟩
          · exact Or.inr h
          · exact absurd h.symm hkey
      · exact marked_mono_process
    have hours : ∀ g, g ∈ (process { t with flight := fl } a b f.adv).1.flight → keyOf g = (o, sq) → g ∈ fl := by
      intro g hg hgk
      rw [process_flight] at hg
      rcases List.mem_append.1 hg with hg | hg
      · exact hg
      · exfalso
        rcases List.mem_map.1 hg with ⟨⟨p, m⟩, hpm, rfl⟩
        have := (handle_out hpm).1
        apply hkey
        rw [← hgk]
        subst this
        simp only [keyOf, fwdAdv_origin, fwdAdv_seq]
    refine ⟨hC.n_eq, hC.mh, hC.links, hctr, hnowd', ?_, ?_, ?_, ?_⟩
    · intro g hg hgk
      have := hC.frames g (hsub g (hours g hg hgk)) hgk
      exact ⟨(hmk _).2 this.src, fun y hy => (hmk _).2 (this.seenBy y hy), this.dst, this.path, this.routes, this.sbNodup, this.sbRange, this.pathLen⟩
    · intro x hx p hp
      rcases hC.closed x ((hmk x).1 hx) p hp with h | ⟨g, hg, hgk, hgs, hgd⟩
      · exact Or.inl ((hmk p).2 h)
      · rcases hlost g hg with h | ⟨_, _, h3⟩
        · refine Or.inr ⟨g, ?_, hgk, hgs, hgd⟩
          rw [process_flight]; exact List.mem_append_left _ h
        · exact absurd (h3.symm.trans hgk) hkey
    · intro x hx r hr hk
      rcases hseen_inv x _ hx with h | ⟨_, h⟩
      · exact hstored_old x h r hr hk
      · exact absurd h.symm hkey
    · intro x hx r hr hk
      rcases hseen_inv x _ hx with h | ⟨_, h⟩
      · exact hstored_oldA x h r hr hk
      · exact absurd h.symm hkey

/-! ### the invariant along a stable schedule -/

theorem conv_step {lk : Node → Node → Bool} {n o sq : Nat} {L : List RAd} {s : Net} {op : Op}
    (hn255 : n ≤ 255) (hirr : ∀ x, lk x x = false) (hrange : ∀ x p, lk x p = true → p < n)
    (hC : Conv lk n o sq L s) (hst : stable op = true) : Conv lk n o sq L (step s op) := by
  have hT : Conv lk n o sq L (tick s) :=
    ⟨hC.n_eq, hC.mh, hC.links, hC.ctr, hC.nowd,
      fun f hf hk => let h := hC.frames f hf hk; ⟨h.src, h.seenBy, h.dst, h.path, h.routes, h.sbNodup, h.sbRange, h.pathLen⟩,
      hC.closed, hC.stored, hC.storedA⟩
  cases op with
  | connect a b => cases hst
  | disconnect a b => cases hst
  | replay a b ord => cases hst
  | withdraw a _ => cases hst
  | drop a b i => cases hst
  | expire a k q => cases hst
  | stale a age => cases hst
  | dump => exact hT
  | deliver a b i =>
    simp only [step, stepCore]
    split
    · rename_i hcond
      have hbn : b < n := by have := hcond.2.1; rw [← hC.n_eq]; exact this
      split
      · exact hT
      · rename_i pos f hp
        obtain ⟨hget, hs, hd⟩ := pickFlight_spec hp
        refine conv_process hn255 hirr hrange hT hbn (List.mem_of_getElem? hget) hs hd
          (fun g hg => List.mem_of_mem_eraseIdx hg) ?_
        intro g hg
        by_cases hgf : g = f
        · subst hgf; exact Or.inr ⟨hs, hd, rfl⟩
        · exact Or.inl (mem_eraseIdx_of_ne hg hget hgf)
    · exact hT
  | dup a b i =>
    simp only [step, stepCore]
    split
    · rename_i hcond
      have hbn : b < n := by have := hcond.2.1; rw [← hC.n_eq]; exact this
      split
      · exact hT
      · rename_i pos f hp
        obtain ⟨hget, hs, hd⟩ := pickFlight_spec hp
        exact conv_process (fl := (tick s).flight) hn255 hirr hrange hT hbn (List.mem_of_getElem? hget) hs hd
          (fun g hg => hg) (fun g hg => Or.inl hg)
    · exact hT
  | announce c hint =>
    simp only [step, stepCore]
    split
    · rename_i hc
      have hseen : ∀ x, ((setNode (tick s) c { (tick s).nodes c with
          seq := ((tick s).nodes c).seq + (announceAdvs c ((tick s).nodes c) hint).length }).nodes x).seen
          = (s.nodes x).seen := by
        intro x; simp only [setNode_nodes]; split
        · rename_i hx; subst hx; rfl
        · rfl
      have htab : ∀ x, ((setNode (tick s) c { (tick s).nodes c with
          seq := ((tick s).nodes c).seq + (announceAdvs c ((tick s).nodes c) hint).length }).nodes x).tab
          = (s.nodes x).tab := by
        intro x; simp only [setNode_nodes]; split
        · rename_i hx; subst hx; rfl
        · rfl
      have hnew : ∀ g, g ∈ (announceAdvs c ((tick s).nodes c) hint).flatMap
          (fun m => (peersOf (tick s) c).map (fun p => ({ src := c, dst := p, adv := m } : Flight))) →
          g.adv.wd = false ∧ keyOf g ≠ (o, sq) := by
        intro g hg
        rcases List.mem_flatMap.1 hg with ⟨m, hm, hgm⟩
        rcases List.mem_map.1 hgm with ⟨p, _, rfl⟩
        have h := mem_announceAdvs hm
        refine ⟨h.wd, ?_⟩
        intro hk
        simp only [keyOf, Prod.mk.injEq] at hk
        have h1 := h.seq_gt
        have h2 := hC.ctr
        rw [h.origin] at hk
        rw [hk.1] at h1
        simp only [tick_nodes] at h1
        omega
      have hag : ∀ x, ((setNode (tick s) c { (tick s).nodes c with
          seq := ((tick s).nodes c).seq + (announceAdvs c ((tick s).nodes c) hint).length }).nodes x).agents
          = (s.nodes x).agents := by
        intro x; simp only [setNode_nodes]; split
        · rename_i hx; subst hx; rfl
        · rfl
      refine ⟨hC.n_eq, hC.mh, hC.links, ?_, ?_, ?_, ?_, ?_, ?_⟩
      · show sq ≤ ((setNode (tick s) c _).nodes o).seq
        simp only [setNode_nodes]; split
        · rename_i hx; subst hx; exact Nat.le_trans hC.ctr (Nat.le_add_right _ _)
        · exact hC.ctr
      · intro g hg
        rcases List.mem_append.1 hg with hg | hg
        · exact hC.nowd g hg
        · exact (hnew g hg).1
      · intro g hg hgk
        have hg' : g ∈ s.flight := by
          rcases List.mem_append.1 hg with hg | hg
          · exact hg
          · exact absurd hgk (hnew g hg).2
        have := hC.frames g hg' hgk
        exact ⟨by unfold Marked; rw [hseen]; exact this.src,
          fun y hy => by unfold Marked; rw [hseen]; exact this.seenBy y hy, this.dst, this.path, this.routes, this.sbNodup, this.sbRange, this.pathLen⟩
      · intro x hx p hp
        have hx' : Marked s o (o, sq) x := by unfold Marked at hx ⊢; rw [hseen] at hx; exact hx
        rcases hC.closed x hx' p hp with h | ⟨g, hg, hgk, hgs, hgd⟩
        · exact Or.inl (by unfold Marked at h ⊢; rw [hseen]; exact h)
        · exact Or.inr ⟨g, List.mem_append_left _ hg, hgk, hgs, hgd⟩
      · intro x hx r hr hk
        rw [hseen] at hx; rw [htab]
        exact hC.stored x hx r hr hk
      · intro x hx r hr hk
        rw [hseen] at hx; rw [hag]
        exact hC.storedA x hx r hr hk
    · exact hT

theorem conv_run {lk : Node → Node → Bool} {n o sq : Nat} {L : List RAd}
    (hn255 : n ≤ 255) (hirr : ∀ x, lk x x = false) (hrange : ∀ x p, lk x p = true → p < n)
    (s : Net) (ops : List Op) (hC : Conv lk n o sq L s) (hst : ∀ op, op ∈ ops → stable op = true) :
    Conv lk n o sq L (run s ops) := by
  induction ops generalizing s with
  | nil => exact hC
  | cons op t ih =>
    exact ih (step s op) (conv_step hn255 hirr hrange hC (hst op List.mem_cons_self))
      (fun o' ho' => hst o' (List.mem_cons_of_mem _ ho'))

/-- Two advertisements of one announcement with the same sequence number are the same one. -/
theorem announceAdvsAux_seq_inj {self : Node} (gs : List (List RAd)) (seq : Nat) {m m' : Adv}
    (hm : m ∈ announceAdvsAux self gs seq) (hm' : m' ∈ announceAdvsAux self gs seq) (h : m.seq = m'.seq) :
    m = m' := by
  induction gs generalizing seq with
  | nil => simp [announceAdvsAux] at hm
  | cons g t ih =>
    simp only [announceAdvsAux] at hm hm'
    rcases List.mem_cons.1 hm with hm | hm <;> rcases List.mem_cons.1 hm' with hm' | hm'
    · rw [hm, hm']
    · exfalso
      obtain ⟨_, _, _, _, _, _, h5, _, _⟩ := mem_announceAdvsAux t (seq + 1) hm'
      rw [hm] at h; simp only at h; omega
    · exfalso
      obtain ⟨_, _, _, _, _, _, h5, _, _⟩ := mem_announceAdvsAux t (seq + 1) hm
      rw [hm'] at h; simp only at h; omega
    · exact ih (seq + 1) hm hm'

/-- The invariant holds right after the announcement, for each advertisement `m` it consists of
    (one per group of at most 255 routes). -/
theorem conv_announce (s0 : Net) (o : Node) (hint : List (List RAd)) (m : Adv)
    (hm : m ∈ announceAdvs o (s0.nodes o) hint) (ho : o < s0.n) (hmh : ∀ x, s0.maxHops x = 0)
    (hirr : ∀ x, linked s0 x x = false)
    (hrange : ∀ x p, linked s0 x p = true → p < s0.n)
    (hfresh : ∀ x sq, (s0.nodes o).seq < sq → (o, sq) ∉ (s0.nodes x).seen)
    (hnoold : ∀ f, f ∈ s0.flight → f.adv.origin = o → f.adv.seq ≤ (s0.nodes o).seq)
    (hnowd : ∀ f, f ∈ s0.flight → f.adv.wd = false) :
    Conv (linked s0) s0.n o m.seq m.routes (step s0 (.announce o hint)) := by
  have ho' : o < (tick s0).n := ho
  have hA := mem_announceAdvs hm
  have hseen : ∀ x, ((step s0 (.announce o hint)).nodes x).seen = (s0.nodes x).seen := by
    intro x
    simp only [step, stepCore]; rw [if_pos ho']
    simp only [setNode_nodes]; split
    · rename_i hx; subst hx; rfl
    · rfl
  have hflight : (step s0 (.announce o hint)).flight = s0.flight ++
      (announceAdvs o (s0.nodes o) hint).flatMap (fun m =>
        (peersOf s0 o).map (fun p => ({ src := o, dst := p, adv := m } : Flight))) := by
    simp only [step, stepCore]; rw [if_pos ho']; rfl
  have hnotmarked : ∀ x, Marked (step s0 (.announce o hint)) o (o, m.seq) x → x = o := by
    intro x hx
    rcases hx with hx | hx
    · exact hx
    · rw [hseen] at hx; exact absurd hx (hfresh x _ hA.seq_gt)
  refine ⟨step_n _ _, (fun x => by rw [step_maxHops]; exact hmh x), ?_, ?_, ?_, ?_, ?_, ?_, ?_⟩
  · intro a b
    simp only [linked, step, stepCore]; rw [if_pos ho']; rfl
  · rw [MM.C14.announce_seq s0 o hint ho]; exact hA.seq_le
  · intro g hg
    rw [hflight] at hg
    rcases List.mem_append.1 hg with hg | hg
    · exact hnowd g hg
    · rcases List.mem_flatMap.1 hg with ⟨m', hm', hgm⟩
      rcases List.mem_map.1 hgm with ⟨p, _, rfl⟩
      exact (mem_announceAdvs hm').wd
  · intro f hf hfk
    rw [hflight] at hf
    simp only [keyOf, Prod.mk.injEq] at hfk
    rcases List.mem_append.1 hf with hf | hf
    · have := hnoold f hf hfk.1
      have := hA.seq_gt
      omega
    · rcases List.mem_flatMap.1 hf with ⟨m', hm', hgm⟩
      rcases List.mem_map.1 hgm with ⟨p, hp, rfl⟩
      have heq : m' = m := announceAdvsAux_seq_inj _ _ hm' hm hfk.2
      subst heq
      have hpo : p ≠ o := by
        intro h
        have := (mem_peersOf hp).1
        rw [h, hirr] at this; cases this
      refine ⟨Or.inl rfl, ?_, ?_, ?_, ?_, ?_, ?_, ?_⟩
      · intro y hy
        simp only [hA.seenBy, List.mem_singleton] at hy
        exact Or.inl hy
      · simp only [hA.seenBy, List.mem_singleton]; exact hpo
      · intro y hy
        simp only [hA.path] at hy
        simp only [hA.seenBy]; exact hy
      · intro r hr
        exact ⟨r, hr, rfl, rfl⟩
      · simp only [hA.seenBy]; simp
      · intro y hy
        simp only [hA.seenBy, List.mem_singleton] at hy
        rw [hy]; show o < (step s0 (.announce o hint)).n; rw [step_n]; exact ho
      · simp only [hA.path, hA.seenBy]; exact Nat.le_refl _
  · intro x hx p hp
    have hxo := hnotmarked x hx
    subst hxo
    have hpn := hrange x p hp
    have hpeer : p ∈ peersOf s0 x := by
      unfold peersOf
      exact List.mem_filter.2 ⟨List.mem_range.2 hpn, hp⟩
    refine Or.inr ⟨⟨x, p, m⟩, ?_, by simp only [keyOf, hA.origin], rfl, rfl⟩
    rw [hflight]
    exact List.mem_append_right _ (List.mem_flatMap.2 ⟨m, hm, List.mem_map.2 ⟨p, hpeer, rfl⟩⟩)
  · intro x hx
    rw [hseen] at hx; exact absurd hx (hfresh x _ hA.seq_gt)
  · intro x hx
    rw [hseen] at hx; exact absurd hx (hfresh x _ hA.seq_gt)

/-- Agents connected to `o` by a path of links. -/
inductive Reach (lk : Node → Node → Bool) (o : Node) : Node → Prop where
  | refl : Reach lk o o
  | step {x p : Node} : Reach lk o x → lk x p = true → Reach lk o p

theorem conv_quiescent {lk : Node → Node → Bool} {n o sq : Nat} {L : List RAd} {t : Net}
    (hC : Conv lk n o sq L t) (hq : ∀ f, f ∈ t.flight → keyOf f ≠ (o, sq)) :
    ∀ x, Reach lk o x → Marked t o (o, sq) x := by
  intro x hx
  induction hx with
  | refl => exact Or.inl rfl
  | step _ hp ih =>
    rcases hC.closed _ ih _ hp with h | ⟨f, hf, hk, _, _⟩
    · exact h
    · exact absurd hk (hq f hf)

/-- C12 (convergence). Origin `o` announces (one advertisement `m` per group of at most 255 routes,
    each with a fresh sequence number). Under any schedule of deliveries / duplicate deliveries /
    further announcements on the stable topology, once no frame of advertisement `m` is left in
    flight (reliable links), every agent connected to `o` has handled it and holds every CIDR /
    domain / forward route it carries, with origin `o` and a sequence number ≥ `m.seq`. -/
theorem C12_converges (s0 : Net) (o : Node) (hint : List (List RAd)) (ops : List Op) (m : Adv)
    (hm : m ∈ announceAdvs o (s0.nodes o) hint)
    (ho : o < s0.n) (hn255 : s0.n ≤ 255) (hmh : ∀ x, s0.maxHops x = 0)
    (hirr : ∀ x, linked s0 x x = false) (hrange : ∀ x p, linked s0 x p = true → p < s0.n)
    (hfresh : ∀ x sq, (s0.nodes o).seq < sq → (o, sq) ∉ (s0.nodes x).seen)
    (hnoold : ∀ f, f ∈ s0.flight → f.adv.origin = o → f.adv.seq ≤ (s0.nodes o).seq)
    (hnowd : ∀ f, f ∈ s0.flight → f.adv.wd = false)
    (hst : ∀ op, op ∈ ops → stable op = true)
    (hquiet : ∀ f, f ∈ (run (step s0 (.announce o hint)) ops).flight → keyOf f ≠ (o, m.seq)) :
    ∀ x, Reach (linked s0) o x → x ≠ o →
      (o, m.seq) ∈ ((run (step s0 (.announce o hint)) ops).nodes x).seen ∧
      (∀ r, r ∈ m.routes → r.kind ≠ 3 →
        ∃ e, e ∈ ((run (step s0 (.announce o hint)) ops).nodes x).tab ∧ CopyOf o m.seq r e) ∧
      (∀ r, r ∈ m.routes → r.kind = 3 →
        ∃ e, e ∈ ((run (step s0 (.announce o hint)) ops).nodes x).agents ∧ CopyA o m.seq r.key e) := by
  intro x hx hxo
  have hC := conv_run hn255 hirr hrange _ ops
    (conv_announce s0 o hint m hm ho hmh hirr hrange hfresh hnoold hnowd) hst
  have hmk := conv_quiescent hC hquiet x hx
  rcases hmk with hmk | hmk
  · exact absurd hmk hxo
  · exact ⟨hmk, hC.stored x hmk, hC.storedA x hmk⟩

/-- Every local route of `o` travels in one of the advertisements, so when all of them have
    quiesced every connected agent holds every CIDR / domain / forward route `o` announces. -/
theorem C12_converges_all (s0 : Net) (o : Node) (hint : List (List RAd)) (ops : List Op)
    (ho : o < s0.n) (hn255 : s0.n ≤ 255) (hmh : ∀ x, s0.maxHops x = 0)
    (hirr : ∀ x, linked s0 x x = false) (hrange : ∀ x p, linked s0 x p = true → p < s0.n)
    (hfresh : ∀ x sq, (s0.nodes o).seq < sq → (o, sq) ∉ (s0.nodes x).seen)
    (hnoold : ∀ f, f ∈ s0.flight → f.adv.origin = o → f.adv.seq ≤ (s0.nodes o).seq)
    (hnowd : ∀ f, f ∈ s0.flight → f.adv.wd = false)
    (hst : ∀ op, op ∈ ops → stable op = true)
    (hquiet : ∀ f, f ∈ (run (step s0 (.announce o hint)) ops).flight →
      f.adv.origin = o → f.adv.seq ≤ (s0.nodes o).seq) :
    ∀ x, Reach (linked s0) o x → x ≠ o → ∀ r, r ∈ (s0.nodes o).locals → r.kind ≠ 3 →
      ∃ e, e ∈ ((run (step s0 (.announce o hint)) ops).nodes x).tab ∧
        e.kind = r.kind ∧ e.key = r.key ∧ e.origin = o ∧ (s0.nodes o).seq < e.seq := by
  intro x hx hxo r hr hk
  obtain ⟨m, hm, hrm⟩ := announce_covers (self := o) (st := s0.nodes o) (hint := hint)
    (List.mem_append_left _ hr)
  have hA := mem_announceAdvs hm
  have hq : ∀ f, f ∈ (run (step s0 (.announce o hint)) ops).flight → keyOf f ≠ (o, m.seq) := by
    intro f hf hkf
    simp only [keyOf, Prod.mk.injEq] at hkf
    have := hquiet f hf hkf.1
    have := hA.seq_gt
    omega
  obtain ⟨_, h2, _⟩ := C12_converges s0 o hint ops m hm ho hn255 hmh hirr hrange hfresh hnoold hnowd hst hq x hx hxo
  obtain ⟨e, he, h1, h2', h3, h4⟩ := h2 r hrm hk
  exact ⟨e, he, h1, h2', h3, Nat.lt_of_lt_of_le hA.seq_gt h4⟩

/-- The presence route: when all advertisements of the announcement have quiesced every connected
    agent holds a presence route for `o` (so `o` is reachable by agent id from everywhere). -/
theorem C12_converges_presence (s0 : Net) (o : Node) (hint : List (List RAd)) (ops : List Op)
    (ho : o < s0.n) (hn255 : s0.n ≤ 255) (hmh : ∀ x, s0.maxHops x = 0)
    (hirr : ∀ x, linked s0 x x = false) (hrange : ∀ x p, linked s0 x p = true → p < s0.n)
    (hfresh : ∀ x sq, (s0.nodes o).seq < sq → (o, sq) ∉ (s0.nodes x).seen)
    (hnoold : ∀ f, f ∈ s0.flight → f.adv.origin = o → f.adv.seq ≤ (s0.nodes o).seq)
    (hnowd : ∀ f, f ∈ s0.flight → f.adv.wd = false)
    (hst : ∀ op, op ∈ ops → stable op = true)
    (hquiet : ∀ f, f ∈ (run (step s0 (.announce o hint)) ops).flight →
      f.adv.origin = o → f.adv.seq ≤ (s0.nodes o).seq) :
    ∀ x, Reach (linked s0) o x → x ≠ o →
      ∃ e, e ∈ ((run (step s0 (.announce o hint)) ops).nodes x).agents ∧
        e.key = o ∧ e.origin = o ∧ (s0.nodes o).seq < e.seq := by
  intro x hx hxo
  obtain ⟨m, hm, hrm⟩ := announce_covers (self := o) (st := s0.nodes o) (hint := hint)
    (r := { kind := 3, key := o, metric := 0 }) (List.mem_append_right _ List.mem_cons_self)
  have hA := mem_announceAdvs hm
  have hq : ∀ f, f ∈ (run (step s0 (.announce o hint)) ops).flight → keyOf f ≠ (o, m.seq) := by
    intro f hf hkf
    simp only [keyOf, Prod.mk.injEq] at hkf
    have := hquiet f hf hkf.1
    have := hA.seq_gt
    omega
  obtain ⟨_, _, h3⟩ := C12_converges s0 o hint ops m hm ho hn255 hmh hirr hrange hfresh hnoold hnowd hst hq x hx hxo
  obtain ⟨e, he, h1, h2, h4⟩ := h3 _ hrm rfl
  exact ⟨e, he, h1, h2, Nat.lt_of_lt_of_le hA.seq_gt h4⟩

/-! ### the hypotheses hold after every history without third-party replays -/

def LinkWF (n : Nat) (s : Net) : Prop :=
  s.n = n ∧ ∀ a b, linked s a b = true → a ≠ b ∧ b < n

theorem linkWF_step {n : Nat} {s : Net} {op : Op} (hW : LinkWF n s) : LinkWF n (step s op) := by
  obtain ⟨hn, h⟩ := hW
  refine ⟨(step_n s op).trans hn, ?_⟩
  intro a b hab
  by_cases hc : ∃ c d, op = .connect c d
  · obtain ⟨c, d, rfl⟩ := hc
    simp only [step, stepCore] at hab
    split at hab
    · rename_i hcd
      have hcn : c < n := hn ▸ hcd.1
      have hdn : d < n := hn ▸ hcd.2.1
      simp only [linked, List.contains_eq_mem, List.mem_append, decide_eq_true_eq, tick_links] at hab h
      rcases hab with (hab | hab) | hab
      · split at hab
        · cases hab
        · simp only [List.mem_singleton, Prod.mk.injEq] at hab
          obtain ⟨rfl, rfl⟩ := hab
          exact ⟨hcd.2.2, hdn⟩
      · split at hab
        · cases hab
        · simp only [List.mem_singleton, Prod.mk.injEq] at hab
          obtain ⟨rfl, rfl⟩ := hab
          exact ⟨fun h' => hcd.2.2 h'.symm, hcn⟩
      · exact h a b hab
    · exact h a b hab
  · have hne : ∀ c d, op ≠ .connect c d := fun c d h' => hc ⟨c, d, h'⟩
    by_cases hd : ∃ c d, op = .disconnect c d
    · obtain ⟨c, d, rfl⟩ := hd
      simp only [step, stepCore] at hab
      split at hab
      · simp only [linked, List.contains_eq_mem, decide_eq_true_eq, tick_links] at hab h
        exact h a b (by simpa [linked] using (List.mem_filter.1 hab).1)
      · exact h a b hab
    · have hnd : ∀ c d, op ≠ .disconnect c d := fun c d h' => hd ⟨c, d, h'⟩
      have hl : (step s op).links = s.links := links_stepCore_eq (tick s) op hne hnd
      simp only [linked, hl] at hab
      exact h a b hab

theorem linkWF_run (n mh : Nat) (L : Node → List RAd) (ops : List Op) :
    ∀ a b, linked (run (init n mh L) ops) a b = true → a ≠ b ∧ b < n :=
  (run_induction (P := LinkWF n) _ ops
    ⟨rfl, by intro a b h; simp [linked, init, initH] at h⟩ (fun _ _ h => linkWF_step h)).2

/-- Without `withdraw` ops no ROUTE_WITHDRAW frame is ever in flight. -/
theorem nowd_run (s : Net) (ops : List Op) (h0 : ∀ f, f ∈ s.flight → f.adv.wd = false)
    (hnw : ∀ op, op ∈ ops → ∀ a h, op ≠ .withdraw a h) :
    ∀ f, f ∈ (run s ops).flight → f.adv.wd = false := by
  induction ops generalizing s with
  | nil => exact h0
  | cons op t ih =>
    apply ih (step s op)
    · intro f hf
      cases flight_step hf with
      | old h => exact h0 f h
      | ann hint hop ha hd hadv => exact (mem_announceAdvs hadv).wd
      | wdr hint hop ha hcidr hd hadv => exact absurd hop (hnw op List.mem_cons_self _ _)
      | fwd a m hm hl ha hb hd hne hns hself hseen hsb hlim hwire hadv =>
        rw [hadv, fwdAdv_wd]; exact h0 _ hm
      | rep ord hop ha hb hl hadv => exact (mem_replayAdvs hadv).wd
    · intro o ho; exact hnw o (List.mem_cons_of_mem _ ho)

/-- `C12_converges_all` for an announcement made after any history without third-party replays,
    without withdrawals and without hop limit: freshness of the sequence numbers is then a theorem
    (C14), not a hypothesis. -/
theorem C12_converges_run (n : Nat) (L : Node → List RAd) (pre ops : List Op) (o : Node)
    (hint : List (List RAd))
    (ho : o < n) (hn255 : n ≤ 255) (hb : benignRun (init n 0 L) pre = true)
    (hnw : ∀ op, op ∈ pre → ∀ a h, op ≠ .withdraw a h)
    (hst : ∀ op, op ∈ ops → stable op = true)
    (hquiet : ∀ f, f ∈ (run (step (run (init n 0 L) pre) (.announce o hint)) ops).flight →
      f.adv.origin = o → f.adv.seq ≤ ((run (init n 0 L) pre).nodes o).seq) :
    ∀ x, Reach (linked (run (init n 0 L) pre)) o x → x ≠ o → ∀ r, r ∈ L o → r.kind ≠ 3 →
      ∃ e, e ∈ ((run (step (run (init n 0 L) pre) (.announce o hint)) ops).nodes x).tab ∧
        e.kind = r.kind ∧ e.key = r.key ∧ e.origin = o ∧ ((run (init n 0 L) pre).nodes o).seq < e.seq := by
  have hI := run_induction_benign (P := MM.C14.SeqInv) _ pre (MM.C14.seqInv_init n 0 L) hb
    (fun s op hI hb => MM.C14.seqInv_step hI hb)
  have hwf := linkWF_run n 0 L pre
  have hn : (run (init n 0 L) pre).n = n := run_n _ _
  have hloc : ((run (init n 0 L) pre).nodes o).locals = L o := by
    rw [locals_run]; exact initNode_locals o (L o)
  have := C12_converges_all (run (init n 0 L) pre) o hint ops (by rw [hn]; exact ho) (by rw [hn]; exact hn255)
    (fun x => by rw [run_maxHops]; rfl)
    (by
      intro x
      cases h : linked (run (init n 0 L) pre) x x with
      | false => rfl
      | true => exact absurd rfl (hwf x x h).1)
    (by intro x p h; rw [hn]; exact (hwf x p h).2)
    (MM.C14.C14_partial n 0 L pre hb o).1
    (by
      intro f hf hfo
      have := hI.flight f hf
      rw [hfo] at this
      exact this)
    (nowd_run _ pre (by intro f hf; simp [init, initH] at hf) hnw)
    hst hquiet
  intro x hx hxo r hr hk
  exact this x hx hxo r (by rw [hloc]; exact hr) hk

/-- Non-vacuity: ring 0-1-2-3-0 brought up with local table exchange, agent 0 (two routes)
    announces, the frames are delivered in an arbitrary order with a duplicate; the final state is
    quiescent for that announcement and every other agent holds both routes. -/
def ringLocals : Node → List RAd := fun x => if x = 0 then [⟨0, 1, 0⟩, ⟨1, 2, 4⟩] else []

def ringPre : List Op := [
  .connect 0 1, .replay 0 1 [], .connect 1 2, .connect 2 3, .connect 3 0, .replay 0 3 [],
  .deliver 0 1 0, .deliver 0 3 0]

def ringSched : List Op := [
  .deliver 0 3 0, .dup 0 1 0, .deliver 3 2 0, .deliver 0 1 0, .deliver 1 2 0, .deliver 2 1 0,
  .deliver 2 3 0, .deliver 1 2 0, .deliver 3 2 0, .deliver 2 1 0, .deliver 2 3 0]

example : benignRun (init 4 0 ringLocals) ringPre = true := by decide
example : ∀ op, op ∈ ringPre → ∀ a h, op ≠ .withdraw a h := by
  intro op hop a h heq; subst heq; simp [ringPre] at hop
example : ∀ op, op ∈ ringSched → stable op = true := by decide
example : (run (step (run (init 4 0 ringLocals) ringPre) (.announce 0 [])) ringSched).flight.all
    (fun f => f.adv.origin != 0 || decide (f.adv.seq ≤ ((run (init 4 0 ringLocals) ringPre).nodes 0).seq)) = true := by
  decide
example : (((run (step (run (init 4 0 ringLocals) ringPre) (.announce 0 [])) ringSched).nodes 2).tab.map
    (fun e => (e.kind, e.key, e.origin, e.seq))) = [(0, 1, 0, 5), (1, 2, 0, 5)] := by decide

end MM.C12

namespace MM.C14
open MM.C11 MM.C12

/-- C14, "reaches each connected agent and renews its copy": after any history without
    third-party replays and withdrawals (no hop limit, at most 255 agents), when origin `o`
    announces and the frames of that announcement have all been delivered — under any order, any
    duplication, any interleaving with other announcements — every agent connected to `o` holds, for
    every route `o` advertises, a copy whose sequence number was issued by THIS announcement or a
    later one (it is above `o`'s counter before the announcement). -/
theorem C14_reaches_all (n : Nat) (L : Node → List RAd) (pre ops : List Op) (o : Node)
    (hint : List (List RAd))
    (ho : o < n) (hn255 : n ≤ 255) (hb : benignRun (init n 0 L) pre = true)
    (hnw : ∀ op, op ∈ pre → ∀ a h, op ≠ .withdraw a h)
    (hst : ∀ op, op ∈ ops → stable op = true)
    (hquiet : ∀ f, f ∈ (run (step (run (init n 0 L) pre) (.announce o hint)) ops).flight →
      f.adv.origin = o → f.adv.seq ≤ ((run (init n 0 L) pre).nodes o).seq) :
    ∀ x, Reach (linked (run (init n 0 L) pre)) o x → x ≠ o → ∀ r, r ∈ L o → r.kind ≠ 3 →
      ∃ e, e ∈ ((run (step (run (init n 0 L) pre) (.announce o hint)) ops).nodes x).tab ∧
        e.kind = r.kind ∧ e.key = r.key ∧ e.origin = o ∧ ((run (init n 0 L) pre).nodes o).seq < e.seq :=
  C12_converges_run n L pre ops o hint ho hn255 hb hnw hst hquiet

end MM.C14
