/-
  C37 — Configuration variable expansion is single-pass and follows the documented forms.

  "Text without a dollar sign is unchanged by expansion.  References to set variables are
   replaced by the variable's value, and values substituted from the environment are never
   expanded again.  An unset variable with a default takes the default, and an unset variable
   without one is left as written."

  Quantified over ALL texts (byte strings) and ALL environments (`Env = Bytes → Option Bytes`).
  Model: MM/Model/C37.lean (tied to /repo/internal/config/config.go:expandEnvVars by T-diff).
-/
import MM.Lemmas.C37
import MM.Gen.C37

namespace MM.C37
open MM

/-- The pattern compiled into the binary is, character for character, the one MM/Model/C37.lean
    models (regenerated from `envVarRegex.String()`): ANY edit of the regexp — including ones with
    no difference observable through expandEnvVars, such as `[^}]+` → `[^}]*` — breaks this tie and
    asks for the model to be re-read against the new pattern. -/
theorem C37_pattern_tie :
    Gen.C37.pattern = "\\$\\{([^}]+)\\}|\\$([A-Za-z_][A-Za-z0-9_]*)" := by decide

/-- Text without `$` is unchanged. -/
theorem C37_no_dollar_id (env : Env) (s : Bytes) (h : ∀ b ∈ s, b ≠ cDollar) : expand env s = s := by
  unfold expand
  rw [tokens_no_dollar s h, flatMap_subst_lit]

example : expand (fun _ => some [0x41]) [0x61, 0x7B, 0x7D, 0x3A] = [0x61, 0x7B, 0x7D, 0x3A] :=
  C37_no_dollar_id _ _ (by decide)

/-- Single pass, part 1: the text is cut — WITHOUT looking at the environment (`tokens` has no
    `env` argument) — into pieces whose concatenation is the text; the output is the
    concatenation of the images of the pieces, each piece mapped exactly once. -/
theorem C37_single_pass (env : Env) (s : Bytes) :
    (tokens s).flatMap Tok.src = s ∧ expand env s = (tokens s).flatMap (subst env) ∧
    ∀ t ∈ tokens s, t.WellFormed :=
  ⟨tokens_src s, rfl, tokens_wellFormed s⟩

/-- Single pass, part 2: the image of a reference whose variable is set is the value itself,
    byte for byte — whatever the value contains (`$`, `${…}`, braces…), it is not scanned. -/
theorem C37_value_verbatim (env : Env) (t : Tok) (name val : Bytes)
    (ht : t = .brace name ∨ t = .bare name) (hnd : splitDefault name = none)
    (hset : env name = some val) : subst env t = val := by
  rcases ht with rfl | rfl <;> simp [subst, replacement, hnd, hset]

/-- Same for the `${VAR:-default}` form. -/
theorem C37_value_verbatim_default (env : Env) (name var dflt val : Bytes)
    (hsd : splitDefault name = some (var, dflt)) (hset : env var = some val) :
    subst env (.brace name) = val := by
  simp [subst, replacement, hsd, hset]

/-- Consequence: the output does not depend on what a second expansion would do — two
    environments that agree on every variable give the same output, and replacing a value `v` by
    any `v'` changes the output only at the images of that variable's references.  Stated as:
    the output is a function of the token list and the per-token lookups only. -/
theorem C37_env_congr (env env' : Env) (s : Bytes)
    (h : ∀ t ∈ tokens s, subst env t = subst env' t) : expand env s = expand env' s := by
  unfold expand
  generalize tokens s = ts at h
  induction ts with
  | nil => rfl
  | cons t ts ih =>
    rw [List.flatMap_cons, List.flatMap_cons, h t (by simp), ih (fun x hx => h x (by simp [hx]))]

/-! ### Decomposition of a text around one reference -/

theorem expand_append_lit (env : Env) (pre rest : Bytes) (h : ∀ b ∈ pre, b ≠ cDollar) :
    expand env (pre ++ rest) = pre ++ expand env rest := by
  unfold expand
  rw [tokens_append_lit pre rest h, List.flatMap_append, flatMap_subst_lit]

theorem expand_brace (env : Env) (name post : Bytes) (hne : name ≠ []) (hnb : ∀ b ∈ name, b ≠ cRBrace) :
    expand env (cDollar :: cLBrace :: (name ++ cRBrace :: post)) =
      subst env (.brace name) ++ expand env post := by
  unfold expand
  rw [tokens_brace (braceName_intro name post hne hnb), List.flatMap_cons]
  congr 2
  rw [show name.length + 2 = (name.length + 1) + 1 from rfl, List.drop_succ_cons,
    show name ++ cRBrace :: post = (name ++ [cRBrace]) ++ post by simp]
  exact congrArg _ (List.drop_left' (by simp))

theorem expand_bare (env : Env) (name post : Bytes) (hid : IsIdent name) (hp : NoIdCharAhead post) :
    expand env (cDollar :: (name ++ post)) = subst env (.bare name) ++ expand env post := by
  unfold expand
  rw [tokens_bare (braceName_none_of_ident post hid) (bareName_intro post hid hp), List.flatMap_cons,
    List.drop_left' rfl]

/-! ### The documented forms.  `pre` is any `$`-free text, `post` ANY text (it is expanded on
    its own: what precedes it has no influence on it). -/

/-- `${VAR}` with VAR set → the value. -/
theorem C37_set_brace (env : Env) (pre name post val : Bytes)
    (hpre : ∀ b ∈ pre, b ≠ cDollar) (hne : name ≠ []) (hnb : ∀ b ∈ name, b ≠ cRBrace)
    (hnc : ∀ b ∈ name, b ≠ cColon) (hset : env name = some val) :
    expand env (pre ++ cDollar :: cLBrace :: (name ++ cRBrace :: post)) = pre ++ val ++ expand env post := by
  rw [expand_append_lit env pre _ hpre, expand_brace env name post hne hnb,
    C37_value_verbatim env _ name val (Or.inl rfl) (splitDefault_none_of_no_colon name hnc) hset,
    List.append_assoc]

/-- `$VAR` with VAR set → the value. -/
theorem C37_set_bare (env : Env) (pre name post val : Bytes)
    (hpre : ∀ b ∈ pre, b ≠ cDollar) (hid : IsIdent name) (hp : NoIdCharAhead post)
    (hset : env name = some val) :
    expand env (pre ++ cDollar :: (name ++ post)) = pre ++ val ++ expand env post := by
  rw [expand_append_lit env pre _ hpre, expand_bare env name post hid hp,
    C37_value_verbatim env _ name val (Or.inr rfl)
      (splitDefault_none_of_no_colon name (ident_no_colon hid)) hset,
    List.append_assoc]

/-- `${VAR:-default}`: VAR unset → the default; VAR set → the value. -/
theorem C37_default (env : Env) (pre var dflt post : Bytes)
    (hpre : ∀ b ∈ pre, b ≠ cDollar) (hvc : ∀ b ∈ var, b ≠ cColon)
    (hvb : ∀ b ∈ var, b ≠ cRBrace) (hdb : ∀ b ∈ dflt, b ≠ cRBrace) :
    expand env (pre ++ cDollar :: cLBrace :: ((var ++ cColon :: cMinus :: dflt) ++ cRBrace :: post)) =
      pre ++ (match env var with | some val => val | none => dflt) ++ expand env post := by
  have hne : var ++ cColon :: cMinus :: dflt ≠ [] := by simp
  have hnb : ∀ b ∈ var ++ cColon :: cMinus :: dflt, b ≠ cRBrace := by
    intro b hb
    rcases List.mem_append.mp hb with hb | hb
    · exact hvb b hb
    · rcases List.mem_cons.mp hb with rfl | hb
      · decide
      · rcases List.mem_cons.mp hb with rfl | hb
        · decide
        · exact hdb b hb
  rw [expand_append_lit env pre _ hpre, expand_brace env _ post hne hnb, List.append_assoc]
  congr 2
  simp only [subst, replacement, splitDefault_intro var dflt hvc]
  cases env var <;> rfl

/-- An unset variable without a default is left as written (`${VAR}`). -/
theorem C37_unset_kept_brace (env : Env) (pre name post : Bytes)
    (hpre : ∀ b ∈ pre, b ≠ cDollar) (hne : name ≠ []) (hnb : ∀ b ∈ name, b ≠ cRBrace)
    (hnc : ∀ b ∈ name, b ≠ cColon) (hunset : env name = none) :
    expand env (pre ++ cDollar :: cLBrace :: (name ++ cRBrace :: post)) =
      pre ++ (cDollar :: cLBrace :: (name ++ [cRBrace])) ++ expand env post := by
  rw [expand_append_lit env pre _ hpre, expand_brace env name post hne hnb, List.append_assoc]
  congr 2
  simp [subst, replacement, splitDefault_none_of_no_colon name hnc, hunset, Tok.src]

/-- An unset variable without a default is left as written (`$VAR`). -/
theorem C37_unset_kept_bare (env : Env) (pre name post : Bytes)
    (hpre : ∀ b ∈ pre, b ≠ cDollar) (hid : IsIdent name) (hp : NoIdCharAhead post)
    (hunset : env name = none) :
    expand env (pre ++ cDollar :: (name ++ post)) = pre ++ (cDollar :: name) ++ expand env post := by
  rw [expand_append_lit env pre _ hpre, expand_bare env name post hid hp, List.append_assoc]
  congr 2
  simp [subst, replacement, splitDefault_none_of_no_colon name (ident_no_colon hid), hunset, Tok.src]

/-! ### The hypotheses are satisfiable on non-trivial inputs; the value is not re-expanded -/

-- "a=${V}b$W" with V = "$W", W = "${V}" : each value is emitted once, verbatim.
example :
    expand (envOfList [([0x56], [0x24, 0x57]), ([0x57], [0x24, 0x7B, 0x56, 0x7D])])
      [0x61, 0x3D, 0x24, 0x7B, 0x56, 0x7D, 0x62, 0x24, 0x57] =
      [0x61, 0x3D, 0x24, 0x57, 0x62, 0x24, 0x7B, 0x56, 0x7D] := by
  have h := C37_set_brace (envOfList [([0x56], [0x24, 0x57]), ([0x57], [0x24, 0x7B, 0x56, 0x7D])])
    [0x61, 0x3D] [0x56] [0x62, 0x24, 0x57] [0x24, 0x57] (by decide) (by decide) (by decide) (by decide) rfl
  have h2 := C37_set_bare (envOfList [([0x56], [0x24, 0x57]), ([0x57], [0x24, 0x7B, 0x56, 0x7D])])
    [0x62] [0x57] [] [0x24, 0x7B, 0x56, 0x7D] (by decide) ⟨0x57, [], rfl, by decide, by simp⟩
    (by intro c t h; cases h) rfl
  simp only [List.append_nil, List.cons_append, List.nil_append] at h h2
  rw [h, h2]
  simp [expand, tokens_nil]

example : IsIdent [0x41, 0x5F, 0x39] := ⟨0x41, [0x5F, 0x39], rfl, by decide, by decide⟩
example : NoIdCharAhead [0x2D, 0x41] := by intro c t h; injection h with h _; subst h; decide

-- "${V:-d}" with V unset gives "d"; "${:-d}" (empty variable name) too.
example : expand (envOfList []) [0x24, 0x7B, 0x56, 0x3A, 0x2D, 0x64, 0x7D] = [0x64] := by
  have h := C37_default (envOfList []) [] [0x56] [0x64] [] (by simp) (by decide) (by decide) (by decide)
  simpa [expand, tokens_nil, envOfList] using h

end MM.C37
