/-
  C33 — Deterministic listening windows are computed correctly at every instant.

  "For every agent identity and every instant, including instants before the configured epoch,
   the next window is the earliest of that agent's windows that has not yet ended.  Windows recur
   exactly once per cycle and each fits inside its cycle.  An instant counts as in-window exactly
   when it lies between a window's start minus the clock tolerance and its end plus the tolerance."

  Model: MM/Model/C33.lean = internal/sleep/window.go after fixes/C33-floor-cycle-division.patch.
  Window `k` of an agent: `[winStart k, winEnd k]`, `winStart k = epoch + k·C + offset(agent)`,
  `winEnd k = winStart k + W`.  "Not yet ended at t" is `t ≤ winEnd k` (Go: `!now.After(end)`).

  * next-window, once-per-cycle, fits: proved in full (`C33_next_is_earliest_unended`,
    `C33_once_per_cycle`, `C33_fits`), for instants before and after the epoch.
  * in-window: the "only if" direction is proved in full (`C33_active_sound`).  The "if" direction
    (`C33_statement`) is REFUTED on the code (`C33_refuted`): an instant in the trailing tolerance
    `(end, end+tol)` is evaluated against the following window.  That behaviour is pinned by an
    existing unit test (window_test.go "false after window end"), so it is recorded as an open
    finding rather than changed; `C33_partial` proves the direction everywhere outside that region.
  * `C33_trunc_refuted`: the pre-fix truncating division violates next-is-earliest before the epoch
    (regression witness of the fixed defect).
-/
import MM.Lemmas.C33

namespace MM.C33

/-- Each window fits strictly inside one cycle: `0 ≤ offset` and `offset + W < C`; the effective
    window length is non-negative and shorter than the cycle (constructor clamp included). -/
theorem C33_fits (c : Cfg) (seed : Nat) (hC : 0 < c.C) (hC63 : c.C < 2^63) (hW : 0 ≤ c.W) :
    0 ≤ effW c ∧ 0 ≤ offset c seed ∧ offset c seed + effW c < c.C := by
  have h1 := effW_bounds c hC hW
  have h2 := offset_bounds c seed hC hC63 hW
  omega

/-- Windows recur exactly once per cycle: consecutive windows are exactly one cycle apart, window
    `k` lies inside cycle `k` (`[epoch + k·C, epoch + (k+1)·C)`), and no other window of the agent
    starts or ends in that cycle. -/
theorem C33_once_per_cycle (c : Cfg) (seed : Nat) (hC : 0 < c.C) (hC63 : c.C < 2^63) (hW : 0 ≤ c.W)
    (k : Int) :
    winStart c seed (k + 1) = winStart c seed k + c.C ∧
    effEpoch c + k * c.C ≤ winStart c seed k ∧ winEnd c seed k < effEpoch c + (k + 1) * c.C ∧
    (∀ j, effEpoch c + k * c.C ≤ winStart c seed j → winStart c seed j < effEpoch c + (k + 1) * c.C
        → j = k) ∧
    (∀ j, effEpoch c + k * c.C ≤ winEnd c seed j → winEnd c seed j < effEpoch c + (k + 1) * c.C
        → j = k) := by
  have ⟨hw, ho, hf⟩ := C33_fits c seed hC hC63 hW
  unfold winEnd winStart
  rw [Int.add_mul, Int.one_mul]
  refine ⟨by omega, by omega, by omega, ?_, ?_⟩
  · intro j h1 h2
    rcases Int.lt_trichotomy j k with h | h | h
    · have := mul_mono_right hC (show j + 1 ≤ k by omega)
      rw [Int.add_mul, Int.one_mul] at this; omega
    · exact h
    · have := mul_mono_right hC (show k + 1 ≤ j by omega)
      rw [Int.add_mul, Int.one_mul] at this; omega
  · intro j h1 h2
    rcases Int.lt_trichotomy j k with h | h | h
    · have := mul_mono_right hC (show j + 1 ≤ k by omega)
      rw [Int.add_mul, Int.one_mul] at this; omega
    · exact h
    · have := mul_mono_right hC (show k + 1 ≤ j by omega)
      rw [Int.add_mul, Int.one_mul] at this; omega

/-- What `nextWindow` returns on a valid input: window `k` with `k` the least index whose window
    has not ended at `t`. -/
theorem nextWindow_spec (c : Cfg) (seed : Nat) (t : Int) (hC63 : c.C < 2^63) (hv : Valid c t) :
    ∃ k : Int, nextWindow c seed t = (winStart c seed k, winEnd c seed k) ∧
      t ≤ winEnd c seed k ∧ winEnd c seed (k - 1) < t := by
  have ⟨hC, hW, _, hlo, hhi⟩ := hv
  have ⟨hw, ho, hf⟩ := C33_fits c seed hC hC63 hW
  have ⟨q, hcs, hq1, hq2⟩ := cycleStart_spec c t hC hlo hhi
  unfold nextWindow nextWindowWith
  dsimp only
  rw [hcs]
  by_cases hpast : t > effEpoch c + q * c.C + offset c seed + effW c
  · rw [if_pos hpast]
    refine ⟨q + 1, ?_, ?_, ?_⟩
    · unfold winEnd winStart; rw [Int.add_mul, Int.one_mul]
      congr 1 <;> omega
    · unfold winEnd winStart; rw [Int.add_mul, Int.one_mul]; omega
    · unfold winEnd winStart
      rw [show q + 1 - 1 = q by omega]; omega
  · rw [if_neg hpast]
    refine ⟨q, rfl, ?_, ?_⟩
    · unfold winEnd winStart; omega
    · unfold winEnd winStart; rw [Int.sub_mul, Int.one_mul]; omega

/-- **Next window = earliest un-ended window**, for every instant before or after the epoch:
    the reported window is one of the agent's windows, it has not ended at `t`, and every window
    of the agent that has not ended at `t` has an index at least as large. -/
theorem C33_next_is_earliest_unended (c : Cfg) (seed : Nat) (t : Int) (hC63 : c.C < 2^63)
    (hv : Valid c t) :
    ∃ k : Int, nextWindow c seed t = (winStart c seed k, winEnd c seed k) ∧
      t ≤ winEnd c seed k ∧ ∀ j : Int, t ≤ winEnd c seed j → k ≤ j := by
  have ⟨k, h1, h2, h3⟩ := nextWindow_spec c seed t hC63 hv
  refine ⟨k, h1, h2, ?_⟩
  intro j hj
  rcases Int.lt_or_le j k with h | h
  · exfalso
    have := mul_mono_right hv.hC (show j ≤ k - 1 by omega)
    unfold winEnd winStart at h3 hj
    omega
  · exact h

/-- `IsInWindow` in closed form: active iff inside the tolerance-extended NEXT window. -/
theorem active_iff_next (c : Cfg) (seed : Nat) (t : Int) :
    isInWindow c seed t = true ↔
      (nextWindow c seed t).1 - c.tol ≤ t ∧ t < (nextWindow c seed t).2 + c.tol := by
  unfold isInWindow info infoWith nextWindow
  generalize nextWindowWith cycleStart c seed t = p
  obtain ⟨s, e⟩ := p
  simp only [Bool.and_eq_true, decide_eq_true_eq]
  omega

/-- In-window, "only if": whenever `IsInWindow` answers true the instant lies between some
    window's start minus the tolerance and its end plus the tolerance. -/
theorem C33_active_sound (c : Cfg) (seed : Nat) (t : Int) (hC63 : c.C < 2^63) (hv : Valid c t)
    (h : isInWindow c seed t = true) :
    ∃ k : Int, winStart c seed k - c.tol ≤ t ∧ t < winEnd c seed k + c.tol := by
  have ⟨k, h1, _, _⟩ := nextWindow_spec c seed t hC63 hv
  rw [active_iff_next, h1] at h
  exact ⟨k, h.1, h.2⟩

/-- In-window, "if" — the full statement: every instant strictly between a window's start minus
    the tolerance and its end plus the tolerance counts as in-window. -/
def C33_statement : Prop :=
  ∀ (c : Cfg) (seed : Nat) (t : Int), c.C < 2^63 → Valid c t →
    (∃ k : Int, winStart c seed k - c.tol < t ∧ t < winEnd c seed k + c.tol) →
    isInWindow c seed t = true

/-- Witness (scaled to small numbers): cycle 60, window 10, tolerance 2, epoch 0, offset 0.
    `t = 11` lies in the trailing tolerance `(10, 12)` of window 0 but is reported not in-window
    because it is evaluated against window 1 = `[60, 70]`. -/
def witnessCfg : Cfg := { C := 60, W := 10, tol := 2, epoch := 0 }

theorem witness_valid : Valid witnessCfg 11 :=
  ⟨by decide, by decide, by decide, by decide, by decide⟩

theorem C33_refuted : ¬ C33_statement := by
  intro h
  have := h witnessCfg 0 11 (by decide) witness_valid ⟨0, by decide, by decide⟩
  revert this
  decide

/-- In-window, "if", outside the trailing tolerance: an instant `t` with
    `start_k − tol ≤ t ≤ end_k` (and `t < end_k + tol`, which only matters for `tol = 0`)
    counts as in-window.  The excluded region is exactly `end_k < t < end_k + tol`. -/
theorem C33_partial (c : Cfg) (seed : Nat) (t : Int) (hC63 : c.C < 2^63) (hv : Valid c t)
    (h : ∃ k : Int, winStart c seed k - c.tol ≤ t ∧ t ≤ winEnd c seed k ∧ t < winEnd c seed k + c.tol) :
    isInWindow c seed t = true := by
  have ⟨hC, hW, htol, _, _⟩ := hv
  have ⟨hw, ho, hf⟩ := C33_fits c seed hC hC63 hW
  have ⟨n, h1, h2, h3⟩ := nextWindow_spec c seed t hC63 hv
  obtain ⟨k, hk1, hk2, hk3⟩ := h
  rw [active_iff_next, h1]
  dsimp only
  rcases Int.lt_trichotomy k n with hlt | heq | hgt
  · exfalso
    have := mul_mono_right hC (show k ≤ n - 1 by omega)
    unfold winEnd winStart at h3 hk2
    omega
  · subst heq; exact ⟨hk1, hk3⟩
  · have := mul_mono_right hC (show n + 1 ≤ k by omega)
    rw [Int.add_mul, Int.one_mul] at this
    unfold winEnd winStart at *
    omega

/-- Regression witness of the fixed defect: with the pre-fix truncating division, at
    `t = epoch − 55` (cycle 60, window 10, offset 0) the reported window is window 0 = `[0, 10]`
    although window −1 = `[-60, -50]` has not ended yet; the fixed code reports window −1. -/
theorem C33_trunc_refuted :
    nextWindowWith cycleStartTrunc witnessCfg 0 (-55) = (winStart witnessCfg 0 0, winEnd witnessCfg 0 0) ∧
    (-55 : Int) ≤ winEnd witnessCfg 0 (-1) ∧
    nextWindow witnessCfg 0 (-55) = (winStart witnessCfg 0 (-1), winEnd witnessCfg 0 (-1)) := by
  decide

/-! Vacuity checks: the hypotheses are satisfiable by realistic values (5 min cycle, 30 s window,
    5 s tolerance, an instant 95 s before the epoch and one in 2026). -/

def realisticCfg : Cfg := { C := 300000000000, W := 30000000000, tol := 5000000000, epoch := 0 }

example : Valid realisticCfg (-95000000000) := ⟨by decide, by decide, by decide, by decide, by decide⟩
example : Valid realisticCfg 1790000000000000000 := ⟨by decide, by decide, by decide, by decide, by decide⟩
example : ∃ k : Int, winStart witnessCfg 0 k - witnessCfg.tol ≤ 9 ∧ 9 ≤ winEnd witnessCfg 0 k ∧
    9 < winEnd witnessCfg 0 k + witnessCfg.tol := ⟨0, by decide, by decide, by decide⟩
example : isInWindow witnessCfg 0 9 = true := by decide

end MM.C33
