/-
  C19 — Exit agents only connect to permitted destinations.

  "An exit agent opens an outbound TCP connection only when the destination lies in one of its
   configured exit networks, one of its currently present dynamic routes, or matches an allowed
   domain pattern.  This holds for any crafted open request and any sequence of dynamic route
   additions, updates and removals.  With nothing configured, nothing is permitted."

  Model: MM/Model/C19.lean, of the code AS FIXED by fixes/C19-idempotent-allowed-route.patch.
  Before the fix `AddAllowedRoute` appended unconditionally, so `add X; add X; remove X` left a
  copy of X in the allow list with no route present (witness kept in corpus/C19, known/C19.json).
-/
import MM.Lemmas.C19
import MM.Gen.LockC19a
import MM.Gen.LockC19h
import MM.Gen.LockC19m

namespace MM.C19
open MM

/-- State after any sequence of route-management operations and opens on a freshly initialised
    agent. -/
def after (exitEnabled : Bool) (cfgNets : List Net) (pats : List Bytes) (ops : List Op) : St :=
  run (init exitEnabled cfgNets pats) ops

/-- The networks of the dynamic routes currently present in the routing manager. -/
def dynNets (s : St) : List Net := s.dyn.map (·.2.1)

/-- **The allow list mirrors configuration ∪ dynamic routes** after ANY add / update / remove
    sequence: no handler ⇒ no dynamic route; otherwise the allow list is, key for key and in order,
    the configured exit networks followed by exactly one entry per dynamic route present. -/
theorem C19_allow_list_mirrors (exitEnabled : Bool) (cfgNets : List Net) (pats : List Bytes)
    (ops : List Op) :
    match (after exitEnabled cfgNets pats ops).allowed with
    | none => (after exitEnabled cfgNets pats ops).dyn = []
    | some rs =>
      rs.map Net.key = (baseOf exitEnabled cfgNets).map Net.key ++
        (dynNets (after exitEnabled cfgNets pats ops)).map Net.key := by
  have hinv := inv_run (inv_init exitEnabled cfgNets pats) ops
  have hm := hinv.mirror
  unfold after
  cases ha : (run (init exitEnabled cfgNets pats) ops).allowed with
  | none => rw [ha] at hm; exact hm.1
  | some rs =>
    rw [ha] at hm
    obtain ⟨tail, hrs, htail⟩ := hm
    dsimp only
    rw [hrs, List.map_append, htail]
    congr 1
    unfold dynNets keys
    rw [List.map_map]
    apply List.map_congr_left
    intro e he
    exact hinv.keyed e he

/-- What the statement calls "permitted": the address lies in a configured exit network (exit
    enabled) or in the network of a dynamic route that is present now. -/
def permittedIP (exitEnabled : Bool) (cfgNets : List Net) (s : St) (ip : Bytes) : Prop :=
  (∃ n ∈ baseOf exitEnabled cfgNets, n.contains ip = true) ∨ (∃ n ∈ dynNets s, n.contains ip = true)

theorem isAllowed_permitted (exitEnabled : Bool) (cfgNets : List Net) (pats : List Bytes)
    (ops : List Op) (rs : List Net) (ip : Bytes)
    (ha : (after exitEnabled cfgNets pats ops).allowed = some rs) (h : isAllowed rs ip = true) :
    permittedIP exitEnabled cfgNets (after exitEnabled cfgNets pats ops) ip := by
  have hm := C19_allow_list_mirrors exitEnabled cfgNets pats ops
  rw [ha] at hm
  dsimp only at hm
  unfold isAllowed at h
  split at h
  · cases h
  · simp only [List.any_eq_true] at h
    obtain ⟨r, hr, hc⟩ := h
    have hk : r.key ∈ rs.map Net.key := List.mem_map.mpr ⟨r, hr, rfl⟩
    rw [hm] at hk
    rcases List.mem_append.mp hk with hk | hk
    · obtain ⟨n, hn, hnk⟩ := List.mem_map.mp hk
      exact Or.inl ⟨n, hn, by rw [contains_of_key_eq hnk]; exact hc⟩
    · obtain ⟨n, hn, hnk⟩ := List.mem_map.mp hk
      exact Or.inr ⟨n, hn, by rw [contains_of_key_eq hnk]; exact hc⟩

/-- **Dial ⇒ permitted**, for any crafted destination after any operation sequence: the dialled
    address is the literal / resolved address of the request and it lies in a configured exit
    network or a currently present dynamic route, or the requested NAME matches an allowed domain
    pattern (only possible when the exit is enabled in the configuration). -/
theorem C19_dial_permitted (exitEnabled : Bool) (cfgNets : List Net) (pats : List Bytes)
    (ops : List Op) (d : Dest) (ip : Bytes)
    (h : openDest (after exitEnabled cfgNets pats ops) d = .dial ip) :
    (d = .ip ip ∨ ∃ nm, d = .name nm (some ip)) ∧
    (permittedIP exitEnabled cfgNets (after exitEnabled cfgNets pats ops) ip ∨
      ∃ nm, d = .name nm (some ip) ∧ exitEnabled = true ∧
        isDomainAllowed (pats.map parsePattern) nm = true) := by
  unfold openDest at h
  cases ha : (after exitEnabled cfgNets pats ops).allowed with
  | none => rw [ha] at h; cases h
  | some rs =>
    rw [ha] at h
    dsimp only at h
    cases d with
    | ip b =>
      dsimp only at h
      split at h
      · rename_i hal
        injection h with h; subst h
        exact ⟨Or.inl rfl, Or.inl (isAllowed_permitted exitEnabled cfgNets pats ops rs b ha hal)⟩
      · cases h
    | name nm res =>
      dsimp only at h
      cases res with
      | none => cases h
      | some b =>
        dsimp only at h
        split at h
        · rename_i hor
          injection h with h; subst h
          refine ⟨Or.inr ⟨nm, rfl⟩, ?_⟩
          rcases Bool.or_eq_true_iff.mp hor with hd | hal
          · right
            have hdom : (after exitEnabled cfgNets pats ops).domains =
                (if exitEnabled then pats.map parsePattern else []) := by
              unfold after
              have : ∀ (s : St) (ops : List Op), (run s ops).domains = s.domains := by
                intro s ops
                induction ops generalizing s with
                | nil => rfl
                | cons op ops ih =>
                  show (run (step s op) ops).domains = s.domains
                  rw [ih]
                  cases op with
                  | add n m => unfold step add; dsimp only; split <;> rfl
                  | remove n => unfold step remove; dsimp only; split <;> rfl
                  | open_ d => rfl
              rw [this]; rfl
            rw [hdom] at hd
            cases exitEnabled with
            | false => simp [isDomainAllowed] at hd
            | true => exact ⟨nm, rfl, rfl, by simpa using hd⟩
          · exact Or.inl (isAllowed_permitted exitEnabled cfgNets pats ops rs b ha hal)
        · cases h

/-- **With nothing configured, nothing is permitted**: no exit networks, no domain patterns and no
    dynamic route present (whatever was added and removed before) ⇒ no destination is dialled. -/
theorem C19_empty_denies (exitEnabled : Bool) (ops : List Op) (d : Dest) (ip : Bytes)
    (hdyn : (after exitEnabled [] [] ops).dyn = []) :
    openDest (after exitEnabled [] [] ops) d ≠ .dial ip := by
  intro h
  obtain ⟨_, hp⟩ := C19_dial_permitted exitEnabled [] [] ops d ip h
  rcases hp with hp | ⟨nm, _, _, hd⟩
  · rcases hp with ⟨n, hn, _⟩ | ⟨n, hn, _⟩
    · cases exitEnabled <;> simp [baseOf] at hn
    · simp [dynNets, hdyn] at hn
  · simp [isDomainAllowed] at hd

/-- A removed dynamic route stops being permitted — however often it had been added or updated:
    after `remove X` succeeds, X is not among the dynamic routes (so by `C19_dial_permitted` only
    the configuration can still permit its addresses). -/
theorem C19_removed_is_gone (exitEnabled : Bool) (cfgNets : List Net) (pats : List Bytes)
    (ops : List Op) (x : Net)
    (hok : (remove (after exitEnabled cfgNets pats ops) x).2 = .ok) :
    x.key ∉ (dynNets (after exitEnabled cfgNets pats (ops ++ [.remove x]))).map Net.key := by
  have hinv := inv_run (inv_init exitEnabled cfgNets pats) (ops ++ [.remove x])
  have hkeys : (dynNets (after exitEnabled cfgNets pats (ops ++ [.remove x]))).map Net.key =
      keys (after exitEnabled cfgNets pats (ops ++ [.remove x])).dyn := by
    unfold dynNets keys
    rw [List.map_map]
    apply List.map_congr_left
    intro e he
    exact (hinv.keyed e he).symm
  rw [hkeys]
  unfold after run at hok ⊢
  rw [List.foldl_append]
  simp only [List.foldl_cons, List.foldl_nil, step]
  unfold remove at hok ⊢
  dsimp only at hok ⊢
  split
  · rename_i hc; rw [if_pos hc] at hok; split at hok <;> cases hok
  · dsimp only
    rw [keys_filter]
    simp

/-! ### concurrent ManageRoute calls

  `add` / `remove` above are ONE step each.  In the code each is two single-lock steps (routing
  manager, then exit handler).  `ManageRoute` is called concurrently (HTTP API, control requests
  from peers).  Unserialized, the steps of two calls interleave and the mirror breaks
  (`C19_unserialized_refuted`; shown on the real code by the harness's `sched` op, which holds one
  call at the scheduling point between its steps).  The code AS FIXED by
  fixes/C19-serialize-manage-route.patch holds `Agent.routeManageMu` over the whole call, so every
  concurrent history of ManageRoute calls is a sequence of the atomic `add`/`remove` above in lock
  order, and the theorems above apply to it.  That the source has this shape is regenerated on every
  run by tools/lockshape.go (MM/Gen/LockC19*.lean) and decided here. -/

/-- The two steps compose to the atomic operation (so the micro-step model and `add` agree). -/
theorem add_is_two_steps (s : St) (n : Net) (m : Nat) :
    (add s n m).1 = (if (mAddStep s n m).2 then hAddStep (mAddStep s n m).1 n else s) := by
  unfold add mAddStep hAddStep
  dsimp only
  split <;> simp_all

theorem remove_is_two_steps (s : St) (n : Net) :
    (remove s n).1 = (if (mRemoveStep s n).2 then hRemoveStep (mRemoveStep s n).1 n else s) := by
  unfold remove mRemoveStep hRemoveStep
  dsimp only
  split <;> simp_all

/-- What would hold if interleaved steps were harmless: after `add X ∥ remove X` have both
    finished — in ANY interleaving of their steps — the allow list mirrors the dynamic routes. -/
def C19_unserialized_statement : Prop :=
  ∀ (x : Net),
    -- the interleaving  add.1 ; remove.1 ; remove.2 ; add.2
    let s0 := init false [] []
    let s1 := (mAddStep s0 x 5).1
    let s2 := (mRemoveStep s1 x).1
    let s3 := hRemoveStep s2 x
    let s4 := hAddStep s3 x
    (s4.allowed.getD []).map Net.key = (dynNets s4).map Net.key

/-- Refuted: that interleaving leaves X in the allow list with no dynamic route. -/
theorem C19_unserialized_refuted : ¬ C19_unserialized_statement := by
  intro h
  have := h (mkNet [127, 1, 0, 0] 16)
  revert this
  decide

/-- Lock shape of `Agent.ManageRoute` (fixed code): one acquisition of `routeManageMu`, and every use
    of the routing manager, of the exit handler and of `ensureExitHandler` happens while it is held:
    the two steps are inside ONE critical section. -/
theorem C19_manage_route_atomic :
    Gen.LockC19a.acquisitions = [("Agent.ManageRoute", 1)] ∧
    Gen.LockC19a.accesses.all (fun a => a.2.2.2 == "W") = true ∧
    Gen.LockC19a.calls.all (fun c => c.2.2 == "W") = true ∧
    Gen.LockC19a.regions.all (fun r => r.2.2 == 1) = true ∧
    (Gen.LockC19a.accesses.any (fun a => a.2.1 == "routeMgr") &&
      Gen.LockC19a.accesses.any (fun a => a.2.1 == "exitHandler") &&
      Gen.LockC19a.calls.any (fun c => c.2.1 == "ensureExitHandler")) = true := by decide

/-- Lock shape of the two steps and of the readers: every access to the allow list
    (`Handler.cfg` in these methods) and to the manager's route maps is inside the method's single
    critical section — writers under the write lock, readers (`isAllowed`, `GetDynamicRoutes`) under
    the read lock — so each is one atomic step of the model. -/
theorem C19_steps_atomic :
    Gen.LockC19h.acquisitions.all (fun a => a.2 == 1) = true ∧
    Gen.LockC19h.accesses.all (fun a => (a.2.2.2 == "W") || (a.2.2.1 == false && a.2.2.2 == "R")) = true ∧
    Gen.LockC19h.acquisitions.map (·.1) =
      ["Handler.AddAllowedRoute", "Handler.AllowedRouteCount", "Handler.RemoveAllowedRoute", "Handler.isAllowed"] ∧
    Gen.LockC19m.acquisitions.all (fun a => a.2 == 1) = true ∧
    Gen.LockC19m.accesses.all (fun a => (a.2.2.2 == "W") || (a.2.2.1 == false && a.2.2.2 == "R")) = true ∧
    Gen.LockC19m.regions.all (fun r => r.2.2 == 1 || r.2.1 == "call:notifyChange") = true := by decide

/-! ### concrete instances (non-vacuity and the former defect) -/

def netA : Net := mkNet [127, 1, 0, 0] 16      -- 127.1.0.0/16
def netB : Net := mkNet [10, 0, 0, 0] 8         -- 10.0.0.0/8

/-- add X, add X (metric update), remove X: X is no longer permitted. -/
example : openDest (after false [] [] [.add netA 5, .add netA 7, .remove netA]) (.ip [127, 1, 2, 3]) = .denied := by
  decide
/-- … while it is permitted as long as the route is present, and config routes stay. -/
example : openDest (after false [] [] [.add netA 5, .add netA 7]) (.ip [127, 1, 2, 3]) = .dial [127, 1, 2, 3] := by
  decide
example : openDest (after true [netB] [] [.add netA 5, .remove netA]) (.ip [10, 9, 8, 7]) = .dial [10, 9, 8, 7] := by
  decide
/-- An IPv4-mapped destination is matched against IPv4 networks. -/
example : openDest (after true [netB] [] []) (.ip [0,0,0,0,0,0,0,0,0,0,0xff,0xff,10,1,1,1]) =
    .dial [0,0,0,0,0,0,0,0,0,0,0xff,0xff,10,1,1,1] := by decide

end MM.C19
