/-
  C39 — Control responses reach only the agent that asked.

  "A management or status response is delivered only to the agent that issued the matching request,
   and it carries the answer of the agent that request targeted. This holds when several agents send
   requests through the same transit at the same time, and when an agent both originates and relays
   requests."

  Model: MM/Model/C39.lean — `pendingControl` / `forwardedControl` keyed by the bare request id,
  per-agent sequential ids, and a FIFO network of such agents.

  The pinned code does not have the property (`C39_refuted`: two requesters whose first request both
  carry id 1 through one transit; `C39_refuted_swallow`: a transit with a pending request of its own
  swallows a response it should have relayed).  `C39_partial`: on every history in which request ids
  live at an agent are distinct, the agent behaves exactly like the ideal agent that remembers for
  every live request who asked.  The defect is design-level (request ids would have to be rewritten
  per hop or keyed by (source, id) with per-hop disambiguation of responses) → known finding.
-/
import MM.Lemmas.C39
import MM.Gen.LockC39

namespace MM.C39


/-! ### atomic-step tie (tools/lockshape.go over internal/agent/agent.go): every access to
    `pendingControl`, `forwardedControl` and `nextControlID` in the three control functions is made under
    `controlMu`, and `handleControlResponse` looks up and deletes in ONE critical section — the model's
    `issue`/`onReq`/`onResp` are atomic functions. -/
theorem C39_lock_control_maps :
    (Gen.LockC39.accesses.all (fun a => a.2.2.2 == "W")) = true ∧
    Gen.LockC39.acquisitions.lookup "Agent.handleControlResponse" = some 1 ∧
    (Gen.LockC39.accesses.any (fun a => a.1 == "Agent.handleControlRequest" && a.2.1 == "forwardedControl" && a.2.2.1)) = true ∧
    (Gen.LockC39.accesses.any (fun a => a.1 == "Agent.SendControlRequestWithData" && a.2.1 == "pendingControl" && a.2.2.1)) = true := by
  decide

/-! ### the ideal agent: remembers the origin of every live request -/

/-- `none` = issued locally, `some p` = relayed for peer `p`. -/
abbrev Origin := Option Nat

inductive Op
  | issue (target : Nat)
  | req (src id target : Nat) (path : List Nat)
  | resp (id : Nat) (ok : Bool) (tag : Nat)
  | cancel (id : Nat)
  | issueFail (target : Nat)
  | sleep
  deriving Repr

def Ag.apply (a : Ag) : Op → Ag × List Out
  | .issue t => a.issue t
  | .req s i t p => a.onReq s i t p
  | .resp i ok tag => a.onResp i ok tag
  | .cancel i => a.cancel i
  | .issueFail t => a.issueFail t
  | .sleep => (a.sleep, [])

/-- Ideal bookkeeping: one table of live requests with their origin. -/
def idealApply (a : Ag) (g : AMap Origin) : Op → AMap Origin × List Out
  | .issue t =>
    if !a.peers.contains t then (g, [.sendErr])
    else (g.set (a.next + 1) none, [.send t (.req (a.next + 1) t [])])
  | .req s i t p =>
    let (_, outs) := a.onReq s i t p
    -- a request is recorded iff it was forwarded
    match outs with
    | [.send _ (.req _ _ _)] => (g.set i (some s), outs)
    | _ => (g, outs)
  | .resp i ok tag =>
    match g.get i with
    | some none => (g.del i, [.deliver i ok tag])
    | some (some p) => (g.del i, [.send p (.resp i ok tag)])
    | none => (g.del i, [])
  | .cancel i =>
    -- the local caller is gone: nobody is to be served for this id any more
    match g.get i with
    | some none => (g.del i, [.cancelled i])
    | _ => (g, [])
  | .issueFail _ => (g, [.sendErr])     -- nothing went out: nobody is to be served
  | .sleep => (g, [])                   -- requests in flight stay in flight

/-- The real tables represent exactly the ideal table. -/
structure Sync (a : Ag) (g : AMap Origin) : Prop where
  fwd : ∀ i, a.fwd.get i = (match g.get i with | some (some p) => some p | _ => none)
  pend : ∀ i, (a.pending.get i).isSome = (g.get i == some none)

/-- `Distinct`: a request (incoming or local) never uses an id that is live at this agent. -/
def fresh (a : Ag) (g : AMap Origin) : Op → Prop
  | .issue _ => g.get (a.next + 1) = none
  | .req _ i _ _ => g.get i = none
  | .resp _ _ _ => True
  | .cancel _ => True
  | .issueFail _ => g.get (a.next + 1) = none
  | .sleep => True

theorem sync_step {a : Ag} {g : AMap Origin} (hs : Sync a g) (o : Op) (hf : fresh a g o) :
    (a.apply o).2 = (idealApply a g o).2 ∧ Sync (a.apply o).1 (idealApply a g o).1 := by
  cases o with
  | issue t =>
    simp only [Ag.apply, Ag.issue, idealApply]
    by_cases hp : a.peers.contains t = true
    · simp only [hp, Bool.not_true, Bool.false_eq_true, if_false]
      refine ⟨by trivial, ⟨fun i => ?_, fun i => ?_⟩⟩
      · by_cases hi : i = a.next + 1
        · subst hi
          have := hs.fwd (a.next + 1)
          rw [hf] at this
          simp only [AMap.get_set_same]
          exact this
        · simp only [AMap.get_set_ne _ _ _ _ hi]; exact hs.fwd i
      · by_cases hi : i = a.next + 1
        · subst hi; simp [AMap.get_set_same]
        · simp only [AMap.get_set_ne _ _ _ _ hi]; exact hs.pend i
    · have hp' : a.peers.contains t = false := by simpa using hp
      simp only [hp', Bool.not_false, if_true]
      exact ⟨by trivial, hs⟩
  | req s i t p =>
    simp only [fresh] at hf
    simp only [Ag.apply, idealApply]
    unfold Ag.onReq
    by_cases hl : (t != 0 && t != a.self) = true
    · simp only [hl, if_true]
      -- forwarding branch
      cases hhop : a.hopOf t p with
      | none => simp only []; exact ⟨by trivial, hs⟩
      | some nr =>
        obtain ⟨n, rest⟩ := nr
        simp only []
        by_cases hn : a.peers.contains n = true
        · simp only [hn, Bool.not_true, Bool.false_eq_true, if_false]
          refine ⟨by trivial, ⟨fun j => ?_, fun j => ?_⟩⟩
          · by_cases hj : j = i
            · subst hj; simp [AMap.get_set_same]
            · simp only [AMap.get_set_ne _ _ _ _ hj]; exact hs.fwd j
          · by_cases hj : j = i
            · subst hj
              have := hs.pend j
              rw [hf] at this
              simp only [AMap.get_set_same]
              simpa using this
            · simp only [AMap.get_set_ne _ _ _ _ hj]; exact hs.pend j
        · have hn' : a.peers.contains n = false := by simpa using hn
          simp only [hn', Bool.not_false, if_true]
          exact ⟨by trivial, hs⟩
    · have hl' : (t != 0 && t != a.self) = false := by simpa using hl
      simp only [hl', Bool.false_eq_true, if_false]
      exact ⟨by trivial, hs⟩
  | resp i ok tag =>
    simp only [Ag.apply, Ag.onResp, idealApply]
    have h1 := hs.fwd i
    have h2 := hs.pend i
    have hsync : Sync { a with pending := a.pending.del i, fwd := a.fwd.del i } (g.del i) := by
      refine ⟨fun j => ?_, fun j => ?_⟩
      · by_cases hj : j = i
        · subst hj; simp [AMap.get_del_same]
        · simp only [AMap.get_del_ne _ _ _ hj]; exact hs.fwd j
      · by_cases hj : j = i
        · subst hj; simp [AMap.get_del_same]
        · simp only [AMap.get_del_ne _ _ _ hj]; exact hs.pend j
    cases hg : g.get i with
    | none =>
      rw [hg] at h1 h2
      have hp : (a.pending.get i).isSome = false := by simpa using h2
      simp only [hp, Bool.false_eq_true, if_false, h1]
      exact ⟨by trivial, hsync⟩
    | some o =>
      cases o with
      | none =>
        rw [hg] at h2
        have hp : (a.pending.get i).isSome = true := by simpa using h2
        simp only [hp, if_true]
        exact ⟨by trivial, hsync⟩
      | some p =>
        rw [hg] at h1 h2
        have hp : (a.pending.get i).isSome = false := by simpa using h2
        simp only [hp, Bool.false_eq_true, if_false, h1]
        exact ⟨by trivial, hsync⟩
  | cancel i =>
    simp only [Ag.apply, Ag.cancel, idealApply]
    have h1 := hs.fwd i
    have h2 := hs.pend i
    cases hg : g.get i with
    | none =>
      rw [hg] at h2
      have hp : (a.pending.get i).isSome = false := by simpa using h2
      simp only [hp, Bool.false_eq_true, if_false]
      exact ⟨by trivial, hs⟩
    | some o =>
      cases o with
      | some p =>
        rw [hg] at h2
        have hp : (a.pending.get i).isSome = false := by simpa using h2
        simp only [hp, Bool.false_eq_true, if_false]
        exact ⟨by trivial, hs⟩
      | none =>
        rw [hg] at h1 h2
        have hp : (a.pending.get i).isSome = true := by simpa using h2
        simp only [hp, if_true]
        refine ⟨by trivial, ⟨fun j => ?_, fun j => ?_⟩⟩
        · by_cases hj : j = i
          · subst hj; simp [AMap.get_del_same, h1]
          · simp only [AMap.get_del_ne _ _ _ hj]; exact hs.fwd j
        · by_cases hj : j = i
          · subst hj; simp [AMap.get_del_same]
          · simp only [AMap.get_del_ne _ _ _ hj]; exact hs.pend j

  | issueFail t =>
    simp only [fresh] at hf
    simp only [Ag.apply, Ag.issueFail, idealApply]
    by_cases hp : a.peers.contains t = true
    · simp only [hp, Bool.not_true, Bool.false_eq_true, if_false]
      refine ⟨by trivial, ⟨fun i => hs.fwd i, fun i => ?_⟩⟩
      by_cases hi : i = a.next + 1
      · subst hi
        simp [AMap.get_del_same, hf]
      · simp only [AMap.get_del_ne _ _ _ hi, AMap.get_set_ne _ _ _ _ hi]; exact hs.pend i
    · have hp' : a.peers.contains t = false := by simpa using hp
      simp only [hp', Bool.not_false, if_true]
      exact ⟨by trivial, hs⟩
  | sleep =>
    simp only [Ag.apply, Ag.sleep, idealApply]
    exact ⟨by trivial, ⟨hs.fwd, hs.pend⟩⟩

/-- **Request ids of one agent are never reused**: no operation lowers `nextControlID`, a cancelled
    request keeps its id burnt, and every new local request gets an id above all earlier ones. -/
theorem C39_local_ids_never_reused (a : Ag) (o : Op) :
    a.next ≤ (a.apply o).1.next ∧
    (∀ t, o = .issue t → a.peers.contains t = true →
      (a.apply o).1.next = a.next + 1 ∧ (a.apply o).2 = [.send t (.req (a.next + 1) t [])]) := by
  cases o with
  | issue t =>
    refine ⟨?_, fun t' h hp => ?_⟩
    · simp only [Ag.apply, Ag.issue]; split <;> simp
    · injection h with h; subst h
      have hm : t ∈ a.peers := by simpa using hp
      simp [Ag.apply, Ag.issue, hm]
  | req s i t p =>
    refine ⟨?_, fun _ h => by cases h⟩
    simp only [Ag.apply, Ag.onReq]
    split
    · split
      · simp
      · split <;> simp
    · simp
  | resp i ok tag =>
    refine ⟨?_, fun _ h => by cases h⟩
    simp only [Ag.apply, Ag.onResp]
    split
    · simp
    · split <;> simp
  | cancel i =>
    refine ⟨?_, fun _ h => by cases h⟩
    simp only [Ag.apply, Ag.cancel]
    split <;> simp
  | issueFail t =>
    refine ⟨?_, fun _ h => by cases h⟩
    simp only [Ag.apply, Ag.issueFail]
    split <;> simp
  | sleep => exact ⟨Nat.le_refl _, fun _ h => by cases h⟩

/-- the two halves of a local request compose to `issue` / `issueFail`. -/
theorem C39_issue_is_begin_then_end (a : Ag) (t : Nat) :
    (match a.issueBegin t with
      | some (a', id) => a'.issueEnd t id true
      | none => (a, [.sendErr])) = a.issue t ∧
    (match a.issueBegin t with
      | some (a', id) => a'.issueEnd t id false
      | none => (a, [.sendErr])) = a.issueFail t := by
  unfold Ag.issueBegin Ag.issue Ag.issueFail Ag.issueEnd
  by_cases hm : t ∈ a.peers <;> simp [hm]

/-- A failed write burns the id: the counter is ahead by one afterwards, nothing is pending under
    that id, and the next request gets a strictly larger id.  Sleep / wake never touch the counter. -/
theorem C39_failed_send_and_sleep_keep_ids_burnt (a : Ag) (t : Nat) (hp : a.peers.contains t = true) :
    (a.issueFail t).1.next = a.next + 1 ∧ (a.issueFail t).2 = [.sendErr] ∧ a.sleep.next = a.next ∧
      a.sleep.pending = a.pending ∧ a.sleep.fwd = a.fwd := by
  have hm : t ∈ a.peers := by simpa using hp
  simp [Ag.issueFail, Ag.sleep, hm]

/-- Run both agents over a history; `okRun` says every request is `fresh` when it arrives. -/
def runBoth : Ag → AMap Origin → List Op → List (List Out) × List (List Out)
  | _, _, [] => ([], [])
  | a, g, o :: os =>
    let r := runBoth (a.apply o).1 (idealApply a g o).1 os
    ((a.apply o).2 :: r.1, (idealApply a g o).2 :: r.2)

def okRun : Ag → AMap Origin → List Op → Prop
  | _, _, [] => True
  | a, g, o :: os => fresh a g o ∧ okRun (a.apply o).1 (idealApply a g o).1 os

/-- **C39_partial.**  On every history with distinct live request ids the real agent emits, step
    by step, exactly what the ideal agent emits: a response goes to the one requester of that id
    (the local caller or the peer it was relayed for) and to nobody else. -/
theorem C39_partial (ops : List Op) :
    ∀ (a : Ag) (g : AMap Origin), Sync a g → okRun a g ops → (runBoth a g ops).1 = (runBoth a g ops).2 := by
  induction ops with
  | nil => intro _ _ _ _; rfl
  | cons o os ih =>
    intro a g hs hr
    obtain ⟨h1, h2⟩ := sync_step hs o hr.1
    simp only [runBoth]
    rw [h1, ih _ _ h2 hr.2]

theorem sync_init (self : Nat) (peers : List Nat) : Sync { self := self, peers := peers } [] :=
  ⟨fun _ => rfl, fun _ => rfl⟩

example : okRun { self := 3, peers := [1, 2, 4, 5] } []
    [.req 1 11 4 [], .req 2 7 5 [], .issue 4, .resp 7 true 5, .resp 11 true 4, .resp 1 true 4] :=
  ⟨rfl, rfl, rfl, trivial, trivial, trivial, trivial⟩

/-! ### the system-level statement and its refutation -/

/-- Star topology of the witness: requesters 1 and 2, targets 4 and 5, all connected to transit 3. -/
def witnessNet : Net :=
  { agents := [(1, { self := 1, peers := [3] }), (2, { self := 2, peers := [3] }),
               (3, { self := 3, peers := [1, 2, 4, 5] }),
               (4, { self := 4, peers := [3] }), (5, { self := 5, peers := [3] })] }

/-- Every delivery at agent `i` for request id `r` must carry the tag of the agent that `i`'s
    request `r` targeted; and every issued request is eventually answered (FIFO run to quiescence). -/
def C39_statement : Prop :=
  ∀ (t1 t2 : Nat), t1 ∈ [4, 5] → t2 ∈ [4, 5] →
    let n := (((witnessNet.issueVia 1 t1 3 []).issueVia 2 t2 3 []).runQ 16)
    n.queue = [] ∧ n.delivered.length = 2 ∧
      ∀ d ∈ n.delivered, (d.1 = 1 → d.2.2.2 = t1) ∧ (d.1 = 2 → d.2.2.2 = t2)

/-- Agents 1 and 2 both issue their first request (id 1) through transit 3, to targets 4 and 5:
    `forwardedControl[1]` is overwritten; agent 2 receives agent 4's answer, agent 1 receives nothing. -/
theorem C39_refuted : ¬ C39_statement := by
  intro h
  have := h 4 5 (by decide) (by decide)
  revert this
  decide

/-- What exactly happens in the witness. -/
theorem C39_refuted_trace :
    (((witnessNet.issueVia 1 4 3 []).issueVia 2 5 3 []).runQ 16).delivered = [(2, 1, true, 4)] := by
  decide

/-- A transit that has a pending request of its own with the same id swallows the response it
    should have relayed (and hands it to its own caller). -/
theorem C39_refuted_swallow :
    let a : Ag := { self := 3, peers := [1, 4, 5] }
    let a1 := (a.issue 5).1                 -- own request, id 1, to agent 5
    let a2 := (a1.onReq 1 1 4 []).1         -- relays request id 1 of peer 1 to agent 4
    (a2.onResp 1 true 4).2 = [.deliver 1 true 4] := by
  decide

/-- With distinct ids the same scenario is served correctly (non-vacuity of the partial theorem's
    hypothesis at system level). -/
example :
    let n0 := witnessNet.setAgent 2 { self := 2, peers := [3], next := 100 }
    (((n0.issueVia 1 4 3 []).issueVia 2 5 3 []).runQ 16).delivered = [(1, 1, true, 4), (2, 101, true, 5)] := by
  decide

end MM.C39
