import MM.Lemmas.C32
import MM.Gen.LockC32
import MM.Gen.CallsC32

/-!
  C32 — one live connection per peer; stale teardown never harms the live one.

  `Reachable fx s`: `s` is reached from the empty manager by ANY sequence of completed
  handshakes (simultaneous dials are simply two `connect` steps for the same peer), frames,
  keepalive timeouts, remote closes, Disconnect/DisconnectAll calls, read-loop teardowns, read loops
  that exit without a teardown (frame in flight at close), route
  learning and relay creation, in any interleaving.  The first two theorems hold for the code
  before and after fixes/C32-skip-stale-disconnect-callback.patch (`fx` arbitrary); the third one
  is about the fixed code and `C32_old_stale_teardown_harms` is the witness against the old one.
-/
namespace MM.C32

inductive Reachable (fx : Bool) : S → Prop where
  | init : Reachable fx {}
  | step (s : S) (l : Label) : Reachable fx s → Reachable fx (step fx s l).1

theorem reachable_inv (fx : Bool) (s : S) (h : Reachable fx s) : Inv s := by
  induction h with
  | init => exact inv_init
  | step s l _ ih => exact inv_step fx s ih l

/-- **At most one live connection per peer**: two connections to the same remote identity whose
    loops were started and that have not been closed are the same connection — it is the one in
    the map. -/
theorem C32_at_most_one (fx : Bool) (s : S) (h : Reachable fx s) (i j : Nat)
    (hi : (s.conn i).started = true ∧ (s.conn i).closed = false)
    (hj : (s.conn j).started = true ∧ (s.conn j).closed = false)
    (hp : (s.conn i).peer = (s.conn j).peer) : i = j ∧ s.peers (s.conn i).peer = some i := by
  have inv := reachable_inv fx s h
  have h1 := inv.openReg i hi.1 hi.2
  have h2 := inv.openReg j hj.1 hj.2
  rw [hp] at h1
  rw [h1] at h2
  exact ⟨Option.some.inj h2, by rw [hp]; exact h1⟩

/-- **A rejected duplicate is silent**: it is never started (no read loop) and no frame of it ever
    reaches the frame callback — in every reachable state, whatever is sent on it later. -/
theorem C32_rejected_dup_silent (fx : Bool) (s : S) (h : Reachable fx s) (i : Nat)
    (hr : (s.conn i).rejected = true) : (s.conn i).started = false ∧ (s.conn i).delivered = 0 :=
  (reachable_inv fx s h).rej i hr

/-- A `connect` for a peer that already has a registered connection is rejected and changes
    neither the map nor any other connection nor the routes/relays. -/
theorem C32_duplicate_rejected (fx : Bool) (s : S) (p c : Nat) (hp : s.peers p = some c) :
    (step fx s (.connect p)).2 = "rejected" ∧ (step fx s (.connect p)).1.peers = s.peers ∧
    (step fx s (.connect p)).1.entries = s.entries ∧
    ((step fx s (.connect p)).1.conn s.next).rejected = true := by
  simp [step, hp, S.setConn]

/-- Is entry `e` one of the current connection(s)?  (Its ghost tags are the registered ones.) -/
def current (s : S) (e : Entry) : Prop := s.peers e.p = some e.tp ∧ s.peers e.q = some e.tq

/-- **Stale teardown is harmless** (fixed code), call level: `handleDisconnect` for a connection
    that is not the registered one of its peer while another one is, changes nothing. -/
theorem C32_stale_teardown_noop (s : S) (c c' : Nat) (hp : s.peers (s.conn c).peer = some c')
    (hne : c' ≠ c) : handleDisconnect true s c = s := by
  simp [handleDisconnect, hp, hne]

/-- **Stale teardown is harmless** (fixed code), step level: whatever tears a connection `c` down
    (keepalive timeout, read-loop teardown), every route / relay entry that belongs to the
    CURRENT connections and is not tagged `c` is still there afterwards, and the registration of
    every other connection is untouched. -/
theorem C32_stale_teardown_harmless (s : S) (c : Nat) (l : Label)
    (hl : l = .ktimeout c ∨ l = .readerr c) :
    (∀ e ∈ s.entries, current s e → e.tp ≠ c → e.tq ≠ c → e ∈ (step true s l).1.entries) ∧
    (∀ p c', s.peers p = some c' → c' ≠ c → (step true s l).1.peers p = some c') := by
  have key : ∀ s0 : S, s0.peers = s.peers → s0.entries = s.entries → (s0.conn c).peer = (s.conn c).peer →
      (∀ e ∈ s.entries, current s e → e.tp ≠ c → e.tq ≠ c → e ∈ (handleDisconnect true s0 c).entries) ∧
      (∀ p c', s.peers p = some c' → c' ≠ c → (handleDisconnect true s0 c).peers p = some c') := by
    intro s0 hp0 he0 hpe
    unfold handleDisconnect
    simp only [hp0, hpe]
    cases hreg : s.peers (s.conn c).peer with
    | none =>
      simp only [callback, he0]
      refine ⟨?_, ?_⟩
      · intro e hem hcur _ _
        simp only [List.mem_filter, hem, true_and, Bool.and_eq_true, bne_iff_ne, ne_eq]
        constructor
        · intro hpp
          have := hcur.1; rw [hpp, hreg] at this; cases this
        · intro hqq
          have := hcur.2; rw [hqq, hreg] at this; cases this
      · intro p c' hpc _; rw [hp0]; exact hpc
    | some c1 =>
      by_cases h1 : c1 = c
      · subst h1
        simp only [↓reduceIte, callback, S.setPeer, he0]
        refine ⟨?_, ?_⟩
        · intro e hem hcur htp htq
          simp only [List.mem_filter, hem, true_and, Bool.and_eq_true, bne_iff_ne, ne_eq]
          constructor
          · intro hpp
            have := hcur.1; rw [hpp, hreg] at this
            exact htp (Option.some.inj this).symm
          · intro hqq
            have := hcur.2; rw [hqq, hreg] at this
            exact htq (Option.some.inj this).symm
        · intro p c' hpc hne
          rw [hp0]
          by_cases hpp : p = (s.conn c1).peer
          · rw [hpp, hreg] at hpc
            exact absurd (Option.some.inj hpc).symm hne
          · simp only [hpp, ↓reduceIte]; exact hpc
      · simp only [h1, ↓reduceIte]
        refine ⟨?_, ?_⟩
        · intro e hem _ _ _; rw [he0]; exact hem
        · intro p c' hpc _; rw [hp0]; exact hpc
  rcases hl with rfl | rfl
  · simp only [step]
    split
    · exact key (closeConn s c) rfl rfl (by simp [closeConn, S.setConn])
    · exact ⟨fun e hem _ _ _ => hem, fun p c' hpc _ => hpc⟩
  · simp only [step]
    split
    · exact key _ rfl rfl (by simp [S.setConn])
    · exact ⟨fun e hem _ _ _ => hem, fun p c' hpc _ => hpc⟩


/-! ### Atomic-step tie (facts regenerated from internal/peer/manager.go by tools/lockshape.go)

  The LTS treats `connect` (duplicate check + map insert of registerConnection), the
  compare-and-delete of handleDisconnect and the lookup-and-delete of Disconnect as single atomic
  steps.  That is a fact about the source: each of them is ONE region under the write lock that
  contains both the read and the write of `peers`, and none of them consults the map through a
  separately (read-)locked accessor. -/

namespace LockTie
open MM.Gen.LockC32

def acq (m : String) : Option Nat := (acquisitions.find? (fun a => a.1 == m)).map (·.2)
def has (m : String) (w : Bool) : Bool := accesses.contains (m, "peers", w, "W")
def allW (m : String) : Bool := accesses.all (fun a => a.1 != m || a.2.2.2 == "W")
/-- accessors of `peers` that take the lock themselves -/
def lockedReaders : List String := ["GetPeer", "GetAllPeers", "PeerCount", "GetPeerIDs", "SendToPeer", "Broadcast"]
def noReaderCall (m : String) : Bool := calls.all (fun c => c.1 != m || !lockedReaders.contains c.2.1)

/-- registerConnection: check and insert in one write-locked region. -/
theorem C32_lock_register_atomic :
    acq "Manager.registerConnection" = some 1 ∧ has "Manager.registerConnection" false = true ∧
    has "Manager.registerConnection" true = true ∧ allW "Manager.registerConnection" = true ∧
    noReaderCall "Manager.registerConnection" = true := by decide

/-- handleDisconnect: compare and delete in one write-locked region. -/
theorem C32_lock_teardown_atomic :
    acq "Manager.handleDisconnect" = some 1 ∧ has "Manager.handleDisconnect" false = true ∧
    has "Manager.handleDisconnect" true = true ∧ allW "Manager.handleDisconnect" = true ∧
    noReaderCall "Manager.handleDisconnect" = true := by decide

/-- Disconnect / DisconnectAll: the map is read (lookup / snapshot) and emptied in ONE write-locked region — the
    region that reads it is the one that removes the entries — and neither goes through a separately locked
    accessor. -/
theorem C32_lock_disconnect_atomic :
    acq "Manager.Disconnect" = some 1 ∧ allW "Manager.Disconnect" = true ∧ has "Manager.Disconnect" true = true ∧
    has "Manager.Disconnect" false = true ∧ noReaderCall "Manager.Disconnect" = true ∧
    acq "Manager.DisconnectAll" = some 1 ∧ allW "Manager.DisconnectAll" = true ∧
    has "Manager.DisconnectAll" true = true ∧ has "Manager.DisconnectAll" false = true ∧
    noReaderCall "Manager.DisconnectAll" = true := by decide

/-- handleDisconnect decides "stale or not" under the lock; the model's teardown step acts on that decision at
    once. In the source nothing stands between the last Unlock and the disconnect callback — no call (such as a wait
    for the connection's frame handlers), no channel receive, no select (facts: tools/c32_calls.go). -/
def afterLastUnlock (l : List String) : List String :=
  (l.reverse.takeWhile (fun c => c != "m.mu.Unlock")).reverse

theorem C32_calls_decision_then_callback :
    (afterLastUnlock MM.Gen.CallsC32.handleDisconnect).head? = some "m.cfg.OnPeerDisconnect" ∧
    MM.Gen.CallsC32.handleDisconnect.any (fun c => c == "<-chan" || c == "select") = false := by decide

end LockTie

/-! ### Non-vacuity -/

/-- Keepalive timeout of connection 0, the peer reconnects (connection 1) and its routes are
    learned again BEFORE the old read loop runs its own teardown of connection 0: with the fixed
    code the 3 routes and the relay entry of connection 1 survive. -/
example :
    let s := run true {} [.connect 1, .connect 2, .learn 1 2, .ktimeout 0, .connect 1, .learn 1 3, .relay 1 2, .readerr 0]
    routesVia s 1 = 3 ∧ relaysOf s 1 = 1 ∧ s.peers 1 = some 2 := by decide

/-- Simultaneous dials: the second connection to peer 1 is rejected, frames on it are dropped. -/
example :
    let s := run true {} [.connect 1, .connect 1, .frame 1, .frame 0]
    (s.conn 1).rejected = true ∧ (s.conn 1).delivered = 0 ∧ (s.conn 0).delivered = 1 := by decide

/-! ### Witness of the defect of the code before the fix -/

/-- Before the fix the same schedule destroyed the routes and relays of the live connection:
    the stale read-loop teardown of connection 0 still ran the disconnect callback, which removes
    by peer id. -/
theorem C32_old_stale_teardown_harms :
    let s := run false {} [.connect 1, .connect 2, .learn 1 2, .ktimeout 0, .connect 1, .learn 1 3, .relay 1 2]
    let s' := (step false s (.readerr 0)).1
    s.peers 1 = some 2 ∧ routesVia s 1 = 3 ∧ relaysOf s 1 = 1 ∧
    (∀ e ∈ s.entries, e.tp ≠ 0 ∧ e.tq ≠ 0) ∧
    s'.peers 1 = some 2 ∧ routesVia s' 1 = 0 ∧ relaysOf s' 1 = 0 := by decide

end MM.C32
