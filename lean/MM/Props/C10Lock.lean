/-
  C10 — atomic-step tie for all four route tables: every maintenance operation is one critical
  section under the write lock (see Props/C08Lock.lean, Props/C09Lock.lean).
-/
import MM.Props.C08Lock
import MM.Props.C09Lock

namespace MM.C08

theorem C10_atomic_steps :
    (stepsAtomic Gen.LockC08.acquisitions Gen.LockC08.accesses Gen.LockC08.calls
      ["Table.AddRoute", "Table.RemoveRoute", "Table.RemoveRoutesFromPeer",
       "Table.CleanupStaleRoutes", "Table.Clear"] ["Table.Lookup"] = true) ∧
    (stepsAtomic Gen.LockC09d.acquisitions Gen.LockC09d.accesses Gen.LockC09d.calls
      ["DomainTable.AddRoute", "DomainTable.RemoveRoute", "DomainTable.RemoveRoutesFromPeer",
       "DomainTable.CleanupStaleRoutes", "DomainTable.Clear"] ["DomainTable.Lookup"] = true) ∧
    (stepsAtomic Gen.LockC09f.acquisitions Gen.LockC09f.accesses Gen.LockC09f.calls
      ["ForwardTable.AddRoute", "ForwardTable.RemoveRoute", "ForwardTable.RemoveRoutesFromPeer",
       "ForwardTable.CleanupStaleRoutes", "ForwardTable.Clear"] ["ForwardTable.Lookup"] = true) ∧
    (stepsAtomic Gen.LockC09a.acquisitions Gen.LockC09a.accesses Gen.LockC09a.calls
      ["AgentTable.AddRoute", "AgentTable.RemoveRoute", "AgentTable.RemoveRoutesFromPeer",
       "AgentTable.CleanupStaleRoutes", "AgentTable.Clear"] ["AgentTable.Lookup"] = true) := by decide

end MM.C08
