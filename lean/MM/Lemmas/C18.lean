/-
  C18 — invariants of the stream LTS (helpers for MM/Props/C18.lean).
-/
import MM.Model.C18

namespace MM.C18
variable {α : Type}

/-! ### small list facts -/

theorem lookup_filter_ne {β : Type} (m : List (Nat × β)) (id id' : Nat) (hne : id' ≠ id) :
    (m.filter (fun e => e.1 != id)).lookup id' = m.lookup id' := by
  induction m with
  | nil => rfl
  | cons e t ih =>
    obtain ⟨k, v⟩ := e
    by_cases hk : k = id
    · subst hk
      have h1 : (id' == k) = false := by simp [hne]
      simp [List.filter, List.lookup_cons, h1, ih]
    · have h2 : (k != id) = true := by simp [hk]
      simp only [List.filter, h2, List.lookup_cons, ih]

theorem pendOf_drop_nil : ∀ (n : Nat) (t : List (Micro α)), pendOf t = [] → pendOf (t.drop n) = []
  | 0, t, h => by simpa using h
  | _ + 1, [], _ => by simp [pendOf]
  | n + 1, m :: t, h => by
    have ht : pendOf t = [] := by
      cases m <;> simp_all [pendOf]
    simpa using pendOf_drop_nil n t ht

/-- After a FIN sub-step no payload is queued any more (true of the repaired code order). -/
def Safe : List (Micro α) → Prop
  | [] => True
  | m :: t => (m.isFin = true → pendOf t = []) ∧ Safe t

theorem Safe_drop : ∀ (n : Nat) (t : List (Micro α)), Safe t → Safe (t.drop n)
  | 0, t, h => by simpa using h
  | _ + 1, [], _ => by simp [Safe]
  | n + 1, _ :: t, h => by simpa using Safe_drop n t h.2

def hasFin (l : List (Micro α)) : Bool := l.any Micro.isFin

theorem hasFin_drop : ∀ (n : Nat) (t : List (Micro α)), hasFin (t.drop n) = true → hasFin t = true
  | 0, t, h => by simpa using h
  | _ + 1, [], h => by simp [hasFin] at h
  | n + 1, m :: t, h => by
    have := hasFin_drop n t (by simpa using h)
    simp [hasFin] at this ⊢
    exact Or.inr this

theorem safe_program (f : Frame α) : Safe (program false f) := by
  cases f with
  | data fin p => cases fin <;> cases p <;> simp [program, pushPart, finPart, Safe, Micro.isFin, pendOf]
  | close => simp [program, Safe, Micro.isFin]
  | reset => simp [program, Safe, Micro.isFin]

theorem pend_program (fin : Bool) (p : Option α) :
    pendOf (program false (.data fin p)) = (match p with | none => [] | some c => [c]) := by
  cases fin <;> cases p <;> simp [program, pushPart, finPart, pendOf]

theorem hasFin_program (f : Frame α) (h : hasFin (program false f) = true) :
    ∃ p, f = .data true p := by
  cases f with
  | data fin p =>
    cases fin
    · cases p <;> simp [program, pushPart, finPart, hasFin, Micro.isFin] at h
    · exact ⟨p, rfl⟩
  | close => simp [program, hasFin, Micro.isFin] at h
  | reset => simp [program, hasFin, Micro.isFin] at h

/-! ### invariants that hold for either code order -/

structure Inv1 (x : Sys α) : Prop where
  queue : x.pushed = x.delivered ++ x.s.buf
  dropClosed : x.dropped = true → x.s.closed = true
  closedOnce : x.s.closed = true → x.s.once = true
  onceState : x.s.once = true → x.s.state = .closed
  lfin : x.s.localFin = true → x.s.state = .hcl ∨ x.s.state = .closed
  opening : x.s.state = .opening → x.reg = false ∧ x.todo = [] ∧ x.s.localFin = false ∧ x.s.once = false
  drain : x.rpc = .drain → x.s.finCh = true ∨ x.s.closed = true
  prefixA : ∀ a, x.arrivedAtFin = some a → a <+: x.arrived
  hclFin : x.s.state = .hcl → x.s.localFin = true

theorem inv1_init (acc : Bool) (fr : List (Frame α)) : Inv1 (init acc fr) := by
  cases acc <;> constructor <;> simp [init]

theorem closeWrite_state (s : Stream α) :
    s.closeWrite.state = s.state ∨ (s.state = .open_ ∧ s.closeWrite.state = .hcl)
      ∨ (s.state = .hcr ∧ s.closeWrite.state = .closed) := by
  unfold Stream.closeWrite
  split
  · exact Or.inl rfl
  · split <;> simp_all

theorem finState_state (s : Stream α) :
    s.finState.state = s.state ∨ (s.state = .open_ ∧ s.finState.state = .hcr)
      ∨ (s.state = .hcl ∧ s.finState.state = .closed) := by
  unfold Stream.finState
  split <;> simp_all


section fields
variable (s : Stream α)
@[simp] theorem closeWrite_once : s.closeWrite.once = s.once := by
  unfold Stream.closeWrite; split; rfl; split <;> rfl
@[simp] theorem closeWrite_closed : s.closeWrite.closed = s.closed := by
  unfold Stream.closeWrite; split; rfl; split <;> rfl
@[simp] theorem closeWrite_buf : s.closeWrite.buf = s.buf := by
  unfold Stream.closeWrite; split; rfl; split <;> rfl
@[simp] theorem closeWrite_finCh : s.closeWrite.finCh = s.finCh := by
  unfold Stream.closeWrite; split; rfl; split <;> rfl
@[simp] theorem closeWrite_remoteFin : s.closeWrite.remoteFin = s.remoteFin := by
  unfold Stream.closeWrite; split; rfl; split <;> rfl
@[simp] theorem finState_once : s.finState.once = s.once := by
  unfold Stream.finState; split <;> rfl
@[simp] theorem finState_closed : s.finState.closed = s.closed := by
  unfold Stream.finState; split <;> rfl
@[simp] theorem finState_buf : s.finState.buf = s.buf := by
  unfold Stream.finState; split <;> rfl
@[simp] theorem finState_finCh : s.finState.finCh = s.finCh := by
  unfold Stream.finState; split <;> rfl
@[simp] theorem finState_remoteFin : s.finState.remoteFin = s.remoteFin := by
  unfold Stream.finState; split <;> rfl
@[simp] theorem finState_localFin : s.finState.localFin = s.localFin := by
  unfold Stream.finState; split <;> rfl
@[simp] theorem closeBegin_closed : s.closeBegin.closed = s.closed := by
  unfold Stream.closeBegin; split <;> rfl
@[simp] theorem closeBegin_buf : s.closeBegin.buf = s.buf := by
  unfold Stream.closeBegin; split <;> rfl
@[simp] theorem closeBegin_finCh : s.closeBegin.finCh = s.finCh := by
  unfold Stream.closeBegin; split <;> rfl
@[simp] theorem closeBegin_remoteFin : s.closeBegin.remoteFin = s.remoteFin := by
  unfold Stream.closeBegin; split <;> rfl
@[simp] theorem closeBegin_localFin : s.closeBegin.localFin = s.localFin := by
  unfold Stream.closeBegin; split <;> rfl
end fields

theorem inv1_next {ff : Bool} {x y : Sys α} (hi : Inv1 x) (h : stepNext ff x = some y) : Inv1 y := by
  obtain ⟨h1, h2, h3, h4, h5, h6, h7, h8, h9⟩ := hi
  unfold stepNext at h
  split at h
  · next f fs htodo hfr =>
    split at h
    · next hreg =>
      have hop : x.s.state ≠ .opening := fun ho => by simp [(h6 ho).1] at hreg
      split at h
      · next fin p =>
        injection h with h; subst h
        refine ⟨h1, h2, h3, h4, h5, fun ho => absurd ho hop, h7, ?_, h9⟩
        intro a ha
        dsimp only at ha
        split at ha
        · injection ha with ha; subst ha; exact List.prefix_refl _
        · have := h8 a ha
          cases p with
          | none => exact this
          | some c => exact this.trans (List.prefix_append _ _)
      · injection h with h; subst h
        exact ⟨h1, h2, h3, h4, h5, fun ho => absurd ho hop, h7, h8, h9⟩
    · injection h with h; subst h
      exact ⟨h1, h2, h3, h4, h5, by simpa [htodo] using h6, h7, h8, h9⟩
  · cases h

theorem inv1_micro {x y : Sys α} (hi : Inv1 x) (h : stepMicro x = some y) : Inv1 y := by
  obtain ⟨h1, h2, h3, h4, h5, h6, h7, h8, h9⟩ := hi
  have hop : x.todo ≠ [] → x.s.state ≠ .opening := fun hne ho => hne (h6 ho).2.1
  unfold stepMicro at h
  split at h
  · cases h
  · next p t ht =>
    have hop := hop (by simp [ht])
    split at h <;> (injection h with h; subst h)
    · next hc => exact ⟨h1, fun _ => hc, h3, h4, h5, fun ho => absurd ho hop, h7, h8, h9⟩
    · exact ⟨h1, h2, h3, h4, h5, fun ho => absurd ho hop, h7, h8, h9⟩
  · next p t ht =>
    have hop := hop (by simp [ht])
    split at h
    · injection h with h; subst h
      exact ⟨by simp [h1], h2, h3, h4, h5, fun ho => absurd ho hop, h7, h8, h9⟩
    · cases h
  · next t ht =>
    have hop := hop (by simp [ht])
    split at h <;> (injection h with h; subst h)
    · exact ⟨h1, h2, h3, h4, h5, fun ho => absurd ho hop, h7, h8, h9⟩
    · exact ⟨h1, h2, h3, h4, h5, fun ho => absurd ho hop, h7, h8, h9⟩
  · next t ht =>
    have hop := hop (by simp [ht])
    injection h with h; subst h
    exact ⟨h1, h2, h3, h4, h5, fun ho => absurd ho hop, fun _ => Or.inl rfl, h8, h9⟩
  · next t ht =>
    have hop := hop (by simp [ht])
    injection h with h; subst h
    have hs := finState_state x.s
    refine ⟨by simpa using h1, by simpa using h2, by simpa using h3, ?_, ?_, ?_, by simpa using h7, h8,
      fun hh => by rcases hs with hs | ⟨hs, hs'⟩ | ⟨hs, hs'⟩ <;> simp_all⟩
    · intro ho
      have := h4 (by simpa using ho)
      rcases hs with hs | ⟨hs, _⟩ | ⟨hs, _⟩ <;> simp_all
    · intro hl
      have := h5 (by simpa using hl)
      rcases hs with hs | ⟨hs, hs'⟩ | ⟨hs, hs'⟩ <;> simp_all
    · intro ho
      rcases hs with hs | ⟨hs, hs'⟩ | ⟨hs, hs'⟩ <;> simp_all
  · next t ht =>
    have hop := hop (by simp [ht])
    injection h with h; subst h
    exact ⟨h1, h2, h3, h4, h5, fun ho => absurd ho hop, h7, h8, h9⟩
  · next t ht =>
    have hop := hop (by simp [ht])
    injection h with h; subst h
    unfold Stream.closeBegin
    split
    · exact ⟨h1, h2, h3, h4, h5, fun ho => absurd ho hop, h7, h8, h9⟩
    · exact ⟨h1, h2, fun _ => rfl, fun _ => rfl, fun _ => Or.inr rfl, fun ho => by simp at ho, h7, h8, fun hh => by simp at hh⟩

theorem inv1_abort {x y : Sys α} (hi : Inv1 x) (h : stepAbort x = some y) : Inv1 y := by
  obtain ⟨h1, h2, h3, h4, h5, h6, h7, h8, h9⟩ := hi
  unfold stepAbort at h
  split at h
  · next p t ht =>
    split at h
    · next hc =>
      injection h with h; subst h
      exact ⟨h1, fun _ => hc, h3, h4, h5, fun ho => by simp [(h6 ho).2.1] at ht, h7, h8, h9⟩
    · cases h
  · cases h

theorem inv1_deliver {x : Sys α} {c : α} {b : List α} (hi : Inv1 x) (hb : x.s.buf = c :: b) :
    Inv1 (deliver x c b) := by
  obtain ⟨h1, h2, h3, h4, h5, h6, h7, h8, h9⟩ := hi
  exact ⟨by simp [deliver, h1, hb], h2, h3, h4, h5, h6, fun h => by simp [deliver] at h, h8, h9⟩

theorem inv1_step {ff : Bool} {x y : Sys α} (l : Label) (hi : Inv1 x) (h : step ff x l = some y) : Inv1 y := by
  cases l with
  | hNext => exact inv1_next hi h
  | hStep => exact inv1_micro hi h
  | hAbort => exact inv1_abort hi h
  | rStart =>
    simp only [step] at h
    split at h
    · split at h
      · next c b hb => injection h with h; subst h; exact inv1_deliver hi hb
      · injection h with h; subst h
        obtain ⟨h1, h2, h3, h4, h5, h6, h7, h8, h9⟩ := hi
        exact ⟨h1, h2, h3, h4, h5, h6, fun h => by simp at h, h8, h9⟩
    · cases h
  | rSelData =>
    simp only [step] at h
    split at h
    · split at h
      · next c b hb => injection h with h; subst h; exact inv1_deliver hi hb
      · cases h
    · cases h
  | rSelFin =>
    simp only [step] at h
    split at h
    · next hc =>
      injection h with h; subst h
      obtain ⟨h1, h2, h3, h4, h5, h6, h7, h8, h9⟩ := hi
      exact ⟨h1, h2, h3, h4, h5, h6, fun _ => Or.inl hc.2, h8, h9⟩
    · cases h
  | rSelClosed =>
    simp only [step] at h
    split at h
    · next hc =>
      injection h with h; subst h
      obtain ⟨h1, h2, h3, h4, h5, h6, h7, h8, h9⟩ := hi
      exact ⟨h1, h2, h3, h4, h5, h6, fun _ => Or.inr hc.2, h8, h9⟩
    · cases h
  | rDrain =>
    simp only [step] at h
    split at h
    · split at h
      · next c b hb => injection h with h; subst h; exact inv1_deliver hi hb
      · injection h with h; subst h
        obtain ⟨h1, h2, h3, h4, h5, h6, h7, h8, h9⟩ := hi
        exact ⟨h1, h2, h3, h4, h5, h6, fun h => by simp at h, h8, h9⟩
    · cases h
  | ack =>
    simp only [step] at h
    split at h
    · next ho =>
      injection h with h; subst h
      obtain ⟨h1, h2, h3, h4, h5, h6, h7, h8, h9⟩ := hi
      have := h6 ho
      exact ⟨h1, h2, h3, fun hh => by simp [this.2.2.2] at hh, fun hh => by simp [this.2.2.1] at hh,
        fun hh => by simp at hh, h7, h8, fun hh => by simp at hh⟩
    · cases h
  | lCloseWrite =>
    simp only [step] at h
    split at h
    · cases h
    · next hno =>
      injection h with h; subst h
      obtain ⟨h1, h2, h3, h4, h5, h6, h7, h8, h9⟩ := hi
      have hs := closeWrite_state x.s
      have hlf : x.s.closeWrite.localFin = true := by
        unfold Stream.closeWrite; split
        · assumption
        · split <;> rfl
      refine ⟨by simpa using h1, by simpa using h2, by simpa using h3, ?_, ?_, ?_, by simpa using h7, h8, fun _ => hlf⟩
      · intro ho
        have := h4 (by simpa using ho)
        rcases hs with hs | ⟨hs, _⟩ | ⟨hs, _⟩ <;> simp_all
      · intro _
        by_cases hl : x.s.localFin = true
        · have : x.s.closeWrite = x.s := by unfold Stream.closeWrite; simp [hl]
          simpa [this] using h5 hl
        · rcases hs with hs | ⟨hs, hs'⟩ | ⟨hs, hs'⟩
          · have hst : x.s.closeWrite.state = x.s.state := hs
            -- state unchanged while localFin was false: state is neither open_ nor hcr
            have h1' : x.s.state ≠ .open_ := fun e => by
              have : x.s.closeWrite.state = .hcl := by unfold Stream.closeWrite; simp [hl, e]
              simp [e] at hst; simp [this] at hst
            have h2' : x.s.state ≠ .hcr := fun e => by
              have : x.s.closeWrite.state = .closed := by unfold Stream.closeWrite; simp [hl, e]
              simp [e] at hst; simp [this] at hst
            have h3' : x.s.state ≠ .hcl := fun e => hl (h9 e)
            show x.s.closeWrite.state = .hcl ∨ x.s.closeWrite.state = .closed
            rw [hst]
            cases hq : x.s.state <;> simp_all
          · exact Or.inl hs'
          · exact Or.inr hs'
      · intro ho
        rcases hs with hs | ⟨hs, hs'⟩ | ⟨hs, hs'⟩ <;> simp_all
  | lClose =>
    simp only [step] at h
    split at h
    · cases h
    · next hno =>
      injection h with h; subst h
      obtain ⟨h1, h2, h3, h4, h5, h6, h7, h8, h9⟩ := hi
      unfold Stream.closeBegin
      split
      · exact ⟨h1, h2, h3, h4, h5, h6, h7, h8, h9⟩
      · exact ⟨h1, h2, fun _ => rfl, fun _ => rfl, fun _ => Or.inr rfl, fun ho => by simp at ho, h7, h8, fun hh => by simp at hh⟩
  | closeEnd =>
    simp only [step] at h
    split at h
    · next hc =>
      injection h with h; subst h
      obtain ⟨h1, h2, h3, h4, h5, h6, h7, h8, h9⟩ := hi
      exact ⟨h1, fun _ => rfl, fun _ => hc.1, h4, h5, h6, fun hd => (h7 hd).imp id (fun _ => rfl), h8, h9⟩
    · cases h

theorem inv1_reachable {ff : Bool} {x : Sys α} (h : Reachable ff x) : Inv1 x := by
  induction h with
  | init acc fr => exact inv1_init acc fr
  | step l _ hs ih => exact inv1_step l ih hs

/-! ### invariants of the repaired code order (`ff = false`) -/

structure Inv2 (x : Sys α) : Prop where
  acct : x.dropped = false → x.pushed ++ pendOf x.todo = x.arrived
  safe : Safe x.todo
  finSome : hasFin x.todo = true → x.arrivedAtFin.isSome = true
  finch : x.s.finCh = true → ∃ a, x.arrivedAtFin = some a ∧ (x.dropped = false → a <+: x.pushed)
  eofOk : ∀ d, x.eof = some (d, false) → ∃ a, x.arrivedAtFin = some a ∧ a <+: d

theorem inv2_init (acc : Bool) (fr : List (Frame α)) : Inv2 (init acc fr) := by
  cases acc <;> constructor <;> simp [init, pendOf, Safe, hasFin]

theorem inv2_next {x y : Sys α} (hj : Inv2 x) (h : stepNext false x = some y) : Inv2 y := by
  obtain ⟨j1, j2, j3, j4, j5⟩ := hj
  unfold stepNext at h
  split at h
  · next f fs htodo hfr =>
    rw [htodo] at j1
    have j1' : x.dropped = false → x.pushed = x.arrived := fun hd => by simpa [pendOf] using j1 hd
    by_cases hreg : x.reg = true
    · rw [if_pos hreg] at h
      cases f with
      | data fin p =>
        dsimp only at h
        injection h with h; subst h
        refine ⟨?_, by dsimp only; exact safe_program _, ?_, ?_, ?_⟩
        · intro hd
          have := j1' hd
          show x.pushed ++ pendOf (program false (.data fin p)) = _
          rw [pend_program]
          cases p <;> simp [this]
        · intro hf
          obtain ⟨p', hp'⟩ := hasFin_program (Frame.data fin p) hf
          injection hp' with hfin _
          subst hfin
          dsimp only
          cases hx : x.arrivedAtFin <;> simp
        · intro hc
          obtain ⟨a, ha, hp⟩ := j4 hc
          refine ⟨a, ?_, hp⟩
          dsimp only
          simp [ha]
        · intro d hd
          obtain ⟨a, ha, hp⟩ := j5 d hd
          refine ⟨a, ?_, hp⟩
          dsimp only
          simp [ha]
      | close =>
        dsimp only at h
        injection h with h; subst h
        exact ⟨fun hd => by simpa [program, pendOf] using j1' hd, by dsimp only; exact safe_program _,
          fun hf => by simp [program, hasFin, Micro.isFin] at hf, j4, j5⟩
      | reset =>
        dsimp only at h
        injection h with h; subst h
        exact ⟨fun hd => by simpa [program, pendOf] using j1' hd, by dsimp only; exact safe_program _,
          fun hf => by simp [program, hasFin, Micro.isFin] at hf, j4, j5⟩
    · rw [if_neg hreg] at h
      injection h with h; subst h
      exact ⟨by simpa [htodo] using j1, by simp [htodo, Safe], by simp [htodo, hasFin], j4, j5⟩
  · cases h

theorem inv2_micro {x y : Sys α} (hi : Inv1 x) (hj : Inv2 x) (h : stepMicro x = some y) : Inv2 y := by
  obtain ⟨j1, j2, j3, j4, j5⟩ := hj
  unfold stepMicro at h
  split at h
  · cases h
  · next p t ht =>
    rw [ht] at j1 j2 j3
    split at h <;> (injection h with h; subst h)
    · exact ⟨fun hd => by simp at hd, by simp [Safe], by simp [hasFin],
        fun hc => by obtain ⟨a, ha, _⟩ := j4 hc; exact ⟨a, ha, fun hd => by simp at hd⟩, j5⟩
    · exact ⟨fun hd => by simpa [pendOf] using j1 hd, j2.2,
        fun hf => j3 (by simp [hasFin] at hf ⊢; exact Or.inr hf), j4, j5⟩
  · next p t ht =>
    rw [ht] at j1 j2 j3
    split at h
    · injection h with h; subst h
      refine ⟨fun hd => by simpa [pendOf] using j1 hd, j2.2,
        fun hf => j3 (by simp [hasFin] at hf ⊢; exact Or.inr hf), ?_, j5⟩
      intro hc
      obtain ⟨a, ha, hp⟩ := j4 hc
      exact ⟨a, ha, fun hd => (hp hd).trans (List.prefix_append _ _)⟩
    · cases h
  · next t ht =>
    rw [ht] at j1 j2 j3
    have hpt : pendOf t = [] := j2.1 rfl
    split at h <;> (injection h with h; subst h)
    · refine ⟨fun hd => ?_, Safe_drop 2 t j2.2, fun hf => j3 ?_, j4, j5⟩
      · have := j1 hd
        simp only [pendOf, hpt, List.append_nil] at this
        simp [pendOf_drop_nil 2 t hpt, this]
      · have := hasFin_drop 2 t hf
        simp [hasFin] at this ⊢
        exact Or.inr this
    · exact ⟨fun hd => by simpa [pendOf] using j1 hd, j2.2,
        fun hf => j3 (by simp [hasFin] at hf ⊢; exact Or.inr hf), j4, j5⟩
  · next t ht =>
    rw [ht] at j1 j2 j3
    have hpt : pendOf t = [] := j2.1 rfl
    injection h with h; subst h
    refine ⟨fun hd => by simpa [pendOf] using j1 hd, j2.2,
      fun hf => j3 (by simp [hasFin] at hf ⊢; exact Or.inr hf), ?_, j5⟩
    intro _
    have hs := j3 (by simp [hasFin, Micro.isFin])
    cases ha : x.arrivedAtFin with
    | none => simp [ha] at hs
    | some a =>
      refine ⟨a, rfl, fun hd => ?_⟩
      have h1 := j1 hd
      simp only [pendOf, hpt, List.append_nil] at h1
      show a <+: x.pushed
      rw [h1]
      exact hi.prefixA a ha
  · next t ht =>
    rw [ht] at j1 j2 j3
    injection h with h; subst h
    exact ⟨fun hd => by simpa [pendOf] using j1 hd, j2.2,
      fun hf => j3 (by simp [hasFin] at hf ⊢; exact Or.inr hf), by simpa using j4, j5⟩
  · next t ht =>
    rw [ht] at j1 j2 j3
    injection h with h; subst h
    exact ⟨fun hd => by simpa [pendOf] using j1 hd, j2.2,
      fun hf => j3 (by simp [hasFin] at hf ⊢; exact Or.inr hf), j4, j5⟩
  · next t ht =>
    rw [ht] at j1 j2 j3
    injection h with h; subst h
    exact ⟨fun hd => by simpa [pendOf] using j1 hd, j2.2,
      fun hf => j3 (by simp [hasFin] at hf ⊢; exact Or.inr hf), by simpa using j4, j5⟩

theorem inv2_abort {x y : Sys α} (hj : Inv2 x) (h : stepAbort x = some y) : Inv2 y := by
  obtain ⟨j1, j2, j3, j4, j5⟩ := hj
  unfold stepAbort at h
  split at h
  · split at h
    · injection h with h; subst h
      exact ⟨fun hd => by simp at hd, by simp [Safe], by simp [hasFin],
        fun hc => by obtain ⟨a, ha, _⟩ := j4 hc; exact ⟨a, ha, fun hd => by simp at hd⟩, j5⟩
    · cases h
  · cases h

theorem inv2_deliver {x : Sys α} {c : α} {b : List α} (hj : Inv2 x) : Inv2 (deliver x c b) := by
  obtain ⟨j1, j2, j3, j4, j5⟩ := hj
  exact ⟨j1, j2, j3, j4, j5⟩

theorem inv2_step {x y : Sys α} (l : Label) (hi : Inv1 x) (hj : Inv2 x)
    (h : step false x l = some y) : Inv2 y := by
  cases l with
  | hNext => exact inv2_next hj h
  | hStep => exact inv2_micro hi hj h
  | hAbort => exact inv2_abort hj h
  | rStart =>
    simp only [step] at h
    split at h
    · split at h
      · injection h with h; subst h; exact inv2_deliver hj
      · injection h with h; subst h; exact ⟨hj.1, hj.2, hj.3, hj.4, hj.5⟩
    · cases h
  | rSelData =>
    simp only [step] at h
    split at h
    · split at h
      · injection h with h; subst h; exact inv2_deliver hj
      · cases h
    · cases h
  | rSelFin =>
    simp only [step] at h
    split at h
    · injection h with h; subst h; exact ⟨hj.1, hj.2, hj.3, hj.4, hj.5⟩
    · cases h
  | rSelClosed =>
    simp only [step] at h
    split at h
    · injection h with h; subst h; exact ⟨hj.1, hj.2, hj.3, hj.4, hj.5⟩
    · cases h
  | rDrain =>
    simp only [step] at h
    split at h
    · next hpc =>
      split at h
      · injection h with h; subst h; exact inv2_deliver hj
      · next hb =>
        injection h with h; subst h
        refine ⟨hj.1, hj.2, hj.3, hj.4, ?_⟩
        intro d hd
        dsimp only at hd
        split at hd
        · next e he => exact hj.5 d (by rw [he]; exact hd)
        · injection hd with hd
          injection hd with hd1 hd2
          subst hd1
          rcases hi.drain hpc with hf | hc
          · obtain ⟨a, ha, hp⟩ := hj.4 hf
            have hnd : x.dropped = false := by
              cases hdd : x.dropped with
              | false => rfl
              | true => simp [hi.dropClosed hdd] at hd2
            refine ⟨a, ha, ?_⟩
            have := hp hnd
            rw [hi.queue, hb, List.append_nil] at this
            exact this
          · simp [hc] at hd2
    · cases h
  | ack =>
    simp only [step] at h
    split at h
    · injection h with h; subst h; exact ⟨hj.1, hj.2, hj.3, hj.4, hj.5⟩
    · cases h
  | lCloseWrite =>
    simp only [step] at h
    split at h
    · cases h
    · injection h with h; subst h; exact ⟨hj.1, hj.2, hj.3, by simpa using hj.4, hj.5⟩
  | lClose =>
    simp only [step] at h
    split at h
    · cases h
    · injection h with h; subst h; exact ⟨hj.1, hj.2, hj.3, by simpa using hj.4, hj.5⟩
  | closeEnd =>
    simp only [step] at h
    split at h
    · injection h with h; subst h; exact ⟨hj.1, hj.2, hj.3, hj.4, hj.5⟩
    · cases h

theorem inv2_reachable {x : Sys α} (h : Reachable false x) : Inv2 x := by
  induction h with
  | init acc fr => exact inv2_init acc fr
  | step l hr hs ih => exact inv2_step l (inv1_reachable hr) ih hs

/-! ### frames may be appended to the wire later (what the engine does op by op) -/

/-- More frames arrive later. -/
def ext (x : Sys α) (fs : List (Frame α)) : Sys α := { x with frames := x.frames ++ fs }

theorem step_ext {ff : Bool} {x y : Sys α} (l : Label) (fs : List (Frame α))
    (h : step ff x l = some y) : step ff (ext x fs) l = some (ext y fs) := by
  cases l with
  | hNext =>
    simp only [step, stepNext] at h ⊢
    split at h
    · next f rest htodo hfr =>
      have h1 : (ext x fs).todo = [] := htodo
      have h2 : (ext x fs).frames = f :: (rest ++ fs) := by simp [ext, hfr]
      rw [h1, h2]
      simp only
      split at h
      · next hreg =>
        have : (ext x fs).reg = true := hreg
        rw [if_pos this]
        cases f <;> (simp only at h ⊢; injection h with h; subst h; rfl)
      · next hreg =>
        have : ¬ (ext x fs).reg = true := hreg
        rw [if_neg this]
        injection h with h; subst h; simp [ext, htodo]
    · cases h
  | hStep =>
    simp only [step, stepMicro] at h ⊢
    have ht : (ext x fs).todo = x.todo := rfl
    have hs : (ext x fs).s = x.s := rfl
    rw [ht, hs]
    split at h
    · cases h
    · split at h <;> (injection h with h; subst h; simp_all [ext])
    · split at h
      · injection h with h; subst h; simp_all [ext]
      · cases h
    · split at h <;> (injection h with h; subst h; simp_all [ext])
    · injection h with h; subst h; rfl
    · injection h with h; subst h; rfl
    · injection h with h; subst h; rfl
    · injection h with h; subst h; rfl
  | hAbort =>
    simp only [step, stepAbort] at h ⊢
    have ht : (ext x fs).todo = x.todo := rfl
    have hs : (ext x fs).s = x.s := rfl
    rw [ht, hs]
    split at h
    · split at h
      · injection h with h; subst h; simp_all [ext]
      · cases h
    · cases h
  | rStart =>
    simp only [step] at h ⊢
    have hr : (ext x fs).rpc = x.rpc := rfl
    have hs : (ext x fs).s = x.s := rfl
    rw [hr, hs]
    split at h
    · next hi => rw [if_pos hi]; split at h <;> (injection h with h; subst h; simp_all [ext, deliver])
    · cases h
  | rSelData =>
    simp only [step] at h ⊢
    have hr : (ext x fs).rpc = x.rpc := rfl
    have hs : (ext x fs).s = x.s := rfl
    rw [hr, hs]
    split at h
    · next hi =>
      rw [if_pos hi]
      split at h
      · injection h with h; subst h; simp_all [ext, deliver]
      · cases h
    · cases h
  | rSelFin =>
    simp only [step] at h ⊢
    have hr : (ext x fs).rpc = x.rpc := rfl
    have hs : (ext x fs).s = x.s := rfl
    rw [hr, hs]
    split at h
    · next hi => rw [if_pos hi]; injection h with h; subst h; rfl
    · cases h
  | rSelClosed =>
    simp only [step] at h ⊢
    have hr : (ext x fs).rpc = x.rpc := rfl
    have hs : (ext x fs).s = x.s := rfl
    rw [hr, hs]
    split at h
    · next hi => rw [if_pos hi]; injection h with h; subst h; rfl
    · cases h
  | rDrain =>
    simp only [step] at h ⊢
    have hr : (ext x fs).rpc = x.rpc := rfl
    have hs : (ext x fs).s = x.s := rfl
    rw [hr, hs]
    split at h
    · next hi => rw [if_pos hi]; split at h <;> (injection h with h; subst h; simp_all [ext, deliver])
    · cases h
  | ack =>
    simp only [step] at h ⊢
    have hs : (ext x fs).s = x.s := rfl
    rw [hs]
    split at h
    · next hi => rw [if_pos hi]; injection h with h; subst h; rfl
    · cases h
  | lCloseWrite =>
    simp only [step] at h ⊢
    have hs : (ext x fs).s = x.s := rfl
    rw [hs]
    split at h
    · cases h
    · next hi => rw [if_neg hi]; injection h with h; subst h; rfl
  | lClose =>
    simp only [step] at h ⊢
    have hs : (ext x fs).s = x.s := rfl
    rw [hs]
    split at h
    · cases h
    · next hi => rw [if_neg hi]; injection h with h; subst h; rfl
  | closeEnd =>
    simp only [step] at h ⊢
    have hs : (ext x fs).s = x.s := rfl
    rw [hs]
    split at h
    · next hi => rw [if_pos hi]; injection h with h; subst h; rfl
    · cases h

theorem reachable_ext {ff : Bool} {x : Sys α} (h : Reachable ff x) (fs : List (Frame α)) :
    Reachable ff (ext x fs) := by
  induction h with
  | init acc fr =>
    have : ext (init acc fr) fs = init acc (fr ++ fs) := by cases acc <;> rfl
    rw [this]; exact Reachable.init _ _
  | step l _ hs ih => exact Reachable.step l ih (step_ext l fs hs)

end MM.C18
