/-
  Helper lemmas for C07 (chunk loop, frame slicing, Encode gate). Core Lean only.
-/
import MM.Model.C07

namespace MM.C07
open MM

/-! ### `chunks` -/

theorem chunks_nil {α : Type} (n : Nat) : chunks n ([] : List α) = [] := by
  rw [chunks]; simp

theorem chunks_zero {α : Type} (b : List α) : chunks 0 b = [] := by
  rw [chunks]; simp

theorem chunks_cons {α : Type} {n : Nat} {b : List α} (hn : 0 < n) (hb : b ≠ []) :
    chunks n b = b.take n :: chunks n (b.drop n) := by
  rw [chunks]
  have : ¬ (n = 0 ∨ b = []) := by
    intro h; cases h with
    | inl h => omega
    | inr h => exact hb h
  simp [this]

theorem drop_length_lt {α : Type} {n : Nat} {b : List α} (hn : 0 < n) (hb : b ≠ []) :
    (b.drop n).length < b.length := by
  have : 0 < b.length := List.length_pos_iff.mpr hb
  simp only [List.length_drop]; omega

theorem chunks_flatten {α : Type} {n : Nat} (hn : 0 < n) (b : List α) :
    (chunks n b).flatten = b := by
  generalize hk : b.length = k
  induction k using Nat.strongRecOn generalizing b with
  | _ k ih =>
    by_cases hb : b = []
    · subst hb; simp [chunks_nil]
    · rw [chunks_cons hn hb, List.flatten_cons,
        ih (b.drop n).length (by rw [← hk]; exact drop_length_lt hn hb) (b.drop n) rfl,
        List.take_append_drop]

theorem chunks_mem {α : Type} {n : Nat} (b : List α) :
    ∀ c ∈ chunks n b, c.length ≤ n ∧ c ≠ [] := by
  generalize hk : b.length = k
  induction k using Nat.strongRecOn generalizing b with
  | _ k ih =>
    intro c hc
    by_cases hn : n = 0
    · subst hn; simp [chunks_zero] at hc
    have hn : 0 < n := Nat.pos_of_ne_zero hn
    by_cases hb : b = []
    · subst hb; simp [chunks_nil] at hc
    · rw [chunks_cons hn hb, List.mem_cons] at hc
      cases hc with
      | inl h =>
        subst h
        refine ⟨by simp only [List.length_take]; omega, ?_⟩
        intro h0
        have : (b.take n).length = 0 := by rw [h0]; rfl
        have hpos : 0 < b.length := List.length_pos_iff.mpr hb
        simp only [List.length_take] at this; omega
      | inr h =>
        exact ih (b.drop n).length (by rw [← hk]; exact drop_length_lt hn hb) (b.drop n) rfl c h

/-! ### `chunkLens` -/

theorem chunkLens_zero_len (n : Nat) : chunkLens n 0 = [] := by
  rw [chunkLens]; simp

theorem chunkLens_zero (len : Nat) : chunkLens 0 len = [] := by
  rw [chunkLens]; simp

theorem chunkLens_cons {n len : Nat} (hn : 0 < n) (hl : 0 < len) :
    chunkLens n len = min n len :: chunkLens n (len - min n len) := by
  rw [chunkLens]
  have : ¬ (n = 0 ∨ len = 0) := by omega
  simp [this]

theorem chunks_lens {α : Type} (n : Nat) (b : List α) :
    (chunks n b).map List.length = chunkLens n b.length := by
  generalize hk : b.length = k
  induction k using Nat.strongRecOn generalizing b with
  | _ k ih =>
    by_cases hn : n = 0
    · subst hn; simp [chunks_zero, chunkLens_zero]
    have hn : 0 < n := Nat.pos_of_ne_zero hn
    by_cases hb : b = []
    · subst hb; simp at hk; subst hk; simp [chunks_nil, chunkLens_zero_len]
    · have hpos : 0 < b.length := List.length_pos_iff.mpr hb
      rw [chunks_cons hn hb, chunkLens_cons hn (by omega), List.map_cons,
        ih (b.drop n).length (by rw [← hk]; exact drop_length_lt hn hb) (b.drop n) rfl]
      simp only [List.length_take, List.length_drop, ← hk]
      congr 2
      omega

theorem chunkLens_mem (n len : Nat) : ∀ l ∈ chunkLens n len, l ≤ n ∧ 0 < l ∧ l ≤ len := by
  induction len using Nat.strongRecOn with
  | _ len ih =>
    intro l hl
    by_cases hn : n = 0
    · subst hn; simp [chunkLens_zero] at hl
    by_cases h0 : len = 0
    · subst h0; simp [chunkLens_zero_len] at hl
    have hn : 0 < n := Nat.pos_of_ne_zero hn
    have h0 : 0 < len := Nat.pos_of_ne_zero h0
    rw [chunkLens_cons hn h0, List.mem_cons] at hl
    cases hl with
    | inl h => subst h; omega
    | inr h =>
      have := ih (len - min n len) (by omega) l h
      omega

theorem chunkLens_single {n len : Nat} (h0 : 0 < len) (h : len ≤ n) : chunkLens n len = [len] := by
  rw [chunkLens_cons (by omega) h0]
  have : min n len = len := by omega
  rw [this, Nat.sub_self, chunkLens_zero_len]

theorem chunkLens_sum {n : Nat} (hn : 0 < n) (len : Nat) : (chunkLens n len).sum = len := by
  induction len using Nat.strongRecOn with
  | _ len ih =>
    by_cases h0 : len = 0
    · subst h0; simp [chunkLens_zero_len]
    have h0 : 0 < len := Nat.pos_of_ne_zero h0
    rw [chunkLens_cons hn h0, List.sum_cons, ih (len - min n len) (by omega)]
    omega

/-! ### frames -/

theorem mkFrames_len (s : Sealed) : ∀ (ls : List Nat) (off : Nat), ∀ f ∈ mkFrames s off ls, f.len ∈ ls := by
  intro ls
  induction ls with
  | nil => intro off f hf; simp [mkFrames] at hf
  | cons l ls ih =>
    intro off f hf
    simp only [mkFrames, List.mem_cons] at hf
    cases hf with
    | inl h => subst h; simp
    | inr h => exact List.mem_cons_of_mem _ (ih _ f h)

theorem gate_mem (m : Nat) : ∀ (fs : List Frame), ∀ f ∈ (gate m fs).1, f.len ≤ m := by
  intro fs
  induction fs with
  | nil => intro f hf; simp [gate] at hf
  | cons g gs ih =>
    intro f hf
    unfold gate at hf
    by_cases hg : g.len ≤ m
    · rw [if_pos hg] at hf
      simp only [List.mem_cons] at hf
      cases hf with
      | inl h => subst h; exact hg
      | inr h => exact ih f h
    · rw [if_neg hg] at hf; simp at hf

theorem gate_all {m : Nat} : ∀ {fs : List Frame}, (∀ f ∈ fs, f.len ≤ m) → gate m fs = (fs, true) := by
  intro fs
  induction fs with
  | nil => intro _; rfl
  | cons g gs ih =>
    intro h
    unfold gate
    rw [if_pos (h g (by simp)), ih (fun f hf => h f (List.mem_cons_of_mem _ hf))]

/-- what the engine prints about a frame: its payload length and whether the far end can open it -/
def lf (c : Cfg) (f : Frame) : Nat × Bool := (f.len, (openF c f).isSome)

theorem gate_map (c : Cfg) (m : Nat) : ∀ fs : List Frame,
    ((gate m fs).1.map (lf c), (gate m fs).2) = gateLF m (fs.map (lf c)) := by
  intro fs
  induction fs with
  | nil => rfl
  | cons g gs ih =>
    unfold gate
    simp only [List.map_cons, gateLF]
    have hl : (lf c g).1 = g.len := rfl
    rw [hl]
    by_cases hg : g.len ≤ m
    · rw [if_pos hg, if_pos hg]
      have h1 := congrArg Prod.fst ih
      have h2 := congrArg Prod.snd ih
      simp only at h1 h2
      simp only [List.map_cons, h1, h2]
    · rw [if_neg hg, if_neg hg]; rfl

theorem mkFrames_lf_pos (c : Cfg) (s : Sealed) : ∀ (ls : List Nat) (off : Nat), 0 < off →
    (mkFrames s off ls).map (lf c) = ls.map (·, false) := by
  intro ls
  induction ls with
  | nil => intro off _; rfl
  | cons l ls ih =>
    intro off hoff
    simp only [mkFrames, List.map_cons]
    rw [ih (off + l) (by omega)]
    have : lf c ⟨s, off, l⟩ = (l, false) := by
      simp only [lf, openF]
      rw [if_neg (by intro h; omega)]; rfl
    rw [this]

theorem framesOf_lf (c : Cfg) (p : Path) (s : Sealed) :
    (framesOf c p s).map (lf c) = framesLF c p (s.length c) := by
  unfold framesOf framesLF
  cases hr : p.rechunk with
  | false =>
    simp only [Bool.false_eq_true, if_false, List.map_cons, List.map_nil, lf, openF]
    simp
  | true =>
    simp only [if_true]
    cases hc : chunkLens c.rechunkAt (s.length c) with
    | nil => rfl
    | cons l ls =>
      have hlpos : 0 < l := (chunkLens_mem _ _ l (by rw [hc]; simp)).2.1
      simp only [mkFrames, List.map_cons, Nat.zero_add]
      rw [mkFrames_lf_pos c s ls l hlpos]
      congr 1
      simp only [lf, openF]
      by_cases h : l = s.length c
      · simp [h]
      · simp [h]

theorem hdrOf_length (p : Path) : (hdrOf p).length = p.hdr := by simp [hdrOf]

end MM.C07
