/-
  Per-kind facts for the C05 codecs: every message codec is `Sound` (encode ⇒ parse gives it back),
  `DecWF` (what parses is well-formed) and has a minimum encoded length that meets the decoder's
  pre-check.  All by composition of the combinator lemmas (MM/Lemmas/C05Comb.lean).
-/
import MM.Lemmas.C05Comb
import MM.Lemmas.C05Alloc
import MM.Model.C05

namespace MM.C05
open MM

theorem addrStrict_sound (t : Nat) : (addrStrict t).Sound := by
  unfold addrStrict
  split
  · exact bytesN_sound _
  · split
    · exact bytesN_sound _
    · split
      · exact peek1_sound
      · exact failC_sound

theorem addrStrict_decwf (t : Nat) : (addrStrict t).DecWF := by
  unfold addrStrict
  split
  · exact bytesN_decwf _
  · split
    · exact bytesN_decwf _
    · split
      · exact peek1_decwf
      · exact failC_decwf

theorem addrLoose_sound (t : Nat) : (addrLoose t).Sound := by
  unfold addrLoose
  split
  · exact bytesN_sound _
  · split <;> exact bytesN_sound _

theorem addrLoose_decwf (t : Nat) : (addrLoose t).DecWF := by
  unfold addrLoose
  split
  · exact bytesN_decwf _
  · split <;> exact bytesN_decwf _

theorem advPrefix_sound (t : Nat) : (advPrefix t).Sound := by
  unfold advPrefix
  split
  · exact peek1_sound
  · split
    · exact fwdPrefix_sound
    · split <;> exact bytesN_sound _

theorem advPrefix_decwf (t : Nat) : (advPrefix t).DecWF := by
  unfold advPrefix
  split
  · exact peek1_decwf
  · split
    · exact fwdPrefix_decwf
    · split <;> exact bytesN_decwf _

theorem addrStrict_minLen (t : Nat) : (addrStrict t).MinLen 1 := by
  unfold addrStrict
  split
  · exact MinLen.mono (bytesN_minLen 4) (by decide)
  · split
    · exact MinLen.mono (bytesN_minLen 16) (by decide)
    · split
      · exact peek1_minLen
      · intro a h; simp [failC] at h

/-- discharge `Sound` goals of compositions -/
syntax "codec_sound" : tactic
macro_rules
  | `(tactic| codec_sound) => `(tactic|
      repeat' (first
        | exact be_sound _ | exact bool_sound | exact bytesN_sound _ | exact lp_sound _
        | exact peek1_sound | exact fwdPrefix_sound
        | exact addrStrict_sound | exact addrLoose_sound
        | (intro _; first | exact advPrefix_sound _ | exact bytesN_sound _)
        | apply seq_sound | apply dep_sound | apply listN_sound | apply refine_sound
        | apply preEnc_sound))

syntax "codec_decwf" : tactic
macro_rules
  | `(tactic| codec_decwf) => `(tactic|
      repeat' (first
        | exact be_decwf _ | exact bool_decwf | exact bytesN_decwf _ | exact lp_decwf _
        | exact peek1_decwf | exact fwdPrefix_decwf
        | exact addrStrict_decwf | exact addrLoose_decwf
        | (intro _; first | exact advPrefix_decwf _ | exact bytesN_decwf _)
        | apply seq_decwf | apply dep_decwf | apply listN_decwf | apply refine_decwf))

/-- `MinLen c ?n` by composition (the bound is synthesised), then compare with the pre-check. -/
syntax "codec_minlen_steps" : tactic
macro_rules
  | `(tactic| codec_minlen_steps) => `(tactic|
      repeat' (first
        | exact be_minLen _ | exact bool_minLen | exact bytesN_minLen _ | exact lp_minLen _
        | exact listN_minLen _ _
        | apply seq_minLen | apply refine_minLen | apply preEnc_minLen
        | refine dep_minLen (n := ?_) (m := 0) ?_ (fun _ => minLen_zero _)))

syntax "codec_minlen" : tactic
macro_rules
  | `(tactic| codec_minlen) => `(tactic|
      (apply MinLen.mono (by codec_minlen_steps); decide))

/-! ### Sound -/

theorem peerHello_sound : peerHelloC.Sound := by unfold peerHelloC; codec_sound
theorem streamOpen_sound : streamOpenC.Sound := by unfold streamOpenC; codec_sound
theorem streamOpenAck_sound : streamOpenAckC.Sound := by unfold streamOpenAckC; codec_sound
theorem streamOpenErr_sound : streamOpenErrC.Sound := by unfold streamOpenErrC; codec_sound
theorem streamReset_sound : streamResetC.Sound := be_sound _
theorem keepalive_sound : keepaliveC.Sound := be_sound _
theorem close_sound : closeC.Sound := be_sound _
theorem advRoute_sound : advRouteC.Sound := by unfold advRouteC; codec_sound
theorem encPath_sound : encPathC.Sound := by unfold encPathC; codec_sound
theorem routeAdvertise_sound : routeAdvertiseC.Sound := by
  unfold routeAdvertiseC advRouteC encPathC; codec_sound
theorem routeWithdraw_sound : routeWithdrawC.Sound := by
  unfold routeWithdrawC wdRouteC; codec_sound
theorem controlRequest_sound : controlRequestC.Sound := by unfold controlRequestC; codec_sound
theorem controlResponse_sound : controlResponseC.Sound := by unfold controlResponseC; codec_sound
theorem udpDatagram_sound : udpDatagramC.Sound := by unfold udpDatagramC; codec_sound
theorem icmpOpen_sound : icmpOpenC.Sound := by unfold icmpOpenC; codec_sound
theorem icmpOpenAck_sound : icmpOpenAckC.Sound := by unfold icmpOpenAckC; codec_sound
theorem icmpEcho_sound : icmpEchoC.Sound := by unfold icmpEchoC; codec_sound
theorem sleep_sound : sleepC.Sound := by unfold sleepC; codec_sound
theorem encData_sound : (seq bool (lp 2)).Sound := by codec_sound
theorem ids_sound : ids.Sound := by codec_sound
theorem nodeInfoAdvertise_sound : nodeInfoAdvertiseC.Sound := by
  unfold nodeInfoAdvertiseC encInfoC; codec_sound
theorem niHead_sound : niHeadC.Sound := by unfold niHeadC; codec_sound
theorem peer_sound : peerC.Sound := by unfold peerC; codec_sound
theorem fl_sound : flC.Sound := by unfold flC; codec_sound

/-! ### DecWF -/

theorem peerHello_decwf : peerHelloC.DecWF := by unfold peerHelloC; codec_decwf
theorem streamOpen_decwf : streamOpenC.DecWF := by unfold streamOpenC; codec_decwf
theorem streamOpenAck_decwf : streamOpenAckC.DecWF := by unfold streamOpenAckC; codec_decwf
theorem streamReset_decwf : streamResetC.DecWF := be_decwf _
theorem keepalive_decwf : keepaliveC.DecWF := be_decwf _
theorem close_decwf : closeC.DecWF := be_decwf _
theorem routeAdvertise_decwf : routeAdvertiseC.DecWF := by
  unfold routeAdvertiseC advRouteC encPathC; codec_decwf
theorem routeWithdraw_decwf : routeWithdrawC.DecWF := by
  unfold routeWithdrawC wdRouteC; codec_decwf
theorem controlRequest_decwf : controlRequestC.DecWF := by unfold controlRequestC; codec_decwf
theorem udpDatagram_decwf : udpDatagramC.DecWF := by unfold udpDatagramC; codec_decwf
theorem icmpOpen_decwf : icmpOpenC.DecWF := by unfold icmpOpenC; codec_decwf
theorem icmpOpenAck_decwf : icmpOpenAckC.DecWF := by unfold icmpOpenAckC; codec_decwf
theorem icmpEcho_decwf : icmpEchoC.DecWF := by unfold icmpEchoC; codec_decwf
theorem sleep_decwf : sleepC.DecWF := by unfold sleepC; codec_decwf
theorem nodeInfoAdvertise_decwf : nodeInfoAdvertiseC.DecWF := by
  unfold nodeInfoAdvertiseC encInfoC; codec_decwf

syntax "codec_lenexact" : tactic
macro_rules
  | `(tactic| codec_lenexact) => `(tactic|
      repeat' (first
        | exact be_lenExact _ | exact bool_lenExact | exact bytesN_lenExact _ | exact lp_lenExact _
        | exact peek1_lenExact | exact fwdPrefix_lenExact
        | apply seq_lenExact | apply dep_lenExact | apply listN_lenExact | apply refine_lenExact))

/-- the two clipping encoders: what parses has a short enough message, so clipping is a no-op -/
theorem streamOpenErr_decwf : streamOpenErrC.DecWF := by
  intro bs a rest h
  have hw : (seq u64 (seq u16 str)).wf a = true := by
    have : (seq u64 (seq u16 str)).DecWF := by codec_decwf
    exact this bs a rest h
  have hs : a.2.2.length < 256 := by
    have : (u64.wf a.1 && (u16.wf a.2.1 && str.wf a.2.2)) = true := hw
    simp only [Bool.and_eq_true] at this
    simpa [lp] using this.2.2
  have ht : a.2.2.take 255 = a.2.2 := List.take_of_length_le (by omega)
  show ((seq u64 (seq u16 str)).wf a && _) = true
  rw [hw]
  dsimp only
  rw [ht]; simp

/-- `DecodeControlResponse` accepts up to 65535 data bytes while the encoder clips at
    MaxPayloadSize-12, so "what parses is well-formed" holds for inputs up to the frame size. -/
theorem controlResponse_decwf_bounded (bs : Bytes) (a) (rest : Bytes) (hlen : bs.length ≤ maxPayload)
    (h : controlResponseC.dec bs = some (a, rest)) : controlResponseC.wf a = true := by
  have hdec : (seq u64 (seq u8 (seq bool (lp 2)))).dec bs = some (a, rest) := h
  have hw : (seq u64 (seq u8 (seq bool (lp 2)))).wf a = true := by
    have : (seq u64 (seq u8 (seq bool (lp 2)))).DecWF := by codec_decwf
    exact this bs a rest h
  have hle : (seq u64 (seq u8 (seq bool (lp 2)))).LenExact := by codec_lenexact
  have hl := hle bs a rest hdec
  have hd : a.2.2.2.length ≤ maxPayload - 12 := by
    have : ((seq u64 (seq u8 (seq bool (lp 2)))).enc a).length = 8 + (1 + (1 + (2 + a.2.2.2.length))) := by
      simp [seq, be, bool, lp]; omega
    have hm : maxPayload = 16384 := rfl
    omega
  have ht : a.2.2.2.take (maxPayload - 12) = a.2.2.2 := List.take_of_length_le hd
  show ((seq u64 (seq u8 (seq bool (lp 2)))).wf a && _) = true
  rw [hw]
  dsimp only
  rw [ht]; simp

/-! ### allocation bounds per kind -/

theorem addrStrict_alloc (t A : Nat) (hA : 1 ≤ A) : (addrStrict t).AllocBound A 0 := by
  unfold addrStrict
  split
  · exact bytesN_alloc _ _ hA
  · split
    · exact bytesN_alloc _ _ hA
    · split
      · exact peek1_alloc _ hA
      · exact failC_alloc _

theorem addrLoose_alloc (t A : Nat) (hA : 1 ≤ A) : (addrLoose t).AllocBound A 0 := by
  unfold addrLoose
  split
  · exact bytesN_alloc _ _ hA
  · split <;> exact bytesN_alloc _ _ hA

theorem advPrefix_alloc (t A : Nat) (hA : 1 ≤ A) : (advPrefix t).AllocBound A 0 := by
  unfold advPrefix
  split
  · exact peek1_alloc _ hA
  · split
    · exact fwdPrefix_alloc _ hA
    · split <;> exact bytesN_alloc _ _ hA

syntax "codec_alloc_steps" : tactic
macro_rules
  | `(tactic| codec_alloc_steps) => `(tactic|
      repeat' (first
        | exact be_alloc _ _ | exact bool_alloc _ | exact bytesN_alloc _ _ (by decide)
        | exact lp_alloc _ _ (by decide) | exact peek1_alloc _ (by decide)
        | exact fwdPrefix_alloc _ (by decide)
        | (intro _; first
            | exact addrStrict_alloc _ _ (by decide) | exact addrLoose_alloc _ _ (by decide)
            | exact advPrefix_alloc _ _ (by decide) | exact bytesN_alloc _ _ (by decide)
            | exact be_alloc _ _)
        | apply seq_alloc | apply dep_alloc (Kb := 0) | apply listN1_alloc | apply preEnc_alloc))

/-- `c.AllocBound A K` for a composition: the constant is synthesised, then compared -/
syntax "codec_alloc" : tactic
macro_rules
  | `(tactic| codec_alloc) => `(tactic|
      (apply AllocBound.monoK (by codec_alloc_steps); decide))

theorem ids_alloc (A : Nat) (hA : 1 ≤ A) : ids.AllocBound A (16 * 255) :=
  listN1_alloc 16 (bytesN_alloc 16 A hA)

/-- `EncryptedData` + `DecodePath` of a plaintext path -/
theorem encPath_alloc : encPathC.AllocBound 2 4080 := by
  have hc : (seq bool (lp 2)).AllocBound 1 0 := by codec_alloc
  have hle : (seq bool (lp 2)).LenExact := by codec_lenexact
  have := refine_alloc (A1 := 1) (A2 := 1) (K1 := 0) (Kn := 4080)
    (fun e => e.1 || pathOK e.2) (fun e => if e.1 then 0 else ids.alloc e.2) hc (by
      intro bs x r hd
      have hl := hle bs x r hd
      have hx : ((seq bool (lp 2)).enc x).length = 1 + (2 + x.2.length) := by
        simp [seq, bool, lp]; omega
      split
      · omega
      · have := (ids_alloc 1 (by decide) x.2).2
        omega)
  exact this

theorem peerHello_alloc : peerHelloC.AllocBound 1 4080 := by unfold peerHelloC; codec_alloc
theorem streamOpen_alloc : streamOpenC.AllocBound 1 4080 := by unfold streamOpenC; codec_alloc
theorem streamOpenAck_alloc : streamOpenAckC.AllocBound 1 0 := by unfold streamOpenAckC; codec_alloc
theorem streamOpenErr_alloc : streamOpenErrC.AllocBound 1 0 := by unfold streamOpenErrC; codec_alloc
theorem controlRequest_alloc : controlRequestC.AllocBound 1 4080 := by unfold controlRequestC; codec_alloc
theorem controlResponse_alloc : controlResponseC.AllocBound 1 0 := by unfold controlResponseC; codec_alloc
theorem udpDatagram_alloc : udpDatagramC.AllocBound 1 0 := by unfold udpDatagramC; codec_alloc
theorem icmpOpen_alloc : icmpOpenC.AllocBound 1 4080 := by unfold icmpOpenC; codec_alloc
theorem icmpOpenAck_alloc : icmpOpenAckC.AllocBound 1 0 := by unfold icmpOpenAckC; codec_alloc
theorem icmpEcho_alloc : icmpEchoC.AllocBound 1 0 := by unfold icmpEchoC; codec_alloc
theorem sleep_alloc : sleepC.AllocBound 1 4080 := by unfold sleepC; codec_alloc
theorem encData_alloc : (seq bool (lp 2)).AllocBound 1 0 := by codec_alloc
theorem routeWithdraw_alloc : routeWithdrawC.AllocBound 1 14280 := by
  unfold routeWithdrawC wdRouteC sizeofRoute; codec_alloc

theorem routeAdvertise_alloc : routeAdvertiseC.AllocBound 2 18360 := by
  unfold routeAdvertiseC
  have hr : (listN 1 advRouteC sizeofRoute).AllocBound 2 10200 := by
    unfold advRouteC sizeofRoute; codec_alloc
  have := seq_alloc (bytesN_alloc 16 2 (by decide)) (seq_alloc (lp_alloc 1 2 (by decide))
    (seq_alloc (be_alloc 8 2) (seq_alloc hr (seq_alloc encPath_alloc (ids_alloc 2 (by decide))))))
  exact AllocBound.monoK this (by decide)

theorem niHead_alloc : niHeadC.AllocBound 1 4080 := by unfold niHeadC; codec_alloc
theorem peer_alloc : peerC.AllocBound 1 0 := by unfold peerC; codec_alloc

theorem niHead_shrinks : niHeadC.Shrinks := by
  unfold niHeadC
  repeat' (first | exact be_shrinks _ | exact lp_shrinks _ | apply seq_shrinks | apply listN_shrinks)

theorem peer_shrinks : peerC.Shrinks := by
  unfold peerC
  repeat' (first | exact be_shrinks _ | exact lp_shrinks _ | exact bool_shrinks | exact bytesN_shrinks _ | apply seq_shrinks)

/-- `DecodeNodeInfo` allocates at most 3·len + 7280 bytes through wire-driven sizes. -/
theorem nodeInfoAlloc_le (buf : Bytes) : nodeInfoAlloc buf ≤ 3 * buf.length + 7280 := by
  unfold nodeInfoAlloc
  have hmp : maxPeers = 50 := rfl
  have hmf : maxFls = 20 := rfl
  have hms : maxShells = 10 := rfl
  have s1 : sizeofPeerInfo = 48 := rfl
  have s2 : sizeofListenerInfo = 32 := rfl
  have s3 : sizeofString = 16 := rfl
  split
  · omega
  · have hH := niHead_alloc buf
    cases hd : niHeadC.dec buf with
    | none => simp only []; have := hH.2; omega
    | some p =>
      obtain ⟨x, r0⟩ := p
      have h0 := hH.1 x r0 hd
      have sh0 := niHead_shrinks _ _ _ hd
      simp only []
      cases hu : u8.dec r0 with
      | none => simp only []; omega
      | some q =>
        obtain ⟨pc, r1⟩ := q
        have sh1 := be_shrinks 1 _ _ _ hu
        have hmin : min pc maxPeers ≤ 50 := by rw [hmp]; exact Nat.min_le_right _ _
        have hpm : sizeofPeerInfo * min pc maxPeers ≤ 2400 := by
          rw [s1]; omega
        have htl : sizeofListenerInfo * maxFls + sizeofString * maxShells = 800 := by decide
        have hR := repAlloc_bound peer_alloc (min pc maxPeers) r1
        simp only []
        cases hp : repDec peerC (min pc maxPeers) r1 with
        | none => simp only []; have := hR.2; omega
        | some q2 =>
          obtain ⟨ps, r2⟩ := q2
          have sh2 := repDec_shrinks peer_shrinks _ _ _ _ hp
          simp only []
          cases hk : key32.dec r2 with
          | none => simp only []; have := hR.2; omega
          | some q3 =>
            obtain ⟨k, r3⟩ := q3
            have sh3 := bytesN_shrinks 32 _ _ _ hk
            simp only []
            have := hR.2
            omega

/-- `EncryptedData` + `DecodeNodeInfo` of plaintext info -/
theorem encInfo_alloc : encInfoC.AllocBound 4 7280 := by
  have hc : (seq bool (lp 2)).AllocBound 1 0 := by codec_alloc
  have hle : (seq bool (lp 2)).LenExact := by codec_lenexact
  have := refine_alloc (A1 := 1) (A2 := 3) (K1 := 0) (Kn := 7280)
    (fun e => e.1 || nodeInfoOK e.2) (fun e => if e.1 then 0 else nodeInfoAlloc e.2) hc (by
      intro bs x r hd
      have hl := hle bs x r hd
      have hx : ((seq bool (lp 2)).enc x).length = 1 + (2 + x.2.length) := by
        simp [seq, bool, lp]; omega
      split
      · omega
      · have := nodeInfoAlloc_le x.2
        omega)
  exact this

theorem nodeInfoAdvertise_alloc : nodeInfoAdvertiseC.AllocBound 4 11360 := by
  unfold nodeInfoAdvertiseC
  have := seq_alloc (bytesN_alloc 16 4 (by decide)) (seq_alloc (be_alloc 8 4)
    (seq_alloc encInfo_alloc (ids_alloc 4 (by decide))))
  exact AllocBound.monoK this (by decide)

end MM.C05
