/-
  Helper lemmas for C37 (expandEnvVars): equations of the tokenizer, characterisation of the
  two matchers, the partition lemma `tokens_src`, shape of produced tokens, `:-` splitting.
-/
import MM.Model.C37
namespace MM.C37
open MM

theorem tokens_nil : tokens [] = [] := by rw [tokens]

theorem tokens_cons_ne {b : UInt8} (h : b ≠ cDollar) (rest : Bytes) :
    tokens (b :: rest) = .lit b :: tokens rest := by
  rw [tokens, if_neg h]

theorem tokens_brace {rest name : Bytes} (h : braceName rest = some name) :
    tokens (cDollar :: rest) = .brace name :: tokens (rest.drop (name.length + 2)) := by
  rw [tokens, if_pos rfl, h]

theorem tokens_bare {rest name : Bytes} (h0 : braceName rest = none) (h : bareName rest = some name) :
    tokens (cDollar :: rest) = .bare name :: tokens (rest.drop name.length) := by
  rw [tokens, if_pos rfl, h0, h]

theorem tokens_dollar_lit {rest : Bytes} (h0 : braceName rest = none) (h : bareName rest = none) :
    tokens (cDollar :: rest) = .lit cDollar :: tokens rest := by
  rw [tokens, if_pos rfl, h0, h]

theorem tokens_append_lit (pre rest : Bytes) (h : ∀ b ∈ pre, b ≠ cDollar) :
    tokens (pre ++ rest) = pre.map .lit ++ tokens rest := by
  induction pre with
  | nil => simp
  | cons b pre ih =>
    have hb : b ≠ cDollar := h b (by simp)
    rw [List.cons_append, tokens_cons_ne hb, ih (fun x hx => h x (by simp [hx]))]
    simp

theorem tokens_no_dollar (s : Bytes) (h : ∀ b ∈ s, b ≠ cDollar) : tokens s = s.map .lit := by
  have := tokens_append_lit s [] h
  simpa [tokens_nil] using this

theorem flatMap_subst_lit (env : Env) (s : Bytes) : (s.map Tok.lit).flatMap (subst env) = s := by
  induction s with
  | nil => rfl
  | cons b s ih => simp [List.flatMap_cons, subst, ih]

/-! ### the two matchers -/

theorem takeWhile_length_lt_head {p : UInt8 → Bool} {l : Bytes}
    (h : (l.takeWhile p).length < l.length) :
    ∃ c t, l.dropWhile p = c :: t ∧ p c = false := by
  induction l with
  | nil => simp at h
  | cons a l ih =>
    by_cases ha : p a = true
    · rw [List.takeWhile_cons_of_pos ha] at h
      rw [List.dropWhile_cons_of_pos ha]
      exact ih (by simpa using h)
    · refine ⟨a, l, ?_, by simpa using ha⟩
      rw [List.dropWhile_cons_of_neg ha]

theorem mem_takeWhile_pos {p : UInt8 → Bool} {l : Bytes} {b : UInt8} (h : b ∈ l.takeWhile p) :
    p b = true := by
  induction l with
  | nil => simp at h
  | cons a l ih =>
    by_cases ha : p a = true
    · rw [List.takeWhile_cons_of_pos ha] at h
      rcases List.mem_cons.mp h with h | h
      · exact h ▸ ha
      · exact ih h
    · rw [List.takeWhile_cons_of_neg ha] at h; simp at h

/-- What a successful `\{([^}]+)\}` match looks like. -/
theorem braceName_some {rest name : Bytes} (h : braceName rest = some name) :
    name ≠ [] ∧ (∀ b ∈ name, b ≠ cRBrace) ∧
    rest = cLBrace :: (name ++ cRBrace :: rest.drop (name.length + 2)) := by
  cases rest with
  | nil => simp [braceName] at h
  | cons c r =>
    unfold braceName at h
    dsimp only at h
    by_cases hc : c = cLBrace
    · rw [if_pos hc] at h
      split at h
      · rename_i hcond
        injection h with h
        subst h
        obtain ⟨hne, hdr⟩ := hcond
        have hlt : (List.takeWhile notRBrace r).length < r.length := by
          rw [Ne, List.drop_eq_nil_iff] at hdr; omega
        obtain ⟨x, t, hd, hx⟩ := takeWhile_length_lt_head hlt
        have hsplit := List.takeWhile_append_dropWhile (p := notRBrace) (l := r)
        rw [hd] at hsplit
        have hx' : x = cRBrace := by
          simpa [notRBrace] using hx
        have hmem : ∀ b ∈ List.takeWhile notRBrace r, b ≠ cRBrace := by
          intro b hb
          have := mem_takeWhile_pos hb
          simpa [notRBrace] using this
        generalize List.takeWhile notRBrace r = nm at *
        subst hc hx' hsplit
        refine ⟨hne, hmem, ?_⟩
        have hdrop : List.drop (nm.length + 2) (cLBrace :: (nm ++ cRBrace :: t)) = t := by
          rw [show nm.length + 2 = (nm.length + 1) + 1 from rfl, List.drop_succ_cons,
            show nm ++ cRBrace :: t = (nm ++ [cRBrace]) ++ t by simp]
          exact List.drop_left' (by simp)
        rw [hdrop]
      · cases h
    · rw [if_neg hc] at h; cases h

/-- Conversely: `{name}` with a non-empty `}`-free name always matches, whatever follows. -/
theorem braceName_intro (name post : Bytes) (hne : name ≠ []) (hnb : ∀ b ∈ name, b ≠ cRBrace) :
    braceName (cLBrace :: (name ++ cRBrace :: post)) = some name := by
  have htw : List.takeWhile notRBrace (name ++ cRBrace :: post) = name := by
    rw [List.takeWhile_append_of_pos (by intro a ha; simpa [notRBrace] using hnb a ha),
      List.takeWhile_cons_of_neg (by simp [notRBrace])]
    simp
  simp only [braceName, htw, if_true]
  rw [if_pos ⟨hne, by rw [List.drop_left' rfl]; simp⟩]


/-- Identifier: `[A-Za-z_][A-Za-z0-9_]*`. -/
def IsIdent (name : Bytes) : Prop :=
  ∃ c t, name = c :: t ∧ isIdStart c = true ∧ ∀ b ∈ t, isIdChar b = true

/-- The next byte (if any) cannot extend an identifier. -/
def NoIdCharAhead (post : Bytes) : Prop := ∀ c t, post = c :: t → isIdChar c = false

theorem dropWhile_noIdAhead (l : Bytes) : NoIdCharAhead (l.dropWhile isIdChar) := by
  intro c t h
  induction l with
  | nil => simp at h
  | cons a l ih =>
    by_cases ha : isIdChar a = true
    · rw [List.dropWhile_cons_of_pos ha] at h; exact ih h
    · rw [List.dropWhile_cons_of_neg ha] at h
      injection h with h1 _
      subst h1; simpa using ha

theorem drop_takeWhile_length {p : UInt8 → Bool} (l : Bytes) :
    l.drop (l.takeWhile p).length = l.dropWhile p := by
  conv => lhs; arg 2; rw [← List.takeWhile_append_dropWhile (p := p) (l := l)]
  exact List.drop_left' rfl

/-- What a successful `([A-Za-z_][A-Za-z0-9_]*)` match looks like (greedy: nothing that could
    extend the identifier follows). -/
theorem bareName_some {rest name : Bytes} (h : bareName rest = some name) :
    IsIdent name ∧ rest = name ++ rest.drop name.length ∧ NoIdCharAhead (rest.drop name.length) := by
  cases rest with
  | nil => simp [bareName] at h
  | cons c r =>
    simp only [bareName] at h
    by_cases hc : isIdStart c = true
    · rw [if_pos hc] at h
      injection h with h
      subst h
      refine ⟨⟨c, _, rfl, hc, fun b hb => mem_takeWhile_pos hb⟩, ?_, ?_⟩
      · simp only [List.length_cons, List.drop_succ_cons, List.cons_append, drop_takeWhile_length,
          List.takeWhile_append_dropWhile]
      · simp only [List.length_cons, List.drop_succ_cons, drop_takeWhile_length]
        exact dropWhile_noIdAhead r
    · rw [if_neg hc] at h; cases h

theorem takeWhile_eq_of_noAhead {p : UInt8 → Bool} (t post : Bytes) (ht : ∀ b ∈ t, p b = true)
    (hp : ∀ c u, post = c :: u → p c = false) : (t ++ post).takeWhile p = t := by
  rw [List.takeWhile_append_of_pos ht]
  cases post with
  | nil => simp
  | cons c u =>
    rw [List.takeWhile_cons_of_neg (by simp [hp c u rfl])]; simp

theorem bareName_intro {name : Bytes} (post : Bytes) (hid : IsIdent name) (hp : NoIdCharAhead post) :
    bareName (name ++ post) = some name := by
  obtain ⟨c, t, rfl, hc, ht⟩ := hid
  simp only [List.cons_append, bareName, if_pos hc]
  rw [takeWhile_eq_of_noAhead t post ht hp]

theorem isIdStart_ne_lbrace {c : UInt8} (h : isIdStart c = true) : c ≠ cLBrace := by
  intro hc; subst hc; revert h; decide

theorem braceName_none_of_ident {name : Bytes} (post : Bytes) (hid : IsIdent name) :
    braceName (name ++ post) = none := by
  obtain ⟨c, t, rfl, hc, _⟩ := hid
  simp only [List.cons_append, braceName, if_neg (isIdStart_ne_lbrace hc)]

/-! ### the tokens partition the text -/

theorem tokens_src (s : Bytes) : (tokens s).flatMap Tok.src = s := by
  generalize hn : s.length = n
  induction n using Nat.strongRecOn generalizing s with
  | _ n ih =>
    cases s with
    | nil => simp [tokens_nil]
    | cons b rest =>
      by_cases hb : b = cDollar
      · subst hb
        cases hbr : braceName rest with
        | some name =>
          rw [tokens_brace hbr, List.flatMap_cons,
            ih _ (by subst hn; simp only [List.length_drop, List.length_cons]; omega) _ rfl]
          obtain ⟨_, _, hr⟩ := braceName_some hbr
          conv => rhs; rw [hr]
          simp [Tok.src]
        | none =>
          cases hba : bareName rest with
          | some name =>
            rw [tokens_bare hbr hba, List.flatMap_cons,
              ih _ (by subst hn; simp only [List.length_drop, List.length_cons]; omega) _ rfl]
            obtain ⟨_, hr, _⟩ := bareName_some hba
            conv => rhs; rw [hr]
            simp [Tok.src]
          | none =>
            rw [tokens_dollar_lit hbr hba, List.flatMap_cons,
              ih _ (by subst hn; simp) _ rfl]
            simp [Tok.src]
      · rw [tokens_cons_ne hb, List.flatMap_cons, ih _ (by subst hn; simp) _ rfl]
        simp [Tok.src]

/-- Shape of every token the tokenizer produces. -/
def Tok.WellFormed : Tok → Prop
  | .lit _ => True
  | .brace n => n ≠ [] ∧ ∀ b ∈ n, b ≠ cRBrace
  | .bare n => IsIdent n

theorem tokens_wellFormed (s : Bytes) : ∀ t ∈ tokens s, t.WellFormed := by
  generalize hn : s.length = n
  induction n using Nat.strongRecOn generalizing s with
  | _ n ih =>
    cases s with
    | nil => simp [tokens_nil]
    | cons b rest =>
      by_cases hb : b = cDollar
      · subst hb
        cases hbr : braceName rest with
        | some name =>
          rw [tokens_brace hbr]
          intro t ht
          rcases List.mem_cons.mp ht with rfl | ht
          · obtain ⟨h1, h2, _⟩ := braceName_some hbr; exact ⟨h1, h2⟩
          · exact ih _ (by subst hn; simp only [List.length_drop, List.length_cons]; omega) _ rfl t ht
        | none =>
          cases hba : bareName rest with
          | some name =>
            rw [tokens_bare hbr hba]
            intro t ht
            rcases List.mem_cons.mp ht with rfl | ht
            · exact (bareName_some hba).1
            · exact ih _ (by subst hn; simp only [List.length_drop, List.length_cons]; omega) _ rfl t ht
          | none =>
            rw [tokens_dollar_lit hbr hba]
            intro t ht
            rcases List.mem_cons.mp ht with rfl | ht
            · trivial
            · exact ih _ (by subst hn; simp) _ rfl t ht
      · rw [tokens_cons_ne hb]
        intro t ht
        rcases List.mem_cons.mp ht with rfl | ht
        · trivial
        · exact ih _ (by subst hn; simp) _ rfl t ht

/-! ### `:-` splitting -/

theorem splitDefault_none_of_no_colon (n : Bytes) (h : ∀ b ∈ n, b ≠ cColon) : splitDefault n = none := by
  induction n with
  | nil => rfl
  | cons b r ih =>
    have hb : b ≠ cColon := h b (by simp)
    simp only [splitDefault]
    rw [if_neg (fun hh => hb hh.1), ih (fun x hx => h x (by simp [hx]))]

theorem splitDefault_intro (v d : Bytes) (h : ∀ b ∈ v, b ≠ cColon) :
    splitDefault (v ++ cColon :: cMinus :: d) = some (v, d) := by
  induction v with
  | nil => simp [splitDefault]
  | cons b r ih =>
    have hb : b ≠ cColon := h b (by simp)
    simp only [List.cons_append, splitDefault]
    rw [if_neg (fun hh => hb hh.1), ih (fun x hx => h x (by simp [hx]))]

/-- What `strings.Index(name, ":-")` found. -/
theorem splitDefault_some {n v d : Bytes} (h : splitDefault n = some (v, d)) :
    n = v ++ cColon :: cMinus :: d := by
  induction n generalizing v with
  | nil => simp [splitDefault] at h
  | cons b r ih =>
    simp only [splitDefault] at h
    split at h
    · rename_i hc
      injection h with h
      injection h with h1 h2
      subst h1 h2
      obtain ⟨rfl, hh⟩ := hc
      cases r with
      | nil => simp at hh
      | cons x t => simp at hh; subst hh; simp
    · cases hr : splitDefault r with
      | none => rw [hr] at h; cases h
      | some p =>
        obtain ⟨v', d'⟩ := p
        rw [hr] at h
        injection h with h
        injection h with h1 h2
        subst h1 h2
        rw [ih hr]; simp

theorem isIdChar_ne_colon {c : UInt8} (h : isIdChar c = true) : c ≠ cColon := by
  intro hc; subst hc; revert h; decide

theorem ident_no_colon {name : Bytes} (h : IsIdent name) : ∀ b ∈ name, b ≠ cColon := by
  obtain ⟨c, t, rfl, hc, ht⟩ := h
  intro b hb
  rcases List.mem_cons.mp hb with rfl | hb
  · exact isIdChar_ne_colon (by simp [isIdChar, hc])
  · exact isIdChar_ne_colon (ht b hb)

end MM.C37
