/-
  Helper lemmas for the route-table model (MM/Model/C08.lean): the association-list
  map primitives, the stable sort, the per-slice scans, the well-formedness invariant
  `WF` and its preservation by every table operation.  Used by Props/C08, C09, C10.
-/
import MM.Model.C08

set_option linter.unusedSectionVars false

namespace MM.C08
open MM

section generic
variable {K P : Type} [DecidableEq K]

/-! ### map primitives -/

def keys (t : KTable K P) : List K := t.map (·.1)

theorem get_of_not_mem {t : KTable K P} {k : K} (h : k ∉ keys t) : get t k = [] := by
  induction t with
  | nil => rfl
  | cons kg rest ih =>
    obtain ⟨k', g⟩ := kg
    simp only [keys, List.map_cons, List.mem_cons, not_or] at h
    simp only [get]
    rw [if_neg (fun e => h.1 e.symm)]
    exact ih h.2

theorem get_of_mem {t : KTable K P} {k : K} {g : Group P} (hn : (keys t).Nodup)
    (h : (k, g) ∈ t) : get t k = g := by
  induction t with
  | nil => cases h
  | cons kg rest ih =>
    obtain ⟨k', g'⟩ := kg
    simp only [keys, List.map_cons, List.nodup_cons] at hn
    simp only [get]
    rcases List.mem_cons.mp h with h | h
    · cases h; simp
    · have : k' ≠ k := by
        intro e; subst e
        exact hn.1 (List.mem_map.mpr ⟨(k', g), h, rfl⟩)
      rw [if_neg this]
      exact ih hn.2 h

theorem mem_of_get_ne_nil {t : KTable K P} {k : K} (h : get t k ≠ []) : (k, get t k) ∈ t := by
  induction t with
  | nil => exact absurd rfl h
  | cons kg rest ih =>
    obtain ⟨k', g'⟩ := kg
    simp only [get] at h ⊢
    by_cases e : k' = k
    · subst e; simp
    · rw [if_neg e] at h ⊢
      exact List.mem_cons_of_mem _ (ih h)

theorem get_set (t : KTable K P) (k k2 : K) (g : Group P) :
    get (set t k g) k2 = if k2 = k then g else get t k2 := by
  induction t with
  | nil =>
    simp only [set, get]
    by_cases e : k2 = k
    · simp [e]
    · rw [if_neg (fun h => e h.symm), if_neg e]
  | cons hd rest ih =>
    obtain ⟨k', g'⟩ := hd
    simp only [set]
    by_cases e : k' = k
    · rw [if_pos e]; subst e
      simp only [get]
      by_cases e2 : k' = k2
      · subst e2; simp
      · rw [if_neg e2, if_neg e2, if_neg (fun h => e2 h.symm)]
    · rw [if_neg e]
      simp only [get]
      by_cases e2 : k' = k2
      · subst e2; rw [if_pos rfl, if_pos rfl, if_neg e]
      · rw [if_neg e2, if_neg e2]; exact ih

theorem mem_set {t : KTable K P} {k : K} {g : Group P} {kg : K × Group P}
    (h : kg ∈ set t k g) : kg = (k, g) ∨ kg ∈ t := by
  induction t with
  | nil => simp only [set, List.mem_singleton] at h; exact Or.inl h
  | cons hd rest ih =>
    obtain ⟨k', g'⟩ := hd
    simp only [set] at h
    by_cases e : k' = k
    · rw [if_pos e] at h
      rcases List.mem_cons.mp h with h | h
      · exact Or.inl h
      · exact Or.inr (List.mem_cons_of_mem _ h)
    · rw [if_neg e] at h
      rcases List.mem_cons.mp h with h | h
      · exact Or.inr (h ▸ List.mem_cons_self)
      · rcases ih h with h | h
        · exact Or.inl h
        · exact Or.inr (List.mem_cons_of_mem _ h)

theorem keys_set (t : KTable K P) (k : K) (g : Group P) :
    keys (set t k g) = if k ∈ keys t then keys t else keys t ++ [k] := by
  induction t with
  | nil => simp [set, keys]
  | cons hd rest ih =>
    obtain ⟨k', g'⟩ := hd
    simp only [set]
    by_cases e : k' = k
    · rw [if_pos e]; subst e; simp [keys]
    · rw [if_neg e]
      simp only [keys, List.map_cons, List.mem_cons] at ih ⊢
      rw [ih]
      by_cases hm : k ∈ List.map (·.1) rest
      · simp [hm]
      · have hne : ¬ k = k' := fun h => e h.symm
        simp [hm, hne]

theorem nodup_keys_set {t : KTable K P} (hn : (keys t).Nodup) (k : K) (g : Group P) :
    (keys (set t k g)).Nodup := by
  rw [keys_set]
  by_cases hm : k ∈ keys t
  · rw [if_pos hm]; exact hn
  · rw [if_neg hm]
    rw [List.nodup_append]
    refine ⟨hn, by simp, ?_⟩
    intro a ha b hb
    simp only [List.mem_singleton] at hb
    subst hb
    intro e; subst e; exact hm ha

theorem del_sublist (t : KTable K P) (k : K) : (del t k).Sublist t := List.filter_sublist

theorem get_del (t : KTable K P) (k k2 : K) :
    get (del t k) k2 = if k2 = k then [] else get t k2 := by
  induction t with
  | nil => simp [del, get]
  | cons hd rest ih =>
    obtain ⟨k', g'⟩ := hd
    simp only [del, List.filter_cons] at ih ⊢
    by_cases e : k' = k
    · subst e
      simp only [decide_true, Bool.not_true, Bool.false_eq_true, if_false]
      rw [ih]
      simp only [get]
      by_cases e2 : k2 = k'
      · simp [e2]
      · rw [if_neg e2, if_neg e2, if_neg (fun h => e2 h.symm)]
    · simp only [e, decide_false, Bool.not_false, if_true]
      simp only [get]
      by_cases e2 : k' = k2
      · subst e2; rw [if_pos rfl, if_pos rfl, if_neg e]
      · rw [if_neg e2, if_neg e2]; exact ih

theorem keys_filterT_sublist (keep : Entry P → Bool) (t : KTable K P) :
    (keys (filterT keep t)).Sublist (keys t) := by
  have h1 : (filterT keep t).Sublist (t.map (fun kg => (kg.1, kg.2.filter keep))) :=
    List.filter_sublist
  have h2 := h1.map (·.1)
  simpa [keys, List.map_map, Function.comp_def] using h2

theorem mem_filterT {keep : Entry P → Bool} {t : KTable K P} {kg : K × Group P}
    (h : kg ∈ filterT keep t) :
    kg.2 ≠ [] ∧ ∃ g, (kg.1, g) ∈ t ∧ kg.2 = g.filter keep := by
  simp only [filterT, List.mem_filter, List.mem_map] at h
  obtain ⟨⟨kg0, hm, he⟩, hne⟩ := h
  subst he
  refine ⟨?_, kg0.2, hm, rfl⟩
  intro e
  rw [e] at hne
  simp at hne

theorem get_filterT {keep : Entry P → Bool} {t : KTable K P} (hn : (keys t).Nodup) (k : K) :
    get (filterT keep t) k = (get t k).filter keep := by
  induction t with
  | nil => simp [filterT, get]
  | cons hd rest ih =>
    obtain ⟨k', g'⟩ := hd
    simp only [keys, List.map_cons, List.nodup_cons] at hn
    have ih' := ih hn.2
    simp only [filterT, List.map_cons, List.filter_cons] at ih' ⊢
    by_cases hemp : (List.filter keep g').isEmpty
    · simp only [hemp, Bool.not_true, Bool.false_eq_true, if_false]
      rw [ih']
      simp only [get]
      by_cases e : k' = k
      · subst e
        rw [if_pos rfl]
        have : k' ∉ keys rest := hn.1
        rw [get_of_not_mem this]
        simp only [List.filter_nil]
        exact (List.isEmpty_iff.mp hemp).symm
      · rw [if_neg e]
    · simp only [hemp, Bool.not_false, if_true]
      simp only [get]
      by_cases e : k' = k
      · rw [if_pos e, if_pos e]
      · rw [if_neg e, if_neg e]; exact ih'

/-! ### routes and `get` -/

theorem mem_routes {t : KTable K P} {e : Entry P} :
    e ∈ routes t ↔ ∃ kg ∈ t, e ∈ kg.2 := by
  simp [routes, List.mem_flatMap]

theorem mem_routes_get {t : KTable K P} (hn : (keys t).Nodup) {e : Entry P} :
    e ∈ routes t ↔ ∃ k, e ∈ get t k := by
  rw [mem_routes]
  constructor
  · rintro ⟨⟨k, g⟩, hm, he⟩
    exact ⟨k, by rw [get_of_mem hn hm]; exact he⟩
  · rintro ⟨k, he⟩
    have hne : get t k ≠ [] := by intro h; rw [h] at he; cases he
    exact ⟨(k, get t k), mem_of_get_ne_nil hne, he⟩

/-! ### the stable sort -/

def SortedG (g : Group P) : Prop := g.Pairwise (fun a b => a.metric ≤ b.metric)

theorem ins_perm (x : Entry P) (g : Group P) : (ins x g).Perm (x :: g) := by
  induction g with
  | nil => exact List.Perm.refl _
  | cons y ys ih =>
    simp only [ins]
    by_cases h : x.metric ≤ y.metric
    · rw [if_pos h]
    · rw [if_neg h]
      exact ((List.Perm.cons y ih).trans (List.Perm.swap x y ys))

theorem sortG_perm (g : Group P) : (sortG g).Perm g := by
  induction g with
  | nil => exact List.Perm.refl _
  | cons x xs ih =>
    simp only [sortG]
    exact (ins_perm x (sortG xs)).trans (List.Perm.cons x ih)

theorem mem_sortG {g : Group P} {e : Entry P} : e ∈ sortG g ↔ e ∈ g := (sortG_perm g).mem_iff

theorem ins_sorted (x : Entry P) {g : Group P} (h : SortedG g) : SortedG (ins x g) := by
  induction g with
  | nil => simp [ins, SortedG]
  | cons y ys ih =>
    simp only [ins]
    have hy := List.pairwise_cons.mp h
    by_cases hxy : x.metric ≤ y.metric
    · rw [if_pos hxy]
      refine List.pairwise_cons.mpr ⟨?_, h⟩
      intro z hz
      rcases List.mem_cons.mp hz with hz | hz
      · subst hz; exact hxy
      · exact Nat.le_trans hxy (hy.1 z hz)
    · rw [if_neg hxy]
      refine List.pairwise_cons.mpr ⟨?_, ih hy.2⟩
      intro z hz
      rcases List.mem_cons.mp ((ins_perm x ys).mem_iff.mp hz) with hz | hz
      · subst hz; omega
      · exact hy.1 z hz

theorem sortG_sorted (g : Group P) : SortedG (sortG g) := by
  induction g with
  | nil => simp [sortG, SortedG]
  | cons x xs ih => exact ins_sorted x ih

theorem ins_of_sorted_le {x : Entry P} {g : Group P} (h : ∀ y ∈ g, x.metric ≤ y.metric) :
    ins x g = x :: g := by
  cases g with
  | nil => rfl
  | cons y ys => simp only [ins]; rw [if_pos (h y List.mem_cons_self)]

/-- sorting a sorted slice changes nothing (the sort is stable) -/
theorem sortG_of_sorted {g : Group P} (h : SortedG g) : sortG g = g := by
  induction g with
  | nil => rfl
  | cons x xs ih =>
    have hx := List.pairwise_cons.mp h
    simp only [sortG]
    rw [ih hx.2]
    exact ins_of_sorted_le hx.1

/-- the head of a sorted slice has the least metric -/
theorem head_min {g : Group P} (h : SortedG g) {r e : Entry P} (hr : g.head? = some r)
    (he : e ∈ g) : r.metric ≤ e.metric := by
  cases g with
  | nil => cases hr
  | cons x xs =>
    simp only [List.head?_cons, Option.some.injEq] at hr
    subst hr
    rcases List.mem_cons.mp he with he | he
    · subst he; exact Nat.le_refl _
    · exact (List.pairwise_cons.mp h).1 e he

/-! ### slots -/

def slotKey (byHop : Bool) (e : Entry P) : Nat × Nat := (e.origin, if byHop then e.nextHop else 0)

theorem sameSlot_iff (byHop : Bool) (r e : Entry P) :
    sameSlot byHop r e = true ↔ slotKey byHop r = slotKey byHop e := by
  cases byHop <;> simp [sameSlot, slotKey]

/-- what the scan of `AddRoute` does to a slice -/
theorem replG_none {byHop : Bool} {e : Entry P} {g : Group P} (h : replG byHop e g = none) :
    ∀ r ∈ g, sameSlot byHop r e = false := by
  induction g with
  | nil => intro r hr; cases hr
  | cons r rs ih =>
    simp only [replG] at h
    by_cases hs : sameSlot byHop r e = true
    · rw [if_pos hs] at h; split at h <;> cases h
    · rw [if_neg hs] at h
      have hrs : replG byHop e rs = none := by
        cases hx : replG byHop e rs with
        | none => rfl
        | some o => rw [hx] at h; cases o <;> cases h
      intro x hx
      rcases List.mem_cons.mp hx with hx | hx
      · subst hx; simpa using hs
      · exact ih hrs x hx

/-- a refused update: there is an entry in the slot, and the first such is not older -/
theorem replG_refused {byHop : Bool} {e : Entry P} {g : Group P}
    (h : replG byHop e g = some none) :
    ∃ pre old post, g = pre ++ old :: post ∧ (∀ r ∈ pre, sameSlot byHop r e = false) ∧
      sameSlot byHop old e = true ∧ newer e old = false := by
  induction g with
  | nil => cases h
  | cons r rs ih =>
    simp only [replG] at h
    by_cases hs : sameSlot byHop r e = true
    · rw [if_pos hs] at h
      by_cases hn : newer e r = true
      · rw [if_pos hn] at h; cases h
      · exact ⟨[], r, rs, rfl, by simp, hs, by simpa using hn⟩
    · rw [if_neg hs] at h
      have hrs : replG byHop e rs = some none := by
        cases hx : replG byHop e rs with
        | none => rw [hx] at h; cases h
        | some o =>
          cases o with
          | none => rfl
          | some _ => rw [hx] at h; cases h
      obtain ⟨pre, old, post, hg, hpre, hso, hno⟩ := ih hrs
      refine ⟨r :: pre, old, post, by rw [hg]; rfl, ?_, hso, hno⟩
      intro x hx
      rcases List.mem_cons.mp hx with hx | hx
      · subst hx; simpa using hs
      · exact hpre x hx

/-- an accepted update: the first entry in the slot is overwritten in place -/
theorem replG_replaced {byHop : Bool} {e : Entry P} {g g' : Group P}
    (h : replG byHop e g = some (some g')) :
    ∃ pre old post, g = pre ++ old :: post ∧ g' = pre ++ e :: post ∧
      (∀ r ∈ pre, sameSlot byHop r e = false) ∧
      sameSlot byHop old e = true ∧ newer e old = true := by
  induction g generalizing g' with
  | nil => cases h
  | cons r rs ih =>
    simp only [replG] at h
    by_cases hs : sameSlot byHop r e = true
    · rw [if_pos hs] at h
      by_cases hn : newer e r = true
      · rw [if_pos hn] at h
        simp only [Option.some.injEq] at h
        exact ⟨[], r, rs, rfl, h ▸ rfl, by simp, hs, hn⟩
      · rw [if_neg hn] at h; cases h
    · rw [if_neg hs] at h
      cases hx : replG byHop e rs with
      | none => rw [hx] at h; cases h
      | some o =>
        cases o with
        | none => rw [hx] at h; cases h
        | some rs' =>
          rw [hx] at h
          simp only [Option.some.injEq] at h
          obtain ⟨pre, old, post, hg, hg', hpre, hso, hno⟩ := ih hx
          refine ⟨r :: pre, old, post, by rw [hg]; rfl, by rw [← h, hg']; rfl, ?_, hso, hno⟩
          intro x hx
          rcases List.mem_cons.mp hx with hx | hx
          · subst hx; simpa using hs
          · exact hpre x hx

theorem removeG_some {o : Nat} {g g' : Group P} (h : removeG o g = some g') :
    ∃ pre old post, g = pre ++ old :: post ∧ g' = pre ++ post ∧
      (∀ r ∈ pre, r.origin ≠ o) ∧ old.origin = o := by
  induction g generalizing g' with
  | nil => cases h
  | cons r rs ih =>
    simp only [removeG] at h
    by_cases hr : r.origin = o
    · rw [if_pos hr] at h
      simp only [Option.some.injEq] at h
      exact ⟨[], r, rs, rfl, h ▸ rfl, by simp, hr⟩
    · rw [if_neg hr] at h
      cases hx : removeG o rs with
      | none => rw [hx] at h; cases h
      | some rs' =>
        rw [hx] at h
        simp only [Option.map_some, Option.some.injEq] at h
        obtain ⟨pre, old, post, hg, hg', hpre, hold⟩ := ih hx
        refine ⟨r :: pre, old, post, by rw [hg]; rfl, by rw [← h, hg']; rfl, ?_, hold⟩
        intro x hx
        rcases List.mem_cons.mp hx with hx | hx
        · subst hx; exact hr
        · exact hpre x hx

theorem removeG_none {o : Nat} {g : Group P} (h : removeG o g = none) :
    ∀ r ∈ g, r.origin ≠ o := by
  induction g with
  | nil => intro r hr; cases hr
  | cons r rs ih =>
    simp only [removeG] at h
    by_cases hr : r.origin = o
    · rw [if_pos hr] at h; cases h
    · rw [if_neg hr] at h
      have : removeG o rs = none := by
        cases hx : removeG o rs with
        | none => rfl
        | some _ => rw [hx] at h; cases h
      intro x hx
      rcases List.mem_cons.mp hx with hx | hx
      · subst hx; exact hr
      · exact ih this x hx

/-! ### the invariant -/

/-- What holds of the slice stored under key `k`. -/
structure GroupOK (c : Cfg K P) (me : Nat) (k : K) (g : Group P) : Prop where
  ne : g ≠ []
  sorted : SortedG g
  key : ∀ e ∈ g, c.keyOf e.pay = k
  stored : ∀ e ∈ g, ∃ p, e.pay = c.store p
  noself : ∀ e ∈ g, me ∉ e.path
  slots : (g.map (slotKey c.byHop)).Nodup

/-- Well-formed table: a genuine map (distinct keys) of non-empty, metric-sorted slices whose
    entries all belong under their key, hold stored-form payloads, never carry the local agent
    in their path, and occupy distinct slots. -/
def WF (c : Cfg K P) (self : Nat) (t : KTable K P) : Prop :=
  (keys t).Nodup ∧ ∀ kg ∈ t, GroupOK c self kg.1 kg.2

theorem WF_nil (c : Cfg K P) (self : Nat) : WF c self ([] : KTable K P) :=
  ⟨List.nodup_nil, fun _ h => by cases h⟩

theorem GroupOK.sublist {c : Cfg K P} {self : Nat} {k : K} {g g' : Group P}
    (h : GroupOK c self k g) (hs : g'.Sublist g) (hne : g' ≠ []) : GroupOK c self k g' :=
  ⟨hne, List.Pairwise.sublist hs h.sorted, fun e he => h.key e (hs.subset he),
   fun e he => h.stored e (hs.subset he), fun e he => h.noself e (hs.subset he),
   List.Nodup.sublist (hs.map _) h.slots⟩

theorem WF.get_ok {c : Cfg K P} {self : Nat} {t : KTable K P} (h : WF c self t) {k : K}
    (hne : get t k ≠ []) : GroupOK c self k (get t k) :=
  h.2 (k, get t k) (mem_of_get_ne_nil hne)

theorem WF_set {c : Cfg K P} {self : Nat} {t : KTable K P} (h : WF c self t) {k : K}
    {g : Group P} (hg : GroupOK c self k g) : WF c self (set t k g) := by
  refine ⟨nodup_keys_set h.1 k g, ?_⟩
  intro kg hkg
  rcases mem_set hkg with e | hm
  · subst e; exact hg
  · exact h.2 kg hm

theorem WF_del {c : Cfg K P} {self : Nat} {t : KTable K P} (h : WF c self t) (k : K) :
    WF c self (del t k) := by
  refine ⟨List.Nodup.sublist ((del_sublist t k).map _) h.1, ?_⟩
  intro kg hkg
  exact h.2 kg ((del_sublist t k).subset hkg)

theorem WF_filterT {c : Cfg K P} {self : Nat} {t : KTable K P} (h : WF c self t)
    (keep : Entry P → Bool) : WF c self (filterT keep t) := by
  refine ⟨List.Nodup.sublist (keys_filterT_sublist keep t) h.1, ?_⟩
  intro kg hkg
  obtain ⟨hne, g, hm, he⟩ := mem_filterT hkg
  have := h.2 (kg.1, g) hm
  rw [he] at hne ⊢
  exact this.sublist List.filter_sublist hne

theorem WF_removeRoute {c : Cfg K P} {self : Nat} {t : KTable K P} (h : WF c self t)
    (k : K) (o : Nat) : WF c self (removeRoute t k o).1 := by
  unfold removeRoute
  cases hr : removeG o (get t k) with
  | none => exact h
  | some g' =>
    cases g' with
    | nil => exact WF_del h k
    | cons x xs =>
      obtain ⟨pre, old, post, hg, hg', -, -⟩ := removeG_some hr
      have hne : get t k ≠ [] := by rw [hg]; simp
      have hok := h.get_ok hne
      refine WF_set h (hok.sublist ?_ (by simp))
      rw [hg', hg]
      exact List.Sublist.append (List.Sublist.refl _) (List.sublist_cons_self _ _)

theorem WF_addRoute {c : Cfg K P} {self : Nat} {t : KTable K P} (h : WF c self t)
    (e : Entry P) : WF c self (addRoute c self t e).1 := by
  unfold addRoute
  by_cases hv : (!c.valid e.pay) = true
  · rw [if_pos hv]; exact h
  rw [if_neg hv]
  by_cases hp : e.path.contains self = true
  · rw [if_pos hp]; exact h
  rw [if_neg hp]
  have hself : self ∉ e.path := by simpa using hp
  dsimp only
  have hpay0 : (stored c e).pay = c.store e.pay := rfl
  have hpath0 : (stored c e).path = e.path := rfl
  generalize stored c e = e' at hpay0 hpath0 ⊢
  have hpay : e'.pay = c.store e.pay := hpay0
  have hpath : e'.path = e.path := hpath0
  generalize hk : c.keyOf e'.pay = k
  have hkey : c.keyOf e'.pay = k := hk
  cases hr : replG c.byHop e' (get t k) with
  | none =>
    dsimp only
    have hno := replG_none hr
    refine WF_set h ?_
    by_cases hne : get t k = []
    · rw [hne]
      refine ⟨by simp [sortG, ins], by simp [sortG, ins, SortedG], ?_, ?_, ?_, by simp [sortG, ins]⟩
      all_goals
        intro x hx
        simp only [List.nil_append, sortG, ins, List.mem_singleton] at hx
        subst hx
      · exact hkey
      · exact ⟨e.pay, hpay⟩
      · rw [hpath]; exact hself
    · have hok := h.get_ok hne
      have hperm := sortG_perm (get t k ++ [e'])
      refine ⟨?_, sortG_sorted _, ?_, ?_, ?_, ?_⟩
      · intro hnil; have := hperm.length_eq; rw [hnil] at this; simp at this
      · intro x hx
        rcases List.mem_append.mp (hperm.mem_iff.mp hx) with hx | hx
        · exact hok.key x hx
        · simp only [List.mem_singleton] at hx; subst hx; exact hkey
      · intro x hx
        rcases List.mem_append.mp (hperm.mem_iff.mp hx) with hx | hx
        · exact hok.stored x hx
        · simp only [List.mem_singleton] at hx; subst hx; exact ⟨e.pay, hpay⟩
      · intro x hx
        rcases List.mem_append.mp (hperm.mem_iff.mp hx) with hx | hx
        · exact hok.noself x hx
        · simp only [List.mem_singleton] at hx; subst hx; rw [hpath]; exact hself
      · rw [(hperm.map (slotKey c.byHop)).nodup_iff, List.map_append, List.nodup_append]
        refine ⟨hok.slots, by simp, ?_⟩
        intro a ha b hb
        simp only [List.map_cons, List.map_nil, List.mem_singleton] at hb
        subst hb
        obtain ⟨r, hr', hra⟩ := List.mem_map.mp ha
        intro heq
        have := hno r hr'
        rw [← hra] at heq
        rw [(sameSlot_iff c.byHop r e').mpr heq] at this
        cases this
  | some o =>
    cases o with
    | none => exact h
    | some g' =>
      dsimp only
      obtain ⟨pre, old, post, hg, hg', -, hso, -⟩ := replG_replaced hr
      have hne : get t k ≠ [] := by rw [hg]; simp
      have hok := h.get_ok hne
      have hperm := sortG_perm g'
      have hmem : ∀ x ∈ sortG g', x = e' ∨ x ∈ get t k := by
        intro x hx
        have := hperm.mem_iff.mp hx
        rw [hg'] at this
        rw [hg]
        rcases List.mem_append.mp this with hx | hx
        · exact Or.inr (List.mem_append_left _ hx)
        · rcases List.mem_cons.mp hx with hx | hx
          · exact Or.inl hx
          · exact Or.inr (List.mem_append_right _ (List.mem_cons_of_mem _ hx))
      refine WF_set h ⟨?_, sortG_sorted _, ?_, ?_, ?_, ?_⟩
      · intro hnil; have := hperm.length_eq; rw [hnil, hg'] at this; simp at this
      · intro x hx
        rcases hmem x hx with hx | hx
        · subst hx; exact hkey
        · exact hok.key x hx
      · intro x hx
        rcases hmem x hx with hx | hx
        · subst hx; exact ⟨e.pay, hpay⟩
        · exact hok.stored x hx
      · intro x hx
        rcases hmem x hx with hx | hx
        · subst hx; rw [hpath]; exact hself
        · exact hok.noself x hx
      · rw [(hperm.map (slotKey c.byHop)).nodup_iff]
        have : g'.map (slotKey c.byHop) = (get t k).map (slotKey c.byHop) := by
          rw [hg, hg']
          simp only [List.map_append, List.map_cons]
          rw [(sameSlot_iff c.byHop old e').mp hso]
        rw [this]; exact hok.slots

theorem WF_step {c : Cfg K P} {self : Nat} {s : State K P} (h : WF c self s.tab)
    (op : Op K P) : WF c self (step c self s op).tab := by
  cases op with
  | add e => exact WF_addRoute h _
  | remove k o => exact WF_removeRoute h k o
  | disconnect p => exact WF_filterT h _
  | tick n => exact h
  | cleanup a => exact WF_filterT h _

theorem WF_foldl {c : Cfg K P} {self : Nat} (ops : List (Op K P)) {s : State K P}
    (h : WF c self s.tab) : WF c self (ops.foldl (step c self) s).tab := by
  induction ops generalizing s with
  | nil => exact h
  | cons op rest ih => exact ih (WF_step h op)

/-- The invariant holds after every history. -/
theorem WF_run (c : Cfg K P) (self : Nat) (ops : List (Op K P)) : WF c self (run c self ops).tab :=
  WF_foldl ops (WF_nil c self)

/-! ### reading a well-formed table -/

theorem WF.mem_get {c : Cfg K P} {self : Nat} {t : KTable K P} (h : WF c self t) {e : Entry P}
    (he : e ∈ routes t) : e ∈ get t (c.keyOf e.pay) := by
  obtain ⟨kg, hkg, hm⟩ := mem_routes.mp he
  have hk := (h.2 kg hkg).key e hm
  rw [hk, get_of_mem h.1 (show (kg.1, kg.2) ∈ t from hkg)]
  exact hm

theorem WF.of_get {c : Cfg K P} {self : Nat} {t : KTable K P} (h : WF c self t) {k : K}
    {e : Entry P} (he : e ∈ get t k) : c.keyOf e.pay = k ∧ e ∈ routes t := by
  have hne : get t k ≠ [] := by intro hn; rw [hn] at he; cases he
  exact ⟨(h.get_ok hne).key e he, (mem_routes_get h.1).mpr ⟨k, he⟩⟩

/-- What `routes[0]` of the slice under `k` is: a stored route of that key with the least metric
    among all stored routes of that key; nothing iff no stored route has that key. -/
def KeyBest (c : Cfg K P) (t : KTable K P) (k : K) : Option (Entry P) → Prop
  | some r => r ∈ routes t ∧ c.keyOf r.pay = k ∧
      ∀ r' ∈ routes t, c.keyOf r'.pay = k → r.metric ≤ r'.metric
  | none => ∀ r' ∈ routes t, c.keyOf r'.pay ≠ k

theorem best_correct {c : Cfg K P} {self : Nat} {t : KTable K P} (h : WF c self t) (k : K) :
    KeyBest c t k (best t k) := by
  unfold best
  cases hb : (get t k).head? with
  | none =>
    intro r' hr' hk
    have := h.mem_get hr'
    rw [hk] at this
    have hnil : get t k = [] := List.head?_eq_none_iff.mp hb
    rw [hnil] at this; cases this
  | some r =>
    have hrm : r ∈ get t k := List.mem_of_mem_head? hb
    obtain ⟨hk, hr⟩ := h.of_get hrm
    refine ⟨hr, hk, ?_⟩
    intro r' hr' hk'
    have hm := h.mem_get hr'
    rw [hk'] at hm
    have hne : get t k ≠ [] := by intro hn; rw [hn] at hm; cases hm
    exact head_min (h.get_ok hne).sorted hb hm

end generic

/-! ## CIDR arithmetic -/

theorem maskLow_div (a s : Nat) : maskLow a s / 2^s = a / 2^s := by
  unfold maskLow
  exact Nat.mul_div_cancel _ (Nat.two_pow_pos s)

/-- clearing low bits of a 16-byte address never produces an IPv4-mapped address -/
theorem maskLow_not_mapped {a s : Nat} (h : a / 2^32 ≠ 0xffff) : maskLow a s / 2^32 ≠ 0xffff := by
  unfold maskLow
  by_cases hs : s ≤ 32
  · have e : (2:Nat)^32 = 2^s * 2^(32 - s) := by rw [← Nat.pow_add]; congr 1; omega
    rw [e, Nat.mul_comm (a / 2^s) (2^s), Nat.mul_div_mul_left _ _ (Nat.two_pow_pos s),
      Nat.div_div_eq_div_mul, ← e]
    exact h
  · have e : (2:Nat)^s = 2^(s - 33) * 2 * 2^32 := by
      rw [Nat.mul_assoc, ← Nat.pow_succ', ← Nat.pow_add]; congr 1; omega
    rw [e, ← Nat.mul_assoc, Nat.mul_div_cancel _ (Nat.two_pow_pos 32), ← Nat.mul_assoc]
    omega

theorem eff_some {n : IPNet} {b a o : Nat} (h : eff n = some (b, a, o)) :
    o ≤ b ∧ ((b = 32 ∧ ∃ a4, to4 n.len n.addr = some a4 ∧ a = a4 ∧
                ((n.mbits = 32 ∧ o = n.ones) ∨ (n.mbits = 128 ∧ o = n.ones - 96))) ∨
             (b = 128 ∧ to4 n.len n.addr = none ∧ n.len = 16 ∧ n.mbits = 128 ∧ a = n.addr ∧
                o = n.ones)) := by
  unfold eff at h
  by_cases h0 : n.ones > n.mbits
  · rw [if_pos h0] at h; cases h
  rw [if_neg h0] at h
  cases h4 : to4 n.len n.addr with
  | some a4 =>
    rw [h4] at h
    dsimp only at h
    by_cases h32 : n.mbits = 32
    · rw [if_pos h32] at h
      simp only [Option.some.injEq, Prod.mk.injEq] at h
      obtain ⟨rfl, rfl, rfl⟩ := h
      exact ⟨by omega, Or.inl ⟨rfl, _, rfl, rfl, Or.inl ⟨h32, rfl⟩⟩⟩
    · rw [if_neg h32] at h
      by_cases h128 : n.mbits = 128
      · rw [if_pos h128] at h
        simp only [Option.some.injEq, Prod.mk.injEq] at h
        obtain ⟨rfl, rfl, rfl⟩ := h
        exact ⟨by omega, Or.inl ⟨rfl, _, rfl, rfl, Or.inr ⟨h128, rfl⟩⟩⟩
      · rw [if_neg h128] at h; cases h
  | none =>
    rw [h4] at h
    dsimp only at h
    by_cases hc : n.len = 16 ∧ n.mbits = 128
    · rw [if_pos hc] at h
      simp only [Option.some.injEq, Prod.mk.injEq] at h
      obtain ⟨rfl, rfl, rfl⟩ := h
      exact ⟨by omega, Or.inr ⟨rfl, rfl, hc.1, hc.2, rfl, rfl⟩⟩
    · rw [if_neg hc] at h; cases h

/-- `networkNumberAndMask` of the canonical network: same family and prefix length, host bits cleared -/
theorem eff_canon {n : IPNet} {b a o : Nat} (h : eff n = some (b, a, o)) :
    eff (canon n) = some (b, maskLow a (b - o), o) := by
  obtain ⟨hob, hc⟩ := eff_some h
  have hcan : canon n = { len := b / 8, addr := maskLow a (b - o), ones := o, mbits := b } := by
    unfold canon; rw [h]
  rw [hcan]
  rcases hc with ⟨rfl, -⟩ | ⟨rfl, h4, hlen, -, ha, -⟩
  · unfold eff to4
    simp only [show ¬ o > 32 from by omega, if_false, show (32:Nat) / 8 = 4 from rfl, if_true]
  · have hnm : n.addr / 2^32 ≠ 0xffff := by
      unfold to4 at h4
      rw [hlen] at h4
      simp only [show ¬ (16:Nat) = 4 from by omega, if_false, true_and] at h4
      intro hm; rw [if_pos hm] at h4; cases h4
    have hnm' := maskLow_not_mapped (s := 128 - o) hnm
    unfold eff to4
    subst ha
    simp only [show ¬ o > 128 from by omega, if_false, show (128:Nat) / 8 = 16 from rfl,
      show ¬ (16:Nat) = 4 from by omega, true_and, hnm', and_self, if_true]

theorem eff_canon_none {n : IPNet} (h : eff n = none) : canon n = n := by
  unfold canon; rw [h]

/-- The repair does not change which addresses a route covers. -/
theorem contains_canon (n : IPNet) (ip : IPAddr) : contains (canon n) ip = contains n ip := by
  cases h : eff n with
  | none => rw [eff_canon_none h]
  | some v =>
    obtain ⟨b, a, o⟩ := v
    unfold contains
    rw [eff_canon h, h]
    cases effIP ip with
    | none => rfl
    | some w => obtain ⟨b', x⟩ := w; simp only [maskLow_div]

theorem plen_canon (n : IPNet) : plen (canon n) = plen n := by
  cases h : eff n with
  | none => rw [eff_canon_none h]
  | some v => obtain ⟨b, a, o⟩ := v; unfold plen; rw [eff_canon h, h]

theorem contains_invalid {n : IPNet} {ip : IPAddr} (hi : effIP ip = none)
    (h : contains n ip = true) : eff n = none := by
  unfold contains at h
  rw [hi] at h
  cases he : eff n with
  | none => rfl
  | some v => rw [he] at h; cases h

theorem contains_valid {n : IPNet} {ip : IPAddr} {z : Nat × Nat} (hi : effIP ip = some z)
    (h : contains n ip = true) : ∃ v, eff n = some v := by
  unfold contains at h
  rw [hi] at h
  cases he : eff n with
  | none => rw [he] at h; cases h
  | some v => exact ⟨v, rfl⟩

/-- for a stored (canonical) network that contains a well-formed address, `Mask.Size()` is its
    prefix length -/
theorem rawOnes_canon {p : IPNet} {ip : IPAddr} {z : Nat × Nat} (hi : effIP ip = some z)
    (h : contains (canon p) ip = true) : rawOnes (canon p) = plen (canon p) := by
  cases he : eff p with
  | none =>
    rw [eff_canon_none he] at h
    obtain ⟨v, hv⟩ := contains_valid hi h
    rw [he] at hv; cases hv
  | some v =>
    obtain ⟨b, a, o⟩ := v
    have hb : b ≠ 0 := by
      obtain ⟨-, hc⟩ := eff_some he
      rcases hc with ⟨rfl, -⟩ | ⟨rfl, -⟩ <;> omega
    unfold plen
    rw [eff_canon he]
    unfold canon rawOnes
    rw [he]
    simp [hb]

theorem eff_canon_eq_none {p : IPNet} (h : eff (canon p) = none) : eff p = none := by
  cases he : eff p with
  | none => rfl
  | some v => obtain ⟨b, a, o⟩ := v; rw [eff_canon he] at h; cases h

/-- two stored networks of equal prefix length that contain one address are the same network -/
theorem canon_key_inj {p q : IPNet} {ip : IPAddr} (hp : contains (canon p) ip = true)
    (hq : contains (canon q) ip = true) (hl : plen (canon p) = plen (canon q)) :
    eff (canon p) = eff (canon q) := by
  cases hi : effIP ip with
  | none => rw [contains_invalid hi hp, contains_invalid hi hq]
  | some z =>
  obtain ⟨v, hv⟩ := contains_valid hi hp
  obtain ⟨w, hw⟩ := contains_valid hi hq
  cases hep : eff p with
  | none => rw [eff_canon_none hep, hep] at hv; cases hv
  | some v =>
  cases heq : eff q with
  | none => rw [eff_canon_none heq, heq] at hw; cases hw
  | some w =>
    obtain ⟨b, a, o⟩ := v
    obtain ⟨b', a', o'⟩ := w
    unfold plen at hl
    rw [eff_canon hep, eff_canon heq] at hl ⊢
    dsimp only at hl
    subst hl
    unfold contains at hp hq
    rw [eff_canon hep] at hp
    rw [eff_canon heq] at hq
    obtain ⟨bi, x⟩ := z
    rw [hi] at hp hq
    simp only [Bool.and_eq_true, beq_iff_eq, maskLow_div] at hp hq
    obtain ⟨rfl, hx⟩ := hp
    obtain ⟨rfl, hx'⟩ := hq
    unfold maskLow
    rw [← hx, ← hx']

end MM.C08
