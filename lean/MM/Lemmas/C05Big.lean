/-
  Lemmas for the two hand-written decoders of C05: QueuedState (length-prefixed blob lists,
  sleep/wake commands located by offset) and NodeInfo (strict head, optional tail).
-/
import MM.Lemmas.C05

namespace MM.C05
open MM

/-- top-level decoder on an encoding followed by arbitrary trailing bytes -/
theorem decodeTop_append {c : Codec α} (hc : c.Sound) (minLen : Nat) (a : α) (rest : Bytes)
    (hwf : c.wf a = true) (hlen : minLen ≤ (c.enc a).length) :
    decodeTop minLen c (c.enc a ++ rest) = some a := by
  unfold decodeTop
  rw [if_neg (by simp; omega), hc a rest hwf]; rfl

theorem lp2_wf (b : Bytes) (h : b.length < 65536) : (lp 2).wf b = true := by
  simp [lp]; omega

/-- a list of blobs that each decode to their item parses back to the list -/
theorem blobList_sound {α : Type} (dec : Bytes → Option α) (enc : α → Bytes) (l : List α)
    (rest : Bytes) (h : ∀ a ∈ l, dec (enc a) = some a ∧ (enc a).length < 65536) :
    blobList dec l.length ((l.map fun a => (lp 2).enc (enc a)).flatten ++ rest) = some (l, rest) := by
  induction l with
  | nil => simp [blobList]
  | cons x xs ih =>
    have hx := h x (by simp)
    have hxs := ih (fun a ha => h a (by simp [ha]))
    simp only [List.map_cons, List.flatten_cons, List.length_cons, blobList, List.append_assoc]
    rw [lp_sound 2 (enc x) _ (lp2_wf _ hx.2)]
    dsimp only
    rw [hxs, hx.1]

theorem encBlobs_dec {α : Type} (dec : Bytes → Option α) (enc : α → Bytes) (l : List α)
    (rest : Bytes) (hl : l.length < 65536)
    (h : ∀ a ∈ l, dec (enc a) = some a ∧ (enc a).length < 65536) :
    ∃ r0, u16.dec (encBlobs enc l ++ rest) = some (l.length, r0) ∧
      blobList dec l.length r0 = some (l, rest) := by
  refine ⟨(l.map fun a => (lp 2).enc (enc a)).flatten ++ rest, ?_, blobList_sound dec enc l rest h⟩
  have := be_sound 2 l.length ((l.map fun a => (lp 2).enc (enc a)).flatten ++ rest)
    (by simp [be]; omega)
  simpa [encBlobs, be, List.append_assoc] using this

theorem encAll_id16_length (l : List Bytes) (h : l.all id16.wf = true) :
    (encAll id16 l).length = 16 * l.length := by
  induction l with
  | nil => rfl
  | cons x xs ih =>
    have h' : x.length = 16 ∧ xs.all id16.wf = true := by simpa [bytesN] using h
    have : encAll id16 (x :: xs) = x ++ encAll id16 xs := by simp [encAll, bytesN]
    rw [this, List.length_append, ih h'.2, h'.1]
    simp; omega

/-- a well-formed sleep/wake command encodes to exactly 97 + 16·|SeenBy| bytes -/
theorem cmd_enc_length (c : Cmd) (h : sleepC.wf c = true) :
    (sleepC.enc c).length = 97 + 16 * c.2.2.2.2.length := by
  obtain ⟨origin, id, ts, sig, seen⟩ := c
  have hw : (id16.wf origin && (u64.wf id && (u64.wf ts && ((bytesN 64).wf sig && ids.wf seen)))) = true := h
  simp only [Bool.and_eq_true] at hw
  obtain ⟨ho, _, _, hs, hsb⟩ := hw
  have ho' : origin.length = 16 := by simpa [bytesN] using ho
  have hs' : sig.length = 64 := by simpa [bytesN] using hs
  have hsb' : seen.all id16.wf = true := by
    have : (decide (seen.length < 256 ^ 1) && seen.all id16.wf) = true := hsb
    simp only [Bool.and_eq_true] at this
    exact this.2
  have := encAll_id16_length seen hsb'
  simp [sleepC, seq, be, bytesN, listN, ho', hs'] at this ⊢
  omega

theorem cmd_minLen : sleepC.MinLen cmdMinLen := by unfold sleepC cmdMinLen; codec_minlen

theorem blobList_shrinks {α : Type} (dec : Bytes → Option α) :
    ∀ (n : Nat) (bs : Bytes) (l : List α) (rest : Bytes),
      blobList dec n bs = some (l, rest) → rest.length ≤ bs.length := by
  intro n
  induction n with
  | zero =>
    intro bs l rest h
    simp only [blobList] at h
    injection h with h; injection h with h1 h2
    subst h2; simp
  | succ n ih =>
    intro bs l rest h
    simp only [blobList] at h
    split at h
    · cases h
    · next blob r hb =>
      split at h
      · cases h
      · next l' r' hr =>
        injection h with h; injection h with h1 h2
        subst h2
        have := ih _ _ _ hr
        have := lp_shrinks 2 _ _ _ hb
        omega

/-! ### NodeInfo optional tail -/

theorem str_enc_ne_nil (s rest : Bytes) : (str.enc s ++ rest).isEmpty = false := by
  simp [lp, beN, leN]

theorem flLoop_sound (l : List (Bytes × Bytes)) (rest : Bytes) (hrest : rest.isEmpty = false)
    (h : l.all flC.wf = true) :
    flLoop l.length (encAll flC l ++ rest) = (l, rest, false) := by
  induction l with
  | nil => simp [flLoop, encAll]
  | cons x xs ih =>
    have hx : flC.wf x = true ∧ xs.all flC.wf = true := by simpa using h
    have hx' : str.wf x.1 = true ∧ str.wf x.2 = true := by simpa [flC, seq] using hx.1
    have e : encAll flC (x :: xs) ++ rest = str.enc x.1 ++ (str.enc x.2 ++ (encAll flC xs ++ rest)) := by
      simp [encAll, flC, seq]
    rw [e]
    simp only [List.length_cons, flLoop]
    rw [str_enc_ne_nil]
    simp only [Bool.false_eq_true, if_false]
    rw [lp_sound 1 x.1 _ hx'.1]
    dsimp only
    rw [str_enc_ne_nil]
    simp only [Bool.false_eq_true, if_false]
    rw [lp_sound 1 x.2 _ hx'.2]
    dsimp only
    rw [ih hx.2]

theorem shLoop_sound (l : List Bytes) (rest : Bytes) (hrest : rest.isEmpty = false)
    (h : l.all str.wf = true) :
    shLoop l.length (encAll str l ++ rest) = (l, rest, false) := by
  induction l with
  | nil => simp [shLoop, encAll]
  | cons x xs ih =>
    have hx : str.wf x = true ∧ xs.all str.wf = true := by simpa using h
    have e : encAll str (x :: xs) ++ rest = str.enc x ++ (encAll str xs ++ rest) := by
      simp [encAll]
    rw [e]
    simp only [List.length_cons, shLoop]
    rw [str_enc_ne_nil]
    simp only [Bool.false_eq_true, if_false]
    rw [lp_sound 1 x _ hx.1]
    dsimp only
    rw [ih hx.2]

theorem optBool_enc (b : Bool) (rest : Bytes) : optBool (bool.enc b ++ rest) = (b, rest) := by
  cases b <;> simp [optBool, bool]

theorem beN1 (k : Nat) : beN 1 k = [UInt8.ofNat (k % 256)] := by
  simp [beN, leN]

theorem u8_toNat (k : Nat) (h : k < 256) : (UInt8.ofNat (k % 256)).toNat = k := by
  rw [UInt8.toNat_ofNat_mod, Nat.mod_eq_of_lt h]

/-! ### what the hand-written decoders accept is well-formed -/

theorem flLoop_wf : ∀ (n : Nat) (bs : Bytes),
    (flLoop n bs).1.all flC.wf = true ∧ (flLoop n bs).1.length ≤ n := by
  intro n
  induction n with
  | zero => intro bs; simp [flLoop]
  | succ n ih =>
    intro bs
    unfold flLoop
    split
    · simp
    · split
      · simp
      · next key r hk =>
        split
        · simp
        · split
          · simp
          · next addr r' ha =>
            have := ih r'
            have hkw := lp_decwf 1 _ _ _ hk
            have haw := lp_decwf 1 _ _ _ ha
            simp only [List.all_cons, List.length_cons, Bool.and_eq_true]
            refine ⟨⟨?_, this.1⟩, by omega⟩
            simp [flC, seq, hkw, haw]

theorem shLoop_wf : ∀ (n : Nat) (bs : Bytes),
    (shLoop n bs).1.all str.wf = true ∧ (shLoop n bs).1.length ≤ n := by
  intro n
  induction n with
  | zero => intro bs; simp [shLoop]
  | succ n ih =>
    intro bs
    unfold shLoop
    split
    · simp
    · split
      · simp
      · next s r hs =>
        have := ih r
        have hsw := lp_decwf 1 _ _ _ hs
        simp only [List.all_cons, List.length_cons, Bool.and_eq_true]
        exact ⟨⟨hsw, this.1⟩, by omega⟩

theorem blobList_all {α : Type} (dec : Bytes → Option α) (P : α → Prop)
    (hP : ∀ blob a, blob.length < 65536 → dec blob = some a → P a) :
    ∀ (n : Nat) (bs : Bytes) (l : List α) (rest : Bytes),
      blobList dec n bs = some (l, rest) → (∀ a ∈ l, P a) ∧ l.length ≤ n := by
  intro n
  induction n with
  | zero =>
    intro bs l rest h
    simp only [blobList] at h
    injection h with h; injection h with h1 h2
    subst h1; simp
  | succ n ih =>
    intro bs l rest h
    simp only [blobList] at h
    split at h
    · cases h
    · next blob r hb =>
      split at h
      · cases h
      · next l' r' hr =>
        injection h with h; injection h with h1 h2
        have := ih _ _ _ hr
        have hbl : blob.length < 65536 := by
          have := lp_decwf 2 _ _ _ hb
          simpa [lp] using this
        subst h1
        split
        · next a ha =>
          refine ⟨?_, by simp; omega⟩
          intro x hx
          rcases List.mem_cons.mp hx with rfl | hx
          · exact hP blob _ hbl ha
          · exact this.1 x hx
        · exact ⟨this.1, by omega⟩

/-- a top-level decode consumes at least the bytes its result re-encodes to -/
theorem decodeTop_enc_le {c : Codec α} (hc : c.LenExact) (k : Nat) (bs : Bytes) (a : α)
    (h : decodeTop k c bs = some a) : (c.enc a).length ≤ bs.length := by
  unfold decodeTop at h
  split at h
  · cases h
  · cases hd : c.dec bs with
    | none => simp [hd] at h
    | some p =>
      obtain ⟨x, r⟩ := p
      simp [hd] at h
      subst h
      have := hc _ _ _ hd
      omega

theorem advPrefix_lenExact (t : Nat) : (advPrefix t).LenExact := by
  unfold advPrefix
  split
  · exact peek1_lenExact
  · split
    · exact fwdPrefix_lenExact
    · split <;> exact bytesN_lenExact _

theorem routeAdvertise_lenExact : routeAdvertiseC.LenExact := by
  unfold routeAdvertiseC advRouteC encPathC
  repeat' (first
    | exact be_lenExact _ | exact bool_lenExact | exact bytesN_lenExact _ | exact lp_lenExact _
    | (intro _; exact advPrefix_lenExact _)
    | apply seq_lenExact | apply dep_lenExact | apply listN_lenExact | apply refine_lenExact)

theorem routeWithdraw_lenExact : routeWithdrawC.LenExact := by
  unfold routeWithdrawC wdRouteC
  repeat' (first
    | exact be_lenExact _ | exact bool_lenExact | exact bytesN_lenExact _ | exact lp_lenExact _
    | (intro _; exact bytesN_lenExact _)
    | apply seq_lenExact | apply dep_lenExact | apply listN_lenExact | apply refine_lenExact)

theorem nodeInfoAdvertise_lenExact : nodeInfoAdvertiseC.LenExact := by
  unfold nodeInfoAdvertiseC encInfoC; codec_lenexact

/-! ### allocation of `DecodeQueuedState` -/

/-- a blob list whose nested decoder allocates at most `L` bytes per blob byte: at most
    `(L+1)` per byte consumed -/
theorem blobAlloc_bound {α : Type} (dec : Bytes → Option α) (top : Bytes → Nat) (L : Nat)
    (hL : ∀ blob, top blob ≤ L * blob.length) :
    ∀ (n : Nat) (bs : Bytes),
      (∀ l r, blobList dec n bs = some (l, r) →
        blobAlloc top n bs + (L + 1) * r.length ≤ (L + 1) * bs.length) ∧
      blobAlloc top n bs ≤ (L + 1) * bs.length := by
  intro n
  induction n with
  | zero =>
    intro bs
    refine ⟨fun l r h => ?_, by simp [blobAlloc]⟩
    simp only [blobList] at h
    injection h with h; injection h with h1 h2
    subst h2; simp [blobAlloc]
  | succ n ih =>
    intro bs
    simp only [blobAlloc, blobList]
    cases hd : (lp 2).dec bs with
    | none => exact ⟨fun l r h => by simp at h, by simp⟩
    | some p =>
      obtain ⟨blob, r1⟩ := p
      have hle := lp_lenExact 2 _ _ _ hd
      have hbl : ((lp 2).enc blob).length = 2 + blob.length := by simp [lp]
      have hR := ih r1
      have hT := hL blob
      have e1 : (L + 1) * bs.length = (L + 1) * (2 + blob.length + r1.length) := by
        congr 1; omega
      have e2 : (L + 1) * (2 + blob.length + r1.length)
          = (L + 1) * 2 + (L * blob.length + blob.length) + (L + 1) * r1.length := by
        rw [Nat.mul_add, Nat.mul_add, Nat.add_mul L 1 blob.length, Nat.one_mul]
      simp only []
      refine ⟨?_, by have := hR.2; omega⟩
      intro l r h
      cases hd2 : blobList dec n r1 with
      | none => simp [hd2] at h
      | some q =>
        obtain ⟨l', r'⟩ := q
        simp [hd2] at h
        obtain ⟨_, rfl⟩ := h
        have := hR.1 l' r' hd2
        omega

theorem routeAdvertiseAlloc_linear (blob : Bytes) : routeAdvertiseAlloc blob ≤ 700 * blob.length := by
  have := decodeTopAlloc_linear routeAdvertise_alloc 28 (by decide) blob
  have e : (2 + 18360 / 28 + 1) = 658 := by decide
  rw [e] at this
  have : 658 * blob.length ≤ 700 * blob.length := Nat.mul_le_mul_right _ (by decide)
  unfold routeAdvertiseAlloc
  omega

theorem routeWithdrawAlloc_linear (blob : Bytes) : routeWithdrawAlloc blob ≤ 700 * blob.length := by
  have := decodeTopAlloc_linear routeWithdraw_alloc 26 (by decide) blob
  have e : (1 + 14280 / 26 + 1) = 551 := by decide
  rw [e] at this
  have : 551 * blob.length ≤ 700 * blob.length := Nat.mul_le_mul_right _ (by decide)
  unfold routeWithdrawAlloc
  omega

theorem nodeInfoAdvertiseAlloc_linear (blob : Bytes) :
    nodeInfoAdvertiseAlloc blob ≤ 700 * blob.length := by
  have := decodeTopAlloc_linear nodeInfoAdvertise_alloc 28 (by decide) blob
  have e : (4 + 11360 / 28 + 1) = 410 := by decide
  rw [e] at this
  have : 410 * blob.length ≤ 700 * blob.length := Nat.mul_le_mul_right _ (by decide)
  unfold nodeInfoAdvertiseAlloc
  omega

theorem cap_le (size count : Nat) (rest : Bytes) (bound : Nat) (h : rest.length ≤ bound) :
    size * min count (rest.length / 2) ≤ size * (bound / 2) :=
  Nat.mul_le_mul_left _ (Nat.le_trans (Nat.min_le_right _ _) (Nat.div_le_div_right h))

/-- `DecodeQueuedState` (fixed) allocates at most 941·len + 8160 bytes through wire-driven sizes. -/
theorem queuedAlloc_le (buf : Bytes) : queuedAlloc buf ≤ 941 * buf.length + 8160 := by
  unfold queuedAlloc
  have z1 : sizeofRouteAdvertise = 120 := rfl
  have z2 : sizeofRouteWithdraw = 72 := rfl
  have z3 : sizeofNodeInfoAdvertise = 288 := rfl
  split
  · omega
  · cases h0 : u16.dec buf with
    | none => simp only []; omega
    | some p0 =>
      obtain ⟨rc, r0⟩ := p0
      have s0 := be_shrinks 2 _ _ _ h0
      have c1 := cap_le sizeofRouteAdvertise rc r0 buf.length s0
      have e1 : sizeofRouteAdvertise * (buf.length / 2) = 120 * (buf.length / 2) := by rw [z1]
      have B1 := blobAlloc_bound decodeRouteAdvertise routeAdvertiseAlloc 700 routeAdvertiseAlloc_linear rc r0
      simp only []
      cases h1 : blobList decodeRouteAdvertise rc r0 with
      | none => simp only []; have := B1.2; omega
      | some p1 =>
        obtain ⟨l1, r1⟩ := p1
        have b1 := B1.1 l1 r1 h1
        have s1 := blobList_shrinks _ _ _ _ _ h1
        simp only []
        cases h2 : u16.dec r1 with
        | none => simp only []; omega
        | some p2 =>
          obtain ⟨wc, r2⟩ := p2
          have s2 := be_shrinks 2 _ _ _ h2
          have c2 := cap_le sizeofRouteWithdraw wc r2 buf.length (by omega)
          have e2 : sizeofRouteWithdraw * (buf.length / 2) = 72 * (buf.length / 2) := by rw [z2]
          have B2 := blobAlloc_bound decodeRouteWithdraw routeWithdrawAlloc 700 routeWithdrawAlloc_linear wc r2
          simp only []
          cases h3 : blobList decodeRouteWithdraw wc r2 with
          | none => simp only []; have := B2.2; omega
          | some p3 =>
            obtain ⟨l3, r3⟩ := p3
            have b2 := B2.1 l3 r3 h3
            have s3 := blobList_shrinks _ _ _ _ _ h3
            simp only []
            cases h4 : u16.dec r3 with
            | none => simp only []; omega
            | some p4 =>
              obtain ⟨nc, r4⟩ := p4
              have s4 := be_shrinks 2 _ _ _ h4
              have c3 := cap_le sizeofNodeInfoAdvertise nc r4 buf.length (by omega)
              have e3 : sizeofNodeInfoAdvertise * (buf.length / 2) = 288 * (buf.length / 2) := by rw [z3]
              have B3 := blobAlloc_bound decodeNodeInfoAdvertise nodeInfoAdvertiseAlloc 700
                nodeInfoAdvertiseAlloc_linear nc r4
              simp only []
              cases h5 : blobList decodeNodeInfoAdvertise nc r4 with
              | none => simp only []; have := B3.2; omega
              | some p5 =>
                obtain ⟨l5, r5⟩ := p5
                have b3 := B3.1 l5 r5 h5
                have s5 := blobList_shrinks _ _ _ _ _ h5
                simp only []
                cases r5 with
                | nil => simp only []; omega
                | cons sf r6 =>
                  have hc := decodeTopAlloc_le sleep_alloc cmdMinLen r6
                  simp only [cmdAlloc, List.length_cons] at *
                  omega

end MM.C05
