/-
  Lemmas for the two hand-written decoders of C05: QueuedState (length-prefixed blob lists,
  sleep/wake commands located by offset) and NodeInfo (strict head, optional tail).
-/
import MM.Lemmas.C05

namespace MM.C05
open MM

/-- top-level decoder on an encoding followed by arbitrary trailing bytes -/
theorem decodeTop_append {c : Codec α} (hc : c.Sound) (minLen : Nat) (a : α) (rest : Bytes)
    (hwf : c.wf a = true) (hlen : minLen ≤ (c.enc a).length) :
    decodeTop minLen c (c.enc a ++ rest) = some a := by
  unfold decodeTop
  rw [if_neg (by simp; omega), hc a rest hwf]; rfl

theorem lp2_wf (b : Bytes) (h : b.length < 65536) : (lp 2).wf b = true := by
  simp [lp]; omega

/-- a list of blobs that each decode to their item parses back to the list -/
theorem blobList_sound {α : Type} (dec : Bytes → Option α) (enc : α → Bytes) (l : List α)
    (rest : Bytes) (h : ∀ a ∈ l, dec (enc a) = some a ∧ (enc a).length < 65536) :
    blobList dec l.length ((l.map fun a => (lp 2).enc (enc a)).flatten ++ rest) = some (l, rest) := by
  induction l with
  | nil => simp [blobList]
  | cons x xs ih =>
    have hx := h x (by simp)
    have hxs := ih (fun a ha => h a (by simp [ha]))
    simp only [List.map_cons, List.flatten_cons, List.length_cons, blobList, List.append_assoc]
    rw [lp_sound 2 (enc x) _ (lp2_wf _ hx.2)]
    dsimp only
    rw [hxs, hx.1]

theorem encBlobs_dec {α : Type} (dec : Bytes → Option α) (enc : α → Bytes) (l : List α)
    (rest : Bytes) (hl : l.length < 65536)
    (h : ∀ a ∈ l, dec (enc a) = some a ∧ (enc a).length < 65536) :
    ∃ r0, u16.dec (encBlobs enc l ++ rest) = some (l.length, r0) ∧
      blobList dec l.length r0 = some (l, rest) := by
  refine ⟨(l.map fun a => (lp 2).enc (enc a)).flatten ++ rest, ?_, blobList_sound dec enc l rest h⟩
  have := be_sound 2 l.length ((l.map fun a => (lp 2).enc (enc a)).flatten ++ rest)
    (by simp [be]; omega)
  simpa [encBlobs, be, List.append_assoc] using this

theorem encAll_id16_length (l : List Bytes) (h : l.all id16.wf = true) :
    (encAll id16 l).length = 16 * l.length := by
  induction l with
  | nil => rfl
  | cons x xs ih =>
    have h' : x.length = 16 ∧ xs.all id16.wf = true := by simpa [bytesN] using h
    have : encAll id16 (x :: xs) = x ++ encAll id16 xs := by simp [encAll, bytesN]
    rw [this, List.length_append, ih h'.2, h'.1]
    simp; omega

/-- a well-formed sleep/wake command encodes to exactly 97 + 16·|SeenBy| bytes -/
theorem cmd_enc_length (c : Cmd) (h : sleepC.wf c = true) :
    (sleepC.enc c).length = 97 + 16 * c.2.2.2.2.length := by
  obtain ⟨origin, id, ts, sig, seen⟩ := c
  have hw : (id16.wf origin && (u64.wf id && (u64.wf ts && ((bytesN 64).wf sig && ids.wf seen)))) = true := h
  simp only [Bool.and_eq_true] at hw
  obtain ⟨ho, _, _, hs, hsb⟩ := hw
  have ho' : origin.length = 16 := by simpa [bytesN] using ho
  have hs' : sig.length = 64 := by simpa [bytesN] using hs
  have hsb' : seen.all id16.wf = true := by
    have : (decide (seen.length < 256 ^ 1) && seen.all id16.wf) = true := hsb
    simp only [Bool.and_eq_true] at this
    exact this.2
  have := encAll_id16_length seen hsb'
  simp [sleepC, seq, be, bytesN, listN, ho', hs'] at this ⊢
  omega

theorem cmd_minLen : sleepC.MinLen cmdMinLen := by unfold sleepC cmdMinLen; codec_minlen

theorem blobList_shrinks {α : Type} (dec : Bytes → Option α) :
    ∀ (n : Nat) (bs : Bytes) (l : List α) (rest : Bytes),
      blobList dec n bs = some (l, rest) → rest.length ≤ bs.length := by
  intro n
  induction n with
  | zero =>
    intro bs l rest h
    simp only [blobList] at h
    injection h with h; injection h with h1 h2
    subst h2; simp
  | succ n ih =>
    intro bs l rest h
    simp only [blobList] at h
    split at h
    · cases h
    · next blob r hb =>
      split at h
      · cases h
      · next l' r' hr =>
        injection h with h; injection h with h1 h2
        subst h2
        have := ih _ _ _ hr
        have := lp_shrinks 2 _ _ _ hb
        omega

/-! ### NodeInfo optional tail -/

theorem str_enc_ne_nil (s rest : Bytes) : (str.enc s ++ rest).isEmpty = false := by
  simp [lp, beN, leN]

theorem flLoop_sound (l : List (Bytes × Bytes)) (rest : Bytes) (hrest : rest.isEmpty = false)
    (h : l.all flC.wf = true) :
    flLoop l.length (encAll flC l ++ rest) = (l, rest, false) := by
  induction l with
  | nil => simp [flLoop, encAll]
  | cons x xs ih =>
    have hx : flC.wf x = true ∧ xs.all flC.wf = true := by simpa using h
    have hx' : str.wf x.1 = true ∧ str.wf x.2 = true := by simpa [flC, seq] using hx.1
    have e : encAll flC (x :: xs) ++ rest = str.enc x.1 ++ (str.enc x.2 ++ (encAll flC xs ++ rest)) := by
      simp [encAll, flC, seq]
    rw [e]
    simp only [List.length_cons, flLoop]
    rw [str_enc_ne_nil]
    simp only [Bool.false_eq_true, if_false]
    rw [lp_sound 1 x.1 _ hx'.1]
    dsimp only
    rw [str_enc_ne_nil]
    simp only [Bool.false_eq_true, if_false]
    rw [lp_sound 1 x.2 _ hx'.2]
    dsimp only
    rw [ih hx.2]

theorem shLoop_sound (l : List Bytes) (rest : Bytes) (hrest : rest.isEmpty = false)
    (h : l.all str.wf = true) :
    shLoop l.length (encAll str l ++ rest) = (l, rest, false) := by
  induction l with
  | nil => simp [shLoop, encAll]
  | cons x xs ih =>
    have hx : str.wf x = true ∧ xs.all str.wf = true := by simpa using h
    have e : encAll str (x :: xs) ++ rest = str.enc x ++ (encAll str xs ++ rest) := by
      simp [encAll]
    rw [e]
    simp only [List.length_cons, shLoop]
    rw [str_enc_ne_nil]
    simp only [Bool.false_eq_true, if_false]
    rw [lp_sound 1 x _ hx.1]
    dsimp only
    rw [ih hx.2]

theorem optBool_enc (b : Bool) (rest : Bytes) : optBool (bool.enc b ++ rest) = (b, rest) := by
  cases b <;> simp [optBool, bool]

theorem beN1 (k : Nat) : beN 1 k = [UInt8.ofNat (k % 256)] := by
  simp [beN, leN]

theorem u8_toNat (k : Nat) (h : k < 256) : (UInt8.ofNat (k % 256)).toNat = k := by
  rw [UInt8.toNat_ofNat_mod, Nat.mod_eq_of_lt h]

/-! ### what the hand-written decoders accept is well-formed -/

theorem flLoop_wf : ∀ (n : Nat) (bs : Bytes),
    (flLoop n bs).1.all flC.wf = true ∧ (flLoop n bs).1.length ≤ n := by
  intro n
  induction n with
  | zero => intro bs; simp [flLoop]
  | succ n ih =>
    intro bs
    unfold flLoop
    split
    · simp
    · split
      · simp
      · next key r hk =>
        split
        · simp
        · split
          · simp
          · next addr r' ha =>
            have := ih r'
            have hkw := lp_decwf 1 _ _ _ hk
            have haw := lp_decwf 1 _ _ _ ha
            simp only [List.all_cons, List.length_cons, Bool.and_eq_true]
            refine ⟨⟨?_, this.1⟩, by omega⟩
            simp [flC, seq, hkw, haw]

theorem shLoop_wf : ∀ (n : Nat) (bs : Bytes),
    (shLoop n bs).1.all str.wf = true ∧ (shLoop n bs).1.length ≤ n := by
  intro n
  induction n with
  | zero => intro bs; simp [shLoop]
  | succ n ih =>
    intro bs
    unfold shLoop
    split
    · simp
    · split
      · simp
      · next s r hs =>
        have := ih r
        have hsw := lp_decwf 1 _ _ _ hs
        simp only [List.all_cons, List.length_cons, Bool.and_eq_true]
        exact ⟨⟨hsw, this.1⟩, by omega⟩

theorem blobList_all {α : Type} (dec : Bytes → Option α) (P : α → Prop)
    (hP : ∀ blob a, blob.length < 65536 → dec blob = some a → P a) :
    ∀ (n : Nat) (bs : Bytes) (l : List α) (rest : Bytes),
      blobList dec n bs = some (l, rest) → (∀ a ∈ l, P a) ∧ l.length ≤ n := by
  intro n
  induction n with
  | zero =>
    intro bs l rest h
    simp only [blobList] at h
    injection h with h; injection h with h1 h2
    subst h1; simp
  | succ n ih =>
    intro bs l rest h
    simp only [blobList] at h
    split at h
    · cases h
    · next blob r hb =>
      split at h
      · cases h
      · next l' r' hr =>
        injection h with h; injection h with h1 h2
        have := ih _ _ _ hr
        have hbl : blob.length < 65536 := by
          have := lp_decwf 2 _ _ _ hb
          simpa [lp] using this
        subst h1
        split
        · next a ha =>
          refine ⟨?_, by simp; omega⟩
          intro x hx
          rcases List.mem_cons.mp hx with rfl | hx
          · exact hP blob _ hbl ha
          · exact this.1 x hx
        · exact ⟨this.1, by omega⟩

/-- a top-level decode consumes at least the bytes its result re-encodes to -/
theorem decodeTop_enc_le {c : Codec α} (hc : c.LenExact) (k : Nat) (bs : Bytes) (a : α)
    (h : decodeTop k c bs = some a) : (c.enc a).length ≤ bs.length := by
  unfold decodeTop at h
  split at h
  · cases h
  · cases hd : c.dec bs with
    | none => simp [hd] at h
    | some p =>
      obtain ⟨x, r⟩ := p
      simp [hd] at h
      subst h
      have := hc _ _ _ hd
      omega

theorem advPrefix_lenExact (t : Nat) : (advPrefix t).LenExact := by
  unfold advPrefix
  split
  · exact peek1_lenExact
  · split
    · exact fwdPrefix_lenExact
    · split <;> exact bytesN_lenExact _

theorem routeAdvertise_lenExact : routeAdvertiseC.LenExact := by
  unfold routeAdvertiseC advRouteC encPathC
  repeat' (first
    | exact be_lenExact _ | exact bool_lenExact | exact bytesN_lenExact _ | exact lp_lenExact _
    | (intro _; exact advPrefix_lenExact _)
    | apply seq_lenExact | apply dep_lenExact | apply listN_lenExact | apply refine_lenExact)

theorem routeWithdraw_lenExact : routeWithdrawC.LenExact := by
  unfold routeWithdrawC wdRouteC
  repeat' (first
    | exact be_lenExact _ | exact bool_lenExact | exact bytesN_lenExact _ | exact lp_lenExact _
    | (intro _; exact bytesN_lenExact _)
    | apply seq_lenExact | apply dep_lenExact | apply listN_lenExact | apply refine_lenExact)

theorem nodeInfoAdvertise_lenExact : nodeInfoAdvertiseC.LenExact := by
  unfold nodeInfoAdvertiseC encInfoC; codec_lenexact

end MM.C05
