import MM.Lemmas.C05
namespace MM.C05
end MM.C05
