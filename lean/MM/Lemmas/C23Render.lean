/-
  C23: the dial string determines what was asked.  Digit strings are injective and separator-free,
  joining separator-free fields is injective, hence `renderV4`, `renderV6` (RFC 5952 text as
  net.IP.String prints it) and `joinHostPort` are injective.
-/
import MM.Model.C23
namespace MM.C23
open MM

/-! ### digits -/

/-- value of an ASCII digit byte in bases up to 16 (lower-case) -/
def valB (x : UInt8) : Nat := if x.toNat ≤ 57 then x.toNat - 48 else x.toNat - 87

/-- decoder: left inverse of `asciiOfChars (Nat.toDigits b n)` -/
def undig (b : Nat) (s : Bytes) : Nat := s.foldl (fun acc x => acc * b + valB x) 0

def digitByte (d : Nat) : UInt8 := UInt8.ofNat (Nat.digitChar d).toNat

theorem valB_digitByte : ∀ d : Fin 16, valB (digitByte d.val) = d.val := by decide

theorem digitByte_not_sep : ∀ d : Fin 16, digitByte d.val ≠ colon ∧ digitByte d.val ≠ dot ∧
    digitByte d.val ≠ 0x5b ∧ digitByte d.val ≠ 0x5d := by decide

theorem undig_append (b : Nat) (s : Bytes) (x : UInt8) : undig b (s ++ [x]) = undig b s * b + valB x := by
  simp [undig, List.foldl_append]

def digitsB (b n : Nat) : Bytes := asciiOfChars (Nat.toDigits b n)

theorem digitsB_eq_if {b : Nat} (hb : 1 < b) (n : Nat) :
    digitsB b n = if n < b then [digitByte n] else digitsB b (n / b) ++ [digitByte (n % b)] := by
  unfold digitsB
  rw [Nat.toDigits_eq_if hb]
  split <;> simp [asciiOfChars, digitByte]

theorem undig_digitsB {b : Nat} (hb : 1 < b) (hb16 : b ≤ 16) (n : Nat) : undig b (digitsB b n) = n := by
  induction n using Nat.strongRecOn with
  | _ n ih =>
    rw [digitsB_eq_if hb]
    split
    · rename_i h
      have := valB_digitByte ⟨n, by omega⟩
      simp [undig, this]
    · rename_i h
      have hlt : n / b < n := Nat.div_lt_self (by omega) hb
      have hm := valB_digitByte ⟨n % b, by have := Nat.mod_lt n (show 0 < b by omega); omega⟩
      rw [undig_append, ih _ hlt, hm]
      exact Nat.div_add_mod' n b

theorem digitsB_injective {b : Nat} (hb : 1 < b) (hb16 : b ≤ 16) {n m : Nat}
    (h : digitsB b n = digitsB b m) : n = m := by
  rw [← undig_digitsB hb hb16 n, ← undig_digitsB hb hb16 m, h]

/-- every byte of a digit string is a digit: no separator can occur in it -/
theorem digitsB_bytes {b : Nat} (hb : 1 < b) (hb16 : b ≤ 16) (n : Nat) :
    ∀ x ∈ digitsB b n, ∃ d : Fin 16, x = digitByte d.val := by
  induction n using Nat.strongRecOn with
  | _ n ih =>
    rw [digitsB_eq_if hb]
    split
    · rename_i h
      intro x hx
      simp at hx
      exact ⟨⟨n, by omega⟩, hx⟩
    · rename_i h
      intro x hx
      rcases List.mem_append.mp hx with hx | hx
      · exact ih _ (Nat.div_lt_self (by omega) hb) x hx
      · simp at hx
        exact ⟨⟨n % b, by have := Nat.mod_lt n (show 0 < b by omega); omega⟩, hx⟩

theorem digitsB_ne_nil (b n : Nat) : digitsB b n ≠ [] := by
  unfold digitsB asciiOfChars
  simp

theorem decimal_eq (n : Nat) : decimal n = digitsB 10 n := rfl
theorem hexNoPad_eq (n : Nat) : hexNoPad n = digitsB 16 n := rfl

/-! ### joined fields -/

def sepFree (sep : UInt8) (x : Bytes) : Prop := sep ∉ x

theorem takeWhile_sepFree {sep : UInt8} {x : Bytes} (h : sepFree sep x) (r : Bytes) :
    (x ++ sep :: r).takeWhile (· != sep) = x ∧ (x ++ sep :: r).dropWhile (· != sep) = sep :: r := by
  induction x with
  | nil => simp
  | cons a as ih =>
    have ha : a ≠ sep := fun e => h (by simp [e])
    have has : sepFree sep as := fun m => h (by simp [m])
    obtain ⟨i1, i2⟩ := ih has
    simp [List.takeWhile, List.dropWhile, ha, i1, i2]

/-- `x ++ sep :: r = x' ++ sep :: r'` with separator-free heads: heads and tails agree. -/
theorem sep_split {sep : UInt8} {x x' r r' : Bytes} (hx : sepFree sep x) (hx' : sepFree sep x')
    (h : x ++ sep :: r = x' ++ sep :: r') : x = x' ∧ r = r' := by
  have a := takeWhile_sepFree hx r
  have b := takeWhile_sepFree hx' r'
  rw [h] at a
  refine ⟨a.1.symm.trans b.1, ?_⟩
  have := a.2.symm.trans b.2
  simpa using this

theorem sep_not_free {sep : UInt8} {x x' r' : Bytes} (hx : sepFree sep x)
    (h : x = x' ++ sep :: r') : False := by
  apply hx; rw [h]; simp

theorem joinSep_cons2 (sep : UInt8) (x y : Bytes) (rest : List Bytes) :
    joinSep sep (x :: y :: rest) = x ++ sep :: joinSep sep (y :: rest) := by
  simp [joinSep]

/-- Joining separator-free fields is injective (on non-empty field lists). -/
theorem joinSep_injective {sep : UInt8} : ∀ {fs fs' : List Bytes}, fs ≠ [] → fs' ≠ [] →
    (∀ x ∈ fs, sepFree sep x) → (∀ x ∈ fs', sepFree sep x) →
    joinSep sep fs = joinSep sep fs' → fs = fs'
  | [], _, h, _, _, _, _ => absurd rfl h
  | _, [], _, h, _, _, _ => absurd rfl h
  | [x], [x'], _, _, _, _, e => by simpa [joinSep] using e
  | [x], x' :: y' :: r', _, _, hf, _, e => by
    rw [joinSep_cons2] at e
    exact (sep_not_free (hf x (by simp)) (by simpa [joinSep] using e)).elim
  | x :: y :: r, [x'], _, _, _, hf', e => by
    rw [joinSep_cons2] at e
    exact (sep_not_free (hf' x' (by simp)) (by simpa [joinSep] using e.symm)).elim
  | x :: y :: r, x' :: y' :: r', _, _, hf, hf', e => by
    rw [joinSep_cons2, joinSep_cons2] at e
    obtain ⟨e1, e2⟩ := sep_split (hf x (by simp)) (hf' x' (by simp)) e
    have := joinSep_injective (fs := y :: r) (fs' := y' :: r') (by simp) (by simp)
      (fun z hz => hf z (by simp [hz])) (fun z hz => hf' z (by simp [hz])) e2
    rw [e1, this]


theorem digits_sepFree {b : Nat} (hb : 1 < b) (hb16 : b ≤ 16) (n : Nat) :
    sepFree colon (digitsB b n) ∧ sepFree dot (digitsB b n) ∧ sepFree 0x5b (digitsB b n) ∧ sepFree 0x5d (digitsB b n) := by
  refine ⟨?_, ?_, ?_, ?_⟩ <;>
  · intro hm
    obtain ⟨d, hd⟩ := digitsB_bytes hb hb16 n _ hm
    have := digitByte_not_sep d
    simp_all

/-! ### IPv4 -/

theorem renderV4_fields (b : Bytes) : renderV4 b =
    joinSep dot [decimal (b[0]!).toNat, decimal (b[1]!).toNat, decimal (b[2]!).toNat, decimal (b[3]!).toNat] := by
  simp [renderV4, joinSep]

theorem four_bytes {l : Bytes} (h : l.length = 4) : l = [l[0]!, l[1]!, l[2]!, l[3]!] := by
  match l, h with
  | [a, b, c, d], _ => simp

theorem renderV4_sepFree_colon (b : Bytes) : sepFree colon (renderV4 b) := by
  unfold renderV4 sepFree
  have h := fun n => (digits_sepFree (b := 10) (by omega) (by omega) n).1
  simp only [decimal_eq, List.mem_append, not_or]
  have hd : colon ∉ [dot] := by decide
  exact ⟨⟨⟨⟨⟨⟨h _, hd⟩, h _⟩, hd⟩, h _⟩, hd⟩, h _⟩

/-- Two IPv4 addresses with the same dotted-quad text are the same address. -/
theorem renderV4_injective {b b' : Bytes} (h : b.length = 4) (h' : b'.length = 4)
    (e : renderV4 b = renderV4 b') : b = b' := by
  rw [renderV4_fields, renderV4_fields] at e
  have hfree : ∀ n, sepFree dot (decimal n) := fun n => (digits_sepFree (b := 10) (by omega) (by omega) n).2.1
  have := joinSep_injective (sep := dot) (by simp) (by simp)
    (by intro x hx; simp at hx; rcases hx with rfl | rfl | rfl | rfl <;> exact hfree _)
    (by intro x hx; simp at hx; rcases hx with rfl | rfl | rfl | rfl <;> exact hfree _) e
  simp only [List.cons.injEq, and_true] at this
  obtain ⟨e0, e1, e2, e3⟩ := this
  have inj : ∀ {x y : UInt8}, decimal x.toNat = decimal y.toNat → x = y := by
    intro x y hxy
    exact UInt8.toNat_inj.mp (digitsB_injective (b := 10) (by omega) (by omega) hxy)
  rw [four_bytes h, four_bytes h', inj e0, inj e1, inj e2, inj e3]


/-- Decoder of the field list of `v6Fields`: groups before the first empty field, zeros, groups
    after the empty fields. -/
def decodeFields (F : List Bytes) : List Nat :=
  let L := F.takeWhile (fun x => !x.isEmpty)
  let rest := F.dropWhile (fun x => !x.isEmpty)
  let R := rest.dropWhile (fun x => x.isEmpty)
  L.map (undig 16) ++ List.replicate (8 - L.length - R.length) 0 ++ R.map (undig 16)

theorem hex_nonempty (l : List Nat) : ∀ x ∈ l.map hexNoPad, (!x.isEmpty) = true := by
  intro x hx
  obtain ⟨n, _, rfl⟩ := List.mem_map.mp hx
  have := digitsB_ne_nil 16 n
  rw [← hexNoPad_eq] at this
  cases h : hexNoPad n with
  | nil => exact absurd h this
  | cons a as => rfl

theorem undig_hex_map (l : List Nat) : (l.map hexNoPad).map (undig 16) = l := by
  rw [List.map_map]
  conv => rhs; rw [← List.map_id l]
  apply List.map_congr_left
  intro n _
  simp only [Function.comp, hexNoPad_eq, id]
  exact undig_digitsB (by omega) (by omega) n

theorem dropWhile_hex (l : List Nat) : (l.map hexNoPad).dropWhile (fun x => x.isEmpty) = l.map hexNoPad := by
  cases l with
  | nil => rfl
  | cons a as =>
    have := hex_nonempty (a :: as) (hexNoPad a) (by simp)
    simp only [List.map_cons]
    rw [List.dropWhile_cons_of_neg]
    simpa using this

theorem takeWhile_hex (l : List Nat) : (l.map hexNoPad).takeWhile (fun x => !x.isEmpty) = l.map hexNoPad := by
  have := List.takeWhile_append_of_pos (p := fun x : Bytes => !x.isEmpty) (l₂ := []) (hex_nonempty l)
  simpa using this

theorem dropWhile_hex_ne (l : List Nat) : (l.map hexNoPad).dropWhile (fun x => !x.isEmpty) = [] := by
  have := List.dropWhile_append_of_pos (p := fun x : Bytes => !x.isEmpty) (l₂ := []) (hex_nonempty l)
  simpa using this

/-- a list whose entries in `[zs, ze)` are zero -/
theorem zeros_middle (gs : List Nat) (zs ze : Nat) (h1 : zs < ze) (h2 : ze ≤ gs.length)
    (hz : ∀ i, zs ≤ i → i < ze → gs[i]! = 0) :
    gs.take zs ++ List.replicate (ze - zs) 0 ++ gs.drop ze = gs := by
  have hmid : (gs.drop zs).take (ze - zs) = List.replicate (ze - zs) 0 := by
    apply List.eq_replicate_iff.mpr
    refine ⟨by simp; omega, ?_⟩
    intro x hx
    obtain ⟨i, hi, rfl⟩ := List.mem_iff_getElem.mp hx
    simp at hi
    have := hz (zs + i) (by omega) (by omega)
    simp only [List.getElem_take, List.getElem_drop]
    rw [getElem!_pos gs (zs + i) (by omega)] at this
    exact this
  rw [← hmid]
  have : gs.drop ze = (gs.drop zs).drop (ze - zs) := by
    rw [List.drop_drop]; congr 1; omega
  rw [this, List.append_assoc, List.take_append_drop, List.take_append_drop]

theorem decode_v6Fields (gs : List Nat) (hlen : gs.length = 8) (zs ze : Nat)
    (hrun : zs < ze → ze ≤ 8 ∧ ∀ i, zs ≤ i → i < ze → gs[i]! = 0) :
    decodeFields (v6Fields gs zs ze) = gs := by
  unfold v6Fields decodeFields
  by_cases hc : zs < ze
  · obtain ⟨h8, hz⟩ := hrun hc
    rw [if_pos hc]
    dsimp only
    -- the empty fields
    generalize hE : ([[]] ++ (if zs = 0 then [[]] else []) ++ (if ze = 8 then [[]] else []) : List Bytes) = E
    have hEne : ∃ t, E = [] :: t := by
      rw [← hE]; exact ⟨(if zs = 0 then [[]] else []) ++ (if ze = 8 then [[]] else []), by simp⟩
    have hEall : ∀ x ∈ E, x.isEmpty = true := by
      rw [← hE]; intro x hx
      by_cases a : zs = 0 <;> by_cases b : ze = 8 <;> simp [a, b] at hx <;> simp [hx]
    obtain ⟨t, ht⟩ := hEne
    have hA := hex_nonempty (gs.take zs)
    have tw : (List.map hexNoPad (gs.take zs) ++ E ++ List.map hexNoPad (gs.drop ze)).takeWhile
        (fun x => !x.isEmpty) = List.map hexNoPad (gs.take zs) := by
      rw [List.append_assoc, List.takeWhile_append_of_pos hA, ht]
      simp
    have dw : (List.map hexNoPad (gs.take zs) ++ E ++ List.map hexNoPad (gs.drop ze)).dropWhile
        (fun x => !x.isEmpty) = E ++ List.map hexNoPad (gs.drop ze) := by
      rw [List.append_assoc, List.dropWhile_append_of_pos hA, ht]
      simp
    rw [tw, dw, List.dropWhile_append_of_pos hEall, dropWhile_hex, undig_hex_map, undig_hex_map]
    have hl : 8 - (List.map hexNoPad (gs.take zs)).length - (List.map hexNoPad (gs.drop ze)).length = ze - zs := by
      simp; omega
    rw [hl]
    exact zeros_middle gs zs ze hc (by omega) hz
  · rw [if_neg hc]
    dsimp only
    rw [takeWhile_hex, dropWhile_hex_ne]
    have := undig_hex_map gs
    simp [this, hlen]


/-- the selected run (if any) lies inside the 8 groups and covers zero groups only -/
def runOK (pat : List Bool) : Bool :=
  let z := longestRunP pat
  !(decide (z.1 < z.2)) ||
    (decide (z.2 ≤ 8) && (List.range 8).all (fun i => !(decide (z.1 ≤ i) && decide (i < z.2)) || pat[i]!))

theorem runOK_all : ∀ a b c d e f g h : Bool, runOK [a, b, c, d, e, f, g, h] = true := by decide

theorem eight {α : Type} {l : List α} (h : l.length = 8) :
    ∃ a b c d e f g i, l = [a, b, c, d, e, f, g, i] := by
  match l, h with
  | [a, b, c, d, e, f, g, i], _ => exact ⟨a, b, c, d, e, f, g, i, rfl⟩

theorem groups_length (b : Bytes) : (groups b).length = 8 := by simp [groups]

theorem run_zero (gs : List Nat) (hlen : gs.length = 8)
    (hlt : (longestRunP (zeroPat gs)).1 < (longestRunP (zeroPat gs)).2) :
    (longestRunP (zeroPat gs)).2 ≤ 8 ∧
      ∀ i, (longestRunP (zeroPat gs)).1 ≤ i → i < (longestRunP (zeroPat gs)).2 → gs[i]! = 0 := by
  have hp : (zeroPat gs).length = 8 := by simp [zeroPat, hlen]
  obtain ⟨a, b, c, d, e, f, g, h, hpat⟩ := eight hp
  have hok := runOK_all a b c d e f g h
  rw [← hpat] at hok
  unfold runOK at hok
  simp only [Bool.or_eq_true, Bool.not_eq_true', decide_eq_false_iff_not, Bool.and_eq_true,
    decide_eq_true_eq, List.all_eq_true, List.mem_range] at hok
  rcases hok with hok | ⟨h8, hall⟩
  · exact absurd hlt hok
  · refine ⟨h8, ?_⟩
    intro i h1 h2
    have := hall i (by omega)
    rcases this with this | this
    · simp [h1, h2] at this
    · have hi : i < gs.length := by omega
      unfold zeroPat at this
      rw [getElem!_pos _ i (by simp; omega)] at this
      rw [getElem!_pos gs i hi]
      simpa using this


theorem v6Fields_sepFree (gs : List Nat) (zs ze : Nat) : ∀ x ∈ v6Fields gs zs ze, sepFree colon x := by
  have hx : ∀ l : List Nat, ∀ x ∈ l.map hexNoPad, sepFree colon x := by
    intro l x hx
    obtain ⟨n, _, rfl⟩ := List.mem_map.mp hx
    exact (digits_sepFree (b := 16) (by omega) (by omega) n).1
  have hnil : sepFree colon ([] : Bytes) := by simp [sepFree]
  intro x hm
  unfold v6Fields at hm
  split at hm
  · simp only [List.mem_append] at hm
    rcases hm with (hm | hm) | hm
    · exact hx _ x hm
    · have : x = [] := by
        by_cases a : zs = 0 <;> by_cases b : ze = 8 <;> simp [a, b] at hm <;> exact hm
      rw [this]; exact hnil
    · exact hx _ x hm
  · exact hx _ x hm

theorem v6Fields_two (gs : List Nat) (hlen : gs.length = 8) (zs ze : Nat) (h8 : zs < ze → ze ≤ 8) :
    ∃ x y r, v6Fields gs zs ze = x :: y :: r := by
  have hl : 2 ≤ (v6Fields gs zs ze).length := by
    unfold v6Fields
    split
    · rename_i hc
      have := h8 hc
      by_cases a : zs = 0 <;> by_cases b : ze = 8 <;> simp [a, b, hlen] <;> omega
    · simp [hlen]
  match h : v6Fields gs zs ze, hl with
  | x :: y :: r, _ => exact ⟨x, y, r, rfl⟩

theorem sixteen {l : Bytes} (h : l.length = 16) :
    ∃ a0 a1 a2 a3 a4 a5 a6 a7 a8 a9 a10 a11 a12 a13 a14 a15,
      l = [a0, a1, a2, a3, a4, a5, a6, a7, a8, a9, a10, a11, a12, a13, a14, a15] := by
  match l, h with
  | [a0, a1, a2, a3, a4, a5, a6, a7, a8, a9, a10, a11, a12, a13, a14, a15], _ =>
    exact ⟨a0, a1, a2, a3, a4, a5, a6, a7, a8, a9, a10, a11, a12, a13, a14, a15, rfl⟩

theorem pair_inj {a b c d : UInt8} (h : a.toNat * 256 + b.toNat = c.toNat * 256 + d.toNat) : a = c ∧ b = d := by
  have := a.toNat_lt; have := b.toNat_lt; have := c.toNat_lt; have := d.toNat_lt
  exact ⟨UInt8.toNat_inj.mp (by omega), UInt8.toNat_inj.mp (by omega)⟩

/-- the eight groups determine the sixteen bytes -/
theorem groups_injective {b b' : Bytes} (h : b.length = 16) (h' : b'.length = 16)
    (e : groups b = groups b') : b = b' := by
  obtain ⟨a0, a1, a2, a3, a4, a5, a6, a7, a8, a9, a10, a11, a12, a13, a14, a15, rfl⟩ := sixteen h
  obtain ⟨c0, c1, c2, c3, c4, c5, c6, c7, c8, c9, c10, c11, c12, c13, c14, c15, rfl⟩ := sixteen h'
  simp [groups, group, List.range, List.range.loop] at e
  obtain ⟨e0, e1, e2, e3, e4, e5, e6, e7⟩ := e
  obtain ⟨rfl, rfl⟩ := pair_inj e0
  obtain ⟨rfl, rfl⟩ := pair_inj e1
  obtain ⟨rfl, rfl⟩ := pair_inj e2
  obtain ⟨rfl, rfl⟩ := pair_inj e3
  obtain ⟨rfl, rfl⟩ := pair_inj e4
  obtain ⟨rfl, rfl⟩ := pair_inj e5
  obtain ⟨rfl, rfl⟩ := pair_inj e6
  obtain ⟨rfl, rfl⟩ := pair_inj e7
  rfl

/-- the text of a (non IPv4-mapped) IPv6 address decodes back to its groups -/
theorem decode_render_groups (b : Bytes) :
    decodeFields (v6Fields (groups b) (longestZeroRun b).1 (longestZeroRun b).2) = groups b :=
  decode_v6Fields (groups b) (groups_length b) _ _ (run_zero (groups b) (groups_length b))

/-- Two IPv6 addresses (not IPv4-mapped) with the same RFC 5952 text are the same address. -/
theorem renderV6_injective {b b' : Bytes} (h : b.length = 16) (h' : b'.length = 16)
    (hm : is4in6 b = false) (hm' : is4in6 b' = false) (e : renderV6 b = renderV6 b') : b = b' := by
  unfold renderV6 at e
  simp only [hm, hm', Bool.false_eq_true, if_false] at e
  obtain ⟨x, y, r, hf⟩ := v6Fields_two (groups b) (groups_length b) _ _
    (fun hc => (run_zero (groups b) (groups_length b) hc).1)
  obtain ⟨x', y', r', hf'⟩ := v6Fields_two (groups b') (groups_length b') _ _
    (fun hc => (run_zero (groups b') (groups_length b') hc).1)
  have := joinSep_injective (sep := colon)
    (fs := v6Fields (groups b) (longestZeroRun b).1 (longestZeroRun b).2)
    (fs' := v6Fields (groups b') (longestZeroRun b').1 (longestZeroRun b').2)
    (by rw [show longestZeroRun b = longestRunP (zeroPat (groups b)) from rfl, hf]; simp)
    (by rw [show longestZeroRun b' = longestRunP (zeroPat (groups b')) from rfl, hf']; simp)
    (v6Fields_sepFree _ _ _) (v6Fields_sepFree _ _ _) e
  apply groups_injective h h'
  rw [← decode_render_groups b, ← decode_render_groups b', this]

/-- … and it always contains a colon, so it is never the text of an IPv4 address. -/
theorem renderV6_has_colon {b : Bytes} (hm : is4in6 b = false) : colon ∈ renderV6 b := by
  unfold renderV6
  simp only [hm, Bool.false_eq_true, if_false]
  obtain ⟨x, y, r, hf⟩ := v6Fields_two (groups b) (groups_length b) _ _
    (fun hc => (run_zero (groups b) (groups_length b) hc).1)
  rw [show longestZeroRun b = longestRunP (zeroPat (groups b)) from rfl, hf, joinSep_cons2]
  simp


/-- what precedes the final `:port` in the dial string -/
def hostPart (host : Bytes) : Bytes := if host.contains colon then [0x5b] ++ host ++ [0x5d] else host

theorem joinHostPort_eq (host : Bytes) (port : Nat) :
    joinHostPort host port = hostPart host ++ colon :: decimal port := by
  unfold joinHostPort hostPart
  split <;> simp

theorem last_sep_split {sep : UInt8} {pre pre' d d' : Bytes} (hd : sepFree sep d) (hd' : sepFree sep d')
    (h : pre ++ sep :: d = pre' ++ sep :: d') : pre = pre' ∧ d = d' := by
  have hr := congrArg List.reverse h
  simp only [List.reverse_append, List.reverse_cons, List.append_assoc, List.singleton_append] at hr
  have f : ∀ {x : Bytes}, sepFree sep x → sepFree sep x.reverse := fun hx m => hx (List.mem_reverse.mp m)
  obtain ⟨e1, e2⟩ := sep_split (f hd) (f hd') hr
  exact ⟨List.reverse_inj.mp e2, List.reverse_inj.mp e1⟩

/-- `net.JoinHostPort(host, itoa(port))` determines both the host bytes and the port. -/
theorem joinHostPort_injective {h h' : Bytes} {p p' : Nat}
    (e : joinHostPort h p = joinHostPort h' p') : h = h' ∧ p = p' := by
  rw [joinHostPort_eq, joinHostPort_eq] at e
  have hd : ∀ n, sepFree colon (decimal n) := fun n => (digits_sepFree (b := 10) (by omega) (by omega) n).1
  obtain ⟨e1, e2⟩ := last_sep_split (hd p) (hd p') e
  refine ⟨?_, digitsB_injective (b := 10) (by omega) (by omega) e2⟩
  unfold hostPart at e1
  by_cases c : h.contains colon = true <;> by_cases c' : h'.contains colon = true
  · rw [if_pos c, if_pos c'] at e1
    simpa using e1
  · rw [if_pos c, if_neg c'] at e1
    have : colon ∈ h' := by rw [← e1]; simp [List.contains_iff_mem.mp c]
    exact absurd (List.contains_iff_mem.mpr this) c'
  · rw [if_neg c, if_pos c'] at e1
    have : colon ∈ h := by rw [e1]; simp [List.contains_iff_mem.mp c']
    exact absurd (List.contains_iff_mem.mpr this) c
  · rw [if_neg c, if_neg c'] at e1
    exact e1


theorem splitLast_append {sep : UInt8} (pre d : Bytes) (hd : sepFree sep d) :
    splitLast sep (pre ++ sep :: d) = some (pre, d) := by
  unfold splitLast
  have f : sepFree sep d.reverse := fun m => hd (List.mem_reverse.mp m)
  have hr : (pre ++ sep :: d).reverse = d.reverse ++ sep :: pre.reverse := by simp
  obtain ⟨t, dw⟩ := takeWhile_sepFree f pre.reverse
  dsimp only
  rw [hr, t, dw]
  simp

def bracketFree (h : Bytes) : Prop := (0x5b : UInt8) ∉ h ∧ (0x5d : UInt8) ∉ h

theorem decimal_free (n : Nat) : sepFree colon (decimal n) ∧ (0x5b : UInt8) ∉ decimal n ∧ (0x5d : UInt8) ∉ decimal n := by
  have := digits_sepFree (b := 10) (by omega) (by omega) n
  exact ⟨this.1, this.2.2.1, this.2.2.2⟩

/-- A host without brackets comes back from `SplitHostPort` exactly as it went into
    `JoinHostPort` (colons or not), with the port's decimal text. -/
theorem split_join (h : Bytes) (hb : bracketFree h) (p : Nat) :
    splitHostPort (joinHostPort h p) = .ok h (decimal p) := by
  obtain ⟨hd, hb1, hb2⟩ := decimal_free p
  obtain ⟨h1, h2⟩ := hb
  rw [joinHostPort_eq]
  unfold splitHostPort
  rw [splitLast_append _ _ hd]
  dsimp only
  unfold hostPart
  by_cases c : h.contains colon = true
  · rw [if_pos c]
    have hs : ([0x5b] ++ h ++ [0x5d] ++ colon :: decimal p : Bytes) = (0x5b :: h) ++ 0x5d :: (colon :: decimal p) := by simp
    have hfree : sepFree 0x5d ((0x5b : UInt8) :: h) := by
      intro m; simp at m; exact h2 m
    obtain ⟨tw, _⟩ := takeWhile_sepFree hfree (colon :: decimal p)
    rw [hs, tw]
    have hc5b : colon ≠ (0x5b : UInt8) := by decide
    have hc5d : colon ≠ (0x5d : UInt8) := by decide
    simp [h1, h2, hb1, hb2, List.take_left', hc5b.symm, hc5d.symm]
  · rw [if_neg c]
    have hhead : (h ++ colon :: decimal p).head? ≠ some 0x5b := by
      cases h with
      | nil => simp; decide
      | cons a as => simp; intro e; exact h1 (by simp [e])
    have hc5b : colon ≠ (0x5b : UInt8) := by decide
    have hc5d : colon ≠ (0x5d : UInt8) := by decide
    rw [if_neg hhead]
    have cm : colon ∉ h := fun m => c (List.contains_iff_mem.mpr m)
    simp [cm, h1, h2, hb1, hb2, hc5b.symm, hc5d.symm]


theorem joinSep_notMem {sep x : UInt8} (hx : x ≠ sep) : ∀ (fs : List Bytes), (∀ f ∈ fs, x ∉ f) → x ∉ joinSep sep fs
  | [], _ => by simp [joinSep]
  | [f], h => by simpa [joinSep] using h f (by simp)
  | f :: g :: r, h => by
    rw [joinSep_cons2]
    have ih := joinSep_notMem hx (g :: r) (fun y hy => h y (by simp [hy]))
    have hf := h f (by simp)
    simp only [List.mem_append, List.mem_cons, not_or]
    exact ⟨hf, hx, ih⟩

theorem digits_bracketFree {b : Nat} (hb : 1 < b) (hb16 : b ≤ 16) (n : Nat) : bracketFree (digitsB b n) :=
  ⟨(digits_sepFree hb hb16 n).2.2.1, (digits_sepFree hb hb16 n).2.2.2⟩

theorem renderV4_bracketFree (b : Bytes) : bracketFree (renderV4 b) := by
  rw [renderV4_fields]
  have h := fun n => digits_bracketFree (b := 10) (by omega) (by omega) n
  constructor
  · apply joinSep_notMem (by decide)
    intro f hf; simp at hf; rcases hf with rfl | rfl | rfl | rfl <;> exact (h _).1
  · apply joinSep_notMem (by decide)
    intro f hf; simp at hf; rcases hf with rfl | rfl | rfl | rfl <;> exact (h _).2

theorem v6Fields_bracketFree (gs : List Nat) (zs ze : Nat) : ∀ x ∈ v6Fields gs zs ze, bracketFree x := by
  have hx : ∀ l : List Nat, ∀ x ∈ l.map hexNoPad, bracketFree x := by
    intro l x hx
    obtain ⟨n, _, rfl⟩ := List.mem_map.mp hx
    exact digits_bracketFree (b := 16) (by omega) (by omega) n
  have hnil : bracketFree ([] : Bytes) := by simp [bracketFree]
  intro x hm
  unfold v6Fields at hm
  split at hm
  · simp only [List.mem_append] at hm
    rcases hm with (hm | hm) | hm
    · exact hx _ x hm
    · have : x = [] := by
        by_cases a : zs = 0 <;> by_cases b : ze = 8 <;> simp [a, b] at hm <;> exact hm
      rw [this]; exact hnil
    · exact hx _ x hm
  · exact hx _ x hm

theorem renderV6_bracketFree (b : Bytes) : bracketFree (renderV6 b) := by
  unfold renderV6
  split
  · exact renderV4_bracketFree _
  · constructor
    · exact joinSep_notMem (by decide) _ (fun f hf => (v6Fields_bracketFree _ _ _ f hf).1)
    · exact joinSep_notMem (by decide) _ (fun f hf => (v6Fields_bracketFree _ _ _ f hf).2)

end MM.C23
