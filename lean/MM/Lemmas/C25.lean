import MM.Model.C25

namespace MM.C25
open MM

theorem validateAuth_ne_ok {pwOK : Bytes → Bytes → Bool} {c : Cfg} {p : Bytes} {v : Verdict}
    (h : validateAuth pwOK c p = some v) : v ≠ .ok := by
  unfold validateAuth at h
  split at h
  · cases h
  · split at h
    · cases h; intro h'; cases h'
    · split at h
      · cases h
      · cases h; intro h'; cases h'

theorem validateAuth_none {pwOK : Bytes → Bytes → Bool} {c : Cfg} {p : Bytes}
    (h : validateAuth pwOK c p = none) : c.hash = [] ∨ (p ≠ [] ∧ pwOK c.hash p = true) := by
  unfold validateAuth at h
  split at h
  · left; assumption
  · split at h
    · cases h
    · split at h
      · right; constructor <;> assumption
      · cases h

theorem argLoop_ne_ok {i : Nat} {args : List Bytes} {v : Verdict}
    (h : argLoop i args = some v) : v ≠ .ok := by
  induction args generalizing i with
  | nil => cases h
  | cons a rest ih =>
    unfold argLoop at h
    split at h
    · cases h; intro h'; cases h'
    · split at h
      · cases h; intro h'; cases h'
      · exact ih h

theorem argLoop_none {i : Nat} {args : List Bytes} (h : argLoop i args = none) :
    ∀ a ∈ args, dangerous a = false ∧ isAbs a = false := by
  induction args generalizing i with
  | nil => intro a ha; cases ha
  | cons a rest ih =>
    unfold argLoop at h
    split at h
    · cases h
    · split at h
      · cases h
      · intro b hb
        rcases List.mem_cons.mp hb with rfl | hb
        · constructor <;> simp_all
        · exact ih h b hb

theorem validateArgs_ne_ok {c : Cfg} {args : List Bytes} {v : Verdict}
    (h : validateArgs c args = some v) : v ≠ .ok := by
  unfold validateArgs at h
  split at h
  · cases h
  · exact argLoop_ne_ok h

theorem validateArgs_none {c : Cfg} {args : List Bytes} (hw : hasWildcard c = false)
    (h : validateArgs c args = none) : ∀ a ∈ args, dangerous a = false ∧ isAbs a = false := by
  unfold validateArgs at h
  simp only [hw, Bool.false_eq_true, if_false] at h
  exact argLoop_none h

theorem acquire_ok {c : Cfg} {n : Int} (h : (acquire c n).1 = .ok) :
    (c.maxSessions > 0 → n < c.maxSessions) ∧ (acquire c n).2 = n + 1 := by
  unfold acquire at h ⊢
  split
  · rename_i hh; simp [hh] at h
  · rename_i hh
    refine ⟨fun hp => ?_, rfl⟩
    have : ¬ n ≥ c.maxSessions := fun hge => hh ⟨hp, hge⟩
    omega

theorem not_mem_of_any_false {cmd : Bytes} {x : UInt8} {p : UInt8 → Bool}
    (h : cmd.any p = false) (hx : p x = true) : x ∉ cmd := by
  intro hm
  have : cmd.any p = true := List.any_eq_true.mpr ⟨x, hm, hx⟩
  simp [h] at this

theorem isCommandAllowed_noWild {c : Cfg} {cmd : Bytes} (hw : hasWildcard c = false)
    (h : isCommandAllowed c cmd = true) :
    cmd ∈ c.whitelist ∧ (0x2f : UInt8) ∉ cmd ∧ (0x5c : UInt8) ∉ cmd := by
  unfold isCommandAllowed at h
  split at h
  · cases h
  · simp only [hw, Bool.false_eq_true, if_false] at h
    split at h
    · cases h
    · rename_i hs
      have hs' : hasSep cmd = false := by simpa using hs
      refine ⟨?_, ?_, ?_⟩
      · obtain ⟨w, hwm, hweq⟩ := List.any_eq_true.mp h
        have : w = cmd := by simpa using hweq
        exact this ▸ hwm
      · exact not_mem_of_any_false hs' (by decide)
      · exact not_mem_of_any_false hs' (by decide)

/-- Shape of an admitted request: every earlier check passed and the verdict is `acquire`'s. -/
theorem admit_ok_inv {pwOK : Bytes → Bytes → Bool} {c : Cfg} {m : Meta} {n : Int}
    (h : (validateAndAcquire pwOK c m n).1 = .ok) :
    c.enabled = true ∧ validateAuth pwOK c m.password = none ∧
    isCommandAllowed c m.command = true ∧ validateArgs c m.args = none ∧
    validateAndAcquire pwOK c m n = acquire c n := by
  unfold validateAndAcquire at h ⊢
  cases hen : c.enabled with
  | false => simp [hen] at h
  | true =>
    simp only [hen, Bool.not_true, Bool.false_eq_true, if_false] at h ⊢
    cases hau : validateAuth pwOK c m.password with
    | some v =>
      simp only [hau] at h
      exact absurd h (validateAuth_ne_ok hau)
    | none =>
      simp only [hau] at h ⊢
      cases hcmd : isCommandAllowed c m.command with
      | false => simp [hcmd] at h
      | true =>
        simp only [hcmd, Bool.not_true, Bool.false_eq_true, if_false] at h ⊢
        cases hargs : validateArgs c m.args with
        | some v =>
          simp only [hargs] at h
          exact absurd h (validateArgs_ne_ok hargs)
        | none => simp

end MM.C25
