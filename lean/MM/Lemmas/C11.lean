import MM.Model.C11

/-
  Lemmas about the flood model shared by the property files C11–C15:
  membership lemmas for the table updates, inversion lemmas for `handle`, and the two "step
  inversion" theorems `entries_step` / `flight_step` which say where a stored route / an
  in-flight frame of the next state can come from.  Every invariant in Props/C1x.lean is proved
  from these without unfolding `step` again.
-/
namespace MM.C11

/-! ### table updates only ever add the new entry -/

theorem mem_addTab {e x : Entry} {l : List Entry} (h : x ∈ addTab e l) : x = e ∨ x ∈ l := by
  induction l with
  | nil => simp [addTab] at h; exact Or.inl h
  | cons o t ih =>
    unfold addTab at h
    split at h
    · split at h
      · rcases List.mem_cons.1 h with h | h
        · exact Or.inl h
        · exact Or.inr (List.mem_cons_of_mem _ h)
      · exact Or.inr h
    · rcases List.mem_cons.1 h with h | h
      · exact Or.inr (h ▸ List.mem_cons_self)
      · rcases ih h with h | h
        · exact Or.inl h
        · exact Or.inr (List.mem_cons_of_mem _ h)

theorem mem_addAgentKey {e x : Entry} {l : List Entry} (h : x ∈ addAgentKey e l) : x = e ∨ x ∈ l := by
  induction l with
  | nil => simp [addAgentKey] at h; exact Or.inl h
  | cons o t ih =>
    unfold addAgentKey at h
    split at h
    · split at h
      · rcases List.mem_cons.1 h with h | h
        · exact Or.inl h
        · exact Or.inr (List.mem_cons_of_mem _ h)
      · exact Or.inr h
    · rcases List.mem_cons.1 h with h | h
      · exact Or.inr (h ▸ List.mem_cons_self)
      · rcases ih h with h | h
        · exact Or.inl h
        · exact Or.inr (List.mem_cons_of_mem _ h)

theorem mem_insRev {x y : Entry} {l : List Entry} (h : y ∈ insRev x l) : y = x ∨ y ∈ l := by
  induction l with
  | nil => simp [insRev] at h; exact Or.inl h
  | cons z t ih =>
    unfold insRev at h
    split at h
    · rcases List.mem_cons.1 h with h | h
      · exact Or.inr (h ▸ List.mem_cons_self)
      · rcases ih h with h | h
        · exact Or.inl h
        · exact Or.inr (List.mem_cons_of_mem _ h)
    · rcases List.mem_cons.1 h with h | h
      · exact Or.inl h
      · exact Or.inr h

theorem mem_foldl_insRev {y : Entry} (l acc : List Entry)
    (h : y ∈ l.foldl (fun revPre x => insRev x revPre) acc) : y ∈ acc ∨ y ∈ l := by
  induction l generalizing acc with
  | nil => exact Or.inl h
  | cons x t ih =>
    simp only [List.foldl_cons] at h
    rcases ih _ h with h | h
    · rcases mem_insRev h with h | h
      · exact Or.inr (h ▸ List.mem_cons_self)
      · exact Or.inl h
    · exact Or.inr (List.mem_cons_of_mem _ h)

theorem mem_sortIns {y : Entry} {l : List Entry} (h : y ∈ sortIns l) : y ∈ l := by
  unfold sortIns at h
  rcases mem_foldl_insRev l [] (List.mem_reverse.1 h) with h | h
  · cases h
  · exact h

theorem mem_addAgent {e x : Entry} {ag : List Entry} (h : x ∈ addAgent e ag) : x = e ∨ x ∈ ag := by
  unfold addAgent at h
  rcases List.mem_append.1 h with h | h
  · exact Or.inr (List.mem_filter.1 h).1
  · rcases mem_addAgentKey (mem_sortIns h) with h | h
    · exact Or.inl h
    · exact Or.inr (List.mem_filter.1 h).1

/-! ### storeRoute / handle -/

theorem storeRoute_seq (self frm clock : Nat) (a : Adv) (st : NodeSt) (r : RAd) :
    (storeRoute self frm a clock st r).seq = st.seq ∧ (storeRoute self frm a clock st r).seen = st.seen ∧
    (storeRoute self frm a clock st r).locals = st.locals := by
  unfold storeRoute
  split
  · exact ⟨rfl, rfl, rfl⟩
  · split <;> exact ⟨rfl, rfl, rfl⟩

theorem foldl_storeRoute_seq (self frm clock : Nat) (a : Adv) (rs : List RAd) (st : NodeSt) :
    (rs.foldl (storeRoute self frm a clock) st).seq = st.seq ∧
    (rs.foldl (storeRoute self frm a clock) st).seen = st.seen ∧
    (rs.foldl (storeRoute self frm a clock) st).locals = st.locals := by
  induction rs generalizing st with
  | nil => exact ⟨rfl, rfl, rfl⟩
  | cons r t ih =>
    simp only [List.foldl_cons]
    obtain ⟨h1, h2, h3⟩ := ih (storeRoute self frm a clock st r)
    obtain ⟨g1, g2, g3⟩ := storeRoute_seq self frm clock a st r
    exact ⟨h1.trans g1, h2.trans g2, h3.trans g3⟩

theorem mem_storeRoute {self frm clock : Nat} {a : Adv} {st : NodeSt} {r : RAd} {e : Entry}
    (h : e ∈ (storeRoute self frm a clock st r).entries) :
    e ∈ st.entries ∨ (self ∉ a.path ∧ e = mkEntry r a frm clock) := by
  unfold storeRoute at h
  split at h
  · exact Or.inl h
  · rename_i hp
    split at h
    · simp only [NodeSt.entries] at h ⊢
      rcases List.mem_append.1 h with h | h
      · exact Or.inl (List.mem_append_left _ h)
      · rcases mem_addAgent h with h | h
        · exact Or.inr ⟨hp, h⟩
        · exact Or.inl (List.mem_append_right _ h)
    · simp only [NodeSt.entries] at h ⊢
      rcases List.mem_append.1 h with h | h
      · rcases mem_addTab h with h | h
        · exact Or.inr ⟨hp, h⟩
        · exact Or.inl (List.mem_append_left _ h)
      · exact Or.inl (List.mem_append_right _ h)

theorem mem_foldl_storeRoute {self frm clock : Nat} {a : Adv} {e : Entry} (rs : List RAd) (st : NodeSt)
    (h : e ∈ (rs.foldl (storeRoute self frm a clock) st).entries) :
    e ∈ st.entries ∨ (self ∉ a.path ∧ ∃ r, r ∈ rs ∧ e = mkEntry r a frm clock) := by
  induction rs generalizing st with
  | nil => exact Or.inl h
  | cons r t ih =>
    simp only [List.foldl_cons] at h
    rcases ih _ h with h | ⟨hp, r', hr', he⟩
    · rcases mem_storeRoute h with h | ⟨hp, he⟩
      · exact Or.inl h
      · exact Or.inr ⟨hp, r, List.mem_cons_self, he⟩
    · exact Or.inr ⟨hp, r', List.mem_cons_of_mem _ hr', he⟩

/-! ### what forwarding changes -/

@[simp] theorem fwdAdv_seenBy (self : Node) (a : Adv) : (fwdAdv self a).seenBy = a.seenBy ++ [self] := by
  unfold fwdAdv; split <;> rfl
@[simp] theorem fwdAdv_origin (self : Node) (a : Adv) : (fwdAdv self a).origin = a.origin := by
  unfold fwdAdv; split <;> rfl
@[simp] theorem fwdAdv_seq (self : Node) (a : Adv) : (fwdAdv self a).seq = a.seq := by
  unfold fwdAdv; split <;> rfl
@[simp] theorem fwdAdv_wd (self : Node) (a : Adv) : (fwdAdv self a).wd = a.wd := by
  unfold fwdAdv; split <;> simp_all
theorem fwdAdv_path {self : Node} {a : Adv} (h : a.wd = false) : (fwdAdv self a).path = self :: a.path := by
  unfold fwdAdv; simp [h]
theorem fwdAdv_routes {self : Node} {a : Adv} (h : a.wd = false) :
    (fwdAdv self a).routes = a.routes.map (fun r => { r with metric := inc16 r.metric }) := by
  unfold fwdAdv; simp [h]
theorem fwdAdv_path_wd {self : Node} {a : Adv} (h : a.wd = true) : (fwdAdv self a).path = a.path := by
  unfold fwdAdv; simp [h]
theorem fwdAdv_routes_wd {self : Node} {a : Adv} (h : a.wd = true) : (fwdAdv self a).routes = a.routes := by
  unfold fwdAdv; simp [h]

/-- The conditions under which `handle` gets past the seen cache, the seen-by test and the hop
    limit, i.e. actually processes the advertisement. -/
def Accepts (mh self : Nat) (a : Adv) (st : NodeSt) : Prop :=
  (a.origin, a.seq) ∉ st.seen ∧ self ∉ a.seenBy ∧ ¬ (mh > 0 ∧ hopsOf a > mh)

theorem handle_entries {mh : Nat} {peers : List Node} {self frm clock : Nat} {a : Adv} {st : NodeSt}
    {e : Entry} (h : e ∈ (handle mh peers self frm clock a st).1.entries) :
    e ∈ st.entries ∨
    (a.wd = false ∧ Accepts mh self a st ∧ self ∉ a.path ∧ ∃ r, r ∈ a.routes ∧ e = mkEntry r a frm clock) := by
  unfold handle at h
  split at h
  · exact Or.inl h
  · rename_i hseen
    dsimp only at h
    split at h
    · exact Or.inl h
    · rename_i hsb
      split at h
      · -- a withdrawal only removes routes
        simp only [NodeSt.entries] at h ⊢
        rcases List.mem_append.1 h with h | h
        · exact Or.inl (List.mem_append_left _ (List.mem_filter.1 h).1)
        · exact Or.inl (List.mem_append_right _ h)
      · rename_i hwd
        split at h
        · exact Or.inl h
        · rename_i hmh
          have key : e ∈ (a.routes.foldl (storeRoute self frm a clock)
              { st with seen := (a.origin, a.seq) :: st.seen }).entries := by
            split at h
            · exact h
            · split at h <;> exact h
          rcases mem_foldl_storeRoute _ _ key with h | ⟨hp, r, hr, he⟩
          · exact Or.inl h
          · exact Or.inr ⟨by simpa using hwd, ⟨hseen, hsb, hmh⟩, hp, r, hr, he⟩

theorem mem_fwdTargets {peers : List Node} {frm self : Node} {a : Adv} {p : Node}
    (h : p ∈ fwdTargets peers frm (fwdAdv self a).seenBy) :
    p ∈ peers ∧ p ≠ frm ∧ p ∉ a.seenBy ∧ p ≠ self := by
  unfold fwdTargets at h
  rcases List.mem_filter.1 h with ⟨h1, h2⟩
  simp only [fwdAdv_seenBy, Bool.and_eq_true, bne_iff_ne, ne_eq, Bool.not_eq_true', List.contains_eq_mem,
    List.mem_append, List.mem_singleton, decide_eq_false_iff_not, not_or] at h2
  exact ⟨h1, h2.1, h2.2.1, h2.2.2⟩

theorem handle_out {mh : Nat} {peers : List Node} {self frm clock : Nat} {a : Adv} {st : NodeSt}
    {p : Node} {m : Adv} (h : (p, m) ∈ (handle mh peers self frm clock a st).2.1) :
    m = fwdAdv self a ∧ p ∈ peers ∧ p ≠ frm ∧ p ∉ a.seenBy ∧ p ≠ self ∧
    (a.origin, a.seq) ∉ st.seen ∧ self ∉ a.seenBy ∧
    (a.wd = false → ¬ (mh > 0 ∧ hopsOf a > mh) ∧ ¬ (mh > 0 ∧ hopsOf a ≥ mh) ∧
      a.seenBy.length + 1 ≤ maxWireAgents ∧ a.path.length + 1 ≤ maxWireAgents) := by
  unfold handle at h
  split at h
  · cases h
  · rename_i hseen
    dsimp only at h
    split at h
    · cases h
    · rename_i hsb
      split at h
      · rename_i hwd
        rcases List.mem_map.1 h with ⟨q, hq, heq⟩
        cases heq
        obtain ⟨h1, h2, h3, h4⟩ := mem_fwdTargets hq
        exact ⟨rfl, h1, h2, h3, h4, hseen, hsb, fun h0 => by rw [h0] at hwd; cases hwd⟩
      · split at h
        · cases h
        · rename_i hmh
          split at h
          · cases h
          · rename_i hge
            split at h
            · cases h
            · rename_i hwire
              rcases List.mem_map.1 h with ⟨q, hq, heq⟩
              cases heq
              obtain ⟨h1, h2, h3, h4⟩ := mem_fwdTargets hq
              exact ⟨rfl, h1, h2, h3, h4, hseen, hsb, fun _ => ⟨hmh, hge, by omega, by omega⟩⟩

theorem handle_seq (mh : Nat) (peers : List Node) (self frm clock : Nat) (a : Adv) (st : NodeSt) :
    (handle mh peers self frm clock a st).1.seq = st.seq ∧
    (handle mh peers self frm clock a st).1.locals = st.locals := by
  unfold handle
  split
  · exact ⟨rfl, rfl⟩
  · dsimp only
    split
    · exact ⟨rfl, rfl⟩
    · split
      · exact ⟨rfl, rfl⟩
      · split
        · exact ⟨rfl, rfl⟩
        · have := foldl_storeRoute_seq self frm clock a a.routes { st with seen := (a.origin, a.seq) :: st.seen }
          split
          · exact ⟨this.1, this.2.2⟩
          · split <;> exact ⟨this.1, this.2.2⟩

theorem handle_seen {mh : Nat} {peers : List Node} {self frm clock : Nat} {a : Adv} {st : NodeSt}
    {k : Node × Nat} (h : k ∈ (handle mh peers self frm clock a st).1.seen) :
    k ∈ st.seen ∨ k = (a.origin, a.seq) := by
  unfold handle at h
  split at h
  · exact Or.inl h
  · dsimp only at h
    have aux : ∀ st' : NodeSt, st'.seen = (a.origin, a.seq) :: st.seen → k ∈ st'.seen →
        k ∈ st.seen ∨ k = (a.origin, a.seq) := by
      intro st' hs hk
      rw [hs] at hk
      rcases List.mem_cons.1 hk with hk | hk
      · exact Or.inr hk
      · exact Or.inl hk
    have hf := (foldl_storeRoute_seq self frm clock a a.routes { st with seen := (a.origin, a.seq) :: st.seen }).2.1
    split at h
    · exact aux _ rfl h
    · split at h
      · exact aux _ rfl h
      · split at h
        · exact aux _ rfl h
        · split at h
          · exact aux _ hf h
          · split at h <;> exact aux _ hf h

/-- While the key is cached the advertisement is neither processed nor forwarded. -/
theorem handle_cached {mh : Nat} {peers : List Node} {self frm clock : Nat} {a : Adv} {st : NodeSt}
    (h : (a.origin, a.seq) ∈ st.seen) : handle mh peers self frm clock a st = (st, [], .seen) := by
  unfold handle
  rw [if_pos h]

/-- After handling, the key is cached whatever the outcome. -/
theorem handle_marks (mh : Nat) (peers : List Node) (self frm clock : Nat) (a : Adv) (st : NodeSt) :
    (a.origin, a.seq) ∈ (handle mh peers self frm clock a st).1.seen := by
  unfold handle
  split
  · assumption
  · dsimp only
    have hf := (foldl_storeRoute_seq self frm clock a a.routes { st with seen := (a.origin, a.seq) :: st.seen }).2.1
    split
    · exact List.mem_cons_self
    · split
      · exact List.mem_cons_self
      · split
        · exact List.mem_cons_self
        · split
          · rw [hf]; exact List.mem_cons_self
          · split <;> (rw [hf]; exact List.mem_cons_self)

theorem handle_seen_mono {mh : Nat} {peers : List Node} {self frm clock : Nat} {a : Adv} {st : NodeSt}
    {k : Node × Nat} (h : k ∈ st.seen) : k ∈ (handle mh peers self frm clock a st).1.seen := by
  unfold handle
  split
  · exact h
  · dsimp only
    have hf := (foldl_storeRoute_seq self frm clock a a.routes { st with seen := (a.origin, a.seq) :: st.seen }).2.1
    split
    · exact List.mem_cons_of_mem _ h
    · split
      · exact List.mem_cons_of_mem _ h
      · split
        · exact List.mem_cons_of_mem _ h
        · split
          · rw [hf]; exact List.mem_cons_of_mem _ h
          · split <;> (rw [hf]; exact List.mem_cons_of_mem _ h)

end MM.C11

namespace MM.C11

/-! ### picking a frame -/

theorem onLink_iff {a b : Node} {f : Flight} : onLink a b f = true ↔ f.src = a ∧ f.dst = b := by
  simp [onLink]

theorem nthOnLink_spec {a b : Node} (l : List Flight) (i p0 pos : Nat)
    (h : nthOnLink a b l i p0 = some pos) :
    ∃ k f, pos = p0 + k ∧ l[k]? = some f ∧ onLink a b f = true := by
  induction l generalizing i p0 with
  | nil => simp [nthOnLink] at h
  | cons f t ih =>
    unfold nthOnLink at h
    split at h
    · rename_i hon
      cases i with
      | zero =>
        simp only [Option.some.injEq] at h
        exact ⟨0, f, by omega, by simp, hon⟩
      | succ i =>
        simp only at h
        rcases ih i (p0 + 1) h with ⟨k, g, hk, hg, hon'⟩
        exact ⟨k + 1, g, by omega, by simpa using hg, hon'⟩
    · rcases ih i (p0 + 1) h with ⟨k, g, hk, hg, hon'⟩
      exact ⟨k + 1, g, by omega, by simpa using hg, hon'⟩

theorem pickFlight_spec {s : Net} {a b i pos : Nat} {f : Flight} (h : pickFlight s a b i = some (pos, f)) :
    s.flight[pos]? = some f ∧ f.src = a ∧ f.dst = b := by
  unfold pickFlight at h
  dsimp only at h
  split at h
  · cases h
  · split at h
    · cases h
    · rename_i pos' hn
      split at h
      · cases h
      · rename_i f' hf
        simp only [Option.some.injEq, Prod.mk.injEq] at h
        obtain ⟨rfl, rfl⟩ := h
        rcases nthOnLink_spec _ _ _ _ hn with ⟨k, g, hk, hg, hon⟩
        have : k = pos' := by omega
        subst this
        rw [hf] at hg
        cases hg
        exact ⟨hf, onLink_iff.1 hon⟩

theorem pickFlight_mem {s : Net} {a b i pos : Nat} {f : Flight} (h : pickFlight s a b i = some (pos, f)) :
    f ∈ s.flight ∧ f.src = a ∧ f.dst = b :=
  ⟨List.mem_of_getElem? (pickFlight_spec h).1, (pickFlight_spec h).2⟩

/-! ### frame / network bookkeeping -/

@[simp] theorem setNode_nodes (s : Net) (a : Node) (st : NodeSt) (x : Node) :
    (setNode s a st).nodes x = if x = a then st else s.nodes x := rfl

@[simp] theorem setNode_n (s : Net) (a : Node) (st : NodeSt) : (setNode s a st).n = s.n := rfl
@[simp] theorem setNode_maxHops (s : Net) (a : Node) (st : NodeSt) : (setNode s a st).maxHops = s.maxHops := rfl
@[simp] theorem setNode_links (s : Net) (a : Node) (st : NodeSt) : (setNode s a st).links = s.links := rfl
@[simp] theorem setNode_flight (s : Net) (a : Node) (st : NodeSt) : (setNode s a st).flight = s.flight := rfl
@[simp] theorem setNode_clock (s : Net) (a : Node) (st : NodeSt) : (setNode s a st).clock = s.clock := rfl

theorem process_nodes (s : Net) (a b : Node) (m : Adv) (x : Node) :
    (process s a b m).1.nodes x =
      if x = b then (handle (s.maxHops b) (peersOf s b) b a s.clock m (s.nodes b)).1 else s.nodes x := rfl

theorem process_flight (s : Net) (a b : Node) (m : Adv) :
    (process s a b m).1.flight = s.flight ++
      (handle (s.maxHops b) (peersOf s b) b a s.clock m (s.nodes b)).2.1.map
        (fun (pf : Node × Adv) => ({ src := b, dst := pf.1, adv := pf.2 } : Flight)) := rfl

theorem process_const (s : Net) (a b : Node) (m : Adv) :
    (process s a b m).1.n = s.n ∧ (process s a b m).1.maxHops = s.maxHops ∧
    (process s a b m).1.links = s.links ∧ (process s a b m).1.clock = s.clock := ⟨rfl, rfl, rfl, rfl⟩

/-- `n`, `maxHops` never change; the clock is only moved by `tick`. -/
theorem stepCore_const (t : Net) (op : Op) :
    (stepCore t op).n = t.n ∧ (stepCore t op).maxHops = t.maxHops ∧ (stepCore t op).clock = t.clock := by
  cases op <;> simp only [stepCore]
  all_goals (try split) <;> (try split) <;> (first | exact ⟨rfl, rfl, rfl⟩ | trivial)

theorem step_n (s : Net) (op : Op) : (step s op).n = s.n := (stepCore_const (tick s) op).1
theorem step_maxHops (s : Net) (op : Op) : (step s op).maxHops = s.maxHops := (stepCore_const (tick s) op).2.1
theorem step_clock (s : Net) (op : Op) : (step s op).clock = s.clock + 1 := (stepCore_const (tick s) op).2.2

theorem run_n (s : Net) (ops : List Op) : (run s ops).n = s.n := by
  induction ops generalizing s with
  | nil => rfl
  | cons op t ih => simp only [run, List.foldl_cons] at ih ⊢; rw [ih, step_n]

theorem run_maxHops (s : Net) (ops : List Op) : (run s ops).maxHops = s.maxHops := by
  induction ops generalizing s with
  | nil => rfl
  | cons op t ih => simp only [run, List.foldl_cons] at ih ⊢; rw [ih, step_maxHops]

end MM.C11

namespace MM.C11

/-! ### where a stored route of the next state comes from -/

/-- A stored route of `x` after one op either was there before, or was built by `x` processing a
    frame that was in flight on a link `a → x`. -/
def StoredBy (t : Net) (x : Node) (e : Entry) : Prop :=
  ∃ a m, (⟨a, x, m⟩ : Flight) ∈ t.flight ∧ linked t a x = true ∧ a < t.n ∧ x < t.n ∧ m.wd = false ∧
    Accepts (t.maxHops x) x m (t.nodes x) ∧ x ∉ m.path ∧ ∃ r, r ∈ m.routes ∧ e = mkEntry r m a t.clock

theorem entries_process {t : Net} {fl : List Flight} {a b x : Node} {f : Flight} {e : Entry}
    (hf : f ∈ t.flight) (hsrc : f.src = a) (hdst : f.dst = b)
    (hl : linked t a b = true) (ha : a < t.n) (hb : b < t.n)
    (h : e ∈ ((process { t with flight := fl } a b f.adv).1.nodes x).entries) :
    e ∈ (t.nodes x).entries ∨ StoredBy t x e := by
  rw [process_nodes] at h
  split at h
  · rename_i hx
    subst hx
    rcases handle_entries h with h | ⟨hwd, hacc, hp, r, hr, he⟩
    · exact Or.inl h
    · refine Or.inr ⟨a, f.adv, ?_, hl, ha, hb, hwd, hacc, hp, r, hr, he⟩
      have : f = ⟨a, x, f.adv⟩ := by cases f; simp_all
      rw [← this]; exact hf
  · exact Or.inl h

theorem entries_stepCore {t : Net} {op : Op} {x : Node} {e : Entry}
    (h : e ∈ ((stepCore t op).nodes x).entries) :
    e ∈ (t.nodes x).entries ∨ StoredBy t x e := by
  cases op with
  | connect a b =>
    simp only [stepCore] at h
    split at h <;> exact Or.inl h
  | disconnect a b =>
    simp only [stepCore] at h
    split at h
    · simp only [setNode_nodes] at h
      have hsub : ∀ (st : NodeSt) (p : Node), e ∈ (st.dropPeer p).entries → e ∈ st.entries := by
        intro st p he
        simp only [NodeSt.entries, NodeSt.dropPeer] at he ⊢
        rcases List.mem_append.1 he with he | he
        · exact List.mem_append_left _ (List.mem_filter.1 he).1
        · exact List.mem_append_right _ (List.mem_filter.1 he).1
      split at h
      · rename_i hx; subst hx; exact Or.inl (hsub _ _ h)
      · split at h
        · rename_i hx; subst hx; exact Or.inl (hsub _ _ h)
        · exact Or.inl h
    · exact Or.inl h
  | replay a b ord =>
    simp only [stepCore] at h
    split at h
    · simp only [setNode_nodes] at h
      split at h
      · rename_i hx; subst hx; exact Or.inl h
      · exact Or.inl h
    · exact Or.inl h
  | announce a _ =>
    simp only [stepCore] at h
    split at h
    · simp only [setNode_nodes] at h
      split at h
      · rename_i hx; subst hx; exact Or.inl h
      · exact Or.inl h
    · exact Or.inl h
  | withdraw a _ =>
    simp only [stepCore] at h
    split at h
    · simp only [setNode_nodes] at h
      split at h
      · rename_i hx; subst hx; exact Or.inl h
      · exact Or.inl h
    · exact Or.inl h
  | deliver a b i =>
    simp only [stepCore] at h
    split at h
    · rename_i hc
      split at h
      · exact Or.inl h
      · rename_i pos f hpick
        obtain ⟨hf, hs, hd⟩ := pickFlight_mem hpick
        exact entries_process hf hs hd hc.2.2 hc.1 hc.2.1 h
    · exact Or.inl h
  | dup a b i =>
    simp only [stepCore] at h
    split at h
    · rename_i hc
      split at h
      · exact Or.inl h
      · rename_i pos f hpick
        obtain ⟨hf, hs, hd⟩ := pickFlight_mem hpick
        exact entries_process (fl := t.flight) hf hs hd hc.2.2 hc.1 hc.2.1 h
    · exact Or.inl h
  | drop a b i =>
    simp only [stepCore] at h
    split at h
    · split at h <;> exact Or.inl h
    · exact Or.inl h
  | expire a o sq =>
    simp only [stepCore] at h
    split at h
    · simp only [setNode_nodes] at h
      split at h
      · rename_i hx; subst hx; exact Or.inl h
      · exact Or.inl h
    · exact Or.inl h
  | stale a age =>
    simp only [stepCore] at h
    split at h
    · simp only [setNode_nodes] at h
      split at h
      · rename_i hx; subst hx
        simp only [NodeSt.entries] at h ⊢
        rcases List.mem_append.1 h with h | h
        · exact Or.inl (List.mem_append_left _ (List.mem_filter.1 h).1)
        · exact Or.inl (List.mem_append_right _ (List.mem_filter.1 h).1)
      · exact Or.inl h
    · exact Or.inl h
  | dump => exact Or.inl h

end MM.C11

namespace MM.C11

/-! ### what AnnounceLocalRoutes and SendFullTable emit -/

theorem mem_splitAux {f : Nat} {rs g : List RAd} {r : RAd} (hg : g ∈ splitAux f rs) (hr : r ∈ g) : r ∈ rs := by
  induction f generalizing rs with
  | zero => simp only [splitAux, List.mem_singleton] at hg; subst hg; exact hr
  | succ f ih =>
    simp only [splitAux] at hg
    split at hg
    · simp only [List.mem_singleton] at hg; subst hg; exact hr
    · rcases List.mem_cons.1 hg with hg | hg
      · subst hg; exact List.mem_of_mem_take hr
      · exact List.mem_of_mem_drop (ih hg)

theorem splitAux_covers {f : Nat} {rs : List RAd} {r : RAd} (hr : r ∈ rs) : ∃ g, g ∈ splitAux f rs ∧ r ∈ g := by
  induction f generalizing rs with
  | zero => exact ⟨rs, by simp [splitAux], hr⟩
  | succ f ih =>
    simp only [splitAux]
    split
    · exact ⟨rs, by simp, hr⟩
    · rw [← List.take_append_drop maxRoutesPerAdv rs] at hr
      rcases List.mem_append.1 hr with hr | hr
      · exact ⟨_, List.mem_cons_self, hr⟩
      · obtain ⟨g, hg, hrg⟩ := ih hr
        exact ⟨g, List.mem_cons_of_mem _ hg, hrg⟩

theorem mem_effGroups {all : List RAd} {hint : List (List RAd)} {g : List RAd} {r : RAd}
    (hg : g ∈ effGroups all hint) (hr : r ∈ g) : r ∈ all := by
  unfold effGroups at hg
  split at hg
  · rename_i hok
    simp only [groupingOK, Bool.and_eq_true, List.all_eq_true] at hok
    have := hok.1.1 g hg
    simp only [groupOK, Bool.and_eq_true, List.all_eq_true, List.contains_eq_mem, decide_eq_true_eq] at this
    exact this.1 r hr
  · exact mem_splitAux hg hr

theorem effGroups_covers {all : List RAd} {hint : List (List RAd)} {r : RAd} (hr : r ∈ all) :
    ∃ g, g ∈ effGroups all hint ∧ r ∈ g := by
  unfold effGroups
  split
  · rename_i hok
    simp only [groupingOK, Bool.and_eq_true, List.all_eq_true, List.contains_eq_mem, decide_eq_true_eq] at hok
    have := hok.2 r hr
    rcases List.mem_flatten.1 this with ⟨g, hg, hrg⟩
    exact ⟨g, hg, hrg⟩
  · exact splitAux_covers hr

/-- Shape of an advertisement built by AnnounceLocalRoutes (`n` = number of advertisements built). -/
structure IsAnnounced (me : Node) (st : NodeSt) (n : Nat) (m : Adv) : Prop where
  origin : m.origin = me
  path : m.path = [me]
  seenBy : m.seenBy = [me]
  wd : m.wd = false
  seq_gt : st.seq < m.seq
  seq_le : m.seq ≤ st.seq + n
  routes : ∀ r, r ∈ m.routes → r ∈ announcedRoutes me st

theorem mem_announceAdvsAux {self : Node} {m : Adv} (gs : List (List RAd)) (seq : Nat)
    (h : m ∈ announceAdvsAux self gs seq) :
    ∃ g, g ∈ gs ∧ m.origin = self ∧ m.path = [self] ∧ m.seenBy = [self] ∧ m.wd = false ∧
      seq < m.seq ∧ m.seq ≤ seq + gs.length ∧ m.routes = g := by
  induction gs generalizing seq with
  | nil => simp [announceAdvsAux] at h
  | cons g t ih =>
    simp only [announceAdvsAux] at h
    rcases List.mem_cons.1 h with h | h
    · subst h
      exact ⟨g, List.mem_cons_self, rfl, rfl, rfl, rfl, by simp, by simp, rfl⟩
    · obtain ⟨g', hg', h1, h2, h3, h4, h5, h6, h7⟩ := ih (seq + 1) h
      exact ⟨g', List.mem_cons_of_mem _ hg', h1, h2, h3, h4, by omega, by simp only [List.length_cons]; omega, h7⟩

theorem announceAdvsAux_length (self : Node) (gs : List (List RAd)) (seq : Nat) :
    (announceAdvsAux self gs seq).length = gs.length := by
  induction gs generalizing seq with
  | nil => rfl
  | cons g t ih => simp [announceAdvsAux, ih]

theorem mem_announceAdvs {self : Node} {st : NodeSt} {hint : List (List RAd)} {m : Adv}
    (h : m ∈ announceAdvs self st hint) : IsAnnounced self st (announceAdvs self st hint).length m := by
  unfold announceAdvs at h ⊢
  obtain ⟨g, hg, h1, h2, h3, h4, h5, h6, h7⟩ := mem_announceAdvsAux _ _ h
  refine ⟨h1, h2, h3, h4, h5, by rw [announceAdvsAux_length]; exact h6, ?_⟩
  intro r hr
  rw [h7] at hr
  exact mem_effGroups hg hr

theorem announceAdvsAux_covers {self : Node} (gs : List (List RAd)) (seq : Nat) {g : List RAd} (hg : g ∈ gs) :
    ∃ m, m ∈ announceAdvsAux self gs seq ∧ m.routes = g := by
  induction gs generalizing seq with
  | nil => cases hg
  | cons g0 t ih =>
    simp only [announceAdvsAux]
    rcases List.mem_cons.1 hg with hg | hg
    · subst hg; exact ⟨_, List.mem_cons_self, rfl⟩
    · obtain ⟨m, hm, hr⟩ := ih (seq + 1) hg
      exact ⟨m, List.mem_cons_of_mem _ hm, hr⟩

/-- Every announced route (local routes and the presence route) is carried by one of the
    advertisements of an announcement. -/
theorem announce_covers {self : Node} {st : NodeSt} {hint : List (List RAd)} {r : RAd}
    (hr : r ∈ announcedRoutes self st) : ∃ m, m ∈ announceAdvs self st hint ∧ r ∈ m.routes := by
  obtain ⟨g, hg, hrg⟩ := effGroups_covers (hint := hint) hr
  obtain ⟨m, hm, hmr⟩ := announceAdvsAux_covers (self := self) _ st.seq hg
  exact ⟨m, hm, by rw [hmr]; exact hrg⟩

/-- Shape of a ROUTE_WITHDRAW built by WithdrawLocalRoutes. -/
structure IsWithdrawn (me : Node) (st : NodeSt) (n : Nat) (m : Adv) : Prop where
  origin : m.origin = me
  path : m.path = []
  seenBy : m.seenBy = [me]
  wd : m.wd = true
  seq_gt : st.seq < m.seq
  seq_le : m.seq ≤ st.seq + n

theorem mem_withdrawAdvsAux {self : Node} {m : Adv} (gs : List (List RAd)) (seq : Nat)
    (h : m ∈ withdrawAdvsAux self gs seq) :
    m.origin = self ∧ m.path = [] ∧ m.seenBy = [self] ∧ m.wd = true ∧ seq < m.seq ∧ m.seq ≤ seq + gs.length := by
  induction gs generalizing seq with
  | nil => simp [withdrawAdvsAux] at h
  | cons g t ih =>
    simp only [withdrawAdvsAux] at h
    rcases List.mem_cons.1 h with h | h
    · subst h
      exact ⟨rfl, rfl, rfl, rfl, by simp, by simp⟩
    · obtain ⟨h1, h2, h3, h4, h5, h6⟩ := ih (seq + 1) h
      exact ⟨h1, h2, h3, h4, by omega, by simp only [List.length_cons]; omega⟩

theorem withdrawAdvsAux_length (self : Node) (gs : List (List RAd)) (seq : Nat) :
    (withdrawAdvsAux self gs seq).length = gs.length := by
  induction gs generalizing seq with
  | nil => rfl
  | cons g t ih => simp [withdrawAdvsAux, ih]

theorem mem_withdrawAdvs {self : Node} {st : NodeSt} {hint : List (List RAd)} {m : Adv}
    (h : m ∈ withdrawAdvs self st hint) : IsWithdrawn self st (withdrawAdvs self st hint).length m := by
  unfold withdrawAdvs at h ⊢
  obtain ⟨h1, h2, h3, h4, h5, h6⟩ := mem_withdrawAdvsAux _ _ h
  exact ⟨h1, h2, h3, h4, h5, by rw [withdrawAdvsAux_length]; exact h6⟩

theorem mem_originEntries {st : NodeSt} {peer o : Nat} {e : Entry} (h : e ∈ originEntries st peer o) :
    e ∈ st.entries ∧ e.origin = o ∧ e.nextHop ≠ peer := by
  simp only [originEntries, pickTab, pickAgents, List.mem_append, List.mem_filter, Bool.and_eq_true,
    beq_iff_eq, bne_iff_ne, ne_eq] at h
  simp only [NodeSt.entries, List.mem_append]
  rcases h with ((h | h) | h) | h
  · exact ⟨Or.inl h.1, h.2.1.2, h.2.2⟩
  · exact ⟨Or.inr h.1, h.2.1, h.2.2⟩
  · exact ⟨Or.inl h.1, h.2.1.2, h.2.2⟩
  · exact ⟨Or.inl h.1, h.2.1.2, h.2.2⟩

/-- Shape of an advertisement built by SendFullTable(peer). -/
structure IsReplayed (cap me peer : Node) (st : NodeSt) (n : Nat) (m : Adv) : Prop where
  plen : m.path.length ≤ cap
  seenBy : m.seenBy = [me]
  wd : m.wd = false
  seq_gt : st.seq < m.seq
  seq_le : m.seq ≤ st.seq + n
  routes : ∀ r, r ∈ m.routes → ∃ e, e ∈ st.entries ∧ e.origin = m.origin ∧ e.nextHop ≠ peer ∧ r = toRAd e
  path : ∃ p, m.path = me :: p ∧
    ((p = [] ∧ ((∀ e, e ∈ st.entries → e.origin = m.origin → e.path ≠ []) → m.routes = [])) ∨
     (p ≠ [] ∧ ∃ e, e ∈ st.entries ∧ e.origin = m.origin ∧ e.nextHop ≠ peer ∧ e.path = p))

theorem mem_replayAdvsAux {self : Node} {m : Adv} (frs : List RFrame) (seq : Nat)
    (h : m ∈ replayAdvsAux self frs seq) :
    ∃ fr, fr ∈ frs ∧ m.origin = fr.origin ∧ m.routes = fr.routes ∧ m.path = self :: fr.ptail ∧
      m.seenBy = [self] ∧ m.wd = false ∧ seq < m.seq ∧ m.seq ≤ seq + frs.length := by
  induction frs generalizing seq with
  | nil => simp [replayAdvsAux] at h
  | cons fr t ih =>
    simp only [replayAdvsAux] at h
    rcases List.mem_cons.1 h with h | h
    · subst h
      exact ⟨fr, List.mem_cons_self, rfl, rfl, rfl, rfl, rfl, by simp, by simp⟩
    · obtain ⟨fr', hfr', h1, h2, h3, h4, h5, h6, h7⟩ := ih (seq + 1) h
      exact ⟨fr', List.mem_cons_of_mem _ hfr', h1, h2, h3, h4, h5, by omega, by simp only [List.length_cons]; omega⟩

theorem replayAdvsAux_length (self : Node) (frs : List RFrame) (seq : Nat) :
    (replayAdvsAux self frs seq).length = frs.length := by
  induction frs generalizing seq with
  | nil => rfl
  | cons fr t ih => simp [replayAdvsAux, ih]

theorem effFrames_ok {cap : Nat} {st : NodeSt} {peer : Node} {hint : List RFrame} {fr : RFrame}
    (h : fr ∈ effFrames cap st peer hint) : frameOK cap st peer fr = true := by
  unfold effFrames at h
  split at h
  · rename_i hok
    simp only [hintOK, Bool.and_eq_true, List.all_eq_true] at hok
    exact hok.1.1 fr h
  · exact (List.mem_filter.1 h).2

theorem mem_replayAdvs {cap self peer : Node} {st : NodeSt} {hint : List RFrame} {m : Adv}
    (h : m ∈ replayAdvs cap self peer st hint) :
    IsReplayed cap self peer st (replayAdvs cap self peer st hint).length m := by
  unfold replayAdvs at h ⊢
  obtain ⟨fr, hfr, ho, hr, hp, hs, hw, h1, h2⟩ := mem_replayAdvsAux _ _ h
  have hok := effFrames_ok hfr
  simp only [frameOK, Bool.and_eq_true, List.all_eq_true, List.contains_eq_mem, decide_eq_true_eq] at hok
  obtain ⟨⟨⟨⟨hcap, _⟩, hsub⟩, _⟩, htail⟩ := hok
  have hroutes : ∀ r, r ∈ m.routes → ∃ e, e ∈ st.entries ∧ e.origin = m.origin ∧ e.nextHop ≠ peer ∧ r = toRAd e := by
    intro r hrm
    rw [hr] at hrm
    have := hsub r hrm
    simp only [baseRoutes, List.mem_map] at this
    obtain ⟨e, he, rfl⟩ := this
    obtain ⟨g1, g2, g3⟩ := mem_originEntries he
    exact ⟨e, g1, by rw [ho]; exact g2, g3, rfl⟩
  refine ⟨by rw [hp]; simpa using hcap, hs, hw, h1, by rw [replayAdvsAux_length]; exact h2, hroutes, fr.ptail, hp, ?_⟩
  by_cases hpt : fr.ptail = []
  · refine Or.inl ⟨hpt, ?_⟩
    intro hne
    simp only [hpt, beq_self_eq_true, if_true, Bool.or_eq_true, List.any_eq_true, beq_iff_eq,
      List.isEmpty_iff] at htail
    rcases htail with ⟨e, he, hpe⟩ | hempty
    · obtain ⟨g1, g2, _⟩ := mem_originEntries he
      exact absurd hpe (hne e g1 (by rw [ho]; exact g2))
    · rw [hr]
      cases hfrr : fr.routes with
      | nil => rfl
      | cons r t =>
        have := hsub r (by rw [hfrr]; exact List.mem_cons_self)
        rw [hempty] at this; cases this
  · refine Or.inr ⟨hpt, ?_⟩
    have hb : (fr.ptail == []) = false := by simpa using hpt
    simp only [hb, Bool.false_eq_true, if_false, List.any_eq_true, beq_iff_eq] at htail
    obtain ⟨e, he, hpe⟩ := htail
    obtain ⟨g1, g2, g3⟩ := mem_originEntries he
    exact ⟨e, g1, by rw [ho]; exact g2, g3, hpe⟩

/-! ### where an in-flight frame of the next state comes from -/

inductive FlightFrom (t : Net) (op : Op) (f : Flight) : Prop where
  /-- it was already in flight -/
  | old (h : f ∈ t.flight)
  /-- `AnnounceLocalRoutes` at `f.src` -/
  | ann (hint : List (List RAd)) (hop : op = .announce f.src hint) (ha : f.src < t.n) (hd : f.dst ∈ peersOf t f.src)
      (hadv : f.adv ∈ announceAdvs f.src (t.nodes f.src) hint)
  /-- `f.src` processed frame `m` received from `a` and forwarded it -/
  | fwd (a : Node) (m : Adv) (hm : (⟨a, f.src, m⟩ : Flight) ∈ t.flight) (hl : linked t a f.src = true)
      (ha : a < t.n) (hb : f.src < t.n) (hd : f.dst ∈ peersOf t f.src) (hne : f.dst ≠ a)
      (hns : f.dst ∉ m.seenBy) (hself : f.dst ≠ f.src)
      (hseen : (m.origin, m.seq) ∉ (t.nodes f.src).seen) (hsb : f.src ∉ m.seenBy)
      (hlim : m.wd = false → ¬ (t.maxHops f.src > 0 ∧ hopsOf m ≥ t.maxHops f.src))
      (hwire : m.wd = false → m.seenBy.length + 1 ≤ maxWireAgents ∧ m.path.length + 1 ≤ maxWireAgents)
      (hadv : f.adv = fwdAdv f.src m)
  /-- `WithdrawLocalRoutes` at `f.src` -/
  | wdr (hint : List (List RAd)) (hop : op = .withdraw f.src hint) (ha : f.src < t.n)
      (hcidr : (t.nodes f.src).locals.any (fun r => r.kind == 0) = true) (hd : f.dst ∈ peersOf t f.src)
      (hadv : f.adv ∈ withdrawAdvs f.src (t.nodes f.src) hint)
  /-- `SendFullTable(f.dst)` at `f.src` -/
  | rep (ord : List RFrame) (hop : op = .replay f.src f.dst ord) (ha : f.src < t.n) (hb : f.dst < t.n)
      (hl : linked t f.src f.dst = true)
      (hadv : f.adv ∈ replayAdvs (hopCap (t.maxHops f.src)) f.src f.dst (t.nodes f.src) ord)

theorem flight_process {t : Net} {op : Op} {fl : List Flight} {a b : Node} {f0 f : Flight}
    (hsub : ∀ g, g ∈ fl → g ∈ t.flight)
    (hf0 : f0 ∈ t.flight) (hsrc : f0.src = a) (hdst : f0.dst = b)
    (hl : linked t a b = true) (ha : a < t.n) (hb : b < t.n)
    (h : f ∈ (process { t with flight := fl } a b f0.adv).1.flight) : FlightFrom t op f := by
  rw [process_flight] at h
  rcases List.mem_append.1 h with h | h
  · exact .old (hsub _ h)
  · rcases List.mem_map.1 h with ⟨⟨p, m⟩, hpm, rfl⟩
    obtain ⟨hm, hp, hne, hns, hself, hseen, hsb, hlim⟩ := handle_out hpm
    have hf0' : (⟨a, b, f0.adv⟩ : Flight) ∈ t.flight := by
      have : f0 = ⟨a, b, f0.adv⟩ := by cases f0; simp_all
      rw [← this]; exact hf0
    exact .fwd a f0.adv hf0' hl ha hb hp hne hns hself hseen hsb (fun h0 => (hlim h0).2.1)
      (fun h0 => (hlim h0).2.2) hm

theorem flight_stepCore {t : Net} {op : Op} {f : Flight} (h : f ∈ (stepCore t op).flight) :
    FlightFrom t op f := by
  cases op with
  | connect a b =>
    simp only [stepCore] at h
    split at h <;> exact .old h
  | disconnect a b =>
    simp only [stepCore] at h
    split at h
    · exact .old (List.mem_filter.1 h).1
    · exact .old h
  | replay a b ord =>
    simp only [stepCore] at h
    split at h
    · rename_i hc
      rcases List.mem_append.1 h with h | h
      · exact .old h
      · rcases List.mem_map.1 h with ⟨m, hm, rfl⟩
        exact .rep ord rfl hc.1 hc.2.1 hc.2.2 hm
    · exact .old h
  | announce a hint =>
    simp only [stepCore] at h
    split at h
    · rename_i hc
      rcases List.mem_append.1 h with h | h
      · exact .old h
      · rcases List.mem_flatMap.1 h with ⟨m, hm, hf⟩
        rcases List.mem_map.1 hf with ⟨p, hp, rfl⟩
        exact .ann hint rfl hc hp hm
    · exact .old h
  | withdraw a hint =>
    simp only [stepCore] at h
    split at h
    · rename_i hc
      rcases List.mem_append.1 h with h | h
      · exact .old h
      · rcases List.mem_flatMap.1 h with ⟨m, hm, hf⟩
        rcases List.mem_map.1 hf with ⟨p, hp, rfl⟩
        exact .wdr hint rfl hc.1 hc.2 hp hm
    · exact .old h
  | deliver a b i =>
    simp only [stepCore] at h
    split at h
    · rename_i hc
      split at h
      · exact .old h
      · rename_i pos f0 hpick
        obtain ⟨hf, hs, hd⟩ := pickFlight_mem hpick
        exact flight_process (fun g hg => List.mem_of_mem_eraseIdx hg) hf hs hd hc.2.2 hc.1 hc.2.1 h
    · exact .old h
  | dup a b i =>
    simp only [stepCore] at h
    split at h
    · rename_i hc
      split at h
      · exact .old h
      · rename_i pos f0 hpick
        obtain ⟨hf, hs, hd⟩ := pickFlight_mem hpick
        exact flight_process (fl := t.flight) (fun g hg => hg) hf hs hd hc.2.2 hc.1 hc.2.1 h
    · exact .old h
  | drop a b i =>
    simp only [stepCore] at h
    split at h
    · split at h
      · exact .old h
      · exact .old (List.mem_of_mem_eraseIdx h)
    · exact .old h
  | expire a o sq =>
    simp only [stepCore] at h
    split at h <;> exact .old h
  | stale a age =>
    simp only [stepCore] at h
    split at h <;> exact .old h
  | dump => exact .old h

/-! ### links only grow -/

theorem linked_stepCore {t : Net} {op : Op} {a b : Node} (hnd : ∀ c d, op ≠ .disconnect c d)
    (h : linked t a b = true) : linked (stepCore t op) a b = true := by
  cases op with
  | disconnect c d => exact absurd rfl (hnd c d)
  | connect c d =>
    simp only [stepCore]
    split
    · simp only [linked, List.contains_eq_mem, List.mem_append, decide_eq_true_eq] at h ⊢
      exact Or.inr h
    · exact h
  | replay c d ord => simp only [stepCore]; split <;> exact h
  | announce c _ => simp only [stepCore]; split <;> exact h
  | withdraw c _ => simp only [stepCore]; split <;> exact h
  | deliver c d i =>
    simp only [stepCore]
    split
    · split <;> exact h
    · exact h
  | dup c d i =>
    simp only [stepCore]
    split
    · split <;> exact h
    · exact h
  | drop c d i =>
    simp only [stepCore]
    split
    · split <;> exact h
    · exact h
  | expire c o sq => simp only [stepCore]; split <;> exact h
  | stale c age => simp only [stepCore]; split <;> exact h
  | dump => exact h

/-! ### statements about `step` (clock tick included) -/

@[simp] theorem tick_nodes (s : Net) : (tick s).nodes = s.nodes := rfl
@[simp] theorem tick_flight (s : Net) : (tick s).flight = s.flight := rfl
@[simp] theorem tick_links (s : Net) : (tick s).links = s.links := rfl
@[simp] theorem tick_n (s : Net) : (tick s).n = s.n := rfl
@[simp] theorem tick_maxHops (s : Net) : (tick s).maxHops = s.maxHops := rfl
@[simp] theorem tick_clock (s : Net) : (tick s).clock = s.clock + 1 := rfl

theorem linked_tick (s : Net) (a b : Node) : linked (tick s) a b = linked s a b := rfl

theorem linked_step {s : Net} {op : Op} {a b : Node} (hnd : ∀ c d, op ≠ .disconnect c d)
    (h : linked s a b = true) : linked (step s op) a b = true := linked_stepCore (t := tick s) hnd h

theorem entries_step {s : Net} {op : Op} {x : Node} {e : Entry}
    (h : e ∈ ((step s op).nodes x).entries) :
    e ∈ (s.nodes x).entries ∨ StoredBy (tick s) x e := entries_stepCore h

theorem flight_step {s : Net} {op : Op} {f : Flight} (h : f ∈ (step s op).flight) :
    FlightFrom (tick s) op f := flight_stepCore h

/-- Invariants are proved along `run` by this induction principle. -/
theorem run_induction {P : Net → Prop} (s : Net) (ops : List Op) (h0 : P s)
    (hstep : ∀ s op, P s → P (step s op)) : P (run s ops) := by
  induction ops generalizing s with
  | nil => exact h0
  | cons op t ih => exact ih (step s op) (hstep s op h0)

end MM.C11

namespace MM.C11

/-! ### local routes never change; the initial tables hold exactly the local routes -/

theorem locals_stepCore (t : Net) (op : Op) (x : Node) :
    ((stepCore t op).nodes x).locals = (t.nodes x).locals := by
  cases op with
  | connect a b => simp only [stepCore]; split <;> rfl
  | disconnect a b =>
    simp only [stepCore]
    split
    · simp only [setNode_nodes]; split
      · rename_i hx; subst hx; rfl
      · split
        · rename_i hx; subst hx; rfl
        · rfl
    · rfl
  | replay a b ord =>
    simp only [stepCore]
    split
    · simp only [setNode_nodes]; split
      · rename_i hx; subst hx; rfl
      · rfl
    · rfl
  | announce a _ =>
    simp only [stepCore]
    split
    · simp only [setNode_nodes]; split
      · rename_i hx; subst hx; rfl
      · rfl
    · rfl
  | withdraw a _ =>
    simp only [stepCore]
    split
    · simp only [setNode_nodes]; split
      · rename_i hx; subst hx; rfl
      · rfl
    · rfl
  | deliver a b i =>
    simp only [stepCore]
    split
    · split
      · rfl
      · rw [process_nodes]; split
        · rename_i hx; subst hx; exact (handle_seq _ _ _ _ _ _ _).2
        · rfl
    · rfl
  | dup a b i =>
    simp only [stepCore]
    split
    · split
      · rfl
      · rw [process_nodes]; split
        · rename_i hx; subst hx; exact (handle_seq _ _ _ _ _ _ _).2
        · rfl
    · rfl
  | drop a b i =>
    simp only [stepCore]
    split
    · split <;> rfl
    · rfl
  | expire a o sq =>
    simp only [stepCore]
    split
    · simp only [setNode_nodes]; split
      · rename_i hx; subst hx; rfl
      · rfl
    · rfl
  | stale a age =>
    simp only [stepCore]
    split
    · simp only [setNode_nodes]; split
      · rename_i hx; subst hx; rfl
      · rfl
    · rfl
  | dump => rfl

theorem locals_step (s : Net) (op : Op) (x : Node) : ((step s op).nodes x).locals = (s.nodes x).locals :=
  locals_stepCore (tick s) op x

theorem locals_run (s : Net) (ops : List Op) (x : Node) : ((run s ops).nodes x).locals = (s.nodes x).locals := by
  induction ops generalizing s with
  | nil => rfl
  | cons op t ih => simp only [run, List.foldl_cons] at ih ⊢; rw [ih, locals_step]

theorem foldl_addLocal_locals (self : Node) (ls : List RAd) (st : NodeSt) :
    (ls.foldl (addLocal self) st).locals = st.locals ++ ls := by
  induction ls generalizing st with
  | nil => simp
  | cons r t ih => simp only [List.foldl_cons]; rw [ih]; simp [addLocal]

theorem initNode_locals (self : Node) (ls : List RAd) : (initNode self ls).locals = ls := by
  unfold initNode; rw [foldl_addLocal_locals]; rfl

/-- A local entry: own origin, own next hop, empty path, configured metric. -/
def IsLocalEntry (self : Node) (ls : List RAd) (e : Entry) : Prop :=
  e.path = [] ∧ e.origin = self ∧ e.nextHop = self ∧ (⟨e.kind, e.key, e.metric⟩ : RAd) ∈ ls

theorem foldl_addLocal_entries (self : Node) (ls : List RAd) (st : NodeSt) (all : List RAd)
    (hsub : ∀ r, r ∈ ls → r ∈ all)
    (hst : ∀ e, e ∈ st.entries → IsLocalEntry self all e) :
    ∀ e, e ∈ (ls.foldl (addLocal self) st).entries → IsLocalEntry self all e := by
  induction ls generalizing st with
  | nil => exact hst
  | cons r t ih =>
    simp only [List.foldl_cons]
    apply ih
    · intro r' hr'; exact hsub r' (List.mem_cons_of_mem _ hr')
    · intro e he
      simp only [addLocal, NodeSt.entries] at he
      rcases List.mem_append.1 he with he | he
      · rcases mem_addTab he with he | he
        · subst he
          exact ⟨rfl, rfl, rfl, hsub r List.mem_cons_self⟩
        · exact hst e (List.mem_append_left _ he)
      · exact hst e (List.mem_append_right _ he)

theorem initNode_entries (self : Node) (ls : List RAd) :
    ∀ e, e ∈ (initNode self ls).entries → IsLocalEntry self ls e := by
  unfold initNode
  apply foldl_addLocal_entries self ls {} ls (fun _ h => h)
  intro e he
  simp [NodeSt.entries] at he

end MM.C11

namespace MM.C11

/-! ### histories without third-party replays -/

/-- The advertisement carries only the replayer's own routes. -/
def selfOnly (a : Node) (m : Adv) : Bool := m.origin == a && m.path == [a]

/-- `replay` ops are benign when SendFullTable only sends the replayer's own (local) routes — the
    initial table exchange on a fresh link — i.e. no route of ANOTHER origin is re-advertised. -/
def benignOp (s : Net) : Op → Bool
  | .replay a b ord => (replayAdvs (hopCap (s.maxHops a)) a b (s.nodes a) ord).all (selfOnly a)
  | _ => true

def benignRun (s : Net) : List Op → Bool
  | [] => true
  | op :: t => benignOp s op && benignRun (step s op) t

/-- Same, when the step lemma needs to know that the op belongs to the schedule. -/
theorem run_induction_mem {P : Net → Prop} (s : Net) (ops : List Op) (h0 : P s)
    (hstep : ∀ s op, op ∈ ops → P s → P (step s op)) : P (run s ops) := by
  induction ops generalizing s with
  | nil => exact h0
  | cons op t ih =>
    exact ih (step s op) (hstep s op List.mem_cons_self h0)
      (fun s' op' hop' => hstep s' op' (List.mem_cons_of_mem _ hop'))

theorem run_induction_benign {P : Net → Prop} (s : Net) (ops : List Op) (h0 : P s)
    (hb : benignRun s ops = true)
    (hstep : ∀ s op, P s → benignOp s op = true → P (step s op)) : P (run s ops) := by
  induction ops generalizing s with
  | nil => exact h0
  | cons op t ih =>
    simp only [benignRun, Bool.and_eq_true] at hb
    exact ih (step s op) (hstep s op h0 hb.1) hb.2

theorem benign_replay {s : Net} {a b : Node} {ord : List RFrame} {m : Adv}
    (hb : benignOp s (.replay a b ord) = true) (hm : m ∈ replayAdvs (hopCap (s.maxHops a)) a b (s.nodes a) ord) :
    m.origin = a ∧ m.path = [a] := by
  simp only [benignOp, List.all_eq_true] at hb
  have := hb m hm
  simpa [selfOnly] using this

end MM.C11

namespace MM.C11

theorem handle_out_length (mh : Nat) (peers : List Node) (self frm clock : Nat) (a : Adv) (st : NodeSt) :
    (handle mh peers self frm clock a st).2.1.length ≤ peers.length := by
  unfold handle
  split
  · simp
  · dsimp only
    split
    · simp
    · split
      · simp only [List.length_map]
        exact List.length_filter_le _ _
      · split
        · simp
        · split
          · simp
          · split
            · simp
            · simp only [List.length_map]
              exact List.length_filter_le _ _

end MM.C11

namespace MM.C11

theorem foldl_addLocal_seen (self : Node) (ls : List RAd) (st : NodeSt) :
    (ls.foldl (addLocal self) st).seen = st.seen := by
  induction ls generalizing st with
  | nil => rfl
  | cons r t ih => simp only [List.foldl_cons]; rw [ih]; rfl

end MM.C11

namespace MM.C11

/-! ### links: exact effect of a step; refined shape of a replayed group -/

theorem links_stepCore_eq (t : Net) (op : Op) (h : ∀ a b, op ≠ .connect a b)
    (hd : ∀ a b, op ≠ .disconnect a b) : (stepCore t op).links = t.links := by
  cases op with
  | connect a b => exact absurd rfl (h a b)
  | disconnect a b => exact absurd rfl (hd a b)
  | replay c d ord => simp only [stepCore]; split <;> rfl
  | announce c _ => simp only [stepCore]; split <;> rfl
  | withdraw c _ => simp only [stepCore]; split <;> rfl
  | deliver c d i =>
    simp only [stepCore]; split
    · split <;> rfl
    · rfl
  | dup c d i =>
    simp only [stepCore]; split
    · split <;> rfl
    · rfl
  | drop c d i =>
    simp only [stepCore]; split
    · split <;> rfl
    · rfl
  | expire c o sq => simp only [stepCore]; split <;> rfl
  | stale c age => simp only [stepCore]; split <;> rfl
  | dump => rfl

theorem mem_peersOf {s : Net} {a p : Node} (h : p ∈ peersOf s a) : linked s a p = true ∧ p < s.n := by
  unfold peersOf at h
  rcases List.mem_filter.1 h with ⟨h1, h2⟩
  exact ⟨h2, List.mem_range.1 h1⟩

end MM.C11
