/-
  C16 / C17 — facts about the association-list maps and the relay table (helpers for the Props).
-/
import MM.Model.C16

namespace MM.C16

/-! ### Go-map laws for `Map` -/

theorem Map.get_del_ne (m : Map) (k k' : Nat) (h : k' ≠ k) : (m.del k).get k' = m.get k' := by
  unfold Map.del Map.get
  induction m with
  | nil => rfl
  | cons e t ih =>
    obtain ⟨a, v⟩ := e
    by_cases ha : a = k
    · subst ha
      have h1 : (k' == a) = false := by simp [h]
      simp [List.filter, List.lookup_cons, h1, ih]
    · have h2 : (a != k) = true := by simp [ha]
      simp only [List.filter, h2, List.lookup_cons, ih]

theorem Map.get_del_same (m : Map) (k : Nat) : (m.del k).get k = none := by
  unfold Map.del Map.get
  induction m with
  | nil => rfl
  | cons e t ih =>
    obtain ⟨a, v⟩ := e
    by_cases ha : a = k
    · subst ha; simp [List.filter, ih]
    · have h2 : (a != k) = true := by simp [ha]
      have h3 : (k == a) = false := by simp [Ne.symm ha]
      simp only [List.filter, h2, List.lookup_cons, h3, ih]

theorem Map.get_set_same (m : Map) (k : Nat) (e : Entry) : (m.set k e).get k = some e := by
  simp [Map.set, Map.get]

theorem Map.get_set_ne (m : Map) (k k' : Nat) (e : Entry) (h : k' ≠ k) :
    (m.set k e).get k' = m.get k' := by
  have h1 : (k' == k) = false := by simp [h]
  have := Map.get_del_ne m k k' h
  simp only [Map.set, Map.get, List.lookup_cons, h1] at this ⊢
  exact this

/-! ### key uniqueness (a Go map has one binding per key) -/

def Map.keys (m : Map) : List Nat := m.map (·.1)

theorem Map.keys_del_sub (m : Map) (k x : Nat) (h : x ∈ (m.del k).keys) : x ∈ m.keys ∧ x ≠ k := by
  unfold Map.del Map.keys at *
  simp only [List.mem_map, List.mem_filter] at h ⊢
  obtain ⟨kv, ⟨hm, hne⟩, rfl⟩ := h
  exact ⟨⟨kv, hm, rfl⟩, by simpa using hne⟩

theorem Map.nodup_del (m : Map) (k : Nat) (h : m.keys.Nodup) : (m.del k).keys.Nodup := by
  unfold Map.del Map.keys at *
  induction m with
  | nil => simp
  | cons e t ih =>
    simp only [List.map_cons, List.nodup_cons] at h
    by_cases hk : (e.1 != k) = true
    · simp only [List.filter, hk, List.map_cons, List.nodup_cons]
      refine ⟨fun hin => h.1 ?_, ih h.2⟩
      simp only [List.mem_map, List.mem_filter] at hin ⊢
      obtain ⟨kv, ⟨hm, _⟩, he⟩ := hin
      exact ⟨kv, hm, he⟩
    · have : (e.1 != k) = false := by simpa using hk
      simp only [List.filter, this]
      exact ih h.2

theorem Map.nodup_set (m : Map) (k : Nat) (e : Entry) (h : m.keys.Nodup) : (m.set k e).keys.Nodup := by
  show (Map.keys ((k, e) :: m.del k)).Nodup
  simp only [Map.keys, List.map_cons, List.nodup_cons]
  exact ⟨fun hin => (Map.keys_del_sub m k k hin).2 rfl, Map.nodup_del m k h⟩

theorem Map.mem_of_get {m : Map} {k : Nat} {e : Entry} (h : m.get k = some e) : (k, e) ∈ m := by
  unfold Map.get at h
  induction m with
  | nil => cases h
  | cons kv t ih =>
    obtain ⟨a, v⟩ := kv
    rw [List.lookup_cons] at h
    by_cases hk : (k == a) = true
    · simp only [hk] at h
      injection h with h
      have : k = a := by simpa using hk
      subst this; subst h
      exact List.mem_cons_self
    · have hk' : (k == a) = false := by simpa using hk
      simp only [hk'] at h
      exact List.mem_cons_of_mem _ (ih h)

theorem Map.get_of_mem {m : Map} {k : Nat} {e : Entry} (hn : m.keys.Nodup) (h : (k, e) ∈ m) :
    m.get k = some e := by
  unfold Map.get
  induction m with
  | nil => cases h
  | cons kv t ih =>
    obtain ⟨a, v⟩ := kv
    simp only [Map.keys, List.map_cons, List.nodup_cons] at hn
    rw [List.lookup_cons]
    rcases List.mem_cons.mp h with heq | hin
    · injection heq with h1 h2
      subst h1; subst h2
      simp
    · have hne : k ≠ a := by
        intro hka
        subst hka
        exact hn.1 (List.mem_map.mpr ⟨(k, e), hin, rfl⟩)
      have hk' : (k == a) = false := by simp [hne]
      simp only [hk']
      exact ih hn.2 hin

theorem Map.get_delAll (m : Map) (ks : List Nat) (k : Nat) :
    (m.delAll ks).get k = if k ∈ ks then none else m.get k := by
  unfold Map.delAll
  induction ks generalizing m with
  | nil => simp
  | cons a t ih =>
    simp only [List.foldl_cons]
    rw [ih]
    by_cases hk : k ∈ t
    · simp [hk]
    · by_cases hka : k = a
      · subst hka; simp [hk, Map.get_del_same]
      · simp [hk, hka, Map.get_del_ne _ _ _ hka]

theorem Map.nodup_delAll (m : Map) (ks : List Nat) (h : m.keys.Nodup) : (m.delAll ks).keys.Nodup := by
  unfold Map.delAll
  induction ks generalizing m with
  | nil => simpa
  | cons a t ih => exact ih _ (Map.nodup_del m a h)

end MM.C16
