import MM.Model.C34

/-!
  Helper lemmas for C34: a writer that only ever writes temporary names and renames them
  (`Op.tmpOnly`) can leave, as far as the four final names are concerned, only the states at
  its call boundaries; recovery reads only the final names.
-/
namespace MM.C34
set_option linter.unusedSimpArgs false

theorem obs_set_tmp (s : FS) (f : F) (c : Option Content)
    (hf : (f = .idT || f = .keyT || f = .pubT || f = .slT) = true) : (s.set f c).obs = s.obs := by
  cases f <;> simp [FS.set, FS.obs] at hf ⊢

theorem during_obs (s : FS) (op : Op) (h : op.tmpOnly = true) :
    ∀ s' ∈ during s op, s'.obs = s.obs := by
  intro s' hs'
  cases op with
  | mkdirAll => simp [during] at hs'
  | rename a b => simp [during] at hs'
  | writeFile f v len =>
    simp only [during, List.mem_map] at hs'
    obtain ⟨k, _, rfl⟩ := hs'
    exact obs_set_tmp s f _ h

/-- Crash states of a temp-and-rename writer look, on the final names, like call-boundary states. -/
theorem crash_obs (ops : List Op) : ∀ (s s' : FS), (∀ op ∈ ops, op.tmpOnly = true) →
    s' ∈ crashStates s ops → ∃ t ∈ prefixStates s ops, s'.obs = t.obs := by
  induction ops with
  | nil =>
    intro s s' _ h
    simp [crashStates] at h
    exact ⟨s, by simp [prefixStates], by rw [h]⟩
  | cons op r ih =>
    intro s s' hall h
    rw [crashStates, List.mem_append, List.mem_cons] at h
    rcases h with (h | h) | h
    · exact ⟨s, by simp [prefixStates], by rw [h]⟩
    · exact ⟨s, by simp [prefixStates], during_obs s op (hall op (by simp)) s' h⟩
    · obtain ⟨t, ht, e⟩ := ih (apply s op) s' (fun o ho => hall o (by simp [ho])) h
      exact ⟨t, by simp [prefixStates, ht], e⟩

theorem good_congr (d : Nat → Nat) {s t : FS} (h : s.obs = t.obs) : good d s = good d t := by
  simp only [FS.obs, Obs.mk.injEq] at h
  obtain ⟨h1, h2, h3, h4⟩ := h
  simp only [good, h1, h2, h3, h4]

theorem startId_congr {s t : FS} (h : s.obs = t.obs) (fi : Nat) : startId s fi = startId t fi := by
  simp only [FS.obs, Obs.mk.injEq] at h
  simp only [startId, h.1]

theorem startKey_congr (d : Nat → Nat) {s t : FS} (h : s.obs = t.obs) (fk : Nat) :
    startKey d s fk = startKey d t fk := by
  simp only [FS.obs, Obs.mk.injEq] at h
  simp only [startKey, h.2.1, h.2.2.1]

theorem loadSleep_congr {s t : FS} (h : s.obs = t.obs) : loadSleep s = loadSleep t := by
  simp only [FS.obs, Obs.mk.injEq] at h
  simp only [loadSleep, h.2.2.2]

theorem start_congr (d : Nat → Nat) {s t : FS} (h : s.obs = t.obs) (fi fk : Nat) :
    start d s fi fk = start d t fi fk := by
  simp only [start, startId_congr h, startKey_congr d h, loadSleep_congr h]

theorem storeIdOps_tmpOnly (v : Nat) : ∀ op ∈ storeIdOps v, op.tmpOnly = true := by
  intro op h; simp [storeIdOps] at h; rcases h with rfl | rfl | rfl <;> rfl

theorem storeKeyOps_tmpOnly (d : Nat → Nat) (k : Nat) : ∀ op ∈ storeKeyOps d k, op.tmpOnly = true := by
  intro op h; simp [storeKeyOps] at h; rcases h with rfl | rfl | rfl | rfl | rfl <;> rfl

theorem persistOps_tmpOnly (s : FS) (w : Nat) : ∀ op ∈ persistOps s w, op.tmpOnly = true := by
  intro op h
  unfold persistOps at h
  split at h
  · simp at h; rcases h with rfl | rfl <;> rfl
  · simp at h

theorem startId_tmpOnly (s : FS) (fi : Nat) : ∀ op ∈ (startId s fi).2, op.tmpOnly = true := by
  intro op h
  unfold startId at h
  split at h
  · exact storeIdOps_tmpOnly _ op h
  · simp at h

theorem startKey_tmpOnly (d : Nat → Nat) (s : FS) (fk : Nat) :
    ∀ op ∈ (startKey d s fk).2, op.tmpOnly = true := by
  intro op h
  unfold startKey at h
  split at h
  · exact storeKeyOps_tmpOnly _ _ op h
  · split at h
    · simp at h
    · split at h
      · simp at h; rcases h with rfl | rfl <;> rfl
      · split at h
        · simp at h
        · split at h <;> simp at h

theorem start_tmpOnly (d : Nat → Nat) (s : FS) (fi fk : Nat) :
    ∀ op ∈ (start d s fi fk).2, op.tmpOnly = true := by
  intro op h
  unfold start at h
  have h1 := startId_tmpOnly s fi
  have h2 := startKey_tmpOnly d s fk
  rcases e1 : startId s fi with ⟨r1, ops1⟩
  rcases e2 : startKey d s fk with ⟨r2, ops2⟩
  rw [e1] at h h1; rw [e2] at h h2
  cases r1 with
  | none => simp at h
  | some i =>
    cases r2 with
    | none => exact h1 op h
    | some kp =>
      obtain ⟨k, p⟩ := kp
      simp only [List.mem_append] at h
      rcases h with h | h
      · exact h1 op h
      · exact h2 op h

theorem actionOps_tmpOnly (d : Nat → Nat) (s : FS) (a : Action) :
    ∀ op ∈ actionOps d s a, op.tmpOnly = true := by
  cases a with
  | start fi fk => exact start_tmpOnly d s fi fk
  | persist w => exact persistOps_tmpOnly s w
  | storeId v => exact storeIdOps_tmpOnly v

/-- Call-boundary states of every action started in a good state are good (case analysis over the
    shapes of the three final identity files). -/
theorem good_prefix (d : Nat → Nat) (s : FS) (hg : good d s = true) (a : Action) :
    ∀ t ∈ prefixStates s (actionOps d s a), good d t = true := by
  obtain ⟨dir, id, idT, key, keyT, pub, pubT, sl, slT⟩ := s
  cases a with
  | start fi fk =>
    rcases id with _ | (_|_|_) <;> rcases key with _ | (_|_|_) <;> rcases pub with _ | (_|_|_) <;>
      simp_all [good, actionOps, start, startId, startKey, parseHex, prefixStates, apply, FS.get, FS.set,
        storeIdOps, storeKeyOps]
  | persist w =>
    cases dir <;> simp_all [good, actionOps, persistOps, prefixStates, apply, FS.get, FS.set]
  | storeId v =>
    simp_all [good, actionOps, storeIdOps, prefixStates, apply, FS.get, FS.set]

/-- The inductive step of the invariant: every crash state of every action is good. -/
theorem good_preserved (d : Nat → Nat) (s : FS) (hg : good d s = true) (a : Action) :
    ∀ s' ∈ crashStates s (actionOps d s a), good d s' = true := by
  intro s' hs'
  obtain ⟨t, ht, e⟩ := crash_obs _ s s' (actionOps_tmpOnly d s a) hs'
  rw [good_congr d e]
  exact good_prefix d s hg a t ht

/-- The private key file is the same at every call boundary of every action. -/
theorem key_prefix (d : Nat → Nat) (s : FS) (hg : good d s = true) (k : Nat)
    (hk : s.key = some (.whole k)) (a : Action) :
    ∀ t ∈ prefixStates s (actionOps d s a), t.key = some (.whole k) := by
  obtain ⟨dir, id, idT, key, keyT, pub, pubT, sl, slT⟩ := s
  simp only at hk
  subst hk
  cases a with
  | start fi fk =>
    rcases id with _ | (_|_|_) <;> rcases pub with _ | (_|_|_) <;>
      simp_all [good, actionOps, start, startId, startKey, parseHex, prefixStates, apply, FS.get, FS.set,
        storeIdOps, storeKeyOps]
  | persist w =>
    cases dir <;> simp_all [good, actionOps, persistOps, prefixStates, apply, FS.get, FS.set]
  | storeId v =>
    simp_all [good, actionOps, storeIdOps, prefixStates, apply, FS.get, FS.set]

/-- The agent-id file is the same at every call boundary of a start or a sleep-state save. -/
theorem id_prefix (d : Nat → Nat) (s : FS) (hg : good d s = true) (v : Nat)
    (hv : s.id = some (.whole v)) (a : Action) (ha : ∀ v', a ≠ .storeId v') :
    ∀ t ∈ prefixStates s (actionOps d s a), t.id = some (.whole v) := by
  obtain ⟨dir, id, idT, key, keyT, pub, pubT, sl, slT⟩ := s
  simp only at hv
  subst hv
  cases a with
  | start fi fk =>
    rcases key with _ | (_|_|_) <;> rcases pub with _ | (_|_|_) <;>
      simp_all [good, actionOps, start, startId, startKey, parseHex, prefixStates, apply, FS.get, FS.set,
        storeIdOps, storeKeyOps]
  | persist w =>
    cases dir <;> simp_all [good, actionOps, persistOps, prefixStates, apply, FS.get, FS.set]
  | storeId v' => exact absurd rfl (ha v')

/-- The sleep-state file at the call boundaries of a save holds the old or the new value. -/
theorem sleep_prefix_persist (s : FS) (w : Nat) :
    ∀ t ∈ prefixStates s (persistOps s w), loadSleep t = loadSleep s ∨ loadSleep t = some w := by
  obtain ⟨dir, id, idT, key, keyT, pub, pubT, sl, slT⟩ := s
  cases dir <;> simp [persistOps, prefixStates, apply, FS.get, FS.set, loadSleep, parseSleep]

/-- ... and is not touched by the other actions. -/
theorem sleep_prefix_other (d : Nat → Nat) (s : FS) (hg : good d s = true) (a : Action)
    (ha : ∀ w, a ≠ .persist w) :
    ∀ t ∈ prefixStates s (actionOps d s a), loadSleep t = loadSleep s := by
  obtain ⟨dir, id, idT, key, keyT, pub, pubT, sl, slT⟩ := s
  cases a with
  | start fi fk =>
    rcases id with _ | (_|_|_) <;> rcases key with _ | (_|_|_) <;> rcases pub with _ | (_|_|_) <;>
      simp_all [good, actionOps, start, startId, startKey, parseHex, prefixStates, apply, FS.get, FS.set,
        storeIdOps, storeKeyOps, loadSleep]
  | persist w => exact absurd rfl (ha w)
  | storeId v =>
    simp [actionOps, storeIdOps, prefixStates, apply, FS.get, FS.set, loadSleep]

/-- A good state starts. -/
theorem good_start (d : Nat → Nat) (s : FS) (hg : good d s = true) (fi fk : Nat) :
    ∃ r, (start d s fi fk).1 = some r := by
  obtain ⟨dir, id, idT, key, keyT, pub, pubT, sl, slT⟩ := s
  rcases id with _ | (_|_|_) <;> rcases key with _ | (_|_|_) <;> rcases pub with _ | (_|_|_) <;>
    simp_all [good, start, startId, startKey, parseHex]

theorem startKey_pub (d : Nat → Nat) (s : FS) (fk k p : Nat)
    (h : (startKey d s fk).1 = some (k, p)) : p = d k := by
  unfold startKey at h
  split at h
  · simp at h; obtain ⟨rfl, rfl⟩ := h; rfl
  · split at h
    · simp at h
    · split at h
      · simp at h; obtain ⟨rfl, rfl⟩ := h; rfl
      · split at h
        · simp at h
        · split at h
          · simp at h; obtain ⟨rfl, rfl⟩ := h; assumption
          · simp at h

/-- Whatever a start returns is a matching pair. -/
theorem start_pub (d : Nat → Nat) (s : FS) (fi fk : Nat) (r : Started)
    (h : (start d s fi fk).1 = some r) : r.pub = d r.priv := by
  unfold start at h
  rcases e1 : startId s fi with ⟨r1, ops1⟩
  rcases e2 : startKey d s fk with ⟨r2, ops2⟩
  rw [e1] at h
  cases r1 with
  | none => simp at h
  | some i =>
    simp only [e2] at h
    cases r2 with
    | none => simp at h
    | some kp =>
      obtain ⟨k, p⟩ := kp
      simp at h
      subst h
      exact startKey_pub d s fk k p (by rw [e2])

end MM.C34
