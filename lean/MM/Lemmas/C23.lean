import MM.Model.C23
/-
  Helper lemmas for C23 (and C21): `readFull` on concatenations and truncations, the parser on
  encoded requests, shape of written messages.
-/
namespace MM.C23
open MM

theorem readFull_append (a b : Bytes) : readFull a.length (a ++ b) = some (a, b) := by
  simp [readFull]

theorem readFull_append' {n : Nat} (a b : Bytes) (h : a.length = n) : readFull n (a ++ b) = some (a, b) := by
  subst h; exact readFull_append a b

theorem readFull_eq_some {n : Nat} {inp x r : Bytes} (h : readFull n inp = some (x, r)) :
    inp = x ++ r ∧ x.length = n := by
  unfold readFull at h
  split at h
  · injection h with h; injection h with h1 h2
    subst h1; subst h2
    simp; omega
  · cases h

theorem readFull_cons1 (x : UInt8) (l : Bytes) : readFull 1 (x :: l) = some ([x], l) :=
  readFull_append' [x] l rfl

theorem toNat_ofNat_lt {k : Nat} (h : k < 256) : (UInt8.ofNat k).toNat = k := by
  simp [UInt8.toNat_ofNat']; omega

theorem readPort (port : Nat) (hp : port < 65536) (rest : Bytes) (cmd : UInt8) (d : Dest) :
    (match readFull 2 (beN 2 port ++ rest) with
      | none => ReqOut.err []
      | some (pb, _) => ReqOut.ok cmd d (unbe pb)) = ReqOut.ok cmd d port := by
  rw [readFull_append' (n := 2) (beN 2 port) rest (by simp)]
  simp only []
  rw [unbe_beN_of_lt (by simpa using hp)]

/-- `readRequest` on a well-formed encoded request followed by anything. -/
theorem readRequest_encode (cmd rsv : UInt8) (d : Dest) (hd : d.wf) (port : Nat) (hp : port < 65536)
    (rest : Bytes) :
    readRequest (encodeRequest cmd rsv d port ++ rest) = .ok cmd d port := by
  cases d with
  | v4 b =>
    have hb : b.length = 4 := hd
    have e : encodeRequest cmd rsv (.v4 b) port ++ rest = [0x05, cmd, rsv, 0x01] ++ (b ++ (beN 2 port ++ rest)) := by
      simp [encodeRequest, Dest.encode]
    rw [e]
    unfold readRequest
    rw [readFull_append' (n := 4) _ _ (by rfl)]
    simp [readFull_append' (n := 4) b _ hb]
    exact readPort port hp rest cmd _
  | dom dm =>
    obtain ⟨h0, h1⟩ : 0 < dm.length ∧ dm.length < 256 := hd
    have e : encodeRequest cmd rsv (.dom dm) port ++ rest =
        [0x05, cmd, rsv, 0x03] ++ (UInt8.ofNat dm.length :: (dm ++ (beN 2 port ++ rest))) := by
      simp [encodeRequest, Dest.encode]
    rw [e]
    unfold readRequest
    rw [readFull_append' (n := 4) _ _ (by rfl)]
    have hn : (UInt8.ofNat dm.length).toNat = dm.length := toNat_ofNat_lt h1
    have hne : dm.length ≠ 0 := by omega
    simp [readFull_cons1, hn, hne, readFull_append' dm _ rfl]
    exact readPort port hp rest cmd _
  | v6 b =>
    have hb : b.length = 16 := hd
    have e : encodeRequest cmd rsv (.v6 b) port ++ rest = [0x05, cmd, rsv, 0x04] ++ (b ++ (beN 2 port ++ rest)) := by
      simp [encodeRequest, Dest.encode]
    rw [e]
    unfold readRequest
    rw [readFull_append' (n := 4) _ _ (by rfl)]
    simp [readFull_append' (n := 16) b _ hb]
    exact readPort port hp rest cmd _

/-! ### greeting / method selection with the no-auth handler -/

theorem selectAuth_noAuth {methods : Bytes} (h : (0 : UInt8) ∈ methods) :
    selectAuth [.noAuth] methods = some .noAuth := by
  simp [selectAuth, Auth.method, h]

theorem selectAuth_noAuth_none {methods : Bytes} (h : (0 : UInt8) ∉ methods) :
    selectAuth [.noAuth] methods = none := by
  simp [selectAuth, Auth.method, h]

theorem authenticate_greeting (auths : List Auth) (methods rest : Bytes) (hl : methods.length < 256) :
    authenticate auths (encodeGreeting methods ++ rest) =
      match selectAuth auths methods with
      | none => ⟨[[0x05, 0xFF]], none, none⟩
      | some a =>
        match a with
        | .noAuth => ⟨[[0x05, a.method]], some rest, none⟩
        | .userPass valid =>
          let o := userPassAuth valid rest
          ⟨[0x05, a.method] :: o.replies, o.rest, o.creds⟩ := by
  have e : encodeGreeting methods ++ rest = [0x05, UInt8.ofNat methods.length] ++ (methods ++ rest) := by
    simp [encodeGreeting]
  rw [e]
  unfold authenticate
  rw [readFull_append' (n := 2) _ _ (by rfl)]
  simp [toNat_ofNat_lt hl, readFull_append' methods rest rfl]
  cases selectAuth auths methods with
  | none => rfl
  | some a => cases a <;> rfl

theorem authenticate_noAuth {methods : Bytes} (rest : Bytes) (hl : methods.length < 256)
    (h0 : (0 : UInt8) ∈ methods) :
    authenticate [.noAuth] (encodeGreeting methods ++ rest) = ⟨[[0x05, 0x00]], some rest, none⟩ := by
  rw [authenticate_greeting _ _ _ hl, selectAuth_noAuth h0]
  rfl

/-- `LocalAddr().(*net.TCPAddr).IP` is nil, an IPv4 (4 bytes) or an IPv6 (16 bytes) address. -/
def ipLenOk (b : Bytes) : Prop := b.length = 0 ∨ b.length = 4 ∨ b.length = 16

theorem is4in6_length {b : Bytes} (h : is4in6 b = true) : b.length = 16 := by
  unfold is4in6 at h
  simp at h
  exact h.1.1.1

theorem isReply_mkReply (rep : UInt8) (ip : Bytes) (port : Nat) (h : ipLenOk ip) :
    isReply (mkReply rep ip port) = true := by
  unfold mkReply to4
  by_cases h4 : ip.length = 4
  · simp [h4, isReply]
  · by_cases h6 : is4in6 ip = true
    · have := is4in6_length h6
      simp [h6, isReply, this]
    · have h16 : ip.length = 0 ∨ ip.length = 16 := by
        rcases h with h | h | h <;> simp_all
      rcases h16 with h0 | h16
      · simp [h6, h0, isReply]
      · simp [h6, h16, isReply]

theorem wfMsg_mkReply (rep : UInt8) (ip : Bytes) (port : Nat) (h : ipLenOk ip) :
    wfMsg (mkReply rep ip port) = true := by
  simp [wfMsg, isReply_mkReply rep ip port h]

theorem ipLenOk_nil : ipLenOk [] := Or.inl rfl

theorem userPassAuth_wf (valid : Bytes → Bytes → Bool) (inp : Bytes) :
    (userPassAuth valid inp).replies.all wfMsg = true := by
  unfold userPassAuth
  dsimp only
  repeat' split
  all_goals simp [wfMsg, isAuthStatus]

theorem authenticate_wf (auths : List Auth) (inp : Bytes) :
    (authenticate auths inp).replies.all wfMsg = true := by
  unfold authenticate
  dsimp only
  repeat' split
  all_goals first
    | simp [wfMsg, isMethodSel, userPassAuth_wf]

/-- Messages written by `readRequest`. -/
def ReqOut.replies : ReqOut → List Bytes
  | .err rs => rs
  | .ok _ _ _ => []

theorem readRequest_wf (inp : Bytes) : (readRequest inp).replies.all wfMsg = true := by
  unfold readRequest
  dsimp only
  repeat' split
  all_goals simp [ReqOut.replies, wfMsg_mkReply _ _ _ ipLenOk_nil]

/-- Hypothesis of `C23_reply_wf` on the environment: addresses handed to `sendReply` are nil, IPv4
    or IPv6. -/
def Env.addrsOk (env : Env) : Prop :=
  (match env.dial with
   | .ok ip _ => ipLenOk ip
   | .fail _ => True) ∧ ipLenOk env.ctrlLocalIP

theorem dispatch_wf (env : Env) (h : env.addrsOk) (cmd : UInt8) (d : Dest) (port : Nat) :
    (dispatch env cmd d port).replies.all wfMsg = true := by
  obtain ⟨hd, hl⟩ := h
  have h127 : ipLenOk [127, 0, 0, 1] := Or.inr (Or.inl rfl)
  have hnil := ipLenOk_nil
  unfold dispatch handleConnect handleUDP handleICMP
  dsimp only
  repeat' split
  all_goals simp_all [wfMsg_mkReply]

theorem requestPhase_wf (env : Env) (h : env.addrsOk) (inp : Bytes) :
    (requestPhase env inp).replies.all wfMsg = true := by
  unfold requestPhase
  have := readRequest_wf inp
  split
  · rename_i rs heq; rw [heq] at this; exact this
  · exact dispatch_wf env h _ _ _

theorem readFull_take_append {n k : Nat} (a b : Bytes) (ha : a.length = n) :
    readFull n ((a ++ b).take k) = if n ≤ k then some (a, b.take (k - n)) else none := by
  subst ha
  by_cases h : a.length ≤ k
  · rw [if_pos h, List.take_append, List.take_of_length_le h]
    exact readFull_append' _ _ rfl
  · rw [if_neg h]
    unfold readFull
    rw [if_neg]
    simp [List.length_take]
    omega

theorem readFull_take_cons {k : Nat} (x : UInt8) (l : Bytes) :
    readFull 1 ((x :: l).take k) = if 1 ≤ k then some ([x], l.take (k - 1)) else none :=
  readFull_take_append (n := 1) [x] l rfl

theorem readFull_short {n : Nat} {l : Bytes} (h : l.length < n) : readFull n l = none := by
  unfold readFull
  rw [if_neg (by omega)]

theorem readRequest_truncated (cmd rsv : UInt8) (d : Dest) (hd : d.wf) (port : Nat) (k : Nat)
    (hk : k < (encodeRequest cmd rsv d port).length) :
    readRequest ((encodeRequest cmd rsv d port).take k) = .err [] := by
  cases d with
  | v4 b =>
    have hb : b.length = 4 := hd
    have e : encodeRequest cmd rsv (.v4 b) port = [0x05, cmd, rsv, 0x01] ++ (b ++ beN 2 port) := by
      simp [encodeRequest, Dest.encode]
    have hlen : (encodeRequest cmd rsv (.v4 b) port).length = 10 := by simp [e, hb]
    rw [e]
    unfold readRequest
    rw [readFull_take_append (n := 4) _ _ (by rfl)]
    by_cases h1 : 4 ≤ k
    · simp only [if_pos h1]
      simp only [List.getElem!_cons_zero, List.getElem!_cons_succ, ne_eq, not_true_eq_false, if_false, if_true]
      simp [readFull_take_append (n := 4) b _ hb]
      by_cases h2 : 4 ≤ k - 4
      · simp only [if_pos h2]
        rw [readFull_short (by simp [List.length_take]; omega)]
      · simp [h2]
    · simp [h1]
  | dom dm =>
    obtain ⟨h0, h1'⟩ : 0 < dm.length ∧ dm.length < 256 := hd
    have e : encodeRequest cmd rsv (.dom dm) port =
        [0x05, cmd, rsv, 0x03] ++ ([UInt8.ofNat dm.length] ++ (dm ++ beN 2 port)) := by
      simp [encodeRequest, Dest.encode]
    have hlen : (encodeRequest cmd rsv (.dom dm) port).length = 7 + dm.length := by simp [e]; omega
    have hn : (UInt8.ofNat dm.length).toNat = dm.length := toNat_ofNat_lt h1'
    have hne : dm.length ≠ 0 := by omega
    rw [e]
    unfold readRequest
    rw [readFull_take_append (n := 4) _ _ (by rfl)]
    by_cases h1 : 4 ≤ k
    · simp only [if_pos h1]
      simp [readFull_take_cons]
      by_cases h2 : 1 ≤ k - 4
      · simp only [if_pos h2]
        simp [hn, hne, readFull_take_append dm _ rfl]
        by_cases h3 : dm.length ≤ k - 4 - 1
        · simp only [if_pos h3]
          rw [readFull_short (by simp [List.length_take]; omega)]
        · simp [h3]
      · simp [h2]
    · simp [h1]
  | v6 b =>
    have hb : b.length = 16 := hd
    have e : encodeRequest cmd rsv (.v6 b) port = [0x05, cmd, rsv, 0x04] ++ (b ++ beN 2 port) := by
      simp [encodeRequest, Dest.encode]
    have hlen : (encodeRequest cmd rsv (.v6 b) port).length = 22 := by simp [e, hb]
    rw [e]
    unfold readRequest
    rw [readFull_take_append (n := 4) _ _ (by rfl)]
    by_cases h1 : 4 ≤ k
    · simp only [if_pos h1]
      simp [readFull_take_append (n := 16) b _ hb]
      by_cases h2 : 16 ≤ k - 4
      · simp only [if_pos h2]
        rw [readFull_short (by simp [List.length_take]; omega)]
      · simp [h2]
    · simp [h1]

theorem encodeGreeting_length (methods : Bytes) : (encodeGreeting methods).length = 2 + methods.length := by
  simp [encodeGreeting]; omega

/-- A stream cut inside the greeting: nothing is written and authentication does not complete. -/
theorem authenticate_truncated (auths : List Auth) (methods q : Bytes) (hl : methods.length < 256)
    (k : Nat) (hk : k < (encodeGreeting methods).length) :
    authenticate auths ((encodeGreeting methods ++ q).take k) = ⟨[], none, none⟩ := by
  rw [encodeGreeting_length] at hk
  have e : encodeGreeting methods ++ q = [0x05, UInt8.ofNat methods.length] ++ (methods ++ q) := by
    simp [encodeGreeting]
  rw [e]
  unfold authenticate
  rw [readFull_take_append (n := 2) _ _ (by rfl)]
  by_cases h1 : 2 ≤ k
  · simp only [if_pos h1]
    simp [toNat_ofNat_lt hl, readFull_take_append methods q rfl]
    rw [if_neg (by omega)]
  · simp [h1]

end MM.C23
