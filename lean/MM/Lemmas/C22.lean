/-
  Helper lemmas for C22: the state components that define the owner never change, and an accepted
  source is the owner.
-/
import MM.Model.C22

namespace MM.C22
open MM

/-- The declared address, when kept, is a real, specified IP. -/
def wfExpected (st : St) : Prop :=
  ∀ e, st.expected = some e → e.ip.length ≠ 0 ∧ C23.isUnspecified e.ip = false

theorem wfExpected_init (ctrl destIP : Option Bytes) (port : Nat)
    (hlen : ∀ ip, destIP = some ip → ip.length = 4 ∨ ip.length = 16) :
    wfExpected (initSt ctrl destIP port) := by
  intro e he
  unfold initSt declared at he
  dsimp only at he
  cases destIP with
  | none => cases he
  | some ip =>
    dsimp only at he
    by_cases hu : C23.isUnspecified ip = true
    · rw [if_pos hu] at he; cases he
    · rw [if_neg hu] at he
      injection he with he
      subst he
      refine ⟨?_, by simpa using hu⟩
      rcases hlen ip rfl with h | h <;> (dsimp only; omega)

theorem recv_fixed (st : St) (src : Addr) (valid : Bool) :
    (recv st src valid).1.ctrlIP = st.ctrlIP ∧ (recv st src valid).1.expected = st.expected := by
  unfold recv
  split
  · cases st.actual <;> exact ⟨rfl, rfl⟩
  · exact ⟨rfl, rfl⟩

theorem owner_recv (st : St) (src : Addr) (valid : Bool) : owner (recv st src valid).1 = owner st := by
  obtain ⟨h1, h2⟩ := recv_fixed st src valid
  unfold owner
  rw [h1, h2]

theorem wfExpected_recv {st : St} (h : wfExpected st) (src : Addr) (valid : Bool) :
    wfExpected (recv st src valid).1 := by
  intro e he
  rw [(recv_fixed st src valid).2] at he
  exact h e he

/-- A source that passes both checks is the owner (whenever the association has one). -/
theorem accepts_owner {st : St} (hwf : wfExpected st) {o : Bytes} (ho : owner st = some o)
    {src : Addr} (ha : accepts st src = true) : ipEqual src.ip o = true := by
  unfold accepts at ha
  rw [Bool.and_eq_true] at ha
  obtain ⟨h1, h2⟩ := ha
  unfold owner at ho
  cases hc : st.ctrlIP with
  | some c =>
    rw [hc] at ho h1
    dsimp only at ho h1
    by_cases hz : (c.length == 0) = true
    · rw [if_pos hz] at ho
      cases he : st.expected with
      | none => rw [he] at ho; cases ho
      | some e =>
        rw [he] at ho h2
        simp only [Option.map_some, Option.some.injEq] at ho
        obtain ⟨hne, hun⟩ := hwf e he
        subst ho
        simp only [Bool.or_eq_true, beq_iff_eq] at h2
        rcases h2 with (h2 | h2) | h2
        · exact absurd h2 hne
        · rw [hun] at h2; cases h2
        · exact h2
    · rw [if_neg hz] at ho
      injection ho with ho
      subst ho
      simp only [Bool.or_eq_true] at h1
      rcases h1 with h1 | h1
      · exact absurd h1 hz
      · exact h1
  | none =>
    rw [hc] at ho
    dsimp only at ho
    cases he : st.expected with
    | none => rw [he] at ho; cases ho
    | some e =>
      rw [he] at ho h2
      simp only [Option.map_some, Option.some.injEq] at ho
      obtain ⟨hne, hun⟩ := hwf e he
      subst ho
      simp only [Bool.or_eq_true, beq_iff_eq] at h2
      rcases h2 with (h2 | h2) | h2
      · exact absurd h2 hne
      · rw [hun] at h2; cases h2
      · exact h2

/-- Invariant: the recorded reply destination is the owner. -/
def ReplyInv (st : St) : Prop :=
  ∀ o, owner st = some o → ∀ a, st.actual = some a → ipEqual a.ip o = true

theorem replyInv_recv {st : St} (hwf : wfExpected st) (h : ReplyInv st) (src : Addr) (valid : Bool) :
    ReplyInv (recv st src valid).1 := by
  intro o ho a ha
  rw [owner_recv] at ho
  unfold recv at ha
  by_cases hacc : accepts st src = true
  · rw [if_pos hacc] at ha
    cases hact : st.actual with
    | none =>
      rw [hact] at ha
      dsimp only at ha
      injection ha with ha
      subst ha
      exact accepts_owner hwf ho hacc
    | some b =>
      rw [hact] at ha
      dsimp only at ha
      rw [hact] at ha
      exact h o ho a (hact ▸ ha)
  · rw [if_neg hacc] at ha
    exact h o ho a ha

theorem run_props {st : St} (hwf : wfExpected st) (h : ReplyInv st) (dgs : List (Addr × Bool)) :
    wfExpected (run st dgs) ∧ ReplyInv (run st dgs) ∧ owner (run st dgs) = owner st := by
  induction dgs generalizing st with
  | nil => exact ⟨hwf, h, rfl⟩
  | cons d ds ih =>
    have := ih (wfExpected_recv hwf d.1 d.2) (replyInv_recv hwf h d.1 d.2)
    refine ⟨this.1, this.2.1, ?_⟩
    show owner (run (recv st d.1 d.2).1 ds) = owner st
    rw [this.2.2, owner_recv]

end MM.C22
