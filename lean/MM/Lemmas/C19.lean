/-
  Helper lemmas for C19: `Contains` depends only on the key, list algebra of the allow list and
  the dynamic-route map, and the invariant tying them together under any operation sequence.
-/
import MM.Model.C19
namespace MM.C19
open MM

theorem norm_idem (n : Net) : n.norm.norm = n.norm := by
  unfold Net.norm
  by_cases h : C23.is4in6 n.ip = true
  · have hl : n.ip.length = 16 := by
      unfold C23.is4in6 at h; simp at h; exact h.1.1.1
    have h2 : C23.is4in6 (n.ip.drop 12) = false := by
      unfold C23.is4in6; simp [hl]
    simp [h, h2]
  · simp [h]

theorem key_idem (n : Net) : n.key.key = n.key := norm_idem n

/-- `Contains` only depends on the key (`String()`) of the network. -/
theorem contains_key (n : Net) (ip : Bytes) : n.key.contains ip = n.contains ip := by
  unfold Net.contains Net.key
  rw [norm_idem]

theorem contains_of_key_eq {a b : Net} (h : a.key = b.key) (ip : Bytes) : a.contains ip = b.contains ip := by
  rw [← contains_key a, ← contains_key b, h]

def keys (dyn : List (Net × Net × Nat)) : List Net := dyn.map (·.1)

theorem dynHas_iff (dyn : List (Net × Net × Nat)) (k : Net) : dynHas dyn k = true ↔ k ∈ keys dyn := by
  unfold dynHas keys
  simp [List.any_eq_true]

theorem keys_dynSet_has {dyn : List (Net × Net × Nat)} {k : Net} (h : dynHas dyn k = true) (n : Net) (m : Nat) :
    keys (dynSet dyn k n m) = keys dyn := by
  unfold dynSet keys
  rw [if_pos h, List.map_map]
  apply List.map_congr_left
  intro e _
  by_cases he : e.1 = k
  · simp [he]
  · simp [he]

theorem keys_dynSet_new {dyn : List (Net × Net × Nat)} {k : Net} (h : ¬ dynHas dyn k = true) (n : Net) (m : Nat) :
    keys (dynSet dyn k n m) = keys dyn ++ [k] := by
  unfold dynSet keys
  rw [if_neg h]; simp

theorem keys_filter (dyn : List (Net × Net × Nat)) (k : Net) :
    keys (dyn.filter (fun e => !(e.1 == k))) = (keys dyn).filter (fun x => !(x == k)) := by
  unfold keys
  induction dyn with
  | nil => rfl
  | cons e es ih =>
    by_cases he : e.1 == k
    · simp [List.filter, he, ih]
    · simp [List.filter, he, ih]

theorem removeAllowed_append_left {base : List Net} (tail : List Net) (n : Net)
    (h : ∀ b ∈ base, b.key ≠ n.key) : removeAllowed (base ++ tail) n = base ++ removeAllowed tail n := by
  induction base with
  | nil => rfl
  | cons b bs ih =>
    have hb : (b.key == n.key) = false := by simpa using h b (by simp)
    simp only [List.cons_append, removeAllowed, hb]
    rw [ih (fun x hx => h x (by simp [hx]))]
    simp

theorem removeAllowed_keys (tail : List Net) (n : Net) (hnd : (tail.map Net.key).Nodup) :
    (removeAllowed tail n).map Net.key = (tail.map Net.key).filter (fun x => !(x == n.key)) := by
  induction tail with
  | nil => rfl
  | cons t ts ih =>
    simp only [List.map_cons, List.nodup_cons] at hnd
    by_cases ht : t.key == n.key
    · have hk : t.key = n.key := beq_iff_eq.mp ht
      simp only [removeAllowed, ht, if_true, List.map_cons, List.filter, Bool.not_true]
      have : ∀ x ∈ ts.map Net.key, (!(x == n.key)) = true := by
        intro x hx
        have : x ≠ n.key := by intro e; rw [e, ← hk] at hx; exact hnd.1 hx
        simpa using this
      rw [List.filter_eq_self.mpr this]
    · simp only [removeAllowed, ht, if_false, List.map_cons, List.filter, Bool.not_false, Bool.false_eq_true]
      rw [ih hnd.2]

theorem addAllowed_has {rs : List Net} {n : Net} (h : n.key ∈ rs.map Net.key) : addAllowed rs n = rs := by
  unfold addAllowed
  rw [if_pos]
  simp only [List.any_eq_true, beq_iff_eq]
  simpa using h

theorem addAllowed_new {rs : List Net} {n : Net} (h : n.key ∉ rs.map Net.key) : addAllowed rs n = rs ++ [n] := by
  unfold addAllowed
  rw [if_neg]
  simp only [List.any_eq_true, beq_iff_eq, not_exists, not_and]
  intro x hx he
  exact h (by simpa using ⟨x, hx, he⟩)



/-- Invariant tying the handler's allow list to the manager's dynamic routes. `base` = the
    networks the handler was created with (`cfg.Exit.Routes` if the exit is enabled, else none). -/
structure Inv (base : List Net) (s : St) : Prop where
  nodup : (keys s.dyn).Nodup
  disj : ∀ k ∈ keys s.dyn, k ∉ s.cfgKeys
  baseCfg : ∀ b ∈ base, b.key ∈ s.cfgKeys
  keyed : ∀ e ∈ s.dyn, e.1 = e.2.1.key
  mirror : match s.allowed with
    | none => s.dyn = [] ∧ base = []
    | some rs => ∃ tail, rs = base ++ tail ∧ tail.map Net.key = keys s.dyn

def baseOf (exitEnabled : Bool) (cfgNets : List Net) : List Net := if exitEnabled then cfgNets else []

theorem inv_init (exitEnabled : Bool) (cfgNets : List Net) (pats : List Bytes) :
    Inv (baseOf exitEnabled cfgNets) (init exitEnabled cfgNets pats) := by
  unfold init baseOf
  refine ⟨by simp [keys], by simp [keys], ?_, by simp, ?_⟩
  · intro b hb
    cases exitEnabled with
    | false => simp at hb
    | true => simp at hb ⊢; exact ⟨b, hb, rfl⟩
  · cases exitEnabled with
    | false => simp
    | true => simp [keys]

theorem cfgKeys_add (s : St) (n : Net) (m : Nat) : (add s n m).1.cfgKeys = s.cfgKeys := by
  unfold add; dsimp only; split <;> rfl

theorem cfgKeys_remove (s : St) (n : Net) : (remove s n).1.cfgKeys = s.cfgKeys := by
  unfold remove; dsimp only; split <;> rfl

theorem inv_add {base : List Net} {s : St} (h : Inv base s) (n : Net) (m : Nat) : Inv base (add s n m).1 := by
  unfold add
  dsimp only
  split
  · exact h
  · rename_i hcond
    by_cases hhas : dynHas s.dyn n.key = true
    · -- metric update of an existing dynamic route
      have hk := keys_dynSet_has hhas n m
      have hmem : n.key ∈ keys s.dyn := (dynHas_iff _ _).mp hhas
      refine ⟨by dsimp only; rw [hk]; exact h.nodup, by dsimp only; rw [hk]; exact h.disj, h.baseCfg, ?_, ?_⟩
      · dsimp only
        intro e he
        unfold dynSet at he
        rw [if_pos hhas] at he
        simp only [List.mem_map] at he
        obtain ⟨e0, he0, rfl⟩ := he
        by_cases hc : e0.1 == n.key
        · simp [hc]
        · simp [hc]; exact h.keyed e0 he0
      · dsimp only
        have hm := h.mirror
        cases ha : s.allowed with
        | none =>
          rw [ha] at hm
          rw [hm.1] at hmem
          simp [keys] at hmem
        | some rs =>
          rw [ha] at hm
          obtain ⟨tail, hrs, htail⟩ := hm
          have : n.key ∈ rs.map Net.key := by
            rw [hrs, List.map_append, htail]; exact List.mem_append_right _ hmem
          simp only [Option.getD_some]
          rw [addAllowed_has this, hk]
          exact ⟨tail, hrs, htail⟩
    · -- a new dynamic route
      have hk := keys_dynSet_new hhas n m
      have hnot : n.key ∉ keys s.dyn := fun hm => hhas ((dynHas_iff _ _).mpr hm)
      have hcfg : n.key ∉ s.cfgKeys := by
        intro hc
        apply hcond
        exact ⟨by simpa using hc, hhas⟩
      refine ⟨?_, ?_, h.baseCfg, ?_, ?_⟩
      · dsimp only; rw [hk]
        exact List.nodup_append.mpr ⟨h.nodup, by simp, by
          intro a ha b hb; simp at hb; subst hb; intro e; subst e; exact hnot ha⟩
      · dsimp only; rw [hk]
        intro k hkm
        rcases List.mem_append.mp hkm with hkm | hkm
        · exact h.disj k hkm
        · simp at hkm; subst hkm; exact hcfg
      · dsimp only
        intro e he
        unfold dynSet at he
        rw [if_neg hhas] at he
        rcases List.mem_append.mp he with he | he
        · exact h.keyed e he
        · simp at he; subst he; rfl
      · dsimp only
        have hm := h.mirror
        cases ha : s.allowed with
        | none =>
          rw [ha] at hm
          simp only [Option.getD_none]
          rw [hk, hm.2, hm.1]
          exact ⟨[n], by simp [addAllowed], by simp [keys]⟩
        | some rs =>
          rw [ha] at hm
          obtain ⟨tail, hrs, htail⟩ := hm
          have hnew : n.key ∉ rs.map Net.key := by
            rw [hrs, List.map_append, htail]
            intro hmem
            rcases List.mem_append.mp hmem with hmem | hmem
            · simp only [List.mem_map] at hmem
              obtain ⟨b, hb, hbk⟩ := hmem
              exact hcfg (hbk ▸ h.baseCfg b hb)
            · exact hnot hmem
          simp only [Option.getD_some]
          rw [addAllowed_new hnew, hk]
          exact ⟨tail ++ [n], by rw [hrs, List.append_assoc], by simp [htail]⟩



theorem inv_remove {base : List Net} {s : St} (h : Inv base s) (n : Net) : Inv base (remove s n).1 := by
  unfold remove
  dsimp only
  split
  · exact h
  · rename_i hhas
    have hhas' : dynHas s.dyn n.key = true := by simpa using hhas
    have hmem : n.key ∈ keys s.dyn := (dynHas_iff _ _).mp hhas'
    have hk := keys_filter s.dyn n.key
    refine ⟨?_, ?_, h.baseCfg, ?_, ?_⟩
    · dsimp only; rw [hk]; exact h.nodup.filter _
    · dsimp only; rw [hk]
      intro k hkm
      exact h.disj k ((List.mem_filter.mp hkm).1)
    · dsimp only
      intro e he
      exact h.keyed e ((List.mem_filter.mp he).1)
    · dsimp only
      have hm := h.mirror
      cases ha : s.allowed with
      | none =>
        rw [ha] at hm
        rw [hm.1] at hmem
        simp [keys] at hmem
      | some rs =>
        rw [ha] at hm
        obtain ⟨tail, hrs, htail⟩ := hm
        simp only [Option.map_some]
        have hbase : ∀ b ∈ base, b.key ≠ n.key := by
          intro b hb e
          exact h.disj _ hmem (e ▸ h.baseCfg b hb)
        refine ⟨removeAllowed tail n, ?_, ?_⟩
        · rw [hrs, removeAllowed_append_left tail n hbase]
        · rw [removeAllowed_keys tail n (htail ▸ h.nodup), htail, hk]

theorem inv_step {base : List Net} {s : St} (h : Inv base s) (op : Op) : Inv base (step s op) := by
  cases op with
  | add n m => exact inv_add h n m
  | remove n => exact inv_remove h n
  | open_ d => exact h

theorem inv_run {base : List Net} {s : St} (h : Inv base s) (ops : List Op) : Inv base (run s ops) := by
  induction ops generalizing s with
  | nil => exact h
  | cons op ops ih => exact ih (inv_step h op)

end MM.C19
