/-
  Helper lemmas for C38 (StreamIDAllocator): closed form of a run.
-/
import MM.Model.C38
namespace MM.C38

theorem delta_eq : Gen.C38.delta = 2 := by decide
theorem W_eq : W = 18446744073709551616 := by decide

/-- `Add(2) - 2` returns the value before the add (for a counter that fits in 64 bits). -/
theorem next_snd {ctr : Nat} (h : ctr < W) : (next ctr).2 = ctr := by
  unfold next
  rw [delta_eq]
  simp only [W_eq] at *
  omega

theorem next_fst (ctr : Nat) : (next ctr).1 = (ctr + 2) % W := by
  unfold next; rw [delta_eq]

theorem next_fst_lt (ctr : Nat) : (next ctr).1 < W := by
  rw [next_fst]; exact Nat.mod_lt _ (by decide)

/-- Closed form: the k-th step of a run from `c` returns `(c + 2k) mod 2^64`. -/
theorem run_ids (c : Nat) (hc : c < W) (sched : List Nat) :
    (run c sched).map (·.2) = (List.range sched.length).map (fun k => (c + 2 * k) % W) := by
  induction sched generalizing c with
  | nil => rfl
  | cons g rest ih =>
    simp only [run, List.map_cons, List.length_cons, List.range_succ_eq_map, List.map_map]
    rw [next_snd hc, ih _ (next_fst_lt c), next_fst]
    congr 1
    · simp [Nat.mod_eq_of_lt hc]
    · apply List.map_congr_left
      intro k _
      simp only [Function.comp, W_eq]
      omega


theorem start_cases (d : Bool) : start d = 1 ∨ start d = 2 := by
  cases d
  · right; decide
  · left; decide

theorem start_lt (d : Bool) : start d < W := by
  rcases start_cases d with h | h <;> rw [h] <;> decide

/-- Below 2^63 allocations nothing wraps: the ids are `start, start+2, start+4, …` in
    linearisation order. -/
theorem ids_closed (d : Bool) (sched : List Nat) (h : sched.length < 2^63) :
    ids d sched = (List.range sched.length).map (fun k => start d + 2 * k) := by
  unfold ids
  rw [run_ids _ (start_lt d)]
  apply List.map_congr_left
  intro k hk
  have hk' := List.mem_range.mp hk
  apply Nat.mod_eq_of_lt
  rcases start_cases d with hs | hs <;> rw [hs] <;> simp only [W_eq] <;> omega

end MM.C38
