/-
  C01 helper lemmas: case analysis of `encrypt`/`decrypt`, the trace invariant and its preservation.
-/
import MM.Model.C01

namespace MM.C01

/-- Counters strictly decreasing from head to tail (logs are newest-first) and all below `b`. -/
def Desc : Nat → List (Nat × Nat) → Prop
  | _, [] => True
  | b, x :: rest => x.1 < b ∧ Desc x.1 rest

theorem Desc.mono {b b' : Nat} {l : List (Nat × Nat)} (h : b ≤ b') (d : Desc b l) : Desc b' l := by
  cases l with
  | nil => trivial
  | cons x rest => exact ⟨Nat.lt_of_lt_of_le d.1 h, d.2⟩

theorem Desc.lt_of_mem {b : Nat} {l : List (Nat × Nat)} {x : Nat × Nat} (d : Desc b l) (hx : x ∈ l) :
    x.1 < b := by
  induction l generalizing b with
  | nil => cases hx
  | cons y rest ih =>
    cases hx with
    | head => exact d.1
    | tail _ h => exact Nat.lt_trans (ih d.2 h) d.1

theorem Desc.pairwise {b : Nat} {l : List (Nat × Nat)} (d : Desc b l) :
    l.Pairwise (fun x y => y.1 < x.1) := by
  induction l generalizing b with
  | nil => exact List.Pairwise.nil
  | cons y rest ih => exact List.Pairwise.cons (fun z hz => d.2.lt_of_mem hz) (ih d.2)

/-! ### `encrypt` -/

theorem encrypt_cases (s : Sess) (m plen : Nat) (hs : s.send < W) :
    (s.send = maxCtr ∧ encrypt s m plen = (s, none)) ∨
    (s.send + 1 < W ∧ encrypt s m plen =
      ({ s with send := s.send + 1 },
        some { pfx := sendPfx s.isInit, ctr := s.send,
               body := .sealed (sendPfx s.isInit) s.send m, len := overhead + plen })) := by
  unfold encrypt
  by_cases h : s.send = maxCtr
  · left; simp [h]
  · right
    have hlt : s.send + 1 < W := by unfold W maxCtr at *; omega
    refine ⟨hlt, ?_⟩
    simp [h, Nat.mod_eq_of_lt hlt]

/-! ### `decrypt` -/

theorem aeadOpen_some {p : Packet} {m : Nat} (h : aeadOpen p = some m) :
    p.body = .sealed p.pfx p.ctr m := by
  unfold aeadOpen at h
  split at h
  · rename_i q c m' hb
    split at h
    · rename_i hc
      injection h with h
      rw [hb, hc.1, hc.2, h]
    · cases h
  · cases h

theorem decrypt_acc {s s' : Sess} {p : Packet} {c m : Nat} (h : decrypt s p = (s', .acc c m)) :
    overhead ≤ p.len ∧ p.pfx = recvPfx s.isInit ∧ s.recv ≤ p.ctr ∧ p.ctr ≠ maxCtr ∧
    aeadOpen p = some m ∧ c = p.ctr ∧ s' = { s with recv := (p.ctr + 1) % W } := by
  unfold decrypt at h
  by_cases h1 : p.len < overhead
  · rw [if_pos h1] at h; cases h
  rw [if_neg h1] at h
  by_cases h2 : p.pfx ≠ recvPfx s.isInit
  · rw [if_pos h2] at h; cases h
  rw [if_neg h2] at h
  by_cases h3 : p.ctr < s.recv
  · rw [if_pos h3] at h; cases h
  rw [if_neg h3] at h
  by_cases h4 : p.ctr = maxCtr
  · rw [if_pos h4] at h; cases h
  rw [if_neg h4] at h
  cases hm : aeadOpen p with
  | none => rw [hm] at h; cases h
  | some m' =>
    rw [hm] at h
    injection h with hs hr
    injection hr with hc hm'
    exact ⟨by omega, Decidable.of_not_not h2, by omega, h4, by rw [hm'], hc.symm, hs.symm⟩

theorem decrypt_rej {s s' : Sess} {p : Packet} {r : Res} (h : decrypt s p = (s', r))
    (hr : r.isAcc = false) : s' = s := by
  unfold decrypt at h
  split at h
  · injection h with hs _; exact hs.symm
  · split at h
    · injection h with hs _; exact hs.symm
    · split at h
      · injection h with hs _; exact hs.symm
      · split at h
        · injection h with hs _; exact hs.symm
        · split at h
          · injection h with hs _; exact hs.symm
          · injection h with _ hr'
            rw [← hr'] at hr
            cases hr

/-! ### the invariant -/

structure Inv (st : St) : Prop where
  iInit : st.i.isInit = true
  rInit : st.r.isInit = false
  iSend : st.i.send < W
  rSend : st.r.send < W
  iRecv : st.i.recv < W
  rRecv : st.r.recv < W
  sentI : Desc st.i.send st.sentI
  sentR : Desc st.r.send st.sentR
  accI : Desc st.i.recv st.accI
  accR : Desc st.r.recv st.accR
  authI : ∀ x ∈ st.accI, x ∈ st.sentR
  authR : ∀ x ∈ st.accR, x ∈ st.sentI

theorem inv_init : Inv init := by
  refine ⟨rfl, rfl, ?_, ?_, ?_, ?_, trivial, trivial, trivial, trivial, ?_, ?_⟩ <;>
    first | (show 0 < W; unfold W; omega) | (intro x hx; cases hx)

/-- A sealed body with the responder's prefix on the wire was sealed by the responder. -/
theorem sealed_from_R {st : St} {c m : Nat}
    (h : Body.sealed (sendPfx false) c m ∈ st.sealedBodies) : (c, m) ∈ st.sentR := by
  unfold St.sealedBodies at h
  rcases List.mem_append.mp h with h | h
  · rcases List.mem_map.mp h with ⟨x, _, hx⟩
    injection hx with hp _ _
    simp [sendPfx] at hp
  · rcases List.mem_map.mp h with ⟨x, hx, hb⟩
    injection hb with _ hc hm
    have : x = (c, m) := by cases x; simp_all
    rw [← this]; exact hx

/-- A sealed body with the initiator's prefix on the wire was sealed by the initiator. -/
theorem sealed_from_I {st : St} {c m : Nat}
    (h : Body.sealed (sendPfx true) c m ∈ st.sealedBodies) : (c, m) ∈ st.sentI := by
  unfold St.sealedBodies at h
  rcases List.mem_append.mp h with h | h
  · rcases List.mem_map.mp h with ⟨x, hx, hb⟩
    injection hb with _ hc hm
    have : x = (c, m) := by cases x; simp_all
    rw [← this]; exact hx
  · rcases List.mem_map.mp h with ⟨x, _, hx⟩
    injection hx with hp _ _
    simp [sendPfx] at hp

theorem admissiblePkt_spec {st : St} {p : Packet} (h : admissiblePkt st p = true) :
    p.ctr < W ∧ p.pfx < 4294967296 ∧ (p.body = .junk ∨ p.body ∈ st.sealedBodies) := by
  unfold admissiblePkt at h
  simp only [Bool.and_eq_true, Bool.or_eq_true, decide_eq_true_eq, beq_iff_eq,
    List.contains_iff_mem] at h
  exact ⟨h.1.1, h.1.2, h.2⟩

/-- An accepted delivery at the initiator: the pair was sealed by the responder BEFORE this step,
    and the counter is not below the receive counter. -/
theorem accept_at_I {st : St} {p : Packet} {s' : Sess} {c m : Nat} (hi : st.i.isInit = true)
    (ha : admissiblePkt st p = true) (h : decrypt st.i p = (s', .acc c m)) :
    (c, m) ∈ st.sentR ∧ st.i.recv ≤ c ∧ c + 1 < W ∧ s' = { st.i with recv := c + 1 } := by
  obtain ⟨_, hp, hge, hmax, hopen, hc, hs⟩ := decrypt_acc h
  obtain ⟨hw, _, hb⟩ := admissiblePkt_spec ha
  have hbody := aeadOpen_some hopen
  have hlt : p.ctr + 1 < W := by unfold W maxCtr at *; omega
  subst hc
  refine ⟨?_, hge, hlt, ?_⟩
  · rcases hb with hb | hb
    · rw [hbody] at hb; cases hb
    · rw [hbody, hp, hi] at hb
      exact sealed_from_R hb
  · rw [hs, Nat.mod_eq_of_lt hlt]

theorem accept_at_R {st : St} {p : Packet} {s' : Sess} {c m : Nat} (hr : st.r.isInit = false)
    (ha : admissiblePkt st p = true) (h : decrypt st.r p = (s', .acc c m)) :
    (c, m) ∈ st.sentI ∧ st.r.recv ≤ c ∧ c + 1 < W ∧ s' = { st.r with recv := c + 1 } := by
  obtain ⟨_, hp, hge, hmax, hopen, hc, hs⟩ := decrypt_acc h
  obtain ⟨hw, _, hb⟩ := admissiblePkt_spec ha
  have hbody := aeadOpen_some hopen
  have hlt : p.ctr + 1 < W := by unfold W maxCtr at *; omega
  subst hc
  refine ⟨?_, hge, hlt, ?_⟩
  · rcases hb with hb | hb
    · rw [hbody] at hb; cases hb
    · rw [hbody, hp, hr] at hb
      exact sealed_from_I hb
  · rw [hs, Nat.mod_eq_of_lt hlt]

theorem inv_step {st : St} (inv : Inv st) (op : Op) (ha : admissible st op = true) :
    Inv (step st op).1 := by
  cases op with
  | encI m plen =>
    rcases encrypt_cases st.i m plen inv.iSend with ⟨_, he⟩ | ⟨hlt, he⟩
    · simp only [step, he]; exact { inv with }
    · simp only [step, he]
      exact { inv with
        iSend := hlt
        sentI := ⟨Nat.lt_succ_self _, inv.sentI⟩
        authR := fun x hx => List.mem_cons_of_mem _ (inv.authR x hx) }
  | encR m plen =>
    rcases encrypt_cases st.r m plen inv.rSend with ⟨_, he⟩ | ⟨hlt, he⟩
    · simp only [step, he]; exact { inv with }
    · simp only [step, he]
      exact { inv with
        rSend := hlt
        sentR := ⟨Nat.lt_succ_self _, inv.sentR⟩
        authI := fun x hx => List.mem_cons_of_mem _ (inv.authI x hx) }
  | delI p =>
    simp only [admissible] at ha
    rcases hd : decrypt st.i p with ⟨s', r⟩
    cases r with
    | acc c m =>
      obtain ⟨hmem, hge, hlt, hs⟩ := accept_at_I inv.iInit ha hd
      simp only [step, hd]
      subst hs
      exact { inv with
        iRecv := hlt
        accI := ⟨Nat.lt_succ_self _, inv.accI.mono hge⟩
        authI := fun x hx => by
          rcases List.mem_cons.mp hx with rfl | hx
          · exact hmem
          · exact inv.authI x hx }
    | _ =>
      have := decrypt_rej hd rfl
      subst this
      simp only [step, hd]; exact { inv with }
  | delR p =>
    simp only [admissible] at ha
    rcases hd : decrypt st.r p with ⟨s', r⟩
    cases r with
    | acc c m =>
      obtain ⟨hmem, hge, hlt, hs⟩ := accept_at_R inv.rInit ha hd
      simp only [step, hd]
      subst hs
      exact { inv with
        rRecv := hlt
        accR := ⟨Nat.lt_succ_self _, inv.accR.mono hge⟩
        authR := fun x hx => by
          rcases List.mem_cons.mp hx with rfl | hx
          · exact hmem
          · exact inv.authR x hx }
    | _ =>
      have := decrypt_rej hd rfl
      subst this
      simp only [step, hd]; exact { inv with }

theorem inv_exec {st st' : St} (inv : Inv st) (tr : List Op) (h : exec st tr = some st') : Inv st' := by
  induction tr generalizing st with
  | nil => simp only [exec] at h; injection h with h; rw [← h]; exact inv
  | cons op rest ih =>
    simp only [exec] at h
    split at h
    · rename_i ha; exact ih (inv_step inv op ha) h
    · cases h

end MM.C01
