/-
  Helper lemmas for C33 (core Lean only): floor division out of Go's truncating `/` and `%`,
  bounds of the clamped window length and of the per-agent offset, and the closed form of
  `cycleStart` / `nextWindow` on valid inputs.
-/
import MM.Model.C33

namespace MM.C33

/-- The fixed `cycleStart` computes the floor quotient: `q*C ≤ a < q*C + C`. -/
theorem floor_spec (a C : Int) (hC : 0 < C) :
    (if Int.tmod a C < 0 then Int.tdiv a C - 1 else Int.tdiv a C) * C ≤ a ∧
    a < (if Int.tmod a C < 0 then Int.tdiv a C - 1 else Int.tdiv a C) * C + C := by
  have h := Int.mul_tdiv_add_tmod a C
  have h1 := Int.tmod_lt_of_pos a hC
  have h2 := Int.lt_tmod_of_pos a hC
  rw [Int.mul_comm] at h
  by_cases hr : Int.tmod a C < 0
  · rw [if_pos hr, Int.sub_mul, Int.one_mul]
    generalize Int.tdiv a C * C = p at *
    generalize Int.tmod a C = r at *
    omega
  · rw [if_neg hr]
    generalize Int.tdiv a C * C = p at *
    generalize Int.tmod a C = r at *
    omega

/-- The floor quotient is unique. -/
theorem floor_unique {a C q q' : Int} (hC : 0 < C)
    (h1 : q * C ≤ a) (h2 : a < q * C + C) (h1' : q' * C ≤ a) (h2' : a < q' * C + C) : q = q' := by
  rcases Int.lt_trichotomy q q' with h | h | h
  · have : (q + 1) * C ≤ q' * C := Int.mul_le_mul_of_nonneg_right (by omega) (by omega)
    rw [Int.add_mul, Int.one_mul] at this
    omega
  · exact h
  · have : (q' + 1) * C ≤ q * C := Int.mul_le_mul_of_nonneg_right (by omega) (by omega)
    rw [Int.add_mul, Int.one_mul] at this
    omega

theorem mul_mono_right {j k C : Int} (hC : 0 < C) (h : j ≤ k) : j * C ≤ k * C :=
  Int.mul_le_mul_of_nonneg_right h (by omega)

theorem effW_bounds (c : Cfg) (hC : 0 < c.C) (hW : 0 ≤ c.W) : 0 ≤ effW c ∧ effW c < c.C := by
  unfold effW
  by_cases h : c.W ≥ c.C
  · rw [if_pos h, Int.tdiv_eq_ediv_of_nonneg (by omega)]
    omega
  · rw [if_neg h]; omega

theorem offset_bounds (c : Cfg) (seed : Nat) (hC : 0 < c.C) (hC63 : c.C < 2^63) (hW : 0 ≤ c.W) :
    0 ≤ offset c seed ∧ offset c seed + effW c < c.C := by
  have ⟨hw0, hw1⟩ := effW_bounds c hC hW
  unfold offset
  dsimp only
  rw [if_neg (by omega)]
  have hm : (c.C - effW c).toNat % 2^64 = (c.C - effW c).toNat := Nat.mod_eq_of_lt (by omega)
  rw [hm]
  have hpos : 0 < (c.C - effW c).toNat := by omega
  have := Nat.mod_lt seed hpos
  omega

theorem wrap64_id {x : Int} (h1 : -(2^63) ≤ x) (h2 : x < 2^63) : wrap64 x = x := by
  unfold wrap64; omega

theorem sub_id {a b : Int} (h1 : -(2^63) ≤ a - b) (h2 : a - b < 2^63) : sub a b = a - b := by
  unfold sub minDur maxDur
  dsimp only
  rw [if_neg (by omega), if_neg (by omega)]

/-- Closed form of the fixed `cycleStart` on valid inputs: the start of the cycle containing `t`. -/
theorem cycleStart_spec (c : Cfg) (t : Int) (hC : 0 < c.C)
    (hlo : -(2^63) + c.C ≤ t - effEpoch c) (hhi : t - effEpoch c < 2^63) :
    ∃ q : Int, cycleStart c t = effEpoch c + q * c.C ∧
      effEpoch c + q * c.C ≤ t ∧ t < effEpoch c + q * c.C + c.C := by
  have hs : sub t (effEpoch c) = t - effEpoch c := sub_id (by omega) hhi
  have hf := floor_spec (t - effEpoch c) c.C hC
  refine ⟨if Int.tmod (t - effEpoch c) c.C < 0 then Int.tdiv (t - effEpoch c) c.C - 1
          else Int.tdiv (t - effEpoch c) c.C, ?_, ?_, ?_⟩
  · unfold cycleStart
    dsimp only
    rw [hs]
    generalize (if Int.tmod (t - effEpoch c) c.C < 0 then Int.tdiv (t - effEpoch c) c.C - 1
          else Int.tdiv (t - effEpoch c) c.C) = q at *
    rw [wrap64_id (by omega) (by omega)]
  · omega
  · omega

end MM.C33
