import MM.Model.C27

namespace MM.C27

end MM.C27
