import MM.Model.C27

namespace MM.C27

/-! ### the flat map -/

theorem lookup_nil (fs : FS) : fs.lookup [] = some .dir := by simp [FS.lookup]

theorem find_filter_ne' {α β : Type} [DecidableEq α] {l : List (α × β)} {p q : α} (h : q ≠ p) :
    (l.filter (fun e => e.1 ≠ p)).find? (fun e => e.1 = q) = l.find? (fun e => e.1 = q) := by
  induction l with
  | nil => rfl
  | cons e es ih =>
    by_cases hp : e.1 = p
    · have hq : e.1 ≠ q := fun hh => h (hh ▸ hp)
      rw [List.filter_cons_of_neg (by simpa using hp), List.find?_cons_of_neg (by simpa using hq)]
      exact ih
    · rw [List.filter_cons_of_pos (by simpa using hp)]
      by_cases hq : e.1 = q
      · rw [List.find?_cons_of_pos (by simpa using hq), List.find?_cons_of_pos (by simpa using hq)]
      · rw [List.find?_cons_of_neg (by simpa using hq), List.find?_cons_of_neg (by simpa using hq)]
        exact ih

theorem find_filter_ne {l : List (Path × Kind)} {p q : Path} (h : q ≠ p) :
    (l.filter (fun e => e.1 ≠ p)).find? (fun e => e.1 = q) = l.find? (fun e => e.1 = q) :=
  find_filter_ne' h

theorem lookup_set (fs : FS) {p : Path} (k : Kind) (q : Path) (hp : p ≠ []) :
    (fs.set p k).lookup q = if q = p then some k else fs.lookup q := by
  unfold FS.lookup FS.set
  by_cases hq : q = []
  · subst hq
    have : ([] : Path) ≠ p := fun h => hp h.symm
    simp [this]
  · by_cases hqp : q = p
    · subst hqp; simp [hq, List.find?_cons]
    · have hpq : ¬ p = q := fun h => hqp h.symm
      simp only [hq, if_false, hqp, List.find?_cons, hpq, decide_false]
      rw [find_filter_ne hqp]

theorem lookup_del (fs : FS) {p : Path} (q : Path) (hp : p ≠ []) :
    (fs.del p).lookup q = if q = p then none else fs.lookup q := by
  unfold FS.lookup FS.del
  by_cases hq : q = []
  · subst hq
    have : ([] : Path) ≠ p := fun h => hp h.symm
    simp [this]
  · by_cases hqp : q = p
    · subst hqp
      simp only [hq, if_false, if_true]
      have : (fs.ents.filter (fun e => e.1 ≠ q)).find? (fun e => e.1 = q) = none := by
        apply List.find?_eq_none.mpr
        intro e he
        have := (List.mem_filter.mp he).2
        simpa using this
      rw [this]; rfl
    · simp only [hq, if_false, hqp]
      rw [find_filter_ne hqp]

@[simp] theorem lookup_setData (fs : FS) (i c : Nat) (q : Path) :
    (fs.setData i c).lookup q = fs.lookup q := rfl

@[simp] theorem lookup_withNext (fs : FS) (n : Nat) (q : Path) :
    ({ fs with next := n } : FS).lookup q = fs.lookup q := rfl

@[simp] theorem content_set (fs : FS) (p : Path) (k : Kind) (i : Nat) :
    (fs.set p k).content i = fs.content i := rfl

@[simp] theorem content_del (fs : FS) (p : Path) (i : Nat) : (fs.del p).content i = fs.content i := rfl

@[simp] theorem content_withNext (fs : FS) (n : Nat) (i : Nat) :
    ({ fs with next := n } : FS).content i = fs.content i := rfl

theorem find_filter_ne_data {l : List (Nat × Nat)} {p q : Nat} (h : q ≠ p) :
    (l.filter (fun e => e.1 ≠ p)).find? (fun e => e.1 = q) = l.find? (fun e => e.1 = q) :=
  find_filter_ne' h

theorem content_setData (fs : FS) (i c j : Nat) :
    (fs.setData i c).content j = if j = i then some c else fs.content j := by
  unfold FS.content FS.setData
  by_cases h : j = i
  · subst h; simp [List.find?_cons]
  · have h' : ¬ i = j := fun e => h e.symm
    simp only [h, if_false, List.find?_cons, h', decide_false]
    rw [find_filter_ne_data h]

/-! ### lexical resolution -/

def NoSymAt (fs : FS) (p : Path) : Prop := ∀ t, fs.lookup p ≠ some (.sym t)

/-- the first `m` components of `P` (as prefixes of `P`) are not symbolic links -/
def Clear (fs : FS) (P : Path) (m : Nat) : Prop := ∀ j, j < m → NoSymAt fs (P.take (j + 1))

def NoDD (l : List Name) : Prop := ∀ n ∈ l, n ≠ dd

/-- what `walk` returns when no symbolic link is met: the lexical lookup -/
def lexRes (fs : FS) (follow : Bool) : Path → List Name → Res
  | cur, [] => .found cur .dir
  | cur, n :: rest =>
    match fs.lookup (cur ++ [n]) with
    | none => if rest = [] then .missing cur n else .err
    | some .dir => lexRes fs follow (cur ++ [n]) rest
    | some (.file i) => if rest = [] then .found (cur ++ [n]) (.file i) else .err
    | some (.sym t) => if rest = [] ∧ follow = false then .found (cur ++ [n]) (.sym t) else .err

theorem walkAux_lex (fs : FS) (follow : Bool) (k : Path → List Name → Res) :
    ∀ (todo : List Name) (cur : Path), NoDD todo →
      (∀ j, j < todo.length → NoSymAt fs (cur ++ todo.take (j + 1)) ∨ (j + 1 = todo.length ∧ follow = false)) →
      walkAux fs follow k cur todo = lexRes fs follow cur todo := by
  intro todo
  induction todo with
  | nil => intro cur _ _; rfl
  | cons n rest ih =>
    intro cur hdd hclear
    have hn : n ≠ dd := hdd n (List.mem_cons_self ..)
    have hrest : NoDD rest := fun x hx => hdd x (List.mem_cons_of_mem _ hx)
    unfold walkAux lexRes
    rw [if_neg hn]
    cases hl : fs.lookup (cur ++ [n]) with
    | none => rfl
    | some kd =>
      cases kd with
      | dir =>
        simp only
        apply ih (cur ++ [n]) hrest
        intro j hj
        have := hclear (j + 1) (by simp; omega)
        simpa [List.take_succ_cons, List.append_assoc] using this
      | file i => rfl
      | sym t =>
        simp only
        have h0 := hclear 0 (by simp)
        rcases h0 with h0 | ⟨hlen, hf⟩
        · exact absurd hl (by simpa using h0 t)
        · have hre : rest = [] := by
            simp at hlen; exact hlen
          simp [hre, hf]

theorem walk_lex (fs : FS) (follow : Bool) (fu : Nat) (cur : Path) (todo : List Name) (hdd : NoDD todo)
    (h : ∀ j, j < todo.length → NoSymAt fs (cur ++ todo.take (j + 1)) ∨ (j + 1 = todo.length ∧ follow = false)) :
    walk fs follow fu cur todo = lexRes fs follow cur todo := by
  cases fu with
  | zero => exact walkAux_lex fs follow _ todo cur hdd h
  | succ f => exact walkAux_lex fs follow _ todo cur hdd h

theorem lstat_lex {fs : FS} {fu : Nat} {P : Path} (hdd : NoDD P) (h : Clear fs P (P.length - 1)) :
    lstat fs fu P = lexRes fs false [] P := by
  unfold lstat
  apply walk_lex _ _ _ _ _ hdd
  intro j hj
  by_cases hlast : j + 1 = P.length
  · exact Or.inr ⟨hlast, rfl⟩
  · left; simpa using h j (by omega)

theorem stat_lex {fs : FS} {fu : Nat} {P : Path} (hdd : NoDD P) (h : Clear fs P P.length) :
    stat fs fu P = lexRes fs true [] P := by
  unfold stat
  apply walk_lex _ _ _ _ _ hdd
  intro j hj
  left; simpa using h j hj

/-- Shape of a lexical result. -/
theorem lexRes_found {fs : FS} {fl : Bool} : ∀ {todo : List Name} {cur p : Path} {k : Kind},
    lexRes fs fl cur todo = .found p k →
      p = cur ++ todo ∧ (todo ≠ [] → fs.lookup p = some k) ∧ (todo = [] → k = .dir) := by
  intro todo
  induction todo with
  | nil =>
    intro cur p k h
    unfold lexRes at h
    cases h
    simp
  | cons n rest ih =>
    intro cur p k h
    unfold lexRes at h
    cases hl : fs.lookup (cur ++ [n]) with
    | none => rw [hl] at h; simp only at h; split at h <;> cases h
    | some kd =>
      rw [hl] at h
      cases kd with
      | dir =>
        simp only at h
        have ⟨h1, h2, h3⟩ := ih h
        refine ⟨by rw [h1]; simp, fun _ => ?_, fun hn => by cases hn⟩
        by_cases hr : rest = []
        · subst hr
          have := h3 rfl
          subst this
          rw [h1]; simpa using hl
        · exact h2 hr
      | file i =>
        simp only at h
        split at h
        · rename_i hr
          cases h
          subst hr
          exact ⟨rfl, fun _ => hl, fun hn => by cases hn⟩
        · cases h
      | sym t =>
        simp only at h
        split at h
        · rename_i hr
          cases h
          have := hr.1
          subst this
          exact ⟨rfl, fun _ => hl, fun hn => by cases hn⟩
        · cases h

theorem lexRes_missing {fs : FS} {fl : Bool} : ∀ {todo : List Name} {cur par : Path} {n : Name},
    lexRes fs fl cur todo = .missing par n →
      par ++ [n] = cur ++ todo ∧ fs.lookup (cur ++ todo) = none ∧ (par = cur ∨ fs.lookup par = some .dir) := by
  intro todo
  induction todo with
  | nil => intro cur par n h; unfold lexRes at h; cases h
  | cons m rest ih =>
    intro cur par n h
    unfold lexRes at h
    cases hl : fs.lookup (cur ++ [m]) with
    | none =>
      rw [hl] at h
      simp only at h
      split at h
      · rename_i hr
        cases h
        subst hr
        exact ⟨rfl, hl, Or.inl rfl⟩
      · cases h
    | some kd =>
      rw [hl] at h
      cases kd with
      | dir =>
        simp only at h
        have ⟨h1, h2, h3⟩ := ih h
        refine ⟨by rw [h1]; simp, by simpa using h2, ?_⟩
        rcases h3 with h3 | h3
        · right; rw [h3]; exact hl
        · exact Or.inr h3
      | file i => simp only at h; split at h <;> cases h
      | sym t => simp only at h; split at h <;> cases h

end MM.C27

namespace MM.C27

/-! ### invariants and safe mutations -/

/-- strictly below the destination -/
def Under (dest q : Path) : Prop := dest <+: q ∧ q ≠ dest

theorem Under.ne_nil {dest q : Path} (h : Under dest q) : q ≠ [] := by
  intro hq
  subst hq
  have : dest = [] := List.prefix_nil.mp h.1
  exact h.2 this.symm

theorem Under.length_lt {dest q : Path} (h : Under dest q) : dest.length < q.length := by
  have hle := h.1.length_le
  rcases Nat.lt_or_eq_of_le hle with hl | he
  · exact hl
  · exact absurd (h.1.eq_of_length he).symm h.2

theorem Under.ne_take {dest q : Path} (h : Under dest q) (j : Nat) : q ≠ dest.take j := by
  intro he
  have := h.length_lt
  rw [he] at this
  simp at this
  omega

structure Inv (dest : Path) (fs : FS) : Prop where
  wf : ∀ p k, p ≠ [] → fs.lookup p = some k → fs.lookup p.dropLast = some .dir
  fresh : ∀ p i, fs.lookup p = some (.file i) → i < fs.next
  sep : ∀ p q i, fs.lookup p = some (.file i) → fs.lookup q = some (.file i) → Under dest p → Under dest q
  phys : ∀ j, j < dest.length → fs.lookup (dest.take (j + 1)) = some .dir

/-- `fs'` differs from `fs` only strictly below `dest`, inode contents change only for inodes
    that were linked below `dest` (or are new), and the invariants survive. -/
structure Safe (dest : Path) (fs fs' : FS) : Prop where
  look : ∀ q, ¬ Under dest q → fs'.lookup q = fs.lookup q
  data : ∀ i, fs'.content i ≠ fs.content i → (∃ q, Under dest q ∧ fs.lookup q = some (.file i)) ∨ fs.next ≤ i
  prov : ∀ q i, Under dest q → fs'.lookup q = some (.file i) →
    (∃ q', Under dest q' ∧ fs.lookup q' = some (.file i)) ∨ fs.next ≤ i
  next : fs.next ≤ fs'.next
  inv : Inv dest fs → Inv dest fs'

theorem Safe.refl (dest : Path) (fs : FS) : Safe dest fs fs :=
  ⟨fun _ _ => rfl, fun _ h => absurd rfl h, fun q i hq h => Or.inl ⟨q, hq, h⟩, Nat.le_refl _, id⟩

theorem Safe.trans {dest : Path} {a b c : FS} (h1 : Safe dest a b) (h2 : Safe dest b c) : Safe dest a c := by
  refine ⟨fun q hq => (h2.look q hq).trans (h1.look q hq), ?_, ?_, Nat.le_trans h1.next h2.next,
    fun hi => h2.inv (h1.inv hi)⟩
  · intro i hne
    by_cases hb : b.content i = a.content i
    · have : c.content i ≠ b.content i := by rw [hb]; exact hne
      rcases h2.data i this with ⟨q, hq, hl⟩ | hn
      · exact h1.prov q i hq hl
      · exact Or.inr (Nat.le_trans h1.next hn)
    · exact h1.data i hb
  · intro q i hq hl
    rcases h2.prov q i hq hl with ⟨q', hq', hl'⟩ | hn
    · exact h1.prov q' i hq' hl'
    · exact Or.inr (Nat.le_trans h1.next hn)

/-- no symbolic link appears that was not there -/
def NoNewSym (fs fs' : FS) : Prop := ∀ q t, fs'.lookup q = some (.sym t) → fs.lookup q = some (.sym t)

theorem NoNewSym.refl (fs : FS) : NoNewSym fs fs := fun _ _ h => h
theorem NoNewSym.trans {a b c : FS} (h1 : NoNewSym a b) (h2 : NoNewSym b c) : NoNewSym a c :=
  fun q t h => h1 q t (h2 q t h)

theorem Clear.mono {fs fs' : FS} {P : Path} {m : Nat} (h : Clear fs P m) (hn : NoNewSym fs fs') :
    Clear fs' P m := fun j hj t hl => h j hj t (hn _ t hl)

theorem Clear.le {fs : FS} {P : Path} {m m' : Nat} (h : Clear fs P m) (hle : m' ≤ m) : Clear fs P m' :=
  fun j hj => h j (by omega)

/-- Setting a new entry (not a directory-with-children issue: the slot was empty, its parent is a
    directory) strictly below `dest`. `hk` says where a file's inode comes from. -/
theorem safe_set {dest : Path} {fs : FS} {q : Path} {k : Kind} (hq : Under dest q)
    (hnone : fs.lookup q = none) (hpar : fs.lookup q.dropLast = some .dir)
    (hk : ∀ i, k = .file i → ∃ src, Under dest src ∧ fs.lookup src = some (.file i)) :
    Safe dest fs (fs.set q k) := by
  have hq0 := hq.ne_nil
  refine ⟨?_, ?_, ?_, Nat.le_refl _, ?_⟩
  · intro p hp
    rw [lookup_set fs k p hq0]
    have : p ≠ q := fun h => hp (h ▸ hq)
    simp [this]
  · intro i hne; exact absurd rfl hne
  · intro p i hp hl
    rw [lookup_set fs k p hq0] at hl
    split at hl
    · cases hl
      obtain ⟨src, hs, hl⟩ := hk i rfl
      exact Or.inl ⟨src, hs, hl⟩
    · exact Or.inl ⟨p, hp, hl⟩
  · intro hi
    refine ⟨?_, ?_, ?_, ?_⟩
    · intro p k' hp0 hl
      rw [lookup_set fs k p hq0] at hl
      rw [lookup_set fs k _ hq0]
      by_cases hpq : p = q
      · subst hpq
        have : p.dropLast ≠ p := by
          intro h
          have := congrArg List.length h
          simp at this
          have := List.length_pos_iff.mpr hp0
          omega
        simp [this, hpar]
      · simp only [hpq, if_false] at hl
        have hd := hi.wf p k' hp0 hl
        by_cases hpd : p.dropLast = q
        · rw [hpd] at hd; rw [hnone] at hd; cases hd
        · simp [hpd, hd]
    · intro p i hl
      rw [lookup_set fs k p hq0] at hl
      split at hl
      · cases hl
        obtain ⟨src, _, hls⟩ := hk i rfl
        exact hi.fresh src i hls
      · exact hi.fresh p i hl
    · intro p p' i hl hl' hu
      rw [lookup_set fs k p hq0] at hl
      rw [lookup_set fs k p' hq0] at hl'
      by_cases hp' : p' = q
      · subst hp'; exact hq
      · simp only [hp', if_false] at hl'
        by_cases hp : p = q
        · subst hp
          simp only [if_true] at hl
          cases hl
          obtain ⟨src, hs, hls⟩ := hk i rfl
          exact hi.sep src p' i hls hl' hs
        · simp only [hp, if_false] at hl
          exact hi.sep p p' i hl hl' hu
    · intro j hj
      rw [lookup_set fs k _ hq0]
      have : dest.take (j + 1) ≠ q := fun h => hq.ne_take (j + 1) h.symm
      simp [this, hi.phys j hj]

theorem noNewSym_set {fs : FS} {q : Path} {k : Kind} (hq0 : q ≠ []) (hk : ∀ t, k ≠ .sym t) :
    NoNewSym fs (fs.set q k) := by
  intro p t hl
  rw [lookup_set fs k p hq0] at hl
  split at hl
  · cases hl; exact absurd rfl (hk t)
  · exact hl

/-- Creating a regular file with a fresh inode strictly below `dest`. -/
theorem safe_newFile {dest : Path} {fs : FS} {q : Path} (c : Nat) (hq : Under dest q)
    (hnone : fs.lookup q = none) (hpar : fs.lookup q.dropLast = some .dir) :
    Safe dest fs ((({ fs with next := fs.next + 1 } : FS).setData fs.next c).set q (.file fs.next)) := by
  have hq0 := hq.ne_nil
  refine ⟨?_, ?_, ?_, ?_, ?_⟩
  · intro p hp
    rw [lookup_set _ _ p hq0]
    have : p ≠ q := fun h => hp (h ▸ hq)
    simp [this]
  · intro i hne
    simp only [content_set] at hne
    rw [content_setData] at hne
    split at hne
    · rename_i h; right; rw [h]; exact Nat.le_refl _
    · exact absurd rfl hne
  · intro p i hp hl
    rw [lookup_set _ _ p hq0] at hl
    split at hl
    · cases hl; exact Or.inr (Nat.le_refl _)
    · exact Or.inl ⟨p, hp, hl⟩
  · show fs.next ≤ fs.next + 1; omega
  · intro hi
    refine ⟨?_, ?_, ?_, ?_⟩
    · intro p k' hp0 hl
      rw [lookup_set _ _ p hq0] at hl
      rw [lookup_set _ _ _ hq0]
      by_cases hpq : p = q
      · subst hpq
        have : p.dropLast ≠ p := by
          intro h
          have := congrArg List.length h
          simp at this
          have := List.length_pos_iff.mpr hp0
          omega
        simp [this, hpar]
      · simp only [hpq, if_false, lookup_setData, lookup_withNext] at hl
        have hd := hi.wf p k' hp0 hl
        by_cases hpd : p.dropLast = q
        · rw [hpd] at hd; rw [hnone] at hd; cases hd
        · simp [hpd, hd]
    · intro p i hl
      show i < fs.next + 1
      rw [lookup_set _ _ p hq0] at hl
      split at hl
      · cases hl; omega
      · have := hi.fresh p i hl; omega
    · intro p p' i hl hl' hu
      rw [lookup_set _ _ p hq0] at hl
      rw [lookup_set _ _ p' hq0] at hl'
      by_cases hp' : p' = q
      · subst hp'; exact hq
      · simp only [hp', if_false, lookup_setData, lookup_withNext] at hl'
        by_cases hp : p = q
        · subst hp
          simp only [if_true] at hl
          cases hl
          exact absurd (hi.fresh p' _ hl') (Nat.lt_irrefl _)
        · simp only [hp, if_false, lookup_setData, lookup_withNext] at hl
          exact hi.sep p p' i hl hl' hu
    · intro j hj
      rw [lookup_set _ _ _ hq0]
      have : dest.take (j + 1) ≠ q := fun h => hq.ne_take (j + 1) h.symm
      simp [this, hi.phys j hj]

/-- Removing an entry without children strictly below `dest`. -/
theorem safe_del {dest : Path} {fs : FS} {q : Path} (hq : Under dest q)
    (hleaf : ∀ p, p ≠ [] → p.dropLast = q → fs.lookup p = none) : Safe dest fs (fs.del q) := by
  have hq0 := hq.ne_nil
  refine ⟨?_, ?_, ?_, Nat.le_refl _, ?_⟩
  · intro p hp
    rw [lookup_del fs p hq0]
    have : p ≠ q := fun h => hp (h ▸ hq)
    simp [this]
  · intro i hne; exact absurd rfl hne
  · intro p i hp hl
    rw [lookup_del fs p hq0] at hl
    split at hl
    · cases hl
    · exact Or.inl ⟨p, hp, hl⟩
  · intro hi
    refine ⟨?_, ?_, ?_, ?_⟩
    · intro p k' hp0 hl
      rw [lookup_del fs p hq0] at hl
      rw [lookup_del fs _ hq0]
      split at hl
      · cases hl
      · have hd := hi.wf p k' hp0 hl
        by_cases hpd : p.dropLast = q
        · rw [hleaf p hp0 hpd] at hl; cases hl
        · simp [hpd, hd]
    · intro p i hl
      rw [lookup_del fs p hq0] at hl
      split at hl
      · cases hl
      · exact hi.fresh p i hl
    · intro p p' i hl hl' hu
      rw [lookup_del fs p hq0] at hl
      rw [lookup_del fs p' hq0] at hl'
      split at hl
      · cases hl
      · split at hl'
        · cases hl'
        · exact hi.sep p p' i hl hl' hu
    · intro j hj
      rw [lookup_del fs _ hq0]
      have : dest.take (j + 1) ≠ q := fun h => hq.ne_take (j + 1) h.symm
      simp [this, hi.phys j hj]

theorem noNewSym_del {fs : FS} {q : Path} (hq0 : q ≠ []) : NoNewSym fs (fs.del q) := by
  intro p t hl
  rw [lookup_del fs p hq0] at hl
  split at hl
  · cases hl
  · exact hl

/-- Overwriting the content of a file linked strictly below `dest`. -/
theorem safe_write {dest : Path} {fs : FS} {q : Path} {i : Nat} (c : Nat) (hq : Under dest q)
    (hf : fs.lookup q = some (.file i)) : Safe dest fs (fs.setData i c) := by
  refine ⟨fun _ _ => rfl, ?_, fun p j hp hl => Or.inl ⟨p, hp, hl⟩, Nat.le_refl _, ?_⟩
  · intro j hne
    rw [content_setData] at hne
    split at hne
    · rename_i h; subst h; exact Or.inl ⟨q, hq, hf⟩
    · exact absurd rfl hne
  · intro hi
    exact ⟨hi.wf, hi.fresh, hi.sep, hi.phys⟩

end MM.C27

namespace MM.C27

/-! ### system calls on lexically safe paths -/

theorem lstat_found {fs : FS} {fu : Nat} {P p : Path} {k : Kind} (hdd : NoDD P)
    (hc : Clear fs P (P.length - 1)) (h : lstat fs fu P = .found p k) :
    p = P ∧ (P ≠ [] → fs.lookup P = some k) ∧ (P = [] → k = .dir) := by
  rw [lstat_lex hdd hc] at h
  have ⟨h1, h2, h3⟩ := lexRes_found h
  simp only [List.nil_append] at h1
  subst h1
  exact ⟨rfl, h2, h3⟩

theorem lstat_missing {fs : FS} {fu : Nat} {P par : Path} {n : Name} (hdd : NoDD P)
    (hc : Clear fs P (P.length - 1)) (h : lstat fs fu P = .missing par n) :
    par ++ [n] = P ∧ fs.lookup P = none ∧ fs.lookup par = some .dir := by
  rw [lstat_lex hdd hc] at h
  have ⟨h1, h2, h3⟩ := lexRes_missing h
  simp only [List.nil_append] at h1 h2
  refine ⟨h1, h2, ?_⟩
  rcases h3 with h3 | h3
  · rw [h3]; exact lookup_nil fs
  · exact h3

theorem stat_found {fs : FS} {fu : Nat} {P p : Path} {k : Kind} (hdd : NoDD P)
    (hc : Clear fs P P.length) (h : stat fs fu P = .found p k) :
    p = P ∧ (P ≠ [] → fs.lookup P = some k) ∧ (P = [] → k = .dir) := by
  rw [stat_lex hdd hc] at h
  have ⟨h1, h2, h3⟩ := lexRes_found h
  simp only [List.nil_append] at h1
  subst h1
  exact ⟨rfl, h2, h3⟩

theorem stat_missing {fs : FS} {fu : Nat} {P par : Path} {n : Name} (hdd : NoDD P)
    (hc : Clear fs P P.length) (h : stat fs fu P = .missing par n) :
    par ++ [n] = P ∧ fs.lookup P = none ∧ fs.lookup par = some .dir := by
  rw [stat_lex hdd hc] at h
  have ⟨h1, h2, h3⟩ := lexRes_missing h
  simp only [List.nil_append] at h1 h2
  refine ⟨h1, h2, ?_⟩
  rcases h3 with h3 | h3
  · rw [h3]; exact lookup_nil fs
  · exact h3

theorem dropLast_of_concat {par P : Path} {n : Name} (h : par ++ [n] = P) : P.dropLast = par := by
  rw [← h]; simp

theorem safe_mkdir {dest : Path} {fs : FS} {fu : Nat} {P : Path} (hdd : NoDD P)
    (hc : Clear fs P (P.length - 1)) (hu : Under dest P) :
    Safe dest fs (mkdir fs fu P).1 ∧ NoNewSym fs (mkdir fs fu P).1 := by
  unfold mkdir
  cases hl : lstat fs fu P with
  | missing par n =>
    have ⟨h1, h2, h3⟩ := lstat_missing hdd hc hl
    simp only
    rw [h1]
    refine ⟨safe_set hu h2 (by rw [dropLast_of_concat h1]; exact h3) (fun i h => by cases h), ?_⟩
    exact noNewSym_set hu.ne_nil (fun t h => by cases h)
  | found p k => exact ⟨Safe.refl _ _, NoNewSym.refl _⟩
  | err => exact ⟨Safe.refl _ _, NoNewSym.refl _⟩

theorem clear_dropLast {fs : FS} {P : Path} (h : Clear fs P P.length) :
    Clear fs P.dropLast P.dropLast.length := by
  intro j hj
  have hj' : j < P.length := by simp at hj; omega
  have := h j hj'
  have ht : P.dropLast.take (j + 1) = P.take (j + 1) := by
    rw [List.dropLast_eq_take, List.take_take]
    congr 1
    simp at hj
    omega
  rw [ht]; exact this

theorem prefix_concat_cases {dest P' : Path} {n : Name} (h : dest <+: P' ++ [n]) :
    dest = P' ++ [n] ∨ dest <+: P' := by
  rcases List.prefix_concat_iff.mp h with h | h
  · exact Or.inl h
  · exact Or.inr h

/-- `os.MkdirAll` on a path all of whose existing components are not symbolic links, and which is
    a prefix of `dest` or lies below it: only directories strictly below `dest` are created. -/
theorem safe_mkdirAllR {dest : Path} {fu : Nat} : ∀ (rp : List Name) (fs : FS),
    Inv dest fs → NoDD rp.reverse → Clear fs rp.reverse rp.reverse.length →
    (rp.reverse <+: dest ∨ Under dest rp.reverse) →
    Safe dest fs (mkdirAllR fs fu rp).1 ∧ NoNewSym fs (mkdirAllR fs fu rp).1 := by
  intro rp
  induction rp with
  | nil => intro fs _ _ _ _; exact ⟨Safe.refl _ _, NoNewSym.refl _⟩
  | cons n rparent ih =>
    intro fs hI hdd hc hrel
    have hP : (n :: rparent).reverse = rparent.reverse ++ [n] := by simp
    unfold mkdirAllR
    dsimp only
    cases hs : stat fs fu (n :: rparent).reverse with
    | found p k => cases k <;> exact ⟨Safe.refl _ _, NoNewSym.refl _⟩
    | missing par m =>
      exact mkdirAllR_tail ih hI hdd hc hrel hP
    | err =>
      exact mkdirAllR_tail ih hI hdd hc hrel hP
where
  mkdirAllR_tail {dest : Path} {fu : Nat} {n : Name} {rparent : List Name} {fs : FS}
      (ih : ∀ (fs : FS), Inv dest fs → NoDD rparent.reverse →
        Clear fs rparent.reverse rparent.reverse.length →
        (rparent.reverse <+: dest ∨ Under dest rparent.reverse) →
        Safe dest fs (mkdirAllR fs fu rparent).1 ∧ NoNewSym fs (mkdirAllR fs fu rparent).1)
      (hI : Inv dest fs) (hdd : NoDD (n :: rparent).reverse)
      (hc : Clear fs (n :: rparent).reverse (n :: rparent).reverse.length)
      (hrel : (n :: rparent).reverse <+: dest ∨ Under dest (n :: rparent).reverse)
      (hP : (n :: rparent).reverse = rparent.reverse ++ [n]) :
      Safe dest fs
        (match mkdirAllR fs fu rparent with
          | (fs1, false) => (fs1, false)
          | (fs1, true) =>
            match mkdir fs1 fu (n :: rparent).reverse with
            | (fs2, true) => (fs2, true)
            | (_, false) => (fs1, isDirRes (lstat fs1 fu (n :: rparent).reverse))).1 ∧
      NoNewSym fs
        (match mkdirAllR fs fu rparent with
          | (fs1, false) => (fs1, false)
          | (fs1, true) =>
            match mkdir fs1 fu (n :: rparent).reverse with
            | (fs2, true) => (fs2, true)
            | (_, false) => (fs1, isDirRes (lstat fs1 fu (n :: rparent).reverse))).1 := by
    have hdd' : NoDD rparent.reverse := by
      intro x hx; apply hdd x; rw [hP]; exact List.mem_append_left _ hx
    have hc' : Clear fs rparent.reverse rparent.reverse.length := by
      have := clear_dropLast hc
      rw [hP] at this
      simpa using this
    have hrel' : rparent.reverse <+: dest ∨ Under dest rparent.reverse := by
      rcases hrel with h | h
      · left; rw [hP] at h; exact (List.prefix_append _ _).trans h
      · rw [hP] at h
        rcases prefix_concat_cases h.1 with he | hp
        · exact absurd he.symm h.2
        · by_cases heq : rparent.reverse = dest
          · left; rw [heq]; exact List.prefix_refl _
          · right; exact ⟨hp, heq⟩
    have ⟨hS1, hN1⟩ := ih fs hI hdd' hc' hrel'
    cases hr : mkdirAllR fs fu rparent with
    | mk fs1 ok1 =>
      rw [hr] at hS1 hN1
      simp only at hS1 hN1
      cases ok1 with
      | false => exact ⟨hS1, hN1⟩
      | true =>
        simp only
        have hI1 := hS1.inv hI
        have hc1 : Clear fs1 (n :: rparent).reverse ((n :: rparent).reverse.length - 1) :=
          (hc.mono hN1).le (by omega)
        rcases hrel with hpre | hu
        · -- a prefix of dest exists as a directory: mkdir cannot create anything
          have hne : (n :: rparent).reverse ≠ [] := by rw [hP]; simp
          have hlen : (n :: rparent).reverse.length ≤ dest.length := hpre.length_le
          have hpos : 0 < (n :: rparent).reverse.length := List.length_pos_iff.mpr hne
          have htake : dest.take ((n :: rparent).reverse.length - 1 + 1) = (n :: rparent).reverse := by
            rw [Nat.sub_add_cancel hpos]
            exact (List.prefix_iff_eq_take.mp hpre).symm
          have hdir := hI1.phys ((n :: rparent).reverse.length - 1) (by omega)
          rw [htake] at hdir
          unfold mkdir
          cases hl : lstat fs1 fu (n :: rparent).reverse with
          | missing par m =>
            have := (lstat_missing hdd hc1 hl).2.1
            rw [hdir] at this; cases this
          | found p k => exact ⟨hS1, hN1⟩
          | err => exact ⟨hS1, hN1⟩
        · have ⟨hS2, hN2⟩ := safe_mkdir (fs := fs1) (fu := fu) hdd hc1 hu
          cases hm : mkdir fs1 fu (n :: rparent).reverse with
          | mk fs2 ok2 =>
            rw [hm] at hS2 hN2
            cases ok2 with
            | true => exact ⟨hS1.trans hS2, hN1.trans hN2⟩
            | false => exact ⟨hS1, hN1⟩

theorem safe_mkdirAll {dest : Path} {fu : Nat} {fs : FS} {P : Path} (hI : Inv dest fs) (hdd : NoDD P)
    (hc : Clear fs P P.length) (hrel : P <+: dest ∨ Under dest P) :
    Safe dest fs (mkdirAll fs fu P).1 ∧ NoNewSym fs (mkdirAll fs fu P).1 := by
  unfold mkdirAll
  have := safe_mkdirAllR (dest := dest) (fu := fu) P.reverse fs hI (by simpa using hdd) (by simpa using hc)
    (by simpa using hrel)
  exact this

end MM.C27

namespace MM.C27

theorem inv_lookup_dest {dest : Path} {fs : FS} (hI : Inv dest fs) : fs.lookup dest = some .dir := by
  cases hd : dest with
  | nil => exact lookup_nil fs
  | cons a as =>
    have := hI.phys (dest.length - 1) (by rw [hd]; simp)
    rw [hd] at this
    simpa using this

theorem under_of_ne_dir {dest : Path} {fs : FS} {P : Path} {k : Option Kind} (hI : Inv dest fs)
    (hp : dest <+: P) (hl : fs.lookup P = k) (hk : k ≠ some .dir) : Under dest P := by
  refine ⟨hp, fun he => ?_⟩
  rw [he, inv_lookup_dest hI] at hl
  exact hk hl.symm

theorem isEmptyDir_leaf {fs : FS} {q : Path} (h : fs.isEmptyDir q = true) :
    ∀ p, p ≠ [] → p.dropLast = q → fs.lookup p = none := by
  intro p hp hd
  unfold FS.lookup
  rw [if_neg hp]
  cases hf : fs.ents.find? (fun e => e.1 = p) with
  | none => rfl
  | some e =>
    have hmem := List.mem_of_find?_eq_some hf
    have hpe := List.find?_some hf
    have hpe' : e.1 = p := by simpa using hpe
    have := List.all_eq_true.mp h e hmem
    rw [hpe'] at this
    simp [hp, hd] at this

theorem wf_ancestors {dest : Path} {fs : FS} (hI : Inv dest fs) {P : Path} {k : Kind}
    (hl : fs.lookup P = some k) : ∀ d m, m + d = P.length → 1 ≤ m → 1 ≤ d →
    fs.lookup (P.take m) = some .dir := by
  intro d
  induction d with
  | zero => intro m _ _ h; omega
  | succ d ih =>
    intro m hm h1 _
    have hne : P ≠ [] := by intro h; subst h; simp at hm
    by_cases hd : d = 0
    · subst hd
      have : P.take m = P.dropLast := by
        rw [List.dropLast_eq_take]; congr 1; omega
      rw [this]
      exact hI.wf P k hne hl
    · have hdir := ih (m + 1) (by omega) (by omega) (by omega)
      have hne' : P.take (m + 1) ≠ [] := by
        intro h
        have := congrArg List.length h
        rw [List.length_take, List.length_nil] at this
        omega
      have := hI.wf (P.take (m + 1)) .dir hne' hdir
      have ht : (P.take (m + 1)).dropLast = P.take m := by
        rw [List.dropLast_eq_take, List.take_take, List.length_take]
        congr 1
        omega
      rw [ht] at this
      exact this

theorem safe_remove {dest : Path} {fs : FS} {fu : Nat} {P : Path} (hI : Inv dest fs) (hdd : NoDD P)
    (hc : Clear fs P (P.length - 1)) (hu : Under dest P) :
    Safe dest fs (remove fs fu P) ∧ NoNewSym fs (remove fs fu P) ∧
      (isSymRes (lstat fs fu P) = true → (remove fs fu P).lookup P = none) := by
  have hP0 := hu.ne_nil
  unfold remove
  cases hl : lstat fs fu P with
  | found q k =>
    have ⟨h1, h2, _⟩ := lstat_found hdd hc hl
    subst h1
    have hlk := h2 hP0
    cases k with
    | dir =>
      simp only
      split
      · rename_i hcond
        exact ⟨safe_del hu (isEmptyDir_leaf hcond.2), noNewSym_del hP0, fun h => by simp [isSymRes] at h⟩
      · exact ⟨Safe.refl _ _, NoNewSym.refl _, fun h => by simp [isSymRes] at h⟩
    | file i =>
      simp only
      refine ⟨safe_del hu ?_, noNewSym_del hP0, fun h => by simp [isSymRes] at h⟩
      intro p hp hd
      cases hlp : fs.lookup p with
      | none => rfl
      | some k' =>
        have := hI.wf p k' hp hlp
        rw [hd, hlk] at this; cases this
    | sym t =>
      simp only
      refine ⟨safe_del hu ?_, noNewSym_del hP0, fun _ => by rw [lookup_del fs _ hP0]; simp⟩
      intro p hp hd
      cases hlp : fs.lookup p with
      | none => rfl
      | some k' =>
        have := hI.wf p k' hp hlp
        rw [hd, hlk] at this; cases this
  | missing par n => exact ⟨Safe.refl _ _, NoNewSym.refl _, fun h => by simp [isSymRes] at h⟩
  | err => exact ⟨Safe.refl _ _, NoNewSym.refl _, fun h => by simp [isSymRes] at h⟩

theorem safe_symlink {dest : Path} {fs : FS} {fu : Nat} {P : Path} (t : Target) (hdd : NoDD P)
    (hc : Clear fs P (P.length - 1)) (hu : Under dest P) :
    Safe dest fs (symlink fs fu t P).1 := by
  unfold symlink
  cases hl : lstat fs fu P with
  | missing par n =>
    have ⟨h1, h2, h3⟩ := lstat_missing hdd hc hl
    simp only
    rw [h1]
    exact safe_set hu h2 (by rw [dropLast_of_concat h1]; exact h3) (fun i h => by cases h)
  | found p k => exact Safe.refl _ _
  | err => exact Safe.refl _ _

theorem safe_link {dest : Path} {fs : FS} {fu : Nat} {old P : Path} (hI : Inv dest fs)
    (hddo : NoDD old) (hco : Clear fs old old.length) (hpo : dest <+: old)
    (hdd : NoDD P) (hc : Clear fs P (P.length - 1)) (hu : Under dest P) :
    Safe dest fs (link fs fu old P).1 := by
  unfold link
  cases hl : lstat fs fu old with
  | found p k =>
    have ⟨h1, h2, h3⟩ := lstat_found hddo (hco.le (by omega)) hl
    cases k with
    | dir => exact Safe.refl _ _
    | file i =>
      simp only
      have hold0 : old ≠ [] := fun h => by cases h3 h
      have hlk := h2 hold0
      have huo : Under dest old := under_of_ne_dir hI hpo hlk (by simp)
      cases hl2 : lstat fs fu P with
      | missing par n =>
        have ⟨g1, g2, g3⟩ := lstat_missing hdd hc hl2
        simp only
        rw [g1]
        exact safe_set hu g2 (by rw [dropLast_of_concat g1]; exact g3)
          (fun j hj => by cases hj; exact ⟨old, huo, hlk⟩)
      | found _ _ => exact Safe.refl _ _
      | err => exact Safe.refl _ _
    | sym t =>
      simp only
      cases hl2 : lstat fs fu P with
      | missing par n =>
        have ⟨g1, g2, g3⟩ := lstat_missing hdd hc hl2
        simp only
        rw [g1]
        exact safe_set hu g2 (by rw [dropLast_of_concat g1]; exact g3) (fun j hj => by cases hj)
      | found _ _ => exact Safe.refl _ _
      | err => exact Safe.refl _ _
  | missing _ _ => exact Safe.refl _ _
  | err => exact Safe.refl _ _

theorem safe_openTrunc {dest : Path} {fs : FS} {fu : Nat} {P : Path} (c : Nat) (hI : Inv dest fs)
    (hdd : NoDD P) (hc : Clear fs P P.length) (hp : dest <+: P) :
    Safe dest fs (openTrunc fs fu P c).1 := by
  unfold openTrunc
  cases hl : stat fs fu P with
  | found q k =>
    have ⟨h1, h2, h3⟩ := stat_found hdd hc hl
    cases k with
    | file i =>
      simp only
      have hP0 : P ≠ [] := fun h => by cases h3 h
      have hlk := h2 hP0
      exact safe_write c (under_of_ne_dir hI hp hlk (by simp)) hlk
    | dir => exact Safe.refl _ _
    | sym t => exact Safe.refl _ _
  | missing par n =>
    have ⟨h1, h2, h3⟩ := stat_missing hdd hc hl
    simp only
    rw [h1]
    exact safe_newFile c (under_of_ne_dir hI hp h2 (by simp)) h2 (by rw [dropLast_of_concat h1]; exact h3)
  | err => exact Safe.refl _ _

end MM.C27

namespace MM.C27

/-! ### sanitizeTarPath leaves no ".." -/

def J : List Name → Prop
  | [] => True
  | x :: s => (x = dd → ∀ y ∈ s, y = dd) ∧ J s

theorem J_last : ∀ {stack : List Name}, J stack → stack.getLast? ≠ some dd → ∀ x ∈ stack, x ≠ dd := by
  intro stack
  induction stack with
  | nil => intro _ _ x hx; cases hx
  | cons a s ih =>
    intro hJ hlast x hx
    cases s with
    | nil =>
      simp at hx hlast
      subst hx; exact hlast
    | cons b s' =>
      have hlast' : (b :: s').getLast? ≠ some dd := by simpa [List.getLast?_cons_cons] using hlast
      have hs := ih hJ.2 hlast'
      rcases List.mem_cons.mp hx with rfl | hx'
      · intro hxd
        have := hJ.1 hxd b (List.mem_cons_self ..)
        exact hs b (List.mem_cons_self ..) this
      · exact hs x hx'

theorem cleanRel_nodd : ∀ (comps stack : List Name), J stack →
    (cleanRel stack comps).head? ≠ some dd → NoDD (cleanRel stack comps) := by
  intro comps
  induction comps with
  | nil =>
    intro stack hJ hh
    unfold cleanRel at hh ⊢
    rw [List.head?_reverse] at hh
    intro x hx
    exact J_last hJ hh x (List.mem_reverse.mp hx)
  | cons n rest ih =>
    intro stack hJ hh
    unfold cleanRel at hh ⊢
    by_cases hn : n = dd
    · simp only [hn, if_true] at hh ⊢
      cases stack with
      | nil => exact ih [dd] ⟨fun _ y hy => (by cases hy), trivial⟩ hh
      | cons top s =>
        simp only at hh ⊢
        by_cases ht : top = dd
        · simp only [ht, if_true] at hh ⊢
          refine ih _ ⟨fun _ y hy => ?_, ?_⟩ hh
          · rcases List.mem_cons.mp hy with rfl | hy'
            · rfl
            · exact hJ.1 ht y hy'
          · rw [← ht]; exact hJ
        · simp only [ht, if_false] at hh ⊢
          exact ih s hJ.2 hh
    · simp only [hn, if_false] at hh ⊢
      exact ih (n :: stack) ⟨fun h => absurd h hn, hJ⟩ hh

theorem sanitize_nodd {name : Target} {rel : List Name} (h : sanitize name = some rel) : NoDD rel := by
  unfold sanitize at h
  split at h
  · cases h
  · dsimp only at h
    split at h
    · cases h
    · rename_i hh
      cases h
      exact cleanRel_nodd _ [] trivial hh

theorem nodd_append {a b : List Name} (ha : NoDD a) (hb : NoDD b) : NoDD (a ++ b) := by
  intro x hx
  rcases List.mem_append.mp hx with h | h
  · exact ha x h
  · exact hb x h

theorem nodd_dropLast {a : List Name} (ha : NoDD a) : NoDD a.dropLast :=
  fun x hx => ha x (List.dropLast_subset a hx)

/-! ### checkNoSymlinkComponents -/

theorem lexRes_of_dirs {fs : FS} {fl : Bool} : ∀ (todo : List Name) (cur : Path) (k : Kind), todo ≠ [] →
    (∀ j, j + 1 < todo.length → fs.lookup (cur ++ todo.take (j + 1)) = some .dir) →
    fs.lookup (cur ++ todo) = some k → (∀ t, k = .sym t → fl = false) →
    lexRes fs fl cur todo = .found (cur ++ todo) k := by
  intro todo
  induction todo with
  | nil => intro _ _ h; exact absurd rfl h
  | cons n rest ih =>
    intro cur k _ hdirs hl hsym
    unfold lexRes
    cases rest with
    | nil =>
      rw [hl]
      cases k with
      | dir => simp [lexRes]
      | file i => simp
      | sym t => simp [hsym t rfl]
    | cons m rest' =>
      have h0 := hdirs 0 (by simp)
      simp only [List.take_succ_cons, List.take_zero] at h0
      rw [h0]
      simp only
      have := ih (cur ++ [n]) k (by simp) (fun j hj => by
        have := hdirs (j + 1) (by simp at hj ⊢; omega)
        simpa [List.take_succ_cons, List.append_assoc] using this) (by simpa [List.append_assoc] using hl) hsym
      simpa [List.append_assoc] using this

theorem clear_dropLast' {fs : FS} {P : Path} (h : Clear fs P (P.length - 1)) :
    Clear fs P.dropLast P.dropLast.length := by
  intro j hj
  have hj' : j < P.length - 1 := by simpa using hj
  have := h j hj'
  have ht : P.dropLast.take (j + 1) = P.take (j + 1) := by
    rw [List.dropLast_eq_take, List.take_take]
    congr 1
    omega
  rw [ht]; exact this

/-- If the Lstat walk of `checkNoSymlinkComponents` succeeds, no existing component it covers is a
    symbolic link — including components below a missing one (there are none: `wf`). -/
theorem check_sound {dest : Path} {fs : FS} {fu : Nat} (hI : Inv dest fs) (incl : Bool) :
    ∀ (rel : List Name) (cur : Path), Clear fs cur cur.length → NoDD cur → NoDD rel →
      checkNoSym fs fu cur rel incl = true →
      Clear fs (cur ++ rel) (cur.length + (if incl then rel.length else rel.length - 1)) := by
  intro rel
  induction rel with
  | nil =>
    intro cur hc _ _ _
    simpa using hc
  | cons n rest ih =>
    intro cur hc hddc hddr hchk
    have hn : n ≠ dd := hddr n (List.mem_cons_self ..)
    have hrest : NoDD rest := fun x hx => hddr x (List.mem_cons_of_mem _ hx)
    -- the components of `cur` are clear in every longer path
    have hlow : ∀ j, j < cur.length → NoSymAt fs ((cur ++ n :: rest).take (j + 1)) := by
      intro j hj
      have : (cur ++ n :: rest).take (j + 1) = cur.take (j + 1) := by
        rw [List.take_append_of_le_length (by omega)]
      rw [this]; exact hc j hj
    unfold checkNoSym at hchk
    split at hchk
    · rename_i hcond
      obtain ⟨hr, hi⟩ := hcond
      subst hr; subst hi
      intro j hj
      simp at hj
      exact hlow j hj
    · rename_i hncond
      have hdd1 : NoDD (cur ++ [n]) := nodd_append hddc (fun x hx => by simp at hx; subst hx; exact hn)
      have hc1 : Clear fs (cur ++ [n]) ((cur ++ [n]).length - 1) := by
        intro j hj
        simp at hj
        have : (cur ++ [n]).take (j + 1) = cur.take (j + 1) := by
          rw [List.take_append_of_le_length (by omega)]
        rw [this]; exact hc j hj
      have hfull : (cur ++ [n]).take (cur.length + 1) = cur ++ [n] := List.take_of_length_le (by simp)
      -- index bookkeeping for the recursive call
      have hidx : ∀ j, j < cur.length + (if incl then (n :: rest).length else (n :: rest).length - 1) →
          j < (cur ++ [n]).length + (if incl then rest.length else rest.length - 1) := by
        intro j hj
        cases incl with
        | true => simp at hj ⊢; omega
        | false =>
          have hr : rest ≠ [] := fun h => hncond ⟨h, rfl⟩
          have := List.length_pos_iff.mpr hr
          simp at hj ⊢; omega
      cases hl : lstat fs fu (cur ++ [n]) with
      | missing par m =>
        have hnone := (lstat_missing hdd1 hc1 hl).2.1
        intro j hj
        by_cases hjc : j < cur.length
        · exact hlow j hjc
        · intro t hlt
          have hjt : j < cur.length + (rest.length + 1) := by
            cases incl <;> simp at hj <;> omega
          -- a symbolic link at or below the missing component would need that component to exist
          have hQlen : ((cur ++ n :: rest).take (j + 1)).length = j + 1 := by
            rw [List.length_take, List.length_append, List.length_cons]
            exact Nat.min_eq_left (by omega)
          have hQtake : ((cur ++ n :: rest).take (j + 1)).take (cur.length + 1) = cur ++ [n] := by
            rw [List.take_take, Nat.min_eq_left (by omega), List.take_length_add_append 1]
            simp
          by_cases hje : j = cur.length
          · subst hje
            rw [List.take_length_add_append 1] at hlt
            simp only [List.take_succ_cons, List.take_zero] at hlt
            rw [hnone] at hlt
            cases hlt
          · have := wf_ancestors hI hlt (j - cur.length) (cur.length + 1) (by rw [hQlen]; omega) (by omega) (by omega)
            rw [hQtake, hnone] at this
            cases this
      | err => rw [hl] at hchk; cases hchk
      | found p k =>
        rw [hl] at hchk
        have ⟨h1, h2, _⟩ := lstat_found hdd1 hc1 hl
        have hlk := h2 (by simp)
        have hrec : (∀ t, k ≠ .sym t) → checkNoSym fs fu (cur ++ [n]) rest incl = true →
            Clear fs (cur ++ n :: rest) (cur.length + (if incl then (n :: rest).length else (n :: rest).length - 1)) := by
          intro hk hchk'
          have hcur1 : Clear fs (cur ++ [n]) (cur ++ [n]).length := by
            intro j hj
            by_cases hjc : j < cur.length
            · exact hc1 j (by simp; exact hjc)
            · have : j = cur.length := by simp at hj; omega
              subst this
              intro t hlt
              rw [hfull, hlk] at hlt
              cases hlt
              exact hk t rfl
          have := ih (cur ++ [n]) hcur1 hdd1 hrest hchk'
          intro j hj
          have hgoal := this j (hidx j hj)
          simpa [List.append_assoc] using hgoal
        cases k with
        | sym t => cases hchk
        | dir => exact hrec (fun t h => by cases h) hchk
        | file i => exact hrec (fun t h => by cases h) hchk

theorem clear_dest {dest : Path} {fs : FS} (hI : Inv dest fs) : Clear fs dest dest.length := by
  intro j hj t hl
  rw [hI.phys j hj] at hl; cases hl

end MM.C27

namespace MM.C27

/-! ### one entry, the loop -/

theorem rel_cases (dest rel : Path) : dest ++ rel <+: dest ∨ Under dest (dest ++ rel) := by
  by_cases h : rel = []
  · left; subst h; simp
  · right
    refine ⟨List.prefix_append _ _, fun he => h ?_⟩
    have := congrArg List.length he
    simp at this
    exact this

theorem dropLast_rel_cases (dest rel : Path) :
    (dest ++ rel).dropLast <+: dest ∨ Under dest (dest ++ rel).dropLast := by
  by_cases h : rel = []
  · left; subst h; simp; exact List.dropLast_prefix dest
  · rw [List.dropLast_append_of_ne_nil h]
    exact rel_cases dest rel.dropLast

theorem clear_of_check {dest : Path} {fs : FS} {fu : Nat} (hI : Inv dest fs) (hdd : NoDD dest)
    {rel : List Name} (hr : NoDD rel) {incl : Bool} (h : checkNoSym fs fu dest rel incl = true) :
    Clear fs (dest ++ rel) (dest.length + (if incl then rel.length else rel.length - 1)) :=
  check_sound hI incl rel dest (clear_dest hI) hdd hr h

/-- After the optional removal of a symbolic link at the final component, no component of the
    target is a symbolic link. -/
theorem clear_after_unlink {dest : Path} {fs : FS} {fu : Nat} {P : Path} (hI : Inv dest fs) (hdd : NoDD P)
    (hc : Clear fs P (P.length - 1)) (hp : dest <+: P) :
    let fs2 := if isSymRes (lstat fs fu P) then remove fs fu P else fs
    Safe dest fs fs2 ∧ Clear fs2 P P.length := by
  intro fs2
  by_cases hs : isSymRes (lstat fs fu P) = true
  · have hfs2 : fs2 = remove fs fu P := by simp [fs2, hs]
    -- the final component is a symbolic link, so the target is not the destination itself
    have hu : Under dest P := by
      cases hl : lstat fs fu P with
      | found q k =>
        rw [hl] at hs
        cases k with
        | sym t =>
          have ⟨_, h2, h3⟩ := lstat_found hdd hc hl
          have hP0 : P ≠ [] := fun h => by cases h3 h
          exact under_of_ne_dir hI hp (h2 hP0) (by simp)
        | dir => simp [isSymRes] at hs
        | file i => simp [isSymRes] at hs
      | missing _ _ => rw [hl] at hs; simp [isSymRes] at hs
      | err => rw [hl] at hs; simp [isSymRes] at hs
    have ⟨hS, hN, hgone⟩ := safe_remove (fu := fu) hI hdd hc hu
    rw [hfs2]
    refine ⟨hS, ?_⟩
    intro j hj
    by_cases hjl : j < P.length - 1
    · exact (hc.mono hN) j hjl
    · have : j + 1 = P.length := by omega
      intro t hlt
      rw [this, List.take_length, hgone hs] at hlt
      cases hlt
  · have hfs2 : fs2 = fs := by simp [fs2, hs]
    rw [hfs2]
    refine ⟨Safe.refl _ _, ?_⟩
    intro j hj
    by_cases hjl : j < P.length - 1
    · exact hc j hjl
    · have hjj : j + 1 = P.length := by omega
      intro t hlt
      rw [hjj, List.take_length] at hlt
      -- then lstat would have reported the link
      have hP0 : P ≠ [] := by intro h; subst h; simp at hj
      have hdirs : ∀ i, i + 1 < P.length → fs.lookup ([] ++ P.take (i + 1)) = some .dir := by
        intro i hi
        have := wf_ancestors hI hlt (P.length - (i + 1)) (i + 1) (by omega) (by omega) (by omega)
        simpa using this
      have hlex := lexRes_of_dirs (fs := fs) (fl := false) P [] (.sym t) hP0 hdirs (by simpa using hlt) (fun _ _ => rfl)
      have : lstat fs fu P = .found P (.sym t) := by
        rw [lstat_lex hdd hc, hlex]; simp
      rw [this] at hs
      simp [isSymRes] at hs

theorem safe_stepEntry {dest : Path} {fu : Nat} {fs : FS} (e : Entry) (hI : Inv dest fs) (hdd : NoDD dest) :
    Safe dest fs (stepEntry true fu dest fs e).1 := by
  unfold stepEntry
  cases hs : sanitize e.name with
  | none => exact Safe.refl _ _
  | some rel =>
    have hrel := sanitize_nodd hs
    have hddT : NoDD (dest ++ rel) := nodd_append hdd hrel
    have hpre : dest <+: dest ++ rel := List.prefix_append _ _
    simp only [Bool.true_and]
    cases hty : e.ty with
    | dir =>
      simp only
      cases hchk : checkNoSym fs fu dest rel true with
      | false => exact Safe.refl _ _
      | true =>
        simp only [Bool.not_true, Bool.false_eq_true, if_false]
        have hc := clear_of_check (fu := fu) hI hdd hrel hchk
        have hc' : Clear fs (dest ++ rel) (dest ++ rel).length := by simpa using hc
        exact (safe_mkdirAll hI hddT hc' (rel_cases dest rel)).1
    | other =>
      simp only
      cases hchk : checkNoSym fs fu dest rel false <;> exact Safe.refl _ _
    | reg c =>
      simp only
      cases hchk : checkNoSym fs fu dest rel false with
      | false => exact Safe.refl _ _
      | true =>
        simp only [Bool.not_true, Bool.false_eq_true, if_false]
        have hc := clear_of_check (fu := fu) hI hdd hrel hchk
        have hc' : Clear fs (dest ++ rel) ((dest ++ rel).length - 1) := by
          refine hc.le ?_
          simp; omega
        have ⟨hS1, hN1⟩ := safe_mkdirAll (fu := fu) hI (nodd_dropLast hddT) (clear_dropLast' hc')
          (dropLast_rel_cases dest rel)
        cases hm : mkdirAll fs fu (dest ++ rel).dropLast with
        | mk fs1 ok =>
          rw [hm] at hS1 hN1
          cases ok with
          | false => exact hS1
          | true =>
            simp only
            have hI1 := hS1.inv hI
            have ⟨hS2, hC2⟩ := clear_after_unlink (fu := fu) hI1 hddT (hc'.mono hN1) hpre
            have hI2 := hS2.inv hI1
            exact (hS1.trans hS2).trans (safe_openTrunc c hI2 hddT hC2 hpre)
    | sym t =>
      simp only
      cases hchk : checkNoSym fs fu dest rel false with
      | false => exact Safe.refl _ _
      | true =>
        simp only [Bool.not_true, Bool.false_eq_true, if_false]
        by_cases hr : rel = []
        · simp [hr]; exact Safe.refl _ _
        · simp only [hr, decide_false, Bool.false_eq_true, if_false]
          split
          · exact Safe.refl _ _
          · have hc := clear_of_check (fu := fu) hI hdd hrel hchk
            have hc' : Clear fs (dest ++ rel) ((dest ++ rel).length - 1) := by
              refine hc.le ?_
              simp; omega
            have hu : Under dest (dest ++ rel) := by
              rcases rel_cases dest rel with h | h
              · exact absurd (List.eq_nil_of_length_eq_zero (by
                  have := h.length_le; simp at this; omega)) hr
              · exact h
            have ⟨hS1, hN1⟩ := safe_mkdirAll (fu := fu) hI (nodd_dropLast hddT) (clear_dropLast' hc')
              (dropLast_rel_cases dest rel)
            cases hm : mkdirAll fs fu (dest ++ rel).dropLast with
            | mk fs1 ok =>
              rw [hm] at hS1 hN1
              cases ok with
              | false => exact hS1
              | true =>
                simp only
                have hI1 := hS1.inv hI
                have hc1 := hc'.mono hN1
                have ⟨hS2, hN2, _⟩ := safe_remove (fu := fu) hI1 hddT hc1 hu
                exact (hS1.trans hS2).trans (safe_symlink t hddT (hc1.mono hN2) hu)
    | hard t =>
      simp only
      cases hchk : checkNoSym fs fu dest rel false with
      | false => exact Safe.refl _ _
      | true =>
        simp only [Bool.not_true, Bool.false_eq_true, if_false]
        by_cases hr : rel = []
        · simp [hr]; exact Safe.refl _ _
        · simp only [hr, decide_false, Bool.false_eq_true, if_false]
          cases hs2 : sanitize t with
          | none => exact Safe.refl _ _
          | some lrel =>
            simp only
            cases hchk2 : checkNoSym fs fu dest lrel true with
            | false => exact Safe.refl _ _
            | true =>
              simp only [Bool.not_true, Bool.false_eq_true, if_false]
              have hlrel := sanitize_nodd hs2
              have hco := clear_of_check (fu := fu) hI hdd hlrel hchk2
              have hco' : Clear fs (dest ++ lrel) (dest ++ lrel).length := by simpa using hco
              have hc := clear_of_check (fu := fu) hI hdd hrel hchk
              have hc' : Clear fs (dest ++ rel) ((dest ++ rel).length - 1) := by
                refine hc.le ?_
                simp; omega
              have hu : Under dest (dest ++ rel) := by
                rcases rel_cases dest rel with h | h
                · exact absurd (List.eq_nil_of_length_eq_zero (by
                    have := h.length_le; simp at this; omega)) hr
                · exact h
              have ⟨hS1, hN1⟩ := safe_mkdirAll (fu := fu) hI (nodd_dropLast hddT) (clear_dropLast' hc')
                (dropLast_rel_cases dest rel)
              cases hm : mkdirAll fs fu (dest ++ rel).dropLast with
              | mk fs1 ok =>
                rw [hm] at hS1 hN1
                cases ok with
                | false => exact hS1
                | true =>
                  simp only
                  have hI1 := hS1.inv hI
                  have hc1 := hc'.mono hN1
                  have ⟨hS2, hN2, _⟩ := safe_remove (fu := fu) hI1 hddT hc1 hu
                  have hI2 := hS2.inv hI1
                  exact (hS1.trans hS2).trans
                    (safe_link hI2 (nodd_append hdd hlrel) ((hco'.mono hN1).mono hN2) (List.prefix_append _ _)
                      hddT (hc1.mono hN2) hu)

theorem safe_untarLoop {dest : Path} {fu : Nat} (hdd : NoDD dest) : ∀ (es : List Entry) (fs : FS),
    Inv dest fs → Safe dest fs (untarLoop true fu dest fs es).1 := by
  intro es
  induction es with
  | nil => intro fs _; exact Safe.refl _ _
  | cons e es ih =>
    intro fs hI
    unfold untarLoop
    have hS := safe_stepEntry (fu := fu) e hI hdd
    cases hstep : stepEntry true fu dest fs e with
    | mk fs1 ok =>
      rw [hstep] at hS
      cases ok with
      | false => exact hS
      | true => exact hS.trans (ih fs1 (hS.inv hI))

theorem safe_untar {dest : Path} {fu : Nat} {fs : FS} (es : List Entry) (hI : Inv dest fs) (hdd : NoDD dest) :
    Safe dest fs (untar true fu dest fs es).1 := by
  unfold untar
  have ⟨hS, _⟩ := safe_mkdirAll (fu := fu) hI hdd (clear_dest hI) (Or.inl (List.prefix_refl dest))
  cases hm : mkdirAll fs fu dest with
  | mk fs1 ok =>
    rw [hm] at hS
    cases ok with
    | false => exact hS
    | true => exact hS.trans (safe_untarLoop hdd es fs1 (hS.inv hI))

end MM.C27

namespace MM.C27

/-! ### a decidable sufficient condition for `Inv` (used for non-vacuity examples) -/

def underB (dest q : Path) : Bool := dest.isPrefixOf q && q != dest

def invB (dest : Path) (fs : FS) : Bool :=
  fs.ents.all (fun e => e.1 == [] || fs.lookup e.1.dropLast == some .dir) &&
  fs.ents.all (fun e => match e.2 with | .file i => decide (i < fs.next) | _ => true) &&
  fs.ents.all (fun e => fs.ents.all (fun e' =>
    match e.2, e'.2 with
    | .file i, .file j => i != j || !underB dest e.1 || underB dest e'.1
    | _, _ => true)) &&
  (List.range dest.length).all (fun j => fs.lookup (dest.take (j + 1)) == some .dir)

theorem lookup_mem {fs : FS} {p : Path} {k : Kind} (hp : p ≠ []) (h : fs.lookup p = some k) :
    (p, k) ∈ fs.ents := by
  unfold FS.lookup at h
  rw [if_neg hp] at h
  cases hf : fs.ents.find? (fun e => e.1 = p) with
  | none => rw [hf] at h; cases h
  | some e =>
    rw [hf] at h
    have hm := List.mem_of_find?_eq_some hf
    have hk := List.find?_some hf
    have h1 : e.1 = p := by simpa using hk
    have h2 : e.2 = k := by simpa using h
    have : e = (p, k) := by cases e; simp at h1 h2; simp [h1, h2]
    rw [← this]; exact hm

theorem underB_iff {dest q : Path} : underB dest q = true ↔ Under dest q := by
  unfold underB Under
  simp [List.isPrefixOf_iff_prefix]

theorem invB_sound {dest : Path} {fs : FS} (h : invB dest fs = true) : Inv dest fs := by
  unfold invB at h
  simp only [Bool.and_eq_true] at h
  obtain ⟨⟨⟨h1, h2⟩, h3⟩, h4⟩ := h
  refine ⟨?_, ?_, ?_, ?_⟩
  · intro p k hp hl
    have := List.all_eq_true.mp h1 _ (lookup_mem hp hl)
    simpa [hp] using this
  · intro p i hl
    have hp : p ≠ [] := by intro hp; subst hp; rw [lookup_nil] at hl; cases hl
    have := List.all_eq_true.mp h2 _ (lookup_mem hp hl)
    simpa using this
  · intro p q i hl hl' hu
    have hp : p ≠ [] := by intro hp; subst hp; rw [lookup_nil] at hl; cases hl
    have hq : q ≠ [] := by intro hq; subst hq; rw [lookup_nil] at hl'; cases hl'
    have := List.all_eq_true.mp (List.all_eq_true.mp h3 _ (lookup_mem hp hl)) _ (lookup_mem hq hl')
    simp only [bne_self_eq_false, Bool.false_or, Bool.or_eq_true, Bool.not_eq_true'] at this
    rcases this with h | h
    · have := underB_iff.mpr hu
      rw [this] at h; cases h
    · exact underB_iff.mp h
  · intro j hj
    have := List.all_eq_true.mp h4 j (List.mem_range.mpr hj)
    simpa using this

end MM.C27

namespace MM.C27

/-! ### MkdirAll changes the filesystem only at prefixes of its argument -/

theorem mkdir_frame {fs : FS} {fu : Nat} {P : Path} (hdd : NoDD P) (hc : Clear fs P (P.length - 1)) :
    ∀ q, q ≠ P → (mkdir fs fu P).1.lookup q = fs.lookup q := by
  intro q hq
  unfold mkdir
  cases hl : lstat fs fu P with
  | missing par n =>
    have ⟨h1, _, _⟩ := lstat_missing hdd hc hl
    simp only
    have hne : par ++ [n] ≠ [] := by simp
    rw [lookup_set fs _ q hne, h1, if_neg hq]
  | found _ _ => rfl
  | err => rfl

theorem mkdirAllR_frame {dest : Path} {fu : Nat} : ∀ (rp : List Name) (fs : FS),
    Inv dest fs → NoDD rp.reverse → Clear fs rp.reverse rp.reverse.length →
    (rp.reverse <+: dest ∨ Under dest rp.reverse) →
    ∀ q, ¬ q <+: rp.reverse → (mkdirAllR fs fu rp).1.lookup q = fs.lookup q := by
  intro rp
  induction rp with
  | nil => intro fs _ _ _ _ q _; rfl
  | cons n rparent ih =>
    intro fs hI hdd hc hrel q hq
    have hP : (n :: rparent).reverse = rparent.reverse ++ [n] := by simp
    have hdd' : NoDD rparent.reverse := by
      intro x hx; apply hdd x; rw [hP]; exact List.mem_append_left _ hx
    have hc' : Clear fs rparent.reverse rparent.reverse.length := by
      have := clear_dropLast hc
      rw [hP] at this
      simpa using this
    have hrel' : rparent.reverse <+: dest ∨ Under dest rparent.reverse := by
      rcases hrel with h | h
      · left; rw [hP] at h; exact (List.prefix_append _ _).trans h
      · rw [hP] at h
        rcases prefix_concat_cases h.1 with he | hp
        · exact absurd he.symm h.2
        · by_cases heq : rparent.reverse = dest
          · left; rw [heq]; exact List.prefix_refl _
          · right; exact ⟨hp, heq⟩
    have hq' : ¬ q <+: rparent.reverse := fun h => hq (by rw [hP]; exact h.trans (List.prefix_append _ _))
    have hqP : q ≠ (n :: rparent).reverse := fun h => hq (h ▸ List.prefix_refl _)
    have hrec := ih fs hI hdd' hc' hrel' q hq'
    have ⟨_, hN1⟩ := safe_mkdirAllR (dest := dest) (fu := fu) rparent fs hI hdd' hc' hrel'
    unfold mkdirAllR
    dsimp only
    cases hs : stat fs fu (n :: rparent).reverse with
    | found p k => cases k <;> rfl
    | missing par m =>
      simp only
      cases hr : mkdirAllR fs fu rparent with
      | mk fs1 ok1 =>
        rw [hr] at hrec hN1
        cases ok1 with
        | false => exact hrec
        | true =>
          simp only
          have hc1 : Clear fs1 (n :: rparent).reverse ((n :: rparent).reverse.length - 1) :=
            (hc.mono hN1).le (by omega)
          have hm := mkdir_frame (fu := fu) hdd hc1 q hqP
          cases hmk : mkdir fs1 fu (n :: rparent).reverse with
          | mk fs2 ok2 =>
            rw [hmk] at hm
            cases ok2 with
            | true => exact hm.trans hrec
            | false => exact hrec
    | err =>
      simp only
      cases hr : mkdirAllR fs fu rparent with
      | mk fs1 ok1 =>
        rw [hr] at hrec hN1
        cases ok1 with
        | false => exact hrec
        | true =>
          simp only
          have hc1 : Clear fs1 (n :: rparent).reverse ((n :: rparent).reverse.length - 1) :=
            (hc.mono hN1).le (by omega)
          have hm := mkdir_frame (fu := fu) hdd hc1 q hqP
          cases hmk : mkdir fs1 fu (n :: rparent).reverse with
          | mk fs2 ok2 =>
            rw [hmk] at hm
            cases ok2 with
            | true => exact hm.trans hrec
            | false => exact hrec

theorem mkdirAll_frame {dest : Path} {fu : Nat} {fs : FS} {P : Path} (hI : Inv dest fs) (hdd : NoDD P)
    (hc : Clear fs P P.length) (hrel : P <+: dest ∨ Under dest P) :
    ∀ q, ¬ q <+: P → (mkdirAll fs fu P).1.lookup q = fs.lookup q := by
  unfold mkdirAll
  have := mkdirAllR_frame (dest := dest) (fu := fu) P.reverse fs hI (by simpa using hdd) (by simpa using hc)
    (by simpa using hrel)
  simpa using this

end MM.C27
