/-
  Helper lemmas for C35 (Redacted()).
-/
import MM.Model.C35

namespace MM.C35
open MM

theorem redact_nil : redact [] = [] := by simp [redact]

theorem redact_of_ne {s : Bytes} (h : s ≠ []) : redact s = placeholder := by simp [redact, h]

theorem redact_cases (s : Bytes) : redact s = [] ∨ redact s = placeholder := by
  by_cases h : s = []
  · left; subst h; exact redact_nil
  · right; exact redact_of_ne h

/-- `redact` only looks at emptiness. -/
theorem redact_congr {a b : Bytes} (h : a = [] ↔ b = []) : redact a = redact b := by
  by_cases ha : a = []
  · have hb := h.mp ha; subst ha hb; rfl
  · have hb : b ≠ [] := fun hb => ha (h.mpr hb)
    rw [redact_of_ne ha, redact_of_ne hb]

theorem redacted_eq_of_redactAll_eq {red : List Path} {rt : Cfg → Option Cfg} {c₁ c₂ : Cfg}
    (h : redactAll red c₁ = redactAll red c₂) : redacted red rt c₁ = redacted red rt c₂ := by
  unfold redacted
  simp only [h]

end MM.C35
