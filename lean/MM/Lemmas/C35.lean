/-
  Helper lemmas for C35 (Redacted()).
-/
import MM.Model.C35

namespace MM.C35
open MM

theorem redact_nil : redact [] = [] := by simp [redact]

theorem redact_of_ne {s : Bytes} (h : s ≠ []) : redact s = placeholder := by simp [redact, h]

theorem redact_cases (s : Bytes) : redact s = [] ∨ redact s = placeholder := by
  by_cases h : s = []
  · left; subst h; exact redact_nil
  · right; exact redact_of_ne h

/-- `redact` only looks at emptiness. -/
theorem redact_congr {a b : Bytes} (h : a = [] ↔ b = []) : redact a = redact b := by
  by_cases ha : a = []
  · have hb := h.mp ha; subst ha hb; rfl
  · have hb : b ≠ [] := fun hb => ha (h.mpr hb)
    rw [redact_of_ne ha, redact_of_ne hb]

theorem redacted_eq_of_redactAll_eq {red : List Path} {rt : Cfg → Option Cfg} {c₁ c₂ : Cfg}
    (h : redactAll red c₁ = redactAll red c₂) : redacted red rt c₁ = redacted red rt c₂ := by
  unfold redacted
  simp only [h]

/-! ### memory model: arrays allocated before the call are not written -/

theorem stepList_old (red : List Path) (st : Store × CfgVal) (i : Nat) (x : Nat) (hx : x < st.1.next) :
    (stepList red true st i).1.arrays x = st.1.arrays x ∧ st.1.next ≤ (stepList red true st i).1.next := by
  obtain ⟨m, cp⟩ := st
  simp only [stepList, if_true, Store.clone, Store.redactArray]
  constructor
  · have h1 : x ≠ m.next := by simp at hx; omega
    simp [h1]
  · simp

theorem foldl_old (red : List Path) (detach : Nat → Bool) (is : List Nat) (hd : ∀ i ∈ is, detach i = true)
    (st : Store × CfgVal) (x : Nat) (hx : x < st.1.next) :
    (is.foldl (fun st i => stepList red (detach i) st i) st).1.arrays x = st.1.arrays x := by
  induction is generalizing st with
  | nil => rfl
  | cons i rest ih =>
    have s := stepList_old red st i x hx
    rw [List.foldl_cons, hd i (by simp), ih (fun j hj => hd j (by simp [hj])) _ (by omega), s.1]

end MM.C35
