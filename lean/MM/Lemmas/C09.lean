/-
  Helper lemmas for C09: splitting a name at its first dot.
-/
import MM.Model.C09
import MM.Lemmas.C08

namespace MM.C09
open MM MM.C08

theorem splitDot_some {d l r : Bytes} (h : splitDot d = some (l, r)) :
    d = l ++ dot :: r ∧ dot ∉ l := by
  induction d generalizing l with
  | nil => cases h
  | cons c cs ih =>
    simp only [splitDot] at h
    by_cases hc : c = dot
    · rw [if_pos hc] at h
      simp only [Option.some.injEq, Prod.mk.injEq] at h
      obtain ⟨rfl, rfl⟩ := h
      exact ⟨by rw [hc]; rfl, by simp⟩
    · rw [if_neg hc] at h
      cases hs : splitDot cs with
      | none => rw [hs] at h; cases h
      | some lr =>
        obtain ⟨l', r'⟩ := lr
        rw [hs] at h
        simp only [Option.some.injEq, Prod.mk.injEq] at h
        obtain ⟨rfl, rfl⟩ := h
        obtain ⟨h1, h2⟩ := ih hs
        refine ⟨by rw [h1]; rfl, ?_⟩
        intro hm
        rcases List.mem_cons.mp hm with hm | hm
        · exact hc hm.symm
        · exact h2 hm

theorem splitDot_of_eq {l r : Bytes} (hl : dot ∉ l) : splitDot (l ++ dot :: r) = some (l, r) := by
  induction l with
  | nil => simp [splitDot]
  | cons c cs ih =>
    have hc : c ≠ dot := fun e => hl (by rw [e]; exact List.mem_cons_self)
    have hcs : dot ∉ cs := fun m => hl (List.mem_cons_of_mem _ m)
    simp only [List.cons_append, splitDot]
    rw [if_neg hc, ih hcs]

end MM.C09
