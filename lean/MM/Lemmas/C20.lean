/-
  Helper lemmas for C20: the key → target map.
-/
import MM.Model.C20

namespace MM.C20
open MM

theorem lookup_some {τ : Type} {eps : List (Endpoint τ)} {k : Bytes} {t : τ} (h : lookup eps k = some t) :
    ∃ ep ∈ eps, ep.key = k ∧ ep.target = t := by
  induction eps with
  | nil => simp [lookup] at h
  | cons ep rest ih =>
    simp only [lookup] at h
    cases hr : lookup rest k with
    | some t' =>
      rw [hr] at h
      injection h with h; subst h
      obtain ⟨e, he, hk, ht⟩ := ih hr
      exact ⟨e, List.mem_cons_of_mem _ he, hk, ht⟩
    | none =>
      rw [hr] at h
      by_cases hk : ep.key = k
      · rw [if_pos hk] at h
        injection h with h
        exact ⟨ep, List.mem_cons_self, hk, h⟩
      · rw [if_neg hk] at h; cases h

theorem lookup_none_iff {τ : Type} (eps : List (Endpoint τ)) (k : Bytes) :
    lookup eps k = none ↔ ∀ ep ∈ eps, ep.key ≠ k := by
  induction eps with
  | nil => simp [lookup]
  | cons ep rest ih =>
    simp only [lookup]
    constructor
    · intro h e he
      cases hr : lookup rest k with
      | some t => rw [hr] at h; cases h
      | none =>
        rw [hr] at h
        rcases List.mem_cons.mp he with rfl | he
        · intro hk; rw [if_pos hk] at h; cases h
        · exact (ih.mp hr) e he
    · intro h
      have hr : lookup rest k = none := ih.mpr (fun e he => h e (List.mem_cons_of_mem _ he))
      rw [hr, if_neg (h ep List.mem_cons_self)]

theorem isPrefixOf_iff (p l : Bytes) : p.isPrefixOf l = true ↔ ∃ t, l = p ++ t := by
  rw [List.isPrefixOf_iff_prefix]
  constructor
  · rintro ⟨t, rfl⟩; exact ⟨t, rfl⟩
  · rintro ⟨t, rfl⟩; exact ⟨t, rfl⟩

end MM.C20
