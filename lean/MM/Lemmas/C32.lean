import MM.Model.C32

/-!
  Invariant of the connection table and its preservation by every step (either version of
  `handleDisconnect`: the invariant does not depend on the callback).
-/
namespace MM.C32

structure Inv (s : S) : Prop where
  /-- a map entry points to a started connection of that peer -/
  reg : ∀ p i, s.peers p = some i → (s.conn i).peer = p ∧ (s.conn i).started = true
  /-- a started connection that has not been closed is the registered one of its peer -/
  openReg : ∀ i, (s.conn i).started = true → (s.conn i).closed = false → s.peers (s.conn i).peer = some i
  /-- connection numbers not handed out yet are blank -/
  fresh : ∀ i, s.next ≤ i → s.conn i = {}
  /-- a rejected duplicate was never started and nothing was delivered from it -/
  rej : ∀ i, (s.conn i).rejected = true → (s.conn i).started = false ∧ (s.conn i).delivered = 0

theorem inv_init : Inv {} := by
  constructor <;> intros <;> simp_all

theorem callback_peers (s : S) (p : Nat) : (callback s p).peers = s.peers := rfl
theorem callback_conn (s : S) (p : Nat) : (callback s p).conn = s.conn := rfl
theorem callback_next (s : S) (p : Nat) : (callback s p).next = s.next := rfl

/-- Changing only `entries` keeps the invariant. -/
theorem inv_entries (s : S) (es : List Entry) (h : Inv s) : Inv { s with entries := es } :=
  ⟨h.reg, h.openReg, h.fresh, h.rej⟩

/-- Un-registering a CLOSED connection keeps the invariant. -/
theorem inv_unregister (s : S) (h : Inv s) (c : Nat) (hc : (s.conn c).closed = true)
    (hr : s.peers (s.conn c).peer = some c) : Inv (s.setPeer (s.conn c).peer none) := by
  constructor
  · intro p i hp
    simp only [S.setPeer] at hp
    split at hp
    · cases hp
    · exact h.reg p i hp
  · intro i hs ho
    simp only [S.setPeer] at hs ho ⊢
    have := h.openReg i hs ho
    split
    · rename_i he
      rw [he, hr] at this
      cases this
      rw [hc] at ho; cases ho
    · exact this
  · exact h.fresh
  · exact h.rej

theorem inv_handleDisconnect (fx : Bool) (s : S) (h : Inv s) (c : Nat) (hc : (s.conn c).closed = true) :
    Inv (handleDisconnect fx s c) := by
  unfold handleDisconnect
  simp only
  split
  · rename_i c' hp
    split
    · rename_i he
      subst he
      exact inv_entries _ _ (inv_unregister s h c' hc hp)
    · split
      · exact h
      · exact inv_entries _ _ h
  · exact inv_entries _ _ h

/-- Updating a STARTED connection in place — same peer, still started, same `rejected` flag, never
    re-opened — keeps the invariant. -/
theorem inv_setConn (s : S) (h : Inv s) (c : Nat) (k : Conn) (hst : (s.conn c).started = true)
    (hp : k.peer = (s.conn c).peer) (hs : k.started = true)
    (hcl : k.closed = false → (s.conn c).closed = false) (hr : k.rejected = (s.conn c).rejected) :
    Inv (s.setConn c k) := by
  constructor
  · intro p i hpi
    have := h.reg p i hpi
    show ((if i = c then k else s.conn i).peer = p ∧ (if i = c then k else s.conn i).started = true)
    by_cases he : i = c
    · subst he; simp only [↓reduceIte]; exact ⟨by rw [hp]; exact this.1, hs⟩
    · simp only [he, ↓reduceIte]; exact this
  · intro i hsi hoi
    change (if i = c then k else s.conn i).started = true at hsi
    change (if i = c then k else s.conn i).closed = false at hoi
    show s.peers (if i = c then k else s.conn i).peer = some i
    by_cases he : i = c
    · subst he
      simp only [↓reduceIte] at hoi ⊢
      rw [hp]; exact h.openReg i hst (hcl hoi)
    · simp only [he, ↓reduceIte] at hsi hoi ⊢
      exact h.openReg i hsi hoi
  · intro i hi
    show (if i = c then k else s.conn i) = {}
    by_cases he : i = c
    · subst he
      have := h.fresh i hi
      rw [this] at hst; simp at hst
    · simp only [he, ↓reduceIte]; exact h.fresh i hi
  · intro i hri
    change (if i = c then k else s.conn i).rejected = true at hri
    show (if i = c then k else s.conn i).started = false ∧ (if i = c then k else s.conn i).delivered = 0
    by_cases he : i = c
    · subst he
      simp only [↓reduceIte] at hri
      rw [hr] at hri
      have := (h.rej i hri).1
      rw [hst] at this; cases this
    · simp only [he, ↓reduceIte] at hri ⊢
      exact h.rej i hri

theorem inv_close (s : S) (h : Inv s) (c : Nat) (hs : (s.conn c).started = true) :
    Inv (closeConn s c) :=
  inv_setConn s h c _ hs rfl hs (by intro hc; simp at hc) rfl

theorem closeConn_closed (s : S) (c : Nat) : ((closeConn s c).conn c).closed = true := by
  simp [closeConn, S.setConn]

theorem inv_disconnectPeer (s : S) (h : Inv s) (p : Nat) : Inv (disconnectPeer s p) := by
  unfold disconnectPeer
  split
  · rename_i c hp
    obtain ⟨hpe, hst⟩ := h.reg p c hp
    -- close first, then un-register: same final state
    have h1 := inv_close s h c hst
    have hc := closeConn_closed s c
    have hpeer : ((closeConn s c).conn c).peer = p := by simp [closeConn, S.setConn, hpe]
    have hr : (closeConn s c).peers ((closeConn s c).conn c).peer = some c := by
      rw [hpeer]; exact hp
    have h2 := inv_unregister (closeConn s c) h1 c hc hr
    rw [hpeer] at h2
    exact h2
  · exact h

theorem inv_foldl (ps : List Nat) : ∀ s, Inv s → Inv (ps.foldl disconnectPeer s) := by
  induction ps with
  | nil => intro s h; exact h
  | cons p ps ih => intro s h; exact ih _ (inv_disconnectPeer s h p)

theorem inv_step (fx : Bool) (s : S) (h : Inv s) (l : Label) : Inv (step fx s l).1 := by
  cases l with
  | connect p =>
    simp only [step]
    split
    · -- rejected duplicate
      rename_i c' hp
      constructor
      · intro q i hq
        have := h.reg q i hq
        simp only [S.setConn] at hq ⊢
        split
        · rename_i he
          have hf := h.fresh i (by omega)
          rw [hf] at this; simp at this
        · exact this
      · intro i hst ho
        simp only [S.setConn] at hst ho ⊢
        split at hst
        · simp at hst
        · rename_i hne
          simp only [hne, ↓reduceIte] at ho ⊢
          exact h.openReg i hst ho
      · intro i hi
        simp only [S.setConn] at hi ⊢
        split
        · omega
        · exact h.fresh i (by omega)
      · intro i hr
        simp only [S.setConn] at hr ⊢
        split
        · simp
        · rename_i hne
          simp only [hne, ↓reduceIte] at hr
          exact h.rej i hr
    · -- registered
      rename_i hp
      constructor
      · intro q i hq
        simp only [S.setPeer, S.setConn] at hq ⊢
        split at hq
        · rename_i he
          cases hq
          simp [he]
        · have := h.reg q i hq
          split
          · rename_i he
            have hf := h.fresh i (by omega)
            rw [hf] at this; simp at this
          · exact this
      · intro i hst ho
        simp only [S.setPeer, S.setConn] at hst ho ⊢
        split at hst
        · rename_i he; simp [he]
        · rename_i hne
          simp only [hne, ↓reduceIte] at ho ⊢
          have := h.openReg i hst ho
          split
          · rename_i he
            rw [he, hp] at this; cases this
          · exact this
      · intro i hi
        simp only [S.setPeer, S.setConn] at hi ⊢
        split
        · omega
        · exact h.fresh i (by omega)
      · intro i hr
        simp only [S.setPeer, S.setConn] at hr ⊢
        split
        · rename_i he; simp [he] at hr
        · rename_i hne
          simp only [hne, ↓reduceIte] at hr
          exact h.rej i hr
  | frame c =>
    simp only [step]
    split
    · rename_i hk
      simp only [Bool.and_eq_true, Bool.not_eq_eq_eq_not, Bool.not_true] at hk
      exact inv_setConn s h c _ hk.1.1 rfl hk.1.1 (fun hc => hc) rfl
    · exact h
  | ktimeout c =>
    simp only [step]
    split
    · rename_i hk
      simp only [Bool.and_eq_true, Bool.not_eq_eq_eq_not, Bool.not_true] at hk
      exact inv_handleDisconnect fx _ (inv_close s h c hk.1) c (closeConn_closed s c)
    · exact h
  | rclose c =>
    simp only [step]
    split
    · rename_i hk
      simp only [Bool.and_eq_true, Bool.not_eq_eq_eq_not, Bool.not_true] at hk
      exact inv_setConn s h c _ hk.1.1 rfl hk.1.1 (fun hc => hc) rfl
    · exact h
  | disconnect p =>
    simp only [step]
    split
    · exact inv_disconnectPeer s h p
    · exact h
  | disconnectAll ps => exact inv_foldl ps s h
  | readerr c =>
    simp only [step]
    split
    · rename_i hk
      simp only [Bool.and_eq_true, Bool.not_eq_eq_eq_not, Bool.not_true] at hk
      have h1 := inv_setConn s h c { s.conn c with closed := true, readDone := true } hk.1.1 rfl hk.1.1
        (by intro hc; simp at hc) rfl
      exact inv_handleDisconnect fx _ h1 c (by simp [S.setConn])
    · exact h
  | readSilent c =>
    simp only [step]
    split
    · rename_i hk
      simp only [Bool.and_eq_true, Bool.not_eq_eq_eq_not, Bool.not_true] at hk
      exact inv_setConn s h c _ hk.1.1 rfl hk.1.1 (fun hc => hc) rfl
    · exact h
  | learn p n =>
    simp only [step]
    split
    · exact inv_entries _ _ h
    · exact h
  | relay p q =>
    simp only [step]
    split
    · exact inv_entries _ _ h
    · exact h

end MM.C32
