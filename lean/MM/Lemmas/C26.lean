import MM.Model.C26
import MM.Lemmas.C27

namespace MM.C26
open MM MM.C27

theorem splitOn_ne_nil (sep : UInt8) (l : Bytes) : splitOn sep l ≠ [] := by
  cases l with
  | nil => simp [splitOn]
  | cons c cs =>
    unfold splitOn
    split
    · simp
    · split <;> simp

/-- splitting distributes over a separator in the middle -/
theorem splitOn_append (sep : UInt8) (a b : Bytes) :
    splitOn sep (a ++ sep :: b) = splitOn sep a ++ splitOn sep b := by
  induction a with
  | nil => simp [splitOn]
  | cons c cs ih =>
    by_cases hc : c = sep
    · simp only [List.cons_append, splitOn, hc, if_true, ih]
    · simp only [List.cons_append, splitOn, hc, if_false, ih]
      cases hs : splitOn sep cs with
      | nil => exact absurd hs (splitOn_ne_nil sep cs)
      | cons s ss => simp

/-- `isPathUnderPrefix` is component-wise: the components of the (clean) prefix are a prefix of the
    components of the (clean) path — "/var/wwwevil" is not under "/var/www". -/
theorem underPrefix_componentwise (nfc : Bytes → Bytes) (path pre : Bytes)
    (h : underPrefix nfc path pre = true) (hns : hasSuffix [SL] (normalize nfc pre) = false) :
    splitOn SL (normalize nfc pre) <+: splitOn SL (normalize nfc path) := by
  unfold underPrefix at h
  simp only [hns, Bool.false_eq_true, if_false, Bool.or_eq_true, beq_iff_eq] at h
  rcases h with h | h
  · rw [h]; exact List.prefix_refl _
  · obtain ⟨rest, hr⟩ := List.isPrefixOf_iff_prefix.mp h
    rw [← hr]
    have : normalize nfc pre ++ [SL] ++ rest = normalize nfc pre ++ SL :: rest := by simp
    rw [this, splitOn_append]
    exact List.prefix_append _ _

/-- `k`-th ancestor directory -/
def ancestor : Nat → Bytes → Bytes
  | 0, d => d
  | k + 1, d => ancestor k (dirOf d)

/-- the parent walk finds a match only at an ancestor (or the path itself) -/
theorem parentWalk_spec (pat : Bytes) : ∀ (fuel : Nat) (dir : Bytes), parentWalk pat fuel dir = true →
    ∃ k, matchOK pat (ancestor k dir) = true := by
  intro fuel
  induction fuel with
  | zero => intro dir h; simp [parentWalk] at h
  | succ f ih =>
    intro dir h
    unfold parentWalk at h
    split at h
    · cases h
    · rcases Bool.or_eq_true _ _ |>.mp h with h | h
      · exact ⟨0, h⟩
      · obtain ⟨k, hk⟩ := ih _ h
        exact ⟨k + 1, hk⟩

/-! ### where an operation can touch the filesystem -/

theorem opDownload_touched {x : Ctx} {nfc : Bytes → Bytes} {fu : Nat} {c : Cfg} {fs : FS} {path : Bytes} {q : Path}
    (hq : q ∈ (opDownload x nfc fu c fs path).touched) :
    ∃ k, stat fs fu (compsOf (clean path)) = .found q k := by
  unfold opDownload at hq
  dsimp only at hq
  repeat' split at hq
  all_goals first
    | (simp only [failR, List.not_mem_nil] at hq; done)
    | (simp only [List.mem_singleton] at hq; subst hq; exact ⟨_, by assumption⟩)

theorem opList_touched {fu : Nat} {fs : FS} {path : Bytes} {q : Path}
    (hq : q ∈ (opList fu fs path).touched) :
    ∃ k, stat fs fu (compsOf (clean path)) = .found q k := by
  unfold opList at hq
  repeat' split at hq
  all_goals first
    | (simp only [failR, List.not_mem_nil] at hq; done)
    | (simp only [List.mem_singleton] at hq; subst hq; exact ⟨_, by assumption⟩)

theorem opStat_touched {fu : Nat} {fs : FS} {path : Bytes} {q : Path}
    (hq : q ∈ (opStat fu fs path).touched) :
    (∃ k, stat fs fu (compsOf (clean path)) = .found q k) ∨ (∃ k, lstat fs fu (compsOf (clean path)) = .found q k) := by
  unfold opStat at hq
  dsimp only at hq
  repeat' split at hq
  all_goals first
    | (simp only [failR, List.not_mem_nil] at hq; done)
    | (simp only [List.mem_singleton] at hq; subst hq; exact Or.inr ⟨_, by assumption⟩)
    | (simp only [List.mem_cons, List.mem_nil_iff, or_false] at hq
       rcases hq with rfl | rfl
       · exact Or.inr ⟨_, by assumption⟩
       · exact Or.inl ⟨_, by assumption⟩)

theorem opChmod_touched {fu : Nat} {fs : FS} {path : Bytes} {q : Path}
    (hq : q ∈ (opChmod fu fs path).touched) :
    ∃ q0 k, stat fs fu (compsOf (clean path)) = .found q0 k ∧ q ∈ aliases fs q0 := by
  unfold opChmod at hq
  repeat' split at hq
  all_goals first
    | (simp only [failR, List.not_mem_nil] at hq; done)
    | exact ⟨_, _, by assumption, hq⟩

theorem opDelete_touched {fu : Nat} {fs : FS} {path : Bytes} {q q0 : Path} {k : Kind}
    (hl : lstat fs fu (compsOf (clean path)) = .found q0 k) (hk : ∀ t, k ≠ .sym t)
    (hq : q ∈ (opDelete fu fs path false).touched) : q = q0 := by
  unfold opDelete at hq
  dsimp only at hq
  rw [hl] at hq
  cases k with
  | sym t => exact absurd rfl (hk t)
  | dir =>
    dsimp only at hq
    repeat' split at hq
    all_goals first
      | (simp only [List.mem_singleton, List.mem_append, or_self] at hq; exact hq)
      | (simp only [List.not_mem_nil] at hq; done)
      | (rename_i h2; simp at h2; done)
  | file i =>
    dsimp only at hq
    repeat' split at hq
    all_goals first
      | (simp only [List.mem_singleton, List.mem_append, List.not_mem_nil, false_or] at hq; exact hq)
      | (simp only [List.not_mem_nil] at hq; done)
      | (rename_i h2; simp at h2; done)
theorem opDelete_notfound {fu : Nat} {fs : FS} {path : Bytes} {q : Path}
    (hl : ∀ q0 k, lstat fs fu (compsOf (clean path)) ≠ .found q0 k)
    (hq : q ∈ (opDelete fu fs path false).touched) : False := by
  unfold opDelete at hq
  dsimp only at hq
  split at hq
  · exact hl _ _ (by assumption)
  · simp [failR] at hq
theorem changedKeys_mem {fs fs1 : FS} {q : Path} (h : q ∈ changedKeys fs fs1) : fs1.lookup q ≠ fs.lookup q := by
  unfold changedKeys at h
  obtain ⟨e, he, hq⟩ := List.mem_map.mp h
  have := (List.mem_filter.mp he).2
  subst hq
  simpa using this

theorem opUpload_touched {x : Ctx} {fu : Nat} {c : Cfg} {fs : FS} {path : Bytes} {content : Nat} {q : Path}
    (hq : q ∈ (opUpload x fu c fs path content).touched) :
    q ∈ changedKeys fs (mkdirAll fs fu (compsOf (clean path)).dropLast).1 ∨
    (∃ q0 i, stat (mkdirAll fs fu (compsOf (clean path)).dropLast).1 fu (compsOf (clean path)) = .found q0 (.file i) ∧
        q ∈ aliases (mkdirAll fs fu (compsOf (clean path)).dropLast).1 q0) ∨
    (∃ par n, stat (mkdirAll fs fu (compsOf (clean path)).dropLast).1 fu (compsOf (clean path)) = .missing par n ∧
        q = par ++ [n]) := by
  unfold opUpload at hq
  split at hq
  · simp [failR] at hq
  · dsimp only at hq
    cases hm : mkdirAll fs fu (compsOf (clean path)).dropLast with
    | mk fs1 ok =>
      rw [hm] at hq
      cases ok with
      | false => exact Or.inl hq
      | true =>
        simp only at hq
        cases hs : stat fs1 fu (compsOf (clean path)) with
        | found q0 k =>
          rw [hs] at hq
          cases k with
          | file i =>
            simp only [List.mem_append] at hq
            rcases hq with h | h
            · exact Or.inl h
            · exact Or.inr (Or.inl ⟨q0, i, rfl, h⟩)
          | dir => exact Or.inl hq
          | sym t => exact Or.inl hq
        | missing par n =>
          rw [hs] at hq
          simp only [List.mem_append, List.mem_singleton] at hq
          rcases hq with h | h
          · exact Or.inl h
          · exact Or.inr (Or.inr ⟨par, n, rfl, h⟩)
        | err => rw [hs] at hq; exact Or.inl hq

theorem removeAll_gone {fs : FS} {fu : Nat} {P q q0 : Path} {k : Kind}
    (hl : lstat fs fu P = .found q0 k) (hq : q ∈ (removeAll fs fu P).2) : q0 <+: q := by
  unfold removeAll at hq
  rw [hl] at hq
  cases k with
  | dir =>
    simp only at hq
    split at hq
    · simp at hq
    · obtain ⟨e, he, hqe⟩ := List.mem_map.mp hq
      have := (List.mem_filter.mp he).2
      subst hqe
      exact List.isPrefixOf_iff_prefix.mp this
  | file i => simp only [List.mem_singleton] at hq; rw [hq]; exact List.prefix_refl _
  | sym t => simp only [List.mem_singleton] at hq; rw [hq]; exact List.prefix_refl _

theorem opDeleteRec_touched {fu : Nat} {fs : FS} {path : Bytes} {q q0 : Path} {k : Kind}
    (hl : lstat fs fu (compsOf (clean path)) = .found q0 k) (hk : ∀ t, k ≠ .sym t)
    (hq : q ∈ (opDelete fu fs path true).touched) : q0 <+: q := by
  unfold opDelete at hq
  dsimp only at hq
  rw [hl] at hq
  cases k with
  | sym t => exact absurd rfl (hk t)
  | dir =>
    dsimp only at hq
    repeat' split at hq
    all_goals first
      | (simp only [List.mem_singleton] at hq; rw [hq]; exact List.prefix_refl _)
      | (simp only [List.mem_append, List.mem_singleton] at hq
         rcases hq with h | h
         · rw [h]; exact List.prefix_refl _
         · first
           | exact removeAll_gone hl h
           | (rw [h]; exact List.prefix_refl _))
      | (rename_i h2; simp at h2; done)
  | file i =>
    dsimp only at hq
    repeat' split at hq
    all_goals first
      | (simp only [List.mem_singleton, List.mem_append, List.not_mem_nil, false_or] at hq; rw [hq]; exact List.prefix_refl _)
      | (simp only [List.not_mem_nil] at hq; done)
      | (rename_i h2; simp at h2; done)

end MM.C26
