import MM.Model.C26

namespace MM.C26

end MM.C26
