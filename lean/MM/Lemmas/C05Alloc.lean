/-
  Allocation bounds for the codec combinators: `c.AllocBound A K` says that parsing `bs` requests
  at most `A·(bytes consumed) + K` bytes when it succeeds and at most `A·|bs| + K` in any case.
  Compositions keep `A` and add up the constants `K` (one `make` from a 1-byte count each).
-/
import MM.Lemmas.C05Comb

namespace MM.C05
open MM

def Codec.AllocBound (c : Codec α) (A K : Nat) : Prop :=
  ∀ bs, (∀ a r, c.dec bs = some (a, r) → c.alloc bs + A * r.length ≤ A * bs.length + K) ∧
        c.alloc bs ≤ A * bs.length + K

theorem AllocBound.monoK {c : Codec α} {A K K' : Nat} (h : c.AllocBound A K) (hk : K ≤ K') :
    c.AllocBound A K' := by
  intro bs
  have := h bs
  exact ⟨fun a r hd => Nat.le_trans (this.1 a r hd) (by omega), Nat.le_trans this.2 (by omega)⟩

/-- a codec that allocates nothing -/
theorem zero_alloc {c : Codec α} (A : Nat) (hz : ∀ bs, c.alloc bs = 0) (hs : c.Shrinks) :
    c.AllocBound A 0 := by
  intro bs
  refine ⟨fun a r hd => ?_, by rw [hz]; omega⟩
  rw [hz]
  have := Nat.mul_le_mul_left A (hs _ _ _ hd)
  omega

theorem be_alloc (k A : Nat) : (be k).AllocBound A 0 := zero_alloc A (fun _ => rfl) (be_shrinks k)
theorem bool_alloc (A : Nat) : bool.AllocBound A 0 := zero_alloc A (fun _ => rfl) bool_shrinks
theorem failC_alloc (A : Nat) : failC.AllocBound A 0 := zero_alloc A (fun _ => rfl) failC_shrinks

/-- a codec whose allocation is at most what it consumes, and nothing when it fails -/
theorem consumed_alloc {c : Codec α} (A : Nat) (hA : 1 ≤ A)
    (hok : ∀ bs a r, c.dec bs = some (a, r) → c.alloc bs + r.length ≤ bs.length)
    (hfail : ∀ bs, c.dec bs = none → c.alloc bs = 0) : c.AllocBound A 0 := by
  intro bs
  have key : ∀ a r, c.dec bs = some (a, r) → c.alloc bs + A * r.length ≤ A * bs.length + 0 := by
    intro a r hd
    have h1 := hok bs a r hd
    have h2 : A * (c.alloc bs + r.length) ≤ A * bs.length := Nat.mul_le_mul_left A h1
    rw [Nat.mul_add] at h2
    have h3 : c.alloc bs ≤ A * c.alloc bs := Nat.le_mul_of_pos_left _ hA
    omega
  refine ⟨key, ?_⟩
  cases hd : c.dec bs with
  | none => rw [hfail bs hd]; omega
  | some p =>
    have := key p.1 p.2 hd
    omega

theorem bytesN_alloc (n A : Nat) (hA : 1 ≤ A) : (bytesN n).AllocBound A 0 := by
  apply consumed_alloc A hA
  · intro bs a r h
    simp only [bytesN] at h ⊢
    split at h
    · next hn =>
      injection h with h; injection h with h1 h2
      subst h2
      rw [if_pos hn]; simp; omega
    · cases h
  · intro bs h
    simp only [bytesN] at h ⊢
    split at h
    · cases h
    · next hn => rw [if_neg hn]

theorem lp_alloc (k A : Nat) (hA : 1 ≤ A) : (lp k).AllocBound A 0 := by
  apply consumed_alloc A hA
  · intro bs a r h
    simp only [lp] at h ⊢
    split at h
    · next hk =>
      try dsimp only at h
      split at h
      · next hn =>
        injection h with h; injection h with h1 h2
        subst h2
        rw [if_pos hk]
        try dsimp only
        rw [if_pos hn]
        simp at hn ⊢; omega
      · cases h
    · cases h
  · intro bs h
    simp only [lp] at h ⊢
    split at h
    · next hk =>
      try dsimp only at h
      split at h
      · cases h
      · next hn =>
        rw [if_pos hk]
        try dsimp only
        rw [if_neg hn]
    · next hk => rw [if_neg hk]

theorem peek1_alloc (A : Nat) (hA : 1 ≤ A) : peek1.AllocBound A 0 := by
  apply consumed_alloc A hA
  · intro bs a r h
    cases bs with
    | nil => simp [peek1] at h
    | cons b t =>
      simp only [peek1] at h ⊢
      split at h
      · next hb =>
        injection h with h; injection h with h1 h2
        subst h2
        rw [if_pos hb]; simp; omega
      · cases h
  · intro bs h
    cases bs with
    | nil => rfl
    | cons b t =>
      simp only [peek1] at h ⊢
      split at h
      · cases h
      · next hb => rw [if_neg hb]

theorem fwdPrefix_alloc (A : Nat) (hA : 1 ≤ A) : fwdPrefix.AllocBound A 0 := by
  apply consumed_alloc A hA
  · intro bs a r h
    cases bs with
    | nil => simp [fwdPrefix] at h
    | cons k t =>
      simp only [fwdPrefix] at h ⊢
      have hl : (t.drop k.toNat).length = t.length - k.toNat := List.length_drop ..
      generalize t.drop k.toNat = d at h hl ⊢
      cases d with
      | nil => cases h
      | cons tt r2 =>
        simp only at h ⊢
        split at h
        · next ht =>
          injection h with h; injection h with h1 h2
          subst h2
          rw [if_pos ht]
          simp at hl ⊢; omega
        · cases h
  · intro bs h
    cases bs with
    | nil => rfl
    | cons k t =>
      simp only [fwdPrefix] at h ⊢
      generalize t.drop k.toNat = d at h ⊢
      cases d with
      | nil => rfl
      | cons tt r2 =>
        simp only at h ⊢
        split at h
        · cases h
        · next ht => rw [if_neg ht]

theorem seq_alloc {a : Codec α} {b : Codec β} {A Ka Kb : Nat} (ha : a.AllocBound A Ka)
    (hb : b.AllocBound A Kb) : (seq a b).AllocBound A (Ka + Kb) := by
  intro bs
  have hA := ha bs
  simp only [seq]
  cases hd : a.dec bs with
  | none =>
    refine ⟨fun x r h => by simp at h, ?_⟩
    simp only []
    have := hA.2
    omega
  | some p =>
    obtain ⟨x, r1⟩ := p
    have h1 := hA.1 x r1 hd
    have hB := hb r1
    simp only []
    refine ⟨?_, by have := hB.2; omega⟩
    intro y r h
    cases hd2 : b.dec r1 with
    | none => simp [hd2] at h
    | some q =>
      obtain ⟨y', r'⟩ := q
      simp [hd2] at h
      obtain ⟨_, rfl⟩ := h
      have := hB.1 y' r' hd2
      omega

theorem dep_alloc {a : Codec τ} {f : τ → Codec β} {A Ka Kb : Nat} (ha : a.AllocBound A Ka)
    (hf : ∀ t, (f t).AllocBound A Kb) : (dep a f).AllocBound A (Ka + Kb) := by
  intro bs
  have hA := ha bs
  simp only [dep]
  cases hd : a.dec bs with
  | none =>
    refine ⟨fun x r h => by simp at h, ?_⟩
    simp only []
    have := hA.2
    omega
  | some p =>
    obtain ⟨x, r1⟩ := p
    have h1 := hA.1 x r1 hd
    have hB := hf x r1
    simp only []
    refine ⟨?_, by have := hB.2; omega⟩
    intro y r h
    cases hd2 : (f x).dec r1 with
    | none => simp [hd2] at h
    | some q =>
      obtain ⟨y', r'⟩ := q
      simp [hd2] at h
      obtain ⟨_, rfl⟩ := h
      have := hB.1 y' r' hd2
      omega

theorem repAlloc_bound {c : Codec α} {A : Nat} (hc : c.AllocBound A 0) :
    ∀ (n : Nat) (bs : Bytes),
      (∀ l r, repDec c n bs = some (l, r) → repAlloc c n bs + A * r.length ≤ A * bs.length) ∧
      repAlloc c n bs ≤ A * bs.length := by
  intro n
  induction n with
  | zero =>
    intro bs
    refine ⟨fun l r h => ?_, by simp [repAlloc]⟩
    simp only [repDec] at h
    injection h with h; injection h with h1 h2
    subst h2; simp [repAlloc]
  | succ n ih =>
    intro bs
    have hC := hc bs
    simp only [repAlloc, repDec]
    cases hd : c.dec bs with
    | none =>
      refine ⟨fun l r h => by simp at h, ?_⟩
      simp only []
      have := hC.2
      omega
    | some p =>
      obtain ⟨x, r1⟩ := p
      have h1 := hC.1 x r1 hd
      have hR := ih r1
      simp only []
      refine ⟨?_, by have := hR.2; omega⟩
      intro l r h
      cases hd2 : repDec c n r1 with
      | none => simp [hd2] at h
      | some q =>
        obtain ⟨l', r'⟩ := q
        simp [hd2] at h
        obtain ⟨_, rfl⟩ := h
        have := hR.1 l' r' hd2
        omega

/-- list with a 1-byte count: one `make` of at most 255 elements, then items that only allocate
    what they consume -/
theorem listN1_alloc {c : Codec α} {A : Nat} (esz : Nat) (hc : c.AllocBound A 0) :
    (listN 1 c esz).AllocBound A (esz * 255) := by
  intro bs
  simp only [listN]
  by_cases hk : 1 ≤ bs.length
  · rw [if_pos hk, if_pos hk]
    have hcnt : unbe (bs.take 1) ≤ 255 := by
      have := unbe_lt (bs.take 1)
      have hl : (bs.take 1).length = 1 := by simp [List.length_take]; omega
      rw [hl] at this
      omega
    have hmul : esz * unbe (bs.take 1) ≤ esz * 255 := Nat.mul_le_mul_left esz hcnt
    have hR := repAlloc_bound hc (unbe (bs.take 1)) (bs.drop 1)
    have hdl : (bs.drop 1).length ≤ bs.length := by simp
    have hAd : A * (bs.drop 1).length ≤ A * bs.length := Nat.mul_le_mul_left A hdl
    refine ⟨fun l r h => ?_, by have := hR.2; omega⟩
    have := hR.1 l r h
    omega
  · rw [if_neg hk, if_neg hk]
    exact ⟨fun l r h => (by cases h), (by omega)⟩

theorem refine_alloc {c : Codec α} {A1 A2 K1 Kn : Nat} (p : α → Bool) (nested : α → Nat)
    (hc : c.AllocBound A1 K1)
    (hn : ∀ bs x r, c.dec bs = some (x, r) → nested x + A2 * r.length ≤ A2 * bs.length + Kn) :
    (refine c p nested).AllocBound (A1 + A2) (K1 + Kn) := by
  intro bs
  have hC := hc bs
  simp only [refine]
  cases hd : c.dec bs with
  | none =>
    refine ⟨fun x r h => by simp at h, ?_⟩
    simp only []
    have := hC.2
    have : (A1 + A2) * bs.length = A1 * bs.length + A2 * bs.length := Nat.add_mul ..
    omega
  | some q =>
    obtain ⟨x, r1⟩ := q
    have h1 := hC.1 x r1 hd
    have h2 := hn bs x r1 hd
    have e1 : (A1 + A2) * bs.length = A1 * bs.length + A2 * bs.length := Nat.add_mul ..
    have e2 : (A1 + A2) * r1.length = A1 * r1.length + A2 * r1.length := Nat.add_mul ..
    simp only []
    refine ⟨?_, by omega⟩
    intro y r h
    split at h
    · injection h with h; injection h with h3 h4
      subst h4
      omega
    · cases h

theorem preEnc_alloc {c : Codec α} {A K : Nat} (norm : α → α) (hc : c.AllocBound A K) :
    (preEnc c norm).AllocBound A K := hc

/-- top level: at most `A·len + K` -/
theorem decodeTopAlloc_le {c : Codec α} {A K : Nat} (hc : c.AllocBound A K) (minLen : Nat) (bs : Bytes) :
    decodeTopAlloc minLen c bs ≤ A * bs.length + K := by
  unfold decodeTopAlloc
  split
  · omega
  · exact (hc bs).2

/-- top level with a positive minimum length: purely linear, `(A + K/minLen + 1)·len` (an input
    shorter than the pre-check allocates nothing) -/
theorem decodeTopAlloc_linear {c : Codec α} {A K : Nat} (hc : c.AllocBound A K) (minLen : Nat)
    (hm : 0 < minLen) (bs : Bytes) :
    decodeTopAlloc minLen c bs ≤ (A + K / minLen + 1) * bs.length := by
  unfold decodeTopAlloc
  split
  · omega
  · next hlen =>
    have h1 := (hc bs).2
    have hge : minLen ≤ bs.length := by omega
    have hK : K ≤ (K / minLen + 1) * bs.length := by
      have h2 : K < (K / minLen + 1) * minLen := by
        have := Nat.lt_div_mul_add hm (a := K)
        rw [Nat.add_mul, Nat.one_mul]
        exact this
      have h3 : (K / minLen + 1) * minLen ≤ (K / minLen + 1) * bs.length := Nat.mul_le_mul_left _ hge
      omega
    have e : (A + K / minLen + 1) * bs.length = A * bs.length + (K / minLen + 1) * bs.length := by
      rw [Nat.add_assoc, Nat.add_mul]
    omega

end MM.C05
