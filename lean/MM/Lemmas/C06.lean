/-
  Helper lemmas for C06: classification undoes route construction, the splitting loop keeps
  every route exactly once in groups that fit the wire format, encoded sizes.
-/
import MM.Model.C06
import MM.Lemmas.C05

namespace MM.C06
open MM MM.C05

/-! ### classify ∘ toRoute -/

theorem uint8_ofNat_toNat {n : Nat} (h : n < 256) : (UInt8.ofNat n).toNat = n := by
  simp [UInt8.toNat_ofNat']; omega

theorem decodeLenPrefixed_lenPrefixed (s rest : Bytes) (h : s.length < 256) :
    decodeLenPrefixed (lenPrefixed s ++ rest) = s := by
  simp only [lenPrefixed, List.cons_append, decodeLenPrefixed, uint8_ofNat_toNat h]
  rw [if_neg (by simp)]
  simp

theorem decodeKeyTarget_enc (k t : Bytes) (hk : k.length < 256) (ht : t.length < 256) :
    decodeKeyTarget (lenPrefixed k ++ lenPrefixed t) = (k, t) := by
  simp only [lenPrefixed, List.cons_append, decodeKeyTarget, uint8_ofNat_toNat hk]
  rw [if_neg (by simp)]
  have h1 : (k ++ UInt8.ofNat t.length :: t).take k.length = k := by simp
  have h2 : (k ++ UInt8.ofNat t.length :: t).drop k.length = UInt8.ofNat t.length :: t := by simp
  rw [h1, h2]
  have := decodeLenPrefixed_lenPrefixed t [] ht
  simp only [lenPrefixed, List.append_nil] at this
  rw [this]

theorem fitTo_self (n : Nat) (p : Bytes) (h : p.length = n) : fitTo n p = p := by
  unfold fitTo; subst h; simp

/-- The neighbour's classification switch recovers exactly the originated entry. -/
theorem classify_toRoute (e : Entry) (h : entryWF e = true) : classify (toRoute e) = some e := by
  cases e with
  | cidr fam plen ip m =>
    simp only [entryWF, Bool.and_eq_true, Bool.or_eq_true, beq_iff_eq, decide_eq_true_eq] at h
    rcases h.1 with ⟨⟨hf, hl⟩, _⟩ | ⟨⟨hf, hl⟩, _⟩
    · subst hf
      have hne : ip.isEmpty = false := by cases ip <;> simp_all
      simp [classify, toRoute, hne, fitTo_self 4 ip hl]
    · subst hf
      have hne : ip.isEmpty = false := by cases ip <;> simp_all
      simp [classify, toRoute, hne, fitTo_self 16 ip hl]
  | domain p w m =>
    simp only [entryWF, Bool.and_eq_true, decide_eq_true_eq] at h
    have hp := decodeLenPrefixed_lenPrefixed p [] h.1.1.2
    rw [List.append_nil] at hp
    have hne : p.isEmpty = false := by cases p <;> simp_all
    cases w <;> simp [classify, toRoute, hp, hne]
  | forward k t m =>
    simp only [entryWF, Bool.and_eq_true, decide_eq_true_eq] at h
    have hkt := decodeKeyTarget_enc k t h.1.1.2 h.1.2
    have hne : k.isEmpty = false := by cases k <;> simp_all
    simp [classify, toRoute, hkt, hne]
  | agent id m =>
    simp only [entryWF, Bool.and_eq_true, beq_iff_eq, bne_iff_ne, ne_eq, decide_eq_true_eq] at h
    have hl : id.length = 16 := h.1.1
    have ht : id.take 16 = id := List.take_of_length_le (by omega)
    simp [classify, toRoute, hl, ht, h.1.2]

theorem filterMap_classify_toRoute (es : List Entry) (h : es.all entryWF = true) :
    (es.map toRoute).filterMap classify = es := by
  induction es with
  | nil => rfl
  | cons e es ih =>
    have h' : entryWF e = true ∧ es.all entryWF = true := by simpa using h
    simp [classify_toRoute e h'.1, ih h'.2]

/-! ### routes on the wire -/

theorem advPrefix_enc (f : Nat) (p : Bytes) : (advPrefix f).enc p = p := by
  unfold advPrefix
  split
  · rfl
  · split
    · rfl
    · split <;> rfl

theorem advRoute_enc_length (r : PRoute) : (advRouteC.enc r).length = routeSize r := by
  simp [advRouteC, seq, dep, be, advPrefix_enc, routeSize]; omega

def sizeOf (l : List PRoute) : Nat := (l.map routeSize).sum

theorem encAll_advRoute_length (l : List PRoute) : (encAll advRouteC l).length = sizeOf l := by
  induction l with
  | nil => rfl
  | cons r rs ih =>
    have : encAll advRouteC (r :: rs) = advRouteC.enc r ++ encAll advRouteC rs := by simp [encAll]
    rw [this, List.length_append, ih, advRoute_enc_length]
    simp [sizeOf]

/-- a well-formed entry becomes a route that fits the wire format -/
theorem toRoute_wf (e : Entry) (h : entryWF e = true) : advRouteC.wf (toRoute e) = true := by
  cases e with
  | cidr fam plen ip m =>
    simp only [entryWF, Bool.and_eq_true, Bool.or_eq_true, beq_iff_eq, decide_eq_true_eq] at h
    rcases h.1 with ⟨⟨hf, hl⟩, hp⟩ | ⟨⟨hf, hl⟩, hp⟩
    · subst hf
      simp [advRouteC, seq, dep, be, toRoute, advPrefix, bytesN, hl]; omega
    · subst hf
      simp [advRouteC, seq, dep, be, toRoute, advPrefix, bytesN, hl]; omega
  | domain p w m =>
    simp only [entryWF, Bool.and_eq_true, decide_eq_true_eq] at h
    have := uint8_ofNat_toNat h.1.1.2
    cases w <;> simp [advRouteC, seq, dep, be, toRoute, advPrefix, peek1, lenPrefixed, this] <;> omega
  | forward k t m =>
    simp only [entryWF, Bool.and_eq_true, decide_eq_true_eq] at h
    have hk := uint8_ofNat_toNat h.1.1.2
    have ht := uint8_ofNat_toNat h.1.2
    simp [advRouteC, seq, dep, be, toRoute, advPrefix, fwdPrefix, lenPrefixed, hk, ht]; omega
  | agent id m =>
    simp only [entryWF, Bool.and_eq_true, beq_iff_eq, decide_eq_true_eq] at h
    have hl : id.length = 16 := h.1.1
    simp [advRouteC, seq, dep, be, toRoute, advPrefix, bytesN, hl]; omega

/-- encoded size of a route built from a well-formed entry: at most 4 + 512 bytes -/
theorem toRoute_size (e : Entry) (h : entryWF e = true) : routeSize (toRoute e) ≤ 516 := by
  cases e with
  | cidr fam plen ip m =>
    simp only [entryWF, Bool.and_eq_true, Bool.or_eq_true, beq_iff_eq, decide_eq_true_eq] at h
    rcases h.1 with ⟨⟨_, hl⟩, _⟩ | ⟨⟨_, hl⟩, _⟩ <;> simp [routeSize, toRoute, hl]
  | domain p w m =>
    simp only [entryWF, Bool.and_eq_true, decide_eq_true_eq] at h
    simp [routeSize, toRoute, lenPrefixed]; omega
  | forward k t m =>
    simp only [entryWF, Bool.and_eq_true, decide_eq_true_eq] at h
    simp [routeSize, toRoute, lenPrefixed]; omega
  | agent id m =>
    simp only [entryWF, Bool.and_eq_true, beq_iff_eq, decide_eq_true_eq] at h
    have hl : id.length = 16 := h.1.1
    simp [routeSize, toRoute, hl]

/-! ### the splitting loop -/

theorem splitLoop_flatten (budget : Nat) :
    ∀ (rs cur : List PRoute) (size : Nat),
      (splitLoop budget rs cur size).flatten = cur.reverse ++ rs := by
  intro rs
  induction rs with
  | nil => intro cur size; simp [splitLoop]
  | cons r rs ih =>
    intro cur size
    unfold splitLoop
    split
    · simp [ih]
    · simp [ih]

theorem sizeOf_reverse (l : List PRoute) : sizeOf l.reverse = sizeOf l := by
  simp [sizeOf, List.sum_reverse]

theorem sizeOf_cons (r : PRoute) (l : List PRoute) : sizeOf (r :: l) = routeSize r + sizeOf l := by
  simp [sizeOf]

/-- every group has at most 255 routes, and is either within the byte budget or a single route -/
theorem splitLoop_groups (budget M : Nat) :
    ∀ (rs cur : List PRoute) (size : Nat),
      (∀ r ∈ rs, routeSize r ≤ M) → size = sizeOf cur → cur.length ≤ 255 →
      sizeOf cur ≤ max budget M →
      ∀ g ∈ splitLoop budget rs cur size, g.length ≤ 255 ∧ sizeOf g ≤ max budget M := by
  intro rs
  induction rs with
  | nil =>
    intro cur size _ _ hc hs g hg
    simp only [splitLoop, List.mem_singleton] at hg
    subst hg
    simp [sizeOf_reverse, hc, hs]
  | cons r rs ih =>
    intro cur size hM hsize hc hs g hg
    have hr : routeSize r ≤ M := hM r (by simp)
    have hM' : ∀ x ∈ rs, routeSize x ≤ M := fun x hx => hM x (by simp [hx])
    unfold splitLoop at hg
    split at hg
    · -- close the current group, start a new one with r
      rcases List.mem_cons.mp hg with h | h
      · subst h
        simp [sizeOf_reverse, hc, hs]
      · refine ih [r] (routeSize r) hM' (by simp [sizeOf]) (by simp) ?_ g h
        simp [sizeOf]; omega
    · next hcond =>
      -- r joins the current group
      have hcond' : cur = [] ∨ (cur.length < 255 ∧ size + routeSize r ≤ budget) := by
        cases cur with
        | nil => left; rfl
        | cons c cs =>
          right
          simp at hcond
          simp only [List.length_cons]
          omega
      refine ih (r :: cur) (size + routeSize r) hM' (by rw [sizeOf_cons, hsize]; omega) ?_ ?_ g hg
      · rcases hcond' with h | h
        · subst h; simp
        · simp; omega
      · rw [sizeOf_cons]
        rcases hcond' with h | h
        · subst h; simp [sizeOf]; omega
        · omega

theorem splitRoutes_flatten (budget : Nat) (rs : List PRoute) :
    (splitRoutes budget rs).flatten = rs := by
  simp [splitRoutes, splitLoop_flatten]

theorem splitRoutes_groups (budget M : Nat) (rs : List PRoute) (hM : ∀ r ∈ rs, routeSize r ≤ M) :
    ∀ g ∈ splitRoutes budget rs, g.length ≤ 255 ∧ sizeOf g ≤ max budget M :=
  splitLoop_groups budget M rs [] 0 hM (by simp [sizeOf]) (by simp) (by simp [sizeOf])

/-- membership: every route of every group is one of the input routes -/
theorem splitRoutes_mem (budget : Nat) (rs : List PRoute) (g : List PRoute)
    (hg : g ∈ splitRoutes budget rs) : ∀ r ∈ g, r ∈ rs := by
  intro r hr
  have : r ∈ (splitRoutes budget rs).flatten := List.mem_flatten.mpr ⟨g, hg, hr⟩
  rwa [splitRoutes_flatten] at this

/-! ### one advertisement -/

theorem routeAdvertise_roundtrip (m : RouteAdv) (h : routeAdvertiseC.wf m = true) :
    decodeRouteAdvertise (routeAdvertiseC.enc m) = some m :=
  decodeTop_roundtrip routeAdvertise_sound 28 m h
    ((by unfold routeAdvertiseC encPathC; codec_minlen : routeAdvertiseC.MinLen 28) m h)

theorem encAll_ids_length (l : List Bytes) (h : l.all id16.wf = true) :
    (encAll id16 l).length = 16 * l.length := by
  induction l with
  | nil => rfl
  | cons x xs ih =>
    have h' : x.length = 16 ∧ xs.all id16.wf = true := by simpa [bytesN] using h
    have : encAll id16 (x :: xs) = x ++ encAll id16 xs := by simp [encAll, bytesN]
    rw [this, List.length_append, ih h'.2, h'.1]
    simp; omega

theorem adv_enc_length (b : Base) (sq : Nat) (g : List PRoute) :
    (routeAdvertiseC.enc (b.adv sq g)).length = fixedLen b + sizeOf g := by
  have := encAll_advRoute_length g
  simp [fixedLen, routeAdvertiseC, C05.seq, Base.adv, be, lp, listN, encPathC, refine, C05.bool, bytesN,
    encAll] at this ⊢
  omega

theorem ids_wf_split (l : List Bytes) (h : ids.wf l = true) :
    l.length < 256 ∧ l.all id16.wf = true := by
  simpa [listN] using h

theorem fixedLen_le (b : Base) (hb : baseWF b = true) : fixedLen b ≤ 8446 := by
  simp only [baseWF, Bool.and_eq_true, beq_iff_eq, decide_eq_true_eq] at hb
  obtain ⟨⟨⟨ho, hn⟩, hp⟩, hs⟩ := hb
  have hp' := ids_wf_split _ hp
  have hs' := ids_wf_split _ hs
  have l1 := encAll_ids_length _ hp'.2
  have l2 := encAll_ids_length _ hs'.2
  simp [fixedLen, routeAdvertiseC, C05.seq, Base.adv, be, lp, listN, encPathC, refine, C05.bool, bytesN,
    encAll] at l1 l2 ⊢
  omega

/-- an advertisement built for a group of at most 255 wire-format routes is well-formed -/
theorem adv_wf (b : Base) (hb : baseWF b = true) (sq : Nat) (hseq : sq < 2 ^ 64)
    (g : List PRoute) (hg : g.length ≤ 255) (hall : g.all advRouteC.wf = true) :
    routeAdvertiseC.wf (b.adv sq g) = true := by
  simp only [baseWF, Bool.and_eq_true, beq_iff_eq, decide_eq_true_eq] at hb
  obtain ⟨⟨⟨ho, hn⟩, hp⟩, hs⟩ := hb
  have hp' := ids_wf_split _ hp
  have hlen := encAll_ids_length _ hp'.2
  have hpath : pathOK (ids.enc b.path) = true := by
    have := ids_sound b.path [] hp
    rw [List.append_nil] at this
    simp [pathOK, this]
  have hlp : (lp 2).wf (ids.enc b.path) = true := by
    simp [lp, listN] at hlen ⊢
    omega
  simp only [routeAdvertiseC, C05.seq, Base.adv, Bool.and_eq_true]
  refine ⟨by simp [bytesN, ho], by simp [lp, hn], by simp [be]; omega, ?_, ?_, hs⟩
  · simp [listN, hall]; omega
  · simp [encPathC, refine, C05.seq, C05.bool, hlp, hpath]

/-- one delivered group is learned exactly -/
theorem learn_adv (b : Base) (hb : baseWF b = true) (sq : Nat) (hseq : sq < 2 ^ 64)
    (g : List PRoute) (hg : g.length ≤ 255) (hall : g.all advRouteC.wf = true) :
    learn (routeAdvertiseC.enc (b.adv sq g)) = some (g.filterMap classify) := by
  unfold learn
  rw [routeAdvertise_roundtrip _ (adv_wf b hb sq hseq g hg hall)]
  rfl

theorem learnAll_go (b : Base) (hb : baseWF b = true) :
    ∀ (groups : List (List PRoute)) (sq : Nat), sq + groups.length ≤ 2 ^ 64 →
      (∀ g ∈ groups, g.length ≤ 255 ∧ g.all advRouteC.wf = true ∧ fixedLen b + sizeOf g ≤ maxPayload) →
      learnAll (advertise.go b sq groups) = some (groups.flatten.filterMap classify) := by
  intro groups
  induction groups with
  | nil => intro sq _ _; rfl
  | cons g gs ih =>
    intro sq hseq hgs
    have hg := hgs g (by simp)
    have hrest := ih (sq + 1) (by simp at hseq; omega) (fun x hx => hgs x (by simp [hx]))
    have hdel : deliver (routeAdvertiseC.enc (b.adv sq g)) = some (routeAdvertiseC.enc (b.adv sq g)) := by
      unfold deliver
      rw [if_neg (by rw [adv_enc_length]; omega)]
    simp only [advertise.go, learnAll, hdel,
      learn_adv b hb sq (by simp at hseq; omega) g hg.1 hg.2.1, hrest]
    simp

/-! ### withdrawals -/

theorem routeWithdraw_roundtrip (m : RouteWd) (h : routeWithdrawC.wf m = true) :
    decodeRouteWithdraw (routeWithdrawC.enc m) = some m :=
  decodeTop_roundtrip routeWithdraw_sound 26 m h
    ((by unfold routeWithdrawC; codec_minlen : routeWithdrawC.MinLen 26) m h)

theorem toIPNet_toRoute (e : Entry) (h : entryWF e = true) (hc : isCidr e = true) :
    toIPNet (toRoute e) = some e := by
  cases e with
  | cidr fam plen ip m =>
    simp only [entryWF, Bool.and_eq_true, Bool.or_eq_true, beq_iff_eq, decide_eq_true_eq] at h
    rcases h.1 with ⟨⟨hf, hl⟩, _⟩ | ⟨⟨hf, hl⟩, _⟩
    · subst hf
      have hne : ip.isEmpty = false := by cases ip <;> simp_all
      simp [toIPNet, toRoute, hne, fitTo_self 4 ip hl]
    · subst hf
      have hne : ip.isEmpty = false := by cases ip <;> simp_all
      simp [toIPNet, toRoute, hne, fitTo_self 16 ip hl]
  | domain p w m => simp [isCidr] at hc
  | forward k t m => simp [isCidr] at hc
  | agent id m => simp [isCidr] at hc

theorem filterMap_toIPNet_toRoute (es : List Entry) (h : es.all entryWF = true)
    (hc : es.all isCidr = true) : (es.map toRoute).filterMap toIPNet = es := by
  induction es with
  | nil => rfl
  | cons e es ih =>
    have h' : entryWF e = true ∧ es.all entryWF = true := by simpa using h
    have hc' : isCidr e = true ∧ es.all isCidr = true := by simpa using hc
    simp [toIPNet_toRoute e h'.1 hc'.1, ih h'.2 hc'.2]

/-- a CIDR entry becomes a route that fits the ROUTE_WITHDRAW wire format -/
theorem toRoute_wdwf (e : Entry) (h : entryWF e = true) (hc : isCidr e = true) :
    wdRouteC.wf (toRoute e) = true := by
  cases e with
  | cidr fam plen ip m =>
    simp only [entryWF, Bool.and_eq_true, Bool.or_eq_true, beq_iff_eq, decide_eq_true_eq] at h
    rcases h.1 with ⟨⟨hf, hl⟩, hp⟩ | ⟨⟨hf, hl⟩, hp⟩
    · subst hf
      simp [wdRouteC, C05.seq, dep, be, toRoute, wdPrefixLen, bytesN, hl]; omega
    · subst hf
      simp [wdRouteC, C05.seq, dep, be, toRoute, wdPrefixLen, bytesN, hl]; omega
  | domain p w m => simp [isCidr] at hc
  | forward k t m => simp [isCidr] at hc
  | agent id m => simp [isCidr] at hc

theorem wdRoute_enc_length (r : PRoute) : (wdRouteC.enc r).length = routeSize r := by
  simp [wdRouteC, C05.seq, dep, be, bytesN, routeSize]; omega

theorem encAll_wdRoute_length (l : List PRoute) : (encAll wdRouteC l).length = sizeOf l := by
  induction l with
  | nil => rfl
  | cons r rs ih =>
    have : encAll wdRouteC (r :: rs) = wdRouteC.enc r ++ encAll wdRouteC rs := by simp [encAll]
    rw [this, List.length_append, ih, wdRoute_enc_length]
    simp [sizeOf]

theorem wd_enc_length (self : Bytes) (sq : Nat) (g : List PRoute) :
    (routeWithdrawC.enc (self, sq, g, [self])).length = withdrawFixed self + sizeOf g := by
  have := encAll_wdRoute_length g
  simp [withdrawFixed, routeWithdrawC, C05.seq, be, listN, bytesN, encAll] at this ⊢
  omega

theorem withdrawFixed_eq (self : Bytes) (h : self.length = 16) : withdrawFixed self = 42 := by
  simp [withdrawFixed, routeWithdrawC, C05.seq, be, listN, bytesN, encAll, h]

theorem wd_wf (self : Bytes) (hs : self.length = 16) (sq : Nat) (hseq : sq < 2 ^ 64)
    (g : List PRoute) (hg : g.length ≤ 255) (hall : g.all wdRouteC.wf = true) :
    routeWithdrawC.wf (self, sq, g, [self]) = true := by
  simp only [routeWithdrawC, C05.seq, Bool.and_eq_true]
  refine ⟨by simp [bytesN, hs], by simp [be]; omega, ?_, by simp [listN, bytesN, hs]⟩
  simp [listN, hall]; omega

theorem learnWithdraw_enc (self : Bytes) (hs : self.length = 16) (sq : Nat) (hseq : sq < 2 ^ 64)
    (g : List PRoute) (hg : g.length ≤ 255) (hall : g.all wdRouteC.wf = true) :
    learnWithdraw (routeWithdrawC.enc (self, sq, g, [self])) = some (g.filterMap toIPNet) := by
  unfold learnWithdraw
  rw [routeWithdraw_roundtrip _ (wd_wf self hs sq hseq g hg hall)]

theorem withdrawAll_go (self : Bytes) (hs : self.length = 16) :
    ∀ (groups : List (List PRoute)) (sq : Nat), sq + groups.length ≤ 2 ^ 64 →
      (∀ g ∈ groups, g.length ≤ 255 ∧ g.all wdRouteC.wf = true ∧
        withdrawFixed self + sizeOf g ≤ maxPayload) →
      withdrawAll (withdrawLocal.go self sq groups) = some (groups.flatten.filterMap toIPNet) := by
  intro groups
  induction groups with
  | nil => intro sq _ _; rfl
  | cons g gs ih =>
    intro sq hseq hgs
    have hg := hgs g (by simp)
    have hrest := ih (sq + 1) (by simp at hseq; omega) (fun x hx => hgs x (by simp [hx]))
    have hdel : deliver (routeWithdrawC.enc (self, sq, g, [self])) =
        some (routeWithdrawC.enc (self, sq, g, [self])) := by
      unfold deliver
      rw [if_neg (by rw [wd_enc_length]; omega)]
    simp only [withdrawLocal.go, withdrawAll, hdel,
      learnWithdraw_enc self hs sq (by simp at hseq; omega) g hg.1 hg.2.1, hrest]
    simp

theorem splitRoutes_length_le (budget : Nat) (rs : List PRoute) :
    (splitRoutes budget rs).length ≤ rs.length + 1 := by
  have : ∀ (rs cur : List PRoute) (size : Nat),
      (splitLoop budget rs cur size).length ≤ rs.length + 1 := by
    intro rs
    induction rs with
    | nil => intro cur size; simp [splitLoop]
    | cons r rs ih =>
      intro cur size
      unfold splitLoop
      split
      · have := ih [r] (routeSize r); simp; omega
      · have := ih (r :: cur) (size + routeSize r); simp; omega
  simpa [splitRoutes] using this rs [] 0

end MM.C06
