/-
  Helper lemmas for C21: inversion of a successful RFC 1929 exchange / method selection.
-/
import MM.Model.C21
import MM.Lemmas.C23
namespace MM.C21
open MM MM.C23

theorem lookup_some {m : List (Bytes × Bytes)} {k v : Bytes} (h : lookup m k = some v) : (k, v) ∈ m := by
  unfold lookup at h
  cases hf : m.reverse.find? (fun kv => kv.1 == k) with
  | none => simp [hf] at h
  | some kv =>
    rw [hf] at h
    have hm := List.mem_of_find?_eq_some hf
    have hk := List.find?_some hf
    simp at h hk hm
    subst h
    have : kv = (k, kv.2) := by rw [← hk]
    rw [← this]; exact hm

theorem two_bytes {l : Bytes} (h : l.length = 2) : l = [l[0]!, l[1]!] := by
  match l, h with
  | [a, b], _ => simp

theorem one_byte {l : Bytes} (h : l.length = 1) : l = [l[0]!] := by
  match l, h with
  | [a], _ => simp

theorem ofNat_toNat (b : UInt8) : UInt8.ofNat b.toNat = b := by simp

/-- A successful RFC 1929 exchange: the stream starts with a complete request whose credentials
    the store accepted. -/
theorem userPassAuth_rest {V : Bytes → Bytes → Bool} {inp r : Bytes} :
    (userPassAuth V inp).rest = some r →
    ∃ u p, V u p = true ∧ (userPassAuth V inp).creds = some (u, p) ∧
      inp = [0x01, UInt8.ofNat u.length] ++ u ++ [UInt8.ofNat p.length] ++ p ++ r ∧
      0 < u.length ∧ u.length < 256 ∧ p.length < 256 := by
  unfold userPassAuth
  dsimp only
  split
  · intro h; simp at h
  · rename_i hdr r1 h1
    obtain ⟨e1, l1⟩ := readFull_eq_some h1
    split
    · intro h; simp at h
    · rename_i hv
      split
      · intro h; simp at h
      · rename_i hz
        split
        · intro h; simp at h
        · rename_i uname r2 h2
          obtain ⟨e2, l2⟩ := readFull_eq_some h2
          split
          · intro h; simp at h
          · rename_i pl r3 h3
            obtain ⟨e3, l3⟩ := readFull_eq_some h3
            split
            · intro h; simp at h
            · rename_i pw r4 h4
              obtain ⟨e4, l4⟩ := readFull_eq_some h4
              split
              · rename_i hval
                intro h
                injection h with h
                subst h
                refine ⟨uname, pw, hval, rfl, ?_, ?_, ?_, ?_⟩
                · have hh := two_bytes l1
                  have hp := one_byte l3
                  have h0 : hdr[0]! = 0x01 := by simpa using hv
                  rw [e1, e2, e3, e4, hh, hp, h0, l2, l4, ofNat_toNat, ofNat_toNat]
                  simp
                · omega
                · have := (hdr[1]!).toNat_lt; omega
                · have := (pl[0]!).toNat_lt; omega
              · intro h; simp at h

theorem authenticate_userPass_rest {V : Bytes → Bytes → Bool} {inp r : Bytes} :
    (authenticate [.userPass V] inp).rest = some r →
    ∃ methods q, inp = encodeGreeting methods ++ q ∧ methods.length < 256 ∧
      (userPassAuth V q).rest = some r ∧
      (authenticate [.userPass V] inp).creds = (userPassAuth V q).creds := by
  unfold authenticate
  dsimp only
  split
  · intro h; simp at h
  · rename_i hdr r1 h1
    obtain ⟨e1, l1⟩ := readFull_eq_some h1
    split
    · intro h; simp at h
    · rename_i hv
      split
      · intro h; simp at h
      · rename_i methods r2 h2
        obtain ⟨e2, l2⟩ := readFull_eq_some h2
        split
        · intro h; simp at h
        · rename_i a hsel
          have ha : a = .userPass V := by
            have := List.mem_of_find?_eq_some hsel
            simpa using this
          subst ha
          dsimp only
          intro h
          refine ⟨methods, r2, ?_, ?_, h, rfl⟩
          · have hh := two_bytes l1
            have h0 : hdr[0]! = 0x05 := by simpa using hv
            rw [e1, e2, hh, h0, encodeGreeting, l2, ofNat_toNat]
            simp
          · have := (hdr[1]!).toNat_lt; omega

end MM.C21
