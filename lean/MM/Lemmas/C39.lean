/-
  C39 — association-list map laws (generic values) used by MM/Props/C39.lean.
-/
import MM.Model.C39

namespace MM.C39
variable {β : Type}

theorem AMap.get_del_ne (m : AMap β) (k k' : Nat) (h : k' ≠ k) : (m.del k).get k' = m.get k' := by
  unfold AMap.del AMap.get
  induction m with
  | nil => rfl
  | cons e t ih =>
    obtain ⟨a, v⟩ := e
    by_cases ha : a = k
    · subst ha
      have h1 : (k' == a) = false := by simp [h]
      simp [List.filter, List.lookup_cons, h1, ih]
    · have h2 : (a != k) = true := by simp [ha]
      simp only [List.filter, h2, List.lookup_cons, ih]

theorem AMap.get_del_same (m : AMap β) (k : Nat) : (m.del k).get k = none := by
  unfold AMap.del AMap.get
  induction m with
  | nil => rfl
  | cons e t ih =>
    obtain ⟨a, v⟩ := e
    by_cases ha : a = k
    · subst ha; simp [List.filter, ih]
    · have h2 : (a != k) = true := by simp [ha]
      have h3 : (k == a) = false := by simp [Ne.symm ha]
      simp only [List.filter, h2, List.lookup_cons, h3, ih]

theorem AMap.get_set_same (m : AMap β) (k : Nat) (v : β) : (m.set k v).get k = some v := by
  simp [AMap.set, AMap.get]

theorem AMap.get_set_ne (m : AMap β) (k k' : Nat) (v : β) (h : k' ≠ k) :
    (m.set k v).get k' = m.get k' := by
  have h1 : (k' == k) = false := by simp [h]
  have := AMap.get_del_ne m k k' h
  simp only [AMap.set, AMap.get, List.lookup_cons, h1] at this ⊢
  exact this

end MM.C39
