import MM.Model.C31

/-!
  Invariant of the fixed reconnector (`fx = true`) and its preservation by every step.
-/
namespace MM.C31

/-- At most one timer is armed; it is the one the state points to, it was armed with the state's
    current `nextDelay`, and nothing is armed while paused or closed.  `nextDelay` is the
    `attempts`-th element of the backoff sequence. -/
def Inv (c : Cfg) (r : R) : Prop :=
  (∀ s, r.st = some s → s.nextDelay = dseq c s.attempts) ∧
  (r.live = [] ∨ ∃ s t, r.st = some s ∧ r.live = [t] ∧ s.timer = some t.id ∧ t.delay = s.nextDelay ∧
      r.paused = false ∧ r.closed = false)

theorem inv_init (c : Cfg) : Inv c {} := by
  refine ⟨?_, Or.inl rfl⟩
  intro s h; simp at h

/-- Stopping the registered timer leaves nothing armed. -/
theorem stop_live (c : Cfg) (r : R) (h : Inv c r) (s : PeerSt) (hs : r.st = some s) :
    (stopT r s.timer).live = [] := by
  rcases h.2 with h0 | ⟨s', t, hs', hl, ht, _, _, _⟩
  · cases hti : s.timer <;> simp [stopT, h0]
  · rw [hs] at hs'
    cases hs'
    simp [stopT, ht, hl]

theorem stop_live_none (c : Cfg) (r : R) (h : Inv c r) (hs : r.st = none) : r.live = [] := by
  rcases h.2 with h0 | ⟨s', t, hs', _⟩
  · exact h0
  · rw [hs] at hs'; cases hs'

@[simp] theorem stopT_st (r : R) (o : Option Nat) : (stopT r o).st = r.st := by
  cases o <;> rfl
@[simp] theorem stopT_paused (r : R) (o : Option Nat) : (stopT r o).paused = r.paused := by
  cases o <;> rfl
@[simp] theorem stopT_closed (r : R) (o : Option Nat) : (stopT r o).closed = r.closed := by
  cases o <;> rfl
@[simp] theorem stopT_flights (r : R) (o : Option Nat) : (stopT r o).flights = r.flights := by
  cases o <;> rfl
@[simp] theorem stopT_nextId (r : R) (o : Option Nat) : (stopT r o).nextId = r.nextId := by
  cases o <;> rfl

theorem inv_schedule (c : Cfg) (r : R) (h : Inv c r) : Inv c (schedule c r) := by
  unfold schedule
  by_cases hcp : (r.closed || r.paused) = true
  · simp [hcp]; exact h
  · simp only [hcp, Bool.false_eq_true, ↓reduceIte]
    simp only [Bool.or_eq_true, not_or, Bool.not_eq_true] at hcp
    cases hst : r.st with
    | none =>
      have hl := stop_live_none c r h hst
      simp only [stopT, arm]
      split
      · exact ⟨by intro s hs; simp at hs, Or.inl (by simp [hl])⟩
      · refine ⟨?_, Or.inr ⟨_, ⟨r.nextId + 1, c.I⟩, rfl, ?_, rfl, rfl, hcp.2, hcp.1⟩⟩
        · intro s hs; simp at hs; subst hs; rfl
        · simp [hl]
    | some s =>
      have hl := stop_live c r h s hst
      have hd := h.1 s hst
      simp only [arm]
      split
      · exact ⟨by intro s hs; simp at hs, Or.inl (by simp [hl])⟩
      · refine ⟨?_, Or.inr ⟨_, ⟨(stopT r s.timer).nextId, s.nextDelay⟩, rfl, ?_, rfl, rfl, ?_, ?_⟩⟩
        · intro s' hs'; simp at hs'; subst hs'; exact hd
        · simp [hl]
        · simp [hcp.2]
        · simp [hcp.1]

theorem filter_self (t : Timer) : [t].filter (fun u => u.id != t.id) = [] := by simp

/-- Effect of a timer expiry under the invariant, including what the emitted event carries. -/
theorem inv_fire (c : Cfg) (r : R) (h : Inv c r) (i : Nat) :
    Inv c (fire true c r i).1 ∧
    ∀ n d wp, (fire true c r i).2 = some (.attempt n d wp) →
      wp = false ∧ r.paused = false ∧ ∃ s, r.st = some s ∧ n = s.attempts + 1 ∧ d = dseq c s.attempts := by
  obtain ⟨st, live, paused, closed, flights, nextId⟩ := r
  obtain ⟨h1, h2⟩ := h
  simp only at h1 h2
  rcases h2 with h0 | ⟨s, t, hs, hl, ht, hdl, hp, hc⟩
  · subst h0
    simp only [fire, List.find?]
    exact ⟨⟨h1, Or.inl rfl⟩, by intro n d wp he; simp at he⟩
  · subst hs hl hp hc
    have hds := h1 s rfl
    by_cases hid : t.id = i
    · subst hid
      simp only [fire, List.find?, beq_self_eq_true, filter_self, Bool.false_eq_true, Bool.and_false,
        Bool.or_self, ↓reduceIte]
      refine ⟨⟨?_, Or.inl rfl⟩, ?_⟩
      · intro s' hs'
        simp only [Option.some.injEq] at hs'
        subst hs'
        simp [dseq, hds]
      · intro n d wp he
        simp only [Option.some.injEq, Ev.attempt.injEq] at he
        obtain ⟨rfl, rfl, rfl⟩ := he
        refine ⟨by trivial, by trivial, s, by trivial, by trivial, ?_⟩
        rw [hdl, hds]
    · have hne : (t.id == i) = false := by simpa using hid
      simp only [fire, List.find?, hne]
      exact ⟨⟨h1, Or.inr ⟨s, t, rfl, rfl, ht, hdl, rfl, rfl⟩⟩, by intro n d wp he; simp at he⟩

theorem inv_ret (c : Cfg) (r : R) (h : Inv c r) (ok : Bool) : Inv c (ret true c r ok) := by
  obtain ⟨st, live, paused, closed, flights, nextId⟩ := r
  cases flights with
  | nil => exact h
  | cons obj rest =>
    have h' : Inv c ⟨st, live, paused, closed, rest, nextId⟩ := h
    simp only [ret]
    cases closed with
    | true => exact h'
    | false =>
      cases st with
      | none => exact h'
      | some s =>
        simp only [Bool.false_eq_true, ↓reduceIte]
        by_cases ho : (s.obj != obj) = true
        · simp only [ho, ↓reduceIte]; exact h'
        · simp only [ho, Bool.false_eq_true, ↓reduceIte]
          have hl := stop_live c _ h' s rfl
          have hd := h'.1 s rfl
          cases ok with
          | true => exact ⟨by intro s hs; simp at hs, Or.inl (by simpa using hl)⟩
          | false =>
            simp only [Bool.false_eq_true, ↓reduceIte, Bool.true_and]
            split
            · cases paused with
              | true =>
                simp only [stopT_paused, ↓reduceIte]
                refine ⟨?_, Or.inl (by simpa using hl)⟩
                intro s' hs'; simp at hs'; subst hs'; exact hd
              | false =>
                simp only [stopT_paused, Bool.false_eq_true, ↓reduceIte, arm]
                refine ⟨?_, Or.inr ⟨_, ⟨_, s.nextDelay⟩, rfl, ?_, rfl, rfl, ?_, ?_⟩⟩
                · intro s' hs'; simp at hs'; subst hs'; exact hd
                · simp [hl]
                · simp
                · simp
            · exact ⟨by intro s hs; simp at hs, Or.inl (by simpa using hl)⟩

theorem inv_pause (c : Cfg) (r : R) (h : Inv c r) : Inv c (pause r) := by
  unfold pause
  split
  · exact h
  · cases hst : r.st with
    | none =>
      have hl := stop_live_none c r h hst
      exact ⟨by intro s hs; simp at hs, Or.inl hl⟩
    | some s =>
      have hl := stop_live c r h s hst
      refine ⟨?_, Or.inl hl⟩
      intro s' hs'; simp at hs'; subst hs'; exact h.1 s hst

theorem inv_clear (c : Cfg) (r : R) (h : Inv c r) : Inv c (clear r) := by
  unfold clear
  cases hst : r.st with
  | none => simpa [hst] using h
  | some s =>
    have hl := stop_live c r h s hst
    exact ⟨by intro s hs; simp at hs, Or.inl hl⟩

theorem inv_resume (c : Cfg) (r : R) (h : Inv c r) : Inv c { r with paused := false } := by
  refine ⟨h.1, ?_⟩
  rcases h.2 with h0 | ⟨s, t, hs, hl, ht, hdl, hp, hc⟩
  · exact Or.inl h0
  · exact Or.inr ⟨s, t, hs, hl, ht, hdl, rfl, hc⟩

theorem inv_step (c : Cfg) (r : R) (h : Inv c r) (l : Label) : Inv c (step true c r l).1 := by
  cases l with
  | schedule => exact inv_schedule c r h
  | fire i => exact (inv_fire c r h i).1
  | retOk => exact inv_ret c r h true
  | retFail => exact inv_ret c r h false
  | retFailSched =>
    simp only [step]
    split
    · exact inv_ret c r h false
    · exact inv_ret c _ (inv_schedule c r h) false
  | pause => exact inv_pause c r h
  | resume => exact inv_resume c r h
  | resetAll => exact inv_clear c r h
  | cancel => exact inv_clear c r h
  | stop =>
    have h' := inv_clear c r h
    have hl : (clear r).live = [] := by
      unfold clear
      cases hst : r.st with
      | none => simpa using stop_live_none c r h hst
      | some s => simpa using stop_live c r h s hst
    exact ⟨h'.1, Or.inl hl⟩

/-- Only a timer expiry emits an event. -/
theorem step_event (fx : Bool) (c : Cfg) (r : R) (l : Label) (e : Ev) (h : (step fx c r l).2 = some e) :
    ∃ i, l = .fire i := by
  cases l <;> simp [step] at h
  exact ⟨_, rfl⟩

/-! ### The shared flags under address-level and reconnector-level steps -/

theorem arm_flags (r : R) (d : Nat) : (arm r d).1.paused = r.paused ∧ (arm r d).1.closed = r.closed := ⟨rfl, rfl⟩

theorem schedule_flags (c : Cfg) (r : R) :
    (schedule c r).paused = r.paused ∧ (schedule c r).closed = r.closed := by
  unfold schedule
  split
  · exact ⟨rfl, rfl⟩
  · cases r.st <;> simp only [arm] <;> split <;> simp

theorem fire_flags (c : Cfg) (r : R) (i : Nat) :
    (fire true c r i).1.paused = r.paused ∧ (fire true c r i).1.closed = r.closed := by
  unfold fire
  split
  · exact ⟨rfl, rfl⟩
  · simp only
    split
    · exact ⟨rfl, rfl⟩
    · split <;> exact ⟨rfl, rfl⟩

theorem ret_flags (c : Cfg) (r : R) (ok : Bool) :
    (ret true c r ok).paused = r.paused ∧ (ret true c r ok).closed = r.closed := by
  unfold ret
  split
  · exact ⟨rfl, rfl⟩
  · simp only
    split
    · exact ⟨rfl, rfl⟩
    · split
      · exact ⟨rfl, rfl⟩
      · split
        · exact ⟨rfl, rfl⟩
        · simp only [↓reduceIte]
          split
          · simp
          · split
            · split
              · simp
              · simp [arm]
            · simp

theorem clear_flags (r : R) : (clear r).paused = r.paused ∧ (clear r).closed = r.closed := by
  unfold clear
  cases r.st <;> simp

/-- An address-level step does not touch the reconnector's flags. -/
theorem step_local_flags (c : Cfg) (r : R) (l : Label) (hl : l.isGlobal = false) :
    (step true c r l).1.paused = r.paused ∧ (step true c r l).1.closed = r.closed := by
  cases l with
  | schedule => exact schedule_flags c r
  | fire i => exact fire_flags c r i
  | retOk => exact ret_flags c r true
  | retFail => exact ret_flags c r false
  | retFailSched =>
    simp only [step]
    split
    · exact ret_flags c r false
    · have h1 := ret_flags c (schedule c r) false
      have h2 := schedule_flags c r
      exact ⟨h1.1.trans h2.1, h1.2.trans h2.2⟩
  | cancel => exact clear_flags r
  | pause => cases hl
  | resume => cases hl
  | resetAll => cases hl
  | stop => cases hl

/-- A reconnector-level step computes the new flags from the old flags only. -/
theorem step_global_flags (c : Cfg) (r r' : R) (l : Label) (hl : l.isGlobal = true)
    (hp : r.paused = r'.paused) (hc : r.closed = r'.closed) :
    (step true c r l).1.paused = (step true c r' l).1.paused ∧
    (step true c r l).1.closed = (step true c r' l).1.closed := by
  cases l with
  | pause =>
    simp only [step, pause, hp, hc]
    split
    · exact ⟨hp, hc⟩
    · cases r.st <;> cases r'.st <;> simp [hc]
  | resume => exact ⟨rfl, hc⟩
  | resetAll => simp only [step]; rw [(clear_flags r).1, (clear_flags r).2, (clear_flags r').1, (clear_flags r').2]; exact ⟨hp, hc⟩
  | stop => simp only [step]; rw [(clear_flags r).1, (clear_flags r').1]; exact ⟨hp, by trivial⟩
  | schedule => cases hl
  | fire i => cases hl
  | retOk => cases hl
  | retFail => cases hl
  | retFailSched => cases hl
  | cancel => cases hl


/-! ### The backoff sequence -/

theorem nextD_ge (c : Cfg) (hm : c.mden ≤ c.mnum) (hd : 0 < c.mden) (d : Nat) (hM : d ≤ c.M) : d ≤ nextD c d := by
  unfold nextD
  have h1 : d ≤ d * c.mnum / c.mden := by
    rw [Nat.le_div_iff_mul_le hd]
    exact Nat.mul_le_mul_left d hm
  exact Nat.le_min.mpr ⟨h1, hM⟩

theorem dseq_le_max_all (c : Cfg) (hIM : c.I ≤ c.M) : ∀ k, dseq c k ≤ c.M
  | 0 => hIM
  | k + 1 => by simp only [dseq, nextD]; exact Nat.min_le_right _ _

theorem dseq_mono (c : Cfg) (hm : c.mden ≤ c.mnum) (hd : 0 < c.mden) (hIM : c.I ≤ c.M) (k : Nat) :
    dseq c k ≤ dseq c (k + 1) :=
  nextD_ge c hm hd _ (dseq_le_max_all c hIM k)

theorem dseq_cap_absorbing (c : Cfg) (hm : c.mden ≤ c.mnum) (hd : 0 < c.mden) (k : Nat)
    (h : dseq c k = c.M) : dseq c (k + 1) = c.M := by
  have h1 : nextD c c.M ≤ c.M := by unfold nextD; exact Nat.min_le_right _ _
  have h2 := nextD_ge c hm hd c.M (Nat.le_refl _)
  simp only [dseq]
  rw [h]
  exact Nat.le_antisymm h1 h2

theorem dseq_ge_I (c : Cfg) (hm : c.mden ≤ c.mnum) (hd : 0 < c.mden) (hIM : c.I ≤ c.M) : ∀ k, c.I ≤ dseq c k
  | 0 => Nat.le_refl _
  | k + 1 => Nat.le_trans (dseq_ge_I c hm hd hIM k) (dseq_mono c hm hd hIM k)

/-- strict growth below the cap when `I·(m−1) ≥ 1` -/
theorem nextD_grow (c : Cfg) (hd : 0 < c.mden) (hg : c.mden ≤ (c.mnum - c.mden) * c.I) (d : Nat) (hI : c.I ≤ d) :
    min (d + 1) c.M ≤ nextD c d := by
  unfold nextD
  have hmn : c.mden ≤ c.mnum := by
    rcases Nat.lt_or_ge c.mnum c.mden with h | h
    · have : c.mnum - c.mden = 0 := Nat.sub_eq_zero_of_le (Nat.le_of_lt h)
      rw [this, Nat.zero_mul] at hg; omega
    · exact h
  have h1 : d + 1 ≤ d * c.mnum / c.mden := by
    rw [Nat.le_div_iff_mul_le hd]
    -- (d+1)*mden = d*mden + mden ≤ d*mden + (mnum-mden)*d = d*mnum
    have h2 : (c.mnum - c.mden) * c.I ≤ (c.mnum - c.mden) * d := Nat.mul_le_mul_left _ hI
    have h3 : d * c.mnum = d * c.mden + (c.mnum - c.mden) * d := by
      rw [Nat.mul_comm (c.mnum - c.mden) d, ← Nat.mul_add, Nat.add_sub_cancel' hmn]
    rw [h3, Nat.add_mul, Nat.one_mul]
    omega
  rw [Nat.le_min]
  constructor
  · exact Nat.le_trans (Nat.min_le_left _ _) h1
  · exact Nat.min_le_right _ _

theorem dseq_lower (c : Cfg) (hd : 0 < c.mden) (hg : c.mden ≤ (c.mnum - c.mden) * c.I) (hIM : c.I ≤ c.M) :
    ∀ k, min (c.I + k) c.M ≤ dseq c k := by
  have hmn : c.mden ≤ c.mnum := by
    rcases Nat.lt_or_ge c.mnum c.mden with h | h
    · have : c.mnum - c.mden = 0 := Nat.sub_eq_zero_of_le (Nat.le_of_lt h)
      rw [this, Nat.zero_mul] at hg; omega
    · exact h
  intro k
  induction k with
  | zero => simp [dseq]; exact Nat.min_le_left _ _
  | succ k ih =>
    have h1 := nextD_grow c hd hg (dseq c k) (dseq_ge_I c hmn hd hIM k)
    simp only [dseq]
    have hle := dseq_le_max_all c hIM k
    have : min (c.I + (k + 1)) c.M ≤ min (dseq c k + 1) c.M := by
      generalize dseq c k = x at ih hle
      omega
    exact Nat.le_trans this h1

theorem dseq_reaches_cap (c : Cfg) (hd : 0 < c.mden) (hg : c.mden ≤ (c.mnum - c.mden) * c.I) (hIM : c.I ≤ c.M) :
    ∀ k, c.M - c.I ≤ k → dseq c k = c.M := by
  intro k hk
  have h1 := dseq_lower c hd hg hIM k
  have h2 := dseq_le_max_all c hIM k
  have : min (c.I + k) c.M = c.M := Nat.min_eq_right (by omega)
  rw [this] at h1
  exact Nat.le_antisymm h2 h1

theorem dseq_step_slack (c : Cfg) (hd : 0 < c.mden) (k : Nat) :
    dseq c (k + 1) = c.M ∨ dseq c k * c.mnum < (dseq c (k + 1) + 1) * c.mden := by
  simp only [dseq, nextD]
  rcases Nat.le_total (dseq c k * c.mnum / c.mden) c.M with h | h
  · right
    rw [Nat.min_eq_left h, Nat.mul_comm _ c.mden]
    exact Nat.lt_mul_div_succ _ hd
  · left; exact Nat.min_eq_right h

end MM.C31
