/-
  Helper lemmas for C28: what a successful `verify` guarantees (including the int64 corner cases of
  the timestamp arithmetic), and what `handle` does with a command.
-/
import MM.Model.C28
namespace MM.C28

theorem absDur_window {w d : Int} (hw : w < 2^63 - 1)
    (h1 : ¬ absDur (satDur d) < 0) (h2 : ¬ absDur (satDur d) > w) : -w ≤ d ∧ d ≤ w := by
  unfold absDur satDur minDur maxDur wrap64 at *
  split at h1 <;> split at h1 <;> split at h2 <;> (try split at h2) <;> (try split at h2) <;> omega

theorem verify_sound (V : Verifier) (cfg : FCfg) (now : Int) (c : Cmd)
    (hk : cfg.signing = true) (hw : cfg.window < 2^63 - 1) (h : verify V cfg now c = true) :
    c.sig ≠ .zero ∧ V c.origin c.id c.ts c.sig = true ∧
    -cfg.window ≤ now - cmdSec c.ts * 1000000000 ∧ now - cmdSec c.ts * 1000000000 ≤ cfg.window := by
  unfold verify verifyWith at h
  rw [hk] at h
  simp only [Bool.not_true, Bool.false_eq_true, if_false] at h
  by_cases hz : c.sig = .zero
  · simp [hz] at h
  · rw [if_neg hz] at h
    by_cases ho : tsOutside cfg now c.ts = true
    · simp [ho] at h
    · rw [if_neg ho] at h
      refine ⟨hz, h, ?_⟩
      unfold tsOutside since at ho
      simp only [Bool.or_eq_true, decide_eq_true_eq, not_or] at ho
      exact absDur_window hw ho.1 ho.2

theorem handle_accept (V : Verifier) (cfg : FCfg) (st : FState) (now : Int) (k : Kind) (from_ : Nat) (c : Cmd)
    (h : (handle V cfg st now k from_ c).2.1 = true) : verify V cfg now c = true := by
  unfold handle handleWith at h
  by_cases h2 : c.seenBy.contains cfg.localID = true
  · rw [if_pos h2] at h; simp at h
  · rw [if_neg h2] at h
    by_cases h3 : (!verifyWith tsOutside V cfg now c) = true
    · rw [if_pos h3] at h; simp at h
    · simp at h3; exact h3

theorem handle_sends (V : Verifier) (cfg : FCfg) (st : FState) (now : Int) (k : Kind) (from_ : Nat) (c : Cmd) :
    ((handle V cfg st now k from_ c).2.2 ≠ [] → (handle V cfg st now k from_ c).2.1 = true) ∧
    ∀ x ∈ (handle V cfg st now k from_ c).2.2,
      x.2.origin = c.origin ∧ x.2.id = c.id ∧ x.2.ts = c.ts ∧ x.2.sig = c.sig := by
  unfold handle handleWith
  by_cases h2 : c.seenBy.contains cfg.localID = true
  · rw [if_pos h2]; simp
  · rw [if_neg h2]
    by_cases h3 : (!verifyWith tsOutside V cfg now c) = true
    · rw [if_pos h3]; simp
    · rw [if_neg h3]
      generalize mark st.seen now c.origin c.id from_ = m
      obtain ⟨seen', isNew⟩ := m
      dsimp only
      by_cases h1 : (!isNew) = true
      · rw [if_pos h1]; simp
      · rw [if_neg h1]
        refine ⟨fun _ => rfl, ?_⟩
        intro x hx
        simp only [List.mem_map] at hx
        obtain ⟨p, _, rfl⟩ := hx
        exact ⟨rfl, rfl, rfl, rfl⟩
end MM.C28
