import MM.Model.C02
import MM.Lemmas.C01

namespace MM.C02
open MM.C01

/-- Invariant: roles fixed, counters in range, every handed-out nonce carries its end's prefix and a
    counter below that end's current `send`, and the wire nonces are pairwise distinct. -/
structure Inv (st : St) : Prop where
  iInit : st.i.isInit = true
  rInit : st.r.isInit = false
  iSend : st.i.send < W
  rSend : st.r.send < W
  shape : ∀ n ∈ st.nonces, n.pfx = sendPfx n.byInit ∧
            n.ctr < (if n.byInit then st.i.send else st.r.send)
  distinct : st.nonces.Pairwise (fun a b => a.wire ≠ b.wire)

theorem sendPfx_ne : sendPfx true ≠ sendPfx false := by decide

theorem inv_start {a b : Nat} (ha : a < W) (hb : b < W) : Inv (start a b) :=
  ⟨rfl, rfl, ha, hb, (fun _ hn => nomatch hn), List.Pairwise.nil⟩

theorem inv_step {st : St} (inv : Inv st) (l : Label) : Inv (step st l) := by
  cases l with
  | encI =>
    rcases encrypt_cases st.i 0 0 inv.iSend with ⟨_, he⟩ | ⟨hlt, he⟩
    · simp only [step, he]; exact { inv with }
    · simp only [step, he]
      refine { inv with iSend := hlt, shape := ?_, distinct := ?_ }
      · intro n hn
        rcases List.mem_cons.mp hn with rfl | hn
        · simp [inv.iInit]
        · obtain ⟨h1, h2⟩ := inv.shape n hn
          refine ⟨h1, ?_⟩
          cases hb : n.byInit <;> simp only [hb] at h2 ⊢
          · exact h2
          · simp only [if_true] at h2 ⊢; omega
      · refine List.Pairwise.cons ?_ inv.distinct
        intro n hn hw
        obtain ⟨h1, h2⟩ := inv.shape n hn
        simp only [Nonce.wire, Prod.mk.injEq, inv.iInit] at hw
        cases hb : n.byInit
        · rw [hb] at h1; rw [h1] at hw; exact sendPfx_ne hw.1
        · rw [hb] at h2; simp only [if_true] at h2; omega
  | encR =>
    rcases encrypt_cases st.r 0 0 inv.rSend with ⟨_, he⟩ | ⟨hlt, he⟩
    · simp only [step, he]; exact { inv with }
    · simp only [step, he]
      refine { inv with rSend := hlt, shape := ?_, distinct := ?_ }
      · intro n hn
        rcases List.mem_cons.mp hn with rfl | hn
        · simp [inv.rInit]
        · obtain ⟨h1, h2⟩ := inv.shape n hn
          refine ⟨h1, ?_⟩
          cases hb : n.byInit <;> simp only [hb] at h2 ⊢
          · simp only [Bool.false_eq_true, if_false] at h2 ⊢; omega
          · exact h2
      · refine List.Pairwise.cons ?_ inv.distinct
        intro n hn hw
        obtain ⟨h1, h2⟩ := inv.shape n hn
        simp only [Nonce.wire, Prod.mk.injEq, inv.rInit] at hw
        cases hb : n.byInit
        · rw [hb] at h2; simp only [Bool.false_eq_true, if_false] at h2; omega
        · rw [hb] at h1; rw [h1] at hw; exact sendPfx_ne hw.1.symm

theorem inv_run {st : St} (inv : Inv st) (ls : List Label) : Inv (run st ls) := by
  induction ls generalizing st with
  | nil => exact inv
  | cons l rest ih => exact ih (inv_step inv l)

end MM.C02
