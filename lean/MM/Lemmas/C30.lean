/-
  Helper lemmas for C30: thread-list bookkeeping and the persistence invariant.
-/
import MM.Model.C30

namespace MM.C30

theorem set_not_allIdle {l : List Thread} {i : Nat} {t : Thread} (h : i < l.length) (ht : t.pc ≠ .idle) :
    (l.set i t).all (fun t => t.pc == .idle) = false := by
  induction l generalizing i with
  | nil => simp at h
  | cons a as ih =>
    cases i with
    | zero => simp [List.set, ht]
    | succ j =>
      simp only [List.set, List.all_cons, Bool.and_eq_false_iff]
      right
      exact ih (by simpa using h)

theorem lt_of_getElem? {l : List Thread} {i : Nat} {t : Thread} (h : l[i]? = some t) : i < l.length := by
  have := (List.getElem?_eq_some_iff.mp h)
  exact this.1

/-- The persistence invariant: memory and file agree, or nothing was ever written and the agent is
    awake, or a poll is in flight (state POLLING is deliberately not persisted; file says SLEEPING). -/
def Inv (s : S) : Prop :=
  (s.file = some s.st ∨ (s.file = none ∧ s.st = .awake) ∨ (s.st = .polling ∧ s.file = some .sleeping)) ∧
  (s.st = .polling → allIdle s = false)

theorem inv_init (n : Nat) : Inv (S.init n) := by
  refine ⟨Or.inr (Or.inl ⟨rfl, rfl⟩), ?_⟩
  intro h; cases h

theorem inv_step (s : S) (l : Label) (h : Inv s) : Inv (step s l).1 := by
  obtain ⟨h1, h2⟩ := h
  cases l with
  | sleep =>
    simp only [step]
    by_cases ha : s.st = .awake
    · rw [if_pos ha]; exact ⟨Or.inl rfl, fun h => by cases h⟩
    · rw [if_neg ha]; exact ⟨h1, h2⟩
  | wake =>
    simp only [step]
    by_cases ha : s.st = .awake
    · rw [if_pos ha]; exact ⟨h1, h2⟩
    · rw [if_neg ha]; exact ⟨Or.inl rfl, fun h => by cases h⟩
  | pollBegin i =>
    simp only [step]
    cases ht : s.threads[i]? with
    | none => exact ⟨h1, h2⟩
    | some t =>
      dsimp only
      by_cases hpc : t.pc ≠ .idle
      · rw [if_pos hpc]; exact ⟨h1, h2⟩
      · rw [if_neg hpc]
        by_cases hs : s.st ≠ .sleeping
        · rw [if_pos hs]; exact ⟨h1, h2⟩
        · rw [if_neg hs]
          have hs' : s.st = .sleeping := Classical.byContradiction hs
          refine ⟨Or.inr (Or.inr ⟨rfl, ?_⟩), fun _ => ?_⟩
          · rcases h1 with h1 | h1 | h1
            · rw [h1, hs']
            · rw [hs'] at h1; cases h1.2
            · rw [hs'] at h1; cases h1.1
          · exact set_not_allIdle (lt_of_getElem? ht) (by simp)
  | pollInvoke i =>
    simp only [step]
    cases ht : s.threads[i]? with
    | none => exact ⟨h1, h2⟩
    | some t =>
      dsimp only
      by_cases hpc : t.pc ≠ .afterP1
      · rw [if_pos hpc]; exact ⟨h1, h2⟩
      · rw [if_neg hpc]
        exact ⟨h1, fun _ => set_not_allIdle (lt_of_getElem? ht) (by simp)⟩
  | pollReturn i =>
    simp only [step]
    cases ht : s.threads[i]? with
    | none => exact ⟨h1, h2⟩
    | some t =>
      dsimp only
      by_cases hpc : t.pc ≠ .inCb
      · rw [if_pos hpc]; exact ⟨h1, h2⟩
      · rw [if_neg hpc]
        exact ⟨h1, fun _ => set_not_allIdle (lt_of_getElem? ht) (by simp)⟩
  | pollEnd i =>
    simp only [step]
    cases ht : s.threads[i]? with
    | none => exact ⟨h1, h2⟩
    | some t =>
      dsimp only
      by_cases hpc : t.pc ≠ .waiting
      · rw [if_pos hpc]; exact ⟨h1, h2⟩
      · rw [if_neg hpc]
        by_cases ha : s.st = .awake
        · rw [if_pos ha]
          refine ⟨?_, fun h => ?_⟩
          · rcases h1 with h1 | h1 | h1
            · exact Or.inl h1
            · exact Or.inr (Or.inl h1)
            · rw [ha] at h1; cases h1.1
          · dsimp only at h; rw [ha] at h; cases h
        · rw [if_neg ha]
          exact ⟨Or.inl rfl, fun h => by cases h⟩

  | restart g =>
    simp only [step]
    by_cases hq : (!(s.threads.all fun t => t.pc == .idle)) = true
    · rw [if_pos hq]; exact ⟨h1, h2⟩
    · rw [if_neg hq]
      have hidle : allIdle s = true := by
        unfold allIdle; simpa using hq
      have hnp : s.st ≠ .polling := fun hp => by
        have := h2 hp; rw [hidle] at this; cases this
      refine ⟨?_, fun hp => ?_⟩
      · cases g with
        | true => simp [loaded]
        | false =>
          simp only [Bool.false_eq_true, if_false]
          rcases h1 with h1 | h1 | h1
          · left; rw [h1]; simp [loaded]
          · right; left; rw [h1.1]; exact ⟨rfl, rfl⟩
          · exact absurd h1.1 hnp
      · exfalso
        cases g with
        | true => simp [loaded] at hp; exact hnp hp
        | false =>
          simp only [Bool.false_eq_true, if_false] at hp
          rcases h1 with h1 | h1 | h1
          · rw [h1] at hp; simp [loaded] at hp; exact hnp hp
          · rw [h1.1] at hp; simp [loaded] at hp
          · exact hnp h1.1

theorem inv_reachable {n : Nat} {s : S} (h : Reachable n s) : Inv s := by
  induction h with
  | init => exact inv_init n
  | step l _ ih => exact inv_step _ l ih

end MM.C30
