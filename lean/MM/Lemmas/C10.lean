/-
  Helper lemmas for C10: what each table operation does to the set of stored routes.
-/
import MM.Lemmas.C08

set_option linter.unusedSectionVars false

namespace MM.C08
open MM

theorem inj_of_nodup_map {α β : Type} {f : α → β} {l : List α} (h : (l.map f).Nodup)
    {x y : α} (hx : x ∈ l) (hy : y ∈ l) (e : f x = f y) : x = y := by
  induction l with
  | nil => cases hx
  | cons a as ih =>
    simp only [List.map_cons, List.nodup_cons] at h
    rcases List.mem_cons.mp hx with hx1 | hx1
    · rcases List.mem_cons.mp hy with hy1 | hy1
      · rw [hx1, hy1]
      · subst hx1
        exact absurd (show f x ∈ List.map f as from List.mem_map.mpr ⟨y, hy1, e.symm⟩) h.1
    · rcases List.mem_cons.mp hy with hy1 | hy1
      · subst hy1
        exact absurd (show f y ∈ List.map f as from List.mem_map.mpr ⟨x, hx1, e⟩) h.1
      · exact ih h.2 hx1 hy1

section generic
variable {K P : Type} [DecidableEq K]

/-- filtering every slice and dropping the empty ones = filtering the list of all routes -/
theorem routes_filterT (keep : Entry P → Bool) (t : KTable K P) :
    routes (filterT keep t) = (routes t).filter keep := by
  induction t with
  | nil => rfl
  | cons kg rest ih =>
    simp only [filterT, routes, List.map_cons, List.filter_cons, List.flatMap_cons,
      List.filter_append] at ih ⊢
    by_cases hemp : (List.filter keep kg.2).isEmpty = true
    · simp only [hemp, Bool.not_true, Bool.false_eq_true, if_false]
      rw [ih, List.isEmpty_iff.mp hemp, List.nil_append]
    · simp only [hemp, Bool.not_false, if_true, List.flatMap_cons]
      rw [ih]

/-- two entries of a well-formed table in the same slot of the same key are the same entry -/
theorem WF.slot_unique {c : Cfg K P} {self : Nat} {t : KTable K P} (h : WF c self t)
    {x y : Entry P} (hx : x ∈ routes t) (hy : y ∈ routes t)
    (hk : c.keyOf x.pay = c.keyOf y.pay) (hs : sameSlot c.byHop x y = true) : x = y := by
  have mx := h.mem_get hx
  have my := h.mem_get hy
  rw [hk] at mx
  have hne : get t (c.keyOf y.pay) ≠ [] := by intro hn; rw [hn] at my; cases my
  have hok := h.get_ok hne
  exact inj_of_nodup_map hok.slots mx my ((sameSlot_iff c.byHop x y).mp hs)

theorem mem_routes_set {t : KTable K P} (hn : (keys t).Nodup) {k : K} {g : Group P}
    {x : Entry P} : x ∈ routes (set t k g) ↔ x ∈ g ∨ ∃ k2, k2 ≠ k ∧ x ∈ get t k2 := by
  rw [mem_routes_get (nodup_keys_set hn k g)]
  constructor
  · rintro ⟨k2, hx⟩
    rw [get_set] at hx
    by_cases e : k2 = k
    · rw [if_pos e] at hx; exact Or.inl hx
    · rw [if_neg e] at hx; exact Or.inr ⟨k2, e, hx⟩
  · rintro (hx | ⟨k2, e, hx⟩)
    · exact ⟨k, by rw [get_set, if_pos rfl]; exact hx⟩
    · exact ⟨k2, by rw [get_set, if_neg e]; exact hx⟩

theorem mem_routes_del {t : KTable K P} (hn : (keys t).Nodup) {k : K} {x : Entry P} :
    x ∈ routes (del t k) ↔ ∃ k2, k2 ≠ k ∧ x ∈ get t k2 := by
  have hn' : (keys (del t k)).Nodup := List.Nodup.sublist ((del_sublist t k).map _) hn
  rw [mem_routes_get hn']
  constructor
  · rintro ⟨k2, hx⟩
    rw [get_del] at hx
    by_cases e : k2 = k
    · rw [if_pos e] at hx; cases hx
    · rw [if_neg e] at hx; exact ⟨k2, e, hx⟩
  · rintro ⟨k2, e, hx⟩
    exact ⟨k2, by rw [get_del, if_neg e]; exact hx⟩

end generic
end MM.C08
