import MM.Model.C24

namespace MM.C24

/-! ### splitting, cleaning -/

theorem splitOn_no_sep {α : Type} [DecidableEq α] (sep : α) (l : List α) (h : ∀ c ∈ l, c ≠ sep) :
    splitOn sep l = [l] := by
  induction l with
  | nil => rfl
  | cons c cs ih =>
    have hc : c ≠ sep := h c (List.mem_cons_self ..)
    have hcs : ∀ x ∈ cs, x ≠ sep := fun x hx => h x (List.mem_cons_of_mem _ hx)
    simp [splitOn, hc, ih hcs]

/-- What the routing tree sees of a path whose decoded form is `d` and that has no literal '/'
    after its first byte. -/
def segsOfDecoded (d : List Char) : List (List Char) × Bool :=
  if d.drop 1 = [] then ([], true) else ([d.drop 1], false)

theorem segsOf_noSlash (x : PC) (rest : Raw) (h : ∀ c ∈ rest, c ≠ slash) :
    segsOf (x :: rest) = segsOfDecoded (decoded (x :: rest)) := by
  unfold segsOf segsOfDecoded
  simp only [List.drop_succ_cons, List.drop_zero, splitOn_no_sep slash rest h, decoded, List.map_cons]
  cases rest with
  | nil => simp
  | cons a as => simp

theorem joinSegs_head (segs : List Raw) : (joinSegs segs).head? = some slash := by
  unfold joinSegs
  split
  · rfl
  · cases segs with
    | nil => contradiction
    | cons s ss => simp [List.flatMap_cons]

theorem head?_append_slash {np : Raw} (h : np.head? = some slash) : (np ++ [slash]).head? = some slash := by
  cases np with
  | nil => cases h
  | cons a as => simpa using h

theorem cleanPath_head (p : Raw) : (cleanPath p).head? = some slash := by
  unfold cleanPath
  split
  · rfl
  · dsimp only
    generalize (if p.head? = some slash then p else slash :: p) = p'
    have hj := joinSegs_head (cleanSegs [] (splitOn slash p'))
    split
    · exact head?_append_slash hj
    · exact hj

theorem cleanPath_ne_of_head {p : Raw} (h : p.head? ≠ some slash) : cleanPath p ≠ p := by
  intro heq
  have := cleanPath_head p
  rw [heq] at this
  exact h this

/-- A path "/seg" with one ordinary segment is already clean. -/
theorem cleanPath_single (rest : Raw) (h : ∀ c ∈ rest, c ≠ slash) (h0 : rest ≠ [])
    (h1 : rest ≠ dot) (h2 : rest ≠ dotdot) : cleanPath (slash :: rest) = slash :: rest := by
  have hlast : (slash :: rest).getLast? ≠ some slash := by
    intro hl
    have hmem : slash ∈ rest := by
      cases rest with
      | nil => exact absurd rfl h0
      | cons a as =>
        have : (slash :: a :: as).getLast? = (a :: as).getLast? := by simp [List.getLast?_cons_cons]
        rw [this] at hl
        exact List.mem_of_getLast? hl
    exact h slash hmem rfl
  unfold cleanPath
  simp only [List.cons_ne_nil, if_false, List.head?_cons, if_true]
  have hsp : splitOn slash (slash :: rest) = [[], rest] := by
    simp [splitOn, splitOn_no_sep slash rest h]
  rw [hsp]
  have hcs : cleanSegs [] [[], rest] = [rest] := by
    simp [cleanSegs, h0, h1, h2]
  rw [hcs]
  have hj : joinSegs [rest] = slash :: rest := by simp [joinSegs]
  rw [hj]
  rw [if_neg (fun hh => hlast hh.1)]

theorem cleanPath_root : cleanPath [slash] = [slash] := by decide

/-! ### matching -/

theorem longest_spec {l : List Route} {m : Route} (h : longest l = some m) :
    m ∈ l ∧ ∀ x ∈ l, x.segs.length ≤ m.segs.length := by
  induction l generalizing m with
  | nil => cases h
  | cons r rs ih =>
    unfold longest at h
    cases hl : longest rs with
    | none =>
      rw [hl] at h
      cases h
      have hnil : rs = [] := by
        cases rs with
        | nil => rfl
        | cons a as =>
          unfold longest at hl
          cases h2 : longest as <;> rw [h2] at hl <;> simp at hl
          split at hl <;> cases hl
      subst hnil
      exact ⟨List.mem_cons_self .., fun x hx => by simp at hx; subst hx; exact Nat.le_refl _⟩
    | some b =>
      rw [hl] at h
      have ⟨hb, hmax⟩ := ih hl
      simp only at h
      split at h
      · cases h
        refine ⟨List.mem_cons_of_mem _ hb, fun x hx => ?_⟩
        rcases List.mem_cons.mp hx with rfl | hx
        · omega
        · exact hmax x hx
      · cases h
        refine ⟨List.mem_cons_self .., fun x hx => ?_⟩
        rcases List.mem_cons.mp hx with rfl | hx
        · exact Nat.le_refl _
        · have := hmax x hx; omega

theorem longest_none {l : List Route} (h : longest l = none) : l = [] := by
  cases l with
  | nil => rfl
  | cons a as =>
    unfold longest at h
    cases h2 : longest as <;> rw [h2] at h <;> simp at h
    split at h <;> cases h

theorem matchSegs_mem {act : List Route} {s : List (List Char)} {t : Bool} {m : Route}
    (h : matchSegs act s t = some m) : m ∈ act := by
  unfold matchSegs at h
  split at h
  · rename_i r hf
    cases h
    exact List.mem_of_find?_eq_some hf
  · have := (longest_spec h).1
    exact (List.mem_filter.mp this).1

theorem patMatches_prefix {q : Route} {s : List (List Char)} {t : Bool}
    (h : patMatches q s t = true) : q.segs <+: s := by
  unfold patMatches at h
  split at h
  · simp only [Bool.and_eq_true] at h
    exact List.isPrefixOf_iff_prefix.mp h.1
  · simp only [Bool.and_eq_true] at h
    have : q.segs = s := by simpa using h.2
    rw [this]
    exact List.prefix_refl _

/-- If some registered pattern matches, the lookup returns a registered pattern that is at least
    as specific. -/
theorem matchSegs_of_match {act : List Route} {s : List (List Char)} {t : Bool} {q : Route}
    (hq : q ∈ act) (hm : patMatches q s t = true) :
    ∃ m, matchSegs act s t = some m ∧ m ∈ act ∧ q.segs <+: m.segs := by
  unfold matchSegs
  split
  · rename_i r hf
    refine ⟨r, rfl, List.mem_of_find?_eq_some hf, ?_⟩
    have hr := List.find?_some hf
    simp only [Bool.and_eq_true] at hr
    have hrm := hr.2
    unfold patMatches at hrm
    have hns : r.subtree = false := by simpa using hr.1
    simp only [hns, Bool.false_eq_true, if_false, Bool.and_eq_true] at hrm
    have : r.segs = s := by simpa using hrm.2
    rw [this]
    exact patMatches_prefix hm
  · rename_i hnone
    have hsub : q.subtree = true := by
      cases hs : q.subtree with
      | true => rfl
      | false =>
        have := List.find?_eq_none.mp hnone q hq
        simp [hs, hm] at this
    have hqf : q ∈ act.filter (fun r => r.subtree && patMatches r s t) := by
      simp [List.mem_filter, hq, hsub, hm]
    cases hl : longest (act.filter (fun r => r.subtree && patMatches r s t)) with
    | none => rw [longest_none hl] at hqf; cases hqf
    | some m =>
      have ⟨hmem, hmax⟩ := longest_spec hl
      have hmf := List.mem_filter.mp hmem
      simp only [Bool.and_eq_true] at hmf
      refine ⟨m, rfl, hmf.1, ?_⟩
      exact List.prefix_of_prefix_length_le (patMatches_prefix hm) (patMatches_prefix hmf.2.2) (hmax q hqf)

/-- `q` matches every path `p` matches. -/
def covers (q p : Route) : Bool :=
  (q.subtree == p.subtree && q.segs == p.segs) ||
  (q.subtree && q.segs.isPrefixOf p.segs && (decide (q.segs.length < p.segs.length) || p.subtree))

theorem covers_matches {q p : Route} (hc : covers q p = true) {s : List (List Char)} {t : Bool}
    (hm : patMatches p s t = true) : patMatches q s t = true := by
  unfold covers at hc
  rcases Bool.or_eq_true _ _ |>.mp hc with h | h
  · simp only [Bool.and_eq_true, beq_iff_eq] at h
    unfold patMatches at hm ⊢
    rw [h.1, h.2]; exact hm
  · simp only [Bool.and_eq_true, Bool.or_eq_true, decide_eq_true_eq] at h
    obtain ⟨⟨hqs, hpre⟩, hlen⟩ := h
    have hpre' : q.segs <+: p.segs := List.isPrefixOf_iff_prefix.mp hpre
    have hps := patMatches_prefix hm
    have hqs' : q.segs <+: s := hpre'.trans hps
    have hle := hpre'.length_le
    have hle2 := hps.length_le
    unfold patMatches
    simp only [hqs, if_true, Bool.and_eq_true, Bool.or_eq_true, decide_eq_true_eq]
    refine ⟨List.isPrefixOf_iff_prefix.mpr hqs', ?_⟩
    unfold patMatches at hm
    cases hpsub : p.subtree with
    | true =>
      simp only [hpsub, if_true, Bool.and_eq_true, Bool.or_eq_true, decide_eq_true_eq] at hm
      rcases hm.2 with h1 | h1
      · exact Or.inl h1
      · exact Or.inr (by omega)
    | false =>
      simp only [hpsub, Bool.false_eq_true, if_false, Bool.and_eq_true] at hm
      have hsegs : p.segs = s := by simpa using hm.2
      rcases hlen with h1 | h1
      · exact Or.inr (by rw [← hsegs]; exact h1)
      · rw [hpsub] at h1; cases h1

/-! ### the mux decision -/

theorem decideSegs_changed (act : List Route) (segs : List (List Char)) (tr : Bool) :
    decideSegs act false true segs tr = .redirect := by
  unfold decideSegs
  dsimp only
  split
  · rfl
  · simp

theorem decideSegs_route {act : List Route} {c ch : Bool} {segs : List (List Char)} {tr : Bool}
    {rt : Route} (h : decideSegs act c ch segs tr = .route rt) : matchSegs act segs tr = some rt := by
  unfold decideSegs at h
  dsimp only at h
  split at h
  · cases h
  · split at h
    · cases h
    · split at h
      · cases h
      · cases h; assumption

theorem decideSegs_some {act : List Route} {c ch : Bool} {segs : List (List Char)} {tr : Bool}
    {m : Route} (hm : matchSegs act segs tr = some m) :
    decideSegs act c ch segs tr = .redirect ∨ decideSegs act c ch segs tr = .route m := by
  unfold decideSegs
  dsimp only
  split
  · exact Or.inl rfl
  · split
    · exact Or.inl rfl
    · rw [hm]; exact Or.inr rfl

theorem muxRoute_mem {act : List Route} {c : Bool} {p : Raw} {rt : Route}
    (h : muxRoute act c p = .route rt) : rt ∈ act :=
  matchSegs_mem (decideSegs_route h)

theorem serve_cases (valid : List Char → Bool) (tc : Bool) (f : Flags) (r : Req) :
    serve valid tc f r = serveMux f r ∨ serve valid tc f r = ⟨.s401, none, false⟩ := by
  unfold serve
  split
  · exact Or.inl rfl
  · split
    · exact Or.inl rfl
    · dsimp only
      split
      · exact Or.inr rfl
      · exact Or.inl rfl

/-! ### bcrypt key -/

theorem key_at {p : List Char} {i : Nat} (hi : i < 72) :
    (bcryptKey p)[i]? = some ((p ++ [NUL]).getD (i % (p.length + 1)) NUL) := by
  unfold bcryptKey
  simp [List.getElem?_map, List.getElem?_range hi]

theorem getD_concat_lt {p : List Char} {j : Nat} (h : j < p.length) : (p ++ [NUL]).getD j NUL = p[j] := by
  simp [List.getD_eq_getElem?_getD, List.getElem?_append_left h, h]

theorem getD_concat_eq {p : List Char} : (p ++ [NUL]).getD p.length NUL = NUL := by
  simp [List.getD_eq_getElem?_getD]


end MM.C24
