/-
  Round-trip facts for the codec combinators of MM/Model/C05Comb.lean.
  For each combinator: `Sound` (encode then parse gives the value back and leaves the suffix),
  `DecWF` (what parses is well-formed), `Shrinks` (the rest is a suffix no longer than the input).
-/
import MM.Model.C05Comb

namespace MM.C05
open MM

theorem take_append_len {α} (a b : List α) (n : Nat) (h : a.length = n) : (a ++ b).take n = a := by
  subst h; simp

theorem drop_append_len {α} (a b : List α) (n : Nat) (h : a.length = n) : (a ++ b).drop n = b := by
  subst h; simp

/-! ### be -/

theorem be_sound (k : Nat) : (be k).Sound := by
  intro n rest h
  have hn : n < 256 ^ k := by simpa [be] using h
  simp only [be]
  rw [if_pos (by simp)]
  rw [take_append_len _ _ _ (beN_length k n), drop_append_len _ _ _ (beN_length k n),
    unbe_beN_of_lt hn]

theorem be_decwf (k : Nat) : (be k).DecWF := by
  intro bs a rest h
  simp only [be] at h
  split at h
  · next hk =>
    injection h with h; injection h with h1 h2
    subst h1
    have := unbe_lt (bs.take k)
    have hl : (bs.take k).length = k := by simp [List.length_take]; omega
    rw [hl] at this
    simp [be, this]
  · cases h

theorem be_shrinks (k : Nat) : (be k).Shrinks := by
  intro bs a rest h
  simp only [be] at h
  split at h
  · injection h with h; injection h with h1 h2
    subst h2; simp
  · cases h

/-! ### bool -/

theorem bool_sound : bool.Sound := by
  intro b rest _
  cases b <;> simp [bool]

theorem bool_decwf : bool.DecWF := by
  intro bs a rest _; rfl

theorem bool_shrinks : bool.Shrinks := by
  intro bs a rest h
  cases bs with
  | nil => simp [bool] at h
  | cons x r =>
    simp only [bool] at h
    injection h with h; injection h with h1 h2
    subst h2; simp

/-! ### bytesN -/

theorem bytesN_sound (n : Nat) : (bytesN n).Sound := by
  intro b rest h
  have hb : b.length = n := by simpa [bytesN] using h
  simp only [bytesN]
  rw [if_pos (by simp; omega), take_append_len _ _ _ hb, drop_append_len _ _ _ hb]

theorem bytesN_decwf (n : Nat) : (bytesN n).DecWF := by
  intro bs a rest h
  simp only [bytesN] at h
  split at h
  · next hk =>
    injection h with h; injection h with h1 h2
    subst h1
    simp [bytesN, List.length_take]; omega
  · cases h

theorem bytesN_shrinks (n : Nat) : (bytesN n).Shrinks := by
  intro bs a rest h
  simp only [bytesN] at h
  split at h
  · injection h with h; injection h with h1 h2
    subst h2; simp
  · cases h

/-! ### lp -/

theorem lp_sound (k : Nat) : (lp k).Sound := by
  intro s rest h
  have hs : s.length < 256 ^ k := by simpa [lp] using h
  simp only [lp]
  rw [List.append_assoc, if_pos (by simp)]
  try dsimp only
  rw [take_append_len _ _ _ (beN_length k _), drop_append_len _ _ _ (beN_length k _),
    unbe_beN_of_lt hs, if_pos (by simp), take_append_len _ _ _ rfl, drop_append_len _ _ _ rfl]

theorem lp_decwf (k : Nat) : (lp k).DecWF := by
  intro bs a rest h
  simp only [lp] at h
  split at h
  · next hk =>
    try dsimp only at h
    split at h
    · next hn =>
      injection h with h; injection h with h1 h2
      subst h1
      have := unbe_lt (bs.take k)
      have hl : (bs.take k).length = k := by simp [List.length_take]; omega
      rw [hl] at this
      simp only [lp, List.length_take, decide_eq_true_eq]
      omega
    · cases h
  · cases h

theorem lp_shrinks (k : Nat) : (lp k).Shrinks := by
  intro bs a rest h
  simp only [lp] at h
  split at h
  · try dsimp only at h
    split at h
    · injection h with h; injection h with h1 h2
      subst h2; simp
    · cases h
  · cases h

/-! ### peek1 -/

theorem peek1_sound : peek1.Sound := by
  intro a rest h
  cases a with
  | nil => simp [peek1] at h
  | cons b t =>
    have hb : b.toNat = t.length := by simpa [peek1] using h
    simp only [peek1, List.cons_append]
    rw [if_pos (by simp; omega), take_append_len _ _ _ hb.symm, drop_append_len _ _ _ hb.symm]

theorem peek1_decwf : peek1.DecWF := by
  intro bs a rest h
  cases bs with
  | nil => simp [peek1] at h
  | cons b r =>
    simp only [peek1] at h
    split at h
    · next hk =>
      injection h with h; injection h with h1 h2
      subst h1
      simp [peek1, List.length_take]; omega
    · cases h

theorem peek1_shrinks : peek1.Shrinks := by
  intro bs a rest h
  cases bs with
  | nil => simp [peek1] at h
  | cons b r =>
    simp only [peek1] at h
    split at h
    · injection h with h; injection h with h1 h2
      subst h2; simp; omega
    · cases h

/-! ### failC -/

theorem failC_sound : failC.Sound := by intro a rest h; simp [failC] at h
theorem failC_decwf : failC.DecWF := by intro bs a rest h; simp [failC] at h
theorem failC_shrinks : failC.Shrinks := by intro bs a rest h; simp [failC] at h

/-! ### seq / dep -/

theorem seq_sound {a : Codec α} {b : Codec β} (ha : a.Sound) (hb : b.Sound) : (seq a b).Sound := by
  intro p rest h
  have h1 : a.wf p.1 = true ∧ b.wf p.2 = true := by simpa [seq] using h
  simp only [seq, List.append_assoc]
  rw [ha p.1 _ h1.1]
  dsimp only
  rw [hb p.2 _ h1.2]

theorem seq_decwf {a : Codec α} {b : Codec β} (ha : a.DecWF) (hb : b.DecWF) : (seq a b).DecWF := by
  intro bs p rest h
  simp only [seq] at h
  split at h
  · cases h
  · next x r hx =>
    split at h
    · cases h
    · next y r' hy =>
      injection h with h; injection h with h1 h2
      subst h1
      simp [seq, ha _ _ _ hx, hb _ _ _ hy]

theorem seq_shrinks {a : Codec α} {b : Codec β} (ha : a.Shrinks) (hb : b.Shrinks) :
    (seq a b).Shrinks := by
  intro bs p rest h
  simp only [seq] at h
  split at h
  · cases h
  · next x r hx =>
    split at h
    · cases h
    · next y r' hy =>
      injection h with h; injection h with h1 h2
      subst h2
      have := ha _ _ _ hx
      have := hb _ _ _ hy
      omega

theorem dep_sound {a : Codec τ} {f : τ → Codec β} (ha : a.Sound) (hf : ∀ t, (f t).Sound) :
    (dep a f).Sound := by
  intro p rest h
  have h1 : a.wf p.1 = true ∧ (f p.1).wf p.2 = true := by simpa [dep] using h
  simp only [dep, List.append_assoc]
  rw [ha p.1 _ h1.1]
  dsimp only
  rw [hf p.1 p.2 _ h1.2]

theorem dep_decwf {a : Codec τ} {f : τ → Codec β} (ha : a.DecWF) (hf : ∀ t, (f t).DecWF) :
    (dep a f).DecWF := by
  intro bs p rest h
  simp only [dep] at h
  split at h
  · cases h
  · next x r hx =>
    split at h
    · cases h
    · next y r' hy =>
      injection h with h; injection h with h1 h2
      subst h1
      simp [dep, ha _ _ _ hx, hf _ _ _ _ hy]

theorem dep_shrinks {a : Codec τ} {f : τ → Codec β} (ha : a.Shrinks) (hf : ∀ t, (f t).Shrinks) :
    (dep a f).Shrinks := by
  intro bs p rest h
  simp only [dep] at h
  split at h
  · cases h
  · next x r hx =>
    split at h
    · cases h
    · next y r' hy =>
      injection h with h; injection h with h1 h2
      subst h2
      have := ha _ _ _ hx
      have := hf _ _ _ _ hy
      omega

/-! ### rep / listN -/

theorem repDec_sound {c : Codec α} (hc : c.Sound) (l : List α) (rest : Bytes)
    (h : l.all c.wf = true) : repDec c l.length (encAll c l ++ rest) = some (l, rest) := by
  induction l with
  | nil => simp [repDec, encAll]
  | cons x xs ih =>
    have hx : c.wf x = true ∧ xs.all c.wf = true := by simpa using h
    simp only [encAll, List.map_cons, List.flatten_cons, List.length_cons, repDec,
      List.append_assoc]
    rw [hc x _ hx.1]
    dsimp only
    have := ih hx.2
    simp only [encAll] at this
    rw [this]

theorem repDec_decwf {c : Codec α} (hc : c.DecWF) :
    ∀ (n : Nat) (bs : Bytes) (l : List α) (rest : Bytes),
      repDec c n bs = some (l, rest) → l.all c.wf = true ∧ l.length = n := by
  intro n
  induction n with
  | zero =>
    intro bs l rest h
    simp only [repDec] at h
    injection h with h; injection h with h1 h2
    subst h1; simp
  | succ n ih =>
    intro bs l rest h
    simp only [repDec] at h
    split at h
    · cases h
    · next x r hx =>
      split at h
      · cases h
      · next xs r' hxs =>
        injection h with h; injection h with h1 h2
        subst h1
        have := ih _ _ _ hxs
        simp [hc _ _ _ hx, this.1, this.2]

theorem repDec_shrinks {c : Codec α} (hc : c.Shrinks) :
    ∀ (n : Nat) (bs : Bytes) (l : List α) (rest : Bytes),
      repDec c n bs = some (l, rest) → rest.length ≤ bs.length := by
  intro n
  induction n with
  | zero =>
    intro bs l rest h
    simp only [repDec] at h
    injection h with h; injection h with h1 h2
    subst h2; simp
  | succ n ih =>
    intro bs l rest h
    simp only [repDec] at h
    split at h
    · cases h
    · next x r hx =>
      split at h
      · cases h
      · next xs r' hxs =>
        injection h with h; injection h with h1 h2
        subst h2
        have := ih _ _ _ hxs
        have := hc _ _ _ hx
        omega

theorem listN_sound (k : Nat) {c : Codec α} {esz : Nat} (hc : c.Sound) : (listN k c esz).Sound := by
  intro l rest h
  have h1 : l.length < 256 ^ k ∧ l.all c.wf = true := by simpa [listN] using h
  simp only [listN, List.append_assoc]
  rw [if_pos (by simp), take_append_len _ _ _ (beN_length k _),
    drop_append_len _ _ _ (beN_length k _), unbe_beN_of_lt h1.1]
  exact repDec_sound hc l rest h1.2

theorem listN_decwf (k : Nat) {c : Codec α} {esz : Nat} (hc : c.DecWF) : (listN k c esz).DecWF := by
  intro bs l rest h
  simp only [listN] at h
  split at h
  · next hk =>
    have := repDec_decwf hc _ _ _ _ h
    have hlt := unbe_lt (bs.take k)
    have hl : (bs.take k).length = k := by simp [List.length_take]; omega
    rw [hl] at hlt
    simp only [listN, Bool.and_eq_true, decide_eq_true_eq]
    exact ⟨by omega, this.1⟩
  · cases h

theorem listN_shrinks (k : Nat) {c : Codec α} {esz : Nat} (hc : c.Shrinks) : (listN k c esz).Shrinks := by
  intro bs l rest h
  simp only [listN] at h
  split at h
  · have := repDec_shrinks hc _ _ _ _ h
    simp at this; omega
  · cases h

/-! ### refine / preEnc -/

theorem refine_sound {c : Codec α} {nested : α → Nat} (p : α → Bool) (hc : c.Sound) : (refine c p nested).Sound := by
  intro a rest h
  have h1 : c.wf a = true ∧ p a = true := by simpa [refine] using h
  simp only [refine]
  rw [hc a rest h1.1]
  simp [h1.2]

theorem refine_decwf {c : Codec α} {nested : α → Nat} (p : α → Bool) (hc : c.DecWF) : (refine c p nested).DecWF := by
  intro bs a rest h
  simp only [refine] at h
  split at h
  · cases h
  · next x r hx =>
    split at h
    · next hp =>
      injection h with h; injection h with h1 h2
      subst h1
      simp [refine, hc _ _ _ hx, hp]
    · cases h

theorem refine_shrinks {c : Codec α} {nested : α → Nat} (p : α → Bool) (hc : c.Shrinks) : (refine c p nested).Shrinks := by
  intro bs a rest h
  simp only [refine] at h
  split at h
  · cases h
  · next x r hx =>
    split at h
    · injection h with h; injection h with h1 h2
      subst h2
      exact hc _ _ _ hx
    · cases h

theorem preEnc_sound {c : Codec α} (norm : α → α) (hc : c.Sound) : (preEnc c norm).Sound := by
  intro a rest h
  have h1 : c.wf a = true ∧ c.enc (norm a) = c.enc a := by simpa [preEnc] using h
  simp only [preEnc]
  rw [h1.2]
  exact hc a rest h1.1

theorem preEnc_shrinks {c : Codec α} (norm : α → α) (hc : c.Shrinks) : (preEnc c norm).Shrinks :=
  hc

/-! ### top level -/

theorem decodeTop_roundtrip {c : Codec α} (hc : c.Sound) (minLen : Nat) (a : α)
    (hwf : c.wf a = true) (hlen : minLen ≤ (c.enc a).length) :
    decodeTop minLen c (c.enc a) = some a := by
  unfold decodeTop
  rw [if_neg (by omega)]
  have := hc a [] hwf
  rw [List.append_nil] at this
  rw [this]; rfl

theorem decodeTop_wf {c : Codec α} (hc : c.DecWF) (minLen : Nat) (bs : Bytes) (a : α)
    (h : decodeTop minLen c bs = some a) : c.wf a = true := by
  unfold decodeTop at h
  split at h
  · cases h
  · cases hd : c.dec bs with
    | none => simp [hd] at h
    | some p =>
      obtain ⟨x, r⟩ := p
      simp [hd] at h
      subst h
      exact hc _ _ _ hd

end MM.C05

namespace MM.C05
open MM

/-! ### fwdPrefix -/

theorem fwdPrefix_sound : fwdPrefix.Sound := by
  intro a rest h
  cases a with
  | nil => simp [fwdPrefix] at h
  | cons k r =>
    simp only [fwdPrefix] at h
    split at h
    · cases h
    · next t r2 hd =>
      have ht : t.toNat = r2.length := by simpa using h
      have hk : k.toNat ≤ r.length := by
        have : r.drop k.toNat ≠ [] := by rw [hd]; simp
        have := mt List.drop_eq_nil_iff.mpr this
        omega
      have hd' : (r ++ rest).drop k.toNat = t :: (r2 ++ rest) := by
        rw [List.drop_append_of_le_length hk, hd]; rfl
      have hr : r = r.take k.toNat ++ t :: r2 := by
        conv => lhs; rw [← List.take_append_drop k.toNat r, hd]
      simp only [fwdPrefix, List.cons_append]
      rw [hd']
      dsimp only
      rw [if_pos (by simp; omega), List.take_append_of_le_length hk,
        take_append_len _ _ _ ht.symm, drop_append_len _ _ _ ht.symm, ← hr]

theorem fwdPrefix_decwf : fwdPrefix.DecWF := by
  intro bs a rest h
  cases bs with
  | nil => simp [fwdPrefix] at h
  | cons k r =>
    simp only [fwdPrefix] at h
    split at h
    · cases h
    · next t r2 hd =>
      split at h
      · next ht =>
        injection h with h; injection h with h1 h2
        subst h1
        have hk : k.toNat ≤ r.length := by
          have : r.drop k.toNat ≠ [] := by rw [hd]; simp
          have := mt List.drop_eq_nil_iff.mpr this
          omega
        have hl : (r.take k.toNat).length = k.toNat := by simp [List.length_take]; omega
        simp only [fwdPrefix]
        rw [drop_append_len _ _ _ hl]
        simp [List.length_take]; omega
      · cases h

theorem fwdPrefix_shrinks : fwdPrefix.Shrinks := by
  intro bs a rest h
  cases bs with
  | nil => simp [fwdPrefix] at h
  | cons k r =>
    simp only [fwdPrefix] at h
    split at h
    · cases h
    · next t r2 hd =>
      split at h
      · injection h with h; injection h with h1 h2
        subst h2
        have : (r.drop k.toNat).length = r2.length + 1 := by rw [hd]; simp
        simp at this ⊢; omega
      · cases h

/-! ### minimum encoded length -/

/-- Every well-formed value encodes to at least `n` bytes. -/
def Codec.MinLen (c : Codec α) (n : Nat) : Prop := ∀ a, c.wf a = true → n ≤ (c.enc a).length

theorem MinLen.mono {c : Codec α} {n m : Nat} (h : c.MinLen n) (hm : m ≤ n) : c.MinLen m :=
  fun a ha => Nat.le_trans hm (h a ha)

theorem minLen_zero (c : Codec α) : c.MinLen 0 := fun _ _ => Nat.zero_le _

theorem be_minLen (k : Nat) : (be k).MinLen k := by intro a _; simp [be]
theorem bool_minLen : bool.MinLen 1 := by intro a _; simp [bool]
theorem bytesN_minLen (n : Nat) : (bytesN n).MinLen n := by
  intro a h
  have : a.length = n := by simpa [bytesN] using h
  simp [bytesN, this]
theorem lp_minLen (k : Nat) : (lp k).MinLen k := by intro a _; simp [lp]
theorem peek1_minLen : peek1.MinLen 1 := by
  intro a h
  cases a with
  | nil => simp [peek1] at h
  | cons b t => simp [peek1]
theorem listN_minLen (k : Nat) (c : Codec α) {esz : Nat} : (listN k c esz).MinLen k := by intro a _; simp [listN]

theorem seq_minLen {a : Codec α} {b : Codec β} {n m : Nat} (ha : a.MinLen n) (hb : b.MinLen m) :
    (seq a b).MinLen (n + m) := by
  intro p h
  have h1 : a.wf p.1 = true ∧ b.wf p.2 = true := by simpa [seq] using h
  have := ha _ h1.1
  have := hb _ h1.2
  simp [seq]; omega

theorem dep_minLen {a : Codec τ} {f : τ → Codec β} {n m : Nat} (ha : a.MinLen n)
    (hf : ∀ t, (f t).MinLen m) : (dep a f).MinLen (n + m) := by
  intro p h
  have h1 : a.wf p.1 = true ∧ (f p.1).wf p.2 = true := by simpa [dep] using h
  have := ha _ h1.1
  have := hf _ _ h1.2
  simp [dep]; omega

theorem refine_minLen {c : Codec α} {n : Nat} {nested : α → Nat} (p : α → Bool) (hc : c.MinLen n) : (refine c p nested).MinLen n := by
  intro a h
  have h1 : c.wf a = true ∧ p a = true := by simpa [refine] using h
  exact hc a h1.1

theorem preEnc_minLen {c : Codec α} {n : Nat} (norm : α → α) (hc : c.MinLen n) :
    (preEnc c norm).MinLen n := by
  intro a h
  have h1 : c.wf a = true ∧ c.enc (norm a) = c.enc a := by simpa [preEnc] using h
  simp only [preEnc]
  rw [h1.2]
  exact hc a h1.1

end MM.C05

namespace MM.C05
open MM

/-! ### exact consumption: the parser reads exactly as many bytes as the value re-encodes to -/

def Codec.LenExact (c : Codec α) : Prop :=
  ∀ bs a rest, c.dec bs = some (a, rest) → (c.enc a).length + rest.length = bs.length

theorem be_lenExact (k : Nat) : (be k).LenExact := by
  intro bs a rest h
  simp only [be] at h
  split at h
  · injection h with h; injection h with h1 h2
    subst h2; simp [be]; omega
  · cases h

theorem bool_lenExact : bool.LenExact := by
  intro bs a rest h
  cases bs with
  | nil => simp [bool] at h
  | cons x r =>
    simp only [bool] at h
    injection h with h; injection h with h1 h2
    subst h2; simp [bool]; omega

theorem bytesN_lenExact (n : Nat) : (bytesN n).LenExact := by
  intro bs a rest h
  simp only [bytesN] at h
  split at h
  · injection h with h; injection h with h1 h2
    subst h1 h2; simp [bytesN, List.length_take]; omega
  · cases h

theorem lp_lenExact (k : Nat) : (lp k).LenExact := by
  intro bs a rest h
  simp only [lp] at h
  split at h
  · try dsimp only at h
    split at h
    · injection h with h; injection h with h1 h2
      subst h1 h2; simp [lp, List.length_take]; omega
    · cases h
  · cases h

theorem peek1_lenExact : peek1.LenExact := by
  intro bs a rest h
  cases bs with
  | nil => simp [peek1] at h
  | cons b r =>
    simp only [peek1] at h
    split at h
    · injection h with h; injection h with h1 h2
      subst h1 h2; simp [peek1, List.length_take]; omega
    · cases h

theorem fwdPrefix_lenExact : fwdPrefix.LenExact := by
  intro bs a rest h
  cases bs with
  | nil => simp [fwdPrefix] at h
  | cons k r =>
    simp only [fwdPrefix] at h
    split at h
    · cases h
    · next t r2 hd =>
      split at h
      · injection h with h; injection h with h1 h2
        subst h1 h2
        have : (r.drop k.toNat).length = r2.length + 1 := by rw [hd]; simp
        simp [fwdPrefix, List.length_take] at this ⊢; omega
      · cases h

theorem failC_lenExact : failC.LenExact := by intro bs a rest h; simp [failC] at h

theorem seq_lenExact {a : Codec α} {b : Codec β} (ha : a.LenExact) (hb : b.LenExact) :
    (seq a b).LenExact := by
  intro bs p rest h
  simp only [seq] at h
  split at h
  · cases h
  · next x r hx =>
    split at h
    · cases h
    · next y r' hy =>
      injection h with h; injection h with h1 h2
      subst h1 h2
      have := ha _ _ _ hx
      have := hb _ _ _ hy
      simp [seq]; omega

theorem dep_lenExact {a : Codec τ} {f : τ → Codec β} (ha : a.LenExact) (hf : ∀ t, (f t).LenExact) :
    (dep a f).LenExact := by
  intro bs p rest h
  simp only [dep] at h
  split at h
  · cases h
  · next x r hx =>
    split at h
    · cases h
    · next y r' hy =>
      injection h with h; injection h with h1 h2
      subst h1 h2
      have := ha _ _ _ hx
      have := hf _ _ _ _ hy
      simp [dep]; omega

theorem repDec_lenExact {c : Codec α} (hc : c.LenExact) :
    ∀ (n : Nat) (bs : Bytes) (l : List α) (rest : Bytes),
      repDec c n bs = some (l, rest) → (encAll c l).length + rest.length = bs.length := by
  intro n
  induction n with
  | zero =>
    intro bs l rest h
    simp only [repDec] at h
    injection h with h; injection h with h1 h2
    subst h1 h2; simp [encAll]
  | succ n ih =>
    intro bs l rest h
    simp only [repDec] at h
    split at h
    · cases h
    · next x r hx =>
      split at h
      · cases h
      · next xs r' hxs =>
        injection h with h; injection h with h1 h2
        subst h1 h2
        have h1 := ih _ _ _ hxs
        have h2 := hc _ _ _ hx
        have h3 : (encAll c (x :: xs)).length = (c.enc x).length + (encAll c xs).length := by
          simp [encAll]
        omega

theorem listN_lenExact (k : Nat) {c : Codec α} {esz : Nat} (hc : c.LenExact) : (listN k c esz).LenExact := by
  intro bs l rest h
  simp only [listN] at h
  split at h
  · have := repDec_lenExact hc _ _ _ _ h
    simp [listN] at this ⊢; omega
  · cases h

theorem refine_lenExact {c : Codec α} {nested : α → Nat} (p : α → Bool) (hc : c.LenExact) : (refine c p nested).LenExact := by
  intro bs a rest h
  simp only [refine] at h
  split at h
  · cases h
  · next x r hx =>
    split at h
    · injection h with h; injection h with h1 h2
      subst h1 h2
      exact hc _ _ _ hx
    · cases h

end MM.C05
