/-
  Helper lemmas for C29: cache facts (mark / expire), and the protection invariant used by
  C29_partial.
-/
import MM.Model.C29
import MM.Lemmas.C28
namespace MM.C29
open MM.C28

/-- "No size eviction happens along the history": at every cleanup the cache that survives the
    TTL pass fits in `MaxSeenCacheSize`. -/
def noEvict (V : Verifier) (cfg : FCfg) : HState → List Ev → Bool
  | _, [] => true
  | s, e :: es =>
    (match e with
      | .cleanup _ => decide ((expire s.f.seen s.now (sleepTtl cfg)).length ≤ cfg.maxSize)
      | _ => true) && noEvict V cfg (stepEv V cfg s e).1 es

def held (l : List Seen) (o i : Nat) (t1 : Int) : Prop := ∃ e ∈ l, keyEq e o i = true ∧ e.seenAt ≥ t1

theorem hasKey_false_not_held {l : List Seen} {o i : Nat} {t1 : Int} (h : hasKey l o i = false) : ¬ held l o i t1 := by
  intro ⟨e, he, hk, _⟩
  unfold hasKey at h
  rw [List.any_eq_false] at h
  exact h e he hk

theorem mark_fst_new {l : List Seen} {now : Int} {o i f : Nat} (h : (mark l now o i f).2 = true) :
    hasKey l o i = false ∧ (mark l now o i f).1 = { origin := o, id := i, seenAt := now, seenFrom := f } :: l := by
  unfold mark at *
  by_cases hk : hasKey l o i = true
  · rw [if_pos hk] at h; simp at h
  · rw [if_neg hk]; simp at hk; exact ⟨hk, rfl⟩

theorem mark_held {l : List Seen} {now : Int} {o i f o' i' : Nat} {t1 : Int}
    (h : held l o' i' t1) (ht : t1 ≤ now) : held (mark l now o i f).1 o' i' t1 := by
  obtain ⟨e, he, hk, hs⟩ := h
  unfold mark
  by_cases hh : hasKey l o i = true
  · rw [if_pos hh]
    dsimp only
    by_cases hu : (keyEq e o i && e.seenFrom != f) = true
    · refine ⟨{ e with seenAt := now }, ?_, ?_, ?_⟩
      · exact List.mem_map.mpr ⟨e, he, by rw [if_pos hu]⟩
      · simpa [keyEq] using hk
      · exact ht
    · refine ⟨e, ?_, hk, hs⟩
      exact List.mem_map.mpr ⟨e, he, by rw [if_neg hu]⟩
  · rw [if_neg hh]
    exact ⟨e, List.mem_cons_of_mem _ he, hk, hs⟩

theorem expire_held {l : List Seen} {now ttl : Int} {o i : Nat} {t1 : Int}
    (h : held l o i t1) : held (expire l now ttl) o i t1 ∨ now > t1 + ttl := by
  obtain ⟨e, he, hk, hs⟩ := h
  by_cases hx : now - e.seenAt > ttl
  · right; omega
  · left
    refine ⟨e, ?_, hk, hs⟩
    unfold expire
    rw [List.mem_filter]
    exact ⟨he, by simp [hx]⟩

/-- The cache after `handle` is the old cache or the result of `mark`; either way an entry that
    protects a key stays (possibly refreshed). -/
theorem handle_held (V : Verifier) (cfg : FCfg) (st : FState) (now : Int) (k : Kind) (from_ : Nat) (c : Cmd)
    {o i : Nat} {t1 : Int} (h : held st.seen o i t1) (ht : t1 ≤ now) :
    held (handle V cfg st now k from_ c).1.seen o i t1 := by
  unfold handle handleWith
  by_cases h2 : c.seenBy.contains cfg.localID = true
  · rw [if_pos h2]; exact h
  · rw [if_neg h2]
    by_cases h3 : (!verifyWith tsOutside V cfg now c) = true
    · rw [if_pos h3]; exact h
    · rw [if_neg h3]
      have hm := mark_held (now := now) (o := c.origin) (i := c.id) (f := from_) h ht
      generalize mark st.seen now c.origin c.id from_ = m at hm
      obtain ⟨seen', isNew⟩ := m
      dsimp only at hm ⊢
      by_cases h1 : (!isNew) = true
      · rw [if_pos h1]; exact hm
      · rw [if_neg h1]; cases k <;> exact hm

theorem handle_accept_new (V : Verifier) (cfg : FCfg) (st : FState) (now : Int) (k : Kind) (from_ : Nat) (c : Cmd)
    (h : (handle V cfg st now k from_ c).2.1 = true) :
    (mark st.seen now c.origin c.id from_).2 = true ∧
    (handle V cfg st now k from_ c).1.seen = (mark st.seen now c.origin c.id from_).1 := by
  unfold handle handleWith at h ⊢
  by_cases h2 : c.seenBy.contains cfg.localID = true
  · rw [if_pos h2] at h; simp at h
  · rw [if_neg h2] at h ⊢
    by_cases h3 : (!verifyWith tsOutside V cfg now c) = true
    · rw [if_pos h3] at h; simp at h
    · rw [if_neg h3] at h ⊢
      generalize mark st.seen now c.origin c.id from_ = m at *
      obtain ⟨seen', isNew⟩ := m
      dsimp only at *
      by_cases h1 : (!isNew) = true
      · rw [if_pos h1] at h; simp at h
      · rw [if_neg h1]
        refine ⟨by simpa using h1, ?_⟩
        cases k <;> rfl

theorem sleepTtl_ge (cfg : FCfg) : sleepTtl cfg ≥ 2 * cfg.window := by
  unfold sleepTtl; split <;> omega

/-- The instant a command's timestamp denotes, in ns. -/
def tgtT (target : Cmd) : Int := cmdSec target.ts * 1000000000

/-- "`target` was accepted at some earlier instant `t1` and is still protected": its key is
    still in the cache with `SeenAt ≥ t1`, or more than the cache TTL has passed since `t1`. -/
def Protected (cfg : FCfg) (target : Cmd) (s : HState) : Prop :=
  ∃ t1 : Int, tgtT target - cfg.window ≤ t1 ∧ t1 ≤ s.now ∧
    (held s.f.seen target.origin target.id t1 ∨ s.now > t1 + sleepTtl cfg)

theorem sameCmd_eq {a b : Cmd} (h : sameCmd a b = true) :
    a.origin = b.origin ∧ a.id = b.id ∧ a.ts = b.ts ∧ a.sig = b.sig := by
  simpa [sameCmd, and_assoc] using h

/-- An accepted delivery of `target` establishes protection. -/
theorem accept_protects (V : Verifier) (cfg : FCfg) (target : Cmd) (s : HState) (k : Kind) (from_ : Nat) (c : Cmd)
    (hk : cfg.signing = true) (hw : cfg.window < 2^63 - 1)
    (hacc : (handle V cfg s.f s.now k from_ c).2.1 = true) (hsame : sameCmd c target = true) :
    Protected cfg target { s with f := (handle V cfg s.f s.now k from_ c).1 } := by
  obtain ⟨ho, hi, hts, _⟩ := sameCmd_eq hsame
  have hv := verify_sound V cfg s.now c hk hw (handle_accept V cfg s.f s.now k from_ c hacc)
  have hn := handle_accept_new V cfg s.f s.now k from_ c hacc
  have hnew := mark_fst_new hn.1
  refine ⟨s.now, ?_, Int.le_refl _, Or.inl ?_⟩
  · unfold tgtT; rw [← hts]; have := hv.2.2.1; omega
  · dsimp only
    rw [hn.2, hnew.2, ← ho, ← hi]
    exact ⟨_, List.mem_cons_self, by simp [keyEq], Int.le_refl _⟩

/-- Under protection no step accepts `target`, and protection is preserved — provided the step does not
    size-evict (the cache TTL is at least twice the window by construction). -/
theorem step_protected (V : Verifier) (cfg : FCfg) (target : Cmd) (s : HState) (e : Ev)
    (hk : cfg.signing = true) (hw : cfg.window < 2^63 - 1)
    (hne : noEvict V cfg s [e] = true) (hp : Protected cfg target s) :
    Protected cfg target (stepEv V cfg s e).1 ∧
    ∀ c, (stepEv V cfg s e).2.1 = some c → sameCmd c target = false := by
  obtain ⟨t1, h1, h2, h3⟩ := hp
  have httl := sleepTtl_ge cfg
  cases e with
  | deliver k from_ c =>
    have hstep : stepEv V cfg s (.deliver k from_ c) =
        ({ s with f := (handle V cfg s.f s.now k from_ c).1 },
         if (handle V cfg s.f s.now k from_ c).2.1 then some c else none,
         (handle V cfg s.f s.now k from_ c).2.2.map fun (p, c) => (p, k, c)) := by
      simp only [stepEv]
    rw [hstep]
    refine ⟨⟨t1, h1, h2, ?_⟩, ?_⟩
    · dsimp only
      rcases h3 with h3 | h3
      · left; exact handle_held V cfg s.f s.now k from_ c h3 h2
      · right; exact h3
    · intro c' hc'
      dsimp only at hc'
      cases hacc : (handle V cfg s.f s.now k from_ c).2.1 with
      | false => rw [hacc] at hc'; simp at hc'
      | true =>
        rw [hacc] at hc'
        simp only [if_true, Option.some.injEq] at hc'
        subst hc'
        cases hsame : sameCmd c target with
        | false => rfl
        | true =>
          exfalso
          obtain ⟨ho, hi, hts, _⟩ := sameCmd_eq hsame
          have hv := verify_sound V cfg s.now c hk hw (handle_accept V cfg s.f s.now k from_ c hacc)
          have hnew := mark_fst_new (handle_accept_new V cfg s.f s.now k from_ c hacc).1
          rw [ho, hi] at hnew
          rcases h3 with h3 | h3
          · exact hasKey_false_not_held hnew.1 h3
          · unfold tgtT at h1; rw [← hts] at h1; have := hv.2.2.2; omega
  | advance d =>
    refine ⟨⟨t1, h1, ?_, ?_⟩, ?_⟩
    · show t1 ≤ s.now + d; omega
    · rcases h3 with h3 | h3
      · left; exact h3
      · right; show s.now + d > t1 + sleepTtl cfg; omega
    · intro c hc; simp [stepEv] at hc
  | cleanup vs =>
    have hfit : (expire s.f.seen s.now (sleepTtl cfg)).length ≤ cfg.maxSize := by
      simpa [noEvict] using hne
    have hcl : cleanup cfg s.f.seen s.now vs = expire s.f.seen s.now (sleepTtl cfg) := by
      unfold cleanup cleanupWith
      dsimp only
      rw [if_pos (by omega)]
    refine ⟨⟨t1, h1, h2, ?_⟩, ?_⟩
    · show held (cleanup cfg s.f.seen s.now vs) _ _ _ ∨ _
      rw [hcl]
      rcases h3 with h3 | h3
      · exact expire_held h3
      · right; exact h3
    · intro c hc; simp [stepEv] at hc
  | peer p =>
    have hseen : (stepEv V cfg s (.peer p)).1.f.seen = s.f.seen ∧ (stepEv V cfg s (.peer p)).1.now = s.now ∧
        (stepEv V cfg s (.peer p)).2.1 = none := by
      unfold stepEv onPeerConnected
      cases s.f.pending with
      | none => exact ⟨rfl, rfl, rfl⟩
      | some pc =>
        obtain ⟨c, at_⟩ := pc
        dsimp only
        split <;> (try split) <;> (try split) <;> exact ⟨rfl, rfl, rfl⟩
    refine ⟨⟨t1, h1, by rw [hseen.2.1]; exact h2, ?_⟩, ?_⟩
    · rw [hseen.1, hseen.2.1]; exact h3
    · intro c hc; rw [hseen.2.2] at hc; cases hc

theorem noEvict_cons {V : Verifier} {cfg : FCfg} {s : HState} {e : Ev} {es : List Ev}
    (h : noEvict V cfg s (e :: es) = true) :
    noEvict V cfg s [e] = true ∧ noEvict V cfg (stepEv V cfg s e).1 es = true := by
  simp only [noEvict, Bool.and_eq_true, Bool.and_true] at h ⊢
  exact h

/-- Once protected, never accepted again. -/
theorem accepts_protected (V : Verifier) (cfg : FCfg) (target : Cmd)
    (hk : cfg.signing = true) (hw : cfg.window < 2^63 - 1) :
    ∀ (evs : List Ev) (s : HState), noEvict V cfg s evs = true → Protected cfg target s →
      accepts V cfg target s evs = 0 := by
  intro evs
  induction evs with
  | nil => intro s _ _; rfl
  | cons e es ih =>
    intro s hne hp
    obtain ⟨hne1, hne2⟩ := noEvict_cons hne
    obtain ⟨hp', hno⟩ := step_protected V cfg target s e hk hw hne1 hp
    have ih' := ih _ hne2 hp'
    unfold accepts
    generalize hst : stepEv V cfg s e = r at *
    obtain ⟨s', acc, sends⟩ := r
    dsimp only at *
    rw [ih']
    cases acc with
    | none => rfl
    | some c => simp [hno c rfl]

end MM.C29
