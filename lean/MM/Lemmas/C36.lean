/- Helper lemmas for the C36 (embedded configuration) property theorems. -/
import MM.Model.C36

namespace MM.C36
open MM

theorem magic_length : magic.length = 8 := by decide

theorem xorFrom_length (i : Nat) (bs : Bytes) : (xorFrom i bs).length = bs.length := by
  induction bs generalizing i with
  | nil => rfl
  | cons b bs ih => simp [xorFrom, ih]

@[simp] theorem xor_length (bs : Bytes) : (xor bs).length = bs.length := xorFrom_length 0 bs

theorem xorFrom_xorFrom (i : Nat) (bs : Bytes) : xorFrom i (xorFrom i bs) = bs := by
  induction bs generalizing i with
  | nil => rfl
  | cons b bs ih =>
    simp only [xorFrom, ih]
    rw [UInt8.xor_assoc, UInt8.xor_self, UInt8.xor_zero]

theorem toInt64_of_lt {n : Nat} (h : n < 2^63) : toInt64 n = (n : Int) := by
  unfold toInt64
  have h1 : n % 2^64 = n := Nat.mod_eq_of_lt (by omega)
  rw [h1]; simp [h]

theorem readAt_eq {file : Bytes} {off n : Nat} (h : off + n ≤ file.length) :
    readAt file (off : Int) n = some ((file.drop off).take n) := by
  unfold readAt
  have : (0 : Int) ≤ off ∧ (off : Int) + n ≤ file.length := by omega
  simp [this]

theorem readAt_length {file : Bytes} {off : Int} {n : Nat} {bs : Bytes}
    (h : readAt file off n = some bs) : bs.length = n := by
  unfold readAt at h
  split at h
  · rename_i hc
    injection h with h; subst h
    simp only [List.length_take, List.length_drop]
    omega
  · cases h

theorem readAt_zero {file : Bytes} {n : Nat} (h : n ≤ file.length) :
    readAt file 0 n = some (file.take n) := by
  have := readAt_eq (file := file) (off := 0) (n := n) (by omega)
  simpa using this

/-- The footer read of a file with at least 16 bytes always succeeds and returns its tail. -/
theorem readAt_footer {file : Bytes} (h : 16 ≤ file.length) :
    readAt file ((file.length : Int) - 16) 16 = some (file.drop (file.length - 16)) := by
  have e : ((file.length : Int) - 16) = ((file.length - 16 : Nat) : Int) := by omega
  rw [e, readAt_eq (by omega)]
  congr 1
  apply List.take_of_length_le
  simp only [List.length_drop]; omega

theorem footerMagic_embedded (n : Nat) : footerMagic (leN 8 n ++ magic) = magic := by
  unfold footerMagic
  exact List.drop_left' (leN_length 8 n)

theorem footerLen_embedded {n : Nat} (h : n < 2^64) : footerLen (leN 8 n ++ magic) = n := by
  unfold footerLen
  rw [List.take_left' (leN_length 8 n)]
  exact unle_leN_of_lt (by omega)

/-- The last 16 bytes of `src ++ x ++ (le64 n ++ magic)` are the footer. -/
theorem drop_footer (src x : Bytes) (n : Nat) :
    (src ++ x ++ (leN 8 n ++ magic)).drop ((src ++ x ++ (leN 8 n ++ magic)).length - 16)
      = leN 8 n ++ magic := by
  have h : (src ++ x).length = (src ++ x ++ (leN 8 n ++ magic)).length - 16 := by
    simp only [List.length_append, leN_length, magic_length]; omega
  exact List.drop_left' h

end MM.C36
