PROP = dict(
    id="C28",
    engines=["c28"],
    go_tags=["c28"],
    gen_files={},
    lean_modules=["MM.Props.C28"],
    theorems=[
        "MM.C28.C28_every_path",
        "MM.C28.C28_pending_forward",
        "MM.C28.C28_refuted_cross_type",
        "MM.C28.C28_partial",
        "MM.C28.C28_kind_bound_if_signed_bytes_bind_kind",
        "MM.C28.C28_issued",
        "MM.C28.C28_pinned_queued_refuted",
        "MM.C28.C28_pinned_farfuture_refuted",
        "MM.C28.C28_pinned_pending_refuted",
    ],
    spec=True,
    chunk=600,
    rule="case = a fresh real Agent (agent.New; signing key configured through the ordinary config path in 85% of the cases), awake or asleep, "
         "fed 1-4 frames through its ordinary frame dispatcher: SLEEP_COMMAND, WAKE_COMMAND, QUEUED_STATE{SleepCmd}, QUEUED_STATE{WakeCmd} built "
         "with the repo's encoders and real Ed25519 keys from {valid, unsigned, garbage signature, other key, signed over another origin/id/"
         "timestamp} x timestamp {now, +-1 s, +-60 s, +-(window-3 s), +-(window+3 s), +-10^5 s, 0, 1, 2^62, 2^63-1, 2^63, 2^64-1, year 2603} x "
         "SeenBy (with/without the agent itself) x replayed ids, plus OnPeerConnected for peers 1..5; observed: sleep state, OnSleep/OnWake "
         "callbacks, every sleep/wake frame sent to the 3 connected peers; also QUEUED_STATE frames carrying BOTH commands, signatures "
         "transplanted from a command of the other kind (`xkind`), and the issuer side (TriggerSleep on agents with/without the private key; "
         "TriggerWake, which floods for 5 s, in the corpus and the thorough tier); non-trivial = the delivery changed the state or sent a frame",
    nontrivial=lambda op, out: op.startswith(("d ", "peer")) and ("sl=1" in out or "wk=1" in out or "fwd=-" not in out),
    trusted_base=[
        "Ed25519 modelled as an ideal signature scheme (valid iff made with the configured key over exactly origin||id||timestamp); "
        "the theorems hold for ANY verification predicate V; T-diff runs the real crypto.Verify",
        "harness installs the sleep manager with counting callbacks instead of Agent.enterSleep/exitSleep (which close/reopen sockets) and "
        "replaces the flooder's PeerSender by a recorder (accessor VerifC28SetSender); handlers, dispatcher, flooder and manager are the real code",
        "time.Now() is read by the code; the model takes `now` as an argument, the harness stamps relative timestamps from the real clock "
        "and keeps them >= 3 s away from the window edge",
    ],
    assumptions=[
        "timestampWindow < 2^63-1 ns (hypothesis hw; the agent uses 5 min)",
        "the exact timestamp-window edge is probed at flooder level by engine c29 (`edge` ops); the agent-level generator stays 3 s away from it",
    ],
    manifest=dict(
        category="proof",
        text="Lean theorems C28_every_path (SLEEP_COMMAND, WAKE_COMMAND and both QUEUED_STATE paths: any state change, Sleep()/Wake() call, "
             "callback or forwarded frame implies valid signature and |now - timestamp| <= window, for ANY signature predicate) and "
             "C28_pending_forward (stored wake command forwarded to a new peer only while it still verifies), over a model of the flooder/"
             "agent admission code with Go's int64/Duration corner cases; tied to the code by a differential run of a real Agent with real "
             "Ed25519 keys through its frame dispatcher",
        design_ref="DESIGN.md section 5 C28",
        note="Lean kernel; Ed25519 abstract; model of time.Unix/time.Since/Duration negation; T-diff generator coverage; sleep manager "
             "callbacks and PeerSender replaced by recorders in the harness",
        technique="Lean 4 proof (decision-function case analysis, int64 corner cases by omega) + differential correspondence harness on a real Agent",
    ),
)
