import os
import sys

sys.path.insert(0, os.path.join(os.path.dirname(os.path.abspath(__file__)), "..", "lib"))
import vlib  # noqa: E402


def _ensure_driver(c, eng):
    """When a proof / tie obligation of this property broke, the Lean build as a whole failed and the
    driver was not installed, so no differential run (and no failing-input search) would take place.
    The engine does not depend on the property theorems: build it on its own."""
    import shutil

    if eng in c.drivers or not c.harness:
        return
    ok, _out, _failed = vlib.lake_build(["drv_" + eng])
    src = os.path.join(vlib.LEAN, ".lake", "build", "bin", "drv_" + eng)
    if ok and os.path.exists(src):
        dst = os.path.join(c.tmp, "drv_" + eng)
        shutil.copy2(src, dst)
        c.drivers[eng] = dst


def before_diff(c):
    """The c32 harness uses the REAL keepalive loop (100 ms interval, 300 ms timeout) for its keepalive-timeout
    steps and waits 60 ms for a frame to be delivered. On a loaded machine a responsive connection can miss
    its deadline or a frame can be slow; such lateness is not a property violation, so a case
    whose answers differ from the model's is re-run (at most twice) and the re-run's answers are used when
    they agree with the model. Every defect this check is about is reproduced deterministically by the
    gate-controlled scripts and survives the re-run."""
    _ensure_driver(c, "c32")
    orig = c.go_run
    stats = c.p.setdefault("extra_coverage", {})
    stats["timing_reruns"] = 0
    stats["timing_reruns_that_agreed"] = 0

    def go_run(engine, lines, timeout=None):
        out = orig(engine, lines, timeout)
        if engine != "c32" or "c32" not in c.drivers or not lines:
            return out
        model = c.lean_run(engine, lines)
        for a, b in vlib.cases_of(lines):
            if all(vlib.outputs_agree(out[i], model[i]) for i in range(a, b)):
                continue
            for _ in range(2):
                again = orig(engine, lines[a:b], timeout)
                stats["timing_reruns"] += 1
                if len(again) == b - a and all(vlib.outputs_agree(again[i - a], model[i]) for i in range(a, b)):
                    out[a:b] = again
                    stats["timing_reruns_that_agreed"] += 1
                    break
        return out

    c.go_run = go_run


PROP = dict(
    id="C32",
    engines=["c32"],
    go_tags=["c32"],
    gen_files={"MM/Gen/C32.lean": "c32"},
    lean_modules=["MM.Props.C32"],
    extract_files={"MM/Gen/LockC32.lean": {"cmd": ["go", "run", "{VERIF}/tools/lockshape.go", "LockC32",
        "{REPO}/internal/peer/manager.go",
        "Manager.registerConnection,Manager.handleDisconnect,Manager.Disconnect,Manager.DisconnectAll", "mu", "peers"]},
        "MM/Gen/CallsC32.lean": {"cmd": ["go", "run", "{VERIF}/tools/c32_calls.go", "CallsC32", "{REPO}/internal/peer/manager.go"]}},
    theorems=[
        "MM.C32.reachable_inv",
        "MM.C32.C32_at_most_one",
        "MM.C32.C32_rejected_dup_silent",
        "MM.C32.C32_duplicate_rejected",
        "MM.C32.C32_stale_teardown_noop",
        "MM.C32.C32_stale_teardown_harmless",
        "MM.C32.C32_old_stale_teardown_harms",
        "MM.C32.LockTie.C32_lock_register_atomic",
        "MM.C32.LockTie.C32_lock_teardown_atomic",
        "MM.C32.LockTie.C32_lock_disconnect_atomic",
        "MM.C32.LockTie.C32_calls_decision_then_callback",
    ],
    spec=True,
    timeout=900,
    chunk=300,
    rule="scripted schedules on a REAL Agent (agent.New) and its real peer.Manager with the agent's real OnPeerConnected/OnPeerDisconnect: "
         "handshakes in both directions through the agent's own accept/connect paths (Agent.handleIncomingConnection, Agent.connectToPeer) over an in-memory transport (duplicates included), frame handlers held by the script, frames on registered and rejected connections, "
         "keepalive timeouts by the real keepalive loop, remote closes, Disconnect, DisconnectAll; the transport holds the read error of a closed "
         "connection until the script releases it, and the hook peer.Manager.handleDisconnect:done orders teardowns against re-registration. "
         "Observed: which connection is registered, delivered/dropped, routes and relay entries per peer; compared with the Lean LTS. "
         "non-trivial = observation and readerr/ktimeout ops",
    nontrivial=lambda op, out: op.split(" ")[0] in ("routes", "relays", "peer", "readerr", "ktimeout", "rclose", "frame", "race"),
    trusted_base=[
        "MM/Model/C32.lean: atomic steps = regions under Manager.mu plus the callback that follows; Disconnect's delete-then-close is one step",
        "ghost tags (which connection a route/relay was learned through) exist only in the model and in the spec's bookkeeping",
        "in-memory transport + scripted remote ends (real handshake, keepalive answers only); routes/relays are inserted directly into the agent's tables",
        "a read loop that is between two reads when its connection is closed exits without a teardown: modelled (readSilent) and produced deterministically by holding a frame in flight in the transport; the un-scripted occurrence of the same race is kept out by waiting until the loop is blocked in Read",
        "whether an unanswered keepalive leads to a teardown is MEASURED on the real manager at every run (MM/Gen/C32.lean: keepaliveTimeoutFires) and selects the model's answer for `ktimeout`; on the pinned code it does not (WriteFrame refreshes lastActivity) — a liveness defect outside C32's statement",
        "a case that disagrees with the model is re-run up to twice and must disagree again to count (real keepalive timers)",
    ],
    assumptions=[
        "scheduling hook internal/verifhook + call site in handleDisconnect (fixes/hook-verifhook.patch, fixes/hook-c32-handle-disconnect-done.patch)",
    ],
    manifest=dict(
        category="proof",
        text="Lean theorems over an LTS of peer.Manager registration/teardown composed with agent.handlePeerDisconnect (routes and relays ghost-tagged with "
             "the connection they belong to): in every reachable state at most one started-and-open connection per remote identity and it is the registered one; "
             "a rejected duplicate is never started and delivers nothing; a teardown of a connection that is not the registered one removes no route, relay or "
             "registration of the current connection (fixed code; machine-checked witness for the code before the fix); tied to the code by scripted schedules "
             "on a real Agent + peer.Manager over an in-memory transport with a verif scheduling hook",
        design_ref="DESIGN.md section 5 C32",
        note="lock-granularity model; ghost tags; scripted remote ends; T-diff generator coverage",
        technique="Lean 4 proof (inductive invariant over an LTS) + differential correspondence harness with scheduling hook",
    ),
)
