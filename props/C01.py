PROP = dict(
    id="C01",
    engines=["c01"],
    go_tags=["c01"],
    gen_files={"MM/Gen/C01.lean": "c01"},
    lean_modules=["MM.Props.C01"],
    theorems=[
        "MM.C01.C01_tie_constants",
        "MM.C01.C01_tie_decrypt_region",
        "MM.C01.C01_reject_no_change",
        "MM.C01.C01_reject_no_change_step",
        "MM.C01.C01_accept_at_initiator",
        "MM.C01.C01_accept_at_responder",
        "MM.C01.C01_holds",
        "MM.C01.C01_honest_accept",
        "MM.C01.C01_pinned_reflection",
        "MM.C01.C01_pinned_state_change_on_reject",
        "MM.C01.C01_pinned_wrap",
        "MM.C01.C01_fixed_on_witnesses",
    ],
    spec=True,
    chunk=6000,
    rule="cases = two real SessionKeys (one fixed secret, opposite roles) with preset counters (fresh / near 2^64 / random / 2^63) x 8-40 ops: "
         "enc at either end, delivery of any pooled ciphertext to either end unmodified (reorder/duplicate/reflect) or mutated "
         "(body bit flip, header counter incl. recv, recv+1, 2^63, 2^64-2, 2^64-1, header prefix, truncation 0..33, extension), raw forged frames, "
         "G goroutines delivering one ciphertext concurrently; payload sizes 0 (28 bytes on the wire), 4, 16 KiB +-1, 64 KiB; bursts of 70-270 messages in flight delivered "
         "with stride 67; long cases of 150-300 ops; counter presets around 2^32, 2^63, 2^64; "
         "each op is run on the real code and on the Lean model, outputs = accept/reject + all four counters after the op; "
         "non-trivial = deliveries and exhausted encrypts (plain successful encrypts are not counted)",
    nontrivial=lambda op, out: not (op.startswith("enc") and out.startswith("ok")) and not op.startswith("reset"),
    trusted_base=[
        "ChaCha20-Poly1305 as an ideal AEAD (Open succeeds iff the body was sealed under the header nonce; the adversary cannot create sealed bodies) — "
        "hypothesis `admissible` of the trace theorems, not proved",
        "sync.Mutex: Encrypt's counter section and the whole of Decrypt are atomic (the model is sequential per call); that the window test, Open and the "
        "recvNonce update share one Lock..Unlock region is a regenerated go/ast fact (C01_tie_decrypt_region), mutual exclusion itself is trusted",
        "the engine's accessor (harness/exports/internal__crypto/c01.go) to preset/read sendNonce and recvNonce",
    ],
    assumptions=[
        "both ends hold the same key and opposite isInitiator flags (C03 covers how call sites achieve that)",
        "delivered headers fit the wire format (counter < 2^64, prefix < 2^32) — part of `admissible`",
    ],
    manifest=dict(
        category="proof",
        text="Lean theorem C01_holds over ALL traces of encrypt/deliver at two session ends with arbitrary adversarial delivery (ideal-AEAD model): "
             "accepted => sealed earlier by the other end, accepted counters strictly increasing, accepted sequence is a subsequence of the sent "
             "sequence; C01_reject_no_change for every state and packet; model tied to crypto.SessionKey by a differential run incl. counters near 2^64",
        design_ref="DESIGN.md section 5 C01",
        note="ideal AEAD assumed; mutex atomicity trusted; T-diff generator coverage",
        technique="Lean 4 proof (trace invariant by induction) + differential correspondence harness + executable statement on implementation answers",
    ),
)


def before_diff(c):
    """If a theorem (e.g. a regenerated-fact tie) no longer compiles, the drivers were not picked up by
    the shared build stage. Build just the engines so that the differential run and the failing-input
    search still happen (the failed theorem stays a failed obligation)."""
    import os, shutil
    import vlib
    if getattr(c, "lake_ok", True) or not c.harness:
        return
    engines = PROP.get("lean_engines", PROP.get("engines", []))
    ok, _out, _failed = vlib.lake_build(["drv_" + e.lower() for e in engines])
    if not ok:
        return
    for e in engines:
        src = os.path.join(vlib.LEAN, ".lake", "build", "bin", "drv_" + e.lower())
        if os.path.exists(src):
            dst = os.path.join(c.tmp, "drv_" + e.lower())
            shutil.copy2(src, dst)
            c.drivers[e] = dst

RACE_OPS = (
    ["reset"] + ["enc I %d" % i for i in range(1, 41)] + ["enc R %d" % i for i in range(41, 61)]
    + ["race R %d 32" % k for k in range(0, 40, 3)] + ["race I %d 16" % k for k in range(40, 60, 2)]
    + ["race R 5 64", "race I 5 8", "del R 39 none", "race R 39 32"]
)


def extra(c):
    """Thorough tier: the concurrent ops again on a harness built with the Go race detector
    (`go build -race`). A reported data race, or an answer that differs from the model's, fails."""
    import os, subprocess
    import vlib
    if c.tier != "thorough" or not c.harness:
        return
    binary, log = vlib.build_harness(PROP["go_tags"], race=True)
    if binary is None:
        c.oblige("race-build:%s" % PROP["id"], "tie", False, log[-1500:])
        return
    engine = PROP["engines"][0]
    ops = RACE_OPS
    env = dict(os.environ, GORACE="halt_on_error=0 exitcode=0", TMPDIR=c.tmp)
    p = subprocess.run([binary, engine, "run"], input="\n".join(ops) + "\n", stdout=subprocess.PIPE, stderr=subprocess.PIPE, text=True, timeout=1500, env=env)
    got = [l for l in p.stdout.split("\n") if l != ""]
    want = c.lean_run(engine, ops)
    races = p.stderr.count("WARNING: DATA RACE")
    bad = [(o, g, w) for o, g, w in zip(ops, got, want) if not vlib.outputs_agree(g, w)]
    ok = races == 0 and not bad and len(got) == len(ops)
    detail = "%d ops under -race, %d data race reports" % (len(ops), races)
    if not ok:
        detail += " | first disagreement: %r | stderr: %s" % (bad[:1], p.stderr[-1200:])
    c.oblige("race-detector:%s" % engine, "tie", ok, detail)
    if not ok:
        c.violate("data race or disagreement under the race detector", {"engine": engine, "ops": ops, "impl_outputs": got, "model_outputs": want, "stderr": p.stderr[-2000:]}, races > 0)
