import os
import sys

sys.path.insert(0, os.path.join(os.path.dirname(os.path.abspath(__file__)), "..", "lib"))
import vlib  # noqa: E402

# Initial directory states for the real-crash enumeration (tokens: see harness/main/eng_c34.go).
_EMPTY = "d0 - - - - - - - -"
_IDONLY = "d1 w1 - - - - - - -"
_KEYNOPUB = "d1 w1 - w2 - - - - -"          # what a kill between the two renames of Keypair.Store leaves
_FULL = "d1 w1 - w2 - w2 - w5 -"
_FULL_NOSLEEP = "d1 w1 - w2 - w2 - - -"
_LEFTOVERS = "d1 - c1.5 - w3 - e - c5.7"    # stale temp files of earlier kills
_LEFTOVERS2 = "d1 w1 e w2 c3.64 - w2 w5 e"

_BIG = 4938271561                            # sleep tag whose JSON is 9 bytes longer than that of tag 5 (command_seq 1234567890)
_STALE_LONG = "d1 w1 - w2 - w2 - w9 w%d" % _BIG     # an earlier LONG save died between its temp write and the rename
_STALE_JUNK = "d1 - J - J - J w5 J"          # stale temp files longer than anything that will be written

# Multi-process chains: process 1 is killed at every point of `first` (started in `state`); from every state it left
# behind process 2 performs `then` (killed at every point, and running to completion); process 3 starts and must
# load exactly the last completed value. Lengths: long -> short (always) and short -> long.
CHAINS_QUICK = [
    ("persist %d" % _BIG, _FULL, ["persist 5"]),
]
CHAINS_THOROUGH = CHAINS_QUICK + [
    ("persist %d" % _BIG, _FULL, ["persistseq 5 %d 6" % _BIG]),
    ("persist 5", "d1 w1 - w2 - w2 - w%d -" % _BIG, ["persist %d" % _BIG]),
    ("persistseq %d 5 %d" % (_BIG, _BIG), _FULL_NOSLEEP, ["persist 6"]),
    ("start", _EMPTY, ["start"]),
]

SCENARIOS_QUICK = [
    "persist 5 " + _STALE_LONG,               # long -> short over a stale temp file (always present)
    "start " + _STALE_JUNK,
    "start " + _EMPTY,
    "start " + _KEYNOPUB,
    "start " + _LEFTOVERS,
    "persist 9 " + _FULL,
    "persist 6 " + _FULL_NOSLEEP,
    "storeid 3 " + _FULL,
    "persistseq 5 9 13 " + _FULL,             # a long-running agent: kill inside the 2nd and 3rd save as well
    "startpersist 6 " + _EMPTY,               # first start, then first save, one process
]
SCENARIOS_THOROUGH = SCENARIOS_QUICK + [
    "start " + _IDONLY,
    "start " + _FULL,
    "start " + _LEFTOVERS2,
    "start d1 - - w2 - w2 - w5 -",
    "persist 0 " + _FULL,
    "persist 41 " + _LEFTOVERS2,
    "storeid 1 " + _EMPTY,
    "storeid 2 " + _LEFTOVERS,
    "persistseq 1 2 6 " + _LEFTOVERS2,
    "persistseq 9 9 0 " + _FULL_NOSLEEP,
    "persistseq 5 6 9 " + _EMPTY,             # no data directory: every save fails, nothing is created
    "startpersist 9 " + _KEYNOPUB,
    "startpersist 41 " + _LEFTOVERS,
]
CLASSES = ["open", "write", "rename", "mkdir", "close", "unlink"]
MAXN = 60


def random_scenarios(seed, n):
    """Crash-reachable directory states (any number of earlier kills, saves and starts behind them):
    final names complete or absent, temp names holding anything; then one more action to be killed."""
    import random

    rnd = random.Random(seed * 7919 + 17)
    lens = {"id": 33, "key": 65, "pub": 65, "sl": 64}

    def tmp(kind):
        r = rnd.random()
        if r < 0.35:
            return "-"
        if r < 0.5:
            return "e"
        if r < 0.7:
            return "w%d" % (rnd.choice([1, 2, 3]) if kind != "sl" else rnd.choice([1, 2, 5, 6, 41]))
        if r < 0.9:
            v = rnd.choice([1, 2]) if kind != "sl" else 5
            return "c%d.%d" % (v, rnd.choice([1, 2, lens[kind] // 2, lens[kind] - 2, lens[kind] - 1]))
        return "j"

    out = []
    for _ in range(n):
        idf = rnd.choice(["-", "w1", "w2"])
        k = rnd.choice([1, 2, 3])
        key, pub = rnd.choice([("-", "-"), ("w%d" % k, "-"), ("w%d" % k, "w%d" % k), ("w%d" % k, "w%d" % k)])
        sl = rnd.choice(["-", "w1", "w5", "w6", "w42"])
        st = "d1 %s %s %s %s %s %s %s %s" % (idf, tmp("id"), key, tmp("key"), pub, tmp("pub"), sl, tmp("sl"))
        act = rnd.choice(["start", "start", "persist %d" % rnd.choice([0, 1, 2, 9, 13, 41]), "persist %d" % rnd.choice([5, 6]),
                          "storeid %d" % rnd.choice([1, 2, 4]),
                          "persistseq %d %d %d" % (rnd.choice([1, 5]), rnd.choice([2, 9]), rnd.choice([6, 13, 41])),
                          "startpersist %d" % rnd.choice([1, 6, 9])])
        out.append(act + " " + st)
    return out


def extra(c):
    """Real crashes: every action is run in a child process killed (SIGKILL, by strace fault
    injection) on entry of the N-th open / write / rename / mkdir / close / unlink call, for
    N = 1, 2, ... until the child survives; after each kill a start is performed on what is left.
    The Lean model must admit the state the kill left and predict the recovery (`anyof`), and the
    executable statement of C34 is evaluated on the implementation's own answers."""
    if not c.harness or "c34" not in c.drivers:
        return
    scen = list(SCENARIOS_THOROUGH if c.tier == "thorough" else SCENARIOS_QUICK)
    scen += random_scenarios(c.seed, 4 if c.tier == "thorough" else 3)
    from concurrent.futures import ThreadPoolExecutor

    def sweep(job):
        sc, cls = job
        ls, os_, done = [], [], True
        n = 1
        while True:
            line = "crash %s %d %s" % (cls, n, sc)
            out = c.go_run("c34", [line], timeout=600)[0]
            ls.append(line)
            os_.append(out)
            if not out.startswith("killed "):
                done = out.startswith("clean ")
                break
            n += 1
            if n > MAXN:
                done = False
                break
        return ls, os_, done

    lines, outs = [], []
    complete = True
    chains = CHAINS_THOROUGH if c.tier == "thorough" else CHAINS_QUICK
    with ThreadPoolExecutor(max_workers=8) as ex:
        # The structured quick scenarios are killed at every call of every class. For the additional (thorough-only and
        # random) scenarios the classes open/close/unlink are left out: a kill on entry of an open or close leaves what
        # the kill on entry of the neighbouring write or rename leaves.
        core = set(SCENARIOS_QUICK)
        jobs = [(sc, cls) for sc in scen for cls in (CLASSES if sc in core else ("write", "rename", "mkdir"))]
        for ls, os_, done in ex.map(sweep, jobs):
            lines += ls
            outs += os_
            complete = complete and done
        # multi-process chains: second level starts from what the kills of the first level really left
        chain_states = 0
        for first, state, thens in chains:
            left = set()
            for ls, os_, done in ex.map(sweep, [(first + " " + state, cls) for cls in CLASSES]):
                lines += ls
                outs += os_
                complete = complete and done
                for o in os_:
                    if o.startswith(("killed ", "clean ")):
                        s1 = o.split(" ; ")[0].split(" ", 1)[1]
                        if "unexpected" not in s1 and len(s1.split()) == 9:
                            left.add(s1)
            chain_states += len(left)
            # a kill on entry of an open/close leaves what the kill on entry of the neighbouring write/rename leaves
            jobs = [(t + " " + s1, cls) for s1 in sorted(left) for t in thens for cls in ("write", "rename")]
            for ls, os_, done in ex.map(sweep, jobs):
                lines += ls
                outs += os_
                complete = complete and done
        c.p.setdefault("extra_coverage", {})["chain_intermediate_states"] = chain_states
    bad_run = [(l, o) for l, o in zip(lines, outs) if not o.startswith(("killed ", "clean "))]
    c.oblige("crash-enumeration-ran-to-clean-exit", "tie", complete and not bad_run,
             "" if complete and not bad_run else "enumeration incomplete: " + repr(bad_run[:2]))
    if bad_run:
        return
    model = c.lean_run("c34", lines)
    verdicts = c.lean_run("c34", [l + "\t" + o for l, o in zip(lines, outs)], mode="spec")
    killed = 0
    distinct = set()
    ok = True
    for l, o, m, v in zip(lines, outs, model, verdicts):
        c.count(l, o)
        c.cov["correspondence_cases"] += 1
        c.cov["spec_checked"] += 1
        if o.startswith("killed"):
            killed += 1
            distinct.add(o.split(" ; ")[0])
        if v.startswith("fail"):
            tag = v[5:].strip()
            if c.match_known(tag) is not None:
                c.cov["spec_fail_known"] += 1
                continue
            ok = False
            c.violate("after a real process kill the next start violates the statement: " + tag,
                      {"engine": "c34", "origin": "strace crash enumeration", "ops": [l], "impl_outputs": [o], "spec_verdict": v}, True)
            break
        if not vlib.outputs_agree(o, m):
            ok = False
            c.oblige("correspondence:c34-crash", "tie", False, "op %s impl %s not admitted by the model" % (l, o))
            c.violate("a real process kill left a state (or recovery answer) the model does not admit",
                      {"engine": "c34", "origin": "strace crash enumeration", "ops": [l], "impl_outputs": [o],
                       "model_outputs": [m[:2000]]}, False)
            break
    if ok:
        c.oblige("correspondence:c34-crash", "tie", True,
                 "%d real kills (%d distinct left-over states) over %d scenarios admitted by the model" % (killed, len(distinct), len(scen)))
    c.p.setdefault("extra_coverage", {})["real_process_kills"] = killed
    c.p["extra_coverage"]["distinct_crash_states_observed"] = len(distinct)
    c.p["extra_coverage"]["synthetic_only"] = [
        "a write cut short inside ONE write call (cut states): only as generated start states of T-diff 1 and in the theorems; strace kills on call entry and cannot produce them",
        "unreadable / permission-denied data directory and other I/O errors: not generated (the checks run as root; errors other than ENOENT are outside the crash model)",
        "missing data directory: generated (d0 states; saves fail without creating anything)",
        "second and later saves of one process, stale temp files of earlier kills, start followed by a save: real kills (persistseq / startpersist / leftover scenarios)",
        "multi-process chains (process 1 killed at every point, process 2 saves a value of a different rendered length from each state really left behind, killed or completing, process 3 starts): real kills; long->short always present",
    ]


PROP = dict(
    id="C34",
    engines=["c34"],
    go_tags=["c34"],
    lean_modules=["MM.Props.C34"],
    theorems=[
        "MM.C34.reachable_good",
        "MM.C34.C34_start_succeeds",
        "MM.C34.C34_start_succeeds_after_crash",
        "MM.C34.C34_identity_consistent",
        "MM.C34.C34_identity_stored",
        "MM.C34.C34_never_replaced",
        "MM.C34.C34_id_never_replaced",
        "MM.C34.C34_sleep_before_or_after",
        "MM.C34.C34_sleep_untouched",
        "MM.C34.C34_sleep_saved",
        "MM.C34.C34_old_key_replaced",
        "MM.C34.C34_old_sleep_torn",
    ],
    spec=True,
    timeout=600,
    rule="T-diff 1: start / AgentID.Store / persistState run on the real packages in a temp dir from generated directory states "
         "(every file absent | complete | empty | cut at 1,2,half,len-2,len-1 | junk; half of the states crash-reachable) and compared "
         "with the Lean model (result + resulting directory). T-diff 2: real SIGKILLs by strace fault injection on entry of the N-th "
         "open/write/rename/mkdir/close/unlink call, N=1.. until clean exit, then a start; left-over state and recovery must be admitted "
         "by crashStates/start of the model and satisfy the statement. non-trivial = crash lines, and starts that had to create or repair something",
    nontrivial=lambda op, out: op.startswith("crash") or "w91" in out or out.startswith("fail"),
    trusted_base=[
        "MM/Model/C34.lean: os.MkdirAll/WriteFile/Rename as atomic calls except WriteFile = truncate | any prefix | full; file content abstracted to whole/cut/junk with the parsers' behaviour on them checked by T-diff",
        "process crash only: the page cache survives, power loss / missing fsync are out of scope",
        "strace -e inject=...:signal=KILL (kills on entry of the N-th matching call); the start after a kill is done by the three calls agent.New/Start make (LoadOrCreate, LoadOrCreateKeypair, sleep LoadState), not by a whole agent",
        "derive (X25519 base-point multiplication) is an uninterpreted function in the theorems",
    ],
    assumptions=[
        "no I/O errors other than ENOENT (disk full, permissions are not crash points)",
        "single agent process per data directory",
    ],
    manifest=dict(
        category="proof",
        text="Lean theorems over an os-call-sequence model of AgentID.Store, Keypair.Store, persistState and of recovery: from EVERY state a "
             "process kill can leave (any call boundary, any prefix inside a WriteFile, any number of successive kills) the next start succeeds, "
             "returns a matching key pair, never replaces a stored private key or agent id, and loads the sleep state from before or after the "
             "interrupted save; model tied to the code by a differential run and by real SIGKILLs (strace fault injection) at every file-system call",
        design_ref="DESIGN.md section 5 C34",
        note="process kill only (no power loss); file contents abstracted; T-diff generator coverage",
        technique="Lean 4 proof (inductive invariant over crash states) + differential correspondence harness + real crash enumeration",
    ),
)
