PROP = dict(
    id="C38",
    engines=["c38"],
    go_tags=["c38"],
    gen_files={"MM/Gen/C38.lean": "c38"},
    extract_files={"MM/Gen/C38Sites.lean": {"cmd": ["go", "run", "{VERIF}/harness/extract/c38sites.go", "{REPO}"]}},
    lean_modules=["MM.Props.C38"],
    theorems=[
        "MM.C38.C38_tie",
        "MM.C38.C38_open_sites_allocated",
        "MM.C38.C38_unique_nonzero_parity",
        "MM.C38.C38_ids_exact",
        "MM.C38.C38_ends_disjoint",
        "MM.C38.C38_bound_sharp",
        "MM.C38.C38_ids_increasing",
        "MM.C38.C38_connection_nodup",
    ],
    spec=True,
    rule="stress: g in {1..64} goroutines x p in {1..15000} calls of peer.Connection.NextStreamID() on one end (conc) and on both ends at once "
         "(pair) of a connection built with peer.NewConnection over a stub PeerConn; the id set is summarised (n, distinct, min, max, zeros, "
         "wrong-parity, overlap) and compared with the model's; sequential prefixes (seq) and counters positioned near 0/2^63/2^64 through an "
         "accessor (wrap) are compared id by id; mix = ONE real agent (agent.New, not started) with one injected peer connection and a default route through it opens "
         "TCP streams (Agent.DialContext), UDP associations (CreateUDPAssociation + getOrCreateDestAssociation), ICMP sessions (CreateICMPSession) "
         "and shell streams (OpenShellStream) in a given order; the StreamID of every STREAM_OPEN/UDP_OPEN/ICMP_OPEN the peer receives is "
         "recorded; cold = thousands of FRESH connections whose first 2-4 allocations race behind a barrier; life = allocation "
         "interleaved with every public method of *peer.Connection / *transport.StreamIDAllocator named release/reset/return/free/rewind "
         "(found by reflection); non-trivial = at least 2 goroutines or a positioned counter",
    nontrivial=lambda op, out: op.startswith(("pair", "wrap", "warm", "cold", "life", "mix")) or (op.startswith("conc") and op.split()[2] != "1"),
    trusted_base=[
        "atomic.Uint64.Add is one indivisible read-modify-write (Go memory model) — the model's atomic step",
        "start values and increment regenerated from the compiled package (MM/Gen/C38.lean); shape of Next checked on the AST "
        "(harness/extract/c38ast.go) along Connection.NextStreamID -> StreamIDAllocator.Next over internal/transport and internal/peer: any "
        "write of the counter other than the constructor's Store and the single Add(+literal) is rejected, an unrecognised shape is left to the stress run",
    ],
    assumptions=[
        "fewer than 2^63 allocations per connection end (hypothesis of the theorems; C38_bound_sharp shows it is tight)",
    ],
    manifest=dict(
        category="proof",
        text="Lean theorems C38_unique_nonzero_parity / C38_ends_disjoint for ALL schedules of fewer than 2^63 atomic Next steps per end; "
             "atomic-step model tied to the code by regenerated constants, an AST check of Next, and a concurrent stress run on "
             "peer.Connection compared with the model's id set",
        design_ref="DESIGN.md section 5 C38",
        note="Lean kernel; atomicity of atomic.Uint64.Add trusted; AST shape check; stress-run coverage (thorough: also under the Go race detector)",
        technique="Lean 4 proof (closed form of any schedule) + AST tie + concurrent differential stress",
    ),
)


def before_diff(c):
    """AST tie along the real call path: peer.Connection.NextStreamID -> transport.StreamIDAllocator.Next ->
    one atomic Add(+literal) on a counter that is otherwise written only by its constructor (scan of every
    method call on the counter field(s) in internal/transport and internal/peer)."""
    import os
    import re
    import vlib

    r = vlib.run(["go", "run", os.path.join(vlib.VERIF, "harness/extract/c38ast.go"), vlib.REPO], cwd=vlib.REPO, env=vlib.GOENV)
    line = (r.stdout or "").strip().split("\n")[-1] if r.stdout else ""
    m = re.match(r"shape=(\S+)", line)
    shape = m.group(1) if (m and r.returncode == 0) else "unknown"
    # only a positively recognised extra/non-atomic write breaks the tie; an unrecognised structure is not
    # an alarm (the stress runs below still compare the id sets)
    c.oblige("ast:stream-id-counter-written-only-by-one-atomic-add", "tie", shape != "violation", line[:800])
    c.p.setdefault("extra_coverage", {})["c38_counter_shape"] = line[:300]
    # When regenerated constants break the theorems (Lean build fails) the oracle — which depends on
    # the model only — is still built so that the differential run can produce a concrete failing input.
    import shutil

    if not getattr(c, "lake_ok", True) and c.harness and "c38" not in c.drivers:
        ok, _out, _failed = vlib.lake_build(["drv_c38"])
        binp = os.path.join(vlib.LEAN, ".lake", "build", "bin", "drv_c38")
        if ok and os.path.exists(binp):
            dst = os.path.join(c.tmp, "drv_c38")
            shutil.copy2(binp, dst)
            c.drivers["c38"] = dst


def extra(c):
    """Thorough tier: the stress ops again on a -race build of the harness (the Go race detector watches every
    access of the allocator and of peer.Connection made by the concurrent NextStreamID calls)."""
    import os
    import subprocess
    import vlib

    if c.tier != "thorough" or not c.harness or "c38" not in c.drivers:
        return
    binp, blog = vlib.build_harness(["c38"], race=True)
    if binp is None:
        # no race-capable toolchain here (needs cgo): not a property failure
        vlib.log("C38: -race build unavailable, skipped:", (blog or "")[-200:].replace("\n", " | "))
        c.p.setdefault("extra_coverage", {})["c38_race_run"] = "skipped: race build unavailable"
        return
    ops = ["conc d 64 2000", "conc l 64 2000", "pair 32 1000", "cold d 400 4", "cold l 400 3", "warm d 4096 16 256", "life d 30", "alife l 30"]
    env = dict(os.environ, GORACE="halt_on_error=0 log_path=stderr")
    p = subprocess.run([binp, "c38", "run"], input="\n".join(ops) + "\n", stdout=subprocess.PIPE, stderr=subprocess.PIPE, text=True, timeout=600, env=env)
    got = [l for l in p.stdout.split("\n") if l]
    want = c.lean_run("c38", ops)
    races = p.stderr.count("WARNING: DATA RACE")
    agree = len(got) == len(ops) and all(vlib.outputs_agree(g, w) for g, w in zip(got, want))
    c.oblige("race-detector:stream-id-stress", "tie", races == 0 and agree,
             "races=%d agree=%s stderr=%s" % (races, agree, p.stderr[-600:]))
    if races or not agree:
        c.violate("race detector / stress run on the -race build", {"engine": "c38", "ops": ops, "impl_outputs": got, "model_outputs": want, "races": races}, not agree)
    c.p.setdefault("extra_coverage", {})["c38_race_run"] = "%d ops, %d data races reported" % (len(ops), races)
