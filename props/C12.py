import os, sys
sys.path.insert(0, os.path.join(os.path.dirname(os.path.abspath(__file__)), "..", "lib"))
import floodlib


def setup(c):
    # SendFullTable numbers the per-origin advertisements in Go map-iteration order: the Lean model
    # follows the order the implementation reports (any permutation of the model's origin set is
    # admissible, anything else is a disagreement). See lib/floodlib.py.
    floodlib.install_follow(c)


PROP = dict(
    id="C12",
    engines=['c12'],
    go_tags=['c11'],
    gen_files={},
    lean_modules=["MM.Props.C12", "MM.Props.C12Conv"],
    theorems=[
        "MM.C12.C12_holds",
        "MM.C12.C12_path_is_chain",
        "MM.C12.C12_open_reaches_origin",
        "MM.C12.openWalk_chain",
        "MM.C12.C12_converges",
        "MM.C12.C12_converges_all",
        "MM.C12.C12_converges_presence",
        "MM.C12.C12_converges_run",
    ],
    spec=True,
    rule="cases = random topology (chain/ring/star/clique/tree+extra edges, 2..5 agents, rarely 9..20; thorough up to 7) x random local routes (CIDR v4/v6, domain exact/wildcard, forward; base metrics 0..10 and 65534) x op schedule written while driving the real mesh: bring links up (with/without table replay, before or between deliveries), deliver/duplicate/lose a chosen queued frame, announce, withdraw, expire a cached key, replay a table, stale cleanup, lose a connection (disconnect); rare streams: an origin with 256..315 routes (announcements and replays span several advertisements), a reroute case (link behind the next hop disappears while an equally long alternative exists), and a `race` stress op (one announcement handed to a fresh agent by k goroutines at once); every case drains to quiescence and dumps the whole state. After every op both sides print the acting agent's counter, seen cache, all four tables (metric, sequence, path, last-update tick) and the touched queues (origin, sequence, path, seen-by, routes+metrics). Non-trivial = an op that handled a frame, replayed a table or changed a cache/table. Engine c12 starts every script with UDP_OPEN walks (`uwalk`, the frame built by the real ingress code Agent.createDestAssociation through an overlay accessor, for routes of 1, 2, 3 and 5 hops; arrival = the origin answering ErrUDPDisabled) and STREAM_OPEN walks along learned routes at distance exactly max_hops and max_hops-1 for max_hops 1..4 (plus 16 hops and the unlimited case) and ends 30% of its cases (and every chain-at-the-limit case) with walks along up to two routes the real flooders just learned; spec: the open must reach the advertising agent (tags open-along-learned-route-refused / -lost). Engine c12 also adds clean convergence cases (whole topology up before any delivery, only deliveries/duplicates/announcements, every agent announces, FIFO drain, `dump converged`). spec: every learned route's next hop is a linked neighbour and the head of the path, consecutive path agents are linked, the path ends at the origin, the handleStreamOpen walk reaches the origin; at `dump converged` every agent holds every other agent's presence and every advertised route",
    nontrivial=lambda op, out: out.startswith(("r=new", "r=seen", "r=drop", "r=ord:", "r=removed")),
    trusted_base=[
        'harness/main/eng_c12w.go (`walk` op): one REAL agent per path element (agent.New, routing.max_hops set, never started; handshake-less injected peers via the c16 accessors, reused unmodified); the ingress STREAM_OPEN (RemainingPath = path[1:]) is carried hop by hop through Agent.processFrame/handleStreamOpen; arrival is the origin exit handler answering ErrNotAllowed for a destination outside its exit routes (no sockets)',
        'MM/Model/C11.lean models HandleRouteAdvertise / HandleRouteWithdraw / floodAdvertisementEncrypted / floodWithdrawal / floodFrame / AnnounceLocalRoutes / WithdrawLocalRoutes / SendFullTable / cleanupSeenCache (flood.go), Process*RouteAdvertise / AddLocal*Route / CleanupStale*Routes (manager.go) and the four AddRoute update rules; tied to the code by the differential run (N real Flooder+Manager pairs over a queueing PeerSender)',
        'harness/main/eng_c11.go delivers frames the way Agent.handleRouteAdvertise / handleRouteWithdraw do (DecodeRouteAdvertise / DecodeRouteWithdraw, then HandleRouteAdvertise / HandleRouteWithdraw with the decoded fields); Agent.handlePeerConnected -> SendFullTable is the `replay` op',
        'harness accessors (overlay, add-only): flood.C11ExpireSeen runs the production cleanupSeenCache on one aged entry; routing.C11Stamp rewrites LastUpdate of the entries touched by an op to a logical tick',
        "lib/floodlib.py + follow mode: where Go map iteration decides (the origin order and x[0] path choice of SendFullTable, which routes share an advertisement when there are more than 255) the model takes the outcome from the implementation's answer and checks that it is an admissible one (hintOK / groupingOK)",
    ],
    assumptions=[
        'time is a logical clock (one tick per op); seen-cache expiry is an op that may remove any key at any moment (over-approximates the TTL)',
        'u64 sequence numbers do not wrap; the one-byte path / seen-by counts never wrap (theorem C15_no_wrap, with fixes/C15-wire-count-replay.patch); advertisements are split into groups of at most 255 routes like splitRoutes does, its byte budget is never binding for the route encodings used (<= 24 bytes per route)',
        "per-key route lists have <= 12 entries (Go's sort.Slice is a stable insertion sort only up to 12 elements)",
        'peer disconnect IS modelled (`disconnect`: queued frames lost, RemoveRoutesFromPeer at both ends, as Agent.handlePeerDisconnect does); the C12 path theorems assume a stable topology (no disconnect in the history) as the property does. ROUTE_WITHDRAW (WithdrawLocalRoutes / HandleRouteWithdraw / floodWithdrawal) IS modelled: it shares the seen cache, the loop test and floodFrame with advertisements',
        'plain (non-sealed-box) configuration: paths travel as plaintext EncryptedData, display names ignored',
        'C12_converges* assume reliable delivery (no frame of the announcement left in flight), no connect/disconnect/replay/withdraw/loss/expiry/stale cleanup during the flood, no hop limit and at most 255 agents (so that the wire-count guard never stops the flood); they cover CIDR/domain/forward routes (C12_converges_all) and the presence route (C12_converges_presence)',
    ],
    chunk=6000,
    search_seconds=45,
    manifest=dict(
        category="proof",
        text="Lean theorem C12_holds: in every reachable state of the flood LTS (any topology, schedule, replays included) each learned route's next hop is a current neighbour, its path is a chain of links ending at the origin, and the STREAM_OPEN walk along it reaches the advertising agent. C12_converges: on a stable topology without hop limit, after a fresh announcement and any schedule of deliveries/duplicates/announcements that leaves no frame of it in flight (reliable links = fairness hypothesis), every agent connected to the origin has handled it and holds every advertised CIDR/domain/forward route with that or a later sequence number; freshness is a theorem after histories without third-party replays (C12_converges_run). Also checked on the real code (clean cases)",
        design_ref='DESIGN.md section 5 C12',
        note="Lean kernel; flood LTS model tied by the differential run; logical clock; expiry as a free op; no disconnect",
        technique="Lean 4 proof (inductive invariants over a network LTS) + differential correspondence harness on N real Flooder/Manager pairs",
    ),
)
