PROP = dict(
    id="C03",
    engines=["c03"],
    go_tags=["c03", "c04"],   # c04: the in-process mesh used by the `tunnel` ops lives in eng_c04.go
    timeout=600,
    gen_files={"MM/Gen/C03.lean": "c03"},
    lean_modules=["MM.Props.C03"],
    theorems=[
        "MM.C03.C03_sites_canonical",
        "MM.C03.C03_struct_pairs",
        "MM.C03.C03_kinds_covered",
        "MM.C03.C03_agree",
        "MM.C03.C03_salt_injective",
        "MM.C03.C03_distinct_keys",
        "MM.C03.C03_zero_refused",
        "MM.C03.C03_low_order_refused",
        "MM.C03.C03_sites_guarded",
    ],
    spec=True,
    rule="ops on the real crypto package vs executable HKDF-SHA256 / X25519 references in Lean: kdf (DeriveSessionKey.Key() for random/zero/0xff "
         "secrets and keys, request ids 0, 2^63, 2^64-1, random), kdf2 (two derivations differing in one bit of one component, swapped key order, or nothing), "
         "dh/dhkey (ComputeECDH, then DeriveSessionKey, on random, honest, all-zero and every small-order point in every encoding X25519 treats as equal: "
         "bit 255 clear and set, non-canonical p and p+1; a key derived from an all-zero secret is a violation), "
         "hs (multi-step handshakes on the real exit/forward/udp/shell handlers: duplicate open with the same or a fresh ingress key, re-open after close, the same "
         "request id on another stream; after every acknowledged open the echo must come back, i.e. both ends hold the same key), pair (both roles on real X25519 key pairs), "
         "tunnel (one live tunnel per kind tcp/udp/forward/file/shell through three real in-process agents: the echo only returns if both call sites agree); "
         "every op is non-trivial",
    trusted_base=[
        "X25519 commutativity is a field of the DH structure (hypothesis); it is exercised on real key pairs by the `pair` ops, not proved",
        "HKDF-SHA256 collision resistance: hypothesis kdfInj of C03_distinct_keys",
        "go/ast pass in harness/main/c03_ast.go (syntactic): argument roles of every DeriveSessionKey/ComputeECDH site; "
        "request-id equality between the two agents is a protocol fact (the id travels in the open frame) and is not derived from the AST",
    ],
    assumptions=[
        "both agents use the request id carried by the open/ack frame (C05 codecs; C16/C39 isolation)",
        "the reference implementations in MM/Model/C03Crypto.lean are test oracles only; no theorem depends on them",
    ],
    manifest=dict(
        category="proof",
        text="Lean theorems: C03_agree for EVERY (initiator site, responder site) pair of the regenerated DeriveSessionKey call-site table "
             "(15 sites, 6 tunnel kinds) under DH commutativity; C03_salt_injective for 32-byte keys and 64-bit ids (+ C03_distinct_keys under KDF injectivity); "
             "C03_zero_refused / C03_low_order_refused for ComputeECDH; tied to the code by the go/ast site table and a byte-for-byte differential run "
             "against executable HKDF-SHA256 and X25519 references, including all small-order points",
        design_ref="DESIGN.md section 5 C03",
        note="X25519 commutativity and HKDF injectivity are hypotheses; AST facts are syntactic; live tunnels cover tcp/udp/forward/file/shell, ICMP call sites are covered by the table only",
        technique="Lean 4 proof over a regenerated call-site table + differential correspondence harness with executable crypto references",
    ),
)


def before_diff(c):
    """If a theorem (e.g. a regenerated-fact tie) no longer compiles, the drivers were not picked up by
    the shared build stage. Build just the engines so that the differential run and the failing-input
    search still happen (the failed theorem stays a failed obligation)."""
    import os, shutil
    import vlib
    if getattr(c, "lake_ok", True) or not c.harness:
        return
    engines = PROP.get("lean_engines", PROP.get("engines", []))
    ok, _out, _failed = vlib.lake_build(["drv_" + e.lower() for e in engines])
    if not ok:
        return
    for e in engines:
        src = os.path.join(vlib.LEAN, ".lake", "build", "bin", "drv_" + e.lower())
        if os.path.exists(src):
            dst = os.path.join(c.tmp, "drv_" + e.lower())
            shutil.copy2(src, dst)
            c.drivers[e] = dst
