PROP = dict(
    id="C10",
    engines=["c10"],
    go_tags=["c08", "c09", "c10"],
    extract_files={
        "MM/Gen/LockC08.lean": {"cmd": ["go", "run", "{VERIF}/tools/lockshape.go", "LockC08", "{REPO}/internal/routing/table.go", "Table.AddRoute,Table.RemoveRoute,Table.RemoveRoutesFromPeer,Table.CleanupStaleRoutes,Table.Clear,Table.Lookup,Table.LookupAll,Table.GetRoute,Table.HasRoute", "mu", "routes"]},
        "MM/Gen/LockC09d.lean": {"cmd": ["go", "run", "{VERIF}/tools/lockshape.go", "LockC09d", "{REPO}/internal/routing/domain.go", "DomainTable.AddRoute,DomainTable.RemoveRoute,DomainTable.RemoveRoutesFromPeer,DomainTable.CleanupStaleRoutes,DomainTable.Clear,DomainTable.Lookup,DomainTable.HasRoute", "mu", "exactRoutes,wildcardBase"]},
        "MM/Gen/LockC09f.lean": {"cmd": ["go", "run", "{VERIF}/tools/lockshape.go", "LockC09f", "{REPO}/internal/routing/forward.go", "ForwardTable.AddRoute,ForwardTable.RemoveRoute,ForwardTable.RemoveRoutesFromPeer,ForwardTable.CleanupStaleRoutes,ForwardTable.Clear,ForwardTable.Lookup,ForwardTable.HasRoute", "mu", "routes"]},
        "MM/Gen/LockC09a.lean": {"cmd": ["go", "run", "{VERIF}/tools/lockshape.go", "LockC09a", "{REPO}/internal/routing/agent.go", "AgentTable.AddRoute,AgentTable.RemoveRoute,AgentTable.RemoveRoutesFromPeer,AgentTable.CleanupStaleRoutes,AgentTable.Clear,AgentTable.Lookup,AgentTable.GetRoutesForAgent", "mu", "routes"]},
    },
    lean_modules=["MM.Props.C10"],
    theorems=[
        "MM.C08.C10_add_outcome",
        "MM.C08.C10_replace_rule",
        "MM.C08.C10_no_self_path",
        "MM.C08.C10_disconnect_exact",
        "MM.C08.fresh_iff",
        "MM.C08.C10_cleanup_exact",
        "MM.C08.C10_cleanup_keeps_local",
        "MM.C08.C10_remove_outcome",
        "MM.C08.C10_manager_inv",
        "MM.C08.view_addRoute",
        "MM.C08.view_removeRoute",
        "MM.C08.view_filterT",
        "MM.C08.C10_refinement",
        "MM.C08.C08_lookup_on_view",
        "MM.C08.C10_holds",
    ],
    spec=True,
    chunk=3000,
    rule="the histories of C08 and C09 (all four tables, same pools and boundary values) with about a third of the CIDR operations routed through "
         "the real routing.Manager (AddLocalRoute, RemoveLocalRoute, ProcessRouteAdvertise, ProcessRouteWithdraw, HandlePeerDisconnect, "
         "CleanupStaleRoutes) and 40% of the domain/forward/agent additions through Process*RouteAdvertise on the Manager's own tables. After "
         "every mutation the full table is dumped and compared with the Lean model; `spec` takes the table the implementation printed before the "
         "op, applies the rule for the op (update rule / self-in-path rejection / withdraw / disconnect = filter on next hop / cleanup keeps local "
         "and fresh) and compares the resulting set of routes with what the implementation printed after. Non-trivial = a mutation that changed "
         "the table or was refused for a rule.",
    nontrivial=lambda op, out: " ; " in out and not op.startswith(("cage", "dage", "fage", "aage", "mage")),
    trusted_base=[
        "tools/lockshape.go (go/ast): the lock-shape facts MM/Gen/Lock*.lean the atomic-step theorems are decided on; goroutine scheduling "
        "inside one critical section and sync.RWMutex itself are assumed, not modelled",
        "the models of MM/Model/C08.lean, C09.lean (see C08/C09) and MM/Model/C10.lean (Manager wrappers: own sequence counter, uint16 metric+1)",
        "the four tables of a Manager share no state (each has its own mutex and maps), so a history across them is a history of each",
        "sort.Slice is not stable: both sides print every run of equal metric sorted by text, lookups are `anyof` over the first run; the "
        "agent table's RemoveRoute (first entry of the origin) is checked against every admissible choice (armAlternatives)",
        "routes are aged through verif accessors that shift LastUpdate; `cleanup k` uses maxAge = k h + 30 min so that real elapsed time cannot "
        "flip a comparison",
    ],
    assumptions=[
        "each table method is one atomic step: tied to the source by the *_atomic_steps theorems (one lock acquisition per method, route map "
        "touched only under the write lock in mutators, read under R/W in lookups) and exercised by the `race` stress op (goroutines released at "
        "once, up to 400 attempts per op, outcome must be a well-formed table equal to the result of some serial order)",
        "operations on one table are serialised by its mutex (lock granularity = one method call); concurrent schedules are not enumerated",
        "Manager entry points driven and modelled (MM/Model/C10.lean): AddLocalRoute, RemoveLocalRoute, AddDynamicRoute, RemoveDynamicRoute, "
        "AddLocalDomainRoute (ValidateDomainPattern), RemoveLocalDomainRoute, AddLocalForwardRoute, RemoveLocalForwardRoute (one shared sequence "
        "counter), Process{,Domain,Forward,Agent}RouteAdvertise, ProcessRouteWithdraw, HandlePeerDisconnect, CleanupStaleRoutes, Lookup, "
        "LookupDomain, LookupForward, LookupAgent; subscriber notification, node info and display names are not",
    ],
    manifest=dict(
        category="proof",
        text="Lean theorems over the generic keyed table (hence all four tables): C10_add_outcome / C10_replace_rule (an entry is displaced only "
             "by a route in its slot with greater sequence or equal sequence and strictly lower metric; refused adds change nothing), "
             "C10_no_self_path (no stored path contains the local agent, any history), C10_disconnect_exact (= filter on next hop, order kept), "
             "C10_cleanup_exact / keeps_local, C10_remove_outcome, C10_manager_inv; tied to the code by a differential run of the real tables and "
             "Manager against the compiled model.",
        design_ref="DESIGN.md section 5 C10",
        note="Lean kernel; models of C08/C09; lock-granularity atomicity; T-diff generator coverage",
        technique="Lean 4 proof (inductive invariant + per-operation outcome theorems) + differential correspondence harness + rule re-evaluation on impl tables",
    ),
)


# --- atomic-step tie ---------------------------------------------------------------------------
# The lock-shape theorems live in their own Lean module and are built here, not in the main build:
# when they break (a critical section was split or an access moved out of it) the model and the
# driver still build, so the differential run and the failing-input search (concurrency stress op
# `race`) can still look for a concrete bad outcome.
LOCK_MODULE = "MM.Props.C10Lock"
LOCK_THEOREMS = ['MM.C08.C10_atomic_steps']


def before_diff(c):
    import vlib
    ok, out, failed = vlib.lake_build([LOCK_MODULE])
    if not ok:
        c.oblige("tie:atomic-steps(" + LOCK_MODULE + ")", "tie", False,
                 "a table method no longer is one critical section under the write lock (see MM/Gen/Lock*.lean):\n" + "\n".join(failed) + "\n" + out[-1500:])
        return
    res, text = vlib.audit_axioms([LOCK_MODULE], LOCK_THEOREMS)
    for t in LOCK_THEOREMS:
        ax = res.get(t)
        c.axioms[t] = ax
        c.oblige("thm:" + t, "thm", ax is not None and all(a in vlib.ALLOWED_AXIOMS for a in ax), "axioms: " + ", ".join(ax or ["<missing>"]))
    hits = vlib.grep_forbidden([vlib.module_file(m) for m in vlib.transitive_local_imports([LOCK_MODULE])])
    c.oblige("no-sorry-admit-native_decide-axiom(lock)", "audit", not hits, "\n".join(hits))
