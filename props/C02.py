PROP = dict(
    id="C02",
    engines=["c02"],
    go_tags=["c02"],
    gen_files={"MM/Gen/C02.lean": "c02"},
    lean_modules=["MM.Props.C02"],
    theorems=[
        "MM.C02.C02_no_reuse",
        "MM.C02.C02_dir_disjoint",
        "MM.C02.C02_wire_nodup",
        "MM.C02.C02_tie_lock_region",
        "MM.C02.C02_tie_single_writer",
        "MM.C02.C02_tie_roles",
    ],
    spec=True,
    chunk=50,
    rule="each op = G goroutines x K Encrypt calls on EACH end of a real session pair (same key, opposite roles), released together; "
         "start counters 0 / small / random / placed so that the counter space runs out before, exactly at, or after the last call; "
         "output = per end (successful, refused, min counter, max counter, duplicates, wrong prefixes) + headers common to both ends, "
         "compared with the model's predicted contiguous range; every op is non-trivial",
    trusted_base=[
        "sync.Mutex mutual exclusion: the Lock..Unlock region of Encrypt is one atomic step (the Go scheduler is not enumerated; "
        "the theorem covers all interleavings of the atomic steps, the stress run validates the step granularity)",
        "go/ast pass in harness/main/c03_ast.go (syntactic): region facts and call-site argument roles",
    ],
    assumptions=[
        "the two ends of a session hold opposite isInitiator flags (C02_tie_roles + C03_agree)",
        "start counters below 2^64 (they are uint64)",
    ],
    manifest=dict(
        category="proof",
        text="Lean theorems C02_no_reuse / C02_dir_disjoint over ALL interleavings of atomic Encrypt steps on both ends and all start counters "
             "(no bound on the number of messages: the last counter value is refused, not wrapped); tied to the source by regenerated go/ast facts "
             "(nonce taken and counter bumped inside the mutex region, single writer, Seal uses the local copy, call-site role flags) and a goroutine stress run",
        design_ref="DESIGN.md section 5 C02",
        note="mutex atomicity trusted; scheduler not enumerated; syntactic AST facts",
        technique="Lean 4 proof (LTS invariant) + regenerated source facts + concurrent differential stress run",
    ),
)


def before_diff(c):
    """If a theorem (e.g. a regenerated-fact tie) no longer compiles, the drivers were not picked up by
    the shared build stage. Build just the engines so that the differential run and the failing-input
    search still happen (the failed theorem stays a failed obligation)."""
    import os, shutil
    import vlib
    if getattr(c, "lake_ok", True) or not c.harness:
        return
    engines = PROP.get("lean_engines", PROP.get("engines", []))
    ok, _out, _failed = vlib.lake_build(["drv_" + e.lower() for e in engines])
    if not ok:
        return
    for e in engines:
        src = os.path.join(vlib.LEAN, ".lake", "build", "bin", "drv_" + e.lower())
        if os.path.exists(src):
            dst = os.path.join(c.tmp, "drv_" + e.lower())
            shutil.copy2(src, dst)
            c.drivers[e] = dst

RACE_OPS = [
    "stress 8 2000 0 0",
    "stress 32 2000 0 0",
    "stress 16 1000 18446744073709543615 18446744073709551000",
    "stress 32 500 4294959295 9223372036854771807",
]


def extra(c):
    """Thorough tier: the concurrent ops again on a harness built with the Go race detector
    (`go build -race`). A reported data race, or an answer that differs from the model's, fails."""
    import os, subprocess
    import vlib
    if c.tier != "thorough" or not c.harness:
        return
    binary, log = vlib.build_harness(PROP["go_tags"], race=True)
    if binary is None:
        c.oblige("race-build:%s" % PROP["id"], "tie", False, log[-1500:])
        return
    engine = PROP["engines"][0]
    ops = RACE_OPS
    env = dict(os.environ, GORACE="halt_on_error=0 exitcode=0", TMPDIR=c.tmp)
    p = subprocess.run([binary, engine, "run"], input="\n".join(ops) + "\n", stdout=subprocess.PIPE, stderr=subprocess.PIPE, text=True, timeout=1500, env=env)
    got = [l for l in p.stdout.split("\n") if l != ""]
    want = c.lean_run(engine, ops)
    races = p.stderr.count("WARNING: DATA RACE")
    bad = [(o, g, w) for o, g, w in zip(ops, got, want) if not vlib.outputs_agree(g, w)]
    ok = races == 0 and not bad and len(got) == len(ops)
    detail = "%d ops under -race, %d data race reports" % (len(ops), races)
    if not ok:
        detail += " | first disagreement: %r | stderr: %s" % (bad[:1], p.stderr[-1200:])
    c.oblige("race-detector:%s" % engine, "tie", ok, detail)
    if not ok:
        c.violate("data race or disagreement under the race detector", {"engine": engine, "ops": ops, "impl_outputs": got, "model_outputs": want, "stderr": p.stderr[-2000:]}, races > 0)
