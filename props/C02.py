PROP = dict(
    id="C02",
    engines=["c02"],
    go_tags=["c02"],
    gen_files={"MM/Gen/C02.lean": "c02"},
    lean_modules=["MM.Props.C02"],
    theorems=[
        "MM.C02.C02_no_reuse",
        "MM.C02.C02_dir_disjoint",
        "MM.C02.C02_wire_nodup",
        "MM.C02.C02_tie_lock_region",
        "MM.C02.C02_tie_single_writer",
        "MM.C02.C02_tie_roles",
    ],
    spec=True,
    chunk=50,
    rule="each op = G goroutines x K Encrypt calls on EACH end of a real session pair (same key, opposite roles), released together; "
         "start counters 0 / small / random / placed so that the counter space runs out before, exactly at, or after the last call; "
         "output = per end (successful, refused, min counter, max counter, duplicates, wrong prefixes) + headers common to both ends, "
         "compared with the model's predicted contiguous range; every op is non-trivial",
    trusted_base=[
        "sync.Mutex mutual exclusion: the Lock..Unlock region of Encrypt is one atomic step (the Go scheduler is not enumerated; "
        "the theorem covers all interleavings of the atomic steps, the stress run validates the step granularity)",
        "go/ast pass in harness/main/c03_ast.go (syntactic): region facts and call-site argument roles",
    ],
    assumptions=[
        "the two ends of a session hold opposite isInitiator flags (C02_tie_roles + C03_agree)",
        "start counters below 2^64 (they are uint64)",
    ],
    manifest=dict(
        category="proof",
        text="Lean theorems C02_no_reuse / C02_dir_disjoint over ALL interleavings of atomic Encrypt steps on both ends and all start counters "
             "(no bound on the number of messages: the last counter value is refused, not wrapped); tied to the source by regenerated go/ast facts "
             "(nonce taken and counter bumped inside the mutex region, single writer, Seal uses the local copy, call-site role flags) and a goroutine stress run",
        design_ref="DESIGN.md section 5 C02",
        note="mutex atomicity trusted; scheduler not enumerated; syntactic AST facts",
        technique="Lean 4 proof (LTS invariant) + regenerated source facts + concurrent differential stress run",
    ),
)


def before_diff(c):
    """If a theorem (e.g. a regenerated-fact tie) no longer compiles, the drivers were not picked up by
    the shared build stage. Build just the engines so that the differential run and the failing-input
    search still happen (the failed theorem stays a failed obligation)."""
    import os, shutil
    import vlib
    if getattr(c, "lake_ok", True) or not c.harness:
        return
    engines = PROP.get("lean_engines", PROP.get("engines", []))
    ok, _out, _failed = vlib.lake_build(["drv_" + e.lower() for e in engines])
    if not ok:
        return
    for e in engines:
        src = os.path.join(vlib.LEAN, ".lake", "build", "bin", "drv_" + e.lower())
        if os.path.exists(src):
            dst = os.path.join(c.tmp, "drv_" + e.lower())
            shutil.copy2(src, dst)
            c.drivers[e] = dst
