import os, sys
sys.path.insert(0, os.path.join(os.path.dirname(os.path.abspath(__file__)), "..", "lib"))
import floodlib


def setup(c):
    floodlib.install_follow(c)


PROP = dict(
    id="C11",
    disabled=True,
    engines=["c11"],
    go_tags=["c11"],
    gen_files={},
    lean_modules=["MM.Model.C11Wire"],
    theorems=[],
    spec=True,
    rule="TODO",
    trusted_base=[],
    assumptions=[],
    manifest=dict(category="proof", text="TODO", design_ref="DESIGN.md section 5 C11", note="", technique="Lean 4 proof + differential correspondence harness"),
)
