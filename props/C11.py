import os, sys
sys.path.insert(0, os.path.join(os.path.dirname(os.path.abspath(__file__)), "..", "lib"))
import floodlib


def setup(c):
    # SendFullTable numbers the per-origin advertisements in Go map-iteration order: the Lean model
    # follows the order the implementation reports (any permutation of the model's origin set is
    # admissible, anything else is a disagreement). See lib/floodlib.py.
    floodlib.install_follow(c)


PROP = dict(
    id="C11",
    engines=['c11'],
    go_tags=['c11'],
    gen_files={},
    extract_files={
        "MM/Gen/LockC11.lean": {"cmd": ["go", "run", "{VERIF}/tools/lockshape.go", "LockC11", "{REPO}/internal/flood/flood.go", "Flooder.HandleRouteAdvertise,Flooder.HandleRouteWithdraw", "mu", "seenCache"]},
        "MM/Gen/LockC11m.lean": {"cmd": ["go", "run", "{VERIF}/tools/lockshape.go", "LockC11m", "{REPO}/internal/routing/manager.go", "Manager.IncrementSequence", "mu", "sequence"]},
        "MM/Gen/LockC11t.lean": {"cmd": ["go", "run", "{VERIF}/tools/lockshape.go", "LockC11t", "{REPO}/internal/routing/table.go", "Table.AddRoute", "mu", "routes"]},
        "MM/Gen/LockC11d.lean": {"cmd": ["go", "run", "{VERIF}/tools/lockshape.go", "LockC11d", "{REPO}/internal/routing/domain.go", "DomainTable.AddRoute", "mu", "exactRoutes,wildcardBase"]},
        "MM/Gen/LockC11f.lean": {"cmd": ["go", "run", "{VERIF}/tools/lockshape.go", "LockC11f", "{REPO}/internal/routing/forward.go", "ForwardTable.AddRoute", "mu", "routes"]},
        "MM/Gen/LockC11a.lean": {"cmd": ["go", "run", "{VERIF}/tools/lockshape.go", "LockC11a", "{REPO}/internal/routing/agent.go", "AgentTable.AddRoute", "mu", "routes"]},
    },
    lean_modules=["MM.Props.C11", "MM.Props.C11Lock"],
    theorems=[
        "MM.C11.Lock.advertise_test_and_set_atomic",
        "MM.C11.Lock.withdraw_test_and_set_atomic",
        "MM.C11.Lock.no_unlocked_mark_helper",
        "MM.C11.Lock.sequence_increment_atomic",
        "MM.C11.Lock.addRoute_atomic",
        "MM.C11.C11_seenby_nodup",
        "MM.C11.C11_no_self_path",
        "MM.C11.C11_deliver_decreases",
        "MM.C11.C11_terminates",
        "MM.C11.C11_once_cached",
        "MM.C11.C11_forward_once",
        "MM.C11.C11_partial",
        "MM.C11.C11_refuted",
        "MM.C11.C11_refuted_expiry",
        "MM.C11.C11_refuted_replay",
    ],
    spec=True,
    rule="cases = random topology (chain/ring/star/clique/tree+extra edges, 2..5 agents, rarely 9..20; thorough up to 7) x random local routes (CIDR v4/v6, domain exact/wildcard, forward; base metrics 0..10 and 65534) x op schedule written while driving the real mesh: bring links up (with/without table replay, before or between deliveries), deliver/duplicate/lose a chosen queued frame, announce, withdraw, expire a cached key, replay a table, stale cleanup, lose a connection (disconnect); rare streams: an origin with 256..315 routes (announcements and replays span several advertisements), a reroute case (link behind the next hop disappears while an equally long alternative exists), and a `race` stress op (one announcement handed to a fresh agent by k goroutines at once); every case drains to quiescence and dumps the whole state. After every op both sides print the acting agent's counter, seen cache, all four tables (metric, sequence, path, last-update tick) and the touched queues (origin, sequence, path, seen-by, routes+metrics). Non-trivial = an op that handled a frame, replayed a table or changed a cache/table. spec (engine c11): every printed table entry has no agent twice on its path and not the storing agent; every queued seen-by list is duplicate free; no agent answers `new` twice for one (origin, sequence) key (tags reprocessed-while-cached / reprocessed-after-expiry)",
    nontrivial=lambda op, out: out.startswith(("r=new", "r=seen", "r=drop", "r=ord:", "r=removed")),
    trusted_base=[
        'tools/lockshape.go (go/ast): lock-shape facts MM/Gen/LockC11*.lean on which the atomic-step ties (MM/Props/C11Lock.lean) are decided; goroutine scheduling itself is exercised only by the `race` stress op',
        'MM/Model/C11.lean models HandleRouteAdvertise / HandleRouteWithdraw / floodAdvertisementEncrypted / floodWithdrawal / floodFrame / AnnounceLocalRoutes / WithdrawLocalRoutes / SendFullTable / cleanupSeenCache (flood.go), Process*RouteAdvertise / AddLocal*Route / CleanupStale*Routes (manager.go) and the four AddRoute update rules; tied to the code by the differential run (N real Flooder+Manager pairs over a queueing PeerSender)',
        'harness/main/eng_c11.go delivers frames the way Agent.handleRouteAdvertise / handleRouteWithdraw do (DecodeRouteAdvertise / DecodeRouteWithdraw, then HandleRouteAdvertise / HandleRouteWithdraw with the decoded fields); Agent.handlePeerConnected -> SendFullTable is the `replay` op',
        'harness accessors (overlay, add-only): flood.C11ExpireSeen runs the production cleanupSeenCache on one aged entry; routing.C11Stamp rewrites LastUpdate of the entries touched by an op to a logical tick',
        "lib/floodlib.py + follow mode: where Go map iteration decides (the origin order and x[0] path choice of SendFullTable, which routes share an advertisement when there are more than 255) the model takes the outcome from the implementation's answer and checks that it is an admissible one (hintOK / groupingOK)",
    ],
    assumptions=[
        'time is a logical clock (one tick per op); seen-cache expiry is an op that may remove any key at any moment (over-approximates the TTL)',
        'u64 sequence numbers do not wrap; the one-byte path / seen-by counts never wrap (theorem C15_no_wrap, with fixes/C15-wire-count-replay.patch); advertisements are split into groups of at most 255 routes like splitRoutes does, its byte budget is never binding for the route encodings used (<= 24 bytes per route)',
        "per-key route lists have <= 12 entries (Go's sort.Slice is a stable insertion sort only up to 12 elements)",
        'peer disconnect IS modelled (`disconnect`: queued frames lost, RemoveRoutesFromPeer at both ends, as Agent.handlePeerDisconnect does); the C12 path theorems assume a stable topology (no disconnect in the history) as the property does. ROUTE_WITHDRAW (WithdrawLocalRoutes / HandleRouteWithdraw / floodWithdrawal) IS modelled: it shares the seen cache, the loop test and floodFrame with advertisements',
        'plain (non-sealed-box) configuration: paths travel as plaintext EncryptedData, display names ignored',
    ],
    chunk=6000,
    search_seconds=45,
    manifest=dict(
        category="proof",
        text='Lean theorems over the network LTS Flood: seen-by lists never repeat an agent; the measure sum (n+1)^(agents not in seen-by) strictly decreases on every delivery (quiescence under every schedule, with loss, expiry, cleanup); at most once while the key is cached and at most one copy per neighbour; no stored path contains the storing agent. The full statement is refuted twice (expiry, third-party replay) with witnesses replayed on the real code; C11_partial covers the rest',
        design_ref='DESIGN.md section 5 C11',
        note="Lean kernel; flood LTS model tied by the differential run; logical clock; expiry as a free op; no disconnect",
        technique="Lean 4 proof (inductive invariants over a network LTS) + differential correspondence harness on N real Flooder/Manager pairs",
    ),
)
