PROP = dict(
    id="C39",
    engines=["c39", "c39m"],
    go_tags=["c39"],
    extract_files={"MM/Gen/LockC39.lean": {"cmd": ["go", "run", "{VERIF}/tools/lockshape.go", "LockC39",
        "{REPO}/internal/agent/agent.go", "Agent.handleControlRequest,Agent.handleControlResponse,Agent.SendControlRequestWithData",
        "controlMu", "pendingControl,forwardedControl,nextControlID"]}},
    lean_modules=["MM.Props.C39"],
    theorems=[
        "MM.C39.C39_lock_control_maps",
        "MM.C39.sync_step",
        "MM.C39.C39_partial",
        "MM.C39.C39_local_ids_never_reused",
        "MM.C39.C39_issue_is_begin_then_end",
        "MM.C39.C39_failed_send_and_sleep_keep_ids_burnt",
        "MM.C39.sync_init",
        "MM.C39.C39_refuted",
        "MM.C39.C39_refuted_trace",
        "MM.C39.C39_refuted_swallow",
    ],
    spec=True,
    rule="one real agent (agent.New, injected peers) as transit and originator: requesters number their requests 1,2,3,... each (collisions) "
         "or use globally distinct ids; direct targets, explicit one/two-element paths, unknown targets, unconnected next hops, requests for "
         "the agent itself, local SendControlRequest calls (goroutine per call) incl. their lifecycle: the caller's context is cancelled, a new request is issued straight after, the stale answer arrives before or after the new one's; writes to the next hop that fail or stall-then-fail/complete while other requests are in flight; the agent's real enterSleep/exitSleep between requests, responses in FIFO order, out of order, duplicated, from the "
         "wrong peer, with unknown ids, peers disconnecting with requests in flight, ids 0, 2^63, 2^64-1, long histories. The spec keeps per "
         "(next hop, id) the queue of requesters and recomputes who must get each response; non-trivial = a frame or a delivery was produced",
    nontrivial=lambda op, out: "out=[]" not in out,
    trusted_base=[
        "MM/Model/C39.lean models SendControlRequestWithData / handleControlRequest / handleControlResponse with maps keyed by the bare "
        "request id; route tables are not modelled (next hop = explicit path head or the target when it is a direct peer)",
        "engine c39m: five real agents over loopback QUIC (routes by flooding) against the network of model agents explored under every "
        "per-link-FIFO delivery order; the answer of a round must be one of the model's outcomes",
    ],
    assumptions=[
        "C39_partial: request ids live at an agent are distinct (no request arrives, and no local request is issued, under an id that is "
        "still pending or forwarded there)",
        "the 60 s / 30 s stale-entry sweeps of routeAdvertiseLoop are not modelled",
    ],
    manifest=dict(
        category="proof",
        text="Lean: the real agent's control bookkeeping (bare request-id keys) simulates the ideal origin-remembering agent step by step on "
             "every history with distinct live request ids (C39_partial); machine-checked refutations of the full statement on a five-agent "
             "FIFO network (C39_refuted, C39_refuted_trace) and at one agent (C39_refuted_swallow); model tied to the real agent by a "
             "differential run of handleControlRequest/handleControlResponse/SendControlRequest",
        design_ref="DESIGN.md section 5 C39, section 6",
        note="Lean kernel; one-agent model + small FIFO network; Distinct hypothesis — bare request-id keys are an open known finding",
        technique="Lean 4 proof (simulation invariant, refutation by concrete witness) + differential correspondence harness",
    ),
)
