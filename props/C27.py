PROP = dict(
    id="C27",
    engines=["c27"],
    go_tags=["c27"],
    lean_modules=["MM.Props.C27"],
    theorems=[
        "MM.C27.C27_statement",
        "MM.C27.C27_inv_preserved",
        "MM.C27.C27_unchecked_refuted",
        "MM.C27.safe_untar",
        "MM.C27.check_sound",
        "MM.C27.walkAux_lex",
    ],
    spec=True,
    chunk=6000,
    timeout=1800,
    rule="cases = sandbox with an outside sentinel tree (files, directories) next to the destination w/d, optional state left at the "
         "destination by earlier activity (directories, files, symbolic links incl. escaping / absolute / dangling / self-referential ones, hard "
         "links), then 1-3 archives in a row, each 1-8 entries drawn from names {a, a/b, a/b/c, a/b/c/x, b, x, ., a/.., ../x, /abs, ...} x types "
         "{dir, regular, symlink, hard link, fifo} x link targets {.., ../.., b, ../x, ../../out/secret, c/.., ...}; plus large inputs (300-entry "
         "archives, bodies of 32 KiB-1 MiB, 255-byte components, deep chains) and an exhaustive enumeration of 2-entry (thorough: a 12% sample of "
         "3-entry) archives over a 5-name x 4-target alphabet; every archive is written with archive/tar + gzip and extracted by the real "
         "UntarDirectory and (a quarter / a seventh of the archives) by the HTTP upload extractor health.extractTarWithFallback, as gzip or as plain tar; "
         "structured chains re-use a name across entry kinds (empty directory replaced by a symlink / hard link, link replaced by a directory or "
         "file) with link targets built from earlier link names plus '/..' suffixes and later entries below the replaced name; the full listing of the sandbox (kinds, link targets, contents, inode sharing) is compared with the Lean model; "
         "non-trivial = the archive was not refused at its first entry",
    nontrivial=lambda op, out: op.startswith("untar") and ("w/d/" in out),  # untar / untarh / untarhp
    trusted_base=[
        "the filesystem (path resolution with symbolic links, mkdir/open/unlink/rmdir/symlink/link, os.MkdirAll, os.Remove) is MODELLED in "
        "MM/Model/C27.lean and validated against the real OS by the correspondence run only",
        "archive/tar + compress/gzip readers are trusted: a stream they reject ends the extraction with an error; the model covers the entry kinds the extractor acts on "
        "(directory, regular, symlink, hard link; PAX and GNU long names / formats arrive as ordinary headers) and treats every other type flag (fifo, character and "
        "block devices, unknown flags) as checked-then-skipped; for malformed / hostile streams (untarraw: truncated gzip or tar, bad checksums, absurd or invalid sizes, "
        "unknown type flags, raw '..' names, NUL in names, PAX path / linkpath overrides, trailing garbage, bit noise) only totality and 'nothing outside the destination "
        "changed' are compared",
        "component names are abstracted to numbers ('.' and empty components dropped, '..' distinguished); filepath.Clean/Join/Rel on them is modelled",
    ],
    assumptions=[
        "internal/health/server.go extractTarWithFallback is a call to filetransfer.UntarDirectoryAuto = the same extraction loop behind a gzip-or-plain "
        "reader (checked textually on every run by props/C27.py extra, and behaviourally by the untarh / untarhp ops)",
        "hypothesis Inv of C27_statement: the filesystem is a tree; the destination exists and neither it nor an ancestor is a symbolic link; "
        "no inode is hard-linked both below the destination and outside it; (symbolic links of any shape may pre-exist anywhere)",
        "no other process changes the tree during the extraction",
        "running as root in the sandbox: permission errors are not modelled",
    ],
    manifest=dict(
        category="proof",
        text="Lean theorem C27_statement: for ALL archives (any sequence of directory / regular / symlink / hard-link / other entries with arbitrary "
             "names and targets), every initial filesystem satisfying Inv (tree; destination physically a directory; no inode shared across the "
             "boundary) and every symlink-follow budget, extraction with the repaired UntarDirectory leaves every path not strictly below the "
             "destination resolving to the same entry and every outside file with the same content, and the destination stays a directory. "
             "C27_unchecked_refuted shows the lexical checks alone (code before fixes/C27-untar-symlink-components.patch) do not give this. The "
             "filesystem + UntarDirectory model is tied to the code by a differential run of the real function on generated archives",
        design_ref="DESIGN.md section 5 C27",
        note="Lean kernel; OS filesystem semantics modelled, not verified (T-diff only); Inv hypothesis; generator coverage",
        technique="Lean 4 proof (invariant over the entry loop; lexical-resolution lemma for symlink-free prefixes) + differential correspondence harness on real directories",
    ),
)


import os, re


def extra(c):
    """Tie fact for the second anchor: the HTTP directory-upload extractor must BE the verified extractor
    (a call to filetransfer.UntarDirectoryAuto, no filesystem or tar code of its own), and UntarDirectory /
    UntarDirectoryAuto must share one extraction loop."""
    import vlib
    try:
        srv = open(os.path.join(vlib.REPO, "internal/health/server.go")).read()
        tar = open(os.path.join(vlib.REPO, "internal/filetransfer/tar.go")).read()
    except OSError as e:
        c.oblige("health-extractor-delegates", "tie", False, str(e))
        return
    m = re.search(r"func extractTarWithFallback\(r io\.Reader, destDir string\) error \{\n(.*?)\n\}\n", srv, re.S)
    body = m.group(1) if m else ""
    ok = bool(m) and "filetransfer.UntarDirectoryAuto(r, destDir)" in body and not re.search(r"\bos\.|tar\.NewReader|filepath\.", body)
    ok2 = ("func UntarDirectory(r io.Reader, destDir string) error {\n\treturn untarDirectory(r, destDir, true)\n}" in tar
           and "func UntarDirectoryAuto(r io.Reader, destDir string) error {\n\treturn untarDirectory(r, destDir, false)\n}" in tar)
    c.oblige("health-extractor-delegates", "tie", ok and ok2,
             "" if ok and ok2 else "extractTarWithFallback is not a plain call to filetransfer.UntarDirectoryAuto (or the two entry points no longer share "
             "untarDirectory): the C27 model does not cover its own extraction code; body: " + body[:300])
