PROP = dict(
    id="C27",
    disabled=True,
    engines=["c27"],
    go_tags=["c27"],
    lean_modules=["MM.Props.C27"],
    theorems=[
        "MM.C27.C27_unchecked_refuted",
    ],
    spec=True,
    chunk=6000,
)
