PROP = dict(
    id="C29",
    engines=["c29"],
    go_tags=["c29"],
    gen_files={},
    extract_files={"MM/Gen/LockC29.lean": {"cmd": ["go", "run", "{VERIF}/tools/lockshape.go", "LockC29",
        "{REPO}/internal/flood/flood.go", "Flooder.markSleepCmdSeen,Flooder.cleanup", "sleepCmdMu", "sleepCmdSeenCache"]}},
    lean_modules=["MM.Props.C29"],
    theorems=[
        "MM.C29.C29_tie_test_and_set",
        "MM.C29.C29_tie_cleanup_locked",
        "MM.C29.C29_partial",
        "MM.C29.C29_refuted",
        "MM.C29.C29_evict_witness",
        "MM.C29.C29_pinned_ttl_refuted",
        "MM.C29.C29_pinned_forged_evict_refuted",
    ],
    spec=True,
    chunk=3000,
    rule="case = a fresh real flood.Flooder with window {3,9,30,300} s, TTL {window+0.5 s (default-like), 2*window+-0.5 s, 3*window+0.5 s, 1.5 s}, "
         "MaxSeenCacheSize {0, 10000} for random histories and {1,2,3,5,8} for eviction cases (cache at / one over / several over the cap, cleanup, "
         "replays), signing key in 88% of cases, and a history of 3-90 events: deliveries (sleep/wake; genuine, "
         "replayed from the same/another peer, forged: unsigned, garbage, other key, signed over other origin/id/timestamp; timestamps at now, "
         "+-3 s, +-window, +-(window-3), +-(window+3), +-2*window, 0, 2^62, 2^64-1, year 2603), virtual clock advances, cache cleanups (TTL expiry, "
         "forced and non-forced size eviction), key listings, peer connections (pending-wake forwarding). Real Ed25519. Non-trivial = delivery "
         "accepted, or a cleanup/keys/peer observation. Ages are arbitrary whole seconds (only window-1 and -(window+1), whose verdict depends on the "
         "sub-second phase of the real clock, are left out); the timestamp-window edge is probed from both sides within 1 ns / 2 ms (`edge`, "
         "window set relative to the measured age), the cache-expiry edge exactly at SeenAt+TTL-1ns / +0 / +1ns (`cleanupat`); stress rounds",
    nontrivial=lambda op, out: ("acc=1" in out) or op.startswith(("cleanup", "keys", "peer")),
    trusted_base=[
        "deliveries and cleanups are atomic steps of the history model: tied by lock-shape facts (tools/lockshape.go -> MM/Gen/LockC29.lean: "
        "markSleepCmdSeen is ONE sleepCmdMu section containing both the lookup and the insert; cleanup calls cleanupSleepCmdCache with the lock "
        "held) and by a concurrency stress op (one command delivered from many goroutines is accepted exactly once)",
        "virtual clock: `adv d` shifts SeenAt / pendingWakeAt by -d and re-signs the stored pending wake with its timestamp shifted by -d "
        "(accessor VerifC29Age); later commands are stamped relative to the virtual clock — the code itself reads time.Now()",
        "Ed25519 modelled as an ideal signature scheme in the engine; C29_partial holds for ANY verification predicate",
        "non-forced size eviction (Go map iteration order): the engine answers `anyof` for keys that may or may not have survived",
    ],
    assumptions=[
        "C29_partial: signing key configured, timestampWindow < 2^63-1 ns, no cleanup along the history has to size-evict (noEvict)",
        "the clock is monotone (advance takes a natural number)",
        "locally originated commands (FloodSleepCommand/FloodWakeCommand) are outside the model",
    ],
    manifest=dict(
        category="proof",
        text="Lean: C29_partial - every signed command is accepted at most once over EVERY history of genuine/replayed/forged deliveries, clock "
             "advance, cleanups and peer connections in which no cleanup has to size-evict, for any configuration and any signature predicate "
             "(after two fixes: verify before marking seen; cache TTL >= 2*window). The unrestricted statement stays REFUTED (C29_refuted: "
             "more than MaxSeenCacheSize validly signed commands inside two windows can evict a genuine entry - open finding, replayed on the "
             "real code). Model tied to the code by a differential run of the real Flooder under a virtual clock",
        design_ref="DESIGN.md section 5 C29",
        note="Lean kernel; Ed25519 abstract; virtual clock by shifting recorded instants; eviction victims nondeterministic (anyof)",
        technique="Lean 4 proof (history induction with a protection invariant) + machine-checked refutations + differential correspondence harness",
    ),
)


def extra(c):
    """Concurrency stress on the real Flooder (needs no Lean build, so it also runs when a lock-shape tie theorem broke):
    one fresh valid command delivered from many goroutines at once must be accepted exactly once."""
    if not c.harness:
        return
    ops = []
    for k in range(300 if c.tier == "quick" else 3000):
        ops += ["reset %d 9 18500 10000" % (1 if k % 4 == 0 else 0), "stress %d" % (4 + k % 13)]
    out = c.go_run("c29", ops, timeout=300)
    bad = [i for i, o in enumerate(out) if ops[i].startswith("stress") and o != "stress acc=1"]
    c.oblige("stress:seen-cache-test-and-set", "tie", not bad, out[bad[0]] if bad else "%d stress rounds" % (len(ops) // 2))
    if bad:
        i = bad[0]
        c.violate("one signed command delivered concurrently was accepted more than once: " + out[i],
                  {"engine": "c29", "origin": "stress", "ops": ops[i - 1:i + 1], "impl_outputs": out[i - 1:i + 1]}, True)
