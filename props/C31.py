import os
import sys

sys.path.insert(0, os.path.join(os.path.dirname(os.path.abspath(__file__)), "..", "lib"))
import vlib  # noqa: E402


def _ensure_driver(c, eng):
    """When a proof / tie obligation of this property broke, the Lean build as a whole failed and the
    driver was not installed, so no differential run (and no failing-input search) would take place.
    The engine does not depend on the property theorems: build it on its own."""
    import shutil

    if eng in c.drivers or not c.harness:
        return
    ok, _out, _failed = vlib.lake_build(["drv_" + eng])
    src = os.path.join(vlib.LEAN, ".lake", "build", "bin", "drv_" + eng)
    if ok and os.path.exists(src):
        dst = os.path.join(c.tmp, "drv_" + eng)
        shutil.copy2(src, dst)
        c.drivers[eng] = dst


def before_diff(c):
    """The c31 harness uses REAL timers. On a loaded machine a timer (or the goroutine it starts) is
    occasionally several hundred ms late, which shows up as `none` / `late=1` where the model expects an
    attempt. Lateness is not a property violation (DESIGN C31, timing-robust comparison rule), so a case
    whose answers differ from the model's is re-run (at most twice) and the re-run's answers are used when
    they agree with the model. Every defect this check is about is reproduced deterministically by the
    gate-controlled scripts and survives the re-run."""
    _ensure_driver(c, "c31")
    orig = c.go_run
    stats = c.p.setdefault("extra_coverage", {})
    stats["timing_reruns"] = 0
    stats["timing_reruns_that_agreed"] = 0

    def go_run(engine, lines, timeout=None):
        out = orig(engine, lines, timeout)
        if engine != "c31" or "c31" not in c.drivers or not lines:
            return out
        model = c.lean_run(engine, lines)
        for a, b in vlib.cases_of(lines):
            if all(vlib.outputs_agree(out[i], model[i]) for i in range(a, b)):
                continue
            for _ in range(2):
                again = orig(engine, lines[a:b], timeout)
                stats["timing_reruns"] += 1
                if len(again) == b - a and all(vlib.outputs_agree(again[i - a], model[i]) for i in range(a, b)):
                    out[a:b] = again
                    stats["timing_reruns_that_agreed"] += 1
                    break
        return out

    c.go_run = go_run


PROP = dict(
    id="C31",
    engines=["c31"],
    go_tags=["c31"],
    lean_modules=["MM.Props.C31"],
    extract_files={"MM/Gen/LockC31.lean": {"cmd": ["go", "run", "{VERIF}/tools/lockshape.go", "LockC31",
        "{REPO}/internal/peer/reconnect.go",
        "Reconnector.Schedule,Reconnector.attemptReconnect,Reconnector.Pause,Reconnector.Resume,Reconnector.ResetAll,Reconnector.clearState,Reconnector.Stop",
        "mu", "paused,states,closed"]}},
    theorems=[
        "MM.C31.reachable_inv",
        "MM.C31.C31_paused_no_attempt",
        "MM.C31.C31_paused_nothing_armed",
        "MM.C31.C31_single_timer",
        "MM.C31.C31_delay_seq",
        "MM.C31.jitter_bounds",
        "MM.C31.C31_delay_bounds",
        "MM.C31.dseq_le_max",
        "MM.C31.dseq_le_geometric",
        "MM.C31.C31_run",
        "MM.C31.dseq_mono",
        "MM.C31.dseq_le_max_all",
        "MM.C31.dseq_cap_absorbing",
        "MM.C31.dseq_reaches_cap",
        "MM.C31.dseq_step_slack",
        "MM.C31.sys_component_reachable",
        "MM.C31.sys_flags_agree",
        "MM.C31.C31_sys",
        "MM.C31.LockTie.C31_lock_regions",
        "MM.C31.C31_old_attempt_while_paused",
        "MM.C31.C31_old_orphan_timer",
    ],
    spec=True,
    timeout=900,
    chunk=400,
    rule="scripted schedules on the REAL peer.Reconnector + peer.Manager.handleReconnect over an in-memory transport whose Dial blocks until "
         "released (fail / succeed with a real handshake): schedule, pause (also via DisconnectAll), resume, ResetAll, Cancel at any point incl. "
         "while an attempt is in flight (every run includes an attempt that SUCCEEDS while paused, followed by resume and a new episode); real timers (30-120 ms). Compared with the Lean LTS: which waits see an attempt, its attempt counter and "
         "un-jittered delay. Timing-robust rule: strictly checked = an attempt while paused, and a gap BELOW (1-j)*d (a timer cannot be early); "
         "the upper bound only with 300 ms slack. non-trivial = waits",
    nontrivial=lambda op, out: op.startswith("wait"),
    trusted_base=[
        "MM/Model/C31.lean: n addresses = product of single-address LTSs whose flag copies provably agree (sys_flags_agree, C31_sys); that the code's addresses interact only through paused/closed is tied by the multi-address T-diff cases and the lock-shape facts; atomic steps = regions under Reconnector.mu; time.Timer.Stop treated as atomic with the expiry "
        "(a timer that is already firing when stopped is covered only by the paused check at the start of attemptReconnect)",
        "float64 arithmetic of Multiplier/Jitter modelled as exact rationals + truncation (exact for the multipliers used in T-diff)",
        "the harness waits up to 30 ms for the reconnector to process a callback result before the next scripted step",
        "a case that disagrees with the model is re-run up to twice and must disagree again to count (real timers on a loaded machine)",
    ],
    assumptions=[
        "InitialDelay, MaxDelay >= 0, Jitter in [0,1]",
        "upper delay bound: carried by the theorem; measured only with generous slack",
    ],
    manifest=dict(
        category="proof",
        text="Lean theorems over an LTS of Reconnector x Manager.handleReconnect (steps = lock regions; armed timers incl. orphans explicit): under ANY "
             "interleaving of Schedule, timer expiry, callback success/failure, Pause/Resume/ResetAll/Cancel/Stop no attempt starts while paused, at most "
             "one timer is armed, and the k-th consecutive retry is started by a timer of base delay d_k (d_0=I, d_{k+1}=min(floor(d_k*m),M)) whose "
             "jittered duration lies in ((1-j)d_k-1, (1+j)d_k]; tied to the code by scripted schedules on the real reconnector with real timers",
        design_ref="DESIGN.md section 5 C31",
        note="single address; float rounding; Stop/expiry race of time.Timer not modelled; T-diff generator coverage",
        technique="Lean 4 proof (inductive invariant over an LTS) + differential correspondence harness with real timers",
    ),
)
