PROP = dict(
    id="C23",
    engines=["c23"],
    go_tags=["c23"],
    gen_files={},
    lean_modules=["MM.Props.C23"],
    theorems=[
        "MM.C23.C23_reply_wf",
        "MM.C23.C23_dial_exact",
        "MM.C23.C23_request_bytes",
        "MM.C23.C23_bad_cmd",
        "MM.C23.C23_bad_atyp",
        "MM.C23.C23_truncated",
        "MM.C23.C23_render_injective",
        "MM.C23.C23_dial_string_injective",
        "MM.C23.C23_dialer_parses_ip",
        "MM.C23.C23_dialer_parses_domain",
    ],
    spec=True,
    rule="op = one client byte stream run through a real socks5.Handler over a scripted connection with a recording dialer / UDP / ICMP back-end; "
         "streams = every prefix of valid greeting+request messages (IPv4, IPv6 incl. all zero-run shapes and v4-mapped, domains incl. colons and non-UTF8; "
         "commands 0,1,2,3,4,5,255), unsupported address types/versions, RFC 1929 exchanges, random and mutated streams up to 300 bytes; relay phase (client bytes sent after the success reply / destination bytes, 0 B - 100 kB, must arrive unchanged on the other side); "
         "net.IP.String on every pattern of zero groups and on (nearly) IPv4-mapped addresses, net.JoinHostPort+net.SplitHostPort on bracket/colon-laden hosts; "
         "non-trivial = the handler wrote at least one message",
    nontrivial=lambda op, out: out.startswith("r ") and not out.startswith("r - "),
    trusted_base=[
        "MM/Model/C23.lean models io.ReadFull on a finite client stream, net.IP.String, net.JoinHostPort and strconv.Itoa (rendering compared with the real functions by T-diff on every dialled address)",
        "scripted connection of the harness (harness/main/c23_lib.go): the client sends its bytes, then stays silent and closes",
    ],
    assumptions=[
        "the dialer's connection reports a *net.TCPAddr local address with a nil, 4-byte or 16-byte IP (hypothesis of C23_reply_wf)",
        "the race between the client-disconnect monitor and a failing dial is an environment parameter (Env.cancelled); T-diff accepts either outcome",
        "the relay phase after a successful CONNECT is checked by the differential run and the spec (bytes unchanged in both directions), not by a theorem; the UDP/ICMP data paths are outside this property",
        "a colon-free domain of the shape [x] is passed on verbatim by the handler but loses its brackets in net.SplitHostPort inside the dialer (C23_dialer_parses_domain excludes brackets; example in Props/C23.lean)",
    ],
    manifest=dict(
        category="proof",
        text="Lean theorems over a function from the client byte stream to (messages written, action) modelling socks5.Handler.Handle: all written messages well formed, "
             "CONNECT dials exactly JoinHostPort(render(addr), port) of the encoded address, unsupported command => reply 0x07, unsupported address type => reply 0x08, "
             "every strict prefix of a valid stream => no action; the address text is injective (IPv4, RFC 5952 IPv6 with every zero-run shape, IPv4-mapped = its IPv4) and JoinHostPort is injective, so the dial string determines what was asked; SplitHostPort(JoinHostPort(render ip, port)) gives it back; model tied to the code by a differential run of the real handler on every prefix of valid requests and random streams",
        design_ref="DESIGN.md section 5 C23",
        note="Lean kernel; model of ReadFull/IP.String/JoinHostPort; T-diff generator coverage",
        technique="Lean 4 proof (case analysis over the parser) + differential correspondence harness",
    ),
)
