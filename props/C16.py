PROP = dict(
    id="C16",
    engines=["c16"],
    go_tags=["c16"],
    extract_files={"MM/Gen/LockC16.lean": {"cmd": ["go", "run", "{VERIF}/tools/lockshape.go", "LockC16",
        "{REPO}/internal/agent/relay_table.go",
        "relayTable.Insert,relayTable.Delete,relayTable.LookupBoth,relayTable.LookupDownstream,relayTable.PopDownstreamFromPeer,relayTable.PopMatchingPeer,relayTable.DeleteByPeer",
        "mu", "byUpstream,byDownstream"]}},
    lean_modules=["MM.Props.C16"],
    theorems=[
        "MM.C16.C16_lock_table_methods_atomic",
        "MM.C16.consistent_empty",
        "MM.C16.C16_relay_index_consistent",
        "MM.C16.consistent_delete",
        "MM.C16.C16_partial_close_isolated",
        "MM.C16.C16_partial",
        "MM.C16.C16_partial_statement",
        "MM.C16.C16_relay_frames_never_reach_exit",
        "MM.C16.C16_unclaimed_frame_leaves_relay_untouched",
        "MM.C16.C16_relay_payload_unchanged",
        "MM.C16.C16_ingress_err_targets_one",
        "MM.C16.C16_refuted",
        "MM.C16.C16_refuted_close_hits_other",
    ],
    spec=True,
    rule="(a) the real relayTable: random op sequences (Insert, Delete, LookupBoth, LookupDownstream, PopDownstreamFromPeer, PopMatchingPeer, "
         "DeleteByPeer) over few peers and few ids incl. 2^32, 2^63-1, 2^63, 2^64-1, long histories, deletes of absent entries; (b) the real "
         "agent (agent.New, injected handshake-less peers, Agent.processFrame): topologies with several upstream peers that dialed this agent "
         "(their allocators all start at 1) toward shared next hops, tcp/udp/icmp tunnels, frames from both legs, wrong peers, stale ids, "
         "disconnects/reconnects, orderly teardown; the agent is ALSO exit endpoint (real exit.Handler, loopback destination, real key exchange): exit streams and relayed streams with equal ids from different peers (`pair mode`), data under the tunnel's own key must reach its own destination socket. The spec recomputes from the op history, keyed by (peer, stream id), where each frame must "
         "go; non-trivial = a frame was forwarded or a table changed",
    nontrivial=lambda op, out: not op.startswith(("reset", "conn", "end")) and ("sent=[] " not in out or op.startswith(("t.", "close", "rst", "err", "disc"))),
    trusted_base=[
        "MM/Model/C16.lean models relay_table.go statement by statement and the relay branch of handleStreamOpen/OpenAck/OpenErr/Data/Close/"
        "Reset, handleUDP*, handleICMP* (which entry a frame selects, where it is forwarded, what is removed); payload bytes and flags of relayed data/ack/err frames are part of the model and of the spec (forwarded unchanged, exactly once)",
        "peers are injected into the real peer.Manager without handshake; frames the agent sends are decoded from the peer's write buffer",
    ],
    assumptions=[
        "C16_partial*: `Distinct` — no two live records of one relay table at one agent share a bare stream id (upstream ids pairwise "
        "distinct, downstream ids pairwise distinct); for the downstream direction additionally no upstream leg equals that (peer,id) pair "
        "(parity of the per-connection allocator, C38)",
        "exit/forward/shell/file/stream-manager maps are keyed by bare stream id as well; their collision behaviour is covered by C17's "
        "handler engine (exit, forward) and not otherwise modelled here",
    ],
    manifest=dict(
        category="proof",
        text="Lean theorems about the relay table and relay dispatch keyed exactly as in Go: index consistency and routing/close isolation for "
             "Distinct tunnel sets (C16_relay_index_consistent, C16_partial, C16_partial_close_isolated, C16_partial_statement) and a "
             "machine-checked refutation of the full statement (C16_refuted, C16_refuted_close_hits_other); model tied to the real relayTable "
             "and the real agent's frame dispatch by a differential run",
        design_ref="DESIGN.md section 5 C16, section 6",
        note="Lean kernel; one-agent model (transit role); Distinct hypothesis — bare stream-id keys are an open known finding",
        technique="Lean 4 proof (map invariants, refutation by concrete witness) + differential correspondence harness",
    ),
)
