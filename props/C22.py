import os, re


def before_diff(c):
    """Source facts: which control connections expose a TCP peer address."""
    import vlib
    ws = open(os.path.join(vlib.REPO, "internal/socks5/ws_listener.go")).read()
    hd = open(os.path.join(vlib.REPO, "internal/socks5/handler.go")).read()
    facts = [
        ("WebSocket control connections report no peer address (the ownerless class of C22_partial)",
         re.search(r"func \(c \*wsConn\) RemoteAddr\(\) net\.Addr \{\s*return nil\s*\}", ws)),
        ("handleUDPAssociate binds the association to the control connection and declares only specified IPs",
         re.search(r"if req\.DestIP != nil && !req\.DestIP\.IsUnspecified\(\) \{\s*expectedClient = &net\.UDPAddr\{", hd)
         and re.search(r"NewUDPAssociation\(conn, h\.udpHandler, h\.udpBindIP\)", hd)),
    ]
    for name, ok in facts:
        c.oblige("source-fact: " + name, "tie", bool(ok), "" if ok else "pattern not found in the current source")


PROP = dict(
    id="C22",
    engines=["c22"],
    go_tags=["c22"],
    gen_files={},
    lean_modules=["MM.Props.C22"],
    theorems=[
        "MM.C22.C22_refuted",
        "MM.C22.C22_partial",
        "MM.C22.C22_tcp",
        "MM.C22.C22_port_refuted",
    ],
    spec=True,
    timeout=1800,
    rule="case = a real UDP ASSOCIATE over a real control connection (TCP from 127.0.0.1/2/3; TCP over IPv6 from ::1; TCP through a dual-stack [::] listener = IPv4-mapped peer; or net.Pipe = no TCP peer address; [::1]:4000 among the declared addresses) declaring nothing / 0.0.0.0 / :: / a domain / "
         "a sender's address (exact, other port, IPv4-mapped), then datagrams (valid or invalid SOCKS5 UDP header) from UDP sockets bound to 127.0.0.1, 127.0.0.2, 127.0.0.3 and a second socket on 127.0.0.1 "
         "to the real relay socket read by the real ReadLoop, with WriteToClient probes in between; every ordered pair of first senders x control kind x declared/undeclared, plus random histories of 1-4 (8%: 20-50) datagrams; stalled-mesh cases: the relay back-end is held (RelayUDPDatagram blocks) while 3-8 (10%: 70-90) datagrams from the owner and from foreign hosts arrive, then released — "
         "every relayed (destination, payload) must be exactly one the owner sent, each once, in order; declared addresses include port 0; "
         "non-trivial = a datagram was relayed or a reply delivered",
    nontrivial=lambda op, out: out == "relayed" or out.startswith("to "),
    trusted_base=[
        "harness synchronisation: a datagram counts as processed when a later datagram from the same socket has arrived elsewhere, the relay socket's queue is empty (FIONREAD) and every goroutine running internal/socks5 code is parked (runtime.GoroutineProfile: innermost frame runtime.gopark); every wait has a 5 s deadline and then answers `timeout ...` (a disagreement)",
        "the content identity of relayed datagrams (destination + payload = what the owner sent, once, in order) is checked by the differential run and the spec, not by a Lean theorem (the model abstracts datagram contents)",
        "MM/Model/C22.lean models net.IP.Equal through the IPv4-mapped normalisation of MM/Model/C23.lean",
        "two source facts (wsConn.RemoteAddr is nil; handleUDPAssociate's declared-address rule) checked by regular expression on every run",
    ],
    assumptions=[
        "the theorems are about ownership by IP address (RFC 1928); the endpoint-level reading (IP and port, once the first datagram or the request fixed the port) is judged by the spec on every run and fails: open finding C22-same-host-other-port, C22_port_refuted",
        "source addresses are as the kernel reports them (no spoofing on the path to the relay socket)",
    ],
    manifest=dict(
        category="proof",
        text="Lean: C22_partial / C22_tcp — for every association that has an owner (control connection with a TCP peer address, or a declared client address), after any datagram sequence from any senders, "
             "a datagram is relayed only if its source IP is the owner's and replies go only to the owner; C22_refuted — the full statement fails for control connections without a peer address and no declared address "
             "(open finding C22-ownerless-control-connection, WebSocket-tunnelled SOCKS5); model of the FIXED ReadLoop tied by a differential run on real loopback sockets",
        design_ref="DESIGN.md section 5 C22",
        note="Lean kernel; IP-level ownership; harness synchronisation; T-diff generator coverage; open finding for ownerless control connections",
        technique="Lean 4 proof (invariant over datagram sequences) + refutation witness + differential correspondence harness",
    ),
)
