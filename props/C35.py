PROP = dict(
    id="C35",
    engines=["c35"],
    go_tags=["c35"],
    gen_files={"MM/Gen/C35.lean": "c35"},
    lean_modules=["MM.Props.C35"],
    theorems=[
        "MM.C35.C35_covers",
        "MM.C35.C35_name_screen",
        "MM.C35.C35_allowlist_sound",
        "MM.C35.C35_uniform",
        "MM.C35.C35_schema_nonvacuous",
        "MM.C35.C35_secret_slots",
        "MM.C35.C35_redacted_secret_slots",
        "MM.C35.C35_fail_closed",
        "MM.C35.C35_noninterference",
        "MM.C35.C35_nonsecret_preserved",
        "MM.C35.C35_empty_stays_empty",
        "MM.C35.C35_lists_detached",
        "MM.C35.C35_arrays_unchanged",
        "MM.C35.C35_aliasing_expressible",
        "MM.C35.C35_original_unchanged",
    ],
    spec=True,
    rule="configurations built by reflection over config.Config: 0..14 string leaves set (65% in secret-looking slots, list indices 0..3), "
         "secret slots carry a unique marker wrapped in hostile text (tab/newline/space prefixes, YAML indicators, tags, anchors, document "
         "markers, invalid UTF-8, NUL, BOM, U+2028/85, long multi-line), 25% of the cases also put hostile text into non-secret leaves (op "
         "`hos`); String() is run on the real package, its output parsed back and searched for every marker; the original is compared with "
         "an identically built twin; non-trivial = at least one set secret slot",
    nontrivial=lambda op, out: ("password" in op or "private_key" in op or "tls.key" in op),
    trusted_base=[
        "MM/Model/C35.lean abstracts a configuration to its string-typed leaves (non-string leaves carry no secret and are not modified)",
        "schema, redacted paths (behaviourally: marker in every leaf, two entries per list) and placeholder regenerated from the compiled "
        "package on every run (MM/Gen/C35.lean)",
        "classification of the property's secret classes onto the schema: MM.C35.isSecretLeaf (leaf named password/password_hash/"
        "private_key/signing_private_key, or key/key_pem under a tls section; by yaml name or Go field name)",
    ],
    assumptions=[
        "scope = the redacted rendering, i.e. Config.String()/Redacted() (their only non-test callers are in internal/config itself). Other "
        "serialisations of a Config are unredacted BY DESIGN and outside the statement: wizard.writeConfig / embedConfigToBinary / "
        "embedConfigToTargetBinary yaml.Marshal the full config because they ARE the configuration storage; the wizard prints a freshly "
        "generated management private key to the operator once; StringUnsafe() is documented as unsafe; no HTTP/dashboard endpoint returns "
        "the configuration (node info exposes forward routing keys/targets only). The current list of yaml.Marshal call sites outside "
        "internal/config is recorded in the evidence (coverage.c35_other_config_serialisers) on every run",
        "observation: http.token_hash (bcrypt hash of the API bearer token) is printed by String(); it is not among the secrets the "
        "property names and is carried on the reviewed allow-list of C35_name_screen",
        "the YAML round trip and the marshaller are parameters of the theorems (no assumption on them) — except C35_redacted_secret_slots "
        "(round trip faithful or failing)",
        "'original unchanged': C35_original_unchanged is about a memory model with aliasing (struct by value, lists by reference); "
        "which lists are detached before being written is a regenerated behavioural fact; DeepEqual with a twin on every differential case",
    ],
    manifest=dict(
        category="proof",
        text="Lean theorems: every secret-class leaf of the regenerated Config schema is redacted (C35_covers, decide on regenerated tables); "
             "non-interference of String() in the secret values for ALL configurations and ANY behaviour of the YAML round trip "
             "(C35_noninterference), fail-closed; model tied to the code by reflection-generated facts and a differential run of String()",
        design_ref="DESIGN.md section 5 C35",
        note="Lean kernel; string-leaf abstraction of Config; regenerated schema/redacted-path tables; T-diff generator coverage",
        technique="Lean 4 proof (finite decide on regenerated tables + non-interference) + differential correspondence harness",
    ),
)


def before_diff(c):
    """When the theorems no longer build (e.g. C35_covers fails because a redact call disappeared) the
    oracle — which depends on the model only — is still built, so that the differential run and the
    executable statement can produce a concrete leaking configuration."""
    import os
    import shutil
    import vlib

    # informational: where else a config is serialised (not an obligation — see assumptions)
    import re
    sites = []
    for top in ("cmd", "internal"):
        for dp, _dn, fns in os.walk(os.path.join(vlib.REPO, top)):
            for fn in fns:
                if fn.endswith(".go") and not fn.endswith("_test.go") and not fn.startswith("zz_verif"):
                    path = os.path.join(dp, fn)
                    rel = os.path.relpath(path, vlib.REPO)
                    if rel == "internal/config/config.go":
                        continue
                    for n, line in enumerate(open(path, errors="replace"), 1):
                        if re.search(r"yaml\.Marshal\(\s*&?\w*[cC]fg\w*\)|yaml\.Marshal\(\s*&?\w*[cC]onfig\w*\)|\.StringUnsafe\(\)|\.Redacted\(\)", line):
                            sites.append("%s:%d" % (rel, n))
    c.p.setdefault("extra_coverage", {})["c35_other_config_serialisers"] = sorted(sites)

    if getattr(c, "lake_ok", True) or not c.harness or "c35" in c.drivers:
        return
    ok, _out, _failed = vlib.lake_build(["drv_c35"])
    src = os.path.join(vlib.LEAN, ".lake", "build", "bin", "drv_c35")
    if ok and os.path.exists(src):
        dst = os.path.join(c.tmp, "drv_c35")
        shutil.copy2(src, dst)
        c.drivers["c35"] = dst
