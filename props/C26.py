PROP = dict(
    id="C26",
    engines=["c26"],
    go_tags=["c26"],
    lean_modules=["MM.Props.C26"],
    theorems=[
        "MM.C26.C26_empty_allows_nothing",
        "MM.C26.C26_empty_touches_nothing",
        "MM.C26.C26_lexical",
        "MM.C26.C26_prefix_componentwise",
        "MM.C26.C26_glob_ancestor",
        "MM.C26.C26_refuted",
        "MM.C26.C26_partial",
        "MM.C26.C26_partial_upload",
        "MM.C26.C26_partial_delete_recursive",
        "MM.C26.C26_password_required",
    ],
    spec=True,
    chunk=6000,
    timeout=1800,
    rule="cases = allowed_paths from 20 pattern sets (plain directory, dir/**, dir/*, globs with ? [a-c] [^p] *.txt, malformed classes, escapes, "
         "relative and empty lists, the wildcard) x a real directory tree (allowed area /data, outside areas /secret /etc, a random subset of 13 "
         "symbolic links: to a parent, to outside (relative and absolute), to files, dangling, self loop, chains; a hard link) x 4-13 requests "
         "(validate, download, upload, browse list / stat / chmod / delete with and without recursive) on 37 paths through and around the links, "
         "15% mutated (trailing slash, '/.', doubled slashes, NUL / DEL / C1 control bytes, tab, relative, '..x', lexical '..', decomposed Unicode, "
         "invalid UTF-8, case, empty) and long names (255-byte components); plus pure validation of 22 pattern forms x 30 path forms; the real "
         "StreamHandler is run on a real sandbox; compared with the Lean model: error class, which physical file was read (by its unique content), "
         "directory entries returned, and the physical paths whose content / existence / mode changed; non-trivial = the request passed validatePath",
    nontrivial=lambda op, out: op.split(" ")[0] in ("val", "dl", "ul", "ls", "st", "cm", "rm") and not out.startswith(("err invalid", "err disabled", "err pathrequired")),
    trusted_base=[
        "the filesystem (MM/Model/C27.lean), path/filepath.Clean, Match, Dir, EvalSymlinks and unicode/utf8 decoding are MODELLED and validated by the correspondence run only",
        "Unicode NFC (golang.org/x/text) is a parameter of the model; the harness passes the library's result for each request path; patterns are ASCII",
        "the sandbox root is written '@' in scripts: the model works with paths relative to it (patterns never match above it)",
        "the password check is modelled with bcrypt as an abstract predicate (real bcrypt hashes in T-diff); MaxFileSize is modelled for uploads (declared size, and the "
        "copy limit that leaves MaxFileSize+1 bytes on disk) and downloads; both are exercised by T-diff with sizes around the limit",
    ],
    assumptions=[
        "C26_partial: request path already clean, no '..', no trailing slash, no component of it is a symbolic link; operations download, list, stat, chmod, non-recursive delete",
        "C26_partial_upload additionally assumes the filesystem is a tree; the parent directories an upload creates are prefixes of the validated path and need not "
        "be inside the allowed paths themselves; directory transfers (tar) are covered by C27",
    ],
    manifest=dict(
        category="proof",
        text="The pinned code violates the statement (open finding C26-symlinked-path-component): Lean theorem C26_refuted refutes C26_statement from a "
             "concrete witness (download through a symbolic link in a parent component), replayed on the real code on every run together with "
             "upload / list / chmod / delete variants. Proved for ALL inputs: C26_empty_allows_nothing / C26_empty_touches_nothing, C26_lexical, "
             "C26_prefix_componentwise, C26_glob_ancestor (every accepted path is lexically inside an allowed pattern, component-wise for prefix "
             "patterns) and C26_partial (no symbolic link on a clean requested path => the operation touches exactly that path or its hard links). "
             "validatePath / filepath.Match / Clean and each operation's filesystem calls are modelled and tied to the code by a differential run on "
             "real trees with symbolic links",
        design_ref="DESIGN.md section 5 C26",
        note="open finding; Lean kernel; OS / filepath / NFC modelled or parameterised, not verified; generator coverage",
        technique="Lean 4 proof (refutation by evaluation on a witness + partial theorems) + differential correspondence harness on real directories",
    ),
)
