PROP = dict(
    id="C26",
    disabled=True,
    engines=["c26"],
    go_tags=["c26"],
    lean_modules=["MM.Props.C26"],
    theorems=[
        "MM.C26.C26_empty_allows_nothing",
    ],
    spec=True,
    chunk=6000,
)
