PROP = dict(
    id="C33",
    engines=["c33"],
    go_tags=["c33"],
    gen_files={},
    lean_modules=["MM.Props.C33"],
    theorems=[
        "MM.C33.C33_fits",
        "MM.C33.C33_once_per_cycle",
        "MM.C33.C33_next_is_earliest_unended",
        "MM.C33.C33_active_sound",
        "MM.C33.C33_refuted",
        "MM.C33.C33_partial",
        "MM.C33.C33_trunc_refuted",
    ],
    spec=True,
    rule="one op = one (agent id, cycle, window, tolerance, epoch, instant): cycle from {1 ns .. 2^62 ns, realistic 1 s..24 h, random}; window "
         "incl. 0, C-1, >=C (constructor clamp); tolerance incl. 0, 1, >= gap; epoch incl. zero-Time, Unix, 2020, 2030, far past; instant aimed at "
         "every boundary (cycle start, window start/end, safe start/end, midpoint, inside trailing tolerance) +-1 ns in cycles -3..+3 and "
         "+-10^6 cycles, plus instants beyond the Duration range (Sub saturates). NextWindow/GetWindowInfo/IsInWindow/TimeUntilWindow/"
         "PreviousWindow of the real package vs the Lean model; plus STATEFUL cases: one WindowCalculator per case (`reset`) queried 6-30 times, "
         "non-monotonically in time (later, then one or more cycles earlier, exactly +-1/2 cycles from the previous instant, the same instant "
         "twice, across the epoch) with 1-3 agent ids interleaved - the answers must equal the stateless model whatever was asked before; non-trivial = instant within the Duration range of the epoch (theorem hypotheses met)",
    nontrivial=lambda op, out: out.startswith("ok "),
    trusted_base=[
        "MM/Model/C33.lean models time.Time.Sub (saturating), int64 multiplication wrap and Go's truncating / and % as explicit primitives; "
        "time.Time.Add is modelled as exact addition",
        "seedFromAgentID is re-implemented in the Lean engine (XOR of the big-endian halves) and checked by T-diff through the offsets",
    ],
    assumptions=[
        "0 < CycleLength < 2^63 ns, 0 <= WindowLength, 0 <= ClockTolerance (struct Valid)",
        "-2^63 ns + CycleLength <= t - epoch < 2^63 ns (about +-292 years around the epoch) - hypotheses hlo/hhi of the theorems",
    ],
    manifest=dict(
        category="proof",
        text="Lean theorems C33_next_is_earliest_unended, C33_once_per_cycle, C33_fits, C33_active_sound over an Int-nanosecond model of "
             "internal/sleep/window.go with Go's truncating division, for ALL agent seeds, instants before and after the epoch, cycle/window/"
             "tolerance values; in-window completeness refuted on the code (C33_refuted: trailing tolerance never applies, open finding) and "
             "proved outside that region (C33_partial); model tied to the code by a differential run of the real WindowCalculator",
        design_ref="DESIGN.md section 5 C33",
        note="Lean kernel; model of time.Time Sub/Add and int64 wrap; T-diff generator coverage; instants within +-292 years of the epoch",
        technique="Lean 4 proof (integer arithmetic, floor division from truncating division) + differential correspondence harness",
    ),
)
