PROP = dict(
    id="C20",
    engines=["c20"],
    go_tags=["c20"],
    gen_files={"MM/Gen/C20.lean": "c20"},
    lean_modules=["MM.Props.C20"],
    theorems=[
        "MM.C20.C20_tie",
        "MM.C20.C20_target",
        "MM.C20.C20_target_unique",
        "MM.C20.C20_unknown_no_dial",
        "MM.C20.C20_unknown",
        "MM.C20.C20_known",
        "MM.C20.reserved_not_forward",
        "MM.C20.C20_dispatch_iff",
        "MM.C20.C20_end_to_end",
        "MM.C20.C20_ingress_roundtrip",
        "MM.C20.C20_ingress_long_key",
    ],
    spec=True,
    rule="cases = a forward.Handler configured with 0..40 endpoints (keys from a pool with case/whitespace/NUL/prefix variants, empty key, "
         "duplicates, random bytes, 255..65537-byte keys) whose targets are 6 real loopback listeners and 2 dead addresses, connection limit "
         "in {unlimited,-1,1,2,3,1000}, started or not; ops: HandleStreamOpen with configured keys and near-misses, HandleStreamOpen RE-USING a live (or closed) stream id with the same / another "
         "configured / unknown / near-miss key, a data token encrypted under the session of the last ACKed open sent through "
         "HandleStreamData to see WHICH listener reads it, HandleStreamClose, Start, "
         "and STREAM_OPEN frames through Agent.handleStreamOpen (exact and near-miss `forward:` prefixes, other address types, path "
         "none/self/other/two hops), and the INGRESS side: a second real agent (agent.New, not started) with a learned route runs "
         "Agent.DialForward(key) and the STREAM_OPEN it emits is handed byte for byte to the exit agent (keys incl. 246..255 bytes, around the "
         "one-byte address length); the listener that accepted the connection (matched by source port to the ACK) is the observed dial "
         "target; any unattributed accepted connection is reported as stray; non-trivial = open/agent ops",
    nontrivial=lambda op, out: op.startswith(("open", "agent", "ingress", "reopen", "data")),
    trusted_base=[
        "MM/Model/C20.lean models the decision part of HandleStreamOpen (running, limit, map lookup) and the address dispatch of "
        "Agent.handleStreamOpen; the dial itself (net.Dialer) is observed, not modelled",
        "prefix, reserved names, address type and error codes regenerated from the compiled packages (MM/Gen/C20.lean)",
    ],
    assumptions=[
        "forward handles TCP only (internal/forward has no UDP path); forward.Listener passes its configured key verbatim to "
        "ForwardDialer.DialForward (read; the T-diff enters at Agent.DialForward)",
        "observation: DialForward writes the address length as byte(len) without a bound, so a listener key of 248..255 bytes is truncated on "
        "the wire and can never connect (C20_ingress_long_key: it is never taken for a forward request); keys longer than 255 bytes cannot "
        "be routed (route advertisements carry a one-byte key length)",
        "absence of a dial is observed as: no listener accepted a connection up to the end of the case (targets are loopback listeners)",
    ],
    manifest=dict(
        category="proof",
        text="Lean theorems C20_target / C20_unknown / C20_dispatch_iff / C20_end_to_end over a model of the forward-key lookup and the "
             "STREAM_OPEN dispatch for ALL keys and ALL endpoint configurations; model tied to forward.Handler and Agent.handleStreamOpen by "
             "a differential run against real loopback listeners",
        design_ref="DESIGN.md section 5 C20",
        note="Lean kernel; decision-level model; regenerated constants; T-diff generator coverage",
        technique="Lean 4 proof (map-lookup lemmas, prefix dispatch) + differential correspondence harness with real sockets",
    ),
)


def before_diff(c):
    """Keep the oracle available when regenerated constants break the theorems (see props/C35.py)."""
    import os
    import shutil
    import vlib

    if getattr(c, "lake_ok", True) or not c.harness or "c20" in c.drivers:
        return
    ok, _out, _failed = vlib.lake_build(["drv_c20"])
    src = os.path.join(vlib.LEAN, ".lake", "build", "bin", "drv_c20")
    if ok and os.path.exists(src):
        dst = os.path.join(c.tmp, "drv_c20")
        shutil.copy2(src, dst)
        c.drivers["c20"] = dst
