PROP = dict(
    id="C07",
    engines=["c07", "c07b"],
    go_tags=["c07"],
    gen_files={"MM/Gen/C07.lean": "c07"},
    extract_files={"MM/Gen/C07Ast.lean": {"cmd": ["go", "run", "{VERIF}/tools/c07_extract.go"]}},
    lean_modules=["MM.Props.C07"],
    theorems=[
        "MM.C07.C07_chunks_concat",
        "MM.C07.C07_chunk_le",
        "MM.C07.C07_frame_le",
        "MM.C07.C07_no_refusal",
        "MM.C07.C07_reassemble_pieces",
        "MM.C07.C07_reassemble",
        "MM.C07.C07_premise_necessary",
        "MM.C07.C07_model_lens",
        "MM.C07.C07_send_lens",
        "MM.C07.C07_gen_agree",
        "MM.C07.C07_shell_seal_send_atomic",
        "MM.C07.C07_tcp",
        "MM.C07.C07_exit",
        "MM.C07.C07_fwd",
        "MM.C07.C07_shout",
        "MM.C07.C07_sherr",
        "MM.C07.C07_shpty",
        "MM.C07.C07_shin",
        "MM.C07.C07_fup",
        "MM.C07.C07_fdown",
        "MM.C07.C07_all",
        "MM.C07.C07_reassemble_writes",
        "MM.C07.C07_tcp_writes",
        "MM.C07.C07_shin_messages",
        "MM.C07.C07_old_shell_stdin_refuted",
        "MM.C07.C07_old_shell_buffer_refuted",
    ],
    spec=True,
    timeout=900,
    rule="engine c07b (added after two seeded bugs were missed): fw/wf/conn drive protocol.FrameWriter.Write, WriteFrame and peer.Manager.SendToPeer->Connection.WriteFrame "
         "with payloads 0..1 MiB around 16383/16384/16385 and require an error or bytes the real FrameReader accepts with payload <= 16384; msg drives the "
         "senders that put ONE sealed/encoded message into a frame without chunking (forwardShellClientData with a non-STDIN message, SendControlRequestWithData, "
         "sendControlResponse, and the real client entry points OpenShellStream / UploadFile / DownloadFile whose STREAM_OPEN is acknowledged through the real stream manager so that they seal and send their metadata message with a 10..70000-byte argument/path) with 0..200000-byte messages and requires no frame > limit on the wire; stall pushes the frames of a 0.16-16 MB transfer from a "
         "goroutine through the REAL Agent.handleStreamData -> stream.Manager.HandleStreamData -> Stream.PushData into a stream of the agent's stream manager while "
         "the application (meshConn.Read) stalls 0-7 s with up to 1000 frames in flight (one 3 s stall with 199 frames in quick) and requires the bytes read to equal "
         "the bytes sent; nf = delivery WITHOUT a following FIN: writes of 1/16355/16356/16357/32712/32768/49068/... bytes and multi-write patterns ending exactly on a frame boundary, through the real exit and forward Handler.HandleStreamOpen (dialing a loopback listener; initiator key from the handler's own STREAM_OPEN_ACK) + HandleStreamData, through Agent.handleStreamData->meshConn.Read, and through shell.Handler.HandleStreamData->stdin, must be held by the far end within 2 s with the tunnel left open. Engine c07: "
         "op = (data path, write size n, source granularity cap, EOF style); n swept over 0,1,2,100,4095..4097, every boundary "
         "MaxPayloadSize-100-28+-1, MaxPayloadSize-28-2..+1, MaxPayloadSize-1..+1, +28, +29, 2x and 3x multiples, 64 KiB, 100000, 1 MiB "
         "(thorough: random sizes, 40 writes of 1-4 MiB, 4 MiB on every path); cap in {unlimited,1000,4096,16355,16356,16357,16384,32768,random}; "
         "each op runs the path's REAL sender (meshConn.Write, exit/forward readLoop, shell pumpStdout/pumpStderr/pumpPTYOutput, "
         "forwardShellClientData, streamFileContent, sendFileDownload) through the real peer manager / FrameWriter / Frame.Encode into a "
         "capture buffer, parses the bytes back with the real FrameReader, opens every data frame with the peer half of a real "
         "X25519/HKDF/ChaCha20-Poly1305 session AND feeds the frames to the path's real far-end receiver; compared field by field (frame count, every payload length, far-end result) with the Lean "
         "model; non-trivial = at least one data frame was written",
    nontrivial=lambda op, out: " data=0 " not in out,
    trusted_base=[
        "MM/Model/C07.lean: ideal AEAD (a ciphertext is `overhead` bytes longer than its plaintext and opens iff presented whole); "
        "the source is modelled by the list of pieces it delivers (theorems quantify over ALL piece lists within the buffer size)",
        "numbers regenerated on every run: MM/Gen/C07.lean measured on the compiled code (len(p) offered to Read, largest sealed message, "
        "WriteStreamData slice, Encrypt growth, constants) and MM/Gen/C07Ast.lean evaluated by go/parser from the make([]byte, N) / "
        "`end := offset + STEP` expressions in the sender functions; C07_gen_agree proves the two agree",
        "harness/exports/*/c07.go accessors construct the senders' surrounding structs (ShellStream, ActiveConnection, meshConn, "
        "fileTransferStream) without the open handshake",
    ],
    assumptions=[
        "frames are delivered to the far end in order and unmodified (transport + relay forwarding are C16-C18's subject)",
        "shell stdin is modelled from the point where handleShellWebSocket queues a client message (any size) for "
        "Agent.forwardShellClientData; the CLI's own stdin loop (shell.Client.pumpStdin, 4096-byte reads, needs a terminal and a "
        "WebSocket) is not executed, its buffer size is only recorded in MM/Gen/C07Ast.lean",
        "control messages that are sealed whole and passed to WriteStreamData (file-transfer metadata, shell META/ACK/ERROR/EXIT) are "
        "checked against the frame limit in the differential run (ctl=ok) but are not part of the re-assembly theorem",
        "receivers' buffering after a frame is opened is exercised by the differential run (real meshConn.Read with odd buffer sizes, "
        "exit.HandleStreamData, handleShellClientData, shell.HandleStreamData, receiveEncryptedStreamData) but not modelled; "
        "ShellStreamAdapter.PushReceive drops a message when the WebSocket consumer stalls for 100 ms with 64 messages queued (timing, outside C07's model)",
    ],
    manifest=dict(
        category="proof",
        text="Lean theorems C07_frame_le (every frame of every path <= MaxPayloadSize, unconditionally) and C07_reassemble/C07_all "
             "(every write of every size, however the source splits it, is re-assembled exactly at the far end) over a model of the "
             "chunk+seal+WriteStreamData+Encode pipeline; per-path premises decided on numbers regenerated from the source and the "
             "compiled code; model tied to the code by a differential run of all nine real senders against a capturing peer",
        design_ref="DESIGN.md section 5 C07",
        note="Lean kernel; ideal-AEAD abstraction; T-diff generator coverage (sizes to 4 MiB); in-order lossless frame delivery assumed",
        technique="Lean 4 proof (induction over pieces; decide on regenerated constants) + AST/measured facts + differential correspondence harness",
    ),
)


def before_diff(c):
    """When a theorem's premise is false on the tree under examination (MM.Props.C07 does not build), the model and
    its driver are still fine: build the driver on its own so that the differential run and the failing-input search
    go ahead and the replay carries a concrete write that breaks the property."""
    import os, shutil, sys
    vlib = sys.modules["vlib"]
    if getattr(c, "lake_ok", True) or "c07" in c.drivers or not c.harness:
        return
    ok, out, _failed = vlib.lake_build(["drv_c07"])
    src = os.path.join(vlib.LEAN, ".lake", "build", "bin", "drv_c07")
    if ok and os.path.exists(src):
        dst = os.path.join(c.tmp, "drv_c07")
        shutil.copy2(src, dst)
        c.drivers["c07"] = dst
    else:
        c.oblige("lean:drv_c07-standalone", "thm", False, out[-1500:])
