import os, re


def before_diff(c):
    """Source facts the model relies on (agent wiring that the harness replicates in three lines)."""
    import vlib
    def src(rel):
        return open(os.path.join(vlib.REPO, rel)).read()
    ag = src("internal/agent/agent.go")
    sv = src("internal/socks5/server.go")
    facts = [
        ("agent passes buildSOCKS5Auth() to socks5.NewServer",
         re.search(r"auths := a\.buildSOCKS5Auth\(\)\s*\n\s*socksCfg := socks5\.ServerConfig\{[^}]*Authenticators:\s*auths,", ag)),
        ("agent gives the WebSocket listener the credential store iff auth is enabled",
         re.search(r"if a\.cfg\.SOCKS5\.Auth\.Enabled \{\s*\n\s*wsCfg\.Credentials = a\.buildSOCKS5CredentialStore\(\)\s*\n\s*\}", ag)),
        ("buildSOCKS5Auth asks for Enabled+Required authenticators",
         re.search(r"CreateAuthenticators\(socks5\.AuthConfig\{\s*Enabled:\s*true,\s*Required:\s*true,", ag)),
        ("the WebSocket listener serves with the TCP server's handler",
         re.search(r"NewWebSocketListener\(cfg, s\.handler\)", sv)),
        ("NewServer builds its handler from cfg.Authenticators",
         re.search(r"handler:\s*NewHandler\(cfg\.Authenticators, cfg\.Dialer\)", sv)),
    ]
    for name, ok in facts:
        c.oblige("source-fact: " + name, "tie", bool(ok), "" if ok else "pattern not found in the current source")


PROP = dict(
    id="C21",
    engines=["c21"],
    go_tags=["c23", "c21"],
    gen_files={},
    lean_modules=["MM.Props.C21"],
    theorems=[
        "MM.C21.enabled_auths",
        "MM.C21.credStore_valid",
        "MM.C21.C21_holds",
        "MM.C21.C21_ws",
        "MM.C21.C21_ws_gate",
        "MM.C21.C21_ws_any_gate",
        "MM.C21.C21_no_usable_user",
        "MM.C21.C21_strict_refuted",
    ],
    spec=True,
    rule="op a = (auth enabled?, user list, client byte stream) through Agent.buildSOCKS5Auth -> socks5.NewServer -> Handler.Handle with recording dialer/UDP/ICMP back-ends; "
         "user lists: empty, only unusable entries, plaintext, bcrypt (cost 4, real hashes), both, mixed, duplicate names, junk hash, empty password/name; "
         "streams: method offers {0},{2},{0,2},{2,0},{1,0,2},{},{1} x skipped / malformed / wrong / right credentials x CONNECT/UDP/ICMP/BIND, truncations; "
         "op w = HTTP Basic gate of the WebSocket listener with Agent.buildSOCKS5CredentialStore; op ws = the real WebSocket listener (Server.StartWebSocket, plaintext on loopback) and a real nhooyr client "
         "(socks5 subprotocol, Basic header, SOCKS5 stream cut into several binary frames, server frames collected), gate x SOCKS5 credentials; listener configuration: HTTP store {none, the agent's, another user list} x Authorization {absent, right, wrong password, other user, malformed} x RFC 1929 {right, wrong, empty}; "
         "bcrypt key-length classes on all three paths: stored passwords of 71/72 bytes and 'ab', presented 70/71/72/73/200 bytes sharing the prefix and the NUL forms; non-trivial = a command was executed or a credential check was reached",
    nontrivial=lambda op, out: ("a none" not in out and out.startswith("r ")) or ",0101" in out or ",0100" in out or out in ("pass", "401"),
    trusted_base=[
        "bcrypt is an abstract predicate in the proofs; the engine instantiates it as 'the hash was generated from exactly this password' and T-diff runs real bcrypt (cost 4)",
        "MM/Model/C23.lean (handler model, tied by engine c23) and the scripted connection of harness/main/c23_lib.go",
        "five source facts about the agent's wiring checked by regular expression on every run (props/C21.py before_diff)",
    ],
    assumptions=[
        "bcrypt uses only the first 72 bytes of password+NUL (cyclically extended): the engine's bcrypt stand-in reproduces exactly that equivalence; in the theorems bcrypt is an arbitrary predicate",
        "the WebSocket transport is exercised for real by op ws (handshake, subprotocol, Basic gate, binary framing); in the model it is the gate followed by the same Handler.Handle",
        "ws harness synchronisation: a WebSocket ping sent after the input is the barrier (the server answers it from inside the handler's next Read, frames are ordered; a server-side close ends the wait too); own listener on port 0 per op, stopped and waited for before the op returns; deadlines 5 s -> `timeout ws-ping` / `timeout ws-close`",
        "equality-level matching fails for bcrypt itself (open finding C21-bcrypt-equivalent-password, C21_strict_refuted); C21_holds reads 'matching' as 'the configured hash verifies the presented password'",
    ],
    manifest=dict(
        category="proof",
        text="Lean theorem C21_holds: for every user list (including empty / unusable), every bcrypt predicate, every environment and every client byte stream, "
             "auth enabled and a CONNECT/UDP/ICMP action imply that the stream carried RFC 1929 credentials of a configured user whose password (hash) they match; "
             "C21_ws / C21_ws_gate the same behind the WebSocket gate; model of the FIXED code tied by a differential run through the agent's own construction path",
        design_ref="DESIGN.md section 5 C21",
        note="Lean kernel; bcrypt abstract; handler model C23; agent wiring facts by regex; T-diff generator coverage",
        technique="Lean 4 proof (inversion of the authentication phase) + differential correspondence harness",
    ),
)
