PROP = dict(
    id="C17",
    engines=["c17", "c17r"],
    go_tags=["c17"],
    extract_files={"MM/Gen/LockC16.lean": {"cmd": ["go", "run", "{VERIF}/tools/lockshape.go", "LockC16",
        "{REPO}/internal/agent/relay_table.go",
        "relayTable.Insert,relayTable.Delete,relayTable.LookupBoth,relayTable.LookupDownstream,relayTable.PopDownstreamFromPeer,relayTable.PopMatchingPeer,relayTable.DeleteByPeer",
        "mu", "byUpstream,byDownstream"]}},
    lean_modules=["MM.Props.C17"],
    theorems=[
        "MM.C16.C16_lock_table_methods_atomic",
        "MM.C17.C17_disconnect_clean",
        "MM.C17.C17_no_orphans",
        "MM.C17.C17_agent_disconnect_clean",
        "MM.C17.C17_pinned_udp_leak",
        "MM.C17.C17_udp_close_pops_relay",
        "MM.C17.C17_count_matches",
        "MM.C17.C17_handlers_return_to_empty",
        "MM.C17.C17_late_teardown_spares_newer_record",
        "MM.C17.C17_failed_open_keeps_count",
        "MM.C17.C17_limit",
        "MM.C17.C17_refuted_relay_orphan",
    ],
    spec=True,
    chunk=3000,
    rule="engine c17: histories on the real exit.Handler and forward.Handler (recording StreamWriter, real loopback TCP destination): opens "
         "from several peers with per-peer allocator ids (collisions) or globally distinct ids, data under the right / a foreign session key, "
         "close, reset, destination EOF, double close, re-open of a closed id, opens that must be refused of every kind (all-zero / low-order ephemeral key, destination not allowed, unresolvable domain, dial refused, unknown forward key, MaxConnections=6 reached) under fresh and live ids; ConnectionCount() and the map keys are printed after every op. "
         "engine c17r: the relay dispatch engine of C16 (tcp/udp/icmp opens, frames from both legs, disconnects, final teardown + `end`). "
         "configuration matrix (extra): 8 further real agents, one per (exit, udp, icmp) on/off combination, each relaying one tunnel of every kind; after the upstream peer disconnects all three relay tables must be empty (op `tworld`). "
         "non-trivial = the op changed a table/map or produced an event",
    nontrivial=lambda op, out: not op.startswith(("reset", "t.both", "t.down")) and ("ev=[]" not in out) and ("sent=[] " not in out or op.startswith(("disc", "close", "rst", "err", "t."))),
    trusted_base=[
        "MM/Model/C17.lean models connections/connCount of internal/exit/handler.go and internal/forward/handler.go (dial, DNS, sockets are real in "
        "T-diff, abstract in the model: a successful dial is an `opened` event, a destination close is a `dstEof` event)",
        "MM/Model/C16.lean models relayTable and handlePeerDisconnect→cleanupRelaysForPeer",
        "harness waits for read-loop goroutines to settle by counting them in the goroutine profile (no sleeps)",
    ],
    assumptions=[
        "idle timers are not modelled: a record whose destination never closes and whose peer never closes stays (by design until IdleTimeout)",
        "exit/forward handlers have no peer-disconnect hook; their records end by destination EOF, idle timeout or close/reset frames",
    ],
    manifest=dict(
        category="proof",
        text="Lean theorems: after a peer disconnect no relay index (TCP/UDP/ICMP) holds a record of that peer and no orphan remains "
             "(C17_disconnect_clean, C17_agent_disconnect_clean, C17_no_orphans); connCount = len(connections) for every Distinct history "
             "(C17_count_matches); refutation without Distinct (C17_refuted, C17_refuted_relay_orphan); models tied to the real relayTable, "
             "agent dispatch, exit.Handler and forward.Handler by differential runs",
        design_ref="DESIGN.md section 5 C17",
        note="Lean kernel; map-level model of the handlers; Distinct hypothesis (bare stream-id keys are an open finding shared with C16)",
        technique="Lean 4 proof (invariants over association-list maps) + differential correspondence harness",
    ),
)


def extra(c):
    """Disconnect cleanup must not depend on which exit features the agent itself is configured with: a transit relays
    TCP, UDP and ICMP tunnels whatever its own exit/udp/icmp settings are (C17_agent_disconnect_clean quantifies over
    every table).  Engine op `tworld e u i`: a second real agent per configuration, one relayed tunnel of every kind
    from peer 1 towards peer 2, peer 1 disconnects; sizes of the three relay tables (both indexes) before/after."""
    if not c.harness:
        return
    ops = ["tworld %d %d %d" % (e, u, i) for e in (0, 1) for u in (0, 1) for i in (0, 1)]
    out = c.go_run("c17r", ops, timeout=300)
    want = "before 2/2/2 after 0/0/0"
    bad = [k for k, o in enumerate(out) if o != want]
    c.oblige("config-matrix:relay-tables-empty-after-disconnect", "tie", not bad,
             ("%s -> %s (expected %s)" % (ops[bad[0]], out[bad[0]], want)) if bad else "%d configurations" % len(ops))
    if bad:
        k = bad[0]
        c.violate("relay records of a disconnected peer remain on an agent configured with (exit, udp, icmp) = %s: %s"
                  % (ops[k].split(" ", 1)[1], out[k]),
                  {"engine": "c17r", "origin": "config matrix", "ops": [ops[k]], "impl_outputs": [out[k]], "expected": want}, True)
