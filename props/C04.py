PROP = dict(
    id="C04",
    engines=["c04"],
    go_tags=["c04"],
    gen_files={"MM/Gen/C04.lean": "c04"},
    extract_files={
        "MM/Gen/LockC04u.lean": {"cmd": ["go", "run", "{VERIF}/tools/lockshape.go", "LockC04u", "{REPO}/internal/udp/association.go",
            "Association.SetSessionKey,Association.GetSessionKey,Association.Encrypt,Association.Decrypt,Association.Close", "mu", "SessionKey"]},
        "MM/Gen/LockC04i.lean": {"cmd": ["go", "run", "{VERIF}/tools/lockshape.go", "LockC04i", "{REPO}/internal/icmp/session.go",
            "Session.SetSessionKey,Session.GetSessionKey,Session.Encrypt,Session.Decrypt,Session.Close", "mu", "SessionKey"]},
    },
    lean_modules=["MM.Props.C04", "MM.Props.C04Lock"],
    theorems=[
        "MM.C04.C04_same_key",
        "MM.C04.C04_payload_sealed",
        "MM.C04.C04_key_not_on_wire",
        "MM.C04.C04_transit_reads_nothing",
        "MM.C04.C04_coverage_complete",
        "MM.C04.sealed_any_phase",
        "MM.C04.C04_payload_sealed_each",
        "MM.C04.C04_active_refuted_mitm",
        "MM.C04.C04_pinned_zero_key_downgrade",
        "MM.C04.C04_ingress_fixed_zero_key",
        "MM.C04.C04_active_partial",
        "MM.C04.C04_pinned_fallback_kinds",
        "MM.C04.C04_tie_udp_key_guarded",
        "MM.C04.C04_tie_icmp_key_guarded",
    ],
    spec=True,
    chunk=200,
    timeout=600,
    rule="unit ops on the real code: SessionKey.Encrypt, udp.Association.Encrypt and icmp.Session.Encrypt with and without a session key on random payloads "
         "(0..40000 bytes), agent.deriveICMPSessionKey / deriveResponderSessionKey with an all-zero and an honest remote key; mesh ops: three real agents "
         "in-process (SOCKS5 ingress - transit - exit, loopback QUIC) with a tap on every frame the transit receives; tunnels: SOCKS5 CONNECT and configured port "
         "forward (32 B..64 KiB, thorough 1 MiB), SOCKS5 UDP ASSOCIATE (32..1400 B), file upload+download (32 B..70 KB), remote shell echo; random payloads; "
         "plus an ACTIVE transit for UDP (the tap zeroes the key fields of UDP_OPEN / UDP_OPEN_ACK before relaying), a destination that hangs up in the middle of "
         "multi-frame writes (mesh tcpclose), and for every relayed data frame: opens under the tunnel's real key (tcp/fwd) and NOT under the all-zero key; "
         "handler-level cases on the real exit/forward/udp/shell handlers with a capturing writer (duplicate open, re-open after close, same request id on "
         "another stream, k-th write fails once then recovers): nothing written contains the payload or fails to authenticate under the tunnel key; "
         "output = echoed, number of tapped frames containing the payload, per direction the plain byte count of the data frames (length - 28) and header "
         "prefix/counter sequence; all ops non-trivial",
    trusted_base=[
        "symbolic secrecy: X25519/HKDF/ChaCha20-Poly1305 are ideal (a sealed term reveals nothing without its key) — assumed, partial by nature",
        "the tap (harness/exports/internal__agent/c04.go) wraps the transit's frame callback; it sees what processFrame sees",
        "the mesh ops cover TCP, port forward, UDP, file transfer and shell tunnels; ICMP (needs raw-socket privileges) is covered by the unit ops, the model and C03's call-site table only",
    ],
    assumptions=[
        "honest ingress and exit; the transit relays open/ack frames unmodified (the active variant is refuted: see C04_active_refuted_mitm / C04_pinned_zero_key_downgrade)",
        "C04_active_partial: an exit in plaintext mode has bytes to relay downstream only in answer to datagrams / echo requests the ingress relayed "
        "(UDP replies, ICMP echo replies) — gating in wireWith",
        "which zero-key table describes the tree is probed on the compiled code (MM/Gen/C04.lean) and used by the engine's predictions; the theorems hold for every table",
    ],
    manifest=dict(
        category="proof",
        text="Lean theorems over a symbolic model of all six tunnel kinds: behind a relaying transit every application chunk is sealed under the session key "
             "(C04_payload_sealed), no key material is ever a frame field for any transit behaviour (C04_key_not_on_wire), the transit reads no application atom "
             "(C04_transit_reads_nothing); the active variant is machine-refuted by key substitution (ephemeral keys are unauthenticated) with C04_active_partial "
             "(ingress never falls back + forward-or-zero tampering => nothing leaks, all kinds) as the true restriction and C04_pinned_zero_key_downgrade as the "
             "witness for the pinned UDP/ICMP fallback; tied to the code by unit-level differential ops and a 3-agent in-process mesh with a transit tap",
        design_ref="DESIGN.md section 5 C04",
        note="symbolic model (computational secrecy assumed); mesh tap covers tcp/forward/udp/file/shell tunnels, not ICMP; key-substituting transit out of scope of the proved statement",
        technique="Lean 4 proof (symbolic model) + differential correspondence harness (unit ops + in-process mesh tap)",
    ),
)


def before_diff(c):
    """If a theorem (e.g. a regenerated-fact tie) no longer compiles, the drivers were not picked up by
    the shared build stage. Build just the engines so that the differential run and the failing-input
    search still happen (the failed theorem stays a failed obligation)."""
    import os, shutil
    import vlib
    if getattr(c, "lake_ok", True) or not c.harness:
        return
    engines = PROP.get("lean_engines", PROP.get("engines", []))
    ok, _out, _failed = vlib.lake_build(["drv_" + e.lower() for e in engines])
    if not ok:
        return
    for e in engines:
        src = os.path.join(vlib.LEAN, ".lake", "build", "bin", "drv_" + e.lower())
        if os.path.exists(src):
            dst = os.path.join(c.tmp, "drv_" + e.lower())
            shutil.copy2(src, dst)
            c.drivers[e] = dst
