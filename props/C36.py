PROP = dict(
    id="C36",
    engines=["c36"],
    go_tags=["c36"],
    gen_files={"MM/Gen/C36.lean": "c36"},
    lean_modules=["MM.Props.C36"],
    theorems=[
        "MM.C36.C36_xor_involutive",
        "MM.C36.footerSize_tie",
        "MM.C36.C36_roundtrip",
        "MM.C36.C36_strip",
        "MM.C36.readEmbedded_safe",
        "MM.C36.originalSize_safe",
        "MM.C36.strip_safe",
        "MM.C36.C36_total",
    ],
    spec=True,
    rule="files = random body x chosen trailer length (0,1,size-17..size+1,2^31,2^63-1,2^63,2^63+1,2^64-16..2^64-1,random) x magic "
         "present/corrupted/truncated, plus honest AppendConfig outputs; ops read/strip/size/has/append run on the real embed package "
         "(real files in a temp dir) and on the Lean model; non-trivial = the file carries the magic (trailer actually parsed) or op is append",
    nontrivial=lambda op, out: op.startswith("append") or "4d55544943464700" in op,
    trusted_base=[
        "MM/Model/C36.lean models os.File.ReadAt/Stat, make() and int64(uint64) as explicit primitives (modelled, not verified)",
        "constants Magic/XORKey/FooterSize regenerated from the compiled package on every run (MM/Gen/C36.lean)",
    ],
    assumptions=[
        "file size <= 2^48 bytes (amd64 maxAlloc) — hypothesis hsz of the theorems",
        "AppendConfig's write path (os.OpenFile/Write) is exercised by T-diff only",
    ],
    manifest=dict(
        category="proof",
        text="Lean theorems C36_roundtrip, C36_strip, C36_total over a byte-level model of internal/embed for ALL files and ALL 64-bit trailer "
             "values; model tied to the code by regenerated constants and a differential run of the real package on generated files",
        design_ref="DESIGN.md section 5 C36",
        note="Lean kernel; model of ReadAt/make/int64 conversion; T-diff generator coverage; files below 2^48 bytes",
        technique="Lean 4 proof (round-trip + totality by case analysis) + differential correspondence harness",
    ),
)
