PROP = dict(
    id="C37",
    engines=["c37"],
    go_tags=["c37"],
    gen_files={"MM/Gen/C37.lean": "c37"},
    lean_modules=["MM.Props.C37"],
    theorems=[
        "MM.C37.C37_pattern_tie",
        "MM.C37.C37_no_dollar_id",
        "MM.C37.C37_single_pass",
        "MM.C37.C37_value_verbatim",
        "MM.C37.C37_value_verbatim_default",
        "MM.C37.C37_env_congr",
        "MM.C37.C37_set_brace",
        "MM.C37.C37_set_bare",
        "MM.C37.C37_default",
        "MM.C37.C37_unset_kept_brace",
        "MM.C37.C37_unset_kept_bare",
    ],
    spec=True,
    rule="texts = 1..10 pieces from a grammar dense in `$ { } : - _`, identifiers, complete/incomplete reference forms, multi-byte and "
         "invalid UTF-8, NUL; environment = random subset of the names occurring in the text and of a fixed pool (incl. keys with ':', "
         "'-', space, non-ASCII), values mostly reference look-alikes; the process environment is cleared and set per op; the real "
         "expandEnvVars (through an in-package accessor) is compared with the Lean model; non-trivial = the text contains '$'",
    nontrivial=lambda op, out: len(op.split()) > 1 and "24" in op.split()[1],
    trusted_base=[
        "MM/Model/C37.lean is a byte-level reading of the regexp `\\$\\{([^}]+)\\}|\\$([A-Za-z_][A-Za-z0-9_]*)` under Go's leftmost-first "
        "ReplaceAllStringFunc; exactness on non-ASCII/invalid UTF-8 argued in the model header and exercised by T-diff",
        "os.LookupEnv modelled as a partial map (theorems hold for every map)",
    ],
    assumptions=[
        "the regexp is tied by its source text (C37_pattern_tie on the regenerated envVarRegex.String()) and by behaviour (T-diff); the "
        "reading of that pattern as the byte-level matcher of the model is by inspection",
    ],
    manifest=dict(
        category="proof",
        text="Lean theorems over a byte-level model of expandEnvVars for ALL texts and ALL environments: identity without '$', env-independent "
             "tokenisation that partitions the text with every token mapped once and values emitted verbatim, set/default/unset-kept for "
             "${V}, ${V:-d} and $V in any context; model tied to the code by a differential run of the real function",
        design_ref="DESIGN.md section 5 C37",
        note="Lean kernel; byte-level model of Go regexp semantics; T-diff generator coverage",
        technique="Lean 4 proof (tokenizer lemmas, structural induction) + differential correspondence harness",
    ),
)


def before_diff(c):
    """Keep the oracle available when a regenerated fact breaks the theorems (the engine needs the model only)."""
    import os
    import shutil
    import vlib

    if getattr(c, "lake_ok", True) or not c.harness or "c37" in c.drivers:
        return
    ok, _out, _failed = vlib.lake_build(["drv_c37"])
    src = os.path.join(vlib.LEAN, ".lake", "build", "bin", "drv_c37")
    if ok and os.path.exists(src):
        dst = os.path.join(c.tmp, "drv_c37")
        shutil.copy2(src, dst)
        c.drivers["c37"] = dst
