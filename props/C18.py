PROP = dict(
    id="C18",
    engines=["c18"],
    go_tags=["c18"],
    gen_files={"MM/Gen/C18.lean": "c18"},
    extract_files={"MM/Gen/LockC18.lean": {"cmd": ["go", "run", "{VERIF}/tools/lockshape.go", "LockC18",
        "{REPO}/internal/stream/manager.go", "Stream.CloseWrite,Stream.HandleRemoteFinWrite,Stream.Close,Stream.PushData,Stream.Read", "mu",
        "state,localFinWrite,remoteFinWrite,remoteFinCh,closed,readBuffer"]},
        "MM/Gen/LockC18m.lean": {"cmd": ["go", "run", "{VERIF}/tools/lockshape.go", "LockC18m",
        "{REPO}/internal/stream/manager.go", "Manager.HandleStreamData,Manager.RemoveStream,Manager.HandleStreamReset", "mu",
        "streams,onStreamData,onStreamClose"]}},
    lean_modules=["MM.Props.C18"],
    theorems=[
        "MM.C18.cap_tie",
        "MM.C18.C18_lock_state_transitions",
        "MM.C18.C18_lock_fin_flags",
        "MM.C18.C18_lock_closewrite_once",
        "MM.C18.C18_lock_state_rmw_one_region",
        "MM.C18.C18_lock_manager_calls_streams_unlocked",
        "MM.C18.C18_blocked_push_released_by_close",
        "MM.C18.C18_data_before_eof",
        "MM.C18.C18_fifo",
        "MM.C18.C18_frames_may_arrive_later",
        "MM.C18.C18_finfirst_loses_data",
        "MM.C18.C18_write_refused_after_local_fin",
        "MM.C18.C18_read_after_local_fin",
        "MM.C18.C18_race_serializable",
        "MM.C18.C18_transitions",
        "MM.C18.C18_close_targets_one",
    ],
    spec=True,
    rule="cases = (a) every frame sequence up to length 3 (quick) / 5 (thorough) over {data, data+FIN, FIN, close, reset} x reader parked "
         "before each frame or not, with the verifhook release between queuing the payload and signalling FIN; (b) random cases over two "
         "streams mixing OpenStream/ack, hooked and plain frames, reads, CloseWrite, Close, STREAM_CLOSE, STREAM_RESET, unknown ids; "
         "(c) the 64-chunk capacity case; (d) `race`: 30000 (quick) / 300000 (thorough) fresh streams with HandleRemoteFinWrite run against CloseWrite resp. Close behind a spin barrier, final state must be serialisable. Every op runs on the real stream.Manager/Stream (reader goroutine parked in Read) and on the "
         "Lean LTS; non-trivial = a reader answer (data/eof) was produced or a FIN/close/reset was processed",
    nontrivial=lambda op, out: ("data:" in out or "=eof" in out or op.startswith(("rclose", "rreset", "close"))
                                or (op.startswith("frame") and op.split()[2] == "1")),
    trusted_base=[
        "MM/Model/C18.lean: atomic steps = critical sections / channel operations / select statements of internal/stream/manager.go "
        "(sync.Mutex, sync.Once, channel close and select atomicity are assumed, not modelled)",
        "the engine appends each delivered frame to the model's `frames` list (covered by C18_frames_may_arrive_later); everything else is LTS steps",
        "cap(readBuffer) regenerated from the compiled package on every run (MM/Gen/C18.lean)",
        "scheduling hook internal/verifhook (build tag verif) — fixes/hook-verifhook.patch",
    ],
    assumptions=[
        "one reader per stream (Read is not called concurrently on the same stream)",
        "frames of one stream are dispatched sequentially (peer.Connection.drainFrames)",
        "EOF caused by Close/STREAM_CLOSE/STREAM_RESET (closed channel) is outside C18_data_before_eof: teardown may drop queued data",
    ],
    manifest=dict(
        category="proof",
        text="Lean theorems C18_data_before_eof, C18_write_refused_after_local_fin, C18_transitions, C18_close_targets_one over an LTS of "
             "stream.Stream/Manager for ALL frame sequences and ALL interleavings of frame handler, reader and local side; model tied to the "
             "code by a differential run of the real package with a parked reader released at a verif scheduling point",
        design_ref="DESIGN.md section 5 C18",
        note="Lean kernel; LTS at lock/select granularity; single reader; T-diff generator coverage",
        technique="Lean 4 proof (invariants of a labelled transition system) + differential correspondence harness with scheduling hook",
    ),
)


def extra(c):
    """When a proof/tie obligation of C18 broke (e.g. a lock-shape theorem), the Lean driver may be
    unavailable, so the generic failing-input search cannot run. The race stress op needs no model:
    its answer is `race-ok` exactly when every outcome was serialisable. Run it on the real code and
    attach a concrete failing outcome to the violation when one shows up."""
    broken = any(not o["ok"] for o in c.obligations) or c.violations
    if not broken or not c.harness:
        return
    ops = ["reset", "race cw 400000", "race close 400000"]
    outs = c.go_run("c18", ops, timeout=300)
    bad = [o for o in outs if o.startswith("race-bad")]
    if bad:
        c.violate("race stress: HandleRemoteFinWrite against CloseWrite/Close left a stream in a state no serial order produces "
                  "(state/localFin/remoteFin/CanWrite = %s)" % bad[0].split(" ")[0][len("race-bad:"):],
                  {"engine": "c18", "origin": "props/C18.py extra(): race stress", "ops": ops, "impl_outputs": outs}, True)
