PROP = dict(
    id="C09",
    engines=["c09"],
    go_tags=["c09"],
    extract_files={
        "MM/Gen/LockC09d.lean": {"cmd": ["go", "run", "{VERIF}/tools/lockshape.go", "LockC09d", "{REPO}/internal/routing/domain.go", "DomainTable.AddRoute,DomainTable.RemoveRoute,DomainTable.RemoveRoutesFromPeer,DomainTable.CleanupStaleRoutes,DomainTable.Clear,DomainTable.Lookup,DomainTable.HasRoute", "mu", "exactRoutes,wildcardBase"]},
        "MM/Gen/LockC09f.lean": {"cmd": ["go", "run", "{VERIF}/tools/lockshape.go", "LockC09f", "{REPO}/internal/routing/forward.go", "ForwardTable.AddRoute,ForwardTable.RemoveRoute,ForwardTable.RemoveRoutesFromPeer,ForwardTable.CleanupStaleRoutes,ForwardTable.Clear,ForwardTable.Lookup,ForwardTable.HasRoute", "mu", "routes"]},
        "MM/Gen/LockC09a.lean": {"cmd": ["go", "run", "{VERIF}/tools/lockshape.go", "LockC09a", "{REPO}/internal/routing/agent.go", "AgentTable.AddRoute,AgentTable.RemoveRoute,AgentTable.RemoveRoutesFromPeer,AgentTable.CleanupStaleRoutes,AgentTable.Clear,AgentTable.Lookup,AgentTable.GetRoutesForAgent", "mu", "routes"]},
    },
    lean_modules=["MM.Props.C09"],
    theorems=[
        "MM.C09.matchesB_iff",
        "MM.C09.C09_inv_domain",
        "MM.C09.C09_inv_forward",
        "MM.C09.C09_inv_agent",
        "MM.C09.C09_domain_correct",
        "MM.C09.C09_exact_first",
        "MM.C09.C09_wildcard_one_label",
        "MM.C09.C09_domain_none_iff",
        "MM.C09.C09_forward_correct",
        "MM.C09.C09_agent_correct",
        "MM.C09.C09_holds",
    ],
    spec=True,
    chunk=3000,
    rule="histories on real DomainTable / ForwardTable / AgentTable: patterns from a label pool with mixed case, 1-4 labels, `*.x`, `*.a.b`, "
         "` *.x`, `*.`, `*`, stray/leading/trailing dots, empty, caller-supplied IsWildcard/BaseDomain that need not fit the pattern, long labels "
         "(62..4097 bytes); lookups of names derived from the stored patterns (0-2 extra labels, flipped case, leading dot); forward keys incl. "
         "empty and spaced; agent ids with (origin, next hop) slots; metrics/sequences at uint16/uint64 boundaries; disconnect / age / cleanup / "
         "clear / size / has; long histories (800 ops), slices of 30-260 entries under one key, tables with hundreds of keys. Answers and full "
         "dumps compared with the Lean model; `spec` re-evaluates exact-before-wildcard / one-label / lowest-metric / none-iff on the "
         "implementation's own answers. Non-trivial = a lookup that returned a route, or an accepted mutation.",
    nontrivial=lambda op, out: out.startswith(("route", "routes E", "true", "1 ", "2 ", "3 ", "4 ", "5 ")),
    trusted_base=[
        "tools/lockshape.go (go/ast): the lock-shape facts MM/Gen/Lock*.lean the atomic-step theorems are decided on; goroutine scheduling "
        "inside one critical section and sync.RWMutex itself are assumed, not modelled",
        "strings.ToLower / strings.TrimSpace: model and theorems are parametric in them (structure Str); the ASCII behaviour is implemented in "
        "Lean and T-diffed, for non-ASCII / ill-formed strings the generator states Go's own result in `oracle` lines which the harness "
        "re-verifies against the standard library when the script runs",
        "the two maps of DomainTable are modelled as one map keyed by (wildcard?, lower-cased key)",
        "sort.Slice is not stable: both sides print every run of equal metric sorted by text, a lookup answer is `anyof` over the first run "
        "(covers slices of more than 12 entries with ties)",
        "routes are aged through a verif accessor that shifts LastUpdate (harness/exports/internal__routing/c09.go)",
    ],
    assumptions=[
        "each table method is one atomic step: tied to the source by the *_atomic_steps theorems (one lock acquisition per method, route map "
        "touched only under the write lock in mutators, read under R/W in lookups) and exercised by the `race` stress op (goroutines released at "
        "once, up to 400 attempts per op, outcome must be a well-formed table equal to the result of some serial order)",
        "'case-insensitively' is read as 'equal after strings.ToLower' (what the code does): this is not Unicode case-folding equality "
        "(strings.EqualFold) - e.g. long s / final sigma do not match their capitals, dotted capital I matches i - and every ill-formed UTF-8 "
        "byte folds to U+FFFD, so distinct ill-formed names share a key (observed on the real code; not counted as a violation)",
        "`Matches` reads IsWildcard / BaseDomain as stored (the table trusts its caller for them, as DomainTable.AddRoute does)",
    ],
    manifest=dict(
        category="proof",
        text="Lean theorem C09_holds: for every history and every name, DomainTable.Lookup returns an applicable stored route, exact "
             "(case-insensitive) before wildcard, a wildcard only for exactly one extra label, lowest metric within the chosen pattern, nothing iff "
             "nothing applies; ForwardTable / AgentTable lookups return the lowest-metric route of the key, nothing iff none is stored. Model tied "
             "to the code by a differential run of the three real tables against the compiled model.",
        design_ref="DESIGN.md section 5 C09",
        note="Lean kernel; strings.ToLower/TrimSpace as parameters (ASCII modelled, else Go oracle); tie-run normalisation for sort.Slice; T-diff generator coverage",
        technique="Lean 4 proof (inductive invariant, generic keyed table) + differential correspondence harness + executable statement on impl answers",
    ),
)


# --- atomic-step tie ---------------------------------------------------------------------------
# The lock-shape theorems live in their own Lean module and are built here, not in the main build:
# when they break (a critical section was split or an access moved out of it) the model and the
# driver still build, so the differential run and the failing-input search (concurrency stress op
# `race`) can still look for a concrete bad outcome.
LOCK_MODULE = "MM.Props.C09Lock"
LOCK_THEOREMS = ['MM.C09.C09_atomic_steps_domain', 'MM.C09.C09_atomic_steps_forward', 'MM.C09.C09_atomic_steps_agent']


def before_diff(c):
    import vlib
    ok, out, failed = vlib.lake_build([LOCK_MODULE])
    if not ok:
        c.oblige("tie:atomic-steps(" + LOCK_MODULE + ")", "tie", False,
                 "a table method no longer is one critical section under the write lock (see MM/Gen/Lock*.lean):\n" + "\n".join(failed) + "\n" + out[-1500:])
        return
    res, text = vlib.audit_axioms([LOCK_MODULE], LOCK_THEOREMS)
    for t in LOCK_THEOREMS:
        ax = res.get(t)
        c.axioms[t] = ax
        c.oblige("thm:" + t, "thm", ax is not None and all(a in vlib.ALLOWED_AXIOMS for a in ax), "axioms: " + ", ".join(ax or ["<missing>"]))
    hits = vlib.grep_forbidden([vlib.module_file(m) for m in vlib.transitive_local_imports([LOCK_MODULE])])
    c.oblige("no-sorry-admit-native_decide-axiom(lock)", "audit", not hits, "\n".join(hits))
