PROP = dict(
    id="C09",
    engines=["c09"],
    go_tags=["c09"],
    lean_modules=["MM.Props.C09"],
    theorems=[
        "MM.C09.matchesB_iff",
        "MM.C09.C09_inv_domain",
        "MM.C09.C09_inv_forward",
        "MM.C09.C09_inv_agent",
        "MM.C09.C09_domain_correct",
        "MM.C09.C09_exact_first",
        "MM.C09.C09_wildcard_one_label",
        "MM.C09.C09_domain_none_iff",
        "MM.C09.C09_forward_correct",
        "MM.C09.C09_agent_correct",
        "MM.C09.C09_holds",
    ],
    spec=True,
    chunk=3000,
    rule="histories on real DomainTable / ForwardTable / AgentTable: patterns from a label pool with mixed case, 1-4 labels, `*.x`, `*.a.b`, "
         "` *.x`, `*.`, `*`, stray/leading/trailing dots, empty, caller-supplied IsWildcard/BaseDomain that need not fit the pattern, long labels "
         "(62..4097 bytes); lookups of names derived from the stored patterns (0-2 extra labels, flipped case, leading dot); forward keys incl. "
         "empty and spaced; agent ids with (origin, next hop) slots; metrics/sequences at uint16/uint64 boundaries; disconnect / age / cleanup / "
         "clear / size / has; long histories (800 ops), slices of 30-260 entries under one key, tables with hundreds of keys. Answers and full "
         "dumps compared with the Lean model; `spec` re-evaluates exact-before-wildcard / one-label / lowest-metric / none-iff on the "
         "implementation's own answers. Non-trivial = a lookup that returned a route, or an accepted mutation.",
    nontrivial=lambda op, out: out.startswith(("route", "routes E", "true", "1 ", "2 ", "3 ", "4 ", "5 ")),
    trusted_base=[
        "MM/Model/C09.lean: strings.ToLower / TrimSpace / Index modelled on ASCII bytes (the generator stays below 0x80; Go's Unicode folding "
        "outside that alphabet is not modelled)",
        "the two maps of DomainTable are modelled as one map keyed by (wildcard?, lower-cased key)",
        "sort.Slice modelled as the stable sort: exact for slices of <= 12 entries and for pairwise distinct metrics",
        "routes are aged through a verif accessor that shifts LastUpdate (harness/exports/internal__routing/c09.go)",
    ],
    assumptions=[
        "domain names and forward keys are ASCII",
        "`Matches` reads IsWildcard / BaseDomain as stored (the table trusts its caller for them, as DomainTable.AddRoute does)",
    ],
    manifest=dict(
        category="proof",
        text="Lean theorem C09_holds: for every history and every name, DomainTable.Lookup returns an applicable stored route, exact "
             "(case-insensitive) before wildcard, a wildcard only for exactly one extra label, lowest metric within the chosen pattern, nothing iff "
             "nothing applies; ForwardTable / AgentTable lookups return the lowest-metric route of the key, nothing iff none is stored. Model tied "
             "to the code by a differential run of the three real tables against the compiled model.",
        design_ref="DESIGN.md section 5 C09",
        note="Lean kernel; ASCII model of ToLower/TrimSpace; stable-sort model of sort.Slice; T-diff generator coverage",
        technique="Lean 4 proof (inductive invariant, generic keyed table) + differential correspondence harness + executable statement on impl answers",
    ),
)
